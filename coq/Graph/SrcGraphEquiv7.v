(* Source-text tie, seventh tranche: two methods of the children facade _ChildrenList that gen/SrcGraph.v translates
   from the current text of src/pjplan/task.py - children.move(tasks, before=, after=) (src_ch_move with its two lifted
   loops) and children.insert(index, task) (src_ch_insert) - against the hand-written model of Graph/Model.v
   (ch_move = ch_move_guard + ch_move_write, ch_insert).

   move: the code checks its arguments (every RuntimeError is Err, in the model's order), then, task by task,
   `self._list.remove(task)` and `self._list.insert(self._list.index(anchor) [+ 1], task)` on the private list of the
   owner; the model folds move_one (= ins_near after remove1) over the tasks and writes the list once.  list.remove and
   list.index raise ValueError when the element is absent: the guards exclude that at every step (the anchor is not
   one of the moved tasks, so it stays; a moved task is put back at once, so it is there again when it is named a second
   time).  NO hypothesis on the state is needed - not even that the children list is duplicate free.
   insert: the range check against the length the list will have, `task.parent = owner` (src_set_parent_eq: here the
   state has to be well formed), then the anchor `self[index]` is read from the list the setter left (the old list
   without the task, the task last), and move(task, before=anchor) is called unless the anchor is the task. *)
From Coq Require Import Permutation.
From PJ Require Import Base.Prelude Graph.Model Graph.Invariant gen.SrcGraph Graph.SrcGraphEquiv Graph.SrcGraphEquiv2
                       Graph.SrcGraphEquiv3 Graph.SrcGraphEquiv4 Graph.SrcGraphEquiv5 Graph.OracleProofs Graph.LinksProofs
                       Graph.ParentProofs Graph.ParentOps Graph.AtomicProofs Graph.EffectProofs.
Local Open Scope nat_scope.

(* ================================================================== *)
(** * Python's list.index / list.insert against ins_near *)

Lemma f7_index_from a t : forall l k, In a l ->
  exists j, src_index_from l a k = Ok (k + Z.of_nat j)%Z /\ j < length l /\
            ins_near true a t l = firstn j l ++ t :: skipn j l /\
            ins_near false a t l = firstn (S j) l ++ t :: skipn (S j) l.
Proof.
  induction l as [|y r IH]; intros k H; [destruct H|].
  cbn [src_index_from ins_near]. destruct (Nat.eqb y a) eqn:E.
  - exists 0. rewrite Z.add_0_r. cbn [length firstn skipn app]. repeat split; try reflexivity. lia.
  - assert (H' : In a r).
    { destruct H as [->|H]; [rewrite Nat.eqb_refl in E; discriminate E | exact H]. }
    destruct (IH (k + 1)%Z H') as (j & E1 & Lj & E2 & E3). exists (S j).
    rewrite E1. split; [f_equal; lia|]. split; [cbn [length]; lia|].
    rewrite E2, E3. split; reflexivity.
Qed.

Lemma f7_insert_nat j t l : j <= length l -> src_list_insert (Z.of_nat j) t l = firstn j l ++ t :: skipn j l.
Proof.
  intro H. unfold src_list_insert. cbv zeta. destruct (Z.ltb_spec (Z.of_nat j) 0) as [L|_]; [lia|].
  rewrite Z.min_l by lia. rewrite Nat2Z.id. reflexivity.
Qed.

(* the anchor is in the list: index does not raise, and insert at that position [+ 1] is ins_near *)
Lemma f7_index_insert a t l : In a l ->
  exists k, src_list_index l a = Ok k /\
            src_list_insert k t l = ins_near true a t l /\
            src_list_insert (k + 1) t l = ins_near false a t l.
Proof.
  intro H. destruct (f7_index_from a t l 0%Z H) as (j & E1 & Lj & E2 & E3).
  exists (Z.of_nat j). unfold src_list_index. rewrite E1. split; [reflexivity|]. split.
  - rewrite f7_insert_nat by lia. symmetry; exact E2.
  - replace (Z.of_nat j + 1)%Z with (Z.of_nat (S j)) by lia. rewrite f7_insert_nat by lia. symmetry; exact E3.
Qed.

(* absent: index raises ValueError (what the guards of move exclude) *)
Lemma f7_index_absent a : forall l k, ~ In a l -> src_index_from l a k = Crash ValueError.
Proof.
  induction l as [|y r IH]; intros k N; [reflexivity|]. cbn [src_index_from].
  destruct (Nat.eqb y a) eqn:E.
  - apply Nat.eqb_eq in E. exfalso. apply N. left; exact E.
  - apply IH. intro H. apply N. right; exact H.
Qed.

Lemma f7_in_remove1 a t : forall l, In a l -> a <> t -> In a (remove1 t l).
Proof.
  induction l as [|y r IH]; intros H N; [destruct H|]. cbn [remove1].
  destruct (Nat.eqb t y) eqn:E.
  - apply Nat.eqb_eq in E. destruct H as [H|H]; [congruence | exact H].
  - destruct H as [H|H]; [left; exact H | right; apply IH; assumption].
Qed.

(* ================================================================== *)
(** * writes of one children list *)

Lemma f7_in_heap h o x : In x (kids (get h o)) -> o < length h.
Proof.
  intro H. destruct (Nat.lt_ge_cases o (length h)) as [L|G]; [exact L|].
  rewrite get_ge in H by exact G. destruct H.
Qed.

Lemma f7_upd_fun h o (F : list obj -> list obj) :
  upd h o (fun T => with_kids (F (kids T)) T) = upd h o (with_kids (F (kids (get h o)))).
Proof.
  destruct (Nat.lt_ge_cases o (length h)) as [L|G]; [|rewrite !upd_ge by exact G; reflexivity].
  apply heap_ext; [rewrite !upd_length; reflexivity|]. intro x.
  destruct (Nat.eq_dec o x) as [<-|N]; [rewrite !get_upd_same by exact L; reflexivity|].
  rewrite !get_upd_other by exact N. reflexivity.
Qed.

Lemma f7_upd_upd h o l1 l2 : upd (upd h o (with_kids l1)) o (with_kids l2) = upd h o (with_kids l2).
Proof.
  destruct (Nat.lt_ge_cases o (length h)) as [L|G]; [|rewrite !upd_ge by (rewrite ?upd_length; exact G); reflexivity].
  apply heap_ext; [rewrite !upd_length; reflexivity|]. intro x.
  destruct (Nat.eq_dec o x) as [<-|N].
  - rewrite !get_upd_same by (rewrite ?upd_length; exact L). reflexivity.
  - rewrite !get_upd_other by exact N. reflexivity.
Qed.

Lemma f7_upd_id h o : upd h o (with_kids (kids (get h o))) = h.
Proof.
  destruct (Nat.lt_ge_cases o (length h)) as [L|G]; [|rewrite upd_ge by exact G; reflexivity].
  apply heap_ext; [apply upd_length|]. intro x.
  destruct (Nat.eq_dec o x) as [<-|N].
  - rewrite get_upd_same by exact L. destruct (get h o); reflexivity.
  - apply get_upd_other. exact N.
Qed.

Lemma f7_kids_upd h o l : o < length h -> kids (get (upd h o (with_kids l)) o) = l.
Proof. intro L. rewrite get_upd_same by exact L. reflexivity. Qed.

(* ================================================================== *)
(** * children.move: the loops *)

(* one turn of the moving loop, as the generated text reads *)
Lemma f7_loop1_cons h0 o ts before after t1 t l h7 :
  src_ch_move_loop1 h0 o ts before after t1 (t :: l) h7 =
  if memn t (kids (get h7 o)) then
    let h11 := upd h7 o (fun T => with_kids (remove1 t (kids T)) T) in
    match before with
    | Some b => do ix <- src_list_index (kids (get h11 o)) b;
                src_ch_move_loop1 h0 o ts before after t1 l
                  (upd h11 o (fun T => with_kids (src_list_insert ix t (kids T)) T))
    | None => match after with
              | None => Crash ValueError
              | Some y => do ix <- src_list_index (kids (get h11 o)) y;
                          src_ch_move_loop1 h0 o ts before after t1 l
                            (upd h11 o (fun T => with_kids (src_list_insert (ix + 1) t (kids T)) T))
              end
    end
  else Crash ValueError.
Proof. reflexivity. Qed.

(* the moving loop: every remove / index finds its element, and the list written last is the model's fold *)
Lemma f7_loop1_eq h0 o ts before after t1 (bf : bool) (a : obj) :
  (before = Some a /\ bf = true) \/ (before = None /\ after = Some a /\ bf = false) ->
  forall l h7, In a (kids (get h7 o)) -> ~ In a l -> (forall t, In t l -> In t (kids (get h7 o))) ->
  src_ch_move_loop1 h0 o ts before after t1 l h7
  = Ok (upd h7 o (with_kids (fold_left (move_one bf a) l (kids (get h7 o)))), tt).
Proof.
  intro Hc. induction l as [|t l IH]; intros h7 Ha Na Hl.
  - cbn [src_ch_move_loop1 fold_left]. rewrite f7_upd_id. reflexivity.
  - rewrite f7_loop1_cons. cbv zeta.
    pose proof (f7_in_heap h7 o a Ha) as Lo.
    assert (Ht : In t (kids (get h7 o))) by (apply Hl; left; reflexivity).
    assert (Nat_ : a <> t) by (intro E; apply Na; left; symmetry; exact E).
    rewrite (proj2 (memn_In t _) Ht).
    set (K := kids (get h7 o)) in *.
    rewrite (f7_upd_fun h7 o (remove1 t)). fold K.
    rewrite (f7_kids_upd h7 o _ Lo).
    assert (Ha' : In a (remove1 t K)) by (apply f7_in_remove1; assumption).
    destruct (f7_index_insert a t (remove1 t K) Ha') as (k & Ei & Eb & Ea).
    assert (P : Permutation (move_one bf a K t) K) by (apply move_one_perm; exact Ht).
    assert (Step : forall ix, src_list_insert ix t (remove1 t K) = move_one bf a K t ->
              src_ch_move_loop1 h0 o ts before after t1 l
                (upd (upd h7 o (with_kids (remove1 t K))) o (fun T => with_kids (src_list_insert ix t (kids T)) T))
              = Ok (upd h7 o (with_kids (fold_left (move_one bf a) (t :: l) K)), tt)).
    { intros ix Eix.
      rewrite (f7_upd_fun _ o (src_list_insert ix t)).
      rewrite (f7_kids_upd h7 o _ Lo). rewrite f7_upd_upd. rewrite Eix.
      rewrite IH.
      - rewrite (f7_kids_upd h7 o _ Lo). rewrite f7_upd_upd. reflexivity.
      - rewrite (f7_kids_upd h7 o _ Lo). apply (Permutation_in _ (Permutation_sym P)). exact Ha.
      - intro H. apply Na. right; exact H.
      - intros x Hx. rewrite (f7_kids_upd h7 o _ Lo). apply (Permutation_in _ (Permutation_sym P)).
        apply Hl. right; exact Hx. }
    destruct Hc as [(-> & ->)|(-> & -> & ->)]; rewrite Ei; cbn [bind]; apply Step; unfold move_one; assumption.
Qed.

(* the first loop of the guards: every task named is in the list *)
Lemma f7_loop2_eq h o ts before after t1 : forall l,
  src_ch_move_loop2 h o ts before after t1 l
  = if forallb (fun t => memn t (kids (get h o))) l then src_ch_move_loop2 h o ts before after t1 [] else Err.
Proof.
  induction l as [|t l IH]; [reflexivity|].
  cbn [src_ch_move_loop2 forallb]. change (existsb (Nat.eqb t) (kids (get h o))) with (memn t (kids (get h o))).
  destruct (memn t (kids (get h o))); [exact IH | reflexivity].
Qed.

(* ================================================================== *)
(** * children.move: same outcome, and on acceptance the same heap - on EVERY state *)

Theorem src_ch_move_eq : forall s o ts before after,
  src_ch_move (hp s) o ts before after = lift_set s (ch_move s o ts before after).
Proof.
  intros s o ts before after. unfold src_ch_move. cbv zeta. rewrite f7_loop2_eq.
  unfold ch_move, ch_move_guard, lift_set. cbv zeta.
  set (K := kids (get (hp s) o)). set (T := somes ts).
  destruct (forallb (fun t => memn t K) T) eqn:F; cbn [negb failif bind mk snd]; [|reflexivity].
  assert (HT : forall t, In t T -> In t K).
  { intros t Ht. apply memn_In. apply (proj1 (forallb_forall _ _) F t Ht). }
  cbn [src_ch_move_loop2]. cbv beta zeta. fold K.
  destruct before as [b|], after as [a|].
  - change (existsb (Nat.eqb b) K) with (memn b K). change (existsb (Nat.eqb a) K) with (memn a K).
    destruct (memn b K); cbn [negb failif bind mk snd]; [|reflexivity].
    destruct (memn a K); cbn [negb failif bind mk snd]; reflexivity.
  - change (existsb (Nat.eqb b) K) with (memn b K). change (existsb (Nat.eqb b) T) with (memn b T).
    destruct (memn b K) eqn:Mb; cbn [negb failif bind mk snd]; [|reflexivity].
    destruct (memn b T) eqn:Mt; cbn [negb failif bind mk snd fst]; [reflexivity|].
    apply memn_In in Mb. apply memn_notIn in Mt.
    rewrite (f7_loop1_eq (hp s) o ts (Some b) None T true b); try assumption; [|left; split; reflexivity].
    reflexivity.
  - change (existsb (Nat.eqb a) K) with (memn a K). change (existsb (Nat.eqb a) T) with (memn a T).
    destruct (memn a K) eqn:Ma; cbn [negb failif bind mk snd]; [|reflexivity].
    destruct (memn a T) eqn:Mt; cbn [negb failif bind mk snd fst]; [reflexivity|].
    apply memn_In in Ma. apply memn_notIn in Mt.
    rewrite (f7_loop1_eq (hp s) o ts None (Some a) T false a); try assumption; [|right; repeat split; reflexivity].
    reflexivity.
  - reflexivity.
Qed.

(* ================================================================== *)
(** * children.insert *)

(* lst[i] inside the range: no IndexError, the element at Python's index *)
Lemma f7_list_get {A} (l : list A) (i : Z) (d : A) :
  ((- Z.of_nat (length l) <=? i) && (i <? Z.of_nat (length l)))%Z = true ->
  src_list_get l i = Ok (nth (py_index i (length l)) l d).
Proof.
  intro R. pose proof (py_index_range i (length l) R) as Lp.
  apply andb_true_iff in R. destruct R as [R1 R2]. apply Z.leb_le in R1. apply Z.ltb_lt in R2.
  unfold src_list_get, py_index in *. cbv zeta.
  set (j := (if (i <? 0)%Z then (Z.of_nat (length l) + i)%Z else i)) in *.
  assert (Hj : (0 <= j < Z.of_nat (length l))%Z) by (unfold j; destruct (Z.ltb_spec i 0); lia).
  destruct (Z.leb_spec 0 j) as [_|B]; [|lia]. destruct (Z.ltb_spec j (Z.of_nat (length l))) as [_|B]; [|lia].
  cbn [andb]. rewrite (nth_error_nth' l d Lp). reflexivity.
Qed.

(* outside the range: IndexError *)
Lemma f7_list_get_out {A} (l : list A) (i : Z) :
  ((- Z.of_nat (length l) <=? i) && (i <? Z.of_nat (length l)))%Z = false ->
  src_list_get l i = Crash IndexError.
Proof.
  intro R. unfold src_list_get. cbv zeta.
  set (j := (if (i <? 0)%Z then (Z.of_nat (length l) + i)%Z else i)).
  destruct ((0 <=? j)%Z && (j <? Z.of_nat (length l))%Z) eqn:E; [|reflexivity].
  exfalso. apply andb_true_iff in E. destruct E as [E1 E2]. apply Z.leb_le in E1. apply Z.ltb_lt in E2.
  apply andb_false_iff in R. unfold j in *.
  destruct (Z.ltb_spec i 0); destruct R as [R|R]; [apply Z.leb_gt in R | apply Z.ltb_ge in R
                                                   | apply Z.leb_gt in R | apply Z.ltb_ge in R]; lia.
Qed.

Lemma f7_filter_without t' l : filter (fun t2 => negb (onat_eqb (Some t2) (Some t'))) l = without t' l.
Proof.
  unfold without. apply filter_ext. intro x. unfold onat_eqb. cbn [opt_eqb]. rewrite Nat.eqb_sym. reflexivity.
Qed.

Theorem src_ch_insert_eq : forall s (o : obj) (i : Z) (t : option obj), WF s -> hid_tid (hp s) -> o < length (hp s) ->
  (forall t', t = Some t' -> t' < length (hp s)) ->
  src_ch_insert (S (S (length (hp s)))) (wroots s) (hp s) o i t = lift_set s (ch_insert s o i t).
Proof.
  intros s o i t W Hh Lo Lt. destruct t as [t'|]; [|reflexivity].
  pose proof (Lt t' eq_refl) as Lt'.
  assert (Lo' : forall p', @Some obj o = Some p' -> p' < length (hp s)) by (intros p' E; inversion E; subst; exact Lo).
  pose proof (WF_I_pc s W) as Pc.
  unfold src_ch_insert, ch_insert. cbn [src_check_not_none bind]. cbv zeta.
  rewrite map_length, f7_filter_without.
  set (Wl := without t' (kids (get (hp s) o))).
  replace (Z.of_nat (length Wl) + 1)%Z with (Z.of_nat (S (length Wl))) by lia.
  destruct (- Z.of_nat (S (length Wl)) <=? i)%Z eqn:R1; cbn [andb negb]; [|reflexivity].
  destruct (i <? Z.of_nat (S (length Wl)))%Z eqn:R2; cbn [andb negb]; [|reflexivity].
  rewrite (src_set_parent_eq s t' (@Some obj o) W Hh Lt' Lo').
  unfold andthen, set_parent.
  destruct (set_parent_guard s t' (@Some obj o)) as [[]| |k] eqn:G; cbn [mk snd fst lift_set bind]; try reflexivity.
  unfold lift_set at 1. cbn [snd fst bind].
  set (s1 := set_parent_write s t' (@Some obj o)).
  assert (K : kids (get (hp s1) o) = Wl ++ [t']).
  { apply set_parent_write_kids; [exact Lo | apply I_pc_nodup; exact Pc | apply I_pc_down; exact Pc]. }
  assert (Len : length (kids (get (hp s1) o)) = S (length Wl)).
  { rewrite K, app_length. cbn [length]. lia. }
  rewrite (f7_list_get (kids (get (hp s1) o)) i t') by (rewrite Len, R1, R2; reflexivity).
  cbn [bind]. set (l := kids (get (hp s1) o)) in *. set (anchor := nth (py_index i (length l)) l t').
  assert (Lp : py_index i (length l) < length l).
  { apply py_index_range. rewrite Len, R1, R2. reflexivity. }
  unfold onat_eqb. cbn [opt_eqb].
  destruct (Nat.eqb anchor t') eqn:E; cbn [negb]; [reflexivity|].
  rewrite (src_ch_move_eq s1 o [@Some obj t'] (@Some obj anchor) None).
  assert (Ht : memn t' l = true) by (apply memn_In; rewrite K; apply in_or_app; right; left; reflexivity).
  assert (Han : memn anchor l = true) by (apply memn_In; apply nth_In; exact Lp).
  unfold ch_move, ch_move_guard, ch_move_write. cbv zeta. fold l. cbn [somes forallb].
  rewrite Ht, Han. cbn [andb negb failif bind]. unfold memn at 1. cbn [existsb]. rewrite E.
  cbn [orb failif mk lift_set snd fst fold_left bind]. reflexivity.
Qed.

(* ================================================================== *)
(** * consequences for children.move - none of them needs more than WF, most need nothing *)

(* an accepted call of the code IS an accepted call of the model, with the heap the code returns *)
Lemma src_ch_move_Ok : forall s o ts before after h' u,
  src_ch_move (hp s) o ts before after = Ok (h', u) ->
  ch_move s o ts before after = (mkS h' (wroots s), OK).
Proof.
  intros s o ts b a h' u. rewrite src_ch_move_eq. unfold lift_set, ch_move.
  destruct (ch_move_guard s o (somes ts) b a) as [[]| |k]; cbn [mk snd fst]; try discriminate.
  intro E. inversion E. f_equal. unfold ch_move_write.
  destruct b as [b|]; [|destruct a as [a|]]; unfold set_kids; cbn [hp wroots]; try reflexivity.
  destruct s; reflexivity.
Qed.

(* the code raises its RuntimeError exactly when the model's guard does; it never raises anything else - in
   particular neither list.remove nor list.index ever raises ValueError *)
Theorem src_ch_move_Err_iff : forall s o ts before after,
  src_ch_move (hp s) o ts before after = Err <-> ch_move_guard s o (somes ts) before after = Err.
Proof.
  intros s o ts b a. rewrite src_ch_move_eq. unfold lift_set, ch_move.
  destruct (ch_move_guard s o (somes ts) b a) as [[]| |k]; cbn [mk snd]; split; intro E; try discriminate; reflexivity.
Qed.

Lemma f7_move_guard_no_crash s o T b a k : ch_move_guard s o T b a <> Crash k.
Proof.
  unfold ch_move_guard. cbv zeta.
  match goal with |- context [failif ?c Err] => destruct c; cbn [failif bind]; [discriminate|] end.
  destruct b as [b|], a as [a|];
    repeat match goal with |- context [failif ?c Err] => destruct c; cbn [failif bind]; try discriminate end.
Qed.

Theorem src_ch_move_no_crash : forall s o ts before after k,
  src_ch_move (hp s) o ts before after <> Crash k.
Proof.
  intros s o ts b a k. rewrite src_ch_move_eq. unfold lift_set, ch_move.
  pose proof (f7_move_guard_no_crash s o (somes ts) b a) as N.
  destruct (ch_move_guard s o (somes ts) b a) as [[]| |k']; cbn [mk snd]; try discriminate.
  exfalso. exact (N k' eq_refl).
Qed.

Theorem src_ch_move_WF : forall s o ts before after h' u, WF s ->
  src_ch_move (hp s) o ts before after = Ok (h', u) -> WF (mkS h' (wroots s)).
Proof.
  intros s o ts b a h' u W E. apply src_ch_move_Ok in E.
  destruct (ch_move_effect s o ts b a _ E) as (anchor & bf & _ & Hi & _ & _ & _ & Es). cbv zeta in Hi.
  rewrite Es. apply set_kids_perm_WF; [exact W|]. apply move_fold_perm. exact Hi.
Qed.

(* the arguments of an accepted call are objects of the heap: the guards have found them in a children list *)
Lemma f7_move_args s o ts b a s' : WF s -> ch_move s o ts b a = (s', OK) -> args_ok s (ChMove o ts b a) = true.
Proof.
  intros W E. destruct (ch_move_effect s o ts b a s' E) as (anchor & bf & Hc & Hi & Ha & _ & Lo & _).
  cbv zeta in Hi, Ha. destruct W as ((Fin & _) & _).
  assert (Lk : forall y, In y (kids (get (hp s) o)) -> y < length (hp s)).
  { intros y Hy. apply (proj1 (proj2 (Fin o)) y). apply in_or_app. left; exact Hy. }
  cbn [args_ok]. unfold okobj. rewrite (proj2 (Nat.ltb_lt _ _) Lo). cbn [andb].
  assert (Ots : oklist s ts = true).
  { unfold oklist. apply forallb_forall. intros [y|] Hy; [|reflexivity]. cbn [okopt]. unfold okobj.
    apply Nat.ltb_lt. apply Lk. apply Hi. apply somes_In. exact Hy. }
  rewrite Ots. cbn [andb].
  pose proof (proj2 (Nat.ltb_lt _ _) (Lk anchor Ha)) as Oa.
  destruct Hc as [(-> & -> & _)|(-> & -> & _)]; cbn [okopt]; unfold okobj; rewrite Oa; reflexivity.
Qed.

(* the documented effect (C16_move of Props/Props_C16.v), about the translated function: the list of the owner
   after the call is a permutation; the tasks not named keep their relative order; distinct named tasks end up
   immediately before the anchor in the given order (after: in reverse order); nothing else changes *)
Theorem src_ch_move_effect : forall s o ts b a h' u,
  WF s -> src_ch_move (hp s) o ts b a = Ok (h', u) ->
  let l := kids (get (hp s) o) in
  let l' := kids (get h' o) in
  exists anchor before,
    ((b = Some anchor /\ a = None /\ before = true) \/ (b = None /\ a = Some anchor /\ before = false)) /\
    incl (somes ts) l /\ In anchor l /\ ~ In anchor (somes ts) /\
    Permutation l' l /\
    others (somes ts) l' = others (somes ts) l /\
    (NoDup (somes ts) ->
       exists pre post, others (somes ts) l = pre ++ anchor :: post /\
         l' = pre ++ (if before then somes ts ++ anchor :: post else anchor :: rev (somes ts) ++ post)) /\
    only_kids_changed o s (mkS h' (wroots s)) /\ WF (mkS h' (wroots s)).
Proof.
  intros s o ts b a h' u W E. apply src_ch_move_Ok in E.
  apply (EffectProofs.C16_move s o ts b a (mkS h' (wroots s)) W).
  rewrite step_of_step' by (apply (f7_move_args s o ts b a _ W E)). exact E.
Qed.

Theorem src_ch_move_one_effect : forall s o t b a h' u,
  WF s -> src_ch_move (hp s) o [Some t] b a = Ok (h', u) ->
  let l := kids (get (hp s) o) in
  let l' := kids (get h' o) in
  exists anchor pre post,
    without t l = pre ++ anchor :: post /\
    ((b = Some anchor /\ a = None /\ l' = pre ++ t :: anchor :: post) \/
     (b = None /\ a = Some anchor /\ l' = pre ++ anchor :: t :: post)) /\
    without t l' = without t l.
Proof.
  intros s o t b a h' u W E. apply src_ch_move_Ok in E.
  apply (EffectProofs.C16_move_one s o t b a (mkS h' (wroots s)) W).
  rewrite step_of_step' by (apply (f7_move_args s o [Some t] b a _ W E)). exact E.
Qed.

(* ================================================================== *)
(** * consequences for children.insert *)

Lemma f7_wroots_insert s o i t : wroots (fst (ch_insert s o i t)) = wroots s.
Proof.
  destruct t as [t'|]; [|reflexivity].
  destruct (ch_insert_cases s o i t') as [E|[_ E]]; [rewrite E; reflexivity|].
  cbv zeta in E. rewrite E.
  assert (E1 : wroots (set_parent_write s t' (Some o)) = wroots s).
  { unfold set_parent_write. cbv zeta. destruct (own (get (hp s) t')); reflexivity. }
  match goal with |- context [if ?c then _ else _] => destruct c end; [exact E1|].
  unfold set_kids. cbn [wroots]. exact E1.
Qed.

Lemma src_ch_insert_Ok : forall s (o : obj) (i : Z) (t : option obj) h' u, WF s -> hid_tid (hp s) -> o < length (hp s) ->
  (forall t', t = Some t' -> t' < length (hp s)) ->
  src_ch_insert (S (S (length (hp s)))) (wroots s) (hp s) o i t = Ok (h', u) ->
  ch_insert s o i t = (mkS h' (wroots s), OK).
Proof.
  intros s o i t h' u W Hh Lo Lt. rewrite (src_ch_insert_eq s o i t W Hh Lo Lt). unfold lift_set.
  pose proof (f7_wroots_insert s o i t) as Ew.
  destruct (ch_insert s o i t) as [s' r]. cbn [fst snd] in *.
  destruct r as [[]| |k]; try discriminate. intro E. inversion E. subst h'. rewrite <- Ew. destruct s'; reflexivity.
Qed.

(* the task inserted is a public object (never the hidden root of a WBS); the owner of the list may be one
   (wbs.roots.insert(i, t)) *)
Theorem src_ch_insert_WF : forall s (o : obj) (i : Z) (t : option obj) h' u, WF s -> hid_tid (hp s) -> o < length (hp s) ->
  (forall t', t = Some t' -> pub s t') ->
  src_ch_insert (S (S (length (hp s)))) (wroots s) (hp s) o i t = Ok (h', u) -> WF (mkS h' (wroots s)).
Proof.
  intros s o i t h' u W Hh Lo Pt E.
  assert (Lt : forall t', t = Some t' -> t' < length (hp s)) by (intros t' Et; apply (Pt t' Et)).
  apply (src_ch_insert_Ok s o i t h' u W Hh Lo Lt) in E.
  pose proof (ch_insert_WF s o i t W Lo Pt) as W'. rewrite E in W'. exact W'.
Qed.

(* what the model answers, case by case *)
Lemma f7_insert_outcome s o i t' :
  let n := Z.of_nat (S (length (without t' (kids (get (hp s) o))))) in
  snd (ch_insert s o i (Some t')) =
    if ((- n <=? i) && (i <? n))%Z
    then match set_parent_guard s t' (Some o) with Ok _ => OK | e => e end
    else Crash IndexError.
Proof.
  cbv zeta. unfold ch_insert. cbv zeta.
  destruct ((- Z.of_nat (S (length (without t' (kids (get (hp s) o))))) <=? i)%Z &&
            (i <? Z.of_nat (S (length (without t' (kids (get (hp s) o))))))%Z); cbn [negb snd]; [|reflexivity].
  unfold andthen, set_parent.
  destruct (set_parent_guard s t' (Some o)) as [[]| |k]; cbn [mk snd fst]; try reflexivity.
  match goal with |- context [if ?c then _ else _] => destruct c end; reflexivity.
Qed.

(* IndexError exactly when the index is outside the list the call will leave ([-new_len, new_len), with
   new_len = the other children + 1); no other exception than that and the RuntimeError of the guards *)
Theorem src_ch_insert_crash_iff : forall s (o : obj) (i : Z) (t : option obj) k, WF s -> hid_tid (hp s) ->
  o < length (hp s) -> (forall t', t = Some t' -> t' < length (hp s)) ->
  (src_ch_insert (S (S (length (hp s)))) (wroots s) (hp s) o i t = Crash k
   <-> k = IndexError /\ exists t', t = Some t' /\
         let new_len := Z.of_nat (S (length (without t' (kids (get (hp s) o))))) in
         ~ (- new_len <= i < new_len)%Z).
Proof.
  intros s o i t k W Hh Lo Lt. rewrite (src_ch_insert_eq s o i t W Hh Lo Lt). unfold lift_set.
  destruct t as [t'|].
  2:{ cbn [ch_insert snd]. split; [discriminate|]. intros (_ & t' & E & _). discriminate E. }
  rewrite f7_insert_outcome. cbv zeta.
  set (n := Z.of_nat (S (length (without t' (kids (get (hp s) o)))))).
  destruct ((- n <=? i) && (i <? n))%Z eqn:R.
  - apply andb_true_iff in R. destruct R as [R1 R2]. apply Z.leb_le in R1. apply Z.ltb_lt in R2.
    pose proof (set_parent_guard_no_crash s t' (Some o)) as N.
    split.
    + destruct (set_parent_guard s t' (Some o)) as [[]| |k']; try discriminate.
      intro E. exfalso. exact (N k' W eq_refl).
    + intros (_ & t2 & E & Out). inversion E; subst t2. exfalso. apply Out. fold n. lia.
  - split.
    + intro E. inversion E. split; [reflexivity|]. exists t'. split; [reflexivity|]. fold n.
      apply andb_false_iff in R. destruct R as [R|R]; [apply Z.leb_gt in R | apply Z.ltb_ge in R]; lia.
    + intros (-> & _). reflexivity.
Qed.

(* RuntimeError: no task given, or the index is in range and the parent setter refuses *)
Theorem src_ch_insert_Err_iff : forall s (o : obj) (i : Z) (t : option obj), WF s -> hid_tid (hp s) ->
  o < length (hp s) -> (forall t', t = Some t' -> t' < length (hp s)) ->
  (src_ch_insert (S (S (length (hp s)))) (wroots s) (hp s) o i t = Err
   <-> t = None \/ exists t', t = Some t' /\
         let new_len := Z.of_nat (S (length (without t' (kids (get (hp s) o))))) in
         (- new_len <= i < new_len)%Z /\ set_parent_guard s t' (Some o) = Err).
Proof.
  intros s o i t W Hh Lo Lt. rewrite (src_ch_insert_eq s o i t W Hh Lo Lt). unfold lift_set.
  destruct t as [t'|].
  2:{ cbn [ch_insert snd]. split; [left; reflexivity | reflexivity]. }
  rewrite f7_insert_outcome. cbv zeta.
  set (n := Z.of_nat (S (length (without t' (kids (get (hp s) o)))))).
  destruct ((- n <=? i) && (i <? n))%Z eqn:R.
  - apply andb_true_iff in R. destruct R as [R1 R2]. apply Z.leb_le in R1. apply Z.ltb_lt in R2.
    split.
    + intro E. right. exists t'. split; [reflexivity|]. fold n. split; [lia|].
      destruct (set_parent_guard s t' (Some o)) as [[]| |k']; try discriminate. reflexivity.
    + intros [E|(t2 & E & _ & G)]; [discriminate E|]. inversion E; subst t2. rewrite G. reflexivity.
  - split; [discriminate|]. intros [E|(t2 & E & In_ & _)]; [discriminate E|]. inversion E; subst t2. fold n in In_.
    apply andb_false_iff in R. destruct R as [R|R]; [apply Z.leb_gt in R | apply Z.ltb_ge in R]; lia.
Qed.

(* the documented effect (C16_insert of Props/Props_C16.v), about the translated function: the task sits at Python's
   index [i] of the list the call leaves, the other children keep their order, the rest is the effect of
   task.parent = owner *)
Theorem src_ch_insert_effect : forall s (o : obj) (i : Z) (t : obj) h' u, WF s -> hid_tid (hp s) ->
  o < length (hp s) -> t < length (hp s) ->
  src_ch_insert (S (S (length (hp s)))) (wroots s) (hp s) o i (Some t) = Ok (h', u) ->
  let W := without t (kids (get (hp s) o)) in
  let idx := py_index i (S (length W)) in
  let l' := kids (get h' o) in
  exists s1, step s (SetParent t (Some o)) = (s1, OK) /\
    src_set_parent (S (S (length (hp s)))) (wroots s) (hp s) t (Some o) = Ok (hp s1, tt) /\
    idx <= length W /\
    l' = firstn idx W ++ t :: skipn idx W /\
    (forall d, nth idx l' d = t) /\ without t l' = W /\ length l' = S (length W) /\
    Permutation l' (kids (get (hp s1) o)) /\
    only_kids_changed o s1 (mkS h' (wroots s)) /\ (WF s1 -> WF (mkS h' (wroots s))).
Proof.
  intros s o i t h' u W Hh Lo Lt E.
  assert (Lt' : forall t', @Some obj t = Some t' -> t' < length (hp s)) by (intros t' Et; inversion Et; subst; exact Lt).
  assert (Lo' : forall p', @Some obj o = Some p' -> p' < length (hp s)) by (intros p' Ep; inversion Ep; subst; exact Lo).
  apply (src_ch_insert_Ok s o i (Some t) h' u W Hh Lo Lt') in E.
  assert (A : args_ok s (ChInsert o i (Some t)) = true).
  { cbn [args_ok okopt]. unfold okobj. rewrite (proj2 (Nat.ltb_lt _ _) Lo), (proj2 (Nat.ltb_lt _ _) Lt). reflexivity. }
  assert (St : step s (ChInsert o i (Some t)) = (mkS h' (wroots s), OK)) by (rewrite step_of_step' by exact A; exact E).
  destruct (EffectProofs.C16_insert s o i t _ W St) as (s1 & SP & H1 & H2 & H3 & H4 & H5 & H6 & H7 & H8).
  exists s1. split; [exact SP|]. split.
  { rewrite (src_set_parent_eq s t (@Some obj o) W Hh Lt Lo'). apply step_ok_inv in SP. destruct SP as [_ SP].
    cbn [step'] in SP. rewrite SP. reflexivity. }
  cbn [hp] in H2, H3, H4, H5, H6.
  split; [exact H1|]. split; [exact H2|]. split; [exact H3|]. split; [exact H4|]. split; [exact H5|].
  split; [exact H6|]. split; [exact H7 | exact H8].
Qed.

(* ================================================================== *)
(** * every hypothesis is needed *)

(* src_ch_move_eq, _Ok, _Err_iff, _no_crash have NO hypothesis: they hold on every heap, for every owner and every
   argument - the children list may even name a task twice (what WF excludes): *)
Example src_ch_move_eq_beyond_WF :
  let s := mkS [mkT 0 None [1; 2; 1; 3] [] [] None false None [] None] [] in
  wf_b s = false /\
  src_ch_move (hp s) 0 [Some 1; Some 1] None (Some 3) = lift_set s (ch_move s 0 [Some 1; Some 1] None (Some 3)) /\
  (exists h', src_ch_move (hp s) 0 [Some 1; Some 1] None (Some 3) = Ok (h', tt) /\ kids (get h' 0) = [2; 3; 1; 1]) /\
  src_ch_move (hp s) 7 [] (Some 0) None = Err.
Proof.
  cbv zeta. split; [reflexivity|]. split; [apply src_ch_move_eq|].
  split; [eexists; split; vm_compute; reflexivity | reflexivity].
Qed.

(* what the guards of move exclude: list.index of an absent anchor is the ValueError of Python *)
Example src_list_index_absent : src_list_index [3; 4] 8 = Crash ValueError /\ src_list_index [3; 4] 4 = Ok 1%Z.
Proof. split; reflexivity. Qed.

(* src_ch_insert_eq - the task outside the heap: the code reads a pristine task of id 0 (clash with the task of id 0),
   the model's enumeration of the objects does not see it *)
Example src_ch_insert_needs_t_in_heap :
  let s := mkS [mkT 0 None [] [] [] None false None [] None] [] in
  WF s /\ hid_tid (hp s) /\
  src_ch_insert (S (S (length (hp s)))) (wroots s) (hp s) 0 0%Z (Some 1) = Err /\
  snd (ch_insert s 0 0%Z (Some 1)) = OK.
Proof.
  cbv zeta. split; [apply wf_b_WF; reflexivity|]. split; [intros [|[|q]]; reflexivity|]. split; reflexivity.
Qed.

(* the owner of the list outside the heap: the same, the other way round *)
Example src_ch_insert_needs_o_in_heap :
  let s := mkS [mkT 0 None [] [] [] None false None [] None] [] in
  WF s /\ hid_tid (hp s) /\
  src_ch_insert (S (S (length (hp s)))) (wroots s) (hp s) 1 0%Z (Some 0) = Err /\
  snd (ch_insert s 1 0%Z (Some 0)) = OK.
Proof.
  cbv zeta. split; [apply wf_b_WF; reflexivity|]. split; [intros [|[|q]]; reflexivity|]. split; reflexivity.
Qed.

(* hid_tid: a visible task that carries the id of the hidden root (task 1 here) ends the code's walk over the
   parents of the owner 2, so the link between the inserted task 3 and the ancestor 0 of 2 goes unnoticed; the model
   walks the raw parents and rejects *)
Example src_ch_insert_needs_hid_tid :
  let s := mkS [mkT 1 None [1] [] [3] None false None [] None;
                mkT SrcGraph.EMPTY_ID (Some 0) [2] [] [] None false None [] None;
                mkT 2 (Some 1) [] [] [] None false None [] None;
                mkT 3 None [] [0] [] None false None [] None] [] in
  WF s /\ ~ hid_tid (hp s) /\
  (exists h', src_ch_insert (S (S (length (hp s)))) (wroots s) (hp s) 2 0%Z (Some 3) = Ok (h', tt)) /\
  snd (ch_insert s 2 0%Z (Some 3)) = Err.
Proof.
  cbv zeta. split; [apply wf_b_WF; vm_compute; reflexivity|].
  split; [intro H; specialize (H 1); discriminate H|].
  split; [eexists; vm_compute; reflexivity | vm_compute; reflexivity].
Qed.

(* WF (here I_pc): task 2 is listed as a child of 1 but does not name 1 as its parent - the code's _attach, walking
   down, hands 2 to the WBS; the model, walking up, does not *)
Example src_ch_insert_needs_WF :
  let s := mkS [mkT SrcGraph.EMPTY_ID None [] [] [] (Some 0) true None [] None;
                mkT 1 None [2] [] [] None false None [] None;
                mkT 2 None [] [] [] None false None [] None] [0] in
  hid_tid (hp s) /\ wf_b s = false /\
  (exists h1 h2, src_ch_insert (S (S (length (hp s)))) (wroots s) (hp s) 0 0%Z (Some 1) = Ok (h1, tt) /\
                 lift_set s (ch_insert s 0 0%Z (Some 1)) = Ok (h2, tt) /\
                 own (get h1 2) = Some 0 /\ own (get h2 2) = None).
Proof.
  cbv zeta. split; [intros [|[|[|q]]]; try reflexivity; destruct q; reflexivity|]. split; [reflexivity|].
  eexists; eexists. split; [vm_compute; reflexivity|]. split; [vm_compute; reflexivity|]. split; reflexivity.
Qed.

(* src_ch_insert_WF asks, like src_set_parent_WF and the model's ch_insert_WF on which it rests, that the inserted
   task is not the hidden root of a WBS (no Python expression names that object); no counterexample is known - on a
   well-formed state the guards of the parent setter refuse a hidden root anyway. *)

(* ================================================================== *)
(** * the hypotheses are satisfiable by a non-trivial state; accepted and rejected calls both occur *)

(* demo5 of SrcGraphEquiv5 (two WBS with hidden roots 0 and 6; 1 2 below 0, 3 4 below 1, 5 below 3; 7 below 6; the
   detached tree 8 - 9, the free tasks 10 (id of 5), 11 (id of 9), 12 (linked with 2)) after
   t1.children = [t3, t4, t8, t12]: the list of task 1 has four entries *)
Definition demo7 : state := Eval vm_compute in fst (set_children demo5 1 [Some 3; Some 4; Some 8; Some 12]).

Example demo7_hyps : WF demo7 /\ hid_tid (hp demo7) /\ kids (get (hp demo7) 1) = [3; 4; 8; 12] /\
  demo7 = fst (set_children demo5 1 [Some 3; Some 4; Some 8; Some 12]).
Proof.
  split; [apply wf_b_WF; vm_compute; reflexivity|].
  split; [intro q; do 13 (destruct q as [|q]; [reflexivity|]); destruct q; reflexivity|].
  split; vm_compute; reflexivity.
Qed.

Definition kids_after (r : res (heap * unit)) (o : obj) : res (list obj) :=
  match r with Ok (h, _) => Ok (kids (get h o)) | Err => Err | Crash k => Crash k end.

Example demo7_move :
  let s := demo7 in
  let mv := src_ch_move (hp s) 1 in
  kids_after (mv [Some 12; Some 3] (Some 8) None) 1 = Ok [4; 12; 3; 8] /\       (* before: in the given order *)
  kids_after (mv [Some 3; Some 4] None (Some 12)) 1 = Ok [8; 12; 4; 3] /\       (* after: each one right behind the anchor *)
  kids_after (mv [Some 3; None; Some 3] (Some 12) None) 1 = Ok [4; 8; 3; 12] /\ (* None is dropped, a repeat is harmless *)
  kids_after (mv [] (Some 12) None) 1 = Ok [3; 4; 8; 12] /\                     (* nothing to move *)
  mv [Some 12; Some 3] (Some 8) None = lift_set s (ch_move s 1 [Some 12; Some 3] (Some 8) None) /\
  snd (ch_move s 1 [Some 12; Some 3] (Some 8) None) = OK /\
  WF (fst (ch_move s 1 [Some 12; Some 3] (Some 8) None)) /\
  mv [Some 5] (Some 12) None = Err /\                  (* a task that is not a child *)
  mv [Some 3] (Some 5) None = Err /\                   (* an anchor that is not a child *)
  mv [Some 3] (Some 4) (Some 8) = Err /\               (* before and after *)
  mv [Some 3] None None = Err /\                       (* neither *)
  mv [Some 3; Some 4] (Some 4) None = Err /\           (* the anchor among the tasks *)
  src_ch_move (hp s) 40 [] None (Some 1) = Err.        (* an owner outside the heap has no children *)
Proof.
  cbv zeta. do 4 (split; [vm_compute; reflexivity|]).
  split; [apply src_ch_move_eq|]. split; [vm_compute; reflexivity|].
  split; [apply wf_b_WF; vm_compute; reflexivity|].
  do 5 (split; [vm_compute; reflexivity|]). vm_compute; reflexivity.
Qed.

Example demo5_insert :
  let s := demo5 in
  let ins := src_ch_insert (S (S (length (hp s)))) (wroots s) (hp s) in
  WF s /\ hid_tid (hp s) /\
  kids (get (hp s) 1) = [3; 4] /\
  kids_after (ins 1 1%Z (Some 8)) 1 = Ok [3; 8; 4] /\          (* a new task in the middle *)
  kids_after (ins 1 (-1)%Z (Some 8)) 1 = Ok [3; 4; 8] /\       (* -1: last place of the new list (no move) *)
  kids_after (ins 1 (-3)%Z (Some 8)) 1 = Ok [8; 3; 4] /\       (* -new_len: first *)
  ins 1 3%Z (Some 8) = Crash IndexError /\                     (* new_len = 3 *)
  ins 1 (-4)%Z (Some 8) = Crash IndexError /\
  kids_after (ins 1 0%Z (Some 4)) 1 = Ok [4; 3] /\             (* a task that is a child already: it moves *)
  kids_after (ins 1 (-2)%Z (Some 3)) 1 = Ok [3; 4] /\
  ins 1 2%Z (Some 4) = Crash IndexError /\                     (* ... and the list does not grow: new_len = 2 *)
  kids_after (ins 0 0%Z (Some 12)) 0 = Ok [12; 1; 2] /\        (* wbs.roots.insert(0, t12) *)
  ins 1 1%Z (Some 8) = lift_set s (ch_insert s 1 1%Z (Some 8)) /\
  snd (ch_insert s 1 1%Z (Some 8)) = OK /\
  own (get (hp (fst (ch_insert s 1 1%Z (Some 8)))) 9) = Some 0 /\       (* the subtree of 8 joins the WBS *)
  WF (fst (ch_insert s 1 1%Z (Some 8))) /\
  ins 1 0%Z None = Err /\                                      (* no task *)
  ins 3 5%Z None = Err /\                                      (* no task: before the range check *)
  ins 1 0%Z (Some 1) = Err /\                                  (* the owner itself *)
  ins 1 0%Z (Some 10) = Err /\                                 (* id clash: 10 carries the id of 5 *)
  ins 1 0%Z (Some 7) = Err.                                    (* a task of another WBS *)
Proof.
  cbv zeta. split; [apply demo5_hyps|]. split; [apply demo5_hyps|].
  do 10 (split; [vm_compute; reflexivity|]).
  split; [apply src_ch_insert_eq; [apply demo5_hyps | apply demo5_hyps | vm_compute; lia |
                                   intros t' E; inversion E; subst; vm_compute; lia]|].
  split; [vm_compute; reflexivity|]. split; [vm_compute; reflexivity|].
  split; [apply wf_b_WF; vm_compute; reflexivity|].
  do 4 (split; [vm_compute; reflexivity|]). vm_compute; reflexivity.
Qed.

Print Assumptions src_ch_move_eq.
Print Assumptions src_ch_move_Ok.
Print Assumptions src_ch_move_Err_iff.
Print Assumptions src_ch_move_no_crash.
Print Assumptions src_ch_move_WF.
Print Assumptions src_ch_move_effect.
Print Assumptions src_ch_move_one_effect.
Print Assumptions src_ch_insert_eq.
Print Assumptions src_ch_insert_Ok.
Print Assumptions src_ch_insert_WF.
Print Assumptions src_ch_insert_crash_iff.
Print Assumptions src_ch_insert_Err_iff.
Print Assumptions src_ch_insert_effect.
