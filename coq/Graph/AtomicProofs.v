(* C15 - a rejected mutation changes nothing.

   Every operation whose model is [mk guard s (write s ...)] (validate, then commit) is atomic for
   ALL states and arguments, syntactically: the erroring branch of [mk] returns the very state term
   it was given.  ChInsert = IndexError before anything, then the atomic [set_parent], then a part
   that cannot fail.  The loops ([seq_calls]) are atomic per element: the result of a raising loop
   is the state left by the calls that returned; for the remove_all loops no element call can raise
   on a well-formed state (full statement kept as a Definition, reduced here to two facts about one
   ch_remove / ln_remove call: it is accepted, and it preserves WF); for list-level <<, >>, bulk attribute assignment and the constructor
   with relation arguments atomicity is FALSE of the model and of the code (three witnesses). *)
From PJ Require Import Base.Prelude Graph.Model Graph.Invariant.
Local Open Scope nat_scope.

(* ---------------- the two shapes ---------------- *)
Lemma mk_atomic (r : outcome) (s s' : state) : snd (mk r s s') <> OK -> fst (mk r s s') = s.
Proof. destruct r as [[]| |k]; simpl; intro H; [congruence | reflexivity | reflexivity]. Qed.

Lemma mk_ok (r : outcome) (s s' s2 : state) : mk r s s' = (s2, OK) -> r = OK /\ s2 = s'.
Proof. destruct r as [[]| |k]; simpl; intro H; inversion H; auto. Qed.

Lemma mk_cases (r : outcome) (s s' : state) :
  (r = OK /\ mk r s s' = (s', OK)) \/ (r <> OK /\ mk r s s' = (s, r)).
Proof. destruct r as [[]| |k]; simpl; [left | right | right]; split; congruence. Qed.

Lemma andthen_atomic (r : state * outcome) (k : state -> state * outcome) (s : state) :
  (snd r <> OK -> fst r = s) ->
  (forall s1, snd (k s1) = OK) ->
  snd (andthen r k) <> OK -> fst (andthen r k) = s.
Proof.
  intros Hr Hk. unfold andthen. destruct (snd r) as [[]| |c] eqn:E.
  - intro H. exfalso. apply H. apply Hk.
  - intros _. apply Hr. congruence.
  - intros _. apply Hr. congruence.
Qed.

(* ---------------- the four setters and the facades ---------------- *)
Lemma set_parent_atomic s t p : snd (set_parent s t p) <> OK -> fst (set_parent s t p) = s.
Proof. apply mk_atomic. Qed.

Lemma set_children_atomic s t vs : snd (set_children s t vs) <> OK -> fst (set_children s t vs) = s.
Proof. unfold set_children. apply mk_atomic. Qed.

Lemma set_links_atomic d s t vs : snd (set_links d s t vs) <> OK -> fst (set_links d s t vs) = s.
Proof. unfold set_links. apply mk_atomic. Qed.

Lemma ch_append_atomic s o t : snd (ch_append s o t) <> OK -> fst (ch_append s o t) = s.
Proof. destruct t; simpl; [apply set_parent_atomic | reflexivity]. Qed.

Lemma ch_remove_atomic s o t : snd (ch_remove s o t) <> OK -> fst (ch_remove s o t) = s.
Proof.
  unfold ch_remove. destruct t as [t|]; [|reflexivity].
  destruct (memn t (kids (get (hp s) o))); [apply set_children_atomic | reflexivity].
Qed.

Lemma ch_move_atomic s o ts b a : snd (ch_move s o ts b a) <> OK -> fst (ch_move s o ts b a) = s.
Proof. apply mk_atomic. Qed.

Lemma ch_insert_atomic s o i t : snd (ch_insert s o i t) <> OK -> fst (ch_insert s o i t) = s.
Proof.
  unfold ch_insert. destruct t as [t|]; [|reflexivity].
  destruct (negb _); [reflexivity|].
  apply andthen_atomic; [apply set_parent_atomic|].
  intro s1. cbv zeta. destruct (Nat.eqb _ t); reflexivity.
Qed.

Lemma ch_sort_atomic s o k r : snd (ch_sort s o k r) <> OK -> fst (ch_sort s o k r) = s.
Proof.
  unfold ch_sort. destruct (none_clash s o k); [reflexivity|].
  destruct k; try reflexivity;
    (destruct (keys_of _ (hp s) (kids (get (hp s) o))); simpl; [congruence | reflexivity | reflexivity]).
Qed.

Lemma ch_reorder_atomic s o ids : snd (ch_reorder s o ids) <> OK -> fst (ch_reorder s o ids) = s.
Proof.
  unfold ch_reorder. cbv zeta.
  destruct (reorder_go _ _ _ _ _); simpl; [congruence | reflexivity | reflexivity].
Qed.

Lemma ln_append_atomic d s t x : snd (ln_append d s t x) <> OK -> fst (ln_append d s t x) = s.
Proof. destruct x; simpl; [apply set_links_atomic | reflexivity]. Qed.

Lemma ln_remove_atomic d s t x : snd (ln_remove d s t x) <> OK -> fst (ln_remove d s t x) = s.
Proof.
  unfold ln_remove. destruct x as [x|]; [|reflexivity]. cbv zeta.
  destruct (memn x _); [apply set_links_atomic | reflexivity].
Qed.

Lemma op_floordiv_atomic s o vs : snd (op_floordiv s o vs) <> OK -> fst (op_floordiv s o vs) = s.
Proof. apply set_children_atomic. Qed.

Lemma op_shift_atomic d s t vs : snd (op_shift d s t vs) <> OK -> fst (op_shift d s t vs) = s.
Proof. apply set_links_atomic. Qed.

Lemma wbs_remove_task_atomic s w t :
  snd (wbs_remove_task s w t) <> OK -> fst (wbs_remove_task s w t) = s.
Proof.
  unfold wbs_remove_task. destruct (wbs_tasks s w) as [l| |c]; try reflexivity.
  destruct (find _ _); [apply ch_remove_atomic | reflexivity].
Qed.

Lemma wbs_remove_atomic s w t : snd (wbs_remove s w t) <> OK -> fst (wbs_remove s w t) = s.
Proof. destruct t; simpl; [apply wbs_remove_task_atomic | reflexivity]. Qed.

Lemma new_task_atomic s i pr nm e : snd (new_task s i pr nm e) <> OK -> fst (new_task s i pr nm e) = s.
Proof.
  unfold new_task. destruct e as [v|]; [destruct (v <? 0)%Z|]; simpl; try reflexivity; congruence.
Qed.

Lemma set_est_atomic s t e : snd (set_est s t e) <> OK -> fst (set_est s t e) = s.
Proof.
  unfold set_est. destruct e as [v|]; [destruct (v <? 0)%Z|]; simpl; try reflexivity; congruence.
Qed.

(* ---------------- classification and the theorem ---------------- *)
(* list-level << / >>, bulk assignment of parent / children / predecessors / successors and the constructor with
   relation arguments undo the calls
   that returned when a later one raises (all_or_nothing): atomic on every state *)
Lemma all_or_nothing_atomic s r : snd (all_or_nothing s r) <> OK -> fst (all_or_nothing s r) = s.
Proof.
  unfold all_or_nothing. destruct r as [s1 [[]| |c]]; cbn [fst snd]; intro H; try reflexivity.
  exfalso. apply H. reflexivity.
Qed.

Lemma all_or_nothing_ok s r s' : all_or_nothing s r = (s', OK) -> r = (s', OK).
Proof.
  unfold all_or_nothing. destruct r as [s1 [[]| |c]]; cbn [fst snd]; intro H; try discriminate H. exact H.
Qed.

Lemma all_or_nothing_cases s r :
  (snd r = OK /\ all_or_nothing s r = r) \/ (snd r <> OK /\ all_or_nothing s r = (s, snd r)).
Proof.
  unfold all_or_nothing. destruct r as [s1 [[]| |c]]; cbn [fst snd]; [left|right|right]; split; try reflexivity; discriminate.
Qed.

Definition atomic_op (o : op) : bool :=
  match o with
  | ChRemoveAll _ _ | LnRemoveAll _ _ _ | WbsRemoveAll _ _ => false          (* loops: atomic on WF states, below *)
  | _ => true
  end.

(* the model functions themselves (no args_ok wrapper) *)
Lemma C15_atomic_core : forall s o, atomic_op o = true -> snd (step' s o) <> OK -> fst (step' s o) = s.
Proof.
  intros s o A. destruct o; simpl in A; try discriminate A; simpl.
  - apply new_task_atomic.
  - apply all_or_nothing_atomic.
  - intro H; exfalso; apply H; reflexivity.
  - apply set_parent_atomic.
  - apply set_children_atomic.
  - apply set_links_atomic.
  - apply ch_append_atomic.
  - apply ch_remove_atomic.
  - apply ch_insert_atomic.
  - apply ch_move_atomic.
  - apply ch_sort_atomic.
  - apply ch_reorder_atomic.
  - apply ln_append_atomic.
  - apply ln_remove_atomic.
  - apply op_floordiv_atomic.
  - apply op_shift_atomic.
  - apply all_or_nothing_atomic.
  - apply all_or_nothing_atomic.
  - apply all_or_nothing_atomic.
  - apply all_or_nothing_atomic.
  - apply wbs_remove_atomic.
  - apply set_est_atomic.
  - intro H; exfalso; apply H; reflexivity.
Qed.

Lemma C15_atomic : forall s o, atomic_op o = true -> snd (step s o) <> OK -> fst (step s o) = s.
Proof.
  intros s o A. unfold step. destruct (args_ok s o); [apply C15_atomic_core; exact A | reflexivity].
Qed.

(* ---------------- loops ---------------- *)
(* A loop whose element calls are atomic stops in the state left by the calls that returned: the
   only change a raising loop can leave behind is the complete effect of a prefix of its calls. *)
Lemma seq_calls_cons {A} (f : state -> A -> state * outcome) s x r :
  snd (f s x) = OK -> seq_calls f s (x :: r) = seq_calls f (fst (f s x)) r.
Proof. intro E. simpl. unfold andthen. rewrite E. reflexivity. Qed.

Lemma seq_calls_prefix {A} (f : state -> A -> state * outcome) :
  (forall s x, snd (f s x) <> OK -> fst (f s x) = s) ->
  forall l s, snd (seq_calls f s l) <> OK ->
  exists done x rest,
    l = done ++ x :: rest /\
    snd (seq_calls f s done) = OK /\
    snd (f (fst (seq_calls f s done)) x) = snd (seq_calls f s l) /\
    fst (seq_calls f s l) = fst (seq_calls f s done).
Proof.
  intros Hf l. induction l as [|x r IH]; intros s H.
  - exfalso. apply H. reflexivity.
  - destruct (snd (f s x)) as [[]| |c] eqn:E.
    + rewrite (seq_calls_cons f s x r E) in H |- *.
      destruct (IH _ H) as (done & y & rest & -> & H1 & H2 & H3).
      exists (x :: done), y, rest. rewrite (seq_calls_cons f s x done E). auto.
    + exists [], x, r. simpl. unfold andthen. rewrite E. simpl. repeat split; auto.
      apply Hf. congruence.
    + exists [], x, r. simpl. unfold andthen. rewrite E. simpl. repeat split; auto.
      apply Hf. congruence.
Qed.

(* if the FIRST raising call is the first call, nothing changed *)
Lemma seq_calls_first {A} (f : state -> A -> state * outcome) s x r :
  (snd (f s x) <> OK -> fst (f s x) = s) ->
  snd (f s x) <> OK -> fst (seq_calls f s (x :: r)) = s /\ snd (seq_calls f s (x :: r)) = snd (f s x).
Proof.
  intros Hf H. simpl. unfold andthen. destruct (snd (f s x)) as [[]| |c] eqn:E.
  - exfalso; apply H; reflexivity.
  - rewrite E. split; [apply Hf; congruence | reflexivity].
  - rewrite E. split; [apply Hf; congruence | reflexivity].
Qed.

(* a loop none of whose calls can raise on states satisfying an invariant does not raise *)
Lemma seq_calls_total {A} (f : state -> A -> state * outcome) (Inv : state -> Prop) :
  (forall s x, Inv s -> snd (f s x) = OK /\ Inv (fst (f s x))) ->
  forall l s, Inv s -> snd (seq_calls f s l) = OK /\ Inv (fst (seq_calls f s l)).
Proof.
  intros Hf l. induction l as [|x r IH]; intros s Hs.
  - simpl. auto.
  - destruct (Hf s x Hs) as [E Hs']. rewrite (seq_calls_cons f s x r E). apply IH. exact Hs'.
Qed.

(* --- remove_all on a children list, on a dependency list, on a WBS --- *)
Definition C15_ch_remove_all_statement : Prop :=
  forall s o ids, WF s ->
    snd (step s (ChRemoveAll o ids)) <> OK -> fst (step s (ChRemoveAll o ids)) = s.
Definition C15_ln_remove_all_statement : Prop :=
  forall s d t ids, WF s ->
    snd (step s (LnRemoveAll d t ids)) <> OK -> fst (step s (LnRemoveAll d t ids)) = s.
Definition C15_wbs_remove_all_statement : Prop :=
  forall s w ids, WF s ->
    snd (step s (WbsRemoveAll w ids)) <> OK -> fst (step s (WbsRemoveAll w ids)) = s.

(* the two facts about ONE element call to which the statements reduce (path reasoning: the guards of
   set_children / set_links hold for a sub-list of the current list of a well-formed state) *)
Definition ch_remove_accepts_statement : Prop :=
  forall s o c, WF s -> snd (ch_remove s o (Some c)) = OK.
Definition ch_remove_WF_statement : Prop :=           (* = C01 for ChRemove *)
  forall s o c, WF s -> WF (fst (ch_remove s o (Some c))).
Definition ln_remove_accepts_statement : Prop :=
  forall s d t x, WF s -> snd (ln_remove d s t (Some x)) = OK.
Definition ln_remove_WF_statement : Prop :=           (* = C01 for LnRemove *)
  forall s d t x, WF s -> WF (fst (ln_remove d s t (Some x))).
Definition wbs_tasks_total_statement : Prop :=
  forall s w, WF s -> exists l, wbs_tasks s w = Ok l.

(* proved part 1: element-wise atomicity - a raising remove_all leaves exactly the removals that
   returned (every one complete), for ALL states *)
Lemma C15_ch_remove_all_partial : forall s o ids,
  snd (ch_remove_all s o ids) <> OK ->
  exists done c rest,
    filter (fun c => memz (tid (get (hp s) c)) ids) (kids (get (hp s) o)) = done ++ c :: rest /\
    snd (seq_calls (fun s' c => ch_remove s' o (Some c)) s done) = OK /\
    fst (ch_remove_all s o ids) = fst (seq_calls (fun s' c => ch_remove s' o (Some c)) s done) /\
    snd (ch_remove (fst (ch_remove_all s o ids)) o (Some c)) = snd (ch_remove_all s o ids).
Proof.
  intros s o ids H. unfold ch_remove_all in *.
  destruct (seq_calls_prefix (fun s' c => ch_remove s' o (Some c))
              (fun s' c => ch_remove_atomic s' o (Some c)) _ _ H) as (done & c & rest & E & H1 & H2 & H3).
  exists done, c, rest. rewrite H3. auto.
Qed.

Lemma C15_ln_remove_all_partial : forall d s t ids,
  snd (ln_remove_all d s t ids) <> OK ->
  exists done c rest,
    filter (fun c => memz (tid (get (hp s) c)) ids) (fwd d (get (hp s) t)) = done ++ c :: rest /\
    snd (seq_calls (fun s' c => ln_remove d s' t (Some c)) s done) = OK /\
    fst (ln_remove_all d s t ids) = fst (seq_calls (fun s' c => ln_remove d s' t (Some c)) s done) /\
    snd (ln_remove d (fst (ln_remove_all d s t ids)) t (Some c)) = snd (ln_remove_all d s t ids).
Proof.
  intros d s t ids H. unfold ln_remove_all in *.
  destruct (seq_calls_prefix (fun s' c => ln_remove d s' t (Some c))
              (fun s' c => ln_remove_atomic d s' t (Some c)) _ _ H) as (done & c & rest & E & H1 & H2 & H3).
  exists done, c, rest. rewrite H3. auto.
Qed.

Lemma C15_wbs_remove_all_partial : forall s w ids,
  snd (wbs_remove_all s w ids) <> OK ->
  (exists k, wbs_tasks s w = Crash k /\ wbs_remove_all s w ids = (s, Crash k)) \/
  exists l done c rest,
    wbs_tasks s w = Ok l /\
    filter (fun c => memz (tid (get (hp s) c)) ids) l = done ++ c :: rest /\
    snd (seq_calls (fun s' c => wbs_remove_task s' w c) s done) = OK /\
    fst (wbs_remove_all s w ids) = fst (seq_calls (fun s' c => wbs_remove_task s' w c) s done) /\
    snd (wbs_remove_task (fst (wbs_remove_all s w ids)) w c) = snd (wbs_remove_all s w ids).
Proof.
  intros s w ids H. unfold wbs_remove_all in *.
  destruct (wbs_tasks s w) as [l| |k] eqn:E.
  - right.
    destruct (seq_calls_prefix (fun s' c => wbs_remove_task s' w c)
                (fun s' c => wbs_remove_task_atomic s' w c) _ _ H) as (done & c & rest & E1 & H1 & H2 & H3).
    exists l, done, c, rest. rewrite H3. auto.
  - unfold wbs_tasks, all_children in E. destruct (pref _ _ _); discriminate E.
  - left. exists k. auto.
Qed.

(* proved part 2: the full statements follow from the one-call facts *)
Lemma C15_ch_remove_all_from_total :
  ch_remove_accepts_statement -> ch_remove_WF_statement -> C15_ch_remove_all_statement.
Proof.
  intros T TW s o ids W. unfold step. destruct (args_ok s _); [|reflexivity].
  simpl. intro H. exfalso. apply H. unfold ch_remove_all.
  apply (seq_calls_total (fun s' c => ch_remove s' o (Some c)) WF); [|exact W].
  intros s' c W'. split; [apply T | apply TW]; exact W'.
Qed.

Lemma C15_ln_remove_all_from_total :
  ln_remove_accepts_statement -> ln_remove_WF_statement -> C15_ln_remove_all_statement.
Proof.
  intros T TW s d t ids W. unfold step. destruct (args_ok s _); [|reflexivity].
  simpl. intro H. exfalso. apply H. unfold ln_remove_all.
  apply (seq_calls_total (fun s' c => ln_remove d s' t (Some c)) WF); [|exact W].
  intros s' c W'. split; [apply T | apply TW]; exact W'.
Qed.

Lemma C15_wbs_remove_all_from_total :
  ch_remove_accepts_statement -> ch_remove_WF_statement -> wbs_tasks_total_statement ->
  C15_wbs_remove_all_statement.
Proof.
  intros T TW TT s w ids W. unfold step. destruct (args_ok s _); [|reflexivity].
  simpl. unfold wbs_remove_all. destruct (wbs_tasks s w) as [l| |k]; try reflexivity.
  intro H. exfalso. apply H.
  apply (seq_calls_total (fun s' c => wbs_remove_task s' w c) WF); [|exact W].
  intros s' c W'. unfold wbs_remove_task.
  destruct (TT s' w W') as [l' ->]. destruct (find _ _); [split; [apply T | apply TW]; exact W' | auto].
Qed.

(* the operation kinds outside [atomic_op] *)
Lemma atomic_op_false_kinds o : atomic_op o = false ->
  (exists x ids, o = ChRemoveAll x ids) \/ (exists d t ids, o = LnRemoveAll d t ids) \/
  (exists w ids, o = WbsRemoveAll w ids).
Proof.
  destruct o; cbn [atomic_op]; intro H; try discriminate H.
  - left. do 2 eexists; reflexivity.
  - right; left. do 3 eexists; reflexivity.
  - right; right. do 2 eexists; reflexivity.
Qed.

(* ---------------- the code before the all-or-nothing repair (F10) ---------------- *)
(* the five operations as bare sequences of setter calls *)
Definition step_seq (s : state) (o : op) : state * outcome :=
  match o with
  | LstShift d ts vs => lst_shift_seq d s ts vs
  | LstSetParent ts p => lst_set_parent_seq s ts p
  | LstSetChildren ts vs => lst_set_children_seq s ts vs
  | LstSetLinks d ts vs => lst_set_links_seq d s ts vs
  | NewTaskRel i nm p ch su pr => new_task_rel_seq s i nm p ch su pr
  | _ => step s o
  end.

(* ---------------- refutations (F10): list-level <<, >>, bulk assignment, constructor ---------------- *)
(* p = Task(1); a = Task(2); b = Task(3); p.children = [a, b];  p.children << b
   the loop first runs a.predecessors += [b] (accepted), then b.predecessors += [b] (rejected) *)
Definition wit_lst_shift_pre : state :=
  run init [NewTask 1 None [] None; NewTask 2 None [] None; NewTask 3 None [] None;
            SetChildren 0 [Some 1; Some 2]].
Definition wit_lst_shift_op : op := LstShift true [1; 2] [Some 2].

Lemma C15_refuted_lst_shift : exists s o, snd (step_seq s o) <> OK /\ fst (step_seq s o) <> s.
Proof.
  exists wit_lst_shift_pre, wit_lst_shift_op. split.
  - vm_compute. discriminate.
  - intro E. apply (f_equal (fun s => preds (get (hp s) 1))) in E. vm_compute in E. discriminate E.
Qed.

(* sharper: the call raises RuntimeError and an EXISTING task has a new predecessor and another a new successor *)
Lemma C15_refuted_lst_shift_detail :
  snd (step_seq wit_lst_shift_pre wit_lst_shift_op) = Err /\
  preds (get (hp wit_lst_shift_pre) 1) = [] /\
  preds (get (hp (fst (step_seq wit_lst_shift_pre wit_lst_shift_op))) 1) = [2] /\
  succs (get (hp (fst (step_seq wit_lst_shift_pre wit_lst_shift_op))) 2) = [1].
Proof. vm_compute. auto. Qed.

(* p = Task(1); a = Task(2); b = Task(3); p.children = [a, b];  p.children.parent = b
   a.parent = b is accepted, then b.parent = b is rejected *)
Definition wit_lst_set_parent_pre : state := wit_lst_shift_pre.
Definition wit_lst_set_parent_op : op := LstSetParent [1; 2] (Some 2).

Lemma C15_refuted_lst_set_parent : exists s o, snd (step_seq s o) <> OK /\ fst (step_seq s o) <> s.
Proof.
  exists wit_lst_set_parent_pre, wit_lst_set_parent_op. split.
  - vm_compute. discriminate.
  - intro E. apply (f_equal (fun s => par (get (hp s) 1))) in E. vm_compute in E. discriminate E.
Qed.

Lemma C15_refuted_lst_set_parent_detail :
  snd (step_seq wit_lst_set_parent_pre wit_lst_set_parent_op) = Err /\
  kids (get (hp wit_lst_set_parent_pre) 0) = [1; 2] /\
  kids (get (hp (fst (step_seq wit_lst_set_parent_pre wit_lst_set_parent_op))) 0) = [2] /\
  kids (get (hp (fst (step_seq wit_lst_set_parent_pre wit_lst_set_parent_op))) 2) = [1] /\
  par (get (hp (fst (step_seq wit_lst_set_parent_pre wit_lst_set_parent_op))) 1) = Some 2.
Proof. vm_compute. auto. Qed.

(* p = Task(1);  Task(3, parent=p, predecessors=[p]) : attached to p, then "parent as predecessor" *)
Definition wit_new_task_rel_pre : state := run init [NewTask 1 None [] None].
Definition wit_new_task_rel_op : op := NewTaskRel 3 [] (Some 0) None [] [Some 0].

Lemma C15_refuted_new_task_rel : exists s o, snd (step_seq s o) <> OK /\ fst (step_seq s o) <> s.
Proof.
  exists wit_new_task_rel_pre, wit_new_task_rel_op. split.
  - vm_compute. discriminate.
  - intro E. apply (f_equal (fun s => kids (get (hp s) 0))) in E. vm_compute in E. discriminate E.
Qed.

(* not an artefact of the allocation: an EXISTING task has got a child *)
Lemma C15_refuted_new_task_rel_detail :
  snd (step_seq wit_new_task_rel_pre wit_new_task_rel_op) = Err /\
  kids (get (hp wit_new_task_rel_pre) 0) = [] /\
  kids (get (hp (fst (step_seq wit_new_task_rel_pre wit_new_task_rel_op))) 0) = [1].
Proof. vm_compute. auto. Qed.

(* p = Task(1); a = Task(2); b = Task(3); p.children = [a, b];  x = Task(4);  p.children.children = [x, b]
   a.children = [x, b] is accepted (b moves from p below a), then b.children = [x, b] is rejected (own child) *)
Definition wit_lst_set_children_pre : state :=
  run init [NewTask 1 None [] None; NewTask 2 None [] None; NewTask 3 None [] None; NewTask 4 None [] None;
            SetChildren 0 [Some 1; Some 2]].
Definition wit_lst_set_children_op : op := LstSetChildren [1; 2] [Some 3; Some 2].

Lemma C15_refuted_lst_set_children : exists s o, snd (step_seq s o) <> OK /\ fst (step_seq s o) <> s.
Proof.
  exists wit_lst_set_children_pre, wit_lst_set_children_op. split.
  - vm_compute. discriminate.
  - intro E. apply (f_equal (fun s => kids (get (hp s) 1))) in E. vm_compute in E. discriminate E.
Qed.

Lemma C15_refuted_lst_set_children_detail :
  snd (step_seq wit_lst_set_children_pre wit_lst_set_children_op) = Err /\
  kids (get (hp wit_lst_set_children_pre) 0) = [1; 2] /\
  kids (get (hp (fst (step_seq wit_lst_set_children_pre wit_lst_set_children_op))) 0) = [1] /\
  kids (get (hp (fst (step_seq wit_lst_set_children_pre wit_lst_set_children_op))) 1) = [3; 2] /\
  par (get (hp (fst (step_seq wit_lst_set_children_pre wit_lst_set_children_op))) 2) = Some 1 /\
  fst (step wit_lst_set_children_pre wit_lst_set_children_op) = wit_lst_set_children_pre.
Proof. vm_compute. repeat split; reflexivity. Qed.

(* a = Task(2); b = Task(3); lst = [a, b];  lst.predecessors = [b]
   a.predecessors = [b] is accepted, then b.predecessors = [b] is rejected (own predecessor) *)
Definition wit_lst_set_links_pre : state := wit_lst_shift_pre.
Definition wit_lst_set_links_op : op := LstSetLinks true [1; 2] [Some 2].

Lemma C15_refuted_lst_set_links : exists s o, snd (step_seq s o) <> OK /\ fst (step_seq s o) <> s.
Proof.
  exists wit_lst_set_links_pre, wit_lst_set_links_op. split.
  - vm_compute. discriminate.
  - intro E. apply (f_equal (fun s => preds (get (hp s) 1))) in E. vm_compute in E. discriminate E.
Qed.

Lemma C15_refuted_lst_set_links_detail :
  snd (step_seq wit_lst_set_links_pre wit_lst_set_links_op) = Err /\
  preds (get (hp wit_lst_set_links_pre) 1) = [] /\
  preds (get (hp (fst (step_seq wit_lst_set_links_pre wit_lst_set_links_op))) 1) = [2] /\
  succs (get (hp (fst (step_seq wit_lst_set_links_pre wit_lst_set_links_op))) 2) = [1] /\
  fst (step wit_lst_set_links_pre wit_lst_set_links_op) = wit_lst_set_links_pre.
Proof. vm_compute. repeat split; reflexivity. Qed.

(* the three kinds are atomic per element too: what a raising call leaves is the effect of the
   element calls that returned *)
Lemma C15_lst_shift_partial : forall d s ts vs,
  snd (lst_shift_seq d s ts vs) <> OK ->
  exists done t rest, ts = done ++ t :: rest /\
    snd (lst_shift_seq d s done vs) = OK /\ fst (lst_shift_seq d s ts vs) = fst (lst_shift_seq d s done vs).
Proof.
  intros d s ts vs H. unfold lst_shift_seq in *.
  destruct (seq_calls_prefix (fun s' t => op_shift d s' t vs)
              (fun s' t => op_shift_atomic d s' t vs) _ _ H) as (done & c & rest & E & H1 & H2 & H3).
  exists done, c, rest. auto.
Qed.

Lemma C15_lst_set_children_partial : forall s ts vs,
  snd (lst_set_children_seq s ts vs) <> OK ->
  exists done t rest, ts = done ++ t :: rest /\
    snd (lst_set_children_seq s done vs) = OK /\ fst (lst_set_children_seq s ts vs) = fst (lst_set_children_seq s done vs).
Proof.
  intros s ts vs H. unfold lst_set_children_seq in *.
  destruct (seq_calls_prefix (fun s' t => set_children s' t vs)
              (fun s' t => set_children_atomic s' t vs) _ _ H) as (done & c & rest & E & H1 & H2 & H3).
  exists done, c, rest. auto.
Qed.

Lemma C15_lst_set_links_partial : forall d s ts vs,
  snd (lst_set_links_seq d s ts vs) <> OK ->
  exists done t rest, ts = done ++ t :: rest /\
    snd (lst_set_links_seq d s done vs) = OK /\ fst (lst_set_links_seq d s ts vs) = fst (lst_set_links_seq d s done vs).
Proof.
  intros d s ts vs H. unfold lst_set_links_seq in *.
  destruct (seq_calls_prefix (fun s' t => set_links d s' t vs)
              (fun s' t => set_links_atomic d s' t vs) _ _ H) as (done & c & rest & E & H1 & H2 & H3).
  exists done, c, rest. auto.
Qed.

Lemma C15_lst_set_parent_partial : forall s ts p,
  snd (lst_set_parent_seq s ts p) <> OK ->
  exists done t rest, ts = done ++ t :: rest /\
    snd (lst_set_parent_seq s done p) = OK /\ fst (lst_set_parent_seq s ts p) = fst (lst_set_parent_seq s done p).
Proof.
  intros s ts p H. unfold lst_set_parent_seq in *.
  destruct (seq_calls_prefix (fun s' t => set_parent s' t p)
              (fun s' t => set_parent_atomic s' t p) _ _ H) as (done & c & rest & E & H1 & H2 & H3).
  exists done, c, rest. auto.
Qed.
