(* The children setter  t.children = vs  (Model.set_children), part 1: WHAT THE WRITE DOES.

   The write is three loops (release the old children that are not kept, adopt the new ones in order,
   store the list).  This file characterises the final heap POINTWISE, as a function of the heap h
   before the call - no guard is needed for that, only I_fin + I_pc of the old state:

     released h t value          the old children of t that are not in value
     inA h value x  (bool)       x lies in the subtree (of h) of one of the adopted tasks
     inB h t value x (bool)      x lies in the subtree (of h) of one of the released tasks
     write_char                  length, wroots, and for every object
        par'  x = Some t  if x in value | None if x released | par x otherwise
        kids' q = value   if q = t      | kids q without the adopted tasks otherwise
        own'  x = own t (if t is owned) if inA x | None if inB x | own x otherwise
        rest' x = rest x                (tid preds succs hidden prio name est)        *)
From Coq Require Import Arith PeanoNat.
From PJ Require Import Base.Prelude Graph.Model Graph.Invariant Graph.AncLemmas Graph.AncLemmas2.
Local Open Scope nat_scope.

(* ================= frames: the fields the setter never touches ================= *)
Definition rest (T : task) := (tid T, preds T, succs T, hidden T, prio T, name T, est T).
Definition cframe (h h' : heap) : Prop :=
  length h' = length h /\ forall x, rest (get h' x) = rest (get h x).

Lemma rest_inv T T' : rest T' = rest T ->
  tid T' = tid T /\ preds T' = preds T /\ succs T' = succs T /\ hidden T' = hidden T /\
  prio T' = prio T /\ name T' = name T /\ est T' = est T.
Proof. unfold rest. intro H. injection H; intros. repeat split; assumption. Qed.

Lemma cf_len h h' : cframe h h' -> length h' = length h.
Proof. intros [A _]; exact A. Qed.
Lemma cf_tid h h' x : cframe h h' -> tid (get h' x) = tid (get h x).
Proof. intros [_ A]. apply (rest_inv _ _ (A x)). Qed.
Lemma cf_preds h h' x : cframe h h' -> preds (get h' x) = preds (get h x).
Proof. intros [_ A]. apply (rest_inv _ _ (A x)). Qed.
Lemma cf_succs h h' x : cframe h h' -> succs (get h' x) = succs (get h x).
Proof. intros [_ A]. apply (rest_inv _ _ (A x)). Qed.
Lemma cf_hidden h h' x : cframe h h' -> hidden (get h' x) = hidden (get h x).
Proof. intros [_ A]. apply (rest_inv _ _ (A x)). Qed.

Definition released (h : heap) (t : obj) (value : list obj) : list obj :=
  filter (fun v => negb (memn v value)) (kids (get h t)).

Definition inA (h : heap) (value : list obj) (x : obj) : bool :=
  existsb (fun v => memn x (subtree h v)) value.
Definition inB (h : heap) (t : obj) (value : list obj) (x : obj) : bool :=
  existsb (fun v => memn x (subtree h v)) (released h t value).

Lemma In_released h t value c :
  In c (released h t value) <-> In c (kids (get h t)) /\ ~ In c value.
Proof. unfold released. rewrite filter_In, negb_true_iff, memn_false. tauto. Qed.

(* ================= generic folds ================= *)
Section Folds.
Variable n : nat.
Variable F : heap -> obj -> heap.
Hypothesis Flen : forall h v, length h = n -> length (F h v) = n.

Lemma fold_len l : forall h, length h = n -> length (fold_left F l h) = n.
Proof. induction l as [|a l IH]; intros h Hh; simpl; [exact Hh | apply IH, Flen, Hh]. Qed.

Lemma fold_field {A} (g : task -> A) (p : obj -> obj -> bool) (w : A) :
  (forall h v x, length h = n -> g (get (F h v) x) = if p v x then w else g (get h x)) ->
  forall l h x, length h = n ->
    g (get (fold_left F l h) x) = if existsb (fun v => p v x) l then w else g (get h x).
Proof.
  intros Hstep l. induction l as [|a l IH]; intros h x Hh; simpl; [reflexivity|].
  rewrite IH by (apply Flen; exact Hh). rewrite Hstep by exact Hh.
  destruct (p a x); simpl; [destruct (existsb _ l); reflexivity | reflexivity].
Qed.

Lemma fold_same {A} (g : task -> A) :
  (forall h v x, length h = n -> g (get (F h v) x) = g (get h x)) ->
  forall l h x, length h = n -> g (get (fold_left F l h) x) = g (get h x).
Proof.
  intros Hstep l. induction l as [|a l IH]; intros h x Hh; simpl; [reflexivity|].
  rewrite IH by (apply Flen; exact Hh). apply Hstep. exact Hh.
Qed.
End Folds.

Lemma existsb_ext_in {A} (f g : A -> bool) l : (forall x, In x l -> f x = g x) -> existsb f l = existsb g l.
Proof.
  induction l as [|a l IH]; intro H; simpl; [reflexivity|].
  rewrite (H a) by (left; reflexivity). rewrite IH; [reflexivity|]. intros x Hx. apply H. right; exact Hx.
Qed.

Lemma existsb_eqb_memn n x l :
  (forall v, In v l -> v < n) -> existsb (fun v => Nat.eqb v x && Nat.ltb v n) l = memn x l.
Proof.
  intro H. unfold memn. apply existsb_ext_in. intros v Hv.
  assert (L : Nat.ltb v n = true) by (apply Nat.ltb_lt; apply H; exact Hv).
  rewrite L, andb_true_r. apply Nat.eqb_sym.
Qed.

Lemma memn_subtree_lt h v x : memn x (subtree h v) && Nat.ltb x (length h) = memn x (subtree h v).
Proof.
  destruct (memn x (subtree h v)) eqn:M; [|reflexivity]. simpl.
  apply Nat.ltb_lt. apply memn_In in M. eapply subtree_lt; eauto.
Qed.

Lemma fold_left_snoc {A B} (f : A -> B -> A) l v a : fold_left f (l ++ [v]) a = f (fold_left f l a) v.
Proof. rewrite fold_left_app. reflexivity. Qed.

Lemma filter_true {A} (l : list A) : filter (fun _ => true) l = l.
Proof. induction l as [|a l IH]; simpl; congruence. Qed.

Lemma memn_snoc c l v : memn c (l ++ [v]) = memn c l || Nat.eqb c v.
Proof. unfold memn. rewrite existsb_app. simpl. rewrite orb_false_r. reflexivity. Qed.

Lemma filter_snoc_notin (k l : list nat) v :
  ~ In v k -> filter (fun c => negb (memn c (l ++ [v]))) k = filter (fun c => negb (memn c l)) k.
Proof.
  intro Hn. apply filter_ext_in. intros c Hc. rewrite memn_snoc.
  assert (E : Nat.eqb c v = false) by (apply Nat.eqb_neq; intro; subst; auto).
  rewrite E, orb_false_r. reflexivity.
Qed.

Lemma filter_snoc_remove1 (k l : list nat) v :
  NoDup k -> remove1 v (filter (fun c => negb (memn c l)) k) = filter (fun c => negb (memn c (l ++ [v]))) k.
Proof.
  intro Hnd. rewrite remove1_without by (apply NoDup_filter; exact Hnd).
  unfold without. clear Hnd. induction k as [|a k IH]; simpl; [reflexivity|].
  rewrite memn_snoc. destruct (memn a l) eqn:M; simpl; [exact IH|].
  rewrite (Nat.eqb_sym a v). destruct (Nat.eqb v a); simpl; [exact IH | f_equal; exact IH].
Qed.

(* ================= one step of each loop, field by field ================= *)
Lemma release_len h0 h v : length (release_child h0 h v) = length h.
Proof. unfold release_child. rewrite length_set_own_all, length_upd. reflexivity. Qed.

Lemma release_par h0 h v x :
  par (get (release_child h0 h v) x) = if Nat.eqb v x && Nat.ltb v (length h) then None else par (get h x).
Proof.
  unfold release_child. rewrite (proj_get_set_own_all par) by reflexivity. rewrite get_upd.
  destruct (Nat.eqb v x && Nat.ltb v (length h)); reflexivity.
Qed.

Lemma release_own h0 h v x : length h = length h0 ->
  own (get (release_child h0 h v) x) = if memn x (subtree h0 v) then None else own (get h x).
Proof.
  intro Hl. unfold release_child. rewrite own_get_set_own_all, length_upd, Hl, memn_subtree_lt.
  destruct (memn x (subtree h0 v)); [reflexivity|]. apply (proj_get_upd own). reflexivity.
Qed.

Lemma release_keep {A} (g : task -> A) h0 h v x :
  (forall w T, g (with_own w T) = g T) -> (forall w T, g (with_par w T) = g T) ->
  g (get (release_child h0 h v) x) = g (get h x).
Proof.
  intros H1 H2. unfold release_child. rewrite (proj_get_set_own_all g) by exact H1.
  apply (proj_get_upd g). apply H2.
Qed.

(* the first write of adopt_child: v leaves the children list of its present parent *)
Definition adopt_h1 (t : obj) (h : heap) (v : obj) : heap :=
  match par (get h v) with
  | Some q => if negb (Nat.eqb q t) && memn v (kids (get h q))
              then upd h q (fun Q => with_kids (remove1 v (kids Q)) Q) else h
  | None => h
  end.

Lemma adopt_unfold h0 t h v :
  adopt_child h0 t h v =
  match own (get h0 t) with
  | Some w => set_own_all (upd (adopt_h1 t h v) v (with_par (Some t))) (subtree h0 v) (Some w)
  | None => upd (adopt_h1 t h v) v (with_par (Some t))
  end.
Proof. reflexivity. Qed.

Lemma adopt_h1_len t h v : length (adopt_h1 t h v) = length h.
Proof.
  unfold adopt_h1. destruct (par (get h v)) as [q|]; [|reflexivity].
  destruct (negb (Nat.eqb q t) && memn v (kids (get h q))); [apply length_upd | reflexivity].
Qed.

Lemma adopt_h1_keep {A} (g : task -> A) t h v x :
  (forall w T, g (with_kids w T) = g T) -> g (get (adopt_h1 t h v) x) = g (get h x).
Proof.
  intro H. unfold adopt_h1. destruct (par (get h v)) as [q|]; [|reflexivity].
  destruct (negb (Nat.eqb q t) && memn v (kids (get h q))); [|reflexivity].
  apply (proj_get_upd g). intro T. apply H.
Qed.

Lemma adopt_h1_kids t h v q :
  kids (get (adopt_h1 t h v) q) =
  if onat_eqb (par (get h v)) (Some q) && negb (Nat.eqb q t) && memn v (kids (get h q))
  then remove1 v (kids (get h q)) else kids (get h q).
Proof.
  unfold adopt_h1. destruct (par (get h v)) as [p|]; [|reflexivity].
  change (onat_eqb (Some p) (Some q)) with (Nat.eqb p q).
  destruct (Nat.eqb p q) eqn:E.
  - apply Nat.eqb_eq in E. subst p. simpl.
    destruct (negb (Nat.eqb q t) && memn v (kids (get h q))) eqn:C; [|reflexivity].
    rewrite get_upd, Nat.eqb_refl. simpl.
    destruct (Nat.ltb q (length h)) eqn:L; [reflexivity|].
    apply Nat.ltb_ge in L. rewrite get_out_kids in C by exact L.
    rewrite andb_false_r in C. discriminate.
  - simpl. destruct (negb (Nat.eqb p t) && memn v (kids (get h p))); [|reflexivity].
    rewrite get_upd_other; [reflexivity|]. apply Nat.eqb_neq. exact E.
Qed.

Lemma adopt_len h0 t h v : length (adopt_child h0 t h v) = length h.
Proof.
  rewrite adopt_unfold. destruct (own (get h0 t)); rewrite ?length_set_own_all, length_upd; apply adopt_h1_len.
Qed.

Lemma adopt_par h0 t h v x :
  par (get (adopt_child h0 t h v) x) = if Nat.eqb v x && Nat.ltb v (length h) then Some t else par (get h x).
Proof.
  rewrite adopt_unfold.
  assert (E : par (get (upd (adopt_h1 t h v) v (with_par (Some t))) x) =
              if Nat.eqb v x && Nat.ltb v (length h) then Some t else par (get h x)).
  { rewrite get_upd, adopt_h1_len.
    destruct (Nat.eqb v x && Nat.ltb v (length h)); [reflexivity|]. apply (adopt_h1_keep par). reflexivity. }
  destruct (own (get h0 t)); [rewrite (proj_get_set_own_all par) by reflexivity|]; exact E.
Qed.

Lemma adopt_kids h0 t h v q :
  kids (get (adopt_child h0 t h v) q) = kids (get (adopt_h1 t h v) q).
Proof.
  rewrite adopt_unfold.
  destruct (own (get h0 t)); [rewrite (proj_get_set_own_all kids) by reflexivity|];
    apply (proj_get_upd kids); reflexivity.
Qed.

Lemma adopt_own_some h0 t h v x w : length h = length h0 -> own (get h0 t) = Some w ->
  own (get (adopt_child h0 t h v) x) = if memn x (subtree h0 v) then Some w else own (get h x).
Proof.
  intros Hl Ew. rewrite adopt_unfold, Ew.
  rewrite own_get_set_own_all, length_upd, adopt_h1_len, Hl, memn_subtree_lt.
  destruct (memn x (subtree h0 v)); [reflexivity|].
  rewrite (proj_get_upd own) by reflexivity. apply (adopt_h1_keep own). reflexivity.
Qed.

Lemma adopt_own_none h0 t h v x : own (get h0 t) = None ->
  own (get (adopt_child h0 t h v) x) = own (get h x).
Proof.
  intro Ew. rewrite adopt_unfold, Ew.
  rewrite (proj_get_upd own) by reflexivity. apply (adopt_h1_keep own). reflexivity.
Qed.

Lemma adopt_keep {A} (g : task -> A) h0 t h v x :
  (forall w T, g (with_own w T) = g T) -> (forall w T, g (with_par w T) = g T) ->
  (forall w T, g (with_kids w T) = g T) ->
  g (get (adopt_child h0 t h v) x) = g (get h x).
Proof.
  intros H1 H2 H3. rewrite adopt_unfold.
  destruct (own (get h0 t)); [rewrite (proj_get_set_own_all g) by exact H1|];
    (rewrite (proj_get_upd g) by (apply H2)); apply (adopt_h1_keep g); exact H3.
Qed.

(* ================= the whole write ================= *)
Section Write.
Variables (s : state) (t : obj) (value : list obj).
Local Notation h := (hp s).
Local Notation n := (length (hp s)).
Hypothesis Hfin : I_fin s.
Hypothesis Hpc : I_pc s.
Hypothesis Ht : t < n.
Hypothesis Hnd : NoDup value.
Hypothesis Hv : forall v, In v value -> v < n.

Local Notation R := (released h t value).
Local Notation h1 := (fold_left (release_child h) R h).
Local Notation h2 := (fold_left (adopt_child h t) value h1).
Local Notation h3 := (upd h2 t (with_kids value)).

Lemma write_unfold : set_children_write s t value = mkS h3 (wroots s).
Proof. reflexivity. Qed.

Lemma R_lt c : In c R -> c < n.
Proof.
  intro H. apply In_released in H. destruct H as [H _].
  destruct Hfin as [F _]. specialize (F t). cbv zeta in F. apply (proj1 (proj2 F)).
  apply in_or_app. left. exact H.
Qed.

Lemma len_h1 : length h1 = n.
Proof. apply (fold_len n); [|reflexivity]. intros h' v E. rewrite release_len. exact E. Qed.

Lemma len_pre l : length (fold_left (adopt_child h t) l h1) = n.
Proof. apply (fold_len n); [|apply len_h1]. intros h' v E. rewrite adopt_len. exact E. Qed.

Lemma par_h1 x : par (get h1 x) = if memn x R then None else par (get h x).
Proof.
  rewrite <- (existsb_eqb_memn n x R R_lt).
  apply (fold_field n (release_child h) (fun h' v E => eq_trans (release_len h h' v) E) par
                    (fun v x => Nat.eqb v x && Nat.ltb v n) None); [|reflexivity].
  intros h' v y E. rewrite release_par, E. reflexivity.
Qed.

Lemma own_h1 x : own (get h1 x) = if inB h t value x then None else own (get h x).
Proof.
  unfold inB.
  apply (fold_field n (release_child h) (fun h' v E => eq_trans (release_len h h' v) E) own
                    (fun v x => memn x (subtree h v)) None); [|reflexivity].
  intros h' v y E. apply release_own. exact E.
Qed.

Lemma keep_h1 {A} (g : task -> A) x :
  (forall w T, g (with_own w T) = g T) -> (forall w T, g (with_par w T) = g T) ->
  g (get h1 x) = g (get h x).
Proof.
  intros H1 H2.
  apply (fold_same n (release_child h) (fun h' v E => eq_trans (release_len h h' v) E) g); [|reflexivity].
  intros h' v y _. apply release_keep; assumption.
Qed.

(* ---- the adoption loop, for any prefix l of the list ---- *)
Lemma par_pre l x : (forall v, In v l -> v < n) ->
  par (get (fold_left (adopt_child h t) l h1) x) = if memn x l then Some t else par (get h1 x).
Proof.
  intro Hl. rewrite <- (existsb_eqb_memn n x l Hl).
  apply (fold_field n (adopt_child h t) (fun h' v E => eq_trans (adopt_len h t h' v) E) par
                    (fun v x => Nat.eqb v x && Nat.ltb v n) (Some t)); [|apply len_h1].
  intros h' v y E. rewrite adopt_par, E. reflexivity.
Qed.

Lemma own_pre_some l x w : own (get h t) = Some w ->
  own (get (fold_left (adopt_child h t) l h1) x) =
  if existsb (fun v => memn x (subtree h v)) l then Some w else own (get h1 x).
Proof.
  intro Ew.
  apply (fold_field n (adopt_child h t) (fun h' v E => eq_trans (adopt_len h t h' v) E) own
                    (fun v x => memn x (subtree h v)) (Some w)); [|apply len_h1].
  intros h' v y E. apply adopt_own_some; assumption.
Qed.

Lemma own_pre_none l x : own (get h t) = None ->
  own (get (fold_left (adopt_child h t) l h1) x) = own (get h1 x).
Proof.
  intro Ew.
  apply (fold_same n (adopt_child h t) (fun h' v E => eq_trans (adopt_len h t h' v) E) own); [|apply len_h1].
  intros h' v y _. apply adopt_own_none. exact Ew.
Qed.

Lemma keep_pre {A} (g : task -> A) l x :
  (forall w T, g (with_own w T) = g T) -> (forall w T, g (with_par w T) = g T) ->
  (forall w T, g (with_kids w T) = g T) ->
  g (get (fold_left (adopt_child h t) l h1) x) = g (get h x).
Proof.
  intros H1 H2 H3. rewrite <- (keep_h1 g x H1 H2).
  apply (fold_same n (adopt_child h t) (fun h' v E => eq_trans (adopt_len h t h' v) E) g); [|apply len_h1].
  intros h' v y _. apply adopt_keep; assumption.
Qed.

Lemma kids_pre l :
  NoDup l -> (forall v, In v l -> v < n /\ ~ In v R) ->
  forall q, kids (get (fold_left (adopt_child h t) l h1) q) =
            if Nat.eqb q t then kids (get h t) else filter (fun c => negb (memn c l)) (kids (get h q)).
Proof.
  induction l as [|v l IH] using rev_ind; intros Hndl Hl q.
  - simpl. rewrite filter_true. rewrite (keep_h1 kids) by reflexivity. destruct (Nat.eqb q t) eqn:E; [|reflexivity].
    apply Nat.eqb_eq in E. subst q. reflexivity.
  - assert (Hndl' : NoDup l) by (eapply NoDup_app_l; eauto).
    assert (Hvl : ~ In v l).
    { intro Hin. eapply (NoDup_app_disj l [v] v Hndl); [exact Hin | left; reflexivity]. }
    assert (Hl' : forall v0, In v0 l -> v0 < n /\ ~ In v0 R).
    { intros v0 H0. apply Hl. apply in_or_app. left. exact H0. }
    assert (Hvin : In v (l ++ [v])) by (apply in_or_app; right; left; reflexivity).
    destruct (Hl v Hvin) as [Lv NRv].
    specialize (IH Hndl' Hl').
    rewrite fold_left_snoc.
    set (hd := fold_left (adopt_child h t) l h1) in *.
    rewrite adopt_kids, adopt_h1_kids.
    assert (Pv : par (get hd v) = par (get h v)).
    { unfold hd. rewrite par_pre by (intros v0 H0; apply Hl'; exact H0).
      apply memn_false in Hvl. rewrite Hvl. rewrite par_h1.
      apply memn_false in NRv. rewrite NRv. reflexivity. }
    rewrite Pv.
    destruct Hpc as [Hpc1 Hpc2].
    destruct (onat_eqb (par (get h v)) (Some q) && negb (Nat.eqb q t) && memn v (kids (get hd q))) eqn:C.
    + apply andb_true_iff in C. destruct C as [C C3]. apply andb_true_iff in C. destruct C as [C1 C2].
      apply onat_eqb_eq in C1. apply negb_true_iff in C2. rewrite (IH q), C2.
      apply filter_snoc_remove1. apply Hpc2.
    + rewrite (IH q). destruct (Nat.eqb q t) eqn:Eqt; [reflexivity|].
      symmetry. apply filter_snoc_notin. intro Hin.
      apply Hpc1 in Hin. rewrite Hin, onat_eqb_refl in C. cbn [negb andb] in C.
      rewrite (IH q), Eqt in C. apply memn_false in C. apply C.
      apply filter_In. split; [apply Hpc1; exact Hin|]. apply negb_true_iff, memn_false. exact Hvl.
Qed.

Lemma value_not_R v : In v value -> ~ In v R.
Proof. intros Hin HR. apply In_released in HR. tauto. Qed.

(* ---- the final heap ---- *)
Theorem write_len : length h3 = n.
Proof. rewrite length_upd. apply len_pre. Qed.

Theorem write_par x :
  par (get h3 x) = if memn x value then Some t else if memn x R then None else par (get h x).
Proof.
  rewrite (proj_get_upd par) by reflexivity. rewrite par_pre by exact Hv. rewrite par_h1. reflexivity.
Qed.

Theorem write_kids q :
  kids (get h3 q) = if Nat.eqb q t then value else filter (fun c => negb (memn c value)) (kids (get h q)).
Proof.
  rewrite get_upd, len_pre. rewrite (Nat.eqb_sym t q).
  destruct (Nat.eqb q t) eqn:E.
  - apply Nat.ltb_lt in Ht. rewrite Ht. reflexivity.
  - cbn [andb]. rewrite kids_pre; [rewrite E; reflexivity | exact Hnd |].
    intros v Hin. split; [apply Hv; exact Hin | apply value_not_R; exact Hin].
Qed.

Theorem write_own x :
  own (get h3 x) =
  match own (get h t) with
  | Some w => if inA h value x then Some w else if inB h t value x then None else own (get h x)
  | None => if inB h t value x then None else own (get h x)
  end.
Proof.
  rewrite (proj_get_upd own) by reflexivity.
  destruct (own (get h t)) as [w|] eqn:Ew.
  - rewrite (own_pre_some value x w Ew), own_h1. reflexivity.
  - rewrite (own_pre_none value x Ew), own_h1. reflexivity.
Qed.

Theorem write_rest x : rest (get h3 x) = rest (get h x).
Proof.
  rewrite (proj_get_upd rest) by reflexivity. apply (keep_pre rest); reflexivity.
Qed.

Theorem write_cframe : cframe h h3.
Proof. split; [apply write_len | apply write_rest]. Qed.
End Write.
