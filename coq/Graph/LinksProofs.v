(* The dependency setter  t.predecessors = vs / t.successors = vs  (Model.set_links) preserves WF.

   INDEX
   frames
     core T                      every field of a task except preds / succs
     lframe h h'                 same length, same core at every object
     lframe_write                the write of set_links is a frame, unconditionally
     Anc_frame, Root_frame, frame_fin / frame_pc / frame_acy / frame_ids / frame_hid / frame_own
     frame_WF                    a state that differs only in preds/succs keeps I_fin I_pc I_acy I_ids I_hid I_own
                                 (given: new links in range, hidden roots still without links)
   direction-generic forms of the link conjuncts
     symd dir h, sepd dir h; symd_sym, sepd_sep; (I_dag: DepLemmas.dag_fnext)
   the write, pointwise
     write_fwd  fwd dir (get h' x) = if x =? t then value else fwd dir (get h x)
     write_bwd  bwd dir (get h' x) = without t (bwd dir (get h x)) ++ (if memn x value then [t] else [])
     set_links_effect, set_links_effect_bwd_cases   (for C16)
   the guard
     guard_ok   an accepted guard gives v <> t, ~Anc t v, ~Anc v t, ~Reach (fnext dir h) v t for v in value
   preservation
     set_links_write_WF          accepted call
     set_links_WF                WF s -> pub s t -> pubs s vs -> WF (fst (set_links dir s t vs))
     set_links_shape             length and hidden flags never change (whatever the arguments)
     set_links_pub               pub is stable under set_links *)
From Coq Require Import Arith PeanoNat.
From PJ Require Import Base.Prelude Graph.Model Graph.Invariant Graph.DepLemmas.
Local Open Scope nat_scope.

(* ================= frames ================= *)
Definition core (T : task) := (tid T, par T, kids T, own T, hidden T, prio T, name T, est T).
Definition keep (f : task -> task) : Prop := forall T, core (f T) = core T.
Definition lframe (h h' : heap) : Prop :=
  length h' = length h /\ forall x, core (get h' x) = core (get h x).

Lemma core_inv T T' : core T' = core T ->
  tid T' = tid T /\ par T' = par T /\ kids T' = kids T /\ own T' = own T /\ hidden T' = hidden T /\
  prio T' = prio T /\ name T' = name T /\ est T' = est T.
Proof. unfold core. intro H. injection H; intros. repeat split; assumption. Qed.

Lemma lf_len h h' : lframe h h' -> length h' = length h.
Proof. intros [A _]; exact A. Qed.
Lemma lf_tid h h' x : lframe h h' -> tid (get h' x) = tid (get h x).
Proof. intros [_ A]. apply (core_inv _ _ (A x)). Qed.
Lemma lf_par h h' x : lframe h h' -> par (get h' x) = par (get h x).
Proof. intros [_ A]. apply (core_inv _ _ (A x)). Qed.
Lemma lf_kids h h' x : lframe h h' -> kids (get h' x) = kids (get h x).
Proof. intros [_ A]. apply (core_inv _ _ (A x)). Qed.
Lemma lf_own h h' x : lframe h h' -> own (get h' x) = own (get h x).
Proof. intros [_ A]. apply (core_inv _ _ (A x)). Qed.
Lemma lf_hidden h h' x : lframe h h' -> hidden (get h' x) = hidden (get h x).
Proof. intros [_ A]. apply (core_inv _ _ (A x)). Qed.

Lemma lframe_refl h : lframe h h.
Proof. split; reflexivity. Qed.

Lemma lframe_sym h h' : lframe h h' -> lframe h' h.
Proof. intros [A B]. split; [symmetry; exact A|intro x; symmetry; apply B]. Qed.

Lemma lframe_trans h1 h2 h3 : lframe h1 h2 -> lframe h2 h3 -> lframe h1 h3.
Proof. intros [A B] [C D]. split; [congruence|intro x; rewrite D; apply B]. Qed.

Lemma lframe_upd h x f : keep f -> lframe h (upd h x f).
Proof.
  intro K. split; [apply dl_upd_length|]. intro y.
  destruct (dl_get_upd_cases h x y f) as [E|E]; rewrite E; [apply K|reflexivity].
Qed.

Lemma lframe_fold {A} (F : heap -> A -> heap) :
  (forall h v, lframe h (F h v)) -> forall l h, lframe h (fold_left F l h).
Proof.
  intros HF l; induction l as [|a l IH]; intro h; simpl; [apply lframe_refl|].
  eapply lframe_trans; [apply HF|apply IH].
Qed.

Lemma keep_with_fwd dir v : keep (with_fwd dir v).
Proof. destruct dir; intros []; reflexivity. Qed.

Lemma keep_with_bwd dir (g : task -> list obj) : keep (fun V => with_bwd dir (g V) V).
Proof. destruct dir; intros []; reflexivity. Qed.

Lemma Anc_frame h h' x a : lframe h h' -> Anc h x a -> Anc h' x a.
Proof.
  intros L H. induction H as [x p Hp|x p a Hp Hpa IH].
  - apply Anc_par. rewrite (lf_par _ _ x L). exact Hp.
  - eapply Anc_up; [rewrite (lf_par _ _ x L); exact Hp|exact IH].
Qed.

Lemma Anc_frame_iff h h' x a : lframe h h' -> (Anc h' x a <-> Anc h x a).
Proof. intro L. split; apply Anc_frame; [apply lframe_sym|]; exact L. Qed.

Lemma Root_frame_iff h h' x r : lframe h h' -> (Root h' x r <-> Root h x r).
Proof. intro L. unfold Root. rewrite (Anc_frame_iff _ _ x r L), (lf_par _ _ r L). tauto. Qed.

Lemma frame_fin s s' :
  lframe (hp s) (hp s') -> wroots s' = wroots s ->
  (forall x y, In y (preds (get (hp s') x)) \/ In y (succs (get (hp s') x)) -> y < length (hp s)) ->
  I_fin s -> I_fin s'.
Proof.
  intros L W R F. split.
  - intro x. cbv zeta. rewrite (lf_len _ _ L), W, (lf_par _ _ x L), (lf_kids _ _ x L), (lf_own _ _ x L).
    split; [|split].
    + intros p E. eapply dl_fin_par; eassumption.
    + intros y H. apply in_app_or in H. destruct H as [H|H].
      * eapply dl_fin_kids; eassumption.
      * apply in_app_or in H. apply (R x y). exact H.
    + intros w E. eapply dl_fin_own; eassumption.
  - rewrite W, (lf_len _ _ L). intros r H. eapply dl_fin_wroots; eassumption.
Qed.

Lemma frame_pc s s' : lframe (hp s) (hp s') -> I_pc s -> I_pc s'.
Proof.
  intros L [A B]. split.
  - intros c p. rewrite (lf_par _ _ c L), (lf_kids _ _ p L). apply A.
  - intro p. rewrite (lf_kids _ _ p L). apply B.
Qed.

Lemma frame_acy s s' : lframe (hp s) (hp s') -> I_acy s -> I_acy s'.
Proof. intros L A t H. apply (A t). apply (Anc_frame_iff _ _ t t L). exact H. Qed.

Lemma frame_ids s s' : lframe (hp s) (hp s') -> I_ids s -> I_ids s'.
Proof.
  intros L A a b r. rewrite (lf_len _ _ L), !(Root_frame_iff _ _ _ r L), (lf_tid _ _ a L), (lf_tid _ _ b L).
  apply A.
Qed.

Lemma frame_own s s' : lframe (hp s) (hp s') -> wroots s' = wroots s -> I_own s -> I_own s'.
Proof.
  intros L W A t w. rewrite (lf_len _ _ L), W, (Root_frame_iff _ _ t _ L), (lf_own _ _ t L). apply A.
Qed.

Lemma frame_hid s s' :
  lframe (hp s) (hp s') -> wroots s' = wroots s ->
  (forall x, x < length (hp s) -> hidden (get (hp s) x) = true ->
             preds (get (hp s') x) = [] /\ succs (get (hp s') x) = []) ->
  I_fin s -> I_hid s -> I_hid s'.
Proof.
  intros L W N F [A [B C]]. split; [rewrite W; exact A|]. split.
  - intro x. rewrite (lf_len _ _ L), W, (lf_hidden _ _ x L). apply B.
  - rewrite W. intros w Hw. cbv zeta.
    rewrite (lf_own _ _ _ L), (lf_par _ _ _ L).
    destruct (C w Hw) as [C1 [C2 _]]. split; [exact C1|]. split; [exact C2|].
    assert (Hin : In (nth w (wroots s) 0) (wroots s)) by (apply nth_In; exact Hw).
    assert (Hr : nth w (wroots s) 0 < length (hp s)) by (eapply dl_fin_wroots; eassumption).
    apply N; [exact Hr|]. apply B; assumption.
Qed.

Theorem frame_WF s s' :
  lframe (hp s) (hp s') -> wroots s' = wroots s ->
  (forall x y, In y (preds (get (hp s') x)) \/ In y (succs (get (hp s') x)) -> y < length (hp s)) ->
  (forall x, x < length (hp s) -> hidden (get (hp s) x) = true ->
             preds (get (hp s') x) = [] /\ succs (get (hp s') x) = []) ->
  I_sym s' -> I_dag s' -> I_sep s' ->
  WF s -> WF s'.
Proof.
  intros L W R N Ssym Sdag Ssep (F & Pc & Ac & _ & _ & _ & Ids & Hid & Own).
  split; [eapply frame_fin; eassumption|].
  split; [eapply frame_pc; eassumption|].
  split; [eapply frame_acy; eassumption|].
  split; [exact Ssym|]. split; [exact Sdag|]. split; [exact Ssep|].
  split; [eapply frame_ids; eassumption|].
  split; [eapply frame_hid; eassumption|].
  eapply frame_own; eassumption.
Qed.

(* ================= direction-generic link conjuncts ================= *)
Definition symd (dir : bool) (h : heap) : Prop :=
  (forall a b, In b (fwd dir (get h a)) <-> In a (bwd dir (get h b))) /\
  (forall a, NoDup (fwd dir (get h a)) /\ NoDup (bwd dir (get h a))).

Definition sepd (dir : bool) (h : heap) : Prop :=
  forall a b, In b (fwd dir (get h a)) -> ~ Anc h a b /\ ~ Anc h b a.

Lemma symd_sym dir s : I_sym s <-> symd dir (hp s).
Proof.
  unfold I_sym, symd. destruct dir; simpl; [tauto|].
  split; intros [A B]; (split; [intros a b; symmetry; apply A|intro a; destruct (B a); split; assumption]).
Qed.

Lemma sepd_sep dir s : I_sym s -> (I_sep s <-> sepd dir (hp s)).
Proof.
  intros [S _]. unfold I_sep, sepd. destruct dir; simpl; [tauto|].
  split; intros H a b Hb.
  - apply S in Hb. destruct (H b a Hb); split; assumption.
  - apply S in Hb. destruct (H b a Hb); split; assumption.
Qed.

Lemma fwd_with_fwd dir v V : fwd dir (with_fwd dir v V) = v.
Proof. destruct dir, V; reflexivity. Qed.
Lemma bwd_with_fwd dir v V : bwd dir (with_fwd dir v V) = bwd dir V.
Proof. destruct dir, V; reflexivity. Qed.
Lemma fwd_with_bwd dir v V : fwd dir (with_bwd dir v V) = fwd dir V.
Proof. destruct dir, V; reflexivity. Qed.
Lemma bwd_with_bwd dir v V : bwd dir (with_bwd dir v V) = v.
Proof. destruct dir, V; reflexivity. Qed.
Lemma with_bwd_id dir V : with_bwd dir (bwd dir V) V = V.
Proof. destruct dir, V; reflexivity. Qed.

Lemma fin_fwd dir s x y : I_fin s -> In y (fwd dir (get (hp s) x)) -> y < length (hp s).
Proof. intros F H. destruct dir; simpl in H; [eapply dl_fin_preds|eapply dl_fin_succs]; eassumption. Qed.

Lemma fin_bwd dir s x y : I_fin s -> In y (bwd dir (get (hp s) x)) -> y < length (hp s).
Proof. intros F H. destruct dir; simpl in H; [eapply dl_fin_succs|eapply dl_fin_preds]; eassumption. Qed.

(* ================= the write, step by step ================= *)
Definition G1 (dir : bool) (t : obj) (V : task) : task := with_bwd dir (remove1 t (bwd dir V)) V.
Definition F1 (dir : bool) (t : obj) (h' : heap) (v : obj) : heap :=
  if memn t (bwd dir (get h' v)) then upd h' v (G1 dir t) else h'.
Definition A3 (dir : bool) (t : obj) (V : task) : task := with_bwd dir (bwd dir V ++ [t]) V.
Definition G3 (dir : bool) (t : obj) (V : task) : task := if memn t (bwd dir V) then V else A3 dir t V.
Definition F3 (dir : bool) (t : obj) (h' : heap) (v : obj) : heap :=
  if memn t (bwd dir (get h' v)) then h' else upd h' v (A3 dir t).

Definition wr1 dir (h : heap) t := fold_left (F1 dir t) (fwd dir (get h t)) h.
Definition wr2 dir h t value := upd (wr1 dir h t) t (with_fwd dir value).
Definition wr3 dir h t value := fold_left (F3 dir t) value (wr2 dir h t value).

Lemma write_unfold dir s t value :
  set_links_write dir s t value = mkS (wr3 dir (hp s) t value) (wroots s).
Proof. reflexivity. Qed.

Lemma keep_G1 dir t : keep (G1 dir t).
Proof. apply (keep_with_bwd dir (fun V => remove1 t (bwd dir V))). Qed.
Lemma keep_A3 dir t : keep (A3 dir t).
Proof. apply (keep_with_bwd dir (fun V => bwd dir V ++ [t])). Qed.

Lemma lframe_F1 dir t h v : lframe h (F1 dir t h v).
Proof. unfold F1. destruct (memn _ _); [apply lframe_upd, keep_G1|apply lframe_refl]. Qed.
Lemma lframe_F3 dir t h v : lframe h (F3 dir t h v).
Proof. unfold F3. destruct (memn _ _); [apply lframe_refl|apply lframe_upd, keep_A3]. Qed.

(* the write touches nothing but preds / succs - no hypothesis at all *)
Theorem lframe_write dir s t value : lframe (hp s) (hp (set_links_write dir s t value)).
Proof.
  rewrite write_unfold. simpl. unfold wr3, wr2, wr1.
  eapply lframe_trans; [|apply lframe_fold; intros; apply lframe_F3].
  eapply lframe_trans; [|apply lframe_upd, keep_with_fwd].
  apply lframe_fold; intros; apply lframe_F1.
Qed.

Lemma fold_pointwise (F : heap -> obj -> heap) (G : task -> task) :
  (forall h v, length (F h v) = length h) ->
  (forall h v x, v < length h -> get (F h v) x = if Nat.eqb x v then G (get h x) else get h x) ->
  forall l h, NoDup l -> (forall v, In v l -> v < length h) ->
  forall x, get (fold_left F l h) x = if memn x l then G (get h x) else get h x.
Proof.
  intros HL HG l; induction l as [|a l IH]; intros h ND R x; simpl; [reflexivity|].
  inversion ND as [|a' l' Hn Hd]; subst.
  rewrite IH; [|exact Hd|intros v Hv; rewrite HL; apply R; right; exact Hv].
  rewrite HG by (apply R; left; reflexivity).
  destruct (Nat.eqb x a) eqn:E; simpl; [|reflexivity].
  apply Nat.eqb_eq in E; subst x.
  apply dl_memn_false in Hn. rewrite Hn. reflexivity.
Qed.

Lemma F1_get dir t h v x : v < length h ->
  get (F1 dir t h v) x = if Nat.eqb x v then G1 dir t (get h x) else get h x.
Proof.
  intro L. unfold F1. destruct (memn t (bwd dir (get h v))) eqn:M; destruct (Nat.eqb x v) eqn:E.
  - apply Nat.eqb_eq in E; subst x. apply dl_get_upd_same; exact L.
  - apply Nat.eqb_neq in E. apply dl_get_upd_other; congruence.
  - apply Nat.eqb_eq in E; subst x. unfold G1.
    rewrite dl_remove1_notin by (apply dl_memn_false; exact M). symmetry; apply with_bwd_id.
  - reflexivity.
Qed.

Lemma F3_get dir t h v x : v < length h ->
  get (F3 dir t h v) x = if Nat.eqb x v then G3 dir t (get h x) else get h x.
Proof.
  intro L. unfold F3, G3. destruct (Nat.eqb x v) eqn:E.
  - apply Nat.eqb_eq in E; subst x. destruct (memn t (bwd dir (get h v))) eqn:M; [reflexivity|].
    apply dl_get_upd_same; exact L.
  - apply Nat.eqb_neq in E. destruct (memn t (bwd dir (get h v))); [reflexivity|].
    apply dl_get_upd_other; congruence.
Qed.

Lemma NoDup_snoc (l : list nat) x : NoDup l -> ~ In x l -> NoDup (l ++ [x]).
Proof.
  induction l as [|a l IH]; simpl; intros ND N.
  - constructor; [intros []|constructor].
  - inversion ND as [|a' l' Hn Hd]; subst. constructor.
    + rewrite in_app_iff. intros [H|[H|[]]]; [exact (Hn H)|apply N; left; symmetry; exact H].
    + apply IH; [exact Hd|intro H; apply N; right; exact H].
Qed.

Lemma existsb_false {A} (f : A -> bool) l : existsb f l = false -> forall x, In x l -> f x = false.
Proof.
  intros H x Hx. destruct (f x) eqn:E; [|reflexivity].
  rewrite <- H. symmetry. apply existsb_exists. exists x; split; assumption.
Qed.

Section Write.
Variables (dir : bool) (s : state) (t : obj) (value : list obj).
Local Notation h := (hp s).
Hypothesis Hfin : I_fin s.
Hypothesis Hsym : symd dir h.
Hypothesis Ht : t < length h.
Hypothesis Hv : forall v, In v value -> v < length h.
Hypothesis Hnd : NoDup value.

Local Notation old := (fwd dir (get h t)).
Local Notation h1 := (wr1 dir h t).
Local Notation h2 := (wr2 dir h t value).
Local Notation h3 := (wr3 dir h t value).

Lemma len_h1 : length h1 = length h.
Proof. apply (lf_len _ _ (lframe_fold _ (lframe_F1 dir t) _ _)). Qed.

Lemma len_h2 : length h2 = length h.
Proof. unfold wr2. rewrite dl_upd_length. apply len_h1. Qed.

Lemma get_h1 x : get h1 x = if memn x old then G1 dir t (get h x) else get h x.
Proof.
  unfold wr1. apply fold_pointwise.
  - intros h' v. apply (lf_len _ _ (lframe_F1 dir t h' v)).
  - intros h' v y. apply F1_get.
  - apply Hsym.
  - intros v Hin. eapply fin_fwd; eassumption.
Qed.

Lemma get_h2 x : get h2 x = if Nat.eqb x t then with_fwd dir value (get h1 x) else get h1 x.
Proof.
  unfold wr2. destruct (Nat.eqb x t) eqn:E.
  - apply Nat.eqb_eq in E; subst x. apply dl_get_upd_same. rewrite len_h1; exact Ht.
  - apply Nat.eqb_neq in E. apply dl_get_upd_other; congruence.
Qed.

Lemma get_h3 x : get h3 x = if memn x value then G3 dir t (get h2 x) else get h2 x.
Proof.
  unfold wr3. apply fold_pointwise.
  - intros h' v. apply (lf_len _ _ (lframe_F3 dir t h' v)).
  - intros h' v y. apply F3_get.
  - exact Hnd.
  - intros v Hin. rewrite len_h2. apply Hv; exact Hin.
Qed.

Lemma bwd_h1 x : bwd dir (get h1 x) = without t (bwd dir (get h x)).
Proof.
  rewrite get_h1. destruct (memn x old) eqn:M.
  - unfold G1. rewrite bwd_with_bwd. apply dl_remove1_without. apply Hsym.
  - symmetry. apply dl_without_notin. intro H. apply dl_memn_false in M. apply M. apply Hsym. exact H.
Qed.

Lemma bwd_h2 x : bwd dir (get h2 x) = without t (bwd dir (get h x)).
Proof. rewrite get_h2. destruct (Nat.eqb x t); [rewrite bwd_with_fwd|]; apply bwd_h1. Qed.

Theorem write_bwd x :
  bwd dir (get h3 x) = without t (bwd dir (get h x)) ++ (if memn x value then [t] else []).
Proof.
  rewrite get_h3. destruct (memn x value).
  - unfold G3. rewrite bwd_h2.
    assert (M : memn t (without t (bwd dir (get h x))) = false).
    { apply dl_memn_false. rewrite dl_without_In. intros [_ H]; apply H; reflexivity. }
    rewrite M. unfold A3. rewrite bwd_with_bwd, bwd_h2. reflexivity.
  - rewrite bwd_h2, app_nil_r. reflexivity.
Qed.

Lemma fwd_G1 V : fwd dir (G1 dir t V) = fwd dir V.
Proof. apply fwd_with_bwd. Qed.
Lemma fwd_G3 V : fwd dir (G3 dir t V) = fwd dir V.
Proof. unfold G3. destruct (memn _ _); [reflexivity|apply fwd_with_bwd]. Qed.

Lemma fwd_h1 x : fwd dir (get h1 x) = fwd dir (get h x).
Proof. rewrite get_h1. destruct (memn x old); [apply fwd_G1|reflexivity]. Qed.

Theorem write_fwd x : fwd dir (get h3 x) = if Nat.eqb x t then value else fwd dir (get h x).
Proof.
  rewrite get_h3.
  assert (E : fwd dir (get h2 x) = if Nat.eqb x t then value else fwd dir (get h x)).
  { rewrite get_h2. destruct (Nat.eqb x t); [apply fwd_with_fwd|apply fwd_h1]. }
  destruct (memn x value); [rewrite fwd_G3|]; exact E.
Qed.

(* ---- the link conjuncts of the new heap, direction-generic ---- *)
Lemma new_symd : symd dir h3.
Proof.
  destruct Hsym as [S N]. split.
  - intros a b. rewrite write_fwd, write_bwd, in_app_iff, dl_without_In.
    destruct (Nat.eqb a t) eqn:E.
    + apply Nat.eqb_eq in E; subst a. destruct (memn b value) eqn:M.
      * apply dl_memn_In in M. split; [intros _; right; left; reflexivity|intros _; exact M].
      * apply dl_memn_false in M. split; [intro H; exfalso; exact (M H)|].
        intros [[_ H]|[]]. exfalso; apply H; reflexivity.
    + apply Nat.eqb_neq in E. rewrite (S a b). split.
      * intro H. left. split; assumption.
      * intros [[H _]|H]; [exact H|]. destruct (memn b value); [destruct H as [H|[]]; congruence|destruct H].
  - intro a. split.
    + rewrite write_fwd. destruct (Nat.eqb a t); [exact Hnd|apply N].
    + rewrite write_bwd. destruct (memn a value).
      * apply NoDup_snoc; [apply dl_without_NoDup, N|].
        rewrite dl_without_In. intros [_ H]; apply H; reflexivity.
      * rewrite app_nil_r. apply dl_without_NoDup, N.
Qed.

Lemma new_acyd :
  (forall z, ~ Reach (fnext dir h) z z) ->
  (forall v, In v value -> v <> t /\ ~ Reach (fnext dir h) v t) ->
  forall z, ~ Reach (fnext dir h3) z z.
Proof.
  intros A G. apply (Reach_replace (fnext dir h) (fnext dir h3) t value).
  - unfold fnext. rewrite write_fwd, Nat.eqb_refl. reflexivity.
  - intros x Hx. unfold fnext. rewrite write_fwd. apply Nat.eqb_neq in Hx. rewrite Hx. reflexivity.
  - exact A.
  - exact G.
Qed.

Lemma lframe_h3 : lframe h h3.
Proof. apply (lframe_write dir s t value). Qed.

Lemma new_sepd :
  sepd dir h ->
  (forall v, In v value -> ~ Anc h t v /\ ~ Anc h v t) ->
  sepd dir h3.
Proof.
  intros P G a b. rewrite write_fwd, !(Anc_frame_iff _ _ _ _ lframe_h3).
  destruct (Nat.eqb a t) eqn:E.
  - apply Nat.eqb_eq in E; subst a. apply G.
  - apply P.
Qed.

Lemma new_range x y :
  In y (preds (get h3 x)) \/ In y (succs (get h3 x)) -> y < length h.
Proof.
  assert (Hf : In y (fwd dir (get h3 x)) -> y < length h).
  { rewrite write_fwd. destruct (Nat.eqb x t); [apply Hv|eapply fin_fwd; exact Hfin]. }
  assert (Hb : In y (bwd dir (get h3 x)) -> y < length h).
  { rewrite write_bwd, in_app_iff, dl_without_In. intros [[H _]|H].
    - eapply fin_bwd; eassumption.
    - destruct (memn x value); [destruct H as [H|[]]; subst; exact Ht|destruct H]. }
  destruct dir; simpl in Hf, Hb; tauto.
Qed.

Lemma new_nil x :
  x <> t -> ~ In x value -> preds (get h x) = [] -> succs (get h x) = [] ->
  preds (get h3 x) = [] /\ succs (get h3 x) = [].
Proof.
  intros Nt Nv Ep Es.
  assert (Hf : fwd dir (get h3 x) = fwd dir (get h x)).
  { rewrite write_fwd. apply Nat.eqb_neq in Nt. rewrite Nt. reflexivity. }
  assert (Hb : bwd dir (get h3 x) = without t (bwd dir (get h x))).
  { rewrite write_bwd. apply dl_memn_false in Nv. rewrite Nv. apply app_nil_r. }
  destruct dir; unfold fwd, bwd in Hf, Hb; split; rewrite ?Hf, ?Hb, ?Ep, ?Es; reflexivity.
Qed.
End Write.

(* ================= the exact effect (C16) ================= *)
Theorem set_links_effect dir s t value :
  I_fin s -> I_sym s -> t < length (hp s) -> (forall v, In v value -> v < length (hp s)) -> NoDup value ->
  let h := hp s in
  let s' := set_links_write dir s t value in
  let h' := hp s' in
  wroots s' = wroots s /\ length h' = length h /\
  fwd dir (get h' t) = value /\
  (forall x, x <> t -> fwd dir (get h' x) = fwd dir (get h x)) /\
  (forall x, bwd dir (get h' x) = without t (bwd dir (get h x)) ++ (if memn x value then [t] else [])) /\
  (forall x, core (get h' x) = core (get h x)).
Proof.
  intros F S Ht Hv Hnd. cbv zeta. apply (symd_sym dir) in S.
  pose proof (lframe_write dir s t value) as [Ll Lc].
  split; [reflexivity|]. split; [exact Ll|].
  rewrite write_unfold; simpl. split; [|split; [|split]].
  - rewrite (write_fwd dir s t value F S Ht Hv Hnd), Nat.eqb_refl. reflexivity.
  - intros x Hx. rewrite (write_fwd dir s t value F S Ht Hv Hnd). apply Nat.eqb_neq in Hx. rewrite Hx. reflexivity.
  - intro x. apply (write_bwd dir s t value F S Ht Hv Hnd).
  - exact Lc.
Qed.

(* the mirror list of v, case by case: t is removed where it was, and (re)appended at the end
   exactly when v is a new link; the order of the other elements is preserved *)
Corollary set_links_effect_bwd_cases dir s t value x :
  I_fin s -> I_sym s -> t < length (hp s) -> (forall v, In v value -> v < length (hp s)) -> NoDup value ->
  let h := hp s in
  let l' := bwd dir (get (hp (set_links_write dir s t value)) x) in
  (In x value -> In x (fwd dir (get h t)) -> l' = without t (bwd dir (get h x)) ++ [t]) /\
  (In x value -> ~ In x (fwd dir (get h t)) -> l' = bwd dir (get h x) ++ [t]) /\
  (~ In x value -> In x (fwd dir (get h t)) -> l' = without t (bwd dir (get h x))) /\
  (~ In x value -> ~ In x (fwd dir (get h t)) -> l' = bwd dir (get h x)).
Proof.
  intros F S Ht Hv Hnd. cbv zeta.
  destruct (set_links_effect dir s t value F S Ht Hv Hnd) as (_ & _ & _ & _ & E & _). cbv zeta in E.
  rewrite (E x). apply (symd_sym dir) in S. destruct S as [S _].
  assert (W : ~ In x (fwd dir (get (hp s) t)) -> without t (bwd dir (get (hp s) x)) = bwd dir (get (hp s) x)).
  { intro N. apply dl_without_notin. intro H. apply N. apply S. exact H. }
  repeat split; intros A B.
  - apply dl_memn_In in A. rewrite A. reflexivity.
  - apply dl_memn_In in A. rewrite A, (W B). reflexivity.
  - apply dl_memn_false in A. rewrite A. apply app_nil_r.
  - apply dl_memn_false in A. rewrite A, (W B). apply app_nil_r.
Qed.

(* ================= the guard ================= *)
Lemma cyc_guard_ok dir h t value : cyc_guard dir h t value = OK ->
  forall v, In v value -> exists l, all_fwd dir h v = Ok l /\ memn t l = false.
Proof.
  induction value as [|a r IH]; simpl; intros H v Hv; [destruct Hv|].
  destruct (all_fwd dir h a) as [l| |k] eqn:E; simpl in H; try discriminate.
  destruct (memn t l) eqn:M; simpl in H; try discriminate.
  destruct Hv as [Hv|Hv]; [subst a; exists l; split; assumption|apply IH; assumption].
Qed.

Lemma guard_ok dir s t value :
  I_fin s -> I_acy s -> set_links_guard dir s t value = OK ->
  forall v, In v value ->
    v <> t /\ ~ Anc (hp s) t v /\ ~ Anc (hp s) v t /\ ~ Reach (fnext dir (hp s)) v t.
Proof.
  intros F A. unfold set_links_guard.
  destruct (anc (hp s) t) as [a| |k] eqn:Ea; simpl; try discriminate.
  match goal with |- context [existsb ?f value] => destruct (existsb f value) eqn:Ex end; simpl; try discriminate.
  intros Hc v Hv. pose proof (existsb_false _ _ Ex v Hv) as C. simpl in C.
  apply orb_false_iff in C. destruct C as [C C3]. apply orb_false_iff in C. destruct C as [C1 C2].
  rewrite C1 in C3. simpl in C3.
  apply Nat.eqb_neq in C1. apply dl_memn_false in C2.
  split; [exact C1|]. split; [|split].
  - intro H. apply C2. apply (anc_spec _ _ _ Ea). exact H.
  - intro H. assert (T : insub (hp s) t v = true) by (apply insub_spec; auto). congruence.
  - destruct (cyc_guard_ok _ _ _ _ Hc v Hv) as [l [El Ml]]. apply dl_memn_false in Ml.
    intro H. apply Ml. apply (all_fwd_spec _ _ _ _ El). exact H.
Qed.

(* ================= preservation ================= *)
(* an object the public API can name: allocated and not the hidden root of a WBS *)
Definition pub (s : state) (x : obj) : Prop := x < length (hp s) /\ hidden (get (hp s) x) = false.
Definition pubs (s : state) (vs : list (option obj)) : Prop := forall v, In (Some v) vs -> pub s v.

Lemma somes_In {A} (x : A) l : In x (somes l) <-> In (Some x) l.
Proof.
  induction l as [|[a|] l IH]; simpl; [tauto| |].
  - rewrite IH. split; intros [H|H]; auto; left; congruence.
  - rewrite IH. split; [auto|]. intros [H|H]; [discriminate|exact H].
Qed.

Lemma hidden_no_links s x :
  I_fin s -> I_hid s -> x < length (hp s) -> hidden (get (hp s) x) = true ->
  preds (get (hp s) x) = [] /\ succs (get (hp s) x) = [].
Proof.
  intros F [_ [B C]] L Hh. apply B in Hh; [|exact L].
  destruct (In_nth _ _ 0 Hh) as [w [Lw Ew]]. pose proof (C w Lw) as D. cbv zeta in D. unfold obj in D. rewrite Ew in D. apply D.
Qed.

(* the ends of a link are public objects *)
Lemma link_pub dir s x y : WF s -> In y (fwd dir (get (hp s) x)) -> pub s y.
Proof.
  intros (F & _ & _ & S & _ & _ & _ & Hid & _) H.
  assert (L : y < length (hp s)) by (eapply fin_fwd; eassumption).
  split; [exact L|]. destruct (hidden (get (hp s) y)) eqn:E; [|reflexivity].
  destruct (hidden_no_links s y F Hid L E) as [Ep Es].
  apply (symd_sym dir) in S. destruct S as [S _]. apply S in H.
  destruct dir; simpl in H; rewrite ?Ep, ?Es in H; destruct H.
Qed.

Theorem set_links_write_WF dir s t value :
  WF s -> pub s t -> (forall v, In v value -> pub s v) -> NoDup value ->
  set_links_guard dir s t value = OK ->
  WF (set_links_write dir s t value).
Proof.
  intros W [Ht Hth] Hp Hnd G.
  pose proof W as (F & _ & Ac & S & D & P & _ & Hid & _).
  assert (Hv : forall v, In v value -> v < length (hp s)) by (intros v Hin; apply Hp; exact Hin).
  pose proof (guard_ok dir s t value F Ac G) as GO.
  pose proof (proj1 (symd_sym dir s) S) as Sd.
  pose proof (new_symd dir s t value F Sd Ht Hv Hnd) as Sd'.
  assert (S' : I_sym (set_links_write dir s t value)) by (apply (symd_sym dir); exact Sd').
  apply (frame_WF s).
  - apply lframe_write.
  - reflexivity.
  - apply (new_range dir s t value F Sd Ht Hv Hnd).
  - intros x Lx Hx. destruct (hidden_no_links s x F Hid Lx Hx) as [Ep Es].
    apply (new_nil dir s t value F Sd Ht Hv Hnd); try assumption.
    + intro E; subst x. congruence.
    + intro Hin. destruct (Hp x Hin) as [_ Hf]. congruence.
  - exact S'.
  - apply (dag_fnext dir _ S'). rewrite write_unfold; simpl.
    apply (new_acyd dir s t value F Sd Ht Hv Hnd).
    + apply (dag_fnext dir s S). exact D.
    + intros v Hin. destruct (GO v Hin) as (A1 & _ & _ & A4). split; assumption.
  - apply (sepd_sep dir _ S'). rewrite write_unfold; simpl.
    apply (new_sepd dir s t value F Sd Ht Hv Hnd).
    + apply (sepd_sep dir s S). exact P.
    + intros v Hin. destruct (GO v Hin) as (_ & A2 & A3 & _). split; assumption.
  - exact W.
Qed.

Lemma fst_mk_ok s s' : fst (mk OK s s') = s'.
Proof. reflexivity. Qed.

Lemma mk_cases (r : outcome) s s' : (r = OK /\ mk r s s' = (s', OK)) \/ (r <> OK /\ mk r s s' = (s, r)).
Proof. destruct r as [[]| |k]; [left; split; reflexivity|right; split; [discriminate|reflexivity]..]. Qed.

Lemma set_links_cases dir s t vs :
  let value := dedup (somes vs) in
  (set_links_guard dir s t value = OK /\ set_links dir s t vs = (set_links_write dir s t value, OK)) \/
  (set_links_guard dir s t value <> OK /\ fst (set_links dir s t vs) = s /\ snd (set_links dir s t vs) <> OK).
Proof.
  cbv zeta.
  assert (E0 : set_links dir s t vs = mk (set_links_guard dir s t (dedup (somes vs))) s
                                         (set_links_write dir s t (dedup (somes vs)))) by reflexivity.
  rewrite E0. clear E0.
  destruct (mk_cases (set_links_guard dir s t (dedup (somes vs))) s
                     (set_links_write dir s t (dedup (somes vs)))) as [[E M]|[E M]]; rewrite M.
  - left; split; [exact E|reflexivity].
  - right; split; [exact E|]. split; [reflexivity|exact E].
Qed.

(* MAIN: the dependency setter preserves WF, accepted or not *)
Theorem set_links_WF dir s t vs :
  WF s -> pub s t -> pubs s vs -> WF (fst (set_links dir s t vs)).
Proof.
  intros W Pt Pv. destruct (set_links_cases dir s t vs) as [[G E]|[_ [E _]]]; rewrite E; [|exact W].
  simpl. apply set_links_write_WF; try assumption.
  - intros v Hin. apply Pv. apply somes_In. apply (proj1 (dl_dedup_In _ _)). exact Hin.
  - apply dl_dedup_NoDup.
Qed.

(* a rejected call returns the very same state (C15) *)
Theorem set_links_rejected dir s t vs :
  snd (set_links dir s t vs) <> OK -> fst (set_links dir s t vs) = s.
Proof.
  intro H. destruct (set_links_cases dir s t vs) as [[_ E]|[_ [E _]]]; [|exact E].
  rewrite E in H. exfalso; apply H; reflexivity.
Qed.

(* length, hidden flags, WBS table: stable whatever the arguments *)
Theorem set_links_shape dir s t vs :
  let s' := fst (set_links dir s t vs) in
  lframe (hp s) (hp s') /\ wroots s' = wroots s.
Proof.
  cbv zeta. destruct (set_links_cases dir s t vs) as [[_ E]|[_ [E _]]]; rewrite E.
  - simpl. split; [apply lframe_write|reflexivity].
  - split; [apply lframe_refl|reflexivity].
Qed.

Lemma lframe_pub s s' x : lframe (hp s) (hp s') -> (pub s' x <-> pub s x).
Proof. intro L. unfold pub. rewrite (lf_len _ _ L), (lf_hidden _ _ x L). tauto. Qed.

Theorem set_links_pub dir s t vs x : pub (fst (set_links dir s t vs)) x <-> pub s x.
Proof. apply lframe_pub. apply set_links_shape. Qed.
