(* The children setter  t.children = vs  /  wbs.roots = vs  (Model.set_children): main theorems.
   (Part 1, what the write does: ChildrenProofsWrite.v.  Part 2, the conjuncts: ChildrenProofsInv.v.)

   INDEX
     set_children_cases      accepted (guard OK, the write is returned) or rejected (the same state)
     set_children_WF         WF s -> t < length (hp s) -> pubs s vs -> WF (fst (set_children s t vs))
                             (t MAY be the hidden root of a WBS; the new children are public objects)
     set_children_rejected   a rejected call returns the very same state                        (C15)
     set_children_shape      length, the untouched fields (cframe) and the WBS table never change
     set_children_pub        which objects are public never changes
     set_children_effect     the exact effect of an accepted call, field by field                (C16)
     inA_iff, inB_iff        the two boolean tests of the effect lemma as propositions
     set_children_effect_own the owner field of the effect lemma in propositional form
     accepted s t value      WF, t in range, value duplicate-free and public, guard OK (accepted_of_call)
     set_children_Anc        new ancestors appear only below adopted tasks: t and the ancestors of t
     set_children_Root       the root of every object after an accepted call (exact)              *)
From Coq Require Import Arith PeanoNat.
From PJ Require Import Base.Prelude Graph.Model Graph.Invariant Graph.AncLemmas Graph.AncLemmas2
                       Graph.LinksProofs Graph.ChildrenProofsWrite Graph.ChildrenProofsInv.
Local Open Scope nat_scope.

Lemma set_children_cases s t vs :
  let value := dedup (somes vs) in
  (set_children_guard s t value = OK /\ set_children s t vs = (set_children_write s t value, OK)) \/
  (set_children_guard s t value <> OK /\ fst (set_children s t vs) = s /\ snd (set_children s t vs) <> OK).
Proof.
  cbv zeta.
  assert (E0 : set_children s t vs = mk (set_children_guard s t (dedup (somes vs))) s
                                        (set_children_write s t (dedup (somes vs)))) by reflexivity.
  rewrite E0. clear E0.
  destruct (mk_cases (set_children_guard s t (dedup (somes vs))) s
                     (set_children_write s t (dedup (somes vs)))) as [[E M]|[E M]]; rewrite M.
  - left; split; [exact E | reflexivity].
  - right; split; [exact E|]. split; [reflexivity | exact E].
Qed.

Lemma pubs_value s vs v : pubs s vs -> In v (dedup (somes vs)) -> pub s v.
Proof. intros P H. apply P. apply In_somes. apply In_dedup. exact H. Qed.

(* MAIN: the children setter preserves WF, accepted or not *)
Theorem set_children_WF s t vs :
  WF s -> t < length (hp s) -> pubs s vs -> WF (fst (set_children s t vs)).
Proof.
  intros W Ht Pv. destruct (set_children_cases s t vs) as [[G E]|[_ [E _]]]; rewrite E; [|exact W].
  cbn [fst]. apply set_children_write_WF; try assumption.
  - apply NoDup_dedup.
  - intros v Hin. eapply pubs_value; eauto.
Qed.

(* a rejected call returns the very same state (C15) *)
Theorem set_children_rejected s t vs :
  snd (set_children s t vs) <> OK -> fst (set_children s t vs) = s.
Proof.
  intro H. destruct (set_children_cases s t vs) as [[_ E]|[_ [E _]]]; [|exact E].
  rewrite E in H. exfalso; apply H; reflexivity.
Qed.

Lemma cframe_refl h : cframe h h.
Proof. split; reflexivity. Qed.

Lemma cframe_trans h1 h2 h3 : cframe h1 h2 -> cframe h2 h3 -> cframe h1 h3.
Proof. intros [A B] [C D]. split; [congruence | intro x; rewrite D; apply B]. Qed.

(* length, ids, links, hidden flags, attributes, WBS table: stable whatever the arguments *)
Theorem set_children_shape s t vs :
  let s' := fst (set_children s t vs) in
  cframe (hp s) (hp s') /\ wroots s' = wroots s.
Proof.
  cbv zeta. destruct (set_children_cases s t vs) as [[_ E]|[_ [E _]]]; rewrite E.
  - cbn [fst]. split; [apply (write_cframe s t) | reflexivity].
  - split; [apply cframe_refl | reflexivity].
Qed.

Lemma cframe_pub s s' x : cframe (hp s) (hp s') -> (pub s' x <-> pub s x).
Proof. intro C. unfold pub. rewrite (cf_len _ _ C), (cf_hidden _ _ x C). tauto. Qed.

Theorem set_children_pub s t vs x : pub (fst (set_children s t vs)) x <-> pub s x.
Proof. apply cframe_pub. apply set_children_shape. Qed.

(* ================= the exact effect (C16) ================= *)
Theorem set_children_effect s t vs s' :
  I_fin s -> I_pc s -> t < length (hp s) -> (forall v, In (Some v) vs -> v < length (hp s)) ->
  set_children s t vs = (s', OK) ->
  let h := hp s in
  let h' := hp s' in
  let value := dedup (somes vs) in
  let rel := released h t value in
  wroots s' = wroots s /\ length h' = length h /\
  (forall x, par (get h' x) = if memn x value then Some t else if memn x rel then None else par (get h x)) /\
  (forall q, kids (get h' q) = if Nat.eqb q t then value
                               else filter (fun c => negb (memn c value)) (kids (get h q))) /\
  (forall x, own (get h' x) =
             match own (get h t) with
             | Some w => if inA h value x then Some w else if inB h t value x then None else own (get h x)
             | None => if inB h t value x then None else own (get h x)
             end) /\
  (forall x, rest (get h' x) = rest (get h x)).
Proof.
  intros F P Ht Hr H. cbv zeta.
  assert (Hv : forall v, In v (dedup (somes vs)) -> v < length (hp s)).
  { intros v Hin. apply Hr. apply In_somes. apply In_dedup. exact Hin. }
  destruct (set_children_cases s t vs) as [[_ E]|[_ [_ E]]].
  - rewrite E in H. inversion H; subst s'. clear H.
    split; [reflexivity|]. split; [apply (write_len s t)|].
    split; [apply (write_par s t _ F Hv)|].
    split; [apply (write_kids s t _ F P Ht (NoDup_dedup _) Hv)|].
    split; [apply (write_own s t) | apply (write_rest s t)].
  - rewrite H in E. exfalso. apply E. reflexivity.
Qed.

Lemma inA_iff h value x : acyclic h -> (forall v, In v value -> v < length h) ->
  (inA h value x = true <-> exists v, In v value /\ Sub h v x).
Proof.
  intros Acy Hv. unfold inA. rewrite existsb_exists.
  split; intros [v [Hin H]]; exists v; (split; [exact Hin|]).
  - apply memn_In, (In_subtree h v x Acy) in H. tauto.
  - apply memn_In, (In_subtree h v x Acy). split; [|exact H].
    destruct H as [->|An]; [apply Hv; exact Hin | eapply Anc_lt_l; eauto].
Qed.

Lemma inB_iff h t value x : acyclic h -> (forall c, In c (kids (get h t)) -> c < length h) ->
  (inB h t value x = true <-> exists c, In c (kids (get h t)) /\ ~ In c value /\ Sub h c x).
Proof.
  intros Acy Hk. unfold inB. rewrite existsb_exists. split.
  - intros [c [Hin H]]. apply In_released in Hin. exists c.
    apply memn_In, (In_subtree h c x Acy) in H. tauto.
  - intros [c [Hin [Nv H]]]. exists c. split; [apply In_released; tauto|].
    apply memn_In, (In_subtree h c x Acy). split; [|exact H].
    destruct H as [->|An]; [apply Hk; exact Hin | eapply Anc_lt_l; eauto].
Qed.

(* the owner after an accepted call, in words: the tasks below an adopted task get the owner of t when t
   belongs to a WBS; otherwise the tasks below a released child lose their owner; the others keep theirs *)
Theorem set_children_effect_own s t vs s' :
  WF s -> t < length (hp s) -> (forall v, In (Some v) vs -> v < length (hp s)) ->
  set_children s t vs = (s', OK) ->
  let h := hp s in
  let adopted x := exists v, In (Some v) vs /\ Sub h v x in
  let released x := exists c, In c (kids (get h t)) /\ ~ In (Some c) vs /\ Sub h c x in
  forall x,
    (adopted x -> forall w, own (get h t) = Some w -> own (get (hp s') x) = Some w) /\
    (released x -> ~ (adopted x /\ own (get h t) <> None) -> own (get (hp s') x) = None) /\
    (~ adopted x -> ~ released x -> own (get (hp s') x) = own (get h x)).
Proof.
  intros W Ht Hr H. cbv zeta. intro x.
  pose proof W as (F & P & Acy & _).
  destruct (set_children_effect s t vs s' F P Ht Hr H) as (_ & _ & _ & _ & O & _). cbv zeta in O.
  assert (Hv : forall v, In v (dedup (somes vs)) -> v < length (hp s)).
  { intros v Hin. apply Hr. apply In_somes. apply In_dedup. exact Hin. }
  assert (Hk : forall c, In c (kids (get (hp s) t)) -> c < length (hp s)).
  { intros c Hc. destruct F as [F _]. specialize (F t). cbv zeta in F. apply (proj1 (proj2 F)).
    apply in_or_app. left. exact Hc. }
  assert (EA : inA (hp s) (dedup (somes vs)) x = true <-> exists v, In (Some v) vs /\ Sub (hp s) v x).
  { rewrite (inA_iff _ _ x Acy Hv). split; intros [v [Hin Sv]]; exists v; (split; [|exact Sv]).
    - apply In_somes, In_dedup. exact Hin.
    - apply In_dedup, In_somes. exact Hin. }
  assert (EB : inB (hp s) t (dedup (somes vs)) x = true <->
               exists c, In c (kids (get (hp s) t)) /\ ~ In (Some c) vs /\ Sub (hp s) c x).
  { rewrite (inB_iff _ t _ x Acy Hk). split; intros [c [Hin [Nv Sc]]]; exists c; (split; [exact Hin|]); (split; [|exact Sc]).
    - intro X. apply Nv. apply In_dedup, In_somes. exact X.
    - intro X. apply Nv. apply In_somes, In_dedup. exact X. }
  rewrite (O x). split; [|split].
  - intros Ax w Ew. rewrite Ew. apply EA in Ax. rewrite Ax. reflexivity.
  - intros Bx N. apply EB in Bx. rewrite Bx. destruct (own (get (hp s) t)) as [w|]; [|reflexivity].
    destruct (inA (hp s) (dedup (somes vs)) x) eqn:E; [|reflexivity].
    exfalso. apply N. split; [apply EA; reflexivity | discriminate].
  - intros NA NB.
    assert (E1 : inA (hp s) (dedup (somes vs)) x = false).
    { destruct (inA (hp s) (dedup (somes vs)) x) eqn:E; [|reflexivity]. exfalso. apply NA, EA. reflexivity. }
    assert (E2 : inB (hp s) t (dedup (somes vs)) x = false).
    { destruct (inB (hp s) t (dedup (somes vs)) x) eqn:E; [|reflexivity]. exfalso. apply NB, EB. reflexivity. }
    rewrite E1, E2. destruct (own (get (hp s) t)); reflexivity.
Qed.

(* ================= ancestors and roots after an accepted call (uniform hypotheses) ================= *)
Definition accepted (s : state) (t : obj) (value : list obj) : Prop :=
  WF s /\ t < length (hp s) /\ NoDup value /\ (forall v, In v value -> pub s v) /\
  set_children_guard s t value = OK.

Lemma accepted_of_call s t vs s' :
  WF s -> t < length (hp s) -> pubs s vs -> set_children s t vs = (s', OK) ->
  accepted s t (dedup (somes vs)) /\ s' = set_children_write s t (dedup (somes vs)).
Proof.
  intros W Ht Pv H. destruct (set_children_cases s t vs) as [[G E]|[_ [_ E]]].
  - rewrite E in H. inversion H. split; [|reflexivity].
    split; [exact W|]. split; [exact Ht|]. split; [apply NoDup_dedup|]. split; [|exact G].
    intros v Hin. eapply pubs_value; eauto.
  - rewrite H in E. exfalso. apply E. reflexivity.
Qed.

(* new ancestors appear only below the adopted tasks, and they are t and the ancestors of t *)
Theorem set_children_Anc s t value x a :
  accepted s t value ->
  Anc (hp (set_children_write s t value)) x a ->
  Anc (hp s) x a \/ (A s value x /\ Sub (hp s) a t).
Proof. intros (W & Ht & Nd & Pv & G). eapply Anc_new_old; eauto. Qed.

(* the root of every object after the call: the root of t below an adopted task; otherwise the released
   child above it; otherwise unchanged *)
Theorem set_children_Root s t value x r :
  accepted s t value ->
  (Root (hp (set_children_write s t value)) x r <->
   (A s value x /\ Root (hp s) t r) \/
   (~ A s value x /\ In r (released (hp s) t value) /\ Sub (hp s) r x) \/
   (~ A s value x /\ ~ B s t value x /\ Root (hp s) x r)).
Proof.
  intros (W & Ht & Nd & Pv & G). split.
  - intro Rx. destruct (A_dec s value W Pv x) as [Ax|NA].
    + left. split; [exact Ax|]. eapply Root'_A; eauto.
    + right. destruct (B_dec s t value W x) as [Bx|NB].
      * left. split; [exact NA|]. eapply Root'_B; eauto.
      * right. split; [exact NA|]. split; [exact NB|]. eapply Root'_C; eauto.
  - intros [[Ax Rt]|[[NA [Hr Sr]]|[NA [NB Rx]]]].
    + eapply RA; eauto.
    + eapply RB; eauto.
    + eapply RC; eauto.
Qed.
