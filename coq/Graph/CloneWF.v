(* Graph/CloneWF.v - the state after WBS.clone / WBS.subtree (Graph/Clone.v clone_sel) is well formed again.

   The statement "WF s -> sel_ok s w sel -> WF (fst (clone_sel s w sel))" is FALSE of the model as it stands:
   WF (Graph/Invariant.v) does not record that the hidden root of a WBS carries the id EMPTY_ID, the new hidden
   root does, so a WF state whose source root has another id and one of whose members has the id EMPTY_ID is
   cloned into a state with two tasks of one tree that share an id (clone_wf_counterexample).  No state of the
   implementation is like that (the hidden root is created with id sys.maxsize, ids never change, a task with
   that id is rejected by _has_id_intersection).  With the missing clause as a named hypothesis,
       hid_ids s  :=  every hidden WBS root has tid EMPTY_ID        (boolean: hid_ids_b)
   all nine conjuncts are proved and hid_ids itself is preserved (clone_sel_WF, clone_sel_hid_ids).

   INDEX
     1. reading the new heap: classify, old_fields, In_old_fwd, In_copy_fwd          (links in a generic direction)
     2. I_fin, I_pc
     3. ancestors: anc_new_inv, anc_old, anc_copy, anc_copy_n -> I_acy; roots root_old, root_n, root_copy
     4. I_sym (sym_new, nodup_new), I_dag (projection pi), I_sep
     5. I_ids (uses the hypothesis on the id of the source root), I_hid, I_own
     6. clone_sel_WF, clone_sel_hid_ids, clone_no_cross, the counterexample *)
From PJ Require Import Base.Prelude Graph.Model Graph.Invariant Graph.AncLemmas Graph.AncLemmas2 Graph.DepLemmas
                       Graph.Clone Graph.CloneCheck Graph.CloneProofs.
From PJ Require Graph.OracleProofs.
Import Graph.OracleProofs.
Local Open Scope nat_scope.

(* every hidden WBS root carries the id EMPTY_ID (sys.maxsize) *)
Definition hid_ids (s : state) : Prop := forall r, In r (wroots s) -> tid (get (hp s) r) = EMPTY_ID.
Definition hid_ids_b (s : state) : bool := forallb (fun r => Z.eqb (tid (get (hp s) r)) EMPTY_ID) (wroots s).

Lemma hid_ids_b_spec s : hid_ids_b s = true <-> hid_ids s.
Proof.
  unfold hid_ids_b, hid_ids. rewrite forallb_forall. split; intros H r Hr.
  - apply Z.eqb_eq. apply H. exact Hr.
  - apply Z.eqb_eq. apply H. exact Hr.
Qed.

Lemma idx_nth (l : list nat) : NoDup l -> forall i, i < length l -> idx (nth i l 0) l = i.
Proof.
  induction 1 as [|a l Ha Hl IH]; intros i Hi; [simpl in Hi; lia|].
  destruct i as [|i]; simpl; [rewrite Nat.eqb_refl; reflexivity|].
  simpl in Hi. assert (Hi' : i < length l) by lia.
  destruct (Nat.eqb (nth i l 0) a) eqn:E.
  - apply Nat.eqb_eq in E. exfalso. apply Ha. rewrite <- E. apply nth_In. exact Hi'.
  - f_equal. apply IH. exact Hi'.
Qed.

Lemma nil_of_no_elements {A} (l : list A) : (forall x, ~ In x l) -> l = [].
Proof. destruct l as [|a l]; [reflexivity|]. intro H. exfalso. apply (H a). left; reflexivity. Qed.

Lemma fwd_negb_negb d T : fwd (negb (negb d)) T = fwd d T.
Proof. rewrite Bool.negb_involutive. reflexivity. Qed.

Section WFc.
Variables (s : state) (w : wid) (sel : list nat).
Hypothesis HWF : WF s.
Hypothesis Hsel : sel_ok s w sel.
Let h := hp s.
Let n := length (hp s).
Let R := wroot s w.
Let roots := sel_roots (hp s) sel.
Let mem := mem_of s sel.
Let w' := length (wroots s).
Let h' := clone_heap (hp s) w (length (wroots s)) (mem_of s sel) (sel_roots (hp s) sel).
Let s' := mkS h' (wroots s ++ [n]).
Let f := phi n mem.

Ltac nlia := let H1 := fresh in let H2 := fresh in
  assert (H1 : length h = n) by reflexivity; assert (H2 : length (hp s) = n) by reflexivity; olia.

(* ------------------------------------------------------------------ *)
(** ** facts about the old state *)
Lemma o_fin : I_fin s. Proof. apply HWF. Qed.
Lemma o_pc : I_pc s. Proof. apply HWF. Qed.
Lemma o_acy : acyclic h. Proof. apply HWF. Qed.
Lemma o_sym : I_sym s. Proof. apply HWF. Qed.
Lemma o_parfin : par_fin h. Proof. apply I_fin_par_fin, o_fin. Qed.

Lemma o_kids_lt x c : In c (kids (get h x)) -> c < n.
Proof. apply (dl_fin_kids s x c o_fin). Qed.

Lemma o_fwd_lt d x y : In y (fwd d (get h x)) -> y < n.
Proof. destruct d; [apply (dl_fin_preds s x y o_fin) | apply (dl_fin_succs s x y o_fin)]. Qed.

Lemma o_sym_d d a b : In b (fwd d (get h a)) -> In a (fwd (negb d) (get h b)).
Proof. destruct o_sym as [H _]. destruct d; simpl; apply H. Qed.

Lemma o_fwd_src d x y : In y (fwd d (get h x)) -> x < n.
Proof. intro H. apply o_sym_d in H. apply o_fwd_lt in H. exact H. Qed.

Lemma o_fwd_nodup d x : NoDup (fwd d (get h x)).
Proof. destruct o_sym as [_ H]. destruct d; apply (H x). Qed.

Lemma m_facts x : In x mem -> x < n /\ own (get h x) = Some w /\ hidden (get h x) = false /\ x <> R.
Proof. apply (mem_facts s w sel HWF Hsel). Qed.

Lemma m_inwbs x : In x mem -> in_wbs h w x = true.
Proof. intro Hx. destruct (m_facts x Hx) as (_ & Ho & _). unfold in_wbs. rewrite Ho. apply onat_eqb_refl. Qed.

Lemma m_nodup : NoDup mem. Proof. apply (NoDup_mem s sel HWF). Qed.

Lemma m_In x : In x mem <-> exists r, In r roots /\ Sub h r x.
Proof. apply (In_mem s sel HWF). Qed.

Lemma m_down x r : In r mem -> Anc h x r -> In x mem.
Proof.
  intros Hr HA. apply m_In in Hr as [r0 [Hr0 HS]]. apply m_In. exists r0. split; [exact Hr0|].
  right. eapply Anc_Sub_trans; eauto.
Qed.

Lemma m_kids x c : In x mem -> In c (kids (get h x)) -> In c mem.
Proof. apply (mem_kids s sel HWF). Qed.

Lemma f_range x : In x mem -> n + 1 <= f x /\ f x < n + 1 + length mem.
Proof. apply phi_range. Qed.

Lemma f_inj x y : In x mem -> In y mem -> f x = f y -> x = y.
Proof. apply phi_inj. Qed.

Lemma R_lt : R < n.
Proof.
  destruct Hsel as [Hw _]. destruct o_fin as [_ Hr]. apply Hr. apply nth_In. exact Hw.
Qed.

(* ------------------------------------------------------------------ *)
(** ** 1. reading the new heap *)
Lemma n_len : length h' = n + 1 + length mem.
Proof. apply clone_heap_length. Qed.

Lemma n_old y : y < n -> get h' y = mirror h w mem y.
Proof. apply clone_heap_old. Qed.

Lemma n_root : get h' n = new_root h w' mem roots.
Proof. apply clone_heap_root. Qed.

Lemma n_copy x : In x mem -> get h' (f x) = copy_of h w w' mem x.
Proof. apply clone_heap_copy. Qed.

Lemma n_out y : length h' <= y -> get h' y = dflt.
Proof. apply get_out. Qed.

Lemma classify y : y < n \/ y = n \/ (exists x, In x mem /\ y = f x) \/ length h' <= y.
Proof.
  destruct (Nat.lt_ge_cases y n) as [H|H]; [left; exact H|]. right.
  destruct (Nat.eq_dec y n) as [E|E]; [left; exact E|]. right.
  destruct (Nat.lt_ge_cases y (n + 1 + length mem)) as [H2|H2]; [left | right; rewrite n_len; exact H2].
  assert (Hi : y - n - 1 < length mem) by nlia.
  exists (nth (y - n - 1) mem 0). split; [apply nth_In; exact Hi|].
  unfold f, phi. rewrite (idx_nth mem m_nodup _ Hi). nlia.
Qed.

Lemma old_fields y : y < n ->
  par (get h' y) = par (get h y) /\ kids (get h' y) = kids (get h y) /\ own (get h' y) = own (get h y) /\
  hidden (get h' y) = hidden (get h y) /\ tid (get h' y) = tid (get h y).
Proof.
  intro Hy. rewrite (n_old y Hy). unfold mirror. destruct (memn y mem || in_wbs h w y); repeat split; reflexivity.
Qed.

Lemma old_par y : y < n -> par (get h' y) = par (get h y).
Proof. intro Hy. apply (old_fields y Hy). Qed.
Lemma old_kids y : y < n -> kids (get h' y) = kids (get h y).
Proof. intro Hy. apply (old_fields y Hy). Qed.
Lemma old_own y : y < n -> own (get h' y) = own (get h y).
Proof. intro Hy. apply (old_fields y Hy). Qed.

Lemma old_fwd d y : y < n ->
  fwd d (get h' y) = fwd d (get h y) ++
    (if memn y mem || in_wbs h w y then []
     else map f (filter (fun x => memn y (fwd (negb d) (get h x))) mem)).
Proof.
  intro Hy. rewrite (n_old y Hy). unfold mirror. fold n mem f.
  destruct (memn y mem || in_wbs h w y); destruct d; simpl; rewrite ?app_nil_r; reflexivity.
Qed.

Lemma copy_fwd d x : In x mem -> fwd d (get h' (f x)) = map_links h w mem (fwd d (get h x)).
Proof. intro Hx. rewrite (n_copy x Hx). destruct d; reflexivity. Qed.

Lemma root_fwd d : fwd d (get h' n) = [].
Proof. rewrite n_root. destruct d; reflexivity. Qed.

Lemma out_fwd d y : length h' <= y -> fwd d (get h' y) = [].
Proof. intro Hy. rewrite (n_out y Hy). destruct d; reflexivity. Qed.

Lemma In_old_fwd d y z : y < n ->
  (In z (fwd d (get h' y)) <->
   In z (fwd d (get h y)) \/
   (exists x, In x mem /\ z = f x /\ In y (fwd (negb d) (get h x)) /\ ~ In y mem /\ in_wbs h w y = false)).
Proof.
  intro Hy. rewrite (old_fwd d y Hy), in_app_iff.
  destruct (memn y mem || in_wbs h w y) eqn:E.
  - split; [intros [H|[]]; left; exact H|]. intros [H|[x (_ & _ & _ & Hm & Hw)]]; [left; exact H|].
    apply memn_false in Hm. rewrite Hm, Hw in E. discriminate.
  - apply orb_false_iff in E as [Em Ew]. apply memn_false in Em. split.
    + intros [H|H]; [left; exact H|]. right. apply in_map_iff in H as [x [<- Hx]].
      apply filter_In in Hx as [Hx Hin]. apply memn_In in Hin. exists x. auto.
    + intros [H|[x (Hx & -> & Hin & _)]]; [left; exact H|]. right. apply in_map. apply filter_In.
      split; [exact Hx | apply memn_In; exact Hin].
Qed.

Lemma In_copy_fwd d x z : In x mem ->
  (In z (fwd d (get h' (f x))) <->
   (exists y, In y (fwd d (get h x)) /\ In y mem /\ z = f y) \/
   (In z (fwd d (get h x)) /\ ~ In z mem /\ in_wbs h w z = false)).
Proof. intro Hx. rewrite (copy_fwd d x Hx). apply In_map_links. Qed.

Lemma copy_par_cases x p : In x mem -> par (get h' (f x)) = Some p ->
  p = n \/ exists p0, In p0 mem /\ par (get h x) = Some p0 /\ p = f p0.
Proof.
  intros Hx Hp. rewrite (n_copy x Hx) in Hp. simpl in Hp. change (length h) with n in Hp. fold f in Hp.
  destruct (par (get h x)) as [p0|] eqn:E; [|left; congruence].
  destruct (memn p0 mem) eqn:Em; [|left; congruence].
  apply memn_In in Em. right. exists p0. split; [exact Em|]. split; [reflexivity | congruence].
Qed.

Lemma copy_par_mem x p : In x mem -> par (get h x) = Some p -> In p mem -> par (get h' (f x)) = Some (f p).
Proof.
  intros Hx Hp Hm. rewrite (n_copy x Hx). simpl. change (length (hp s)) with n. fold h f. rewrite Hp.
  apply memn_In in Hm. rewrite Hm. reflexivity.
Qed.

Lemma copy_par_root r : In r roots -> par (get h' (f r)) = Some n.
Proof.
  intro Hr. rewrite (n_copy r (roots_incl s sel HWF r Hr)). simpl. change (length (hp s)) with n. fold h f.
  destruct (par (get h r)) as [p|] eqn:E; [|reflexivity].
  destruct (memn p mem) eqn:Em; [|reflexivity]. apply memn_In in Em.
  exfalso. apply (root_par_notmem s sel HWF r p Hr E Em).
Qed.

Lemma copy_kids x : In x mem -> kids (get h' (f x)) = map f (kids (get h x)).
Proof. intro Hx. rewrite (n_copy x Hx). reflexivity. Qed.

Lemma root_kids : kids (get h' n) = map f roots.
Proof. rewrite n_root. reflexivity. Qed.

Lemma In_dec_mem x : In x mem \/ ~ In x mem.
Proof. destruct (in_dec Nat.eq_dec x mem); auto. Qed.

Lemma In_dec_roots x : In x roots \/ ~ In x roots.
Proof. destruct (in_dec Nat.eq_dec x roots); auto. Qed.

(* ------------------------------------------------------------------ *)
(** ** 2. I_fin, I_pc *)
Lemma new_fin : I_fin s'.
Proof.
  unfold I_fin. simpl hp. simpl wroots. fold h'. split.
  - intro x. cbv zeta. destruct (classify x) as [Hx|[->|[[x0 [Hx0 ->]]|Hx]]].
    + destruct (old_fields x Hx) as (Ep & Ek & Eo & _). rewrite Ep, Ek, Eo. split; [|split].
      * intros p Hp. apply o_parfin in Hp. fold n in Hp. rewrite n_len. nlia.
      * intros y Hy. rewrite n_len. apply in_app_iff in Hy as [Hy|Hy]; [apply o_kids_lt in Hy; nlia|].
        assert (X : forall d, In y (fwd d (get h' x)) -> y < n + 1 + length mem).
        { intros d Hd. apply (In_old_fwd d x y Hx) in Hd as [Hd|[x1 (Hx1 & -> & _)]].
          - apply o_fwd_lt in Hd. nlia.
          - apply (f_range x1 Hx1). }
        apply in_app_iff in Hy as [Hy|Hy]; [apply (X true) | apply (X false)]; exact Hy.
      * intros w0 Hw0. apply (dl_fin_own s x w0 o_fin) in Hw0. rewrite app_length. simpl. nlia.
    + rewrite n_root. simpl. split; [discriminate|]. split.
      * intros y Hy. rewrite app_nil_r in Hy. apply in_map_iff in Hy as [r [<- Hr]].
        rewrite n_len. apply (f_range r). apply (roots_incl s sel HWF r Hr).
      * intros w0 Hw0. inversion Hw0. rewrite app_length. simpl. nlia.
    + split; [|split].
      * intros p Hp. rewrite n_len. apply (copy_par_cases x0 p Hx0) in Hp as [->|[p0 (Hp0 & _ & ->)]]; [nlia|].
        apply (f_range p0 Hp0).
      * intros y Hy. rewrite n_len. apply in_app_iff in Hy as [Hy|Hy].
        { rewrite (copy_kids x0 Hx0) in Hy. apply in_map_iff in Hy as [c [<- Hc]].
          apply (f_range c). apply (m_kids x0 c Hx0 Hc). }
        assert (X : forall d, In y (fwd d (get h' (f x0))) -> y < n + 1 + length mem).
        { intros d Hd. apply (In_copy_fwd d x0 y Hx0) in Hd as [[y0 (_ & Hy0 & ->)]|(Hd & _)].
          - apply (f_range y0 Hy0).
          - apply o_fwd_lt in Hd. nlia. }
        apply in_app_iff in Hy as [Hy|Hy]; [apply (X true) | apply (X false)]; exact Hy.
      * intros w0 Hw0. rewrite (n_copy x0 Hx0) in Hw0. simpl in Hw0. inversion Hw0.
        rewrite app_length. simpl. nlia.
    + rewrite (n_out x Hx). simpl. split; [discriminate|]. split; [intros y []|discriminate].
  - intros r Hr. rewrite n_len. apply in_app_iff in Hr as [Hr|[<-|[]]]; [|nlia].
    apply (dl_fin_wroots s r o_fin) in Hr. fold n in Hr. nlia.
Qed.

Lemma new_pc : I_pc s'.
Proof.
  unfold I_pc. simpl hp. fold h'. destruct o_pc as [Hpc Hnd]. fold h in Hpc, Hnd. split.
  - intros c p. split.
    + intro Hp. destruct (classify c) as [Hc|[->|[[c0 [Hc0 ->]]|Hc]]].
      * rewrite (old_par c Hc) in Hp. pose proof (o_parfin _ _ Hp) as Hlt. fold n in Hlt.
        rewrite (old_kids p Hlt). apply Hpc. exact Hp.
      * rewrite n_root in Hp. discriminate.
      * destruct (copy_par_cases c0 p Hc0 Hp) as [->|[p0 (Hp0 & Epar & ->)]].
        { rewrite root_kids. apply in_map. destruct (In_dec_roots c0) as [Hr|Hr]; [exact Hr|]. exfalso.
          destruct (nonroot_par_mem s sel HWF c0 Hc0 Hr) as [q [Hq Hqm]].
          rewrite (copy_par_mem c0 q Hc0 Hq Hqm) in Hp. inversion Hp as [E].
          pose proof (f_range q Hqm). fold f in E. nlia. }
        { rewrite (copy_kids p0 Hp0). apply in_map. apply Hpc. exact Epar. }
      * rewrite (n_out c Hc) in Hp. discriminate.
    + intro Hk. destruct (classify p) as [Hp|[->|[[p0 [Hp0 ->]]|Hp]]].
      * rewrite (old_kids p Hp) in Hk. apply Hpc in Hk. pose proof (par_Some_lt _ _ _ Hk) as Hc. fold n in Hc.
        rewrite (old_par c Hc). exact Hk.
      * rewrite root_kids in Hk. apply in_map_iff in Hk as [r [<- Hr]]. apply copy_par_root. exact Hr.
      * rewrite (copy_kids p0 Hp0) in Hk. apply in_map_iff in Hk as [c0 [<- Hc0]].
        apply copy_par_mem; [apply (m_kids p0 c0 Hp0 Hc0) | apply Hpc; exact Hc0 | exact Hp0].
      * rewrite (n_out p Hp) in Hk. destruct Hk.
  - intro p. destruct (classify p) as [Hp|[->|[[p0 [Hp0 ->]]|Hp]]].
    + rewrite (old_kids p Hp). apply Hnd.
    + rewrite root_kids. apply NoDup_map_inj_on; [apply NoDup_roots|].
      intros x y Hx Hy. apply f_inj; apply (roots_incl s sel HWF); assumption.
    + rewrite (copy_kids p0 Hp0). apply NoDup_map_inj_on; [apply Hnd|].
      intros x y Hx Hy. apply f_inj; apply (m_kids p0); assumption.
    + rewrite (n_out p Hp). constructor.
Qed.

(* ------------------------------------------------------------------ *)
(** ** 3. ancestors and roots in the new heap *)
Lemma anc_new_inv x a : Anc h' x a ->
  (x < n /\ a < n /\ Anc h x a) \/
  (exists x0, In x0 mem /\ x = f x0 /\ (a = n \/ exists a0, In a0 mem /\ a = f a0 /\ Anc h x0 a0)).
Proof.
  induction 1 as [x p Hp | x p a Hp Ha IH].
  - destruct (classify x) as [Hx|[->|[[x0 [Hx0 ->]]|Hx]]].
    + rewrite (old_par x Hx) in Hp. left. split; [exact Hx|]. split; [apply (o_parfin _ _ Hp) | apply Anc_par; exact Hp].
    + rewrite n_root in Hp. discriminate.
    + right. exists x0. split; [exact Hx0|]. split; [reflexivity|].
      destruct (copy_par_cases x0 p Hx0 Hp) as [->|[p0 (Hp0 & Epar & ->)]]; [left; reflexivity|].
      right. exists p0. split; [exact Hp0|]. split; [reflexivity | apply Anc_par; exact Epar].
    + rewrite (n_out x Hx) in Hp. discriminate.
  - destruct (classify x) as [Hx|[->|[[x0 [Hx0 ->]]|Hx]]].
    + rewrite (old_par x Hx) in Hp. pose proof (o_parfin _ _ Hp) as Hlt.
      destruct IH as [(_ & Ha1 & Ha2)|[p0 (Hp0 & -> & _)]].
      * left. split; [exact Hx|]. split; [exact Ha1 | eapply Anc_up; eauto].
      * pose proof (f_range p0 Hp0). nlia.
    + rewrite n_root in Hp. discriminate.
    + right. exists x0. split; [exact Hx0|]. split; [reflexivity|].
      destruct (copy_par_cases x0 p Hx0 Hp) as [->|[p0 (Hp0 & Epar & ->)]].
      * destruct IH as [(Hn & _)|[p1 (Hp1 & E & _)]]; [nlia|]. pose proof (f_range p1 Hp1). nlia.
      * destruct IH as [(Hn & _)|[p1 (Hp1 & E & Hcase)]]; [pose proof (f_range p0 Hp0); nlia|].
        apply (f_inj p0 p1 Hp0 Hp1) in E. subst p1.
        destruct Hcase as [->|[a0 (Ha0 & -> & HA)]]; [left; reflexivity|].
        right. exists a0. split; [exact Ha0|]. split; [reflexivity | eapply Anc_up; eauto].
    + rewrite (n_out x Hx) in Hp. discriminate.
Qed.

Lemma anc_old x a : Anc h x a -> Anc h' x a.
Proof.
  induction 1 as [x p Hp | x p a Hp Ha IH].
  - apply Anc_par. rewrite (old_par x (par_Some_lt _ _ _ Hp)). exact Hp.
  - eapply Anc_up; [|exact IH]. rewrite (old_par x (par_Some_lt _ _ _ Hp)). exact Hp.
Qed.

Lemma anc_copy x r : Anc h x r -> In r mem -> Anc h' (f x) (f r).
Proof.
  induction 1 as [x p Hp | x p a Hp Ha IH]; intro Hm.
  - apply Anc_par. apply copy_par_mem; [|exact Hp|exact Hm]. apply (m_down x p Hm). apply Anc_par; exact Hp.
  - pose proof (m_down p a Hm Ha) as Hpm.
    eapply Anc_up; [|apply IH; exact Hm]. apply copy_par_mem; [|exact Hp|exact Hpm].
    apply (m_down x p Hpm). apply Anc_par; exact Hp.
Qed.

Lemma anc_copy_n x : In x mem -> Anc h' (f x) n.
Proof.
  intro Hx. apply m_In in Hx as [r [Hr [->|HA]]].
  - apply Anc_par. apply copy_par_root. exact Hr.
  - eapply Anc_snoc; [apply (anc_copy x r HA); apply (roots_incl s sel HWF r Hr) | apply copy_par_root; exact Hr].
Qed.

Lemma new_acy : I_acy s'.
Proof.
  intros t HA. simpl hp in HA. fold h' in HA.
  apply anc_new_inv in HA as [(_ & _ & HA)|[x0 (Hx0 & -> & [E|[a0 (Ha0 & E & HA)]])]].
  - apply (o_acy t HA).
  - pose proof (f_range x0 Hx0). nlia.
  - apply (f_inj x0 a0 Hx0 Ha0) in E. subst a0. apply (o_acy x0 HA).
Qed.

Lemma root_old x r : x < n -> (Root h' x r <-> Root h x r).
Proof.
  intro Hx. unfold Root. split; intros [H1 H2].
  - destruct H1 as [<-|HA]; [split; [left; reflexivity | rewrite <- (old_par x Hx); exact H2]|].
    apply anc_new_inv in HA as [(_ & Hr & HA)|[x0 (Hx0 & -> & _)]]; [|pose proof (f_range x0 Hx0); nlia].
    split; [right; exact HA | rewrite <- (old_par r Hr); exact H2].
  - destruct H1 as [<-|HA]; [split; [left; reflexivity | rewrite (old_par x Hx); exact H2]|].
    split; [right; apply anc_old; exact HA|]. rewrite (old_par r (Anc_lt_r _ _ _ o_parfin HA)). exact H2.
Qed.

Lemma root_old_lt x r : x < n -> Root h' x r -> r < n.
Proof.
  intros Hx HR. apply (root_old x r Hx) in HR. apply (Root_root_lt h x r Hx o_parfin HR).
Qed.

Lemma root_n r : Root h' n r -> r = n.
Proof.
  intros [[E|HA] _]; [symmetry; exact E|].
  apply anc_new_inv in HA as [(Hn & _)|[x0 (Hx0 & E & _)]]; [nlia | pose proof (f_range x0 Hx0); nlia].
Qed.

Lemma copy_par_some x : In x mem -> exists p, par (get h' (f x)) = Some p.
Proof. intro Hx. rewrite (n_copy x Hx). simpl. eexists. reflexivity. Qed.

Lemma root_copy x r : In x mem -> Root h' (f x) r -> r = n.
Proof.
  intros Hx [[E|HA] Hp].
  - subst r. destruct (copy_par_some x Hx) as [p E]. congruence.
  - apply anc_new_inv in HA as [(Hn & _)|[x0 (Hx0 & E & [->|[a0 (Ha0 & -> & _)]])]].
    + pose proof (f_range x Hx). nlia.
    + reflexivity.
    + destruct (copy_par_some a0 Ha0) as [p E']. congruence.
Qed.

Lemma root_n_n : Root h' n n.
Proof. split; [left; reflexivity|]. rewrite n_root. reflexivity. Qed.

Lemma root_copy_n x : In x mem -> Root h' (f x) n.
Proof. intro Hx. split; [right; apply anc_copy_n; exact Hx|]. rewrite n_root. reflexivity. Qed.

(* ------------------------------------------------------------------ *)
(** ** 4. I_sym, I_dag, I_sep *)
Lemma sym_new d a b : In b (fwd d (get h' a)) -> In a (fwd (negb d) (get h' b)).
Proof.
  intro H. destruct (classify a) as [Ha|[->|[[a0 [Ha0 ->]]|Ha]]].
  - apply (In_old_fwd d a b Ha) in H as [H|[x (Hx & -> & Hin & Hm & Hw)]].
    + apply (In_old_fwd (negb d) b a (o_fwd_lt d a b H)). left. apply o_sym_d. exact H.
    + apply (In_copy_fwd (negb d) x a Hx). right. auto.
  - rewrite root_fwd in H. destruct H.
  - apply (In_copy_fwd d a0 b Ha0) in H as [[y (Hy & Hym & ->)]|(Hb & Hm & Hw)].
    + apply (In_copy_fwd (negb d) y (f a0) Hym). left. exists a0. split; [apply o_sym_d; exact Hy|]. auto.
    + apply (In_old_fwd (negb d) b (f a0) (o_fwd_lt d a0 b Hb)). right. exists a0.
      split; [exact Ha0|]. split; [reflexivity|]. rewrite fwd_negb_negb. auto.
  - rewrite (out_fwd d a Ha) in H. destruct H.
Qed.

Lemma nodup_new d a : NoDup (fwd d (get h' a)).
Proof.
  destruct (classify a) as [Ha|[->|[[a0 [Ha0 ->]]|Ha]]].
  - rewrite (old_fwd d a Ha). destruct (memn a mem || in_wbs h w a); [rewrite app_nil_r; apply o_fwd_nodup|].
    apply NoDup_app_intro; [apply o_fwd_nodup| |].
    + apply NoDup_map_inj_on; [apply NoDup_filter, m_nodup|].
      intros x y Hx Hy. apply filter_In in Hx as [Hx _]. apply filter_In in Hy as [Hy _]. apply f_inj; assumption.
    + intros z Hz1 Hz2. apply o_fwd_lt in Hz1. apply in_map_iff in Hz2 as [x [<- Hx]].
      apply filter_In in Hx as [Hx _]. pose proof (f_range x Hx). nlia.
  - rewrite root_fwd. constructor.
  - rewrite (copy_fwd d a0 Ha0). apply NoDup_map_links; [apply o_fwd_nodup|]. intros y Hy. apply (o_fwd_lt d a0 y Hy).
  - rewrite (out_fwd d a Ha). constructor.
Qed.

Lemma new_sym : I_sym s'.
Proof.
  unfold I_sym. simpl hp. fold h'. split.
  - intros a b. split; [apply (sym_new true a b) | apply (sym_new false b a)].
  - intro a. split; [apply (nodup_new true a) | apply (nodup_new false a)].
Qed.

(* the original of an object of the new heap *)
Definition pi (y : obj) : obj := if Nat.ltb y n then y else nth (y - n - 1) mem 0.

Lemma pi_old y : y < n -> pi y = y.
Proof. intro Hy. unfold pi. apply Nat.ltb_lt in Hy. rewrite Hy. reflexivity. Qed.

Lemma pi_copy x : In x mem -> pi (f x) = x.
Proof.
  intro Hx. unfold pi. pose proof (f_range x Hx) as Hr.
  assert (E : Nat.ltb (f x) n = false) by (apply Nat.ltb_ge; nlia). rewrite E.
  replace (f x - n - 1) with (idx x mem) by (unfold f, phi; nlia). apply nth_idx. exact Hx.
Qed.

Lemma dep_step a b : In b (preds (get h' a)) -> In (pi b) (preds (get h (pi a))).
Proof.
  intro H. change (In b (fwd true (get h' a))) in H. destruct (classify a) as [Ha|[->|[[a0 [Ha0 ->]]|Ha]]].
  - rewrite (pi_old a Ha). apply (In_old_fwd true a b Ha) in H as [H|[x (Hx & -> & Hin & _)]].
    + rewrite (pi_old b (o_fwd_lt true a b H)). exact H.
    + rewrite (pi_copy x Hx). apply (o_sym_d false x a Hin).
  - rewrite root_fwd in H. destruct H.
  - rewrite (pi_copy a0 Ha0). apply (In_copy_fwd true a0 b Ha0) in H as [[y (Hy & Hym & ->)]|(Hb & _)].
    + rewrite (pi_copy y Hym). exact Hy.
    + rewrite (pi_old b (o_fwd_lt true a0 b Hb)). exact Hb.
  - rewrite (out_fwd true a Ha) in H. destruct H.
Qed.

Lemma dep_proj x y : Dep h' x y -> Dep h (pi x) (pi y).
Proof.
  induction 1 as [x p Hp | x p y Hp Hd IH].
  - apply Dep_one. apply dep_step. exact Hp.
  - eapply Dep_more; [apply dep_step; exact Hp | exact IH].
Qed.

Lemma new_dag : I_dag s'.
Proof.
  intros t Hd. simpl hp in Hd. fold h' in Hd. apply dep_proj in Hd.
  destruct HWF as (_ & _ & _ & _ & Hdag & _). apply (Hdag (pi t)). exact Hd.
Qed.

Lemma new_sep : I_sep s'.
Proof.
  destruct HWF as (_ & _ & _ & _ & _ & Hsep & _). fold h in Hsep.
  intros a b H. simpl hp in *. fold h' in H |- *. change (In b (fwd true (get h' a))) in H.
  destruct (classify a) as [Ha|[->|[[a0 [Ha0 ->]]|Ha]]].
  - apply (In_old_fwd true a b Ha) in H as [H|[x (Hx & -> & Hin & _)]].
    + destruct (Hsep a b H) as [S1 S2]. pose proof (o_fwd_lt true a b H) as Hb. split; intro HA.
      * apply anc_new_inv in HA as [(_ & _ & HA)|[x0 (Hx0 & -> & _)]]; [exact (S1 HA)|]. pose proof (f_range x0 Hx0). nlia.
      * apply anc_new_inv in HA as [(_ & _ & HA)|[x0 (Hx0 & -> & _)]]; [exact (S2 HA)|]. pose proof (f_range x0 Hx0). nlia.
    + pose proof (f_range x Hx) as Hr. split; intro HA.
      * apply anc_new_inv in HA as [(_ & Hlt & _)|[x0 (Hx0 & -> & _)]]; [nlia|]. pose proof (f_range x0 Hx0). nlia.
      * apply anc_new_inv in HA as [(Hlt & _)|[x0 (Hx0 & _ & [->|[a1 (Ha1 & -> & _)]])]]; [nlia|nlia|].
        pose proof (f_range a1 Ha1). nlia.
  - rewrite root_fwd in H. destruct H.
  - pose proof (f_range a0 Ha0) as Hr0.
    apply (In_copy_fwd true a0 b Ha0) in H as [[y (Hy & Hym & ->)]|(Hb & _)].
    + destruct (Hsep a0 y Hy) as [S1 S2]. pose proof (f_range y Hym) as Hry. split; intro HA.
      * apply anc_new_inv in HA as [(Hlt & _)|[x0 (Hx0 & E & [E2|[a1 (Ha1 & E2 & HA)]])]]; [nlia|nlia|].
        apply (f_inj a0 x0 Ha0 Hx0) in E. apply (f_inj y a1 Hym Ha1) in E2. subst. exact (S1 HA).
      * apply anc_new_inv in HA as [(Hlt & _)|[x0 (Hx0 & E & [E2|[a1 (Ha1 & E2 & HA)]])]]; [nlia|nlia|].
        apply (f_inj y x0 Hym Hx0) in E. apply (f_inj a0 a1 Ha0 Ha1) in E2. subst. exact (S2 HA).
    + pose proof (o_fwd_lt true a0 b Hb) as Hlt. split; intro HA.
      * apply anc_new_inv in HA as [(Hlt2 & _)|[x0 (Hx0 & _ & [->|[a1 (Ha1 & -> & _)]])]]; [nlia|nlia|].
        pose proof (f_range a1 Ha1). nlia.
      * apply anc_new_inv in HA as [(_ & Hlt2 & _)|[x0 (Hx0 & -> & _)]]; [nlia|]. pose proof (f_range x0 Hx0). nlia.
  - rewrite (out_fwd true a Ha) in H. destruct H.
Qed.

(* ------------------------------------------------------------------ *)
(** ** 5. I_ids, I_hid, I_own *)
Hypothesis Hrid : tid (get (hp s) (wroot s w)) = EMPTY_ID.

Lemma m_root x : In x mem -> Root h x R.
Proof.
  intro Hx. split; [right; apply (mem_Anc s w sel HWF Hsel x Hx)|].
  destruct (R_facts s w sel HWF Hsel) as (_ & _ & Hp & _). exact Hp.
Qed.

Lemma R_root : Root h R R.
Proof. apply Root_self. destruct (R_facts s w sel HWF Hsel) as (_ & _ & Hp & _). exact Hp. Qed.

Lemma m_tid x : In x mem -> tid (get h x) <> EMPTY_ID.
Proof.
  intros Hx E. destruct (m_facts x Hx) as (Hlt & _ & _ & Hne). apply Hne.
  destruct HWF as (_ & _ & _ & _ & _ & _ & Hids & _).
  apply (Hids x R R Hlt R_lt (m_root x Hx) R_root). fold h. rewrite E. symmetry. exact Hrid.
Qed.

Lemma copy_tid x : In x mem -> tid (get h' (f x)) = tid (get h x).
Proof. intro Hx. rewrite (n_copy x Hx). reflexivity. Qed.

Lemma root_tid : tid (get h' n) = EMPTY_ID.
Proof. rewrite n_root. reflexivity. Qed.

Lemma new_ids : I_ids s'.
Proof.
  destruct HWF as (_ & _ & _ & _ & _ & _ & Hids & _). fold h in Hids.
  intros a b r La Lb Ra Rb Et. simpl hp in *. fold h' in La, Lb, Ra, Rb, Et.
  destruct (classify a) as [Ha|[->|[[a0 [Ha0 ->]]|Ha]]]; [| | |nlia];
    (destruct (classify b) as [Hb|[->|[[b0 [Hb0 ->]]|Hb]]]; [| | |nlia]).
  - apply (Hids a b r Ha Hb); [apply (root_old a r Ha); exact Ra | apply (root_old b r Hb); exact Rb|].
    destruct (old_fields a Ha) as (_ & _ & _ & _ & E1). destruct (old_fields b Hb) as (_ & _ & _ & _ & E2).
    change (tid (get h a) = tid (get h b)). rewrite <- E1, <- E2. exact Et.
  - pose proof (root_old_lt a r Ha Ra). apply root_n in Rb. nlia.
  - pose proof (root_old_lt a r Ha Ra). apply (root_copy b0 r Hb0) in Rb. nlia.
  - pose proof (root_old_lt b r Hb Rb). apply root_n in Ra. nlia.
  - reflexivity.
  - exfalso. rewrite root_tid, (copy_tid b0 Hb0) in Et. apply (m_tid b0 Hb0). symmetry. exact Et.
  - pose proof (root_old_lt b r Hb Rb). apply (root_copy a0 r Ha0) in Ra. nlia.
  - exfalso. rewrite root_tid, (copy_tid a0 Ha0) in Et. apply (m_tid a0 Ha0). exact Et.
  - f_equal. rewrite (copy_tid a0 Ha0), (copy_tid b0 Hb0) in Et.
    destruct (m_facts a0 Ha0) as (L1 & _). destruct (m_facts b0 Hb0) as (L2 & _).
    apply (Hids a0 b0 R L1 L2 (m_root a0 Ha0) (m_root b0 Hb0) Et).
Qed.

Lemma old_links_nil d y : y < n -> fwd d (get h y) = [] -> fwd (negb d) (get h y) = [] -> fwd d (get h' y) = [].
Proof.
  intros Hy E1 E2. apply nil_of_no_elements. intros z Hz.
  apply (In_old_fwd d y z Hy) in Hz as [Hz|[x (Hx & _ & Hin & _)]].
  - rewrite E1 in Hz. destruct Hz.
  - apply o_sym_d in Hin. rewrite fwd_negb_negb, E1 in Hin. destruct Hin.
Qed.

Lemma nth_wroots_old w0 : w0 < length (wroots s) -> nth w0 (wroots s ++ [n]) 0 = nth w0 (wroots s) 0.
Proof. intro H. apply app_nth1. exact H. Qed.

Lemma nth_wroots_new : nth (length (wroots s)) (wroots s ++ [n]) 0 = n.
Proof. rewrite app_nth2 by lia. rewrite Nat.sub_diag. reflexivity. Qed.

Lemma wroots_lt r : In r (wroots s) -> r < n.
Proof. apply (dl_fin_wroots s r o_fin). Qed.

Lemma new_hid : I_hid s'.
Proof.
  destruct HWF as (_ & _ & _ & _ & _ & _ & _ & (Hnd & Hh & Hr) & _). fold h n in Hh, Hr.
  unfold I_hid. simpl hp. simpl wroots. fold h'. split; [|split].
  - apply NoDup_app_intro; [exact Hnd | repeat constructor; intros [] |].
    intros x Hx [<-|[]]. apply wroots_lt in Hx. nlia.
  - intros x Lx. rewrite in_app_iff. destruct (classify x) as [Hx|[->|[[x0 [Hx0 ->]]|Hx]]]; [| | |nlia].
    + destruct (old_fields x Hx) as (_ & _ & _ & -> & _). rewrite (Hh x Hx). split; [auto|].
      intros [H|[<-|[]]]; [exact H | nlia].
    + rewrite n_root. simpl. split; [right; left; reflexivity | reflexivity].
    + rewrite (n_copy x0 Hx0). simpl. pose proof (f_range x0 Hx0) as Hr0. split; [discriminate|].
      intros [H|[E|[]]]; [apply wroots_lt in H; nlia | nlia].
  - intros w0 Hw0. cbv zeta. rewrite app_length in Hw0. simpl in Hw0.
    destruct (Nat.eq_dec w0 (length (wroots s))) as [->|Hne].
    + rewrite nth_wroots_new, n_root. simpl. auto.
    + assert (Hlt : w0 < length (wroots s)) by lia. rewrite (nth_wroots_old w0 Hlt).
      pose proof (Hr w0 Hlt) as H4. cbv zeta in H4. destruct H4 as (Ho & Hp & Hpr & Hsu).
      assert (HR0 : nth w0 (wroots s) 0 < n) by (apply wroots_lt, nth_In; exact Hlt).
      destruct (old_fields _ HR0) as (-> & _ & -> & _). split; [exact Ho|]. split; [exact Hp|]. split.
      * apply (old_links_nil true _ HR0); assumption.
      * apply (old_links_nil false _ HR0); assumption.
Qed.

Lemma new_own : I_own s'.
Proof.
  destruct HWF as (_ & _ & _ & _ & _ & _ & _ & _ & Hown). fold h n in Hown.
  intros t w0 Lt. simpl hp in *. simpl wroots. fold h' in Lt |- *. rewrite app_length. simpl length.
  destruct (classify t) as [Ht|[->|[[t0 [Ht0 ->]]|Ht]]]; [| | |nlia].
  - rewrite (old_own t Ht). split.
    + intro Ho. apply (Hown t w0 Ht) in Ho as [Hw0 HR].
      split; [lia|]. rewrite (nth_wroots_old w0 Hw0). apply (root_old t _ Ht). exact HR.
    + intros [Hw0 HR]. apply (Hown t w0 Ht). destruct (Nat.eq_dec w0 (length (wroots s))) as [->|Hne].
      * rewrite nth_wroots_new in HR. pose proof (root_old_lt t n Ht HR). nlia.
      * assert (Hlt : w0 < length (wroots s)) by lia. split; [exact Hlt|].
        rewrite (nth_wroots_old w0 Hlt) in HR. apply (root_old t _ Ht). exact HR.
  - rewrite n_root. simpl own. split.
    + intro E. inversion E. unfold w'. split; [lia|]. rewrite nth_wroots_new. apply root_n_n.
    + intros [Hw0 HR]. apply root_n in HR. destruct (Nat.eq_dec w0 (length (wroots s))) as [->|Hne]; [reflexivity|].
      assert (Hlt : w0 < length (wroots s)) by lia. rewrite (nth_wroots_old w0 Hlt) in HR.
      pose proof (wroots_lt _ (nth_In (wroots s) 0 Hlt)). nlia.
  - rewrite (n_copy t0 Ht0). simpl own. split.
    + intro E. inversion E. unfold w'. split; [lia|]. rewrite nth_wroots_new. apply root_copy_n. exact Ht0.
    + intros [Hw0 HR]. apply (root_copy t0 _ Ht0) in HR.
      destruct (Nat.eq_dec w0 (length (wroots s))) as [->|Hne]; [reflexivity|].
      assert (Hlt : w0 < length (wroots s)) by lia. rewrite (nth_wroots_old w0 Hlt) in HR.
      pose proof (wroots_lt _ (nth_In (wroots s) 0 Hlt)). nlia.
Qed.

Theorem new_WF : WF s'.
Proof.
  unfold WF. split; [apply new_fin|]. split; [apply new_pc|]. split; [apply new_acy|]. split; [apply new_sym|].
  split; [apply new_dag|]. split; [apply new_sep|]. split; [apply new_ids|]. split; [apply new_hid | apply new_own].
Qed.

Lemma new_hid_ids : hid_ids s -> hid_ids s'.
Proof.
  intros H r Hr. simpl hp. simpl wroots in Hr. fold h'. apply in_app_iff in Hr as [Hr|[<-|[]]]; [|apply root_tid].
  destruct (old_fields r (wroots_lt r Hr)) as (_ & _ & _ & _ & ->). apply H. exact Hr.
Qed.

(* no dependency link joins a task owned by the source WBS and a task owned by the new WBS *)
Lemma new_no_cross x y d : own (get h' x) = Some w -> own (get h' y) = Some w' -> ~ In y (fwd d (get h' x)).
Proof.
  intros Ox Oy Hin. destruct Hsel as [Hw _].
  assert (Hy : exists y0, In y0 mem /\ y = f y0).
  { destruct (classify y) as [Hy|[->|[Hy|Hy]]].
    - rewrite (old_own y Hy) in Oy. apply (dl_fin_own s y w' o_fin) in Oy. unfold w' in Oy. lia.
    - apply sym_new in Hin. rewrite root_fwd in Hin. destruct Hin.
    - exact Hy.
    - rewrite (n_out y Hy) in Oy. discriminate. }
  destruct Hy as [y0 [Hy0 ->]].
  destruct (classify x) as [Hx|[->|[[x0 [Hx0 ->]]|Hx]]].
  - rewrite (old_own x Hx) in Ox. apply (In_old_fwd d x _ Hx) in Hin as [Hin|[x1 (_ & _ & _ & _ & Hnw)]].
    + apply o_fwd_lt in Hin. pose proof (f_range y0 Hy0). nlia.
    + unfold in_wbs in Hnw. rewrite Ox, onat_eqb_refl in Hnw. discriminate.
  - rewrite root_fwd in Hin. destruct Hin.
  - rewrite (n_copy x0 Hx0) in Ox. simpl in Ox. inversion Ox. unfold w' in *. lia.
  - rewrite (n_out x Hx) in Ox. discriminate.
Qed.

End WFc.

(* ================================================================== *)
(** * 6. the theorems *)

Lemma sel_ok_b_sound s w sel : sel_ok_b s w sel = true -> sel_ok s w sel.
Proof.
  unfold sel_ok_b, sel_ok. intro H. apply andb_true_iff in H as [H1 H2]. apply Nat.ltb_lt in H1.
  split; [exact H1|]. destruct (wbs_tasks s w) as [l| |c]; try discriminate.
  exists l. split; [reflexivity|]. intros x Hx. rewrite forallb_forall in H2. apply memn_In. apply H2. exact Hx.
Qed.

Lemma sel_ok_b_complete s w sel : sel_ok s w sel -> sel_ok_b s w sel = true.
Proof.
  unfold sel_ok_b, sel_ok. intros [H1 [l [H2 H3]]]. apply andb_true_iff. split; [apply Nat.ltb_lt; exact H1|].
  rewrite H2. apply forallb_forall. intros x Hx. apply memn_In. apply H3. exact Hx.
Qed.

(* the state after the call is well formed; the only thing asked beyond WF: the source root has the root id *)
Theorem clone_sel_WF_core s w sel :
  WF s -> sel_ok s w sel -> tid (get (hp s) (wroot s w)) = EMPTY_ID -> WF (fst (clone_sel s w sel)).
Proof.
  intros HWF Hsel Hrid. rewrite (clone_sel_eq s w sel HWF). simpl fst. apply new_WF; assumption.
Qed.

Theorem clone_sel_WF s w sel :
  WF s -> hid_ids s -> sel_ok s w sel -> WF (fst (clone_sel s w sel)) /\ hid_ids (fst (clone_sel s w sel)).
Proof.
  intros HWF Hh Hsel. split.
  - apply clone_sel_WF_core; [exact HWF | exact Hsel|]. apply Hh. apply nth_In. apply Hsel.
  - rewrite (clone_sel_eq s w sel HWF). simpl fst. apply new_hid_ids; assumption.
Qed.

(* without the hypothesis on the root ids: every conjunct except I_ids *)
Theorem clone_sel_WF_but_ids s w sel : WF s -> sel_ok s w sel ->
  let s' := fst (clone_sel s w sel) in
  I_fin s' /\ I_pc s' /\ I_acy s' /\ I_sym s' /\ I_dag s' /\ I_sep s' /\ I_hid s' /\ I_own s'.
Proof.
  intros HWF Hsel. cbv zeta. rewrite (clone_sel_eq s w sel HWF). simpl fst.
  split; [apply new_fin; assumption|]. split; [apply new_pc; assumption|].
  split; [apply new_acy; assumption|]. split; [apply new_sym; assumption|].
  split; [apply new_dag; assumption|]. split; [apply new_sep; assumption|].
  split; [apply new_hid; assumption | apply new_own; assumption].
Qed.

(* no dependency link joins the two sides *)
Theorem clone_no_cross s w sel : WF s -> sel_ok s w sel ->
  let s' := fst (clone_sel s w sel) in let w' := snd (clone_sel s w sel) in
  forall x y, own (get (hp s') x) = Some w -> own (get (hp s') y) = Some w' ->
    ~ In y (preds (get (hp s') x)) /\ ~ In y (succs (get (hp s') x)) /\
    ~ In x (preds (get (hp s') y)) /\ ~ In x (succs (get (hp s') y)).
Proof.
  intros HWF Hsel. cbv zeta. rewrite (clone_sel_eq s w sel HWF). simpl fst. simpl snd. simpl hp.
  intros x y Ox Oy.
  assert (N1 : ~ In y (fwd true (get (clone_heap (hp s) w (length (wroots s)) (mem_of s sel) (sel_roots (hp s) sel)) x)))
    by (apply new_no_cross; assumption).
  assert (N2 : ~ In y (fwd false (get (clone_heap (hp s) w (length (wroots s)) (mem_of s sel) (sel_roots (hp s) sel)) x)))
    by (apply new_no_cross; assumption).
  split; [exact N1|]. split; [exact N2|]. split; intro H.
  - apply N2. apply (sym_new s w sel HWF true y x). exact H.
  - apply N1. apply (sym_new s w sel HWF false y x). exact H.
Qed.

(* the statement without the root-id clause is false of the model: the source root carries the id 5, the
   member the id EMPTY_ID; the copy of the member and the new hidden root then share an id inside one tree *)
Definition wf_cex : state :=
  mkS [ mkT 5 None [1] [] [] (Some 0) true None [] None;
        mkT EMPTY_ID (Some 0) [] [] [] (Some 0) false None [] None ] [0].

Theorem clone_wf_counterexample :
  WF wf_cex /\ sel_ok wf_cex 0 [1] /\ ~ hid_ids wf_cex /\ ~ WF (fst (clone_sel wf_cex 0 [1])).
Proof.
  split; [apply wf_b_WF; vm_compute; reflexivity|].
  split; [apply sel_ok_b_sound; vm_compute; reflexivity|]. split.
  - intro H. apply hid_ids_b_spec in H. vm_compute in H. discriminate.
  - intro H. apply WF_wf_b in H. vm_compute in H. discriminate.
Qed.

(* hid_ids holds initially and in the state made by WBS() *)
Lemma hid_ids_init : hid_ids init.
Proof. intros r []. Qed.

Theorem clone_wf_unconditional_refuted :
  ~ (forall s w sel, WF s -> sel_ok s w sel -> WF (fst (clone_sel s w sel))).
Proof. intro H. destruct clone_wf_counterexample as (W & S & _ & N). apply N. apply H; assumption. Qed.
