(* Graph/CloneIds.v - the clause WF lacks: "every hidden WBS root carries the id EMPTY_ID" (CloneWF.hid_ids) is an
   invariant of the whole model.  No operation ever writes the field tid of an existing object and only WBS()
   extends the table of WBS roots - with a root whose id is EMPTY_ID (step_keeps_ids: purely syntactic, no
   hypothesis on the state); clone/subtree keeps it too (CloneWF.clone_sel_WF).  Hence hid_ids holds in every
   state reached from the empty one through public calls (reach_hid_ids), like WF (StepProofs.reach_WF). *)
From PJ Require Import Base.Prelude Graph.Model Graph.Invariant Graph.AncLemmas Graph.DepLemmas Graph.Clone Graph.CloneWF.
From PJ Require Graph.StepProofs Graph.ParentProofs.
Local Open Scope nat_scope.

(* heaps of the same length whose objects keep their ids *)
Definition Kh (h h' : heap) : Prop := length h' = length h /\ forall x, tid (get h' x) = tid (get h x).

Lemma Kh_refl h : Kh h h.
Proof. split; reflexivity. Qed.

Lemma Kh_trans h1 h2 h3 : Kh h1 h2 -> Kh h2 h3 -> Kh h1 h3.
Proof. intros [L1 T1] [L2 T2]. split; [congruence|]. intro x. rewrite T2. apply T1. Qed.

Lemma Kh_upd h x f : (forall T, tid (f T) = tid T) -> Kh h (upd h x f).
Proof. intro H. split; [apply length_upd|]. intro y. apply (proj_get_upd tid). exact H. Qed.

Lemma Kh_set_own_all h xs w : Kh h (set_own_all h xs w).
Proof. split; [apply length_set_own_all|]. intro x. apply (proj_get_set_own_all tid). reflexivity. Qed.

Lemma Kh_fold {A} (F : heap -> A -> heap) l : (forall h v, Kh h (F h v)) -> forall h, Kh h (fold_left F l h).
Proof.
  intro H. induction l as [|a l IH]; intro h; simpl; [apply Kh_refl|].
  eapply Kh_trans; [apply H | apply IH].
Qed.

Lemma Kh_detach h t : Kh h (detach_from_parent h t).
Proof.
  unfold detach_from_parent. destruct (par (get h t)) as [q|]; [|apply Kh_refl].
  destruct (memn t (kids (get h q))); [apply Kh_upd; reflexivity | apply Kh_refl].
Qed.

Lemma Kh_pw h t p2 : Kh h (ParentProofs.pw h t p2).
Proof.
  unfold ParentProofs.pw. cbv zeta. destruct p2 as [p'|].
  - set (h2 := upd (detach_from_parent h t) t (with_par (Some p'))).
    set (h3 := match own (get h2 p') with Some w => set_own_all h2 (subtree h t) (Some w) | None => h2 end).
    assert (X2 : Kh h h2).
    { apply (Kh_trans _ (detach_from_parent h t)); [apply Kh_detach|]. unfold h2. apply Kh_upd. reflexivity. }
    assert (X : Kh h2 h3) by (unfold h3; destruct (own (get h2 p')); [apply Kh_set_own_all | apply Kh_refl]).
    apply (Kh_trans _ h2); [exact X2|].
    destruct (memn t (kids (get h3 p'))); [exact X|]. apply (Kh_trans _ h3); [exact X | apply Kh_upd; reflexivity].
  - apply (Kh_trans _ (detach_from_parent h t)); [apply Kh_detach | apply Kh_upd; reflexivity].
Qed.

Lemma Kh_set_parent_write s t p : Kh (hp s) (hp (set_parent_write s t p)).
Proof. rewrite ParentProofs.write_unfold. simpl. apply Kh_pw. Qed.

Lemma Kh_release h0 h v : Kh h (release_child h0 h v).
Proof.
  unfold release_child. apply (Kh_trans _ (upd h v (with_par None))); [apply Kh_upd; reflexivity | apply Kh_set_own_all].
Qed.

Lemma Kh_adopt h0 t h v : Kh h (adopt_child h0 t h v).
Proof.
  unfold adopt_child. cbv zeta.
  set (h1 := match par (get h v) with
             | Some q => if negb (Nat.eqb q t) && memn v (kids (get h q))
                         then upd h q (fun Q => with_kids (remove1 v (kids Q)) Q) else h
             | None => h end).
  assert (X : Kh h h1).
  { unfold h1. destruct (par (get h v)) as [q|]; [|apply Kh_refl].
    destruct (negb (Nat.eqb q t) && memn v (kids (get h q))); [apply Kh_upd; reflexivity | apply Kh_refl]. }
  apply (Kh_trans _ h1); [exact X|].
  apply (Kh_trans _ (upd h1 v (with_par (Some t)))); [apply Kh_upd; reflexivity|].
  destruct (own (get h0 t)); [apply Kh_set_own_all | apply Kh_refl].
Qed.

Lemma Kh_set_children_write s t value : Kh (hp s) (hp (set_children_write s t value)).
Proof.
  unfold set_children_write. cbv zeta. simpl hp.
  set (h1 := fold_left (release_child (hp s)) (filter (fun v => negb (memn v value)) (kids (get (hp s) t))) (hp s)).
  set (h2 := fold_left (adopt_child (hp s) t) value h1).
  apply (Kh_trans _ h1); [apply (Kh_fold (release_child (hp s))); intros; apply Kh_release|].
  apply (Kh_trans _ h2); [apply (Kh_fold (adopt_child (hp s) t)); intros; apply Kh_adopt|].
  apply Kh_upd. reflexivity.
Qed.

Lemma tid_with_fwd d v T : tid (with_fwd d v T) = tid T.
Proof. destruct d; reflexivity. Qed.
Lemma tid_with_bwd d v T : tid (with_bwd d v T) = tid T.
Proof. destruct d; reflexivity. Qed.

Lemma Kh_set_links_write d s t value : Kh (hp s) (hp (set_links_write d s t value)).
Proof.
  unfold set_links_write. cbv zeta. simpl hp.
  set (F1 := fun h' v => if memn t (bwd d (get h' v)) then upd h' v (fun V => with_bwd d (remove1 t (bwd d V)) V) else h').
  set (F3 := fun h' v => if memn t (bwd d (get h' v)) then h' else upd h' v (fun V => with_bwd d (bwd d V ++ [t]) V)).
  set (h1 := fold_left F1 (fwd d (get (hp s) t)) (hp s)).
  apply (Kh_trans _ h1).
  { apply (Kh_fold F1). intros h v. unfold F1.
    destruct (memn t (bwd d (get h v))); [apply Kh_upd; intro T; apply tid_with_bwd | apply Kh_refl]. }
  apply (Kh_trans _ (upd h1 t (with_fwd d value))); [apply Kh_upd; intro T; apply tid_with_fwd|].
  apply (Kh_fold F3). intros h v. unfold F3.
  destruct (memn t (bwd d (get h v))); [apply Kh_refl | apply Kh_upd; intro T; apply tid_with_bwd].
Qed.

(* states: the table of WBS roots is kept, the heap may grow, old objects keep their ids *)
Definition K (s s' : state) : Prop :=
  wroots s' = wroots s /\ length (hp s) <= length (hp s') /\
  forall x, x < length (hp s) -> tid (get (hp s') x) = tid (get (hp s) x).

Lemma K_refl s : K s s.
Proof. split; [reflexivity|]. split; [lia | reflexivity]. Qed.

Lemma K_trans s1 s2 s3 : K s1 s2 -> K s2 s3 -> K s1 s3.
Proof.
  intros (A1 & B1 & C1) (A2 & B2 & C2). split; [congruence|]. split; [lia|].
  intros x Hx. rewrite C2 by lia. apply C1. exact Hx.
Qed.

Lemma K_of_Kh s s' : wroots s' = wroots s -> Kh (hp s) (hp s') -> K s s'.
Proof. intros E [L T]. split; [exact E|]. split; [lia|]. intros x _. apply T. Qed.

Lemma K_mk r s s' : K s s' -> K s (fst (mk r s s')).
Proof. intro H. unfold mk. destruct r as [[]| |]; simpl; [exact H | apply K_refl..]. Qed.

Lemma K_set_parent s t p : K s (fst (set_parent s t p)).
Proof. apply K_mk. apply K_of_Kh; [|apply Kh_set_parent_write]. rewrite ParentProofs.write_unfold. reflexivity. Qed.

Lemma K_set_children s t vs : K s (fst (set_children s t vs)).
Proof. apply K_mk. apply K_of_Kh; [reflexivity | apply Kh_set_children_write]. Qed.

Lemma K_set_links d s t vs : K s (fst (set_links d s t vs)).
Proof. apply K_mk. apply K_of_Kh; [reflexivity | apply Kh_set_links_write]. Qed.

Lemma K_set_kids s o l : K s (set_kids s o l).
Proof. apply K_of_Kh; [reflexivity|]. apply Kh_upd. reflexivity. Qed.

Lemma K_andthen s r k : K s (fst r) -> (forall s1, K s s1 -> K s (fst (k s1))) -> K s (fst (andthen r k)).
Proof. intros H1 H2. unfold andthen. destruct (snd r) as [[]| |]; [apply H2; exact H1 | exact H1..]. Qed.

Lemma K_seq {A} (f : state -> A -> state * outcome) l :
  (forall s x, K s (fst (f s x))) -> forall s, K s (fst (seq_calls f s l)).
Proof.
  intro H. induction l as [|a l IH]; intro s; simpl; [apply K_refl|].
  apply K_andthen; [apply H|]. intros s1 H1. eapply K_trans; [exact H1 | apply IH].
Qed.

Lemma K_aon s r : K s (fst r) -> K s (fst (all_or_nothing s r)).
Proof. intro H. unfold all_or_nothing. destruct (snd r) as [[]| |]; [exact H | apply K_refl..]. Qed.

Lemma K_alloc s T : K s (alloc s T).
Proof.
  split; [reflexivity|]. unfold alloc. simpl. split; [rewrite app_length; lia|].
  intros x Hx. unfold get. rewrite app_nth1 by exact Hx. reflexivity.
Qed.

Lemma K_ch_remove s o t : K s (fst (ch_remove s o t)).
Proof.
  unfold ch_remove. destruct t as [t'|]; [|apply K_refl]. cbv zeta.
  destruct (memn t' _); [apply K_set_children | apply K_refl].
Qed.

Lemma K_ln_remove d s t x : K s (fst (ln_remove d s t x)).
Proof.
  unfold ln_remove. destruct x as [x'|]; [|apply K_refl]. cbv zeta.
  destruct (memn x' _); [apply K_set_links | apply K_refl].
Qed.

Lemma K_wbs_remove_task s w t : K s (fst (wbs_remove_task s w t)).
Proof.
  unfold wbs_remove_task. destruct (wbs_tasks s w); try apply K_refl.
  destruct (find _ _); [apply K_ch_remove | apply K_refl].
Qed.

Lemma K_new_task_rel_seq s i nm p ch su pr : K s (fst (new_task_rel_seq s i nm p ch su pr)).
Proof.
  unfold new_task_rel_seq. cbv zeta. eapply K_trans; [apply K_alloc|].
  apply K_andthen; [destruct p; [apply K_set_parent | apply K_refl]|]. intros s1 H1.
  eapply K_trans; [exact H1|]. apply K_andthen; [destruct ch; [apply K_set_children | apply K_refl]|]. intros s2 H2.
  eapply K_trans; [exact H2|]. apply K_andthen; [destruct su; [apply K_refl | apply K_set_links]|]. intros s3 H3.
  eapply K_trans; [exact H3|]. destruct pr; [apply K_refl | apply K_set_links].
Qed.

Theorem step'_keeps_ids s o : o <> NewWbs -> K s (fst (step' s o)).
Proof.
  intro N. destruct o; cbn [step'].
  - unfold new_task. destruct e as [v|]; [destruct (v <? 0)%Z; [apply K_refl|]|]; apply K_alloc.
  - unfold new_task_rel. apply K_aon. apply K_new_task_rel_seq.
  - exfalso. apply N. reflexivity.
  - apply K_set_parent.
  - apply K_set_children.
  - apply K_set_links.
  - unfold ch_append. destruct t; [apply K_set_parent | apply K_refl].
  - apply K_ch_remove.
  - unfold ch_insert. destruct t as [t'|]; [|apply K_refl]. cbv zeta. destruct (negb _); [apply K_refl|].
    apply K_andthen; [apply K_set_parent|]. intros s1 H1. destruct (Nat.eqb _ t'); simpl; [exact H1|].
    eapply K_trans; [exact H1 | apply K_set_kids].
  - unfold ch_move. apply K_mk. unfold ch_move_write. destruct before; [apply K_set_kids|].
    destruct after; [apply K_set_kids | apply K_refl].
  - unfold ch_sort. destruct (none_clash s o k); [apply K_refl|].
    destruct k; try apply K_refl; destruct (keys_of _ _ _); simpl; try apply K_refl; apply K_set_kids.
  - unfold ch_reorder. cbv zeta. destruct (reorder_go _ _ _ _ _); simpl; try apply K_refl. apply K_set_kids.
  - unfold ch_remove_all. cbv zeta. apply K_seq. intros s' c. apply K_ch_remove.
  - unfold ln_append. destruct x; [apply K_set_links | apply K_refl].
  - apply K_ln_remove.
  - unfold ln_remove_all. cbv zeta. apply K_seq. intros s' c. apply K_ln_remove.
  - unfold op_floordiv. apply K_set_children.
  - unfold op_shift. apply K_set_links.
  - unfold lst_shift. apply K_aon. unfold lst_shift_seq. apply K_seq. intros s' c. unfold op_shift. apply K_set_links.
  - unfold lst_set_parent. apply K_aon. unfold lst_set_parent_seq. apply K_seq. intros s' c. apply K_set_parent.
  - unfold lst_set_children. apply K_aon. unfold lst_set_children_seq. apply K_seq. intros s' c. apply K_set_children.
  - unfold lst_set_links. apply K_aon. unfold lst_set_links_seq. apply K_seq. intros s' c. apply K_set_links.
  - unfold wbs_remove. destruct t; [apply K_wbs_remove_task | apply K_refl].
  - unfold wbs_remove_all. destruct (wbs_tasks s w); try apply K_refl. apply K_seq. intros s' c. apply K_wbs_remove_task.
  - unfold set_est. destruct e as [v|]; [destruct (v <? 0)%Z; [apply K_refl|]|];
      (apply K_of_Kh; [reflexivity | apply Kh_upd; reflexivity]).
  - unfold set_prio. apply K_of_Kh; [reflexivity | apply Kh_upd; reflexivity].
Qed.

(* every operation keeps the root ids: no hypothesis beyond "the WBS roots are objects of the heap" *)
Theorem step_keeps_hid_ids s o : I_fin s -> hid_ids s -> hid_ids (fst (step s o)).
Proof.
  intros F H. unfold step. destruct (args_ok s o); [|exact H].
  assert (D : o = NewWbs \/ o <> NewWbs) by (destruct o; (left; reflexivity) || (right; discriminate)).
  destruct D as [->|N].
  - cbn [step' new_wbs fst]. intros r Hr. simpl in Hr. simpl hp. apply in_app_iff in Hr as [Hr|[<-|[]]].
    + unfold get. rewrite app_nth1 by (apply (dl_fin_wroots s r F Hr)). apply H. exact Hr.
    + unfold get. rewrite app_nth2 by lia. rewrite Nat.sub_diag. reflexivity.
  - destruct (step'_keeps_ids s o N) as (E & _ & T). intros r Hr. rewrite E in Hr.
    rewrite T by (apply (dl_fin_wroots s r F Hr)). apply H. exact Hr.
Qed.

Theorem run_hid_ids ops : forall s, WF s -> hid_ids s -> StepProofs.pub_run s ops -> hid_ids (run s ops).
Proof.
  induction ops as [|o r IH]; intros s W H P; [exact H|].
  rewrite StepProofs.run_cons. apply StepProofs.pub_run_cons in P as [A P]. apply IH.
  - apply StepProofs.step_WF; assumption.
  - apply step_keeps_hid_ids; [apply W | exact H].
  - exact P.
Qed.

Theorem reach_hid_ids ops : StepProofs.pub_run init ops -> hid_ids (run init ops).
Proof.
  intro P. apply run_hid_ids; [|apply hid_ids_init | exact P].
  apply (StepProofs.reach_WF []). reflexivity.
Qed.

(* on every state reached through public calls clone / subtree gives a well-formed state again - no extra hypothesis *)
Theorem clone_wf_reach ops w sel :
  StepProofs.pub_run init ops -> sel_ok (run init ops) w sel ->
  WF (fst (clone_sel (run init ops) w sel)) /\ hid_ids (fst (clone_sel (run init ops) w sel)).
Proof.
  intros P S. apply clone_sel_WF; [apply StepProofs.reach_WF; exact P | apply reach_hid_ids; exact P | exact S].
Qed.
