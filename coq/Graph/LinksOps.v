(* The operations derived from the dependency setter preserve WF.

   INDEX
     seq_calls_inv      a loop of calls preserves every property each call preserves, whatever its outcome
     pubs_map_Some, pubs_app, fwd_pubs
     ln_append_WF, ln_remove_WF, ln_remove_all_WF, op_shift_WF, lst_shift_WF, lst_set_links_WF
     *_pub              the derived operations never change which objects are public (length / hidden flags)
     link_args_pub s o  the objects named by a link operation are public (allocated, not a hidden WBS root)
     link_step_WF       WF s -> link_args_pub s o -> WF (fst (step s o))     for the seven link operations *)
From Coq Require Import Arith PeanoNat.
From PJ Require Import Base.Prelude Graph.Model Graph.Invariant Graph.DepLemmas Graph.LinksProofs.
Local Open Scope nat_scope.

Theorem seq_calls_inv {A} (P : state -> Prop) (f : state -> A -> state * outcome) (l : list A) :
  (forall s x, In x l -> P s -> P (fst (f s x))) ->
  forall s, P s -> P (fst (seq_calls f s l)).
Proof.
  induction l as [|a l IH]; intros H s Hs; simpl; [exact Hs|].
  unfold andthen. pose proof (H s a (or_introl eq_refl) Hs) as H1.
  destruct (f s a) as [s1 o]. simpl in *.
  destruct o as [[]| |k]; simpl; try exact H1.
  apply IH; [|exact H1]. intros s' x Hx. apply H. right; exact Hx.
Qed.

Lemma pubs_map_Some s l : (forall v, In v l -> pub s v) -> pubs s (map Some l).
Proof.
  intros H v Hv. apply in_map_iff in Hv. destruct Hv as [y [E Hy]]. inversion E; subst. apply H; exact Hy.
Qed.

Lemma pubs_app s l1 l2 : pubs s l1 -> pubs s l2 -> pubs s (l1 ++ l2).
Proof. intros H1 H2 v Hv. apply in_app_or in Hv. destruct Hv; [apply H1|apply H2]; assumption. Qed.

Lemma fwd_pubs dir s t : WF s -> pubs s (map Some (fwd dir (get (hp s) t))).
Proof. intro W. apply pubs_map_Some. intros v Hv. eapply link_pub; eassumption. Qed.

Lemma pubs_frame s s' vs : (forall x, pub s' x <-> pub s x) -> pubs s vs -> pubs s' vs.
Proof. intros H P v Hv. apply H. apply P; exact Hv. Qed.

(* ---- predecessors.append(x) / successors.append(x) ---- *)
Theorem ln_append_WF dir s t x :
  WF s -> pub s t -> (forall x', x = Some x' -> pub s x') -> WF (fst (ln_append dir s t x)).
Proof.
  intros W Pt Px. unfold ln_append. destruct x as [x'|]; [|exact W].
  apply set_links_WF; try assumption. apply pubs_map_Some. intros v Hv.
  apply in_app_or in Hv. destruct Hv as [Hv|[Hv|[]]].
  - eapply link_pub; eassumption.
  - subst v. apply Px; reflexivity.
Qed.

Theorem ln_append_pub dir s t x y : pub (fst (ln_append dir s t x)) y <-> pub s y.
Proof. unfold ln_append. destruct x as [x'|]; [apply set_links_pub|reflexivity]. Qed.

(* ---- predecessors.remove(x) / successors.remove(x) ---- *)
Theorem ln_remove_WF dir s t x : WF s -> pub s t -> WF (fst (ln_remove dir s t x)).
Proof.
  intros W Pt. unfold ln_remove. destruct x as [x'|]; [|exact W].
  destruct (memn x' (fwd dir (get (hp s) t))); [|exact W].
  apply set_links_WF; try assumption. apply pubs_map_Some. intros v Hv.
  apply dl_without_In in Hv. destruct Hv as [Hv _]. eapply link_pub; eassumption.
Qed.

Theorem ln_remove_pub dir s t x y : pub (fst (ln_remove dir s t x)) y <-> pub s y.
Proof.
  unfold ln_remove. destruct x as [x'|]; [|reflexivity].
  destruct (memn x' (fwd dir (get (hp s) t))); [apply set_links_pub|reflexivity].
Qed.

(* ---- predecessors.remove_all(id_in_=ids) ---- *)
Theorem ln_remove_all_inv dir s t ids :
  WF s /\ pub s t ->
  WF (fst (ln_remove_all dir s t ids)) /\ pub (fst (ln_remove_all dir s t ids)) t.
Proof.
  unfold ln_remove_all.
  apply (seq_calls_inv (fun s' => WF s' /\ pub s' t) (fun s' c => ln_remove dir s' t (Some c))).
  intros s' c _ [W Pt]. split; [apply ln_remove_WF; assumption|apply ln_remove_pub; exact Pt].
Qed.

Theorem ln_remove_all_WF dir s t ids : WF s -> pub s t -> WF (fst (ln_remove_all dir s t ids)).
Proof. intros W Pt. apply ln_remove_all_inv. split; assumption. Qed.

Theorem ln_remove_all_pub dir s t ids y : pub (fst (ln_remove_all dir s t ids)) y <-> pub s y.
Proof.
  unfold ln_remove_all.
  apply (seq_calls_inv (fun s' => pub s' y <-> pub s y) (fun s' c => ln_remove dir s' t (Some c))); [|reflexivity].
  intros s' c _ H. rewrite ln_remove_pub. exact H.
Qed.

(* ---- t << vs, t >> vs ---- *)
Theorem op_shift_WF dir s t vs : WF s -> pub s t -> pubs s vs -> WF (fst (op_shift dir s t vs)).
Proof.
  intros W Pt Pv. unfold op_shift. apply set_links_WF; try assumption.
  apply pubs_app; [apply fwd_pubs; exact W|exact Pv].
Qed.

Theorem op_shift_pub dir s t vs y : pub (fst (op_shift dir s t vs)) y <-> pub s y.
Proof. unfold op_shift. apply set_links_pub. Qed.

(* ---- ts << vs, ts >> vs on a task list: a loop, not atomic across elements ---- *)
Theorem lst_shift_pub dir s ts vs y : pub (fst (lst_shift dir s ts vs)) y <-> pub s y.
Proof.
  unfold lst_shift, all_or_nothing.
  destruct (snd (lst_shift_seq dir s ts vs)) as [[]| |c]; cbn [fst]; [|reflexivity..]. unfold lst_shift_seq.
  apply (seq_calls_inv (fun s' => pub s' y <-> pub s y) (fun s' t => op_shift dir s' t vs)); [|reflexivity].
  intros s' c _ H. rewrite op_shift_pub. exact H.
Qed.

Theorem lst_shift_WF dir s ts vs :
  WF s -> (forall t, In t ts -> pub s t) -> pubs s vs -> WF (fst (lst_shift dir s ts vs)).
Proof.
  intros W Pt Pv. unfold lst_shift, all_or_nothing.
  destruct (snd (lst_shift_seq dir s ts vs)) as [[]| |c]; cbn [fst]; [|exact W..]. unfold lst_shift_seq.
  apply (seq_calls_inv (fun s' => WF s' /\ forall y, pub s' y <-> pub s y) (fun s' t => op_shift dir s' t vs));
    [|split; [exact W|reflexivity]].
  intros s' t Ht [W' E]. split.
  - apply op_shift_WF; [exact W'|apply E, Pt, Ht|]. eapply pubs_frame; [exact E|exact Pv].
  - intro y. rewrite op_shift_pub. apply E.
Qed.

(* ---- ts.predecessors = vs, ts.successors = vs on a task list: one setter call per element, undone as a whole ---- *)
Theorem lst_set_links_pub dir s ts vs y : pub (fst (lst_set_links dir s ts vs)) y <-> pub s y.
Proof.
  unfold lst_set_links, all_or_nothing.
  destruct (snd (lst_set_links_seq dir s ts vs)) as [[]| |c]; cbn [fst]; [|reflexivity..]. unfold lst_set_links_seq.
  apply (seq_calls_inv (fun s' => pub s' y <-> pub s y) (fun s' t => set_links dir s' t vs)); [|reflexivity].
  intros s' c _ H. rewrite set_links_pub. exact H.
Qed.

Theorem lst_set_links_seq_WF dir s ts vs :
  WF s -> (forall t, In t ts -> pub s t) -> pubs s vs -> WF (fst (lst_set_links_seq dir s ts vs)).
Proof.
  intros W Pt Pv. unfold lst_set_links_seq.
  apply (seq_calls_inv (fun s' => WF s' /\ forall y, pub s' y <-> pub s y) (fun s' t => set_links dir s' t vs));
    [|split; [exact W|reflexivity]].
  intros s' t Ht [W' E]. split.
  - apply set_links_WF; [exact W'|apply E, Pt, Ht|]. eapply pubs_frame; [exact E|exact Pv].
  - intro y. rewrite set_links_pub. apply E.
Qed.

Theorem lst_set_links_WF dir s ts vs :
  WF s -> (forall t, In t ts -> pub s t) -> pubs s vs -> WF (fst (lst_set_links dir s ts vs)).
Proof.
  intros W Pt Pv. unfold lst_set_links, all_or_nothing.
  destruct (snd (lst_set_links_seq dir s ts vs)) as [[]| |c]; cbn [fst]; [|exact W..].
  apply lst_set_links_seq_WF; assumption.
Qed.

(* ================= the seven link operations as steps ================= *)
Definition link_args_pub (s : state) (o : op) : Prop :=
  match o with
  | SetLinks _ t vs | OpShift _ t vs => pub s t /\ pubs s vs
  | LnAppend _ t x => pub s t /\ (forall x', x = Some x' -> pub s x')
  | LnRemove _ t _ | LnRemoveAll _ t _ => pub s t
  | LstShift _ ts vs | LstSetLinks _ ts vs => (forall t, In t ts -> pub s t) /\ pubs s vs
  | _ => False
  end.

Theorem link_step_WF s o : WF s -> link_args_pub s o -> WF (fst (step s o)).
Proof.
  intros W A. unfold step. destruct (args_ok s o); [|exact W].
  destruct o; simpl in A; try contradiction; simpl.
  - destruct A; apply set_links_WF; assumption.
  - destruct A; apply ln_append_WF; assumption.
  - apply ln_remove_WF; assumption.
  - apply ln_remove_all_WF; assumption.
  - destruct A; apply op_shift_WF; assumption.
  - destruct A; apply lst_shift_WF; assumption.
  - destruct A; apply lst_set_links_WF; assumption.
Qed.

Theorem link_step_pub s o y : link_args_pub s o -> (pub (fst (step s o)) y <-> pub s y).
Proof.
  intro A. unfold step. destruct (args_ok s o); [|reflexivity].
  destruct o; simpl in A; try contradiction; simpl.
  - apply set_links_pub.
  - apply ln_append_pub.
  - apply ln_remove_pub.
  - apply ln_remove_all_pub.
  - apply op_shift_pub.
  - apply lst_shift_pub.
  - apply lst_set_links_pub.
Qed.
