(* Graph/AncLemmas2.v - second part of the walking library (imports AncLemmas).

   INDEX
   == A. Root under re-parenting (Section Reparent2: Hsame, acyclic h as in AncLemmas.Reparent) ==
     reparent_Root_outside   ~ Sub h t x -> (Root h' x r <-> Root h x r)
     attach_Root_inside      Sub h t x -> (Root h' x r <-> Root h p r)     (the moved subtree gets the root of p)
     attach_Root             Root h' x r <-> (if x below t then Root h p r else Root h x r)   (as a disjunction)
     detach_Root_inside      Sub h t x -> (Root h' x r <-> r = t)          (t becomes the root of its subtree)
     detach_Root             Root h' x r <-> (~ Sub h t x /\ Root h x r) \/ (Sub h t x /\ r = t)
     attach_rootof / detach_rootof : the same for the function rootof (given acyclic h')
   == B. preorder: pref / all_children  (walking DOWN agrees with walking UP) ==
     pc_down h   := forall c p, In c (kids (get h p)) -> par (get h c) = Some p
     pc_up h     := forall c p, par (get h c) = Some p -> In c (kids (get h p))
     kids_nodup h := forall p, NoDup (kids (get h p))
     I_pc_pc_down / I_pc_pc_up / I_pc_kids_nodup : from I_pc s
     pref_list g cs                       the fold of pref, as a definition;  pref_S : pref (S f) h x = pref_list (pref f h) (kids (get h x))
     pref_O, pref_list_ext, pref_list_all_Some, pref_list_Some_inv, pref_list_None
     pref_mono            pref f h x = Some l -> f <= f' -> pref f' h x = Some l
     pref_In_Anc          pc_down h -> pref f h x = Some l -> In y l -> Anc h y x
     pref_None_Path       pc_down h -> pref f h x = None -> exists y l, Path h y (l ++ [x]) /\ length l = f
     pref_total           pc_down h -> acyclic h -> exists l, pref (length h) h x = Some l
     desc h x             the descendants in preorder, total function ([] on a crash)
     pref_desc            pc_down h -> acyclic h -> pref f h x = Some l -> l = desc h x
     all_children_ok      pc_down h -> acyclic h -> all_children h x = Ok (desc h x)   (never Crash RecursionError)
     all_children_Ok_desc all_children h x = Ok l -> l = desc h x  (no hypothesis)
     desc_eq              pc_down h -> acyclic h -> desc h x = flat_map (fun c => c :: desc h c) (kids (get h x))
     In_desc              pc_down h -> pc_up h -> acyclic h -> (In y (desc h x) <-> Anc h y x)
     NoDup_desc           pc_down h -> kids_nodup h -> acyclic h -> NoDup (desc h x)
     desc_lt              In y (desc h x) -> y < length h   (pc_down, acyclic)
     all_children_spec    the three facts together for all_children
     pref_None_cycle      pc_down h -> pref (length h) h x = None -> exists y, Anc h y y
   == C. guards that walk the graph ==
     links_bad_spec       acyclic h -> (links_bad h t ups = true <-> exists x l, x < length h /\ Sub h t x /\
                                         In l (preds (get h x) ++ succs (get h x)) /\ In l ups)
     links_bad_false      the negative form (forall ...)
     NoDup_map_iff        NoDup l -> (NoDup (map f l) <-> f injective on l)
     InTree h r x := x < length h /\ Root h x r ;  Incoming h r chs x := x < length h /\ (exists c, In c chs /\ Sub h c x) /\ ~ Root h x r
     id_clash_spec        acyclic h -> exists r b, rootof h p = Some r /\ Root h p r /\ id_clash h p chs = Ok b /\
                          (b = false <-> incoming ids pairwise distinct /\ distinct from the ids of the tree of r)
     id_clash_not_Err
*)
From PJ Require Import Base.Prelude Graph.Model Graph.Invariant Graph.AncLemmas.
Local Open Scope nat_scope.

(* ================================================================== *)
(** * A. Root under re-parenting *)

Section Reparent2.
Variables h h' : heap.
Variable t : obj.
Hypothesis Hsame : forall x, x <> t -> par (get h' x) = par (get h x).

Lemma reparent_Root_outside x r : ~ Sub h t x -> (Root h' x r <-> Root h x r).
Proof.
  intro HN. unfold Root. rewrite (reparent_outside h h' t Hsame x r HN).
  split; intros [HS Hr]; (split; [exact HS|]).
  - destruct (Nat.eq_dec r t) as [->|Hn]; [exfalso; apply HN; exact HS | rewrite <- Hsame; assumption].
  - destruct (Nat.eq_dec r t) as [->|Hn]; [exfalso; apply HN; exact HS | rewrite Hsame; assumption].
Qed.

Hypothesis Hacy : acyclic h.

Section Attach2.
Variable p : obj.
Hypothesis Hpar' : par (get h' t) = Some p.
Hypothesis Hpt : p <> t.
Hypothesis Hnotbelow : ~ Anc h p t.

Let Hacy' : acyclic h' := attach_acyclic h h' t Hsame Hacy p Hpar' Hpt Hnotbelow.

(* the moved subtree gets the root of its new parent *)
Theorem attach_Root_inside x r : Sub h t x -> (Root h' x r <-> Root h p r).
Proof.
  intro HS.
  assert (HSx : Sub h' t x) by (apply (reparent_Sub_keep h h' t Hsame Hacy); exact HS).
  rewrite (Root_Sub h' t x r HSx), (Root_par h' t p r Hpar').
  apply (reparent_Root_outside p r). apply (attach_p_outside h t p Hpt Hnotbelow).
Qed.

Theorem attach_Root x r :
  Root h' x r <-> (~ Sub h t x /\ Root h x r) \/ (Sub h t x /\ Root h p r).
Proof.
  destruct (Sub_dec h t x Hacy) as [HS|HN].
  - rewrite (attach_Root_inside x r HS). tauto.
  - rewrite (reparent_Root_outside x r HN). tauto.
Qed.

Lemma attach_rootof_inside x : Sub h t x -> rootof h' x = rootof h p.
Proof.
  intro HS. destruct (rootof_total h p Hacy) as [r E]. rewrite E.
  apply (rootof_spec h' x r Hacy'). apply (attach_Root_inside x r HS).
  apply (rootof_spec h p r Hacy). exact E.
Qed.

Lemma attach_rootof_outside x : ~ Sub h t x -> rootof h' x = rootof h x.
Proof.
  intro HN. destruct (rootof_total h x Hacy) as [r E]. rewrite E.
  apply (rootof_spec h' x r Hacy'). apply (reparent_Root_outside x r HN).
  apply (rootof_spec h x r Hacy). exact E.
Qed.
End Attach2.

Section Detach2.
Hypothesis Hpar' : par (get h' t) = None.

Let Hacy' : acyclic h' := detach_acyclic h h' t Hsame Hacy Hpar'.

(* the detached object becomes the root of its subtree *)
Theorem detach_Root_inside x r : Sub h t x -> (Root h' x r <-> r = t).
Proof.
  intro HS.
  assert (HSx : Sub h' t x) by (apply (reparent_Sub_keep h h' t Hsame Hacy); exact HS).
  rewrite (Root_Sub h' t x r HSx). split.
  - intro HR. eapply Root_unique; [exact HR | apply Root_self; exact Hpar'].
  - intros ->. apply Root_self; exact Hpar'.
Qed.

Theorem detach_Root x r :
  Root h' x r <-> (~ Sub h t x /\ Root h x r) \/ (Sub h t x /\ r = t).
Proof.
  destruct (Sub_dec h t x Hacy) as [HS|HN].
  - rewrite (detach_Root_inside x r HS). tauto.
  - rewrite (reparent_Root_outside x r HN). tauto.
Qed.

Lemma detach_rootof_inside x : Sub h t x -> rootof h' x = Some t.
Proof. intro HS. apply (rootof_spec h' x t Hacy'). apply (detach_Root_inside x t HS). reflexivity. Qed.

Lemma detach_rootof_outside x : ~ Sub h t x -> rootof h' x = rootof h x.
Proof.
  intro HN. destruct (rootof_total h x Hacy) as [r E]. rewrite E.
  apply (rootof_spec h' x r Hacy'). apply (reparent_Root_outside x r HN).
  apply (rootof_spec h x r Hacy). exact E.
Qed.
End Detach2.
End Reparent2.

(* ================================================================== *)
(** * B. preorder *)

Definition pc_down (h : heap) : Prop := forall c p, In c (kids (get h p)) -> par (get h c) = Some p.
Definition pc_up (h : heap) : Prop := forall c p, par (get h c) = Some p -> In c (kids (get h p)).
Definition kids_nodup (h : heap) : Prop := forall p, NoDup (kids (get h p)).

Lemma I_pc_pc_down s : I_pc s -> pc_down (hp s).
Proof. intros [H _] c p Hc. apply H. exact Hc. Qed.
Lemma I_pc_pc_up s : I_pc s -> pc_up (hp s).
Proof. intros [H _] c p Hc. apply H. exact Hc. Qed.
Lemma I_pc_kids_nodup s : I_pc s -> kids_nodup (hp s).
Proof. intros [_ H]. exact H. Qed.

Definition pref_list (g : obj -> option (list obj)) (cs : list obj) : option (list obj) :=
  fold_right (fun c acc => match g c, acc with
                           | Some l, Some a => Some (c :: l ++ a)
                           | _, _ => None
                           end) (Some []) cs.

Lemma pref_S f h x : pref (S f) h x = pref_list (pref f h) (kids (get h x)).
Proof. reflexivity. Qed.

Lemma pref_O h x : pref 0 h x = match kids (get h x) with [] => Some [] | _ => None end.
Proof. reflexivity. Qed.

Lemma pref_list_cons g c cs :
  pref_list g (c :: cs) = match g c, pref_list g cs with
                          | Some l, Some a => Some (c :: l ++ a)
                          | _, _ => None
                          end.
Proof. reflexivity. Qed.

Lemma pref_list_ext g g' cs : (forall c, In c cs -> g c = g' c) -> pref_list g cs = pref_list g' cs.
Proof.
  induction cs as [|c cs IH]; intro H; [reflexivity|].
  rewrite !pref_list_cons, H by (left; reflexivity). rewrite IH; [reflexivity|].
  intros c' Hc'. apply H. right. exact Hc'.
Qed.

Lemma pref_list_all_Some g d cs :
  (forall c, In c cs -> g c = Some (d c)) -> pref_list g cs = Some (flat_map (fun c => c :: d c) cs).
Proof.
  induction cs as [|c cs IH]; intro H; [reflexivity|].
  rewrite pref_list_cons, H by (left; reflexivity). rewrite IH; [reflexivity|].
  intros c' Hc'. apply H. right. exact Hc'.
Qed.

Definition odflt (o : option (list obj)) : list obj := match o with Some l => l | None => [] end.

Lemma pref_list_Some_inv g cs l :
  pref_list g cs = Some l ->
  (forall c, In c cs -> g c = Some (odflt (g c))) /\ l = flat_map (fun c => c :: odflt (g c)) cs.
Proof.
  revert l. induction cs as [|c cs IH]; intros l H.
  - inversion H. split; [intros c [] | reflexivity].
  - rewrite pref_list_cons in H. destruct (g c) as [lc|] eqn:Ec; [|discriminate].
    destruct (pref_list g cs) as [a|] eqn:Ea; [|discriminate]. inversion H; subst l.
    destruct (IH a eq_refl) as [Hall Hfl]. split.
    + intros c' [<-|Hc']; [rewrite Ec; reflexivity | apply Hall; exact Hc'].
    + simpl. rewrite Ec. simpl. rewrite Hfl. reflexivity.
Qed.

Lemma pref_list_None g cs : pref_list g cs = None -> exists c, In c cs /\ g c = None.
Proof.
  induction cs as [|c cs IH]; intro H; [discriminate|].
  rewrite pref_list_cons in H. destruct (g c) as [lc|] eqn:Ec.
  - destruct (pref_list g cs) as [a|] eqn:Ea; [discriminate|].
    destruct (IH eq_refl) as [c' [Hc' E]]. exists c'. split; [right; exact Hc' | exact E].
  - exists c. split; [left; reflexivity | exact Ec].
Qed.

Lemma pref_mono_S f h : forall x l, pref f h x = Some l -> pref (S f) h x = Some l.
Proof.
  induction f as [|f IH]; intros x l H.
  - rewrite pref_O in H. rewrite pref_S. destruct (kids (get h x)); [exact H | discriminate].
  - rewrite pref_S in H. rewrite pref_S.
    destruct (pref_list_Some_inv _ _ _ H) as [Hall Hl].
    rewrite (pref_list_all_Some (pref (S f) h) (fun c => odflt (pref f h c))); [congruence|].
    intros c Hc. apply IH. apply Hall. exact Hc.
Qed.

Lemma pref_mono f f' h x l : pref f h x = Some l -> f <= f' -> pref f' h x = Some l.
Proof.
  intros H Hle. induction Hle as [|f' Hle IH]; [exact H | apply pref_mono_S; exact IH].
Qed.

Lemma pref_In_Anc h : pc_down h -> forall f x l y, pref f h x = Some l -> In y l -> Anc h y x.
Proof.
  intros Hpc. induction f as [|f IH]; intros x l y H Hy.
  - rewrite pref_O in H. destruct (kids (get h x)); [|discriminate]. inversion H; subst. destruct Hy.
  - rewrite pref_S in H. destruct (pref_list_Some_inv _ _ _ H) as [Hall Hl]. subst l.
    apply in_flat_map in Hy as [c [Hc Hy]]. pose proof (Hpc _ _ Hc) as Hp.
    destruct Hy as [<-|Hy]; [apply Anc_par; exact Hp|].
    eapply Anc_snoc; [|exact Hp]. eapply IH; [apply Hall; exact Hc | exact Hy].
Qed.

Lemma Path_snoc h y l c x : Path h y (l ++ [c]) -> par (get h c) = Some x -> Path h y ((l ++ [c]) ++ [x]).
Proof.
  revert y. induction l as [|a l IH]; intros y H Hp; simpl in *.
  - inversion H; subst. apply Path_cons; [assumption|]. apply Path_cons; [exact Hp | constructor].
  - inversion H; subst. apply Path_cons; [assumption|]. apply IH; assumption.
Qed.

(* fuel exhausted while walking down = an upward path longer than the fuel *)
Lemma pref_None_Path h : pc_down h ->
  forall f x, pref f h x = None -> exists y l, Path h y (l ++ [x]) /\ length l = f.
Proof.
  intro Hpc. induction f as [|f IH]; intros x H.
  - rewrite pref_O in H. destruct (kids (get h x)) as [|c cs] eqn:E; [discriminate|].
    exists c, []. split; [|reflexivity]. simpl. apply Path_cons; [|constructor].
    apply Hpc. rewrite E. left; reflexivity.
  - rewrite pref_S in H. apply pref_list_None in H as [c [Hc E]].
    destruct (IH c E) as [y [l [Hp Hlen]]].
    exists y, (l ++ [c]). split; [|rewrite app_length; simpl; lia].
    apply Path_snoc; [exact Hp | apply Hpc; exact Hc].
Qed.

Theorem pref_total h x : pc_down h -> acyclic h -> exists l, pref (length h) h x = Some l.
Proof.
  intros Hpc Hacy. destruct (pref (length h) h x) as [l|] eqn:E; [eauto|]. exfalso.
  destruct (pref_None_Path h Hpc _ _ E) as [y [l [Hp Hlen]]].
  pose proof (Path_length_le _ _ _ Hacy Hp) as Hle. rewrite app_length in Hle. simpl in Hle. lia.
Qed.

Theorem pref_None_cycle h x : pc_down h -> pref (length h) h x = None -> exists y, Anc h y y.
Proof.
  intros Hpc E. destruct (pref_None_Path h Hpc _ _ E) as [y [l [Hp Hlen]]].
  apply (Path_dup_cycle _ _ _ Hp). intro Hnd.
  assert (Hle : length (removelast (y :: l ++ [x])) <= length h).
  { apply NoDup_bounded_length; [apply NoDup_removelast; exact Hnd | eapply Path_removelast_lt; eauto]. }
  rewrite length_removelast_cons, app_length in Hle. simpl in Hle. lia.
Qed.

(* the descendants in preorder, as a total function *)
Definition desc (h : heap) (x : obj) : list obj := odflt (pref (length h) h x).

Lemma pref_desc h f x l : pc_down h -> acyclic h -> pref f h x = Some l -> l = desc h x.
Proof.
  intros Hpc Hacy H. unfold desc. destruct (pref_total h x Hpc Hacy) as [l' E]. rewrite E. simpl.
  pose proof (pref_mono _ (Nat.max f (length h)) _ _ _ H (Nat.le_max_l _ _)) as H1.
  pose proof (pref_mono _ (Nat.max f (length h)) _ _ _ E (Nat.le_max_r _ _)) as H2.
  congruence.
Qed.

Lemma pref_length_desc h x : pc_down h -> acyclic h -> pref (length h) h x = Some (desc h x).
Proof.
  intros Hpc Hacy. destruct (pref_total h x Hpc Hacy) as [l E]. rewrite E. f_equal.
  eapply pref_desc; eauto.
Qed.

Theorem all_children_ok h x : pc_down h -> acyclic h -> all_children h x = Ok (desc h x).
Proof. intros Hpc Hacy. unfold all_children. rewrite pref_length_desc by assumption. reflexivity. Qed.

Lemma all_children_Ok_desc h x l : all_children h x = Ok l -> l = desc h x.
Proof.
  unfold all_children, desc. destruct (pref (length h) h x); [|discriminate].
  intro H; inversion H; reflexivity.
Qed.

Lemma all_children_not_Err h x : all_children h x <> Err.
Proof. unfold all_children. destruct (pref (length h) h x); discriminate. Qed.

(* the defining equation: each child directly followed by its descendants, siblings in list order *)
Theorem desc_eq h x : pc_down h -> acyclic h ->
  desc h x = flat_map (fun c => c :: desc h c) (kids (get h x)).
Proof.
  intros Hpc Hacy.
  pose proof (pref_mono_S _ _ _ _ (pref_length_desc h x Hpc Hacy)) as H.
  rewrite pref_S in H.
  rewrite (pref_list_all_Some _ (desc h)) in H; [congruence|].
  intros c _. apply pref_length_desc; assumption.
Qed.

Lemma desc_In_Anc h x y : pc_down h -> acyclic h -> In y (desc h x) -> Anc h y x.
Proof.
  intros Hpc Hacy Hy. eapply pref_In_Anc; [exact Hpc | apply pref_length_desc; assumption | exact Hy].
Qed.

Lemma desc_kid h x c : pc_down h -> acyclic h -> In c (kids (get h x)) -> In c (desc h x).
Proof.
  intros Hpc Hacy Hc. rewrite desc_eq by assumption. apply in_flat_map. exists c. split; [exact Hc | left; reflexivity].
Qed.

Lemma desc_trans_kid h x c y : pc_down h -> acyclic h ->
  In c (kids (get h x)) -> In y (desc h c) -> In y (desc h x).
Proof.
  intros Hpc Hacy Hc Hy. rewrite desc_eq by assumption. apply in_flat_map. exists c.
  split; [exact Hc | right; exact Hy].
Qed.

(* walking down agrees with walking up *)
Theorem In_desc h x y : pc_down h -> pc_up h -> acyclic h -> (In y (desc h x) <-> Anc h y x).
Proof.
  intros Hd Hu Hacy. split; [apply desc_In_Anc; assumption|].
  intro A. revert x A. apply Anc_ind_top.
  - intros p Hp. apply desc_kid; auto.
  - intros a b _ IH Hb. eapply desc_trans_kid; eauto.
Qed.

Lemma desc_lt h x y : pc_down h -> acyclic h -> In y (desc h x) -> y < length h.
Proof. intros Hd Hacy Hy. eapply Anc_lt_l. eapply desc_In_Anc; eauto. Qed.

Lemma pref_NoDup h : pc_down h -> kids_nodup h -> acyclic h ->
  forall f x l, pref f h x = Some l -> NoDup l.
Proof.
  intros Hd Hnd Hacy. induction f as [|f IH]; intros x l H.
  - rewrite pref_O in H. destruct (kids (get h x)); [|discriminate]. inversion H; constructor.
  - rewrite pref_S in H. destruct (pref_list_Some_inv _ _ _ H) as [Hall Hl]. subst l.
    assert (HA : forall c y, In c (kids (get h x)) -> In y (c :: odflt (pref f h c)) -> Sub h c y).
    { intros c y Hc [<-|Hy]; [left; reflexivity|]. right.
      eapply pref_In_Anc; [exact Hd | apply Hall; exact Hc | exact Hy]. }
    apply NoDup_flat_map.
    + apply Hnd.
    + intros c Hc. constructor.
      * intro Hin. apply (Hacy c). eapply pref_In_Anc; [exact Hd | apply Hall; exact Hc | exact Hin].
      * eapply IH. apply Hall. exact Hc.
    + intros c c' y Hc Hc' Hy Hy'.
      pose proof (HA _ _ Hc Hy) as S1. pose proof (HA _ _ Hc' Hy') as S2.
      pose proof (Hd _ _ Hc) as P1. pose proof (Hd _ _ Hc') as P2.
      (* c and c' are both ancestors-or-self of y, hence comparable; both are children of x *)
      assert (Hcmp : c = c' \/ Anc h c c' \/ Anc h c' c).
      { destruct S1 as [E1|A1], S2 as [E2|A2].
        - left. congruence.
        - subst y. right; left. exact A2.
        - subst y. right; right. exact A1.
        - eapply Anc_linear; eauto. }
      destruct Hcmp as [E|[A|A]]; [exact E | |]; exfalso.
      * apply Anc_inv in A as [q [Hq A]]. assert (q = x) by congruence. subst q.
        apply (Hacy c'). eapply Anc_up; [exact P2|]. destruct A as [->|A]; [|exact A].
        exfalso. apply (Hacy c'). apply Anc_par. exact P2.
      * apply Anc_inv in A as [q [Hq A]]. assert (q = x) by congruence. subst q.
        apply (Hacy c). eapply Anc_up; [exact P1|]. destruct A as [->|A]; [|exact A].
        exfalso. apply (Hacy c). apply Anc_par. exact P1.
Qed.

Theorem NoDup_desc h x : pc_down h -> kids_nodup h -> acyclic h -> NoDup (desc h x).
Proof.
  intros Hd Hnd Hacy. eapply pref_NoDup; eauto. apply pref_length_desc; assumption.
Qed.

Theorem all_children_spec h x :
  pc_down h -> pc_up h -> kids_nodup h -> acyclic h ->
  exists l, all_children h x = Ok l /\ NoDup l /\ (forall y, In y l <-> Anc h y x) /\
            l = flat_map (fun c => c :: desc h c) (kids (get h x)) /\
            (forall c, all_children h c = Ok (desc h c)).
Proof.
  intros Hd Hu Hnd Hacy. exists (desc h x). repeat split.
  - apply all_children_ok; assumption.
  - apply NoDup_desc; assumption.
  - apply In_desc; assumption.
  - apply In_desc; assumption.
  - apply desc_eq; assumption.
  - intro c. apply all_children_ok; assumption.
Qed.

Corollary all_children_spec_WF s x :
  I_pc s -> I_acy s ->
  exists l, all_children (hp s) x = Ok l /\ NoDup l /\ (forall y, In y l <-> Anc (hp s) y x) /\
            l = flat_map (fun c => c :: desc (hp s) c) (kids (get (hp s) x)).
Proof.
  intros Hpc Hacy.
  destruct (all_children_spec (hp s) x (I_pc_pc_down s Hpc) (I_pc_pc_up s Hpc) (I_pc_kids_nodup s Hpc) Hacy)
    as [l [H1 [H2 [H3 [H4 _]]]]]. exists l. auto.
Qed.

(* ================================================================== *)
(** * C. the guards that walk the graph: links_bad, id_clash *)

Theorem links_bad_spec h t ups : acyclic h ->
  (links_bad h t ups = true <->
   exists x l, x < length h /\ Sub h t x /\ In l (preds (get h x) ++ succs (get h x)) /\ In l ups).
Proof.
  intro Hacy. unfold links_bad. rewrite existsb_exists. split.
  - intros [x [Hx Hl]]. apply (In_subtree h t x Hacy) in Hx as [Lx Sx].
    apply existsb_exists in Hl as [l [Hl Hu]]. apply memn_In in Hu. exists x, l. auto.
  - intros [x [l [Lx [Sx [Hl Hu]]]]]. exists x. split; [apply (In_subtree h t x Hacy); auto|].
    apply existsb_exists. exists l. split; [exact Hl | apply memn_In; exact Hu].
Qed.

Corollary links_bad_false h t ups : acyclic h ->
  (links_bad h t ups = false <->
   forall x l, x < length h -> Sub h t x -> In l (preds (get h x) ++ succs (get h x)) -> ~ In l ups).
Proof.
  intro Hacy. split.
  - intros Hf x l Lx Sx Hl Hu.
    assert (T : links_bad h t ups = true) by (apply (links_bad_spec h t ups Hacy); exists x, l; auto).
    congruence.
  - intro H. destruct (links_bad h t ups) eqn:E; [|reflexivity]. exfalso.
    apply (links_bad_spec h t ups Hacy) in E as [x [l [Lx [Sx [Hl Hu]]]]]. exact (H x l Lx Sx Hl Hu).
Qed.

Lemma NoDup_map_iff {A B} (f : A -> B) (l : list A) :
  NoDup l -> (NoDup (map f l) <-> (forall x y, In x l -> In y l -> f x = f y -> x = y)).
Proof.
  induction 1 as [|a l Ha Hl IH]; simpl.
  - split; [intros _ x y [] | constructor].
  - rewrite NoDup_cons_iff, IH. split.
    + intros [Hn Hinj] x y [<-|Hx] [<-|Hy] E; auto.
      * exfalso. apply Hn. rewrite E. apply in_map. exact Hy.
      * exfalso. apply Hn. rewrite <- E. apply in_map. exact Hx.
    + intro Hinj. split.
      * intro Hin. apply in_map_iff in Hin as [y [E Hy]].
        assert (y = a) by (apply Hinj; auto). subst y. exact (Ha Hy).
      * intros x y Hx Hy E. apply Hinj; auto.
Qed.

(* the objects of the tree of root r / the objects brought in by the new children chs *)
Definition InTree (h : heap) (r x : obj) : Prop := x < length h /\ Root h x r.
Definition Incoming (h : heap) (r : obj) (chs : list obj) (x : obj) : Prop :=
  x < length h /\ (exists c, In c chs /\ Sub h c x) /\ ~ Root h x r.

(* _has_id_intersection: never crashes on an acyclic heap; answers False exactly when the incoming
   objects have pairwise distinct ids, all distinct from the ids of the tree *)
Theorem id_clash_spec h p chs : acyclic h ->
  exists r b, rootof h p = Some r /\ Root h p r /\ id_clash h p chs = Ok b /\
    (b = false <->
       (forall x y, Incoming h r chs x -> Incoming h r chs y -> tid (get h x) = tid (get h y) -> x = y) /\
       (forall x y, Incoming h r chs x -> InTree h r y -> tid (get h x) <> tid (get h y))).
Proof.
  intro Hacy. destruct (rootof_total h p Hacy) as [r Er]. unfold id_clash. rewrite Er.
  set (tree := filter (fun x => onat_eqb (rootof h x) (Some r)) (objs h)).
  set (inc := filter (fun x => existsb (fun c => insub h c x) chs && negb (memn x tree)) (objs h)).
  assert (Htree : forall x, In x tree <-> InTree h r x).
  { intro x. unfold tree, InTree. rewrite filter_In, In_objs, onat_eqb_eq, (rootof_spec h x r Hacy). tauto. }
  assert (Hinc : forall x, In x inc <-> Incoming h r chs x).
  { intro x. unfold inc, Incoming. rewrite filter_In, In_objs, andb_true_iff, negb_true_iff, existsb_exists.
    rewrite memn_false, Htree. unfold InTree. split.
    - intros [L [[c [Hc Hs]] Hn]]. split; [exact L|]. split; [|tauto].
      exists c. split; [exact Hc | apply (insub_Sub h c x Hacy); exact Hs].
    - intros [L [[c [Hc Hs]] Hn]]. split; [exact L|]. split; [|tauto].
      exists c. split; [exact Hc | apply (insub_Sub h c x Hacy); exact Hs]. }
  assert (Hnd : NoDup inc) by (apply NoDup_filter, NoDup_objs).
  eexists r, _. split; [reflexivity|]. split; [apply rootof_Root; exact Er|]. split; [reflexivity|].
  rewrite orb_false_iff, negb_false_iff, nodupb_spec by (intros; apply Z.eqb_eq).
  rewrite (NoDup_map_iff (fun x => tid (get h x)) inc Hnd). split.
  - intros [H1 H2]. split.
    + intros x y Hx Hy. apply H1; apply Hinc; assumption.
    + intros x y Hx Hy E.
      assert (T : existsb (fun i => memz i (map (fun x => tid (get h x)) tree)) (map (fun x => tid (get h x)) inc) = true).
      { apply existsb_exists. exists (tid (get h x)). split.
        - apply (in_map (fun x => tid (get h x))). apply Hinc. exact Hx.
        - apply memz_In. rewrite E. apply (in_map (fun x => tid (get h x))). apply Htree. exact Hy. }
      congruence.
  - intros [H1 H2]. split.
    + intros x y Hx Hy. apply H1; apply Hinc; assumption.
    + destruct (existsb _ _) eqn:E; [|reflexivity]. exfalso.
      apply existsb_exists in E as [i [Hi Hm]]. apply memz_In in Hm.
      apply in_map_iff in Hi as [x [Ex Hx]]. apply in_map_iff in Hm as [y [Ey Hy]].
      apply (H2 x y); [apply Hinc; exact Hx | apply Htree; exact Hy | congruence].
Qed.

Lemma id_clash_not_Err h p chs : id_clash h p chs <> Err.
Proof. unfold id_clash. destruct (rootof h p); discriminate. Qed.
