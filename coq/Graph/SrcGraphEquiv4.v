(* Source-text tie, fourth tranche: the setters of Task.predecessors and Task.successors that gen/SrcGraph.v
   translates from the current text of src/pjplan/task.py (src_set_predecessors, src_set_successors, each with its
   four lifted loops) against the hand-written model of Graph/Model.v (set_links = set_links_guard + set_links_write).

   The code: value = _unique_tasks(_to_list(value)); three membership tests per new link (self, all_parents,
   all_children); the cycle test per new link (self in v.all_predecessors / v.all_successors); then the three write
   loops.  The model: the raw ancestors instead of all_parents (the hidden WBS root is not masked), the walk UP
   (insub) instead of all_children, the closure without the final _unique_tasks.  Both read as
       [src_links_spec dir]   (guards in the order of the code, writes as the three folds of the model)
   and that reading is equal to the model on every well-formed state - provided no new link is the hidden root of
   the WBS the task lives in (the one object that all_parents masks; a Python caller cannot hold it). *)
From PJ Require Import Base.Prelude Graph.Model Graph.Invariant gen.SrcGraph Graph.SrcGraphEquiv Graph.SrcGraphEquiv2
                       Graph.SrcGraphEquiv3 Graph.AncLemmas Graph.AncLemmas2 Graph.OracleProofs Graph.DepLemmas
                       Graph.LinksProofs.
Local Open Scope nat_scope.

(* ================================================================== *)
(** * the common reading of the two generated functions *)

Definition lift_cyc (r : outcome) (k : res (heap * unit)) : res (heap * unit) :=
  match r with Ok _ => k | Err => Err | Crash c => Crash c end.

Definition src_links_spec (dir : bool) (F : nat) (h : heap) (t : obj) (vs : list (option obj)) : res (heap * unit) :=
  do r1 <- src_unique_tasks (somes vs);
  do r2 <- src_all_parents F h t;
  do r3 <- src_all_children F h t;
  if existsb (fun v => Nat.eqb v t || memn v r2 || memn v r3) r1 then Err
  else lift_cyc (cyc_guard dir h t r1) (Ok (wr3 dir h t r1, tt)).

(* ---- small facts ---- *)
Lemma existsb_ext_In {A} (f g : A -> bool) l : (forall x, In x l -> f x = g x) -> existsb f l = existsb g l.
Proof.
  induction l as [|a l IH]; intro H; cbn [existsb]; [reflexivity|].
  rewrite (H a (or_introl eq_refl)), IH; [reflexivity|]. intros x Hx. apply H. right. exact Hx.
Qed.

Lemma memn_dedup x l : memn x (dedup l) = memn x l.
Proof. apply eq_true_iff_eq. rewrite !dl_memn_In. apply dl_dedup_In. Qed.

(* ================================================================== *)
(** * the write loops are the folds of the model, word for word (no hypothesis) *)

Lemma src_set_predecessors_loop1_eq F h t vs r1 r2 r3 : forall l h6,
  src_set_predecessors_loop1 F h t vs r1 r2 r3 l h6 = Ok (fold_left (F3 true t) l h6, tt).
Proof.
  induction l as [|v l IH]; intro h6; cbn [src_set_predecessors_loop1 fold_left]; [reflexivity|].
  assert (E : F3 true t h6 v = if existsb (Nat.eqb t) (succs (get h6 v)) then h6
                               else upd h6 v (fun T_ => with_succs (succs T_ ++ [t]) T_)) by reflexivity.
  rewrite E. destruct (existsb (Nat.eqb t) (succs (get h6 v))); apply IH.
Qed.

Lemma src_set_predecessors_loop2_eq F h t vs r1 r2 r3 : forall l h4,
  src_set_predecessors_loop2 F h t vs r1 r2 r3 l h4
  = Ok (fold_left (F3 true t) r1 (upd (fold_left (F1 true t) l h4) t (with_fwd true r1)), tt).
Proof.
  induction l as [|v l IH]; intro h4; cbn [src_set_predecessors_loop2 fold_left].
  - cbv zeta. apply src_set_predecessors_loop1_eq.
  - assert (E : F1 true t h4 v = if existsb (Nat.eqb t) (succs (get h4 v))
                                 then upd h4 v (fun T_ => with_succs (remove1 t (succs T_)) T_) else h4) by reflexivity.
    rewrite E. destruct (existsb (Nat.eqb t) (succs (get h4 v))); apply IH.
Qed.

Lemma src_set_successors_loop1_eq F h t vs r1 r2 r3 : forall l h6,
  src_set_successors_loop1 F h t vs r1 r2 r3 l h6 = Ok (fold_left (F3 false t) l h6, tt).
Proof.
  induction l as [|v l IH]; intro h6; cbn [src_set_successors_loop1 fold_left]; [reflexivity|].
  assert (E : F3 false t h6 v = if existsb (Nat.eqb t) (preds (get h6 v)) then h6
                                else upd h6 v (fun T_ => with_preds (preds T_ ++ [t]) T_)) by reflexivity.
  rewrite E. destruct (existsb (Nat.eqb t) (preds (get h6 v))); apply IH.
Qed.

Lemma src_set_successors_loop2_eq F h t vs r1 r2 r3 : forall l h4,
  src_set_successors_loop2 F h t vs r1 r2 r3 l h4
  = Ok (fold_left (F3 false t) r1 (upd (fold_left (F1 false t) l h4) t (with_fwd false r1)), tt).
Proof.
  induction l as [|v l IH]; intro h4; cbn [src_set_successors_loop2 fold_left].
  - cbv zeta. apply src_set_successors_loop1_eq.
  - assert (E : F1 false t h4 v = if existsb (Nat.eqb t) (preds (get h4 v))
                                  then upd h4 v (fun T_ => with_preds (remove1 t (preds T_)) T_) else h4) by reflexivity.
    rewrite E. destruct (existsb (Nat.eqb t) (preds (get h4 v))); apply IH.
Qed.

(* ================================================================== *)
(** * the closure with the fuel of the setter: every fuel above the number of objects gives the model's list,
      made unique (the code asks "self in _unique_tasks(...)", the model "self in ...": the same question) *)

Lemma src_all_predecessors_fuel h v l F : all_preds h v = Ok l -> length h < F ->
  src_all_predecessors F h v = Ok (dedup l).
Proof.
  intros E HF. destruct F as [|f]; [lia|]. apply all_preds_closf in E. unfold pnext in E.
  unfold src_all_predecessors. rewrite src_get_predecessor_eq.
  rewrite (closf_mono _ (length h) f v l) by (lia || exact E). cbn [lift_walk bind].
  rewrite src_unique_tasks_eq. reflexivity.
Qed.

Lemma src_all_successors_fuel h v l F : all_succs h v = Ok l -> length h < F ->
  src_all_successors F h v = Ok (dedup l).
Proof.
  intros E HF. destruct F as [|f]; [lia|]. apply all_succs_closf in E. unfold snext in E.
  unfold src_all_successors. rewrite src_get_successor_eq.
  rewrite (closf_mono _ (length h) f v l) by (lia || exact E). cbn [lift_walk bind].
  rewrite src_unique_tasks_eq. reflexivity.
Qed.

(* ================================================================== *)
(** * the guard loops *)

(* the cycle test, link by link; then the writes *)
Lemma src_set_predecessors_loop3_eq s F t vs r1 r2 r3 : I_fin s -> I_dag s -> length (hp s) < F -> forall l,
  src_set_predecessors_loop3 F (hp s) t vs r1 r2 r3 l
  = lift_cyc (cyc_guard true (hp s) t l) (Ok (wr3 true (hp s) t r1, tt)).
Proof.
  intros Fin Dag HF. induction l as [|v l IH]; cbn [src_set_predecessors_loop3 cyc_guard lift_cyc].
  - apply src_set_predecessors_loop2_eq.
  - destruct (all_preds_total s v Fin Dag) as [lv Ev].
    rewrite (src_all_predecessors_fuel _ _ _ _ Ev HF). cbn [all_fwd]. rewrite Ev. cbn [bind].
    change (existsb (Nat.eqb t) (dedup lv)) with (memn t (dedup lv)). rewrite memn_dedup.
    destruct (memn t lv); cbn [failif bind lift_cyc]; [reflexivity | exact IH].
Qed.

Lemma src_set_successors_loop3_eq s F t vs r1 r2 r3 : I_fin s -> I_sym s -> I_dag s -> length (hp s) < F -> forall l,
  src_set_successors_loop3 F (hp s) t vs r1 r2 r3 l
  = lift_cyc (cyc_guard false (hp s) t l) (Ok (wr3 false (hp s) t r1, tt)).
Proof.
  intros Fin Sym Dag HF. induction l as [|v l IH]; cbn [src_set_successors_loop3 cyc_guard lift_cyc].
  - apply src_set_successors_loop2_eq.
  - destruct (all_succs_total s v Fin Sym Dag) as [lv Ev].
    rewrite (src_all_successors_fuel _ _ _ _ Ev HF). cbn [all_fwd]. rewrite Ev. cbn [bind].
    change (existsb (Nat.eqb t) (dedup lv)) with (memn t (dedup lv)). rewrite memn_dedup.
    destruct (memn t lv); cbn [failif bind lift_cyc]; [reflexivity | exact IH].
Qed.

(* the three membership tests, link by link (no hypothesis) *)
Lemma src_set_predecessors_loop4_eq F h t vs r1 r2 r3 : forall l,
  src_set_predecessors_loop4 F h t vs r1 r2 r3 l
  = if existsb (fun v => Nat.eqb v t || memn v r2 || memn v r3) l then Err
    else src_set_predecessors_loop3 F h t vs r1 r2 r3 r1.
Proof.
  induction l as [|v l IH]; cbn [src_set_predecessors_loop4 existsb]; [reflexivity|].
  unfold memn at 1 2.
  destruct (Nat.eqb v t); [reflexivity|]. destruct (existsb (Nat.eqb v) r2); [reflexivity|].
  destruct (existsb (Nat.eqb v) r3); [reflexivity|]. exact IH.
Qed.

Lemma src_set_successors_loop4_eq F h t vs r1 r2 r3 : forall l,
  src_set_successors_loop4 F h t vs r1 r2 r3 l
  = if existsb (fun v => Nat.eqb v t || memn v r2 || memn v r3) l then Err
    else src_set_successors_loop3 F h t vs r1 r2 r3 r1.
Proof.
  induction l as [|v l IH]; cbn [src_set_successors_loop4 existsb]; [reflexivity|].
  unfold memn at 1 2.
  destruct (Nat.eqb v t); [reflexivity|]. destruct (existsb (Nat.eqb v) r2); [reflexivity|].
  destruct (existsb (Nat.eqb v) r3); [reflexivity|]. exact IH.
Qed.

(* ---- the generated functions are instances of the common reading ---- *)
Theorem src_set_predecessors_spec : forall s F (t : obj) (vs : list (option obj)),
  I_fin s -> I_dag s -> length (hp s) < F ->
  src_set_predecessors F (hp s) t vs = src_links_spec true F (hp s) t vs.
Proof.
  intros s F t vs Fin Dag HF. unfold src_set_predecessors, src_links_spec.
  destruct (src_unique_tasks (somes vs)) as [r1| |?]; cbn [bind]; try reflexivity.
  destruct (src_all_parents F (hp s) t) as [r2| |?]; cbn [bind]; try reflexivity.
  destruct (src_all_children F (hp s) t) as [r3| |?]; cbn [bind]; try reflexivity.
  rewrite src_set_predecessors_loop4_eq.
  rewrite (src_set_predecessors_loop3_eq s F t vs r1 r2 r3 Fin Dag HF). reflexivity.
Qed.

Theorem src_set_successors_spec : forall s F (t : obj) (vs : list (option obj)),
  I_fin s -> I_sym s -> I_dag s -> length (hp s) < F ->
  src_set_successors F (hp s) t vs = src_links_spec false F (hp s) t vs.
Proof.
  intros s F t vs Fin Sym Dag HF. unfold src_set_successors, src_links_spec.
  destruct (src_unique_tasks (somes vs)) as [r1| |?]; cbn [bind]; try reflexivity.
  destruct (src_all_parents F (hp s) t) as [r2| |?]; cbn [bind]; try reflexivity.
  destruct (src_all_children F (hp s) t) as [r3| |?]; cbn [bind]; try reflexivity.
  rewrite src_set_successors_loop4_eq.
  rewrite (src_set_successors_loop3_eq s F t vs r1 r2 r3 Fin Sym Dag HF). reflexivity.
Qed.

(* ================================================================== *)
(** * the common reading against the model, for both directions at once *)

(* no new link is a hidden ancestor of [t]: all_parents masks the hidden root of the WBS, the model does not *)
Definition no_hidden_anc (s : state) (t : obj) (vs : list (option obj)) : Prop :=
  forall v, In (Some v) vs -> hidden (get (hp s) v) = true -> ~ Anc (hp s) t v.

Theorem src_links_spec_eq : forall dir s F (t : obj) (vs : list (option obj)),
  WF s -> hid_tid (hp s) -> no_hidden_anc s t vs -> length (hp s) < F ->
  src_links_spec dir F (hp s) t vs = lift_set s (set_links dir s t vs).
Proof.
  intros dir s F t vs W Hh Hv HF.
  pose proof W as (Fin & Pc & Acy & Sym & Dag & _ & _ & Hid & _).
  pose proof (I_pc_pc_down s Pc) as Hd. pose proof (I_pc_pc_up s Pc) as Hu.
  assert (Hacy : acyclic (hp s)) by exact Acy.
  unfold src_links_spec, set_links, lift_set, set_links_guard. cbv zeta.
  rewrite src_unique_tasks_eq. cbn [bind].
  set (value := dedup (somes vs)).
  destruct (anc_ok (hp s) t Hacy) as [a [Ha Hc]]. rewrite Ha. cbn [bind].
  rewrite (src_all_parents_ok (hp s) t a F Hh Ha) by (apply anc_Ok_length in Ha; lia). cbn [bind].
  destruct F as [|f]; [lia|].
  unfold src_all_children. rewrite bind_ret, src_get_children_eq.
  rewrite (pref_mono _ f _ _ _ (pref_length_desc (hp s) t Hd Hacy)) by lia. cbn [lift_walk bind].
  assert (E : existsb (fun v => Nat.eqb v t || memn v (upto_hidden (hp s) a) || memn v (desc (hp s) t)) value
            = existsb (fun v => Nat.eqb v t || memn v a || (negb (Nat.eqb v t) && insub (hp s) t v)) value).
  { apply existsb_ext_In. intros v Hin.
    assert (Hin' : In (Some v) vs) by (apply somes_In, (dl_dedup_In v (somes vs)); exact Hin).
    destruct (Nat.eqb_spec v t) as [->|Nvt]; [reflexivity|]. cbn [orb negb andb]. f_equal.
    - apply eq_true_iff_eq. rewrite !dl_memn_In. split; [apply upto_hidden_incl|]. intro Hva.
      destruct (hidden (get (hp s) v)) eqn:Ehv.
      + exfalso. apply (Hv v Hin' Ehv). apply (anc_Ok_In _ _ _ Ha). exact Hva.
      + apply (upto_hidden_keeps (hp s) t a); [|exact Hc | exact Hva | exact Ehv].
        intros q Hq. apply (hidden_facts s q Hid Hq).
    - apply eq_true_iff_eq. rewrite dl_memn_In, (In_desc (hp s) t v Hd Hu Hacy), (insub_spec s t v Fin Acy).
      split; [intro H; right; exact H | intros [H|H]; [contradiction | exact H]]. }
  rewrite E. clear E.
  destruct (existsb (fun v => Nat.eqb v t || memn v a || (negb (Nat.eqb v t) && insub (hp s) t v)) value);
    cbn [failif bind mk snd fst]; [reflexivity|].
  destruct (cyc_guard dir (hp s) t value) as [[]| |k]; cbn [lift_cyc mk snd fst]; reflexivity.
Qed.

(* ================================================================== *)
(** * the two setters *)

Theorem src_set_predecessors_fuel : forall s (t : obj) (vs : list (option obj)) F,
  WF s -> hid_tid (hp s) -> no_hidden_anc s t vs -> length (hp s) < F ->
  src_set_predecessors F (hp s) t vs = lift_set s (set_links true s t vs).
Proof.
  intros s t vs F W Hh Hv HF. pose proof W as (Fin & _ & _ & _ & Dag & _).
  rewrite (src_set_predecessors_spec s F t vs Fin Dag HF). apply src_links_spec_eq; assumption.
Qed.

Theorem src_set_successors_fuel : forall s (t : obj) (vs : list (option obj)) F,
  WF s -> hid_tid (hp s) -> no_hidden_anc s t vs -> length (hp s) < F ->
  src_set_successors F (hp s) t vs = lift_set s (set_links false s t vs).
Proof.
  intros s t vs F W Hh Hv HF. pose proof W as (Fin & _ & _ & Sym & Dag & _).
  rewrite (src_set_successors_spec s F t vs Fin Sym Dag HF). apply src_links_spec_eq; assumption.
Qed.

(* the statement asked for, with the one extra hypothesis that is needed *)
Theorem src_set_predecessors_eq_gen : forall s (t : obj) (vs : list (option obj)),
  WF s -> hid_tid (hp s) -> no_hidden_anc s t vs ->
  src_set_predecessors (S (S (length (hp s)))) (hp s) t vs = lift_set s (set_links true s t vs).
Proof. intros. apply src_set_predecessors_fuel; auto. Qed.

Theorem src_set_successors_eq_gen : forall s (t : obj) (vs : list (option obj)),
  WF s -> hid_tid (hp s) -> no_hidden_anc s t vs ->
  src_set_successors (S (S (length (hp s)))) (hp s) t vs = lift_set s (set_links false s t vs).
Proof. intros. apply src_set_successors_fuel; auto. Qed.

(* in the form a caller uses: no task of the list is a hidden WBS root (no Python caller holds one) *)
Lemma no_hidden_anc_pub s t vs :
  (forall v, In (Some v) vs -> hidden (get (hp s) v) = false) -> no_hidden_anc s t vs.
Proof. intros H v Hin Hh. rewrite (H v Hin) in Hh. discriminate. Qed.

Theorem src_set_predecessors_eq : forall s (t : obj) (vs : list (option obj)), WF s -> hid_tid (hp s) ->
  (forall v, In (Some v) vs -> hidden (get (hp s) v) = false) ->
  src_set_predecessors (S (S (length (hp s)))) (hp s) t vs = lift_set s (set_links true s t vs).
Proof. intros s t vs W Hh Hv. apply src_set_predecessors_eq_gen; [exact W | exact Hh | apply no_hidden_anc_pub; exact Hv]. Qed.

Theorem src_set_successors_eq : forall s (t : obj) (vs : list (option obj)), WF s -> hid_tid (hp s) ->
  (forall v, In (Some v) vs -> hidden (get (hp s) v) = false) ->
  src_set_successors (S (S (length (hp s)))) (hp s) t vs = lift_set s (set_links false s t vs).
Proof. intros s t vs W Hh Hv. apply src_set_successors_eq_gen; [exact W | exact Hh | apply no_hidden_anc_pub; exact Hv]. Qed.

(* ================================================================== *)
(** * consequences: no exception other than the setter's own RuntimeError; rejection exactly when the model's guard
      rejects; an accepted call of the code leaves a well-formed graph *)

Lemma cyc_guard_no_crash dir s t value k : I_fin s -> I_sym s -> I_dag s -> cyc_guard dir (hp s) t value <> Crash k.
Proof.
  intros Fin Sym Dag. induction value as [|v r IH]; cbn [cyc_guard]; [discriminate|].
  destruct (all_fwd_total dir s v Fin Sym Dag) as [l El]. rewrite El. cbn [bind].
  destruct (memn t l); cbn [failif bind]; [discriminate | exact IH].
Qed.

Lemma set_links_guard_no_crash dir s t value k : WF s -> set_links_guard dir s t value <> Crash k.
Proof.
  intros (Fin & _ & Acy & Sym & Dag & _). assert (Hacy : acyclic (hp s)) by exact Acy.
  unfold set_links_guard. cbv zeta. destruct (anc_ok (hp s) t Hacy) as [a [Ha _]]. rewrite Ha. cbn [bind].
  match goal with |- context [failif ?b Err] => destruct b end; cbn [failif bind]; [discriminate|].
  apply cyc_guard_no_crash; assumption.
Qed.

Lemma lift_set_links_no_crash dir s t vs k : WF s -> lift_set s (set_links dir s t vs) <> Crash k.
Proof.
  intro W. unfold lift_set, set_links. cbv zeta.
  pose proof (set_links_guard_no_crash dir s t (dedup (somes vs))) as N.
  destruct (set_links_guard dir s t (dedup (somes vs))) as [[]| |k']; cbn [mk snd]; try discriminate.
  intro E. inversion E; subst k'. exact (N k W eq_refl).
Qed.

Lemma lift_set_links_Err_iff dir s t vs :
  lift_set s (set_links dir s t vs) = Err <-> set_links_guard dir s t (dedup (somes vs)) = Err.
Proof.
  unfold lift_set, set_links. cbv zeta.
  destruct (set_links_guard dir s t (dedup (somes vs))) as [[]| |k']; cbn [mk snd]; split; intro E; try discriminate;
    reflexivity.
Qed.

Lemma lift_set_links_WF dir s t vs h' u : WF s -> pub s t -> pubs s vs ->
  lift_set s (set_links dir s t vs) = Ok (h', u) -> WF (mkS h' (wroots s)).
Proof.
  intros W Pt Pv. unfold lift_set.
  pose proof (set_links_WF dir s t vs W Pt Pv) as W'.
  destruct (set_links_shape dir s t vs) as [_ Ew]. cbv zeta in Ew.
  destruct (snd (set_links dir s t vs)) as [[]| |k']; try discriminate.
  intro E. inversion E; subst h'. rewrite <- Ew. destruct (fst (set_links dir s t vs)); exact W'.
Qed.

Lemma pubs_no_hidden_anc s t vs : pubs s vs -> no_hidden_anc s t vs.
Proof. intros Pv. apply no_hidden_anc_pub. intros v Hin. apply (Pv v Hin). Qed.

Corollary src_set_predecessors_no_crash : forall s (t : obj) (vs : list (option obj)) k, WF s -> hid_tid (hp s) ->
  no_hidden_anc s t vs -> src_set_predecessors (S (S (length (hp s)))) (hp s) t vs <> Crash k.
Proof. intros s t vs k W Hh Hv. rewrite (src_set_predecessors_eq_gen s t vs W Hh Hv). apply lift_set_links_no_crash. exact W. Qed.

Corollary src_set_successors_no_crash : forall s (t : obj) (vs : list (option obj)) k, WF s -> hid_tid (hp s) ->
  no_hidden_anc s t vs -> src_set_successors (S (S (length (hp s)))) (hp s) t vs <> Crash k.
Proof. intros s t vs k W Hh Hv. rewrite (src_set_successors_eq_gen s t vs W Hh Hv). apply lift_set_links_no_crash. exact W. Qed.

(* the code raises exactly when the model's guard does, and then nothing is written (the code returns no heap) *)
Corollary src_set_predecessors_Err_iff : forall s (t : obj) (vs : list (option obj)), WF s -> hid_tid (hp s) ->
  no_hidden_anc s t vs ->
  (src_set_predecessors (S (S (length (hp s)))) (hp s) t vs = Err
   <-> set_links_guard true s t (dedup (somes vs)) = Err).
Proof. intros s t vs W Hh Hv. rewrite (src_set_predecessors_eq_gen s t vs W Hh Hv). apply lift_set_links_Err_iff. Qed.

Corollary src_set_successors_Err_iff : forall s (t : obj) (vs : list (option obj)), WF s -> hid_tid (hp s) ->
  no_hidden_anc s t vs ->
  (src_set_successors (S (S (length (hp s)))) (hp s) t vs = Err
   <-> set_links_guard false s t (dedup (somes vs)) = Err).
Proof. intros s t vs W Hh Hv. rewrite (src_set_successors_eq_gen s t vs W Hh Hv). apply lift_set_links_Err_iff. Qed.

Corollary src_set_predecessors_WF : forall s (t : obj) (vs : list (option obj)) h' u, WF s -> hid_tid (hp s) ->
  pub s t -> pubs s vs ->
  src_set_predecessors (S (S (length (hp s)))) (hp s) t vs = Ok (h', u) -> WF (mkS h' (wroots s)).
Proof.
  intros s t vs h' u W Hh Pt Pv. rewrite (src_set_predecessors_eq_gen s t vs W Hh (pubs_no_hidden_anc s t vs Pv)).
  apply lift_set_links_WF; assumption.
Qed.

Corollary src_set_successors_WF : forall s (t : obj) (vs : list (option obj)) h' u, WF s -> hid_tid (hp s) ->
  pub s t -> pubs s vs ->
  src_set_successors (S (S (length (hp s)))) (hp s) t vs = Ok (h', u) -> WF (mkS h' (wroots s)).
Proof.
  intros s t vs h' u W Hh Pt Pv. rewrite (src_set_successors_eq_gen s t vs W Hh (pubs_no_hidden_anc s t vs Pv)).
  apply lift_set_links_WF; assumption.
Qed.

(* ================================================================== *)
(** * every hypothesis is needed *)

(* the hidden root of the WBS as a new link of a WBS member: all_parents masks it, so the code accepts the link
   with an ancestor (and writes it); the model walks the raw parents and rejects.  [t] and the new links need
   NOT be objects of the heap for the equation (an object outside the heap reads as a pristine task without
   relatives in both, and a write outside the heap is void in both). *)
Example src_set_links_needs_no_hidden_anc :
  let s := demo2 in
  WF s /\ hid_tid (hp s) /\ ~ no_hidden_anc s 1 [Some 0] /\
  (exists h', src_set_predecessors (S (S (length (hp s)))) (hp s) 1 [Some 0] = Ok (h', tt) /\ preds (get h' 1) = [0]) /\
  (exists h', src_set_successors (S (S (length (hp s)))) (hp s) 1 [Some 0] = Ok (h', tt) /\ succs (get h' 1) = [0]) /\
  lift_set s (set_links true s 1 [Some 0]) = Err /\ lift_set s (set_links false s 1 [Some 0]) = Err.
Proof.
  cbv zeta. split; [apply demo2_hyps|]. split; [apply demo2_hyps|].
  split. { intro H. apply (H 0 (or_introl eq_refl) eq_refl). apply Anc_par. reflexivity. }
  split; [eexists; split; vm_compute; reflexivity|]. split; [eexists; split; vm_compute; reflexivity|].
  split; vm_compute; reflexivity.
Qed.

(* hid_tid: the visible task 1 carries the id of the hidden root and ends the code's walk over the parents of 2, so
   the grandparent 0 is accepted as a predecessor of 2; the model rejects *)
Example src_set_links_needs_hid_tid :
  let s := mkS [mkT 1 None [1] [] [] None false None [] None;
                mkT SrcGraph.EMPTY_ID (Some 0) [2] [] [] None false None [] None;
                mkT 2 (Some 1) [] [] [] None false None [] None] [] in
  WF s /\ ~ hid_tid (hp s) /\ no_hidden_anc s 2 [Some 0] /\
  (exists h', src_set_predecessors (S (S (length (hp s)))) (hp s) 2 [Some 0] = Ok (h', tt)) /\
  (exists h', src_set_successors (S (S (length (hp s)))) (hp s) 2 [Some 0] = Ok (h', tt)) /\
  lift_set s (set_links true s 2 [Some 0]) = Err /\ lift_set s (set_links false s 2 [Some 0]) = Err.
Proof.
  cbv zeta. split; [apply wf_b_WF; vm_compute; reflexivity|].
  split; [intro H; specialize (H 1); discriminate H|].
  split; [apply no_hidden_anc_pub; intros v [E|[]]; inversion E; reflexivity|].
  split; [eexists; vm_compute; reflexivity|]. split; [eexists; vm_compute; reflexivity|].
  split; vm_compute; reflexivity.
Qed.

(* WF (here I_pc): task 1 is listed as a child of 0 but does not name 0 as its parent - the code, walking down, sees a
   descendant and rejects; the model, walking up, does not *)
Example src_set_links_needs_WF :
  let s := mkS [mkT 0 None [1] [] [] None false None [] None;
                mkT 1 None [] [] [] None false None [] None] [] in
  hid_tid (hp s) /\ wf_b s = false /\ no_hidden_anc s 0 [Some 1] /\
  src_set_predecessors (S (S (length (hp s)))) (hp s) 0 [Some 1] = Err /\
  src_set_successors (S (S (length (hp s)))) (hp s) 0 [Some 1] = Err /\
  (exists h', lift_set s (set_links true s 0 [Some 1]) = Ok (h', tt)) /\
  (exists h', lift_set s (set_links false s 0 [Some 1]) = Ok (h', tt)).
Proof.
  cbv zeta. split; [intros [|[|q]]; try reflexivity; destruct q; reflexivity|]. split; [reflexivity|].
  split; [apply no_hidden_anc_pub; intros v [E|[]]; inversion E; reflexivity|].
  split; [reflexivity|]. split; [reflexivity|]. split; eexists; vm_compute; reflexivity.
Qed.

(* ================================================================== *)
(** * the hypotheses are satisfiable by a non-trivial state; accepted and rejected calls both occur.
      demo4: a WBS (hidden root 0) with the tasks 1, 2 and 3 below 1; the detached tasks 4, 5, 6; the chain of
      links 3 -> 2 -> 4 -> 5 (x -> y: x is a predecessor of y) *)
Definition demo4 : state := mkS
 [ mkT SrcGraph.EMPTY_ID None [1; 2] [] [] (Some 0) true None [] None;
   mkT 1 (Some 0) [3] [] [] (Some 0) false None [] None;
   mkT 2 (Some 0) [] [3] [4] (Some 0) false None [] None;
   mkT 3 (Some 1) [] [] [2] (Some 0) false None [] None;
   mkT 4 None [] [2] [5] None false None [] None;
   mkT 5 None [] [4] [] None false None [] None;
   mkT 6 None [] [] [] None false None [] None ] [0].

Example demo4_hyps : WF demo4 /\ hid_tid (hp demo4).
Proof.
  split; [apply wf_b_WF; vm_compute; reflexivity|].
  intro q. do 7 (destruct q as [|q]; [reflexivity|]). destruct q; reflexivity.
Qed.

Example demo4_set_links :
  let s := demo4 in
  let setp := src_set_predecessors (S (S (length (hp s)))) (hp s) in
  let sets := src_set_successors (S (S (length (hp s)))) (hp s) in
  let P t vs := hp (fst (set_links true s t vs)) in
  let Q t vs := hp (fst (set_links false s t vs)) in
  setp 1 [Some 1] = Err /\ sets 1 [Some 1] = Err /\                         (* a link with itself *)
  setp 3 [Some 6; Some 1] = Err /\ sets 3 [Some 1] = Err /\                 (* a link with an ancestor *)
  setp 1 [Some 3] = Err /\ sets 1 [None; Some 3] = Err /\                   (* a link with a descendant *)
  setp 3 [Some 2] = Err /\ sets 2 [Some 3] = Err /\                         (* a cycle through one link *)
  setp 3 [Some 5] = Err /\ sets 5 [Some 6; Some 3] = Err /\                 (* a cycle through three links *)
  setp 2 [Some 6; None; Some 6] = lift_set s (set_links true s 2 [Some 6; None; Some 6]) /\
  snd (set_links true s 2 [Some 6; None; Some 6]) = OK /\                   (* repeated and None entries; 3 replaced by 6 *)
  preds (get (P 2 [Some 6; None; Some 6]) 2) = [6] /\ succs (get (P 2 [Some 6; None; Some 6]) 3) = [] /\
  succs (get (P 2 [Some 6; None; Some 6]) 6) = [2] /\
  setp 4 [Some 6; Some 2; Some 6] = lift_set s (set_links true s 4 [Some 6; Some 2; Some 6]) /\
  preds (get (P 4 [Some 6; Some 2; Some 6]) 4) = [6; 2] /\                  (* an existing link kept, one added *)
  succs (get (P 4 [Some 6; Some 2; Some 6]) 2) = [4] /\
  setp 4 [] = lift_set s (set_links true s 4 []) /\                         (* the empty list: every link removed *)
  preds (get (P 4 []) 4) = [] /\ succs (get (P 4 []) 2) = [] /\
  sets 2 [Some 5; Some 6] = lift_set s (set_links false s 2 [Some 5; Some 6]) /\
  snd (set_links false s 2 [Some 5; Some 6]) = OK /\                        (* 4 replaced by 5 and 6 *)
  succs (get (Q 2 [Some 5; Some 6]) 2) = [5; 6] /\ preds (get (Q 2 [Some 5; Some 6]) 4) = [] /\
  preds (get (Q 2 [Some 5; Some 6]) 5) = [4; 2] /\
  sets 6 [None] = lift_set s (set_links false s 6 [None]) /\
  sets 0 [Some 6] = lift_set s (set_links false s 0 [Some 6]) /\            (* the hidden root as the OWNER: equal too *)
  setp 9 [Some 8] = lift_set s (set_links true s 9 [Some 8]).               (* objects outside the heap: equal too *)
Proof. cbv zeta. vm_compute. repeat split; reflexivity. Qed.

Print Assumptions src_set_predecessors_spec.
Print Assumptions src_set_successors_spec.
Print Assumptions src_links_spec_eq.
Print Assumptions src_set_predecessors_fuel.
Print Assumptions src_set_successors_fuel.
Print Assumptions src_set_predecessors_eq_gen.
Print Assumptions src_set_successors_eq_gen.
Print Assumptions src_set_predecessors_eq.
Print Assumptions src_set_successors_eq.
Print Assumptions src_set_predecessors_no_crash.
Print Assumptions src_set_successors_no_crash.
Print Assumptions src_set_predecessors_Err_iff.
Print Assumptions src_set_successors_Err_iff.
Print Assumptions src_set_predecessors_WF.
Print Assumptions src_set_successors_WF.
