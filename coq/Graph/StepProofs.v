(* C01, assembly: EVERY operation of the model preserves WF, hence every state reached by a public history
   is well-formed, at every prefix; what WF says about the public view.

   INDEX
   == 1. bridges: the boolean pub_args of Model.v gives the argument predicates of the three groups ==
     pubobj_pub, pubopt_pub, publist_pubs, forallb_pubobj, pub_args_ok (pub_args implies args_ok)
     pub_args_link / pub_args_parent / pub_args_children
   == 2. shape ==
     same_shape (ParentOps): same length, same WBS table, same hidden flags;  *_same_shape for every operation
     shape s s'               heap grows, the WBS table grows at the end, old objects keep their hidden flag
     shape_pub, shape_okw, shape_wroot, pub_args_shape (a call that is public now is public in every later state)
   == 3. the remaining operation kinds ==
     perm_step_WF             ChMove ChSort ChReorder (an accepted call permutes one list; a rejected one is the identity)
     new_task_rel_inv         Task(id, parent=, children=, successors=, predecessors=): allocation, then the setters
   == 4. the theorems ==
     step_WF                  WF s -> pub_args s o = true -> WF (fst (step s o))         all 26 kinds
     step_shape               WF s -> pub_args s o = true -> shape s (fst (step s o))    all 26 kinds
     pub_run_b / pub_run      every call of the history is public in the state it is applied to
     run_WF, reach_WF, pub_run_firstn, prefixes_WF, run_shape
   == 5. the meaning of WF over the public view ==
     PAnc (ancestors as Task.parent reports them), PAnc_Anc
     public_view s            the wording of C01;  WF_public_view : WF s -> public_view s
   == 6. C15: the premise ch_remove_WF_statement discharged ==
     ch_remove_WF_all, C15_ch_remove_all_wf, C15_wbs_remove_all_wf, C15_atomic_wf_all, remove_all_never_raises_wf *)
From Coq Require Import Arith PeanoNat Permutation.
From PJ Require Import Base.Prelude Graph.Model Graph.Invariant Graph.AncLemmas Graph.AncLemmas2
  Graph.DepLemmas Graph.LinksProofs Graph.LinksOps Graph.ParentProofs Graph.ParentOps
  Graph.ChildrenProofsWrite Graph.ChildrenProofs Graph.ChildrenOps Graph.OracleProofs.
From PJ Require Graph.EffectProofs Graph.AtomicProofs Graph.AtomicLoops.
Local Open Scope nat_scope.

(* ================= 1. bridges ================= *)
Lemma pubobj_pub s x : pubobj s x = true <-> pub s x.
Proof.
  unfold pubobj, pub, okobj. rewrite andb_true_iff, Nat.ltb_lt, negb_true_iff. tauto.
Qed.

Lemma pubopt_pub s x : pubopt s x = true -> forall x', x = Some x' -> pub s x'.
Proof. intros H x' E. subst x. apply pubobj_pub. exact H. Qed.

Lemma publist_pubs s l : publist s l = true -> pubs s l.
Proof.
  unfold publist, pubs. intros H v Hv. apply (proj1 (forallb_forall _ _) H) in Hv.
  apply pubobj_pub. exact Hv.
Qed.

Lemma forallb_pubobj s ts : forallb (pubobj s) ts = true -> forall t, In t ts -> pub s t.
Proof. intros H t Ht. apply pubobj_pub. apply (proj1 (forallb_forall _ _) H). exact Ht. Qed.

Lemma pubobj_okobj s x : pubobj s x = true -> okobj s x = true.
Proof. unfold pubobj. intro H. apply andb_true_iff in H. apply H. Qed.

Lemma pubopt_okopt s x : pubopt s x = true -> okopt s x = true.
Proof. destruct x; [apply pubobj_okobj|reflexivity]. Qed.

Lemma publist_oklist s l : publist s l = true -> oklist s l = true.
Proof.
  unfold publist, oklist. intro H. apply forallb_forall. intros x Hx.
  apply pubopt_okopt. apply (proj1 (forallb_forall _ _) H). exact Hx.
Qed.

Lemma forallb_pubobj_okobj s ts : forallb (pubobj s) ts = true -> forallb (okobj s) ts = true.
Proof.
  intro H. apply forallb_forall. intros x Hx. apply pubobj_okobj. apply (proj1 (forallb_forall _ _) H). exact Hx.
Qed.

Ltac split_goal_andb :=
  repeat match goal with |- ?a && ?b = true => apply andb_true_iff; split end.

Ltac split_andb :=
  repeat match goal with
         | H : _ && _ = true |- _ => apply andb_true_iff in H; destruct H
         end.

Theorem pub_args_ok s o : pub_args s o = true -> args_ok s o = true.
Proof.
  destruct o; simpl; intro H; split_andb;
    split_goal_andb;
    try reflexivity; try assumption;
    try (apply pubobj_okobj; assumption); try (apply pubopt_okopt; assumption);
    try (apply publist_oklist; assumption); try (apply forallb_pubobj_okobj; assumption).
  destruct ch; [apply publist_oklist; assumption|reflexivity].
Qed.

Definition is_link_op (o : op) : bool :=
  match o with
  | SetLinks _ _ _ | LnAppend _ _ _ | LnRemove _ _ _ | LnRemoveAll _ _ _ | OpShift _ _ _ | LstShift _ _ _
  | LstSetLinks _ _ _ => true
  | _ => false
  end.
Definition is_parent_op (o : op) : bool :=
  match o with
  | SetParent _ _ | ChAppend _ _ | ChInsert _ _ _ | LstSetParent _ _ | NewTask _ _ _ _ | NewWbs
  | SetEst _ _ | SetPrio _ _ => true
  | _ => false
  end.
Definition is_children_op (o : op) : bool :=
  match o with
  | SetChildren _ _ | ChRemove _ _ | ChRemoveAll _ _ | OpFloordiv _ _ | LstSetChildren _ _ | WbsRemove _ _
  | WbsRemoveAll _ _ => true
  | _ => false
  end.
Definition is_perm_op (o : op) : bool :=
  match o with ChMove _ _ _ _ | ChSort _ _ _ | ChReorder _ _ => true | _ => false end.

Lemma pub_args_link s o : is_link_op o = true -> pub_args s o = true -> link_args_pub s o.
Proof.
  destruct o; simpl; intros K H; try discriminate K; split_andb.
  - split; [apply pubobj_pub|apply publist_pubs]; assumption.
  - split; [apply pubobj_pub|apply pubopt_pub]; assumption.
  - apply pubobj_pub; assumption.
  - apply pubobj_pub; assumption.
  - split; [apply pubobj_pub|apply publist_pubs]; assumption.
  - split; [apply forallb_pubobj|apply publist_pubs]; assumption.
  - split; [apply forallb_pubobj|apply publist_pubs]; assumption.
Qed.

Lemma pub_nohid s x : pub s x -> nohid s x.
Proof. intros [_ H]. exact H. Qed.

Lemma pub_args_parent s o : is_parent_op o = true -> pub_args s o = true -> parent_args_pub s o.
Proof.
  destruct o; simpl; intros K H; try discriminate K; split_andb; try exact I.
  - apply pub_nohid. apply pubobj_pub. assumption.
  - intros t' E. apply pub_nohid. eapply pubopt_pub; eassumption.
  - intros t' E. apply pub_nohid. eapply pubopt_pub; eassumption.
  - intros t' Hin. apply pub_nohid. eapply forallb_pubobj; eassumption.
Qed.

Lemma pub_args_children s o : is_children_op o = true -> pub_args s o = true -> children_args_pub s o.
Proof.
  destruct o; simpl; intros K H; try discriminate K; split_andb; try exact I;
    apply publist_pubs; assumption.
Qed.

Lemma op_kinds o :
  is_link_op o = true \/ is_parent_op o = true \/ is_children_op o = true \/ is_perm_op o = true \/
  exists i nm p ch su pr, o = NewTaskRel i nm p ch su pr.
Proof.
  destruct o; simpl; auto.
  right; right; right; right. do 6 eexists. reflexivity.
Qed.

(* ================= 2. shape ================= *)
Lemma lframe_same_shape s s' : lframe (hp s) (hp s') -> wroots s' = wroots s -> same_shape s s'.
Proof.
  intros L E. split; [exact (lf_len _ _ L)|]. split; [exact E|]. intro x. exact (lf_hidden _ _ x L).
Qed.

Lemma cframe_same_shape s s' : cframe (hp s) (hp s') -> wroots s' = wroots s -> same_shape s s'.
Proof.
  intros [L R] E. split; [exact L|]. split; [exact E|]. intro x. apply (rest_inv _ _ (R x)).
Qed.

Lemma set_links_same_shape d s t vs : same_shape s (fst (set_links d s t vs)).
Proof. destruct (set_links_shape d s t vs) as [L E]. apply lframe_same_shape; assumption. Qed.

Lemma set_children_same_shape s t vs : same_shape s (fst (set_children s t vs)).
Proof. destruct (set_children_shape s t vs) as [L E]. apply cframe_same_shape; assumption. Qed.

Lemma seq_calls_same_shape {A} (f : state -> A -> state * outcome) l :
  (forall s x, same_shape s (fst (f s x))) -> forall s, same_shape s (fst (seq_calls f s l)).
Proof.
  intros H s. apply (seq_calls_inv (fun s' => same_shape s s') f l); [|apply same_shape_refl].
  intros s' x _ Sh. eapply same_shape_trans; [exact Sh|apply H].
Qed.

Lemma ln_append_same_shape d s t x : same_shape s (fst (ln_append d s t x)).
Proof. unfold ln_append. destruct x; [apply set_links_same_shape|apply same_shape_refl]. Qed.

Lemma ln_remove_same_shape d s t x : same_shape s (fst (ln_remove d s t x)).
Proof.
  unfold ln_remove. destruct x; [|apply same_shape_refl]. cbv zeta.
  destruct (memn _ _); [apply set_links_same_shape|apply same_shape_refl].
Qed.

Lemma ln_remove_all_same_shape d s t ids : same_shape s (fst (ln_remove_all d s t ids)).
Proof. unfold ln_remove_all. apply seq_calls_same_shape. intros s' c. apply ln_remove_same_shape. Qed.

Lemma op_shift_same_shape d s t vs : same_shape s (fst (op_shift d s t vs)).
Proof. unfold op_shift. apply set_links_same_shape. Qed.

Lemma lst_shift_same_shape d s ts vs : same_shape s (fst (lst_shift d s ts vs)).
Proof.
  unfold lst_shift, all_or_nothing. destruct (snd (lst_shift_seq d s ts vs)) as [[]| |c]; cbn [fst];
    [|apply same_shape_refl..].
  unfold lst_shift_seq. apply seq_calls_same_shape. intros s' c. apply op_shift_same_shape.
Qed.

Lemma lst_set_links_same_shape d s ts vs : same_shape s (fst (lst_set_links d s ts vs)).
Proof.
  unfold lst_set_links, all_or_nothing. destruct (snd (lst_set_links_seq d s ts vs)) as [[]| |c]; cbn [fst];
    [|apply same_shape_refl..].
  unfold lst_set_links_seq. apply seq_calls_same_shape. intros s' c. apply set_links_same_shape.
Qed.

Lemma lst_set_children_same_shape s ts vs : same_shape s (fst (lst_set_children s ts vs)).
Proof.
  unfold lst_set_children, all_or_nothing. destruct (snd (lst_set_children_seq s ts vs)) as [[]| |c]; cbn [fst];
    [|apply same_shape_refl..].
  unfold lst_set_children_seq. apply seq_calls_same_shape. intros s' c. apply set_children_same_shape.
Qed.

Lemma ch_remove_same_shape s o c : same_shape s (fst (ch_remove s o c)).
Proof.
  unfold ch_remove. destruct c; [|apply same_shape_refl]. cbv zeta.
  destruct (memn _ _); [apply set_children_same_shape|apply same_shape_refl].
Qed.

Lemma ch_remove_all_same_shape s o ids : same_shape s (fst (ch_remove_all s o ids)).
Proof. unfold ch_remove_all. apply seq_calls_same_shape. intros s' c. apply ch_remove_same_shape. Qed.

Lemma op_floordiv_same_shape s o vs : same_shape s (fst (op_floordiv s o vs)).
Proof. unfold op_floordiv. apply set_children_same_shape. Qed.

Lemma wbs_remove_task_same_shape s w t : same_shape s (fst (wbs_remove_task s w t)).
Proof.
  unfold wbs_remove_task. destruct (wbs_tasks s w) as [l| |k]; try apply same_shape_refl.
  destruct (find _ _); [apply ch_remove_same_shape|apply same_shape_refl].
Qed.

Lemma wbs_remove_same_shape s w t : same_shape s (fst (wbs_remove s w t)).
Proof. unfold wbs_remove. destruct t; [apply wbs_remove_task_same_shape|apply same_shape_refl]. Qed.

Lemma wbs_remove_all_same_shape s w ids : same_shape s (fst (wbs_remove_all s w ids)).
Proof.
  unfold wbs_remove_all. destruct (wbs_tasks s w) as [l| |k]; try apply same_shape_refl.
  apply seq_calls_same_shape. intros s' c. apply wbs_remove_task_same_shape.
Qed.

Lemma ch_move_same_shape s o ts b a : same_shape s (fst (ch_move s o ts b a)).
Proof.
  unfold ch_move, mk. destruct (ch_move_guard s o (somes ts) b a) as [[]| |k]; try apply same_shape_refl.
  cbn [fst]. unfold ch_move_write. destruct b; [apply set_kids_same_shape|].
  destruct a; [apply set_kids_same_shape|apply same_shape_refl].
Qed.

Lemma ch_sort_same_shape s o k r : same_shape s (fst (ch_sort s o k r)).
Proof.
  unfold ch_sort. destruct (none_clash s o k); [apply same_shape_refl|]. destruct k; try apply same_shape_refl;
    (destruct (keys_of _ _ _) as [kl| |c]; [apply set_kids_same_shape|apply same_shape_refl..]).
Qed.

Lemma ch_reorder_same_shape s o ids : same_shape s (fst (ch_reorder s o ids)).
Proof.
  unfold ch_reorder. cbv zeta. destruct (reorder_go _ _ _ _ _) as [l'| |c];
    [apply set_kids_same_shape|apply same_shape_refl..].
Qed.

(* the general shape relation: steps may allocate *)
Definition shape (s s' : state) : Prop :=
  length (hp s) <= length (hp s') /\ (exists l, wroots s' = wroots s ++ l) /\
  (forall x, x < length (hp s) -> hidden (get (hp s') x) = hidden (get (hp s) x)).

Lemma shape_refl s : shape s s.
Proof. split; [lia|]. split; [exists []; symmetry; apply app_nil_r|reflexivity]. Qed.

Lemma shape_trans s1 s2 s3 : shape s1 s2 -> shape s2 s3 -> shape s1 s3.
Proof.
  intros (A & [l B] & C) (A' & [l' B'] & C'). split; [lia|]. split.
  - exists (l ++ l'). rewrite B', B. symmetry. apply app_assoc.
  - intros x Lx. rewrite C' by lia. apply C. exact Lx.
Qed.

Lemma same_shape_shape s s' : same_shape s s' -> shape s s'.
Proof.
  intros (A & B & C). split; [lia|]. split; [exists []; rewrite B; symmetry; apply app_nil_r|].
  intros x _. apply C.
Qed.

Lemma shape_pub s s' x : shape s s' -> pub s x -> pub s' x.
Proof. intros (A & _ & C) [L H]. split; [lia|]. rewrite C by exact L. exact H. Qed.

Lemma shape_pub_old s s' x : shape s s' -> x < length (hp s) -> (pub s' x <-> pub s x).
Proof.
  intros (A & _ & C) L. unfold pub. rewrite C by exact L. split; intros [L' H]; split; try assumption. lia.
Qed.

Lemma shape_okobj s s' x : shape s s' -> okobj s x = true -> okobj s' x = true.
Proof. intros (A & _) H. unfold okobj in *. apply Nat.ltb_lt in H. apply Nat.ltb_lt. lia. Qed.

Lemma shape_okw s s' w : shape s s' -> okw s w = true -> okw s' w = true.
Proof.
  intros (_ & [l B] & _) H. unfold okw in *. apply Nat.ltb_lt in H. apply Nat.ltb_lt.
  rewrite B, app_length. lia.
Qed.

Lemma shape_wroot s s' w : shape s s' -> w < length (wroots s) -> wroot s' w = wroot s w.
Proof. intros (_ & [l B] & _) H. unfold wroot. rewrite B. apply app_nth1. exact H. Qed.

Lemma shape_pubobj s s' x : shape s s' -> pubobj s x = true -> pubobj s' x = true.
Proof. intros Sh H. apply pubobj_pub. eapply shape_pub; [exact Sh|]. apply pubobj_pub. exact H. Qed.

Lemma shape_pubopt s s' x : shape s s' -> pubopt s x = true -> pubopt s' x = true.
Proof. destruct x; [apply shape_pubobj|reflexivity]. Qed.

Lemma shape_publist s s' l : shape s s' -> publist s l = true -> publist s' l = true.
Proof.
  intros Sh H. apply forallb_forall. intros x Hx. eapply shape_pubopt; [exact Sh|].
  apply (proj1 (forallb_forall _ _) H). exact Hx.
Qed.

Lemma shape_forallb_pubobj s s' l : shape s s' -> forallb (pubobj s) l = true -> forallb (pubobj s') l = true.
Proof.
  intros Sh H. apply forallb_forall. intros x Hx. eapply shape_pubobj; [exact Sh|].
  apply (proj1 (forallb_forall _ _) H). exact Hx.
Qed.

(* a call that is public now is a public call in every later state *)
Theorem pub_args_shape s s' o : shape s s' -> pub_args s o = true -> pub_args s' o = true.
Proof.
  intro Sh. destruct o; cbn [pub_args]; intro H; split_andb;
    split_goal_andb;
    try reflexivity;
    try (eapply shape_pubobj; eassumption); try (eapply shape_pubopt; eassumption);
    try (eapply shape_publist; eassumption); try (eapply shape_okobj; eassumption);
    try (eapply shape_okw; eassumption); try (eapply shape_forallb_pubobj; eassumption).
  destruct ch; [eapply shape_publist; eassumption|reflexivity].
Qed.

Lemma alloc_shape s T : shape s (alloc s T).
Proof.
  unfold alloc. split; [cbn [hp]; rewrite app_length; lia|]. split; [exists []; symmetry; apply app_nil_r|].
  intros x Lx. cbn [hp]. rewrite get_app_lt by exact Lx. reflexivity.
Qed.

Lemma new_task_shape s i pr nm e : shape s (fst (new_task s i pr nm e)).
Proof.
  unfold new_task. destruct e as [v|]; [destruct (Z.ltb v 0)|]; cbn [fst];
    [apply shape_refl|apply alloc_shape..].
Qed.

Lemma new_wbs_shape s : shape s (fst (new_wbs s)).
Proof.
  unfold new_wbs. cbn [fst]. split; [cbn [hp]; rewrite app_length; lia|]. split; [eexists; reflexivity|].
  intros x Lx. cbn [hp]. rewrite get_app_lt by exact Lx. reflexivity.
Qed.

(* ================= 3. the remaining kinds ================= *)
(* ---- move / sort / reorder ---- *)
Lemma perm_step_WF s o : is_perm_op o = true -> WF s -> WF (fst (step s o)).
Proof.
  intros K W. destruct (step s o) as [s' r] eqn:E. destruct r as [[]| |k].
  - cbn [fst]. destruct o; try discriminate K.
    + pose proof (EffectProofs.C16_move s o ts before after s' W E) as H. cbv zeta in H.
      decompose [ex and] H. assumption.
    + pose proof (EffectProofs.C16_sort s o k reverse s' W E) as H. cbv zeta in H.
      decompose [ex and] H. assumption.
    + pose proof (EffectProofs.C16_reorder s o ids s' W E) as H. cbv zeta in H.
      decompose [ex and] H. assumption.
  - assert (A : AtomicProofs.atomic_op o = true) by (destruct o; try discriminate K; reflexivity).
    pose proof (AtomicProofs.C15_atomic s o A) as H. rewrite E in H. cbn [fst snd] in *.
    rewrite H by discriminate. exact W.
  - assert (A : AtomicProofs.atomic_op o = true) by (destruct o; try discriminate K; reflexivity).
    pose proof (AtomicProofs.C15_atomic s o A) as H. rewrite E in H. cbn [fst snd] in *.
    rewrite H by discriminate. exact W.
Qed.

(* ---- Task(id, name, parent=, children=, successors=, predecessors=) ---- *)
Lemma andthen_inv (P : state -> Prop) (r : state * outcome) (k : state -> state * outcome) :
  P (fst r) -> (P (fst r) -> P (fst (k (fst r)))) -> P (fst (andthen r k)).
Proof. intros H1 H2. unfold andthen. destruct (snd r) as [[]| |c]; auto. Qed.

Lemma pubs_same_shape s s' vs : same_shape s s' -> pubs s vs -> pubs s' vs.
Proof. intros Sh P. eapply pubs_frame; [|exact P]. intro x. apply same_shape_pub. exact Sh. Qed.

Theorem new_task_rel_seq_inv s i nm p ch su pr :
  WF s -> (forall p', p = Some p' -> pub s p') ->
  (forall c, ch = Some c -> pubs s c) -> pubs s su -> pubs s pr ->
  let s0 := alloc s (mkT i None [] [] [] None false None nm None) in
  WF (fst (new_task_rel_seq s i nm p ch su pr)) /\ same_shape s0 (fst (new_task_rel_seq s i nm p ch su pr)).
Proof.
  intros W Pp Pch Psu Ppr. cbv zeta. unfold new_task_rel_seq. cbv zeta.
  set (T := mkT i None [] [] [] None false None nm None).
  set (s0 := alloc s T). set (t := length (hp s)).
  assert (W0 : WF s0) by (apply alloc_task_WF; exact W).
  assert (Sh0 : shape s s0) by apply alloc_shape.
  assert (Pt0 : pub s0 t).
  { split; [unfold s0, alloc, t; cbn [hp]; rewrite app_length; simpl; lia|].
    unfold s0, alloc, t. cbn [hp]. rewrite get_app_eq. reflexivity. }
  pose (P := fun s' => WF s' /\ same_shape s0 s').
  assert (Pub_t : forall s', P s' -> pub s' t).
  { intros s' [_ Sh]. apply (same_shape_pub s0 s' t Sh). exact Pt0. }
  assert (Pubs : forall s' vs, P s' -> pubs s vs -> pubs s' vs).
  { intros s' vs [_ Sh] Pv. apply (pubs_same_shape s0 s' vs Sh).
    intros v Hv. eapply shape_pub; [exact Sh0|]. apply Pv. exact Hv. }
  change (P (fst (andthen (match p with Some _ => set_parent s0 t p | None => (s0, OK) end) (fun s1 =>
    andthen (match ch with Some c => set_children s1 t c | None => (s1, OK) end) (fun s2 =>
    andthen (match su with [] => (s2, OK) | _ => set_succs s2 t su end) (fun s3 =>
             match pr with [] => (s3, OK) | _ => set_preds s3 t pr end)))))).
  apply andthen_inv.
  { destruct p as [p'|]; [|split; [exact W0|apply same_shape_refl]].
    assert (Lp : p' < length (hp s0)) by (apply (shape_pub s s0 p' Sh0); apply Pp; reflexivity).
    split.
    - apply set_parent_WF; [exact W0|exact Pt0|]. right. exists p'. split; [reflexivity|exact Lp].
    - apply set_parent_same_shape; [exact W0|apply Pt0|apply Some_range; exact Lp]. }
  intro P1. apply andthen_inv.
  { destruct ch as [c|]; [|exact P1]. cbn [fst]. split.
    - apply set_children_WF; [apply P1|apply (Pub_t _ P1)|apply Pubs; [exact P1|apply Pch; reflexivity]].
    - eapply same_shape_trans; [apply P1|apply set_children_same_shape]. }
  intro P2. apply andthen_inv.
  { destruct su as [|x su']; [exact P2|]. unfold set_succs. split.
    - apply set_links_WF; [apply P2|apply (Pub_t _ P2)|apply Pubs; [exact P2|exact Psu]].
    - eapply same_shape_trans; [apply P2|apply set_links_same_shape]. }
  intro P3.
  destruct pr as [|x pr']; [exact P3|]. unfold set_preds. split.
  - apply set_links_WF; [apply P3|apply (Pub_t _ P3)|apply Pubs; [exact P3|exact Ppr]].
  - eapply same_shape_trans; [apply P3|apply set_links_same_shape].
Qed.

(* the constructor: the sequence of setters, undone as a whole when one of them raises *)
Theorem new_task_rel_inv s i nm p ch su pr :
  WF s -> (forall p', p = Some p' -> pub s p') ->
  (forall c, ch = Some c -> pubs s c) -> pubs s su -> pubs s pr ->
  WF (fst (new_task_rel s i nm p ch su pr)) /\ shape s (fst (new_task_rel s i nm p ch su pr)).
Proof.
  intros W Pp Pch Psu Ppr.
  destruct (new_task_rel_seq_inv s i nm p ch su pr W Pp Pch Psu Ppr) as [W1 Sh1].
  unfold new_task_rel, all_or_nothing.
  destruct (snd (new_task_rel_seq s i nm p ch su pr)) as [[]| |c]; cbn [fst].
  - split; [exact W1|]. eapply shape_trans; [apply alloc_shape|]. apply same_shape_shape. exact Sh1.
  - split; [exact W|apply shape_refl].
  - split; [exact W|apply shape_refl].
Qed.

Lemma pub_args_new_task_rel s i nm p ch su pr :
  pub_args s (NewTaskRel i nm p ch su pr) = true ->
  (forall p', p = Some p' -> pub s p') /\ (forall c, ch = Some c -> pubs s c) /\ pubs s su /\ pubs s pr.
Proof.
  simpl. intro H. split_andb. split; [apply pubopt_pub; assumption|]. split; [|split; apply publist_pubs; assumption].
  intros c E. subst ch. apply publist_pubs. assumption.
Qed.

(* ================= 4. the theorems ================= *)
Theorem step_WF s o : WF s -> pub_args s o = true -> WF (fst (step s o)).
Proof.
  intros W A. destruct (op_kinds o) as [K|[K|[K|[K|(i & nm & p & ch & su & pr & E)]]]].
  - apply link_step_WF; [exact W|apply pub_args_link; assumption].
  - apply parent_step_WF; [exact W|apply pub_args_parent; assumption].
  - apply children_step_WF; [exact W|apply pub_args_children; assumption].
  - apply perm_step_WF; assumption.
  - subst o. unfold step. rewrite (pub_args_ok _ _ A). cbn [step'].
    destruct (pub_args_new_task_rel _ _ _ _ _ _ _ A) as (Pp & Pch & Psu & Ppr).
    apply (new_task_rel_inv s i nm p ch su pr W Pp Pch Psu Ppr).
Qed.

Lemma gframe_refl s : gframe s s.
Proof. repeat split; reflexivity. Qed.

Theorem step_shape s o : WF s -> pub_args s o = true -> shape s (fst (step s o)).
Proof.
  intros W A. pose proof (pub_args_ok _ _ A) as Ok. unfold step. rewrite Ok.
  destruct o; cbn [step']; simpl in A, Ok; split_andb.
  - apply new_task_shape.
  - destruct (pub_args_new_task_rel s i nm p ch su pr) as (Pp & Pch & Psu & Ppr).
    { simpl. repeat (apply andb_true_iff; split); assumption. }
    apply (new_task_rel_inv s i nm p ch su pr W Pp Pch Psu Ppr).
  - apply new_wbs_shape.
  - apply same_shape_shape. apply set_parent_same_shape; [exact W|apply okobj_lt; assumption|apply okopt_range; assumption].
  - apply same_shape_shape. apply set_children_same_shape.
  - apply same_shape_shape. apply set_links_same_shape.
  - apply same_shape_shape. apply ch_append_shape; [exact W|apply okobj_lt; assumption|apply pubopt_pub; assumption].
  - apply same_shape_shape. apply ch_remove_same_shape.
  - apply same_shape_shape. apply ch_insert_shape; [exact W|apply okobj_lt; assumption|apply pubopt_pub; assumption].
  - apply same_shape_shape. apply ch_move_same_shape.
  - apply same_shape_shape. apply ch_sort_same_shape.
  - apply same_shape_shape. apply ch_reorder_same_shape.
  - apply same_shape_shape. apply ch_remove_all_same_shape.
  - apply same_shape_shape. apply ln_append_same_shape.
  - apply same_shape_shape. apply ln_remove_same_shape.
  - apply same_shape_shape. apply ln_remove_all_same_shape.
  - apply same_shape_shape. apply op_floordiv_same_shape.
  - apply same_shape_shape. apply op_shift_same_shape.
  - apply same_shape_shape. apply lst_shift_same_shape.
  - apply same_shape_shape. apply lst_set_parent_inv; [exact W|apply forallb_pubobj; assumption|apply okopt_range; assumption].
  - apply same_shape_shape. apply lst_set_children_same_shape.
  - apply same_shape_shape. apply lst_set_links_same_shape.
  - apply same_shape_shape. apply wbs_remove_same_shape.
  - apply same_shape_shape. apply wbs_remove_all_same_shape.
  - apply same_shape_shape. apply gframe_shape. apply set_est_gframe.
  - apply same_shape_shape. apply gframe_shape. apply set_prio_gframe.
Qed.

(* ---- histories ---- *)
Fixpoint pub_run_b (s : state) (ops : list op) : bool :=
  match ops with
  | [] => true
  | o :: r => pub_args s o && pub_run_b (fst (step s o)) r
  end.
Definition pub_run (s : state) (ops : list op) : Prop := pub_run_b s ops = true.

Lemma pub_run_cons s o r : pub_run s (o :: r) <-> pub_args s o = true /\ pub_run (fst (step s o)) r.
Proof. unfold pub_run. simpl. apply andb_true_iff. Qed.

Lemma run_cons s o r : run s (o :: r) = run (fst (step s o)) r.
Proof. reflexivity. Qed.

Theorem run_WF ops : forall s, WF s -> pub_run s ops -> WF (run s ops).
Proof.
  induction ops as [|o r IH]; intros s W P; [exact W|].
  apply pub_run_cons in P. destruct P as [A P]. rewrite run_cons. apply IH; [apply step_WF; assumption|exact P].
Qed.

Theorem reach_WF ops : pub_run init ops -> WF (run init ops).
Proof. apply run_WF. exact WF_init. Qed.

Lemma pub_run_firstn n : forall ops s, pub_run s ops -> pub_run s (firstn n ops).
Proof.
  induction n as [|n IH]; intros ops s P; [reflexivity|].
  destruct ops as [|o r]; [reflexivity|]. apply pub_run_cons in P. destruct P as [A P].
  cbn [firstn]. apply pub_run_cons. split; [exact A|apply IH; exact P].
Qed.

Theorem prefixes_WF ops n s : WF s -> pub_run s ops -> WF (run s (firstn n ops)).
Proof. intros W P. apply run_WF; [exact W|apply pub_run_firstn; exact P]. Qed.

Theorem reach_prefixes_WF ops n : pub_run init ops -> WF (run init (firstn n ops)).
Proof. apply prefixes_WF. exact WF_init. Qed.

Theorem run_shape ops : forall s, WF s -> pub_run s ops -> shape s (run s ops).
Proof.
  induction ops as [|o r IH]; intros s W P; [apply shape_refl|].
  apply pub_run_cons in P. destruct P as [A P]. rewrite run_cons.
  eapply shape_trans; [apply step_shape; eassumption|]. apply IH; [apply step_WF; assumption|exact P].
Qed.

Lemma pub_run_app s a b : pub_run s (a ++ b) <-> pub_run s a /\ pub_run (run s a) b.
Proof.
  revert s. induction a as [|o r IH]; intro s.
  - simpl. unfold pub_run at 2. simpl. tauto.
  - rewrite <- app_comm_cons, !pub_run_cons, run_cons, IH. tauto.
Qed.

(* ================= 5. the meaning of WF over the public view ================= *)
(* ancestors as the property Task.parent reports them (the hidden WBS root masked) *)
Inductive PAnc (h : heap) : obj -> obj -> Prop :=
| PAnc_par x p : pubpar h x = Some p -> PAnc h x p
| PAnc_up x p a : pubpar h x = Some p -> PAnc h p a -> PAnc h x a.

Lemma pubpar_Some h x p : pubpar h x = Some p <-> par (get h x) = Some p /\ hidden (get h p) = false.
Proof.
  unfold pubpar. destruct (par (get h x)) as [q|]; [|split; [discriminate|intros [E _]; discriminate]].
  destruct (hidden (get h q)) eqn:Hq; split.
  - discriminate.
  - intros [E H]. inversion E; subst. congruence.
  - intro E. inversion E; subst. auto.
  - intros [E _]. exact E.
Qed.

Lemma pubpar_None h x :
  pubpar h x = None <-> par (get h x) = None \/ exists q, par (get h x) = Some q /\ hidden (get h q) = true.
Proof.
  unfold pubpar. destruct (par (get h x)) as [q|]; [|split; auto].
  destruct (hidden (get h q)) eqn:Hq; split.
  - intros _. right. exists q. auto.
  - reflexivity.
  - discriminate.
  - intros [E|[q' [E H]]]; [discriminate|]. inversion E; subst. congruence.
Qed.

Lemma PAnc_Anc h x a : PAnc h x a -> Anc h x a.
Proof.
  induction 1 as [x p E|x p a E _ IH].
  - apply Anc_par. apply pubpar_Some in E. apply E.
  - eapply Anc_up; [|exact IH]. apply pubpar_Some in E. apply E.
Qed.

Definition public_view (s : state) : Prop :=
  let h := hp s in
  (* every children list belongs to a task or is the root list of a WBS, and holds tasks *)
  (forall t q, In t (kids (get h q)) ->
     pub s t /\ (pub s q \/ exists w, w < length (wroots s) /\ q = wroot s w)) /\
  (* a task is listed by q exactly when it reports q as its parent ... *)
  (forall t q, pub s q -> (In t (kids (get h q)) <-> pubpar h t = Some q)) /\
  (* ... and among the roots of WBS w exactly when it reports no parent and w as its owner *)
  (forall t w, w < length (wroots s) ->
     (In t (kids (get h (wroot s w))) <-> pub s t /\ pubpar h t = None /\ own (get h t) = Some w)) /\
  (* a task that reports neither parent nor owner is listed nowhere *)
  (forall t, pubpar h t = None -> own (get h t) = None -> forall q, ~ In t (kids (get h q))) /\
  (* exactly once *)
  (forall q, NoDup (kids (get h q))) /\
  (* the reported parent of a task is a task *)
  (forall t p, pubpar h t = Some p -> pub s t /\ pub s p) /\
  (* no task is its own ancestor *)
  (forall t, ~ Anc h t t) /\ (forall t, ~ PAnc h t t) /\
  (* links: symmetric, duplicate-free, between tasks *)
  (forall a b, In b (preds (get h a)) <-> In a (succs (get h b))) /\
  (forall a, NoDup (preds (get h a)) /\ NoDup (succs (get h a))) /\
  (forall a b, In b (preds (get h a)) -> pub s a /\ pub s b) /\
  (* no dependency cycle, no self-link *)
  (forall t, ~ Dep h t t) /\
  (forall a, ~ In a (preds (get h a)) /\ ~ In a (succs (get h a))) /\
  (* no link between a task and one of its ancestors or descendants *)
  (forall a b, In b (preds (get h a)) \/ In b (succs (get h a)) ->
     ~ Anc h a b /\ ~ Anc h b a /\ ~ PAnc h a b /\ ~ PAnc h b a).

Lemma hidden_is_wroot s x :
  I_hid s -> x < length (hp s) -> hidden (get (hp s) x) = true ->
  exists w, w < length (wroots s) /\ x = wroot s w /\ par (get (hp s) x) = None /\ own (get (hp s) x) = Some w.
Proof.
  intros (_ & B & C) L H. apply (B x L) in H. destruct (In_nth _ _ 0 H) as [w [Lw Ew]].
  exists w. split; [exact Lw|]. split; [symmetry; exact Ew|].
  destruct (C w Lw) as (Co & Cp & _). cbv zeta in Co, Cp. unfold obj in *. rewrite Ew in Co, Cp. auto.
Qed.

Lemma wroot_facts s w :
  I_hid s -> I_fin s -> w < length (wroots s) ->
  wroot s w < length (hp s) /\ hidden (get (hp s) (wroot s w)) = true /\ par (get (hp s) (wroot s w)) = None /\
  own (get (hp s) (wroot s w)) = Some w.
Proof.
  intros (_ & B & C) F Lw. unfold wroot.
  assert (Hin : In (nth w (wroots s) 0) (wroots s)) by (apply nth_In; exact Lw).
  assert (L : nth w (wroots s) 0 < length (hp s)) by (eapply dl_fin_wroots; eassumption).
  split; [exact L|]. split; [apply (B _ L); exact Hin|]. destruct (C w Lw) as (Co & Cp & _). auto.
Qed.

Theorem WF_public_view s : WF s -> public_view s.
Proof.
  intro W. pose proof W as (F & Pc & Acy & Sym & Dag & Sep & Ids & Hid & Own).
  destruct Pc as [Pc1 Pc2]. destruct Sym as [Sy1 Sy2].
  assert (KP : forall t q, In t (kids (get (hp s) q)) -> pub s t) by (intros t q H; eapply kid_pub; eassumption).
  assert (Own_root : forall t w, w < length (wroots s) -> par (get (hp s) t) = Some (wroot s w) ->
                              t < length (hp s) -> own (get (hp s) t) = Some w).
  { intros t w Lw Pt Lt. apply (Own t w Lt). split; [exact Lw|].
    destruct (wroot_facts s w Hid F Lw) as (_ & _ & Pr & _).
    split; [right; apply Anc_par; exact Pt|exact Pr]. }
  unfold public_view. cbv zeta.
  split; [|split; [|split; [|split; [|split; [|split; [|split; [|split; [|split; [|split; [|split; [|split; [|split]]]]]]]]]]]].
  - intros t q H. split; [eapply KP; exact H|].
    assert (Lq : q < length (hp s)) by (eapply kids_In_lt; exact H).
    destruct (hidden (get (hp s) q)) eqn:Hq; [right|left; split; assumption].
    destruct (hidden_is_wroot s q Hid Lq Hq) as (w & Lw & E & _). exists w. auto.
  - intros t q [Lq Hq]. rewrite pubpar_Some, <- Pc1. tauto.
  - intros t w Lw. destruct (wroot_facts s w Hid F Lw) as (Lr & Hr & Pr & Or). split.
    + intro H. pose proof (KP _ _ H) as Pt. split; [exact Pt|]. apply Pc1 in H. split.
      * apply pubpar_None. right. exists (wroot s w). auto.
      * apply Own_root; [exact Lw|exact H|apply Pt].
    + intros ([Lt Ht] & Pp & Ot). apply Pc1. apply pubpar_None in Pp.
      apply (Own t w Lt) in Ot. unfold wroot in *. destruct Ot as [_ [[E|A] _]]; [exfalso; subst t; congruence|].
      destruct Pp as [Pn|[q [Pq Hq]]]; [apply Anc_has_par in A; destruct A as [q Eq]; congruence|].
      assert (Lq : q < length (hp s)) by (eapply dl_fin_par; eassumption).
      destruct (hidden_is_wroot s q Hid Lq Hq) as (w' & Lw' & Eq & Pq' & _).
      apply Anc_inv in A. destruct A as [q' [Pq'' [E|A]]].
      * congruence.
      * assert (q' = q) by congruence. subst q'. apply Anc_has_par in A. destruct A as [z Ez]. congruence.
  - intros t Pp Ot q H. pose proof (KP _ _ H) as [Lt Ht]. apply Pc1 in H.
    apply pubpar_None in Pp. destruct Pp as [Pn|[q' [Pq Hq]]]; [congruence|].
    assert (Lq : q' < length (hp s)) by (eapply dl_fin_par; eassumption).
    destruct (hidden_is_wroot s q' Hid Lq Hq) as (w & Lw & E & _). subst q'.
    rewrite (Own_root t w Lw Pq Lt) in Ot. discriminate.
  - exact Pc2.
  - intros t p E. apply pubpar_Some in E. destruct E as [E Hp].
    assert (Hin : In t (kids (get (hp s) p))) by (apply Pc1; exact E).
    split; [eapply KP; exact Hin|]. split; [eapply kids_In_lt; exact Hin|exact Hp].
  - exact Acy.
  - intros t H. apply (Acy t). apply PAnc_Anc. exact H.
  - exact Sy1.
  - exact Sy2.
  - intros a b H. split; [|eapply (link_pub true); eassumption].
    apply Sy1 in H. eapply (link_pub false); eassumption.
  - exact Dag.
  - intro a. split; intro H.
    + apply (Dag a). apply Dep_one. exact H.
    + apply (Dag a). apply Dep_one. apply Sy1. exact H.
  - intros a b [H|H].
    + destruct (Sep a b H) as [N1 N2]. repeat split; try assumption; intro X; apply PAnc_Anc in X; contradiction.
    + apply Sy1 in H. destruct (Sep b a H) as [N1 N2].
      repeat split; try assumption; intro X; apply PAnc_Anc in X; contradiction.
Qed.

(* the hypothesis pub_args is evaluated by the harness on every generated call; what it means *)
Theorem pub_args_meaning s o : pub_args s o = true ->
  args_ok s o = true /\
  (is_link_op o = true -> link_args_pub s o) /\
  (is_parent_op o = true -> parent_args_pub s o) /\
  (is_children_op o = true -> children_args_pub s o).
Proof.
  intro A. split; [apply pub_args_ok; exact A|]. split; [|split]; intro K.
  - apply pub_args_link; assumption.
  - apply pub_args_parent; assumption.
  - apply pub_args_children; assumption.
Qed.

(* ================= 6. C15: the premise "children.remove keeps WF" discharged ================= *)
Theorem ch_remove_WF_all : AtomicProofs.ch_remove_WF_statement.
Proof. intros s o c W. apply ch_remove_WF. exact W. Qed.

Theorem C15_ch_remove_all_wf : AtomicProofs.C15_ch_remove_all_statement.
Proof. exact (AtomicLoops.C15_ch_remove_all ch_remove_WF_all). Qed.

Theorem C15_wbs_remove_all_wf : AtomicProofs.C15_wbs_remove_all_statement.
Proof. exact (AtomicLoops.C15_wbs_remove_all ch_remove_WF_all). Qed.

Theorem C15_atomic_wf_all :
  forall s o, WF s -> AtomicLoops.atomic_op_wf o = true -> snd (step s o) <> OK -> fst (step s o) = s.
Proof. exact (AtomicLoops.C15_atomic_wf ch_remove_WF_all). Qed.

(* every one of the 26 operation kinds, hypothesis WF s only *)
Theorem C15_atomic_every_op : forall s o, WF s -> snd (step s o) <> OK -> fst (step s o) = s.
Proof. intros s o W. apply C15_atomic_wf_all; [exact W|apply AtomicLoops.atomic_op_wf_all]. Qed.

Theorem remove_all_never_raises_wf :
  forall s, WF s ->
    (forall o ids, snd (ch_remove_all s o ids) = OK) /\
    (forall d t ids, snd (ln_remove_all d s t ids) = OK) /\
    (forall w ids, snd (wbs_remove_all s w ids) = OK).
Proof. exact (AtomicLoops.remove_all_never_raises ch_remove_WF_all AtomicLoops.ln_remove_keeps_WF). Qed.

(* ================= non-vacuity ================= *)
(* an 8-step public history: a WBS (hidden root 0), tasks 1 > 2 > 3 inside it (3 is built with parent=2),
   task 4 built with predecessors=[3]; the last call (3.predecessors = [1], an ancestor) is rejected *)
Definition c01_ops : list op :=
  [NewWbs; NewTask 1%Z None [] None; NewTask 2%Z None [] None;
   NewTaskRel 3%Z [] (Some 2) None [] [];
   ChAppend 0 (Some 1); SetParent 2 (Some 1);
   NewTaskRel 4%Z [] None None [] [Some 3];
   SetLinks true 3 [Some 1]].

Theorem C15_atomic_reach ops o : pub_run init ops ->
  AtomicLoops.atomic_op_wf o = true -> snd (step (run init ops) o) <> OK -> fst (step (run init ops) o) = run init ops.
Proof. intro P. apply C15_atomic_wf_all. apply reach_WF. exact P. Qed.

Theorem C15_atomic_reach_every_op ops o : pub_run init ops ->
  snd (step (run init ops) o) <> OK -> fst (step (run init ops) o) = run init ops.
Proof. intro P. apply C15_atomic_every_op. apply reach_WF. exact P. Qed.
