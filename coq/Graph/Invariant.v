(* The invariant WF of the task graph (DESIGN.md 3.2): every conjunct as a proposition and as a
   boolean that can be evaluated on a snapshot of the implementation.  Definitions only; the
   equivalences are proved in Graph/OracleProofs.v. *)
From PJ Require Import Base.Prelude Graph.Model.
Local Open Scope nat_scope.

(* Anc h x a : a is a proper ancestor of x (transitive closure of the raw parent) *)
Inductive Anc (h : heap) : obj -> obj -> Prop :=
| Anc_par x p : par (get h x) = Some p -> Anc h x p
| Anc_up x p a : par (get h x) = Some p -> Anc h p a -> Anc h x a.

(* Dep h x y : y is a direct or indirect predecessor of x *)
Inductive Dep (h : heap) : obj -> obj -> Prop :=
| Dep_one x p : In p (preds (get h x)) -> Dep h x p
| Dep_more x p y : In p (preds (get h x)) -> Dep h p y -> Dep h x y.

Definition Root (h : heap) (x r : obj) : Prop := (x = r \/ Anc h x r) /\ par (get h r) = None.

Section Inv.
Variable s : state.
Let h := hp s.
Let n := length (hp s).

(* nothing points outside the heap *)
Definition I_fin : Prop :=
  (forall x, let T := get h x in
     (forall p, par T = Some p -> p < n) /\
     (forall y, In y (kids T ++ preds T ++ succs T) -> y < n) /\
     (forall w, own T = Some w -> w < length (wroots s)))
  /\ (forall r, In r (wroots s) -> r < n).

Definition I_pc : Prop :=
  (forall c p, par (get h c) = Some p <-> In c (kids (get h p))) /\ (forall p, NoDup (kids (get h p))).

Definition I_acy : Prop := forall t, ~ Anc h t t.

Definition I_sym : Prop :=
  (forall a b, In b (preds (get h a)) <-> In a (succs (get h b))) /\
  (forall a, NoDup (preds (get h a)) /\ NoDup (succs (get h a))).

Definition I_dag : Prop := forall t, ~ Dep h t t.

Definition I_sep : Prop := forall a b, In b (preds (get h a)) -> ~ Anc h a b /\ ~ Anc h b a.

Definition I_ids : Prop :=
  forall a b r, a < n -> b < n -> Root h a r -> Root h b r -> tid (get h a) = tid (get h b) -> a = b.

(* the hidden roots are exactly the WBS roots; they have no parent, no links and own themselves *)
Definition I_hid : Prop :=
  NoDup (wroots s) /\
  (forall x, x < n -> (hidden (get h x) = true <-> In x (wroots s))) /\
  (forall w, w < length (wroots s) ->
     let R := get h (nth w (wroots s) O) in
     own R = Some w /\ par R = None /\ preds R = [] /\ succs R = []).

Definition I_own : Prop :=
  forall t w, t < n -> (own (get h t) = Some w <-> w < length (wroots s) /\ Root h t (nth w (wroots s) O)).

Definition WF : Prop :=
  I_fin /\ I_pc /\ I_acy /\ I_sym /\ I_dag /\ I_sep /\ I_ids /\ I_hid /\ I_own.

(* ---------------- booleans ---------------- *)
Definition ltn (x : nat) : bool := Nat.ltb x n.

Definition wf_fin_b : bool :=
  forallb (fun x => let T := get h x in
             match par T with Some p => ltn p | None => true end &&
             forallb ltn (kids T ++ preds T ++ succs T) &&
             match own T with Some w => Nat.ltb w (length (wroots s)) | None => true end) (objs h)
  && forallb ltn (wroots s).

Definition wf_pc_b : bool :=
  forallb (fun c => match par (get h c) with Some p => memn c (kids (get h p)) | None => true end) (objs h) &&
  forallb (fun p => nodupb Nat.eqb (kids (get h p)) &&
                    forallb (fun c => onat_eqb (par (get h c)) (Some p)) (kids (get h p))) (objs h).

Definition wf_acy_b : bool :=
  forallb (fun x => match ancf n h x with Some l => negb (memn x l) | None => false end) (objs h).

Definition wf_sym_b : bool :=
  forallb (fun a => let A := get h a in
             nodupb Nat.eqb (preds A) && nodupb Nat.eqb (succs A) &&
             forallb (fun b => memn a (succs (get h b))) (preds A) &&
             forallb (fun b => memn a (preds (get h b))) (succs A)) (objs h).

Definition wf_dag_b : bool :=
  forallb (fun x => match closf (fun y => preds (get h y)) n x with
                    | Some l => negb (memn x l) | None => false end) (objs h).

Definition wf_sep_b : bool :=
  forallb (fun a => forallb (fun b => match ancf n h a, ancf n h b with
                                      | Some la, Some lb => negb (memn b la) && negb (memn a lb)
                                      | _, _ => false
                                      end) (preds (get h a))) (objs h).

Definition wf_ids_b : bool :=
  forallb (fun a => forallb (fun b =>
     match rootof h a, rootof h b with
     | Some ra, Some rb => negb (Nat.eqb ra rb && Z.eqb (tid (get h a)) (tid (get h b))) || Nat.eqb a b
     | _, _ => false
     end) (objs h)) (objs h).

Fixpoint index_of (x : nat) (l : list nat) : option nat :=
  match l with
  | [] => None
  | y :: r => if Nat.eqb x y then Some O else option_map S (index_of x r)
  end.

Definition wf_hid_b : bool :=
  nodupb Nat.eqb (wroots s) &&
  forallb (fun x => Bool.eqb (hidden (get h x)) (memn x (wroots s))) (objs h) &&
  forallb (fun w => let R := get h (nth w (wroots s) O) in
             onat_eqb (own R) (Some w) && onat_eqb (par R) None &&
             match preds R, succs R with [], [] => true | _, _ => false end) (seq 0 (length (wroots s))).

Definition wf_own_b : bool :=
  forallb (fun t => match rootof h t with
                    | Some r => onat_eqb (own (get h t)) (index_of r (wroots s))
                    | None => false
                    end) (objs h).

Definition wf_b : bool :=
  wf_fin_b && wf_pc_b && wf_acy_b && wf_sym_b && wf_dag_b && wf_sep_b && wf_ids_b && wf_hid_b && wf_own_b.
End Inv.
