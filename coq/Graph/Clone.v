(* Graph/Clone.v - WBS.clone / WBS.subtree on the heap model, at SPECIFICATION level (definitions only).

   The code (wbs.py __clone_tasks / __clone, after the repairs fixes/C10-1, C10-2) collects the
   selected roots with their descendants in preorder, makes one Task.clone() per member, rebuilds
   parent / children / predecessors / successors through the setters and attaches the copies of the
   roots to a fresh WBS.  The model states the RESULT of that rebuild directly:

     members   = selected roots (first occurrences; a root lying below another selected root is
                 dropped: it is copied at its place inside that root's subtree) with their
                 descendants, in preorder (Task.all_children order);
     new heap  = old objects (outside tasks that are linked with a member get the member's copy
                 appended to the mirror list - by design the copy shares its outside links), then the
                 hidden root of the new WBS, then one copy per member in preorder;
     a copy    has the member's tid / prio / name / est (Task.clone copies every public field),
                 parent = copy of the parent (the new hidden root for selected roots), children =
                 copies of the children in the same order, links: to a member of the selection ->
                 to its copy; to another member of the source WBS -> dropped; to a task outside
                 the source WBS -> kept to that very object;  owner = the new WBS.

   The order inside the copies' dependency lists is NOT what the setters produce (they re-append
   mirror entries while the rebuild proceeds: clone of x.predecessors = [a, b] can come out as
   [b, a]); the property speaks of the SET of links, the comparison and the theorems treat the
   dependency lists as sets.  Sibling order and preorder are exact. *)
From PJ Require Import Base.Prelude Graph.Model.
Local Open Scope nat_scope.

(* preorder of a list of roots with their descendants;  pref (S f) h x = pre_list f h (kids x) *)
Definition pre_list (fuel : nat) (h : heap) (roots : list obj) : option (list obj) :=
  fold_right (fun c acc => match pref fuel h c, acc with
                           | Some l, Some a => Some (c :: l ++ a)
                           | _, _ => None
                           end) (Some []) roots.

(* the roots of the copy: repeated tasks count once, a task with a selected proper ancestor is no root *)
Definition sel_roots (h : heap) (sel : list obj) : list obj :=
  filter (fun r => match ancf (length h) h r with
                   | Some l => negb (existsb (fun a => memn a sel) l)
                   | None => true
                   end) (dedup sel).

Definition members (h : heap) (sel : list obj) : option (list obj) :=
  pre_list (length h) h (sel_roots h sel).

Fixpoint idx (x : nat) (l : list nat) : nat :=       (* position of the first occurrence; length l if absent *)
  match l with
  | [] => 0
  | y :: r => if Nat.eqb x y then 0 else S (idx x r)
  end.

(* the copy of member x: the hidden root of the new WBS is object n, the copies follow in preorder *)
Definition phi (n : nat) (mem : list obj) (x : obj) : obj := n + 1 + idx x mem.

(* "y is a task of WBS w" as the code asks it: y.wbs is self *)
Definition in_wbs (h : heap) (w : wid) (y : obj) : bool := onat_eqb (own (get h y)) (Some w).

Definition map_links (h : heap) (w : wid) (mem : list obj) (l : list obj) : list obj :=
  flat_map (fun y => if memn y mem then [phi (length h) mem y]
                     else if in_wbs h w y then [] else [y]) l.

Definition copy_of (h : heap) (w w' : wid) (mem : list obj) (x : obj) : task :=
  let T := get h x in
  let n := length h in
  mkT (tid T)
      (Some (match par T with Some p => if memn p mem then phi n mem p else n | None => n end))
      (map (phi n mem) (kids T))
      (map_links h w mem (preds T)) (map_links h w mem (succs T))
      (Some w') false (prio T) (name T) (est T).

Definition new_root (h : heap) (w' : wid) (mem roots : list obj) : task :=
  mkT EMPTY_ID None (map (phi (length h) mem) roots) [] [] (Some w') true None [] None.

(* an outside task linked with members learns about their copies (appended in preorder) *)
Definition mirror (h : heap) (w : wid) (mem : list obj) (y : obj) : task :=
  let Y := get h y in
  if memn y mem || in_wbs h w y then Y
  else with_succs (succs Y ++ map (phi (length h) mem) (filter (fun x => memn y (preds (get h x))) mem))
         (with_preds (preds Y ++ map (phi (length h) mem) (filter (fun x => memn y (succs (get h x))) mem)) Y).

Definition clone_heap (h : heap) (w w' : wid) (mem roots : list obj) : heap :=
  map (mirror h w mem) (seq 0 (length h)) ++ new_root h w' mem roots :: map (copy_of h w w' mem) mem.

(* WBS.subtree(sel) of WBS w; the second component is the new WBS *)
Definition clone_sel (s : state) (w : wid) (sel : list obj) : state * wid :=
  let h := hp s in
  let w' := length (wroots s) in
  match members h sel with
  | Some mem => (mkS (clone_heap h w w' mem (sel_roots h sel)) (wroots s ++ [length h]), w')
  | None => (s, w)      (* the walk ran out of fuel (RecursionError in the code): excluded by clone_defined *)
  end.

Definition clone_defined (s : state) (sel : list obj) : bool :=
  match members (hp s) sel with Some _ => true | None => false end.

(* WBS.clone() = __clone(self.roots);  WBS.subtree(v) = __clone(_to_list(v)) (None entries dropped) *)
Definition clone (s : state) (w : wid) : state * wid := clone_sel s w (kids (get (hp s) (wroot s w))).
Definition subtree_of (s : state) (w : wid) (vs : list (option obj)) : state * wid := clone_sel s w (somes vs).

(* the selection consists of tasks of WBS w (domain of the property) *)
Definition sel_ok (s : state) (w : wid) (sel : list obj) : Prop :=
  w < length (wroots s) /\ exists l, wbs_tasks s w = Ok l /\ incl sel l.
Definition sel_ok_b (s : state) (w : wid) (sel : list obj) : bool :=
  Nat.ltb w (length (wroots s)) &&
  match wbs_tasks s w with Ok l => forallb (fun x => memn x l) sel | _ => false end.

(* ================= the declarative statement ================= *)
(* The copy of a member is found BY POSITION: the i-th member (preorder of the selection) corresponds
   to the i-th task of the new WBS (WBS.tasks order). *)
Definition pos_map (mem new : list obj) (x : obj) : obj := nth (idx x mem) new 0.

Definition same_fields (A B : task) : Prop :=
  tid A = tid B /\ prio A = prio B /\ name A = name B /\ est A = est B.

Section Spec.
Variables (s : state) (w : wid) (roots mem : list obj) (s' : state) (w' : wid) (new : list obj).
Let h := hp s.
Let h' := hp s'.
Let n := length (hp s).
Let ph := pos_map mem new.
Let R' := wroot s' w'.

(* a new WBS was added, the old ones keep their roots; its hidden root is a fresh object *)
Definition sp_wbs : Prop :=
  w' = length (wroots s) /\ wroots s' = wroots s ++ [R'] /\ n <= R' /\
  hidden (get h' R') = true /\ par (get h' R') = None /\ own (get h' R') = Some w' /\
  preds (get h' R') = [] /\ succs (get h' R') = [] /\ tid (get h' R') = EMPTY_ID.

(* position-wise bijection between the members and the tasks of the new WBS, all of them fresh objects *)
Definition sp_bij : Prop :=
  length new = length mem /\ NoDup new /\
  (forall x', In x' new -> n <= x' /\ x' < length h' /\ x' <> R') /\
  (forall x y, In x mem -> In y mem -> ph x = ph y -> x = y) /\
  new = map ph mem.

Definition sp_fields : Prop :=
  forall x, In x mem ->
    same_fields (get h x) (get h' (ph x)) /\ own (get h' (ph x)) = Some w' /\ hidden (get h' (ph x)) = false.

(* hierarchy and sibling order *)
Definition sp_tree : Prop :=
  kids (get h' R') = map ph roots /\
  (forall x, In x mem ->
     kids (get h' (ph x)) = map ph (kids (get h x)) /\
     par (get h' (ph x)) =
       Some (match par (get h x) with Some p => if memn p mem then ph p else R' | None => R' end)).

(* dependency links among the members: the same set *)
Definition sp_links : Prop :=
  forall x, In x mem ->
    NoDup (preds (get h' (ph x))) /\ NoDup (succs (get h' (ph x))) /\
    (forall y, In y mem -> (In y (preds (get h x)) <-> In (ph y) (preds (get h' (ph x))))) /\
    (forall y, In y mem -> (In y (succs (get h x)) <-> In (ph y) (succs (get h' (ph x))))).

(* links that leave the selection: to other tasks of the source WBS - dropped (a copy is never linked
   with a task of w); to tasks outside the source WBS - kept, to the same object *)
Definition sp_outside : Prop :=
  forall x, In x mem ->
    (forall z, In z (preds (get h' (ph x)) ++ succs (get h' (ph x))) ->
               In z new \/ (z < n /\ in_wbs h w z = false)) /\
    (forall z, z < n -> in_wbs h w z = false -> ~ In z mem ->
               (In z (preds (get h x)) <-> In z (preds (get h' (ph x)))) /\
               (In z (succs (get h x)) <-> In z (succs (get h' (ph x))))).

(* every object that existed before: unchanged, except that an outside task GAINS, at the end of its
   mirror lists, copies (tasks of the new WBS); tasks of the source WBS (its hidden root included) are
   untouched *)
Definition sp_source : Prop :=
  n <= length h' /\
  forall y, y < n ->
    let Y := get h y in let Y' := get h' y in
    tid Y' = tid Y /\ par Y' = par Y /\ kids Y' = kids Y /\ own Y' = own Y /\ hidden Y' = hidden Y /\
    prio Y' = prio Y /\ name Y' = name Y /\ est Y' = est Y /\
    (exists e, preds Y' = preds Y ++ e /\ incl e new) /\
    (exists e, succs Y' = succs Y ++ e /\ incl e new) /\
    (in_wbs h w y = true -> Y' = Y).

Definition CloneSpec : Prop :=
  sp_wbs /\ sp_bij /\ sp_fields /\ sp_tree /\ sp_links /\ sp_outside /\ sp_source.
End Spec.

(* "later changes to either side do not show on the other": for an operation of the mutation API whose
   named objects all lie on one side (tasks of the new WBS and its root / tasks of the source WBS and
   its root), no object of the other side changes.  (Outside tasks are shared by design.) *)
Definition side (s : state) (w : wid) : list obj :=
  wroot s w :: match wbs_tasks s w with Ok l => l | _ => [] end.

Definition named (o : op) : list obj :=
  match o with
  | NewTask _ _ _ _ | NewWbs => []
  | NewTaskRel _ _ p ch su pr => somes [p] ++ match ch with Some c => somes c | None => [] end ++ somes su ++ somes pr
  | SetParent t p => t :: somes [p]
  | SetChildren t vs | SetLinks _ t vs | OpFloordiv t vs | OpShift _ t vs => t :: somes vs
  | ChAppend o t | ChRemove o t | ChInsert o _ t | LnAppend _ o t | LnRemove _ o t => o :: somes [t]
  | ChMove o ts b a => o :: somes ts ++ somes [b] ++ somes [a]
  | ChSort o _ _ | ChReorder o _ | ChRemoveAll o _ | LnRemoveAll _ o _ | SetEst o _ | SetPrio o _ => [o]
  | LstShift _ ts vs | LstSetChildren ts vs | LstSetLinks _ ts vs => ts ++ somes vs
  | LstSetParent ts p => ts ++ somes [p]
  | WbsRemove _ t => somes [t]
  | WbsRemoveAll _ _ => []
  end.
Definition op_wbs (o : op) : list wid :=
  match o with WbsRemove w _ | WbsRemoveAll w _ => [w] | _ => [] end.
