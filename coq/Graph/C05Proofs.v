(* C05 - ids unique inside every WBS and tree; lookup by id is exact; WBS.tasks is the depth-first preorder.

   INDEX
     member s w t            t is a member of WBS w: a proper descendant of the (hidden) root of w
     ids_unique_tree         WF s -> two allocated objects of one tree (same raw root) with equal ids are the same object
     ids_unique_below        WF s -> two descendants of one object with equal ids are the same object
     wbs_tasks_spec          WF s -> wbs_tasks s w = Ok l, NoDup l, In t l <-> member, l = the preorder (desc unfolds by desc_eq)
     wbs_ids_unique          members of one WBS with equal ids are the same task
     getitem_spec            wbs[i] = Ok t <-> member with that id; Err <-> no member has it; never Crash
     set_parent_guard_no_crash / set_children_guard_no_crash   on an acyclic heap the guards answer OK or Err
     set_parent_clash_rejected / set_children_clash_rejected   a call whose write would break I_ids is answered
                                                               Err and returns the very same state
     step_ids                after any public step, accepted or not, I_ids holds
     reach_C05               all of it on every state reached by a public history *)
From Coq Require Import Arith PeanoNat.
From PJ Require Import Base.Prelude Graph.Model Graph.Invariant Graph.AncLemmas Graph.AncLemmas2
  Graph.DepLemmas Graph.LinksProofs Graph.ParentProofs Graph.ChildrenProofs Graph.OracleProofs Graph.StepProofs.
Local Open Scope nat_scope.

Definition member (s : state) (w : wid) (t : obj) : Prop := Anc (hp s) t (wroot s w).

(* ================= uniqueness ================= *)
Theorem ids_unique_tree s : WF s ->
  forall a b r, a < length (hp s) -> b < length (hp s) -> Root (hp s) a r -> Root (hp s) b r ->
    tid (get (hp s) a) = tid (get (hp s) b) -> a = b.
Proof. intro W. exact (WF_ids s W). Qed.

Theorem ids_unique_below s : WF s ->
  forall x a b, Anc (hp s) a x -> Anc (hp s) b x -> tid (get (hp s) a) = tid (get (hp s) b) -> a = b.
Proof.
  intros W x a b Aa Ab E. destruct (Root_exists (hp s) x (WF_acy s W)) as [r R].
  apply (WF_ids s W a b r).
  - eapply Anc_lt_l; exact Aa.
  - eapply Anc_lt_l; exact Ab.
  - apply (Root_Anc _ _ _ r Aa). exact R.
  - apply (Root_Anc _ _ _ r Ab). exact R.
  - exact E.
Qed.

(* ================= WBS.tasks ================= *)
Theorem wbs_tasks_spec s w : WF s ->
  exists l, wbs_tasks s w = Ok l /\ NoDup l /\ (forall t, In t l <-> member s w t) /\
            l = flat_map (fun c => c :: desc (hp s) c) (kids (get (hp s) (wroot s w))) /\
            (forall c, desc (hp s) c = flat_map (fun c' => c' :: desc (hp s) c') (kids (get (hp s) c))) /\
            (forall c x, In x (desc (hp s) c) <-> Anc (hp s) x c).
Proof.
  intro W. pose proof (WF_pc s W) as Pc. pose proof (WF_acy s W) as Acy.
  destruct (all_children_spec_WF s (wroot s w) Pc Acy) as (l & E & Nd & I & P).
  exists l. split; [exact E|]. split; [exact Nd|]. split; [exact I|]. split; [exact P|]. split.
  - intro c. apply desc_eq; [apply I_pc_pc_down; exact Pc|exact Acy].
  - intros c x. apply In_desc; [apply I_pc_pc_down; exact Pc|apply I_pc_pc_up; exact Pc|exact Acy].
Qed.

Theorem wbs_tasks_total s w : WF s -> forall k, wbs_tasks s w <> Crash k /\ wbs_tasks s w <> Err.
Proof. intros W k. destruct (wbs_tasks_spec s w W) as (l & E & _). rewrite E. split; discriminate. Qed.

Theorem wbs_ids_unique s w l : WF s -> wbs_tasks s w = Ok l ->
  forall a b, In a l -> In b l -> tid (get (hp s) a) = tid (get (hp s) b) -> a = b.
Proof.
  intros W E a b Ha Hb Et. destruct (wbs_tasks_spec s w W) as (l' & E' & _ & I & _).
  rewrite E in E'. inversion E'; subst l'. apply I in Ha. apply I in Hb.
  eapply ids_unique_below; eassumption.
Qed.

(* ================= wbs[id] ================= *)
Theorem getitem_spec s w i : WF s ->
  (forall t, wbs_getitem s w i = Ok t <-> member s w t /\ tid (get (hp s) t) = i) /\
  (wbs_getitem s w i = Err <-> forall t, member s w t -> tid (get (hp s) t) <> i) /\
  (forall k, wbs_getitem s w i <> Crash k).
Proof.
  intro W. destruct (wbs_tasks_spec s w W) as (l & E & _ & I & _).
  unfold wbs_getitem. rewrite E. cbn [bind].
  destruct (find (fun c => Z.eqb (tid (get (hp s) c)) i) l) as [c|] eqn:Fd.
  - apply find_some in Fd. destruct Fd as [Hc Ec]. apply Z.eqb_eq in Ec. apply I in Hc.
    split; [|split].
    + intro t. split.
      * intro Eq. inversion Eq; subst t. split; assumption.
      * intros [Ht Et]. f_equal. eapply ids_unique_below; [exact W|exact Hc|exact Ht|congruence].
    + split; [discriminate|]. intro H. exfalso. exact (H c Hc Ec).
    + discriminate.
  - split; [|split].
    + intro t. split; [discriminate|]. intros [Ht Et]. exfalso.
      apply I in Ht. pose proof (find_none _ _ Fd t Ht) as N. cbv beta in N. apply Z.eqb_neq in N. contradiction.
    + split; [|reflexivity]. intros _ t Ht Et. apply I in Ht.
      pose proof (find_none _ _ Fd t Ht) as N. cbv beta in N. apply Z.eqb_neq in N. contradiction.
    + discriminate.
Qed.

(* ================= rejection ================= *)
Lemma failif_cases (b : bool) : failif b Err = OK \/ failif b Err = Err.
Proof. destruct b; auto. Qed.

Lemma bind_unit_cases (X : outcome) (k : unit -> outcome) :
  (X = OK \/ X = Err) -> (k tt = OK \/ k tt = Err) -> (bind X k = OK \/ bind X k = Err).
Proof. intros [-> | ->] H; cbn [bind]; auto. Qed.

Theorem set_parent_guard_no_crash s t p : acyclic (hp s) ->
  set_parent_guard s t p = OK \/ set_parent_guard s t p = Err.
Proof.
  intro Acy. unfold set_parent_guard. cbv zeta.
  apply bind_unit_cases; [apply failif_cases|]. apply bind_unit_cases.
  - destruct (own (get (hp s) t)) as [w|]; destruct p as [p'|]; auto using failif_cases.
    destruct (onat_eqb _ _); [auto|].
    destruct (id_clash_spec (hp s) p' [t] Acy) as (r & b & _ & _ & E & _). rewrite E. cbn [bind]. apply failif_cases.
  - destruct p as [p'|]; [|auto].
    destruct (anc_ok (hp s) p' Acy) as (l & E & _). rewrite E. cbn [bind].
    apply bind_unit_cases; apply failif_cases.
Qed.

Theorem set_children_guard_no_crash s t value : acyclic (hp s) ->
  set_children_guard s t value = OK \/ set_children_guard s t value = Err.
Proof.
  intro Acy. unfold set_children_guard. cbv zeta.
  apply bind_unit_cases; [apply failif_cases|]. apply bind_unit_cases.
  - destruct (own (get (hp s) t)); apply failif_cases.
  - destruct (id_clash_spec (hp s) t value Acy) as (r & b & _ & _ & E & _). rewrite E. cbn [bind].
    apply bind_unit_cases; [apply failif_cases|].
    destruct (anc_ok (hp s) t Acy) as (l & E' & _). rewrite E'. cbn [bind].
    apply bind_unit_cases; apply failif_cases.
Qed.

(* "an operation that would make two different tasks with equal ids members of one tree is rejected with
   RuntimeError": if the state the call WOULD write violates uniqueness, the call answers Err and returns the
   very same state *)
Theorem set_parent_clash_rejected s t p :
  WF s -> pub s t -> (forall p', p = Some p' -> p' < length (hp s)) ->
  ~ I_ids (set_parent_write s t p) -> set_parent s t p = (s, Err).
Proof.
  intros W Pt Lp N. unfold set_parent.
  destruct (set_parent_guard_no_crash s t p (WF_acy s W)) as [G|G]; rewrite G; [|reflexivity].
  exfalso. apply N. apply WF_ids. apply set_parent_write_WF; assumption.
Qed.

Theorem set_children_clash_rejected s t vs :
  WF s -> t < length (hp s) -> pubs s vs ->
  ~ I_ids (set_children_write s t (dedup (somes vs))) -> set_children s t vs = (s, Err).
Proof.
  intros W Lt Pv N. pose proof (set_children_WF s t vs W Lt Pv) as W'.
  unfold set_children in *. cbv zeta in *.
  destruct (set_children_guard_no_crash s t (dedup (somes vs)) (WF_acy s W)) as [G|G]; rewrite G in *; [|reflexivity].
  exfalso. apply N. apply WF_ids. exact W'.
Qed.

Theorem step_ids s o : WF s -> pub_args s o = true -> I_ids (fst (step s o)).
Proof. intros W A. apply WF_ids. apply step_WF; assumption. Qed.

(* the same, read as a rejection: a public call after which two distinct allocated objects of one tree have equal
   ids does not exist - whatever the outcome *)
Theorem step_no_clash s o : WF s -> pub_args s o = true ->
  let s' := fst (step s o) in
  ~ exists a b r, a <> b /\ a < length (hp s') /\ b < length (hp s') /\
                  Root (hp s') a r /\ Root (hp s') b r /\ tid (get (hp s') a) = tid (get (hp s') b).
Proof.
  intros W A. cbv zeta. intros (a & b & r & N & La & Lb & Ra & Rb & E).
  apply N. exact (step_ids s o W A a b r La Lb Ra Rb E).
Qed.

(* ================= on reachable states ================= *)
Theorem reach_C05 ops : pub_run init ops ->
  let s := run init ops in
  I_ids s /\
  (forall x a b, Anc (hp s) a x -> Anc (hp s) b x -> tid (get (hp s) a) = tid (get (hp s) b) -> a = b) /\
  (forall w, exists l, wbs_tasks s w = Ok l /\ NoDup l /\ (forall t, In t l <-> member s w t) /\
                       l = flat_map (fun c => c :: desc (hp s) c) (kids (get (hp s) (wroot s w)))) /\
  (forall w i, (forall t, wbs_getitem s w i = Ok t <-> member s w t /\ tid (get (hp s) t) = i) /\
               (wbs_getitem s w i = Err <-> forall t, member s w t -> tid (get (hp s) t) <> i) /\
               (forall k, wbs_getitem s w i <> Crash k)).
Proof.
  intro P. cbv zeta. pose proof (reach_WF ops P) as W.
  split; [apply WF_ids; exact W|]. split; [apply ids_unique_below; exact W|]. split.
  - intro w. destruct (wbs_tasks_spec _ w W) as (l & A & B & C & D & _). exists l. auto.
  - intros w i. apply getitem_spec. exact W.
Qed.

Theorem guards_no_crash s : acyclic (hp s) ->
  (forall t p, set_parent_guard s t p = OK \/ set_parent_guard s t p = Err) /\
  (forall t value, set_children_guard s t value = OK \/ set_children_guard s t value = Err).
Proof.
  intro A. split; [intros t p; apply set_parent_guard_no_crash|intros t v; apply set_children_guard_no_crash]; exact A.
Qed.
