(* Graph/CloneProofs.v - the model of WBS.clone / WBS.subtree (Graph/Clone.v clone_sel) satisfies the
   declarative statement CloneSpec on every well-formed state and every selection inside the source
   WBS (clone_sel_spec); the boolean oracle of Graph/CloneCheck.v is sound (clone_spec_b_sound).
   Library: Graph/AncLemmas.v, Graph/AncLemmas2.v (walking up / preorder). *)
From PJ Require Import Base.Prelude Graph.Model Graph.Invariant Graph.AncLemmas Graph.AncLemmas2
                       Graph.Clone Graph.CloneCheck.
Local Open Scope nat_scope.

(* obj / wid are nat: make lia see it *)
Ltac olia := unfold obj, wid in *; lia.

(* ================================================================== *)
(** * 1. positions *)

Lemma idx_lt x l : In x l -> idx x l < length l.
Proof.
  induction l as [|y r IH]; simpl; intro H; [destruct H|].
  destruct (Nat.eqb x y) eqn:E; [lia|].
  destruct H as [->|H]; [rewrite Nat.eqb_refl in E; discriminate|]. apply IH in H. lia.
Qed.

Lemma nth_idx x l d : In x l -> nth (idx x l) l d = x.
Proof.
  induction l as [|y r IH]; simpl; intro H; [destruct H|].
  destruct (Nat.eqb x y) eqn:E; [apply Nat.eqb_eq in E; auto|].
  destruct H as [->|H]; [rewrite Nat.eqb_refl in E; discriminate|]. apply IH; exact H.
Qed.

Lemma idx_inj x y l : In x l -> In y l -> idx x l = idx y l -> x = y.
Proof.
  intros Hx Hy E. rewrite <- (nth_idx x l 0 Hx), <- (nth_idx y l 0 Hy), E. reflexivity.
Qed.

Lemma phi_inj n mem x y : In x mem -> In y mem -> phi n mem x = phi n mem y -> x = y.
Proof. unfold phi. intros Hx Hy E. apply (idx_inj x y mem Hx Hy). lia. Qed.

Lemma phi_range n mem x : In x mem -> n + 1 <= phi n mem x /\ phi n mem x < n + 1 + length mem.
Proof. intro H. apply idx_lt in H. unfold phi, obj in *. lia. Qed.

Lemma pos_map_phi n mem x : In x mem -> pos_map mem (map (phi n mem) mem) x = phi n mem x.
Proof.
  intro H. unfold pos_map, obj in *.
  rewrite (nth_indep _ 0 (phi n mem 0)) by (rewrite map_length; apply idx_lt; exact H).
  rewrite map_nth, (nth_idx x mem 0 H). reflexivity.
Qed.

Lemma map_pos_map_phi n mem l :
  incl l mem -> map (pos_map mem (map (phi n mem) mem)) l = map (phi n mem) l.
Proof. intro H. apply map_ext_in. intros x Hx. apply pos_map_phi, H, Hx. Qed.

Lemma filter_all_id {A} (f : A -> bool) l : forallb f l = true -> filter f l = l.
Proof.
  induction l as [|a l IH]; simpl; intro H; [reflexivity|].
  apply andb_true_iff in H as [H1 H2]. rewrite H1, IH by exact H2. reflexivity.
Qed.

Lemma NoDup_map_inj_on {A B} (f : A -> B) (l : list A) :
  NoDup l -> (forall x y, In x l -> In y l -> f x = f y -> x = y) -> NoDup (map f l).
Proof. intros Hnd Hinj. apply (NoDup_map_iff f l Hnd). exact Hinj. Qed.

(* ================================================================== *)
(** * 2. reading the new heap *)

Section Heap.
Variables (h : heap) (w w' : wid) (mem roots : list nat).
Let n := length h.
Let h' := clone_heap h w w' mem roots.

Lemma clone_heap_length : length h' = n + 1 + length mem.
Proof.
  unfold h', clone_heap. rewrite app_length, map_length, seq_length. simpl. rewrite map_length. unfold n. olia.
Qed.

Lemma clone_heap_old y : y < n -> get h' y = mirror h w mem y.
Proof.
  intro Hy. unfold get, h', clone_heap.
  rewrite app_nth1 by (rewrite map_length, seq_length; exact Hy).
  rewrite (nth_indep _ dflt (mirror h w mem 0)) by (rewrite map_length, seq_length; exact Hy).
  rewrite map_nth, seq_nth by exact Hy. reflexivity.
Qed.

Lemma clone_heap_root : get h' n = new_root h w' mem roots.
Proof.
  unfold get, h', clone_heap.
  rewrite app_nth2 by (rewrite map_length, seq_length; unfold n; olia).
  rewrite map_length, seq_length. fold n. rewrite Nat.sub_diag. reflexivity.
Qed.

Lemma clone_heap_copy x : In x mem -> get h' (phi n mem x) = copy_of h w w' mem x.
Proof.
  intro Hx. unfold get, h', clone_heap, phi, obj.
  rewrite app_nth2 by (rewrite map_length, seq_length; unfold n; olia).
  rewrite map_length, seq_length. fold n.
  replace (n + 1 + idx x mem - n) with (S (idx x mem)) by olia. simpl.
  rewrite (nth_indep _ dflt (copy_of h w w' mem 0)) by (rewrite map_length; apply idx_lt; exact Hx).
  rewrite map_nth, (nth_idx x mem 0 Hx). reflexivity.
Qed.
End Heap.

(* ================================================================== *)
(** * 3. the rewritten dependency lists *)

Lemma In_map_links h w mem l z :
  In z (map_links h w mem l) <->
  (exists y, In y l /\ In y mem /\ z = phi (length h) mem y) \/
  (In z l /\ ~ In z mem /\ in_wbs h w z = false).
Proof.
  unfold map_links. rewrite in_flat_map. split.
  - intros [y [Hy Hz]]. destruct (memn y mem) eqn:Em.
    + apply memn_In in Em. destruct Hz as [<-|[]]. left. exists y. auto.
    + apply memn_false in Em. destruct (in_wbs h w y) eqn:Ew; [destruct Hz|].
      destruct Hz as [<-|[]]. right. auto.
  - intros [[y [Hy [Hm ->]]] | [Hz [Hm Hw]]].
    + exists y. split; [exact Hy|]. apply memn_In in Hm. rewrite Hm. left; reflexivity.
    + exists z. split; [exact Hz|]. apply memn_false in Hm. rewrite Hm, Hw. left; reflexivity.
Qed.

Lemma NoDup_map_links h w mem l :
  NoDup l -> (forall y, In y l -> y < length h) -> NoDup (map_links h w mem l).
Proof.
  intros Hnd Hlt. unfold map_links. apply NoDup_flat_map; [exact Hnd| |].
  - intros c _. destruct (memn c mem); [repeat constructor; intros []|].
    destruct (in_wbs h w c); repeat constructor. intros [].
  - intros c c' y Hc Hc' H1 H2.
    destruct (memn c mem) eqn:E1; destruct (memn c' mem) eqn:E2.
    + destruct H1 as [H1|[]]. destruct H2 as [H2|[]]. subst y.
      apply memn_In in E1, E2. symmetry. eapply phi_inj; eauto.
    + destruct H1 as [H1|[]]. destruct (in_wbs h w c'); [destruct H2|]. destruct H2 as [H2|[]]. subst y.
      apply memn_In in E1. pose proof (phi_range (length h) mem c E1). pose proof (Hlt _ Hc'). olia.
    + destruct H2 as [H2|[]]. destruct (in_wbs h w c); [destruct H1|]. destruct H1 as [H1|[]]. subst y.
      apply memn_In in E2. pose proof (phi_range (length h) mem c' E2). pose proof (Hlt _ Hc). olia.
    + destruct (in_wbs h w c); [destruct H1|]. destruct (in_wbs h w c'); [destruct H2|].
      destruct H1 as [H1|[]]. destruct H2 as [H2|[]]. congruence.
Qed.

(* ================================================================== *)
(** * 4. the members of the selection on a well-formed state *)

Section Members.
Variables (s : state) (w : wid) (sel : list nat).
Hypothesis HWF : WF s.
Hypothesis Hsel : sel_ok s w sel.
Let h := hp s.
Let n := length (hp s).
Let R := wroot s w.
Let roots := sel_roots (hp s) sel.
Definition mem_of : list nat := flat_map (fun c => c :: desc (hp s) c) (sel_roots (hp s) sel).
Let mem := mem_of.

Lemma mb_pd : pc_down h. Proof. apply I_pc_pc_down, HWF. Qed.
Lemma mb_pu : pc_up h. Proof. apply I_pc_pc_up, HWF. Qed.
Lemma mb_kn : kids_nodup h. Proof. apply I_pc_kids_nodup, HWF. Qed.
Lemma mb_acy : acyclic h. Proof. apply HWF. Qed.

Lemma members_eq : members (hp s) sel = Some mem.
Proof.
  unfold members. change (pref_list (pref (length h) h) roots = Some mem).
  apply pref_list_all_Some. intros c _. apply pref_length_desc; [apply mb_pd | apply mb_acy].
Qed.

Lemma In_mem x : In x mem <-> exists r, In r roots /\ Sub h r x.
Proof.
  unfold mem, mem_of. rewrite in_flat_map. fold h roots. split; intros [r [Hr Hx]]; exists r; (split; [exact Hr|]).
  - destruct Hx as [->|Hx]; [apply Sub_refl|]. right. apply (In_desc h r x mb_pd mb_pu mb_acy). exact Hx.
  - destruct Hx as [->|Hx]; [left; reflexivity|]. right. apply (In_desc h r x mb_pd mb_pu mb_acy). exact Hx.
Qed.

Lemma In_roots r : In r roots <-> In r sel /\ forall a, Anc h r a -> ~ In a sel.
Proof.
  unfold roots, sel_roots. rewrite filter_In, In_dedup. fold h.
  destruct (ancf_total_acy h r mb_acy) as [l E]. rewrite E.
  pose proof (Chain_In_Anc h r l (ancf_Chain _ _ _ _ E)) as HC.
  split; intros [H1 H2]; (split; [exact H1|]).
  - intros a Ha Hs. apply HC in Ha. apply negb_true_iff in H2.
    assert (X : existsb (fun a0 => memn a0 sel) l = true); [|congruence].
    apply existsb_exists. exists a. split; [exact Ha | apply memn_In; exact Hs].
  - apply negb_true_iff. destruct (existsb (fun a => memn a sel) l) eqn:Ex; [|reflexivity].
    apply existsb_exists in Ex as [a [Ha Hs]]. exfalso. apply (H2 a); [apply HC; exact Ha | apply memn_In; exact Hs].
Qed.

Lemma NoDup_roots : NoDup roots.
Proof. unfold roots, sel_roots. apply NoDup_filter, NoDup_dedup. Qed.

Lemma sel_Anc x : In x sel -> Anc h x R.
Proof.
  intro Hx. destruct Hsel as [_ [l [Hl Hincl]]]. unfold wbs_tasks in Hl.
  apply all_children_Ok_desc in Hl. subst l. apply Hincl in Hx.
  apply (In_desc _ _ _ mb_pd mb_pu mb_acy) in Hx. exact Hx.
Qed.

Lemma mem_Anc x : In x mem -> Anc h x R.
Proof.
  intro Hx. apply In_mem in Hx as [r [Hr HS]]. apply In_roots in Hr as [Hr _].
  eapply Sub_Anc_trans; [exact HS | apply sel_Anc; exact Hr].
Qed.

Lemma R_facts : w < length (wroots s) /\ own (get h R) = Some w /\ par (get h R) = None /\
                preds (get h R) = [] /\ succs (get h R) = [].
Proof.
  destruct Hsel as [Hw _]. split; [exact Hw|].
  destruct HWF as (_ & _ & _ & _ & _ & _ & _ & Hhid & _). destruct Hhid as (_ & _ & H3).
  apply (H3 w Hw).
Qed.

Lemma mem_facts x : In x mem ->
  x < n /\ own (get h x) = Some w /\ hidden (get h x) = false /\ x <> R.
Proof.
  intro Hx. pose proof (mem_Anc x Hx) as HA. pose proof (Anc_lt_l _ _ _ HA) as Hlt.
  destruct R_facts as (Hw & _ & HRp & _).
  destruct HWF as (_ & _ & _ & _ & _ & _ & _ & Hhid & Hown).
  split; [exact Hlt|]. split; [|split].
  - apply (Hown x w Hlt). split; [exact Hw|]. split; [right; exact HA | exact HRp].
  - destruct (hidden (get h x)) eqn:Eh; [|reflexivity]. exfalso.
    destruct Hhid as (_ & H2 & H3). apply (H2 x Hlt) in Eh.
    apply (In_nth _ _ 0) in Eh as [w2 [Hw2 E2]].
    pose proof (H3 w2 Hw2) as H4. cbv zeta in H4. destruct H4 as (_ & Hp & _).
    change (nth w2 (wroots s) 0) with (@nth nat w2 (wroots s) 0) in Hp. rewrite E2 in Hp.
    destruct (Anc_has_par _ _ _ HA) as [p Hp']. fold h in Hp. congruence.
  - intros ->. apply (mb_acy R). exact HA.
Qed.

Lemma mem_kids x c : In x mem -> In c (kids (get h x)) -> In c mem.
Proof.
  intros Hx Hc. apply In_mem in Hx as [r [Hr HS]]. apply In_mem. exists r. split; [exact Hr|].
  right. pose proof (mb_pd _ _ Hc) as Hp. destruct HS as [->|HA]; [apply Anc_par; exact Hp|].
  eapply Anc_up; eauto.
Qed.

Lemma roots_incl : incl roots mem.
Proof. intros r Hr. apply In_mem. exists r. split; [exact Hr | apply Sub_refl]. Qed.

Lemma NoDup_mem : NoDup mem.
Proof.
  unfold mem, mem_of. fold h roots. apply NoDup_flat_map; [apply NoDup_roots| |].
  - intros c _. constructor; [|apply NoDup_desc; [apply mb_pd | apply mb_kn | apply mb_acy]].
    intro Hc. apply (In_desc _ _ _ mb_pd mb_pu mb_acy) in Hc. apply (mb_acy c). exact Hc.
  - intros c c' y Hc Hc' H1 H2.
    assert (S1 : Sub h c y) by (destruct H1 as [->|H1]; [apply Sub_refl | right; apply (In_desc _ _ _ mb_pd mb_pu mb_acy); exact H1]).
    assert (S2 : Sub h c' y) by (destruct H2 as [->|H2]; [apply Sub_refl | right; apply (In_desc _ _ _ mb_pd mb_pu mb_acy); exact H2]).
    apply In_roots in Hc as [Hc1 Hc2]. apply In_roots in Hc' as [Hc'1 Hc'2].
    destruct S1 as [->|A1]; destruct S2 as [E|A2]; auto.
    + exfalso. apply (Hc2 c' A2 Hc'1).
    + subst y. exfalso. apply (Hc'2 c A1 Hc1).
    + destruct (Anc_linear _ _ _ _ A1 A2) as [E|[A|A]]; [exact E| |]; exfalso.
      * apply (Hc2 c' A Hc'1).
      * apply (Hc'2 c A Hc1).
Qed.

Lemma root_par_notmem x p : In x roots -> par (get h x) = Some p -> ~ In p mem.
Proof.
  intros Hx Hp Hm. apply In_mem in Hm as [r [Hr HS]].
  apply In_roots in Hx as [_ Hx]. apply In_roots in Hr as [Hr _].
  apply (Hx r); [|exact Hr]. destruct HS as [->|HA]; [apply Anc_par; exact Hp | eapply Anc_up; eauto].
Qed.

Lemma nonroot_par_mem x : In x mem -> ~ In x roots -> exists p, par (get h x) = Some p /\ In p mem.
Proof.
  intros Hx Hn. apply In_mem in Hx as [r [Hr HS]]. destruct HS as [->|HA]; [contradiction|].
  apply Anc_inv in HA as [p [Hp HA]]. exists p. split; [exact Hp|]. apply In_mem. exists r.
  split; [exact Hr|]. destruct HA as [->|HA]; [apply Sub_refl | right; exact HA].
Qed.

Lemma links_lt x y : In y (preds (get h x) ++ succs (get h x)) -> y < n.
Proof.
  intro Hy. destruct HWF as (Hfin & _). destruct Hfin as [Hf _]. destruct (Hf x) as (_ & H2 & _).
  apply H2. rewrite in_app_iff. right. exact Hy.
Qed.

Lemma links_nodup x : NoDup (preds (get h x)) /\ NoDup (succs (get h x)).
Proof. destruct HWF as (_ & _ & _ & Hsym & _). apply Hsym. Qed.

(* clone(): the selection "all root tasks" yields exactly WBS.tasks *)
Lemma clone_members l : sel = kids (get h R) -> wbs_tasks s w = Ok l -> mem = l.
Proof.
  intros Es Hl. unfold wbs_tasks in Hl. apply all_children_Ok_desc in Hl. subst l. fold h R.
  rewrite (desc_eq h R mb_pd mb_acy). unfold mem, mem_of. fold h. f_equal.
  unfold sel_roots. fold h. rewrite dedup_NoDup_id by (rewrite Es; apply mb_kn).
  transitivity sel; [|exact Es]. apply filter_all_id. apply forallb_forall. intros r Hr.
  destruct (ancf_total_acy h r mb_acy) as [la E]. rewrite E. apply negb_true_iff.
  destruct (existsb (fun a => memn a sel) la) eqn:Ex; [|reflexivity]. exfalso.
  apply existsb_exists in Ex as [a [Ha Hs]]. apply memn_In in Hs.
  apply (Chain_In_Anc h r la (ancf_Chain _ _ _ _ E)) in Ha.
  rewrite Es in Hr, Hs. pose proof (mb_pd _ _ Hr) as Hpr. pose proof (mb_pd _ _ Hs) as Hpa.
  apply Anc_inv in Ha as [p [Hp Ha]]. assert (p = R) by congruence. subst p.
  destruct R_facts as (_ & _ & HRp & _). fold h in HRp.
  destruct Ha as [->|Ha]; [congruence|]. apply Anc_has_par in Ha as [q Hq]. congruence.
Qed.
End Members.

(* ================================================================== *)
(** * 5. the model satisfies the declarative statement *)

Lemma pref_list_map (f : obj -> obj) (g g' : obj -> option (list obj)) cs :
  forall l, pref_list g cs = Some l ->
  (forall c lc, In c cs -> g c = Some lc -> g' (f c) = Some (map f lc)) ->
  pref_list g' (map f cs) = Some (map f l).
Proof.
  induction cs as [|c cs IH]; intros l H Hg.
  - inversion H. reflexivity.
  - rewrite pref_list_cons in H. simpl map. rewrite pref_list_cons.
    destruct (g c) as [lc|] eqn:Ec; [|discriminate].
    destruct (pref_list g cs) as [a|] eqn:Ea; [|discriminate]. inversion H; subst l.
    rewrite (Hg c lc (or_introl eq_refl) Ec).
    rewrite (IH a eq_refl) by (intros c0 l0 H0; apply Hg; right; exact H0).
    simpl. rewrite map_app. reflexivity.
Qed.

Section Main.
Variables (s : state) (w : wid) (sel : list nat).
Hypothesis HWF : WF s.
Hypothesis Hsel : sel_ok s w sel.
Let h := hp s.
Let n := length (hp s).
Let roots := sel_roots (hp s) sel.
Let mem := mem_of s sel.
Let w' := length (wroots s).
Let h' := clone_heap (hp s) w (length (wroots s)) (mem_of s sel) (sel_roots (hp s) sel).
Let s' := mkS h' (wroots s ++ [n]).
Let f := phi n mem.
Let new := map f mem.

Lemma clone_sel_eq : clone_sel s w sel = (s', w').
Proof. unfold clone_sel. rewrite (members_eq s sel HWF). reflexivity. Qed.

Lemma mn_copy x : In x mem -> get h' (f x) = copy_of h w w' mem x.
Proof. intro Hx. apply (clone_heap_copy h w w' mem roots x Hx). Qed.

Lemma mn_ph x : In x mem -> pos_map mem new x = f x.
Proof. apply pos_map_phi. Qed.

Lemma mn_phl l : incl l mem -> map (pos_map mem new) l = map f l.
Proof. apply map_pos_map_phi. Qed.

Lemma mn_root : wroot s' w' = n.
Proof.
  unfold wroot, s', w'. simpl. rewrite app_nth2 by lia. rewrite Nat.sub_diag. reflexivity.
Qed.

Lemma pref_new fuel : forall x l, In x mem -> pref fuel h x = Some l -> pref fuel h' (f x) = Some (map f l).
Proof.
  induction fuel as [|fuel IH]; intros x l Hx H.
  - rewrite pref_O in *. rewrite (mn_copy x Hx). simpl kids.
    destruct (kids (get h x)); [|discriminate]. inversion H. reflexivity.
  - rewrite pref_S in *. rewrite (mn_copy x Hx). simpl kids.
    apply (pref_list_map f (pref fuel h)); [exact H|].
    intros c lc Hc Hg. apply IH; [|exact Hg]. apply (mem_kids s sel HWF x c Hx Hc).
Qed.

Lemma tasks_new : wbs_tasks s' w' = Ok new.
Proof.
  unfold wbs_tasks. rewrite mn_root. unfold all_children.
  assert (H1 : pref (S n) h' n = Some new).
  { rewrite pref_S. unfold h'. rewrite clone_heap_root. simpl kids. fold n mem roots f.
    apply (pref_list_map f (pref n h)); [apply (members_eq s sel HWF)|].
    intros c lc Hc Hg. apply pref_new; [|exact Hg]. apply (roots_incl s sel HWF), Hc. }
  simpl hp. rewrite (pref_mono _ (length h') _ _ _ H1); [reflexivity|].
  unfold h'. rewrite clone_heap_length. fold n. lia.
Qed.

Lemma model_sp_wbs : sp_wbs s s' w'.
Proof.
  unfold sp_wbs. cbv zeta. rewrite mn_root. simpl hp. unfold h'. rewrite clone_heap_root. simpl.
  fold n. repeat split; lia.
Qed.

Lemma model_sp_bij : sp_bij s mem s' w' new.
Proof.
  unfold sp_bij. cbv zeta. rewrite mn_root. simpl hp. fold n.
  split; [apply map_length|]. split.
  { apply NoDup_map_inj_on; [apply (NoDup_mem s sel HWF)|]. intros x y. apply phi_inj. }
  split.
  { intros x' Hx'. apply in_map_iff in Hx' as [x [<- Hx]]. pose proof (phi_range n mem x Hx) as Hr.
    unfold h'. rewrite clone_heap_length. fold n mem. unfold f. olia. }
  split.
  { intros x y Hx Hy. rewrite (mn_ph x Hx), (mn_ph y Hy). apply phi_inj; assumption. }
  symmetry. apply mn_phl. apply incl_refl.
Qed.

Lemma model_sp_fields : sp_fields s mem s' w' new.
Proof.
  unfold sp_fields. cbv zeta. intros x Hx. rewrite (mn_ph x Hx). simpl hp. rewrite (mn_copy x Hx).
  simpl. unfold same_fields. repeat split; reflexivity.
Qed.

Lemma model_sp_tree : sp_tree s roots mem s' w' new.
Proof.
  unfold sp_tree. cbv zeta. rewrite mn_root. simpl hp. split.
  - unfold h'. rewrite clone_heap_root. simpl. fold n mem roots f. symmetry.
    apply mn_phl. apply (roots_incl s sel HWF).
  - intros x Hx. rewrite (mn_ph x Hx), (mn_copy x Hx). simpl. fold n f. split.
    + symmetry. apply mn_phl. intros c Hc. apply (mem_kids s sel HWF x c Hx Hc).
    + f_equal. change (get (hp s) x) with (get h x). destruct (par (get h x)) as [p|]; [|reflexivity].
      destruct (memn p mem) eqn:Em; [|reflexivity]. apply memn_In in Em. rewrite (mn_ph p Em). reflexivity.
Qed.

Lemma mn_lt x y : In y (preds (get h x)) \/ In y (succs (get h x)) -> y < n.
Proof. intro H. apply (links_lt s HWF x y). apply in_app_iff. exact H. Qed.

Lemma internal_iff l y : In y mem -> (forall z, In z l -> z < n) ->
  (In y l <-> In (f y) (map_links h w mem l)).
Proof.
  intros Hy Hl. rewrite In_map_links. split.
  - intro H. left. exists y. auto.
  - intros [[y2 [H1 [H2 E]]] | [H1 _]].
    + apply phi_inj in E; [subst; exact H1 | exact Hy | exact H2].
    + apply Hl in H1. pose proof (phi_range n mem y Hy). unfold f in H1. olia.
Qed.

Lemma model_sp_links : sp_links s mem s' new.
Proof.
  unfold sp_links. cbv zeta. intros x Hx. rewrite (mn_ph x Hx). simpl hp. rewrite (mn_copy x Hx). simpl.
  destruct (links_nodup s HWF x) as [N1 N2].
  split; [apply NoDup_map_links; [exact N1 | intros y Hy; apply (mn_lt x y); left; exact Hy]|].
  split; [apply NoDup_map_links; [exact N2 | intros y Hy; apply (mn_lt x y); right; exact Hy]|].
  split; intros y Hy; rewrite (mn_ph y Hy).
  - apply (internal_iff _ y Hy). intros z Hz. apply (mn_lt x z). left; exact Hz.
  - apply (internal_iff _ y Hy). intros z Hz. apply (mn_lt x z). right; exact Hz.
Qed.

Lemma outside_iff l z : z < n -> in_wbs h w z = false -> ~ In z mem ->
  (In z l <-> In z (map_links h w mem l)).
Proof.
  intros Hz Hw Hm. rewrite In_map_links. split.
  - intro H. right. auto.
  - intros [[y [H1 [H2 E]]] | [H1 _]]; [|exact H1].
    pose proof (phi_range n mem y H2) as Hr. change (length h) with n in E. rewrite <- E in Hr. olia.
Qed.

Lemma model_sp_outside : sp_outside s w mem s' new.
Proof.
  unfold sp_outside. cbv zeta. intros x Hx. rewrite (mn_ph x Hx). simpl hp. rewrite (mn_copy x Hx). simpl. split.
  - intros z Hz.
    assert (X : forall l, (forall y, In y l -> y < n) -> In z (map_links h w mem l) ->
                          In z new \/ z < n /\ in_wbs h w z = false).
    { intros l Hl H. apply In_map_links in H as [[y [H1 [H2 ->]]] | [H1 [_ H3]]].
      - left. apply in_map. exact H2.
      - right. split; [apply Hl; exact H1 | exact H3]. }
    apply in_app_iff in Hz as [Hz|Hz]; (eapply X; [|exact Hz]); intros y Hy; apply (mn_lt x y); auto.
  - intros z Hz Hw Hm. split; apply outside_iff; assumption.
Qed.

Lemma model_sp_source : sp_source s w s' new.
Proof.
  unfold sp_source. cbv zeta. simpl hp. split.
  { unfold h'. rewrite clone_heap_length. lia. }
  intros y Hy. unfold h'. rewrite (clone_heap_old _ _ _ _ _ y Hy). unfold mirror. fold n mem f.
  destruct (memn y mem || in_wbs (hp s) w y) eqn:E.
  - repeat split; try reflexivity.
    + exists []. split; [symmetry; apply app_nil_r | intros a []].
    + exists []. split; [symmetry; apply app_nil_r | intros a []].
  - apply orb_false_iff in E as [_ E]. simpl. repeat split; try reflexivity.
    + eexists. split; [reflexivity|]. intros a Ha. apply in_map_iff in Ha as [x [<- Hx]].
      apply filter_In in Hx as [Hx _]. apply in_map. exact Hx.
    + eexists. split; [reflexivity|]. intros a Ha. apply in_map_iff in Ha as [x [<- Hx]].
      apply filter_In in Hx as [Hx _]. apply in_map. exact Hx.
    + intro H. congruence.
Qed.

Theorem clone_sel_spec_aux : CloneSpec s w roots mem s' w' new.
Proof.
  unfold CloneSpec.
  split; [apply model_sp_wbs|]. split; [apply model_sp_bij|]. split; [apply model_sp_fields|].
  split; [apply model_sp_tree|]. split; [apply model_sp_links|]. split; [apply model_sp_outside|].
  apply model_sp_source.
Qed.
End Main.

Theorem clone_sel_spec s w sel : WF s -> sel_ok s w sel ->
  let r := clone_sel s w sel in
  exists mem new,
    members (hp s) sel = Some mem /\ wbs_tasks (fst r) (snd r) = Ok new /\
    CloneSpec s w (sel_roots (hp s) sel) mem (fst r) (snd r) new.
Proof.
  intros HWF Hsel r. exists (mem_of s sel), (map (phi (length (hp s)) (mem_of s sel)) (mem_of s sel)).
  unfold r. rewrite (clone_sel_eq s w sel HWF). simpl fst. simpl snd.
  split; [apply members_eq; exact HWF|]. split; [apply tasks_new; assumption|].
  apply clone_sel_spec_aux; assumption.
Qed.

(* who the members are *)
Theorem members_spec s w sel mem : WF s -> sel_ok s w sel -> members (hp s) sel = Some mem ->
  NoDup mem /\
  (forall x, In x mem <-> exists r, In r (sel_roots (hp s) sel) /\ (x = r \/ Anc (hp s) x r)) /\
  (forall r, In r (sel_roots (hp s) sel) <-> In r sel /\ forall a, Anc (hp s) r a -> ~ In a sel) /\
  NoDup (sel_roots (hp s) sel) /\
  (forall x, In x mem -> x < length (hp s) /\ own (get (hp s) x) = Some w /\ hidden (get (hp s) x) = false) /\
  (forall x p, In x mem -> par (get (hp s) x) = Some p -> (In p mem <-> ~ In x (sel_roots (hp s) sel))).
Proof.
  intros HWF Hsel Hm. rewrite (members_eq s sel HWF) in Hm. inversion Hm; subst mem. clear Hm.
  split; [apply NoDup_mem; exact HWF|]. split; [intro x; apply (In_mem s sel HWF)|].
  split; [intro r; apply (In_roots s sel HWF)|]. split; [apply NoDup_roots|]. split.
  - intros x Hx. destruct (mem_facts s w sel HWF Hsel x Hx) as (H1 & H2 & H3 & _). auto.
  - intros x p Hx Hp. split.
    + intros Hpm Hr. apply (root_par_notmem s sel HWF x p Hr Hp Hpm).
    + intro Hn. destruct (nonroot_par_mem s sel HWF x Hx Hn) as [p' [Hp' Hm']]. congruence.
Qed.

Theorem clone_is_all s w l : WF s -> w < length (wroots s) -> wbs_tasks s w = Ok l ->
  sel_ok s w (kids (get (hp s) (wroot s w))) /\ members (hp s) (kids (get (hp s) (wroot s w))) = Some l.
Proof.
  intros HWF Hw Hl.
  assert (Hs : sel_ok s w (kids (get (hp s) (wroot s w)))).
  { split; [exact Hw|]. exists l. split; [exact Hl|]. intros c Hc.
    unfold wbs_tasks in Hl. apply all_children_Ok_desc in Hl. subst l.
    apply desc_kid; [apply I_pc_pc_down, HWF | apply HWF | exact Hc]. }
  split; [exact Hs|]. rewrite (members_eq s _ HWF). f_equal.
  apply (clone_members s w _ HWF Hs l eq_refl Hl).
Qed.

Theorem wf_tasks_total s w : WF s -> exists l, wbs_tasks s w = Ok l.
Proof.
  intro HWF. exists (desc (hp s) (wroot s w)). apply all_children_ok; [apply I_pc_pc_down, HWF | apply HWF].
Qed.

(* ================================================================== *)
(** * 6. the boolean oracle is sound *)

Lemma nlist_eqb_eq a b : nlist_eqb a b = true -> a = b.
Proof. apply (list_eqb_spec Nat.eqb Nat.eqb_eq). Qed.
Lemma zlist_eqb_eq a b : zlist_eqb a b = true -> a = b.
Proof. apply (list_eqb_spec Z.eqb Z.eqb_eq). Qed.
Lemma zopt_eqb_eq a b : zopt_eqb a b = true -> a = b.
Proof. apply (opt_eqb_spec Z.eqb Z.eqb_eq). Qed.
Lemma isnil_eq l : isnil l = true -> l = [].
Proof. destruct l; [reflexivity | discriminate]. Qed.
Lemma beqb_memn y l1 z l2 : Bool.eqb (memn y l1) (memn z l2) = true -> (In y l1 <-> In z l2).
Proof. intro H. apply eqb_prop in H. rewrite <- !memn_In, H. reflexivity. Qed.
Lemma subset_incl a b : subset a b = true -> incl a b.
Proof. unfold subset. rewrite forallb_forall. intros H x Hx. apply memn_In, H, Hx. Qed.

Lemma ext_b_sound new a b : ext_b new a b = true -> exists e, b = a ++ e /\ incl e new.
Proof.
  unfold ext_b. intro H. apply andb_true_iff in H as [H1 H2]. apply nlist_eqb_eq in H1.
  exists (skipn (length a) b). split; [|apply subset_incl; exact H2].
  rewrite <- H1 at 1. symmetry. apply firstn_skipn.
Qed.

Lemma ctask_eqb_eq A B : ctask_eqb A B = true -> A = B.
Proof.
  unfold ctask_eqb. intro H. repeat (apply andb_true_iff in H as [H ?]).
  destruct A, B; simpl in *.
  repeat match goal with
         | X : Z.eqb _ _ = true |- _ => apply Z.eqb_eq in X
         | X : onat_eqb _ _ = true |- _ => apply onat_eqb_eq in X
         | X : nlist_eqb _ _ = true |- _ => apply nlist_eqb_eq in X
         | X : zopt_eqb _ _ = true |- _ => apply zopt_eqb_eq in X
         | X : zlist_eqb _ _ = true |- _ => apply zlist_eqb_eq in X
         | X : Bool.eqb _ _ = true |- _ => apply eqb_prop in X
         end.
  subst. reflexivity.
Qed.

Ltac reflect_all :=
  repeat match goal with
         | X : _ && _ = true |- _ => apply andb_true_iff in X; destruct X
         | X : Z.eqb _ _ = true |- _ => apply Z.eqb_eq in X
         | X : Nat.eqb _ _ = true |- _ => apply Nat.eqb_eq in X
         | X : Nat.leb _ _ = true |- _ => apply Nat.leb_le in X
         | X : Nat.ltb _ _ = true |- _ => apply Nat.ltb_lt in X
         | X : onat_eqb _ _ = true |- _ => apply onat_eqb_eq in X
         | X : nlist_eqb _ _ = true |- _ => apply nlist_eqb_eq in X
         | X : zopt_eqb _ _ = true |- _ => apply zopt_eqb_eq in X
         | X : zlist_eqb _ _ = true |- _ => apply zlist_eqb_eq in X
         | X : isnil _ = true |- _ => apply isnil_eq in X
         | X : nodupb Nat.eqb _ = true |- _ => apply nodupb_nat in X
         | X : negb _ = true |- _ => apply negb_true_iff in X
         end.

Section Sound.
Variables (s : state) (w : wid) (roots mem : list obj) (s' : state) (w' : wid) (new : list obj).

Lemma sp_wbs_b_sound : sp_wbs_b s s' w' = true -> sp_wbs s s' w'.
Proof.
  unfold sp_wbs_b, sp_wbs. cbv zeta. intro H. reflect_all. repeat split; assumption.
Qed.

Lemma sp_bij_b_sound : sp_bij_b s mem s' w' new = true -> sp_bij s mem s' w' new.
Proof.
  unfold sp_bij_b, sp_bij. cbv zeta. intro H. reflect_all.
  split; [assumption|]. split; [assumption|]. split; [|split; [|assumption]].
  - intros x' Hx'. match goal with X : forallb _ new = true |- _ => rewrite forallb_forall in X; specialize (X x' Hx') end.
    reflect_all. match goal with X : Nat.eqb _ _ = false |- _ => apply Nat.eqb_neq in X end. auto.
  - intros x y Hx Hy E.
    match goal with X : forallb _ mem = true |- _ => rewrite forallb_forall in X; specialize (X x Hx);
                                                      rewrite forallb_forall in X; specialize (X y Hy) end.
    match goal with X : _ || _ = true |- _ => apply orb_true_iff in X; destruct X as [X|X];
      [apply negb_true_iff, Nat.eqb_neq in X; contradiction | apply Nat.eqb_eq; exact X] end.
Qed.

Lemma sp_fields_b_sound : sp_fields_b s mem s' w' new = true -> sp_fields s mem s' w' new.
Proof.
  unfold sp_fields_b, sp_fields. cbv zeta. intro H. rewrite forallb_forall in H. intros x Hx.
  specialize (H x Hx). unfold fields_eqb in H. reflect_all. unfold same_fields. auto.
Qed.

Lemma sp_tree_b_sound : sp_tree_b s roots mem s' w' new = true -> sp_tree s roots mem s' w' new.
Proof.
  unfold sp_tree_b, sp_tree. cbv zeta. intro H. reflect_all. split; [assumption|].
  intros x Hx. match goal with X : forallb _ mem = true |- _ => rewrite forallb_forall in X; specialize (X x Hx) end.
  reflect_all. auto.
Qed.

Lemma sp_links_b_sound : sp_links_b s mem s' new = true -> sp_links s mem s' new.
Proof.
  unfold sp_links_b, sp_links. cbv zeta. intro H. rewrite forallb_forall in H. intros x Hx.
  specialize (H x Hx). reflect_all.
  match goal with X : forallb _ mem = true |- _ => rewrite forallb_forall in X; rename X into HF end.
  split; [assumption|]. split; [assumption|].
  split; intros y Hy; specialize (HF y Hy); apply andb_true_iff in HF as [F1 F2];
    [apply beqb_memn; exact F1 | apply beqb_memn; exact F2].
Qed.

Lemma sp_outside_b_sound : sp_outside_b s w mem s' new = true -> sp_outside s w mem s' new.
Proof.
  unfold sp_outside_b, sp_outside. cbv zeta. intro H. rewrite forallb_forall in H. intros x Hx.
  specialize (H x Hx). apply andb_true_iff in H as [H1 H2]. rewrite forallb_forall in H1, H2. split.
  - intros z Hz. specialize (H1 z Hz). apply orb_true_iff in H1 as [H1|H1].
    + left. apply memn_In. exact H1.
    + right. reflect_all. auto.
  - intros z Hz Hw Hm. specialize (H2 z (proj2 (In_objs _ z) Hz)). rewrite Hw in H2. simpl in H2.
    apply memn_false in Hm. rewrite Hm in H2. simpl in H2. apply andb_true_iff in H2 as [F1 F2].
    split; apply beqb_memn; assumption.
Qed.

Lemma sp_source_b_sound : sp_source_b s w s' new = true -> sp_source s w s' new.
Proof.
  unfold sp_source_b, sp_source. cbv zeta. intro H. apply andb_true_iff in H as [H0 H]. apply Nat.leb_le in H0.
  split; [exact H0|]. rewrite forallb_forall in H. intros y Hy. specialize (H y (proj2 (In_objs _ y) Hy)).
  repeat (apply andb_true_iff in H as [H ?]).
  repeat match goal with
         | X : Z.eqb _ _ = true |- _ => apply Z.eqb_eq in X
         | X : onat_eqb _ _ = true |- _ => apply onat_eqb_eq in X
         | X : nlist_eqb _ _ = true |- _ => apply nlist_eqb_eq in X
         | X : zopt_eqb _ _ = true |- _ => apply zopt_eqb_eq in X
         | X : zlist_eqb _ _ = true |- _ => apply zlist_eqb_eq in X
         | X : Bool.eqb _ _ = true |- _ => apply eqb_prop in X
         | X : ext_b _ _ _ = true |- _ => apply ext_b_sound in X
         end.
  repeat (split; [assumption|]).
  intro Hw. match goal with X : negb _ || _ = true |- _ => rewrite Hw in X; simpl in X; apply ctask_eqb_eq in X; exact X end.
Qed.

Theorem clone_spec_b_sound :
  clone_spec_b s w roots mem s' w' new = true -> CloneSpec s w roots mem s' w' new.
Proof.
  unfold clone_spec_b, CloneSpec. intro H. do 6 (apply andb_true_iff in H as [H ?]).
  split; [apply sp_wbs_b_sound; assumption|]. split; [apply sp_bij_b_sound; assumption|].
  split; [apply sp_fields_b_sound; assumption|]. split; [apply sp_tree_b_sound; assumption|].
  split; [apply sp_links_b_sound; assumption|]. split; [apply sp_outside_b_sound; assumption|].
  apply sp_source_b_sound; assumption.
Qed.

Lemma clone_spec_code_0 : clone_spec_code s w roots mem s' w' new = 0 -> clone_spec_b s w roots mem s' w' new = true.
Proof.
  unfold clone_spec_code, clone_spec_b.
  destruct (sp_wbs_b s s' w'); [|discriminate]. destruct (sp_bij_b s mem s' w' new); [|discriminate].
  destruct (sp_fields_b s mem s' w' new); [|discriminate]. destruct (sp_tree_b s roots mem s' w' new); [|discriminate].
  destruct (sp_links_b s mem s' new); [|discriminate]. destruct (sp_outside_b s w mem s' new); [|discriminate].
  destruct (sp_source_b s w s' new); [reflexivity | discriminate].
Qed.
End Sound.

(* ================================================================== *)
(** * 7. the statements of Props/Props_C10.v *)

Lemma c10_faithful s w sel : WF s -> sel_ok s w sel ->
  let s' := fst (clone_sel s w sel) in let w' := snd (clone_sel s w sel) in
  exists mem new,
    members (hp s) sel = Some mem /\ wbs_tasks s' w' = Ok new /\
    sp_wbs s s' w' /\ sp_bij s mem s' w' new /\ sp_fields s mem s' w' new /\
    sp_tree s (sel_roots (hp s) sel) mem s' w' new /\ sp_links s mem s' new.
Proof.
  intros HWF Hsel. destruct (clone_sel_spec s w sel HWF Hsel) as [mem [new [H1 [H2 H3]]]].
  cbv zeta. exists mem, new. destruct H3 as (A & B & C & D & E & _). auto 10.
Qed.

Lemma c10_source s w sel : WF s -> sel_ok s w sel ->
  let s' := fst (clone_sel s w sel) in let w' := snd (clone_sel s w sel) in
  exists mem new,
    members (hp s) sel = Some mem /\ wbs_tasks s' w' = Ok new /\ sp_source s w s' new /\
    (forall x, In x mem -> get (hp s') x = get (hp s) x) /\
    get (hp s') (wroot s w) = get (hp s) (wroot s w).
Proof.
  intros HWF Hsel. destruct (clone_sel_spec s w sel HWF Hsel) as [mem [new [H1 [H2 H3]]]].
  cbv zeta. exists mem, new. destruct H3 as (_ & _ & _ & _ & _ & _ & G).
  split; [exact H1|]. split; [exact H2|]. split; [exact G|].
  rewrite (members_eq s sel HWF) in H1. inversion H1; subst mem. destruct G as [_ G]. split.
  - intros x Hx. destruct (mem_facts s w sel HWF Hsel x Hx) as (Hlt & Ho & _).
    apply (G x Hlt). unfold in_wbs. rewrite Ho. apply onat_eqb_refl.
  - destruct (R_facts s w sel HWF Hsel) as (Hw & Ho & _).
    assert (Hlt : wroot s w < length (hp s)).
    { destruct HWF as (Hfin & _). destruct Hfin as [_ Hr]. apply Hr. apply nth_In. exact Hw. }
    apply (G _ Hlt). unfold in_wbs. rewrite Ho. apply onat_eqb_refl.
Qed.

Lemma c10_disjoint s w sel : WF s -> sel_ok s w sel ->
  let s' := fst (clone_sel s w sel) in let w' := snd (clone_sel s w sel) in
  exists new, wbs_tasks s' w' = Ok new /\ NoDup new /\
    (forall x', In x' new -> length (hp s) <= x' /\ length (hp s) <= wroot s' w' /\ x' <> wroot s' w') /\
    (forall l x, wbs_tasks s w = Ok l -> In x l -> x < length (hp s) /\ ~ In x new) /\
    w' = length (wroots s) /\ w' <> w.
Proof.
  intros HWF Hsel. destruct (clone_sel_spec s w sel HWF Hsel) as [mem [new [H1 [H2 H3]]]].
  cbv zeta. exists new. destruct H3 as (A & B & _). split; [exact H2|].
  destruct B as (_ & Nn & Hfresh & _). destruct A as (Hw' & _ & HR & _).
  split; [exact Nn|]. split.
  - intros x' Hx'. destruct (Hfresh x' Hx') as (F1 & _ & F3). auto.
  - split.
    + intros l x Hl Hx. unfold wbs_tasks in Hl. apply all_children_Ok_desc in Hl. subst l.
      assert (Hlt : x < length (hp s)) by (eapply desc_lt; [apply I_pc_pc_down, HWF | apply HWF | exact Hx]).
      split; [exact Hlt|]. intro Hn. destruct (Hfresh x Hn) as (F1 & _). lia.
    + split; [exact Hw'|]. destruct Hsel as [Hw _]. lia.
Qed.

Lemma c10_subtree s w sel : WF s -> sel_ok s w sel ->
  let s' := fst (clone_sel s w sel) in let w' := snd (clone_sel s w sel) in
  exists mem new,
    members (hp s) sel = Some mem /\ wbs_tasks s' w' = Ok new /\
    sp_outside s w mem s' new /\
    NoDup mem /\
    (forall x, In x mem <-> exists r, In r (sel_roots (hp s) sel) /\ (x = r \/ Anc (hp s) x r)) /\
    (forall r, In r (sel_roots (hp s) sel) <-> In r sel /\ forall a, Anc (hp s) r a -> ~ In a sel) /\
    NoDup (sel_roots (hp s) sel) /\
    (forall x, In x mem -> x < length (hp s) /\ own (get (hp s) x) = Some w /\ hidden (get (hp s) x) = false) /\
    (forall x p, In x mem -> par (get (hp s) x) = Some p -> (In p mem <-> ~ In x (sel_roots (hp s) sel))).
Proof.
  intros HWF Hsel. destruct (clone_sel_spec s w sel HWF Hsel) as [mem [new [H1 [H2 H3]]]].
  cbv zeta. exists mem, new. destruct H3 as (_ & _ & _ & _ & _ & F & _).
  split; [exact H1|]. split; [exact H2|]. split; [exact F|].
  apply (members_spec s w sel mem HWF Hsel H1).
Qed.

Lemma clone_defined_wf s sel : WF s -> clone_defined s sel = true.
Proof. intro HWF. unfold clone_defined. rewrite (members_eq s sel HWF). reflexivity. Qed.
