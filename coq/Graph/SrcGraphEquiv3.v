(* Source-text tie, third tranche: the heap-WRITING functions that gen/SrcGraph.v translates from the current text of
   src/pjplan/task.py - Task._attach, Task._detach and the setter of Task.parent - against the hand-written model
   of Graph/Model.v (set_own_all over subtree, set_parent = guard + write).

   The code walks DOWN the children lists and writes as it goes (after having written the new raw parent); the model
   computes the subtree by walking UP on the heap before the writes and writes the owner in one sweep.  Heaps are
   lists of records: the final heaps are EQUAL (not only extensionally). *)
From PJ Require Import Base.Prelude Graph.Model Graph.Invariant gen.SrcGraph Graph.SrcGraphEquiv Graph.SrcGraphEquiv2
                       Graph.AncLemmas Graph.AncLemmas2 Graph.OracleProofs Graph.ParentProofs.
Local Open Scope nat_scope.

Definition lift_set (s : state) (r : state * outcome) : res (heap * unit) :=
  match snd r with Ok _ => Ok (hp (fst r), tt) | Err => Err | Crash k => Crash k end.

(* ================================================================== *)
(** * heaps are lists: pointwise equal records and the same length give the same heap *)

Lemma heap_ext (h1 h2 : heap) : length h1 = length h2 -> (forall x, get h1 x = get h2 x) -> h1 = h2.
Proof.
  intros L G. apply (nth_ext h1 h2 dflt dflt L). intros n _. apply G.
Qed.

(* the owner sweep depends only on WHICH allocated objects are listed, not on their order or multiplicity *)
Lemma set_own_all_ext h xs ys w :
  (forall x, x < length h -> (In x xs <-> In x ys)) -> set_own_all h xs w = set_own_all h ys w.
Proof.
  intro H. apply heap_ext; [rewrite !length_set_own_all; reflexivity|].
  intro x. rewrite !get_set_own_all.
  destruct (Nat.ltb x (length h)) eqn:L; [|rewrite !andb_false_r; reflexivity].
  apply Nat.ltb_lt in L. rewrite !andb_true_r.
  assert (E : memn x xs = memn x ys).
  { apply eq_true_iff_eq. rewrite !memn_In. apply H. exact L. }
  rewrite E. reflexivity.
Qed.

Lemma set_own_all_app h xs ys w : set_own_all h (xs ++ ys) w = set_own_all (set_own_all h xs w) ys w.
Proof. unfold set_own_all. apply fold_left_app. Qed.

Lemma kids_set_own_all h xs w y : kids (get (set_own_all h xs w) y) = kids (get h y).
Proof. apply proj_get_set_own_all. reflexivity. Qed.

Lemma kids_upd_own h x w y : kids (get (upd h x (with_own w)) y) = kids (get h y).
Proof. apply proj_get_upd. reflexivity. Qed.

(* ================================================================== *)
(** * Task._attach: the walk down writes the owner of [self] and of every task the preorder walk [pref] visits *)

(* the loop over the children: [F] is one recursive call, [g] the preorder walk with the fuel of that call; the
   children lists the walk reads ([h0]) are those of the heap being written ([h]) *)
Lemma attach_fold (F : heap -> obj -> res heap) (g : obj -> option (list obj)) (w : option wid) (h0 : heap) :
  (forall c lc h, g c = Some lc -> (forall y, In y (c :: lc) -> kids (get h y) = kids (get h0 y)) ->
                  F h c = Ok (set_own_all h (c :: lc) w)) ->
  forall cs l, pref_list g cs = Some l -> forall h, (forall y, In y l -> kids (get h y) = kids (get h0 y)) ->
  src_fold_res F cs h = Ok (set_own_all h l w).
Proof.
  intros HF cs. induction cs as [|c cs IH]; intros l Hl h Hk.
  - inversion Hl; subst l. reflexivity.
  - rewrite pref_list_cons in Hl. destruct (g c) as [lc|] eqn:Ec; [|discriminate].
    destruct (pref_list g cs) as [a|] eqn:Ea; [|discriminate]. inversion Hl; subst l. clear Hl.
    cbn [src_fold_res]. rewrite (HF c lc h Ec).
    2:{ intros y Hy. apply Hk. change (c :: lc ++ a) with ((c :: lc) ++ a). apply in_or_app. left. exact Hy. }
    cbn [bind]. rewrite (IH a eq_refl).
    2:{ intros y Hy. rewrite kids_set_own_all. apply Hk. right. apply in_or_app. right. exact Hy. }
    change (c :: lc ++ a) with ((c :: lc) ++ a). rewrite set_own_all_app. reflexivity.
Qed.

Theorem src_attach_walk (w : wid) (h0 : heap) : forall n t l, pref n h0 t = Some l ->
  forall h, (forall y, In y (t :: l) -> kids (get h y) = kids (get h0 y)) ->
  src_attach (S n) h t (Some w) = Ok (set_own_all h (t :: l) (Some w), tt).
Proof.
  induction n as [|n IH]; intros t l Hl h Hk.
  - rewrite pref_O in Hl. destruct (kids (get h0 t)) eqn:Ek; [|discriminate]. inversion Hl; subst l.
    cbn [src_attach]. rewrite kids_upd_own, (Hk t (or_introl eq_refl)), Ek. reflexivity.
  - rewrite pref_S in Hl. remember (S n) as m eqn:Em. cbn [src_attach]. subst m.
    rewrite kids_upd_own, (Hk t (or_introl eq_refl)).
    rewrite (attach_fold _ (pref n h0) (Some w) h0) with (l := l).
    + reflexivity.
    + intros c lc h' Ec Hk'. rewrite (IH c lc Ec h' Hk'). reflexivity.
    + exact Hl.
    + intros y Hy. rewrite kids_upd_own. apply Hk. right. exact Hy.
Qed.

(* _attach(None) returns at once *)
Lemma src_attach_None n h t : src_attach (S n) h t None = Ok (h, tt).
Proof. reflexivity. Qed.

(* the tasks the walk down visits are the allocated members of the subtree the model computes by walking up *)
Lemma desc_subtree_same h t : pc_down h -> pc_up h -> acyclic h ->
  forall x, In x (t :: desc h t) <-> Sub h t x.
Proof.
  intros Hd Hu Hacy x. cbn [In]. rewrite (In_desc h t x Hd Hu Hacy). unfold Sub.
  split; (intros [E|A]; [left; symmetry; exact E | right; exact A]).
Qed.

(* the general form used by the setter: the heap being written ([h2]) has the children lists of [h] on the
   subtree of [t] (the setter has already rewritten the raw parent of [t] and the list of its old parent) *)
Theorem src_attach_on : forall h h2 t w n, pc_down h -> pc_up h -> acyclic h ->
  length h <= n -> length h2 = length h ->
  (forall y, Sub h t y -> kids (get h2 y) = kids (get h y)) ->
  src_attach (S n) h2 t (Some w) = Ok (set_own_all h2 (subtree h t) (Some w), tt).
Proof.
  intros h h2 t w n Hd Hu Hacy Hn L2 Hk.
  rewrite (src_attach_walk w h n t (desc h t)).
  - f_equal. f_equal. apply set_own_all_ext. intros x Lx.
    rewrite (desc_subtree_same h t Hd Hu Hacy), (In_subtree h t x Hacy). rewrite L2 in Lx. tauto.
  - apply (pref_mono (length h)); [apply pref_length_desc; assumption | exact Hn].
  - intros y Hy. apply Hk. apply (desc_subtree_same h t Hd Hu Hacy). exact Hy.
Qed.

Theorem src_attach_fuel : forall h t w n, pc_down h -> pc_up h -> acyclic h -> length h <= n ->
  src_attach (S n) h t (Some w) = Ok (set_own_all h (subtree h t) (Some w), tt).
Proof. intros h t w n Hd Hu Hacy Hn. apply src_attach_on; auto. Qed.

(* _attach: the owner of the whole subtree, in every well-formed state (for every [t], allocated or not) *)
Theorem src_attach_eq : forall s t w, WF s ->
  src_attach (S (length (hp s))) (hp s) t (Some w) = Ok (set_own_all (hp s) (subtree (hp s) t) (Some w), tt).
Proof.
  intros s t w (_ & Pc & Acy & _).
  apply src_attach_fuel; [apply I_pc_pc_down | apply I_pc_pc_up | apply I_acy_acyclic | apply le_n]; assumption.
Qed.

(* on a cycle of children lists the code recurses until the interpreter gives up; the model's sweep is total *)
Example src_attach_needs_acyclic :
  let h := [mkT 1 (Some 0) [0] [] [] None false None [] None] in
  src_attach (S (length h)) h 0 (Some 0) = Crash RecursionError.
Proof. reflexivity. Qed.

(* ================================================================== *)
(** * the setter of Task.parent, cut into the pieces of the model: two guards and the writes *)

Definition src_guard1 (fuel : nat) (h : heap) (t : obj) (p : option obj) : res unit :=
  match own (get h t) with
  | None =>
      match p with
      | None => Ok tt
      | Some p' =>
          do r <- src_parent h t;
          match r with
          | None => do b <- src_has_id_intersection fuel h p' [t]; if b then Err else Ok tt
          | Some x => if negb (Nat.eqb x p')
                      then (do b <- src_has_id_intersection fuel h p' [t]; if b then Err else Ok tt)
                      else Ok tt
          end
      end
  | Some w =>
      match p with
      | None => Ok tt
      | Some p' => if negb (onat_eqb (own (get h p')) (Some w)) then Err else Ok tt
      end
  end.

Definition src_guard2 (fuel : nat) (h : heap) (t : obj) (p : option obj) : res unit :=
  match p with
  | None => Ok tt
  | Some p' =>
      do r <- src_all_children fuel h t;
      if existsb (Nat.eqb p') r then Err else src_check_no_links_with fuel h t p'
  end.

Definition src_write (fuel : nat) (wr : list obj) (h : heap) (t : obj) (p : option obj) : res (heap * unit) :=
  let p5 := match p with
            | None => match own (get h t) with None => None | Some w => Some (nth w wr O) end
            | Some p' => Some p'
            end in
  let h7 := detach_from_parent h t in
  match p5 with
  | None => Ok (upd h7 t (with_par None), tt)
  | Some p' =>
      let h10 := upd h7 t (with_par (Some p')) in
      do '(h11, _) <- src_attach fuel h10 t (own (get h10 p'));
      if memn t (kids (get h11 p')) then Ok (h11, tt)
      else Ok (upd h11 p' (fun T_ => with_kids (kids T_ ++ [t]) T_), tt)
  end.

Lemma bind_unit (r : res unit) : (do _ <- r; Ok tt) = r.
Proof. destruct r as [[]| |k]; reflexivity. Qed.

(* the generated text, read as guard ; guard ; writes (pure reshuffling of the join points) *)
Lemma src_set_parent_parts fuel wr h t p :
  src_set_parent fuel wr h t p
  = if onat_eqb p (Some t) then Err
    else do _ <- src_guard1 fuel h t p; do _ <- src_guard2 fuel h t p; src_write fuel wr h t p.
Proof.
  unfold src_set_parent, src_guard1, src_guard2, src_write, detach_from_parent, memn. cbv zeta beta.
  destruct (onat_eqb p (Some t)); [reflexivity|].
  destruct (own (get h t)) as [w|], p as [p'|]; cbn [bind].
  - destruct (negb (onat_eqb (own (get h p')) (Some w))); cbn [bind]; [reflexivity|].
    destruct (src_all_children fuel h t) as [r| |?]; cbn [bind]; try reflexivity.
    destruct (existsb (Nat.eqb p') r); [reflexivity|].
    destruct (src_check_no_links_with fuel h t p') as [[]| |?]; cbn [bind]; try reflexivity.
    destruct (par (get h t)) as [q|]; [|reflexivity].
    destruct (existsb (Nat.eqb t) (kids (get h q))); reflexivity.
  - destruct (par (get h t)) as [q|]; [|reflexivity].
    destruct (existsb (Nat.eqb t) (kids (get h q))); reflexivity.
  - destruct (src_parent h t) as [[x|]| |?]; cbn [bind]; try reflexivity;
      [destruct (negb (Nat.eqb x p'))|];
      try (match goal with |- context [src_has_id_intersection] => idtac end;
           destruct (src_has_id_intersection fuel h p' [t]) as [[|]| |?]; cbn [bind]; try reflexivity);
      (destruct (src_all_children fuel h t) as [r| |?]; cbn [bind]; try reflexivity;
       destruct (existsb (Nat.eqb p') r); [reflexivity|];
       destruct (src_check_no_links_with fuel h t p') as [[]| |?]; cbn [bind]; try reflexivity;
       destruct (par (get h t)) as [q|]; [|reflexivity];
       destruct (existsb (Nat.eqb t) (kids (get h q))); reflexivity).
  - destruct (par (get h t)) as [q|]; [|reflexivity].
    destruct (existsb (Nat.eqb t) (kids (get h q))); reflexivity.
Qed.

(* ---- the model's guard, cut the same way ---- *)
Definition mod_guard1 (h : heap) (t : obj) (p : option obj) : outcome :=
  match own (get h t), p with
  | None, Some p' =>
      if onat_eqb (pubpar h t) (Some p') then OK
      else do b <- id_clash h p' [t]; failif b Err
  | Some w, Some p' => failif (negb (onat_eqb (own (get h p')) (Some w))) Err
  | _, None => OK
  end.

Definition mod_guard2 (h : heap) (t : obj) (p : option obj) : outcome :=
  match p with
  | None => OK
  | Some p' =>
      do a <- anc h p';
      do _ <- failif (memn t a) Err;
      failif (links_bad h t (p' :: a)) Err
  end.

Lemma set_parent_guard_parts s t p :
  set_parent_guard s t p
  = if onat_eqb p (Some t) then Err
    else do _ <- mod_guard1 (hp s) t p; mod_guard2 (hp s) t p.
Proof.
  unfold set_parent_guard, mod_guard1, mod_guard2. cbv zeta.
  destruct (onat_eqb p (Some t)); reflexivity.
Qed.

(* first guard: the WBS of the new parent / the ids of the two trees *)
Lemma src_guard1_eq s (t : obj) (p : option obj) F : WF s -> hid_tid (hp s) -> t < length (hp s) ->
  (forall p', p = Some p' -> p' < length (hp s)) -> length (hp s) < F ->
  src_guard1 F (hp s) t p = mod_guard1 (hp s) t p.
Proof.
  intros W Hh Lt Lp HF. unfold src_guard1, mod_guard1.
  destruct (own (get (hp s) t)) as [w|], p as [p'|]; try reflexivity.
  rewrite (src_parent_eq _ _ Hh). cbn [bind].
  assert (X : src_has_id_intersection F (hp s) p' [t] = id_clash (hp s) p' [t]).
  { apply (src_has_id_intersection_fuel s p' [t] F W (Lp p' eq_refl)); [intros c [<-|[]]; exact Lt | exact HF]. }
  unfold obj in *. rewrite X. clear X.
  destruct (pubpar (hp s) t) as [x|]; [|reflexivity].
  change (onat_eqb (Some x) (Some p')) with (Nat.eqb x p').
  destruct (Nat.eqb x p'); reflexivity.
Qed.

(* second guard: the new parent is not below [t], and nobody of the subtree is linked with the new ancestors *)
Lemma src_guard2_eq s t p F : WF s -> hid_tid (hp s) -> length (hp s) < F ->
  src_guard2 F (hp s) t p = mod_guard2 (hp s) t p.
Proof.
  intros W Hh HF. unfold src_guard2, mod_guard2. destruct p as [p'|]; [|reflexivity].
  pose proof W as (_ & Pc & Acy & _).
  pose proof (I_pc_pc_down s Pc) as Hd. pose proof (I_pc_pc_up s Pc) as Hu.
  assert (Hacy : acyclic (hp s)) by exact Acy.
  destruct (anc_ok (hp s) p' Hacy) as [a [Ha _]]. rewrite Ha. cbn [bind].
  destruct F as [|f]; [lia|].
  unfold src_all_children. rewrite bind_ret, src_get_children_eq.
  rewrite (pref_mono _ f _ _ _ (pref_length_desc (hp s) t Hd Hacy)) by lia. cbn [lift_walk bind].
  rewrite (src_check_no_links_with_fuel s t p' a (S f) W Hh Ha HF).
  assert (E : existsb (Nat.eqb p') (desc (hp s) t) = memn t a).
  { apply eq_true_iff_eq. change (existsb (Nat.eqb p') (desc (hp s) t)) with (memn p' (desc (hp s) t)).
    rewrite !memn_In, (In_desc (hp s) t p' Hd Hu Hacy), (anc_Ok_In _ _ _ Ha). reflexivity. }
  rewrite E. destruct (memn t a); reflexivity.
Qed.

(* the writes: the same heap, record by record *)
Lemma src_write_eq s t p F : WF s -> length (hp s) < F ->
  src_write F (wroots s) (hp s) t p = Ok (hp (set_parent_write s t p), tt).
Proof.
  intros (_ & Pc & Acy & _) HF.
  pose proof (I_pc_pc_down s Pc) as Hd. pose proof (I_pc_pc_up s Pc) as Hu.
  pose proof (I_pc_kids_nodup s Pc) as Hnd.
  assert (Hacy : acyclic (hp s)) by exact Acy.
  unfold src_write, set_parent_write. cbv zeta.
  set (h := hp s) in *.
  assert (E5 : match p with
               | Some p' => Some p'
               | None => match own (get h t) with Some w => Some (nth w (wroots s) 0) | None => None end
               end
             = match p, own (get h t) with None, Some w => Some (nth w (wroots s) 0) | _, _ => p end).
  { destruct p; [reflexivity|]. destruct (own (get h t)); reflexivity. }
  rewrite E5. clear E5.
  destruct (match p, own (get h t) with None, Some w => Some (nth w (wroots s) 0) | _, _ => p end) as [p'|];
    [|reflexivity].
  set (h2 := upd (detach_from_parent h t) t (with_par (Some p'))).
  destruct F as [|f]; [lia|].
  destruct (own (get h2 p')) as [w|].
  - rewrite (src_attach_on h h2 t w f Hd Hu Hacy).
    + cbn [bind hp]. destruct (memn t (kids (get (set_own_all h2 (subtree h t) (Some w)) p'))); reflexivity.
    + lia.
    + unfold h2. rewrite length_upd. apply length_detach.
    + intros y Sy. unfold h2. rewrite (proj_get_upd kids) by reflexivity.
      rewrite (get_detach h t Hu Hd Hnd). cbn [kids with_kids]. apply without_notin.
      intro Hin. apply Hd in Hin. apply (Hacy t).
      destruct Sy as [->|A]; [apply Anc_par; exact Hin | eapply Anc_trans; [apply Anc_par; exact Hin | exact A]].
  - rewrite src_attach_None. cbn [bind hp]. destruct (memn t (kids (get h2 p'))); reflexivity.
Qed.

(* ================================================================== *)
(** * the setter: same outcome class, and on acceptance the same heap *)

Theorem src_set_parent_fuel : forall s (t : obj) (p : option obj) F, WF s -> hid_tid (hp s) -> t < length (hp s) ->
  (forall p', p = Some p' -> p' < length (hp s)) -> length (hp s) < F ->
  src_set_parent F (wroots s) (hp s) t p = lift_set s (set_parent s t p).
Proof.
  intros s t p F W Hh Lt Lp HF.
  rewrite src_set_parent_parts. unfold set_parent, lift_set. rewrite set_parent_guard_parts.
  destruct (onat_eqb p (Some t)); [reflexivity|].
  rewrite (src_guard1_eq s t p F W Hh Lt Lp HF), (src_guard2_eq s t p F W Hh HF), (src_write_eq s t p F W HF).
  destruct (mod_guard1 (hp s) t p) as [[]| |k]; cbn [bind mk snd fst]; try reflexivity.
  destruct (mod_guard2 (hp s) t p) as [[]| |k]; cbn [bind mk snd fst]; reflexivity.
Qed.

Theorem src_set_parent_eq : forall s (t : obj) (p : option obj), WF s -> hid_tid (hp s) -> t < length (hp s) ->
  (forall p', p = Some p' -> p' < length (hp s)) ->
  src_set_parent (S (S (length (hp s)))) (wroots s) (hp s) t p = lift_set s (set_parent s t p).
Proof. intros. apply src_set_parent_fuel; auto. Qed.

(* ================================================================== *)
(** * Task._detach: the walk down stops at a task without owner; where every task of the subtree has an owner
      (that is what I_own says of the subtree of an owned task) it erases the owner of the whole subtree *)

Lemma detach_fold (F : heap -> obj -> res heap) (g : obj -> option (list obj)) (h0 : heap) :
  (forall c lc h, g c = Some lc -> NoDup (c :: lc) ->
                  (forall y, In y (c :: lc) -> kids (get h y) = kids (get h0 y)) ->
                  (forall y, In y (c :: lc) -> own (get h y) <> None) ->
                  F h c = Ok (set_own_all h (c :: lc) None)) ->
  forall cs l, pref_list g cs = Some l -> NoDup l ->
  forall h, (forall y, In y l -> kids (get h y) = kids (get h0 y)) ->
            (forall y, In y l -> own (get h y) <> None) ->
  src_fold_res F cs h = Ok (set_own_all h l None).
Proof.
  intros HF cs. induction cs as [|c cs IH]; intros l Hl Hnd h Hk Ho.
  - inversion Hl; subst l. reflexivity.
  - rewrite pref_list_cons in Hl. destruct (g c) as [lc|] eqn:Ec; [|discriminate].
    destruct (pref_list g cs) as [a|] eqn:Ea; [|discriminate]. inversion Hl; subst l. clear Hl.
    change (c :: lc ++ a) with ((c :: lc) ++ a) in *.
    cbn [src_fold_res]. rewrite (HF c lc h Ec).
    2:{ eapply NoDup_app_l; exact Hnd. }
    2:{ intros y Hy. apply Hk. apply in_or_app. left. exact Hy. }
    2:{ intros y Hy. apply Ho. apply in_or_app. left. exact Hy. }
    cbn [bind]. rewrite (IH a eq_refl).
    + rewrite set_own_all_app. reflexivity.
    + eapply NoDup_app_r; exact Hnd.
    + intros y Hy. rewrite kids_set_own_all. apply Hk. apply in_or_app. right. exact Hy.
    + intros y Hy. rewrite get_set_own_all_notin.
      * apply Ho. apply in_or_app. right. exact Hy.
      * intro Hy'. exact (NoDup_app_disj _ _ y Hnd Hy' Hy).
Qed.

Theorem src_detach_walk (h0 : heap) : forall n t l, pref n h0 t = Some l -> NoDup (t :: l) ->
  forall h, (forall y, In y (t :: l) -> kids (get h y) = kids (get h0 y)) ->
            (forall y, In y (t :: l) -> own (get h y) <> None) ->
  src_detach (S n) h t = Ok (set_own_all h (t :: l) None, tt).
Proof.
  induction n as [|n IH]; intros t l Hl Hnd h Hk Ho.
  - rewrite pref_O in Hl. destruct (kids (get h0 t)) eqn:Ek; [|discriminate]. inversion Hl; subst l.
    cbn [src_detach]. destruct (own (get h t)) as [x|] eqn:Eo; [|exfalso; apply (Ho t (or_introl eq_refl) Eo)].
    rewrite kids_upd_own, (Hk t (or_introl eq_refl)), Ek. reflexivity.
  - rewrite pref_S in Hl. remember (S n) as m eqn:Em. cbn [src_detach]. subst m.
    destruct (own (get h t)) as [x|] eqn:Eo; [|exfalso; apply (Ho t (or_introl eq_refl) Eo)].
    rewrite kids_upd_own, (Hk t (or_introl eq_refl)).
    rewrite (detach_fold _ (pref n h0) h0) with (l := l).
    + reflexivity.
    + intros c lc h' Ec Hnd' Hk' Ho'. rewrite (IH c lc Ec Hnd' h' Hk' Ho'). reflexivity.
    + exact Hl.
    + inversion Hnd; assumption.
    + intros y Hy. rewrite kids_upd_own. apply Hk. right. exact Hy.
    + intros y Hy. rewrite get_upd_other; [apply Ho; right; exact Hy|].
      intros ->. inversion Hnd; contradiction.
Qed.

(* erasing an owner that is not there changes nothing *)
Lemma with_own_None_id T : own T = None -> with_own None T = T.
Proof. destruct T as [a b c d e f g i j k]. cbn [own]. intros ->. reflexivity. Qed.

Lemma set_own_all_None_id h xs :
  (forall x, In x xs -> x < length h -> own (get h x) = None) -> set_own_all h xs None = h.
Proof.
  intro H. apply heap_ext; [apply length_set_own_all|]. intro x. rewrite get_set_own_all.
  destruct (memn x xs) eqn:M; [|reflexivity]. destruct (Nat.ltb x (length h)) eqn:L; [|reflexivity].
  cbn [andb]. apply with_own_None_id. apply H; [apply memn_In; exact M | apply Nat.ltb_lt; exact L].
Qed.

(* _detach in every well-formed state: the whole subtree is without owner afterwards (when [t] has no owner the
   code returns at once - and nobody below [t] has one, so the model's sweep changes nothing either) *)
Theorem src_detach_fuel : forall s t n, WF s -> length (hp s) <= n ->
  src_detach (S n) (hp s) t = Ok (set_own_all (hp s) (subtree (hp s) t) None, tt).
Proof.
  intros s t n (Fin & Pc & Acy & _ & _ & _ & _ & _ & Own) Hn.
  pose proof (I_pc_pc_down s Pc) as Hd. pose proof (I_pc_pc_up s Pc) as Hu.
  pose proof (I_pc_kids_nodup s Pc) as Hnd. pose proof (I_fin_par_fin s Fin) as Hpf.
  assert (Hacy : acyclic (hp s)) by exact Acy.
  set (h := hp s) in *.
  (* the owner of a task is the owner of every task below it *)
  assert (Hsame : forall x, x < length h -> Sub h t x -> t < length h -> own (get h x) = own (get h t)).
  { intros x Lx Sx Lt. destruct (own (get h t)) as [w|] eqn:Et.
    - destruct (proj1 (Own t w Lt) Et) as [Lw R]. apply (Own x w Lx). split; [exact Lw|].
      apply (Root_Sub _ _ _ _ Sx). exact R.
    - destruct (own (get h x)) as [w|] eqn:Ex; [|reflexivity]. exfalso.
      destruct (proj1 (Own x w Lx) Ex) as [Lw R]. apply (Root_Sub _ _ _ _ Sx) in R.
      pose proof (proj2 (Own t w Lt) (conj Lw R)) as E. fold h in E. congruence. }
  destruct (own (get h t)) as [w|] eqn:Et.
  - assert (Lt : t < length h).
    { destruct (Nat.lt_ge_cases t (length h)) as [L|L]; [exact L|]. rewrite get_out_own in Et by exact L. discriminate. }
    rewrite (src_detach_walk h n t (desc h t)).
    + f_equal. f_equal. apply set_own_all_ext. intros x Lx.
      rewrite (desc_subtree_same h t Hd Hu Hacy), (In_subtree h t x Hacy). tauto.
    + apply (pref_mono (length h)); [apply pref_length_desc; assumption | exact Hn].
    + constructor; [|apply NoDup_desc; assumption].
      intro Hin. apply (Hacy t). apply (desc_In_Anc h t t Hd Hacy Hin).
    + reflexivity.
    + intros y Hy. apply (desc_subtree_same h t Hd Hu Hacy) in Hy.
      assert (Ly : y < length h) by (destruct Hy as [->|A]; [exact Lt | eapply Anc_lt_l; exact A]).
      rewrite (Hsame y Ly Hy Lt). discriminate.
  - destruct n as [|n']; cbn [src_detach]; rewrite Et.
    all: rewrite set_own_all_None_id; [reflexivity|].
    all: intros x Hx Lx; apply (In_subtree h t x Hacy) in Hx as [_ Sx].
    all: assert (Lt : t < length h) by (destruct Sx as [->|A]; [exact Lx | eapply Anc_lt_r; [exact Hpf | exact A]]).
    all: exact (Hsame x Lx Sx Lt).
Qed.

Theorem src_detach_eq : forall s t, WF s ->
  src_detach (S (length (hp s))) (hp s) t = Ok (set_own_all (hp s) (subtree (hp s) t) None, tt).
Proof. intros s t W. apply src_detach_fuel; [exact W | apply le_n]. Qed.

(* ================================================================== *)
(** * consequences: the code never ends in an exception other than its own RuntimeError; an accepted call of the
      code leaves a well-formed graph *)

Lemma set_parent_guard_no_crash s t p k : WF s -> set_parent_guard s t p <> Crash k.
Proof.
  intros (_ & _ & Acy & _). assert (Hacy : acyclic (hp s)) by exact Acy.
  rewrite set_parent_guard_parts. destruct (onat_eqb p (Some t)); [discriminate|].
  assert (G1 : forall k', mod_guard1 (hp s) t p <> Crash k').
  { intro k'. unfold mod_guard1. destruct (own (get (hp s) t)) as [w|], p as [p'|]; try discriminate.
    - destruct (negb _); discriminate.
    - destruct (onat_eqb _ _); [discriminate|].
      destruct (id_clash_spec (hp s) p' [t] Hacy) as [r [b [_ [_ [E _]]]]]. rewrite E. destruct b; discriminate. }
  assert (G2 : mod_guard2 (hp s) t p <> Crash k).
  { unfold mod_guard2. destruct p as [p'|]; [|discriminate].
    destruct (anc_ok (hp s) p' Hacy) as [a [Ha _]]. rewrite Ha. cbn [bind].
    destruct (memn t a); cbn [failif bind]; [discriminate|]. destruct (links_bad _ _ _); discriminate. }
  destruct (mod_guard1 (hp s) t p) as [[]| |k'] eqn:E1; cbn [bind]; [exact G2 | discriminate | exfalso; exact (G1 k' eq_refl)].
Qed.

Corollary src_set_parent_no_crash : forall s (t : obj) (p : option obj) k, WF s -> hid_tid (hp s) ->
  t < length (hp s) -> (forall p', p = Some p' -> p' < length (hp s)) ->
  src_set_parent (S (S (length (hp s)))) (wroots s) (hp s) t p <> Crash k.
Proof.
  intros s t p k W Hh Lt Lp. rewrite (src_set_parent_eq s t p W Hh Lt Lp). unfold lift_set, set_parent.
  pose proof (set_parent_guard_no_crash s t p) as N.
  destruct (set_parent_guard s t p) as [[]| |k']; cbn [mk snd]; try discriminate.
  intro E. inversion E; subst k'. exact (N k W eq_refl).
Qed.

(* the code raises its RuntimeError exactly when the model's guard does, and then nothing is written (the code
   returns no heap at all: the translation threads the heap through the accepted path only) *)
Corollary src_set_parent_Err_iff : forall s (t : obj) (p : option obj), WF s -> hid_tid (hp s) ->
  t < length (hp s) -> (forall p', p = Some p' -> p' < length (hp s)) ->
  (src_set_parent (S (S (length (hp s)))) (wroots s) (hp s) t p = Err <-> set_parent_guard s t p = Err).
Proof.
  intros s t p W Hh Lt Lp. rewrite (src_set_parent_eq s t p W Hh Lt Lp). unfold lift_set, set_parent.
  destruct (set_parent_guard s t p) as [[]| |k']; cbn [mk snd]; split; intro E; try discriminate; reflexivity.
Qed.

Corollary src_set_parent_WF : forall s (t : obj) (p : option obj) h' u, WF s -> hid_tid (hp s) ->
  t < length (hp s) -> hidden (get (hp s) t) = false -> (forall p', p = Some p' -> p' < length (hp s)) ->
  src_set_parent (S (S (length (hp s)))) (wroots s) (hp s) t p = Ok (h', u) ->
  WF (mkS h' (wroots s)).
Proof.
  intros s t p h' u W Hh Lt Hth Lp. rewrite (src_set_parent_eq s t p W Hh Lt Lp). unfold lift_set.
  pose proof W as (Fin & Pc & _).
  assert (WF' : WF (fst (set_parent s t p))).
  { apply set_parent_WF; [exact W | split; assumption |].
    destruct p as [p'|]; [right; exists p'; split; [reflexivity | apply Lp; reflexivity] | left; reflexivity]. }
  destruct (set_parent_shape s t p Fin Pc Lt Lp) as (_ & Ew & _). cbv zeta in Ew.
  destruct (snd (set_parent s t p)) as [[]| |k']; try discriminate.
  intro E. inversion E; subst h'. rewrite <- Ew. destruct (fst (set_parent s t p)); exact WF'.
Qed.

(* ================================================================== *)
(** * every hypothesis is needed *)

(* [t] outside the heap: the code reads a pristine task of id 0 (clash with the task of id 0), the model's
   enumeration of the objects does not see it *)
Example src_set_parent_needs_t_in_heap :
  let s := mkS [mkT 0 None [] [] [] None false None [] None] [] in
  WF s /\ hid_tid (hp s) /\
  src_set_parent (S (S (length (hp s)))) (wroots s) (hp s) 1 (Some 0) = Err /\
  snd (set_parent s 1 (Some 0)) = OK.
Proof.
  cbv zeta. split; [apply wf_b_WF; reflexivity|]. split; [intros [|[|q]]; reflexivity|]. split; reflexivity.
Qed.

(* the new parent outside the heap: the same, the other way round *)
Example src_set_parent_needs_p_in_heap :
  let s := mkS [mkT 0 None [] [] [] None false None [] None] [] in
  WF s /\ hid_tid (hp s) /\
  src_set_parent (S (S (length (hp s)))) (wroots s) (hp s) 0 (Some 1) = Err /\
  snd (set_parent s 0 (Some 1)) = OK.
Proof.
  cbv zeta. split; [apply wf_b_WF; reflexivity|]. split; [intros [|[|q]]; reflexivity|]. split; reflexivity.
Qed.

(* hid_tid: a visible task that carries the id of the hidden root (task 1 here) ends the code's walk over the
   parents of the new parent 2, so the link between 3 and the ancestor 0 of 2 goes unnoticed; the model walks the raw
   parents and rejects *)
Example src_set_parent_needs_hid_tid :
  let s := mkS [mkT 1 None [1] [] [3] None false None [] None;
                mkT SrcGraph.EMPTY_ID (Some 0) [2] [] [] None false None [] None;
                mkT 2 (Some 1) [] [] [] None false None [] None;
                mkT 3 None [] [0] [] None false None [] None] [] in
  WF s /\ ~ hid_tid (hp s) /\
  (exists h', src_set_parent (S (S (length (hp s)))) (wroots s) (hp s) 3 (Some 2) = Ok (h', tt)) /\
  snd (set_parent s 3 (Some 2)) = Err.
Proof.
  cbv zeta. split; [apply wf_b_WF; vm_compute; reflexivity|].
  split; [intro H; specialize (H 1); discriminate H|].
  split; [eexists; vm_compute; reflexivity | vm_compute; reflexivity].
Qed.

(* WF (here I_pc): task 2 is listed as a child of 1 but does not name 1 as its parent - the code, walking down,
   hands 2 to the WBS; the model, walking up, does not *)
Example src_set_parent_needs_WF :
  let s := mkS [mkT SrcGraph.EMPTY_ID None [] [] [] (Some 0) true None [] None;
                mkT 1 None [2] [] [] None false None [] None;
                mkT 2 None [] [] [] None false None [] None] [0] in
  hid_tid (hp s) /\ wf_b s = false /\
  (exists h1 h2, src_set_parent (S (S (length (hp s)))) (wroots s) (hp s) 1 (Some 0) = Ok (h1, tt) /\
                 lift_set s (set_parent s 1 (Some 0)) = Ok (h2, tt) /\
                 own (get h1 2) = Some 0 /\ own (get h2 2) = None).
Proof.
  cbv zeta. split; [intros [|[|[|q]]]; try reflexivity; destruct q; reflexivity|]. split; [reflexivity|].
  eexists; eexists. split; [vm_compute; reflexivity|]. split; [vm_compute; reflexivity|]. split; reflexivity.
Qed.

(* ================================================================== *)
(** * the hypotheses are satisfiable by a non-trivial state (demo2 of SrcGraphEquiv2: a WBS with the tasks 1 2 3,
      the detached trees 4 - 5 and 7 - 8, the free task 6); accepted and rejected calls both occur *)
Example demo2_set_parent :
  let s := demo2 in
  let call := src_set_parent (S (S (length (hp s)))) (wroots s) (hp s) in
  WF s /\ hid_tid (hp s) /\
  call 1 (Some 1) = Err /\                         (* parent = self *)
  call 1 (Some 3) = Err /\                         (* parent a descendant *)
  call 1 (Some 2) = Err /\                         (* 3, below 1, is linked with 2 *)
  call 1 (Some 4) = Err /\                         (* new parent outside the WBS *)
  call 4 (Some 1) = Err /\                         (* id clash: 4 carries the id of 1 *)
  call 3 None = lift_set s (set_parent s 3 None) /\                (* a WBS member becomes a root task *)
  kids (get (hp (fst (set_parent s 3 None))) 0) = [1; 2; 3] /\
  call 8 None = lift_set s (set_parent s 8 None) /\                (* a detached task leaves its parent *)
  par (get (hp (fst (set_parent s 8 None))) 8) = None /\
  call 3 (Some 2) = Err /\                                         (* re-parenting inside the WBS: 3 is linked with 2 *)
  call 2 (Some 1) = lift_set s (set_parent s 2 (Some 1)) /\        (* re-parenting inside the WBS *)
  kids (get (hp (fst (set_parent s 2 (Some 1)))) 1) = [3; 2] /\
  call 4 (Some 2) = Err /\                                         (* id clash again: 4 has the id 1 *)
  call 5 (Some 3) = lift_set s (set_parent s 5 (Some 3)) /\        (* a detached task joins the WBS *)
  own (get (hp (fst (set_parent s 5 (Some 3)))) 5) = Some 0 /\
  snd (set_parent s 5 (Some 3)) = OK.
Proof. cbv zeta. split; [apply demo2_hyps|]. split; [apply demo2_hyps|]. vm_compute. repeat split; reflexivity. Qed.

(* a whole detached tree joins a WBS: owner written on every task of the tree *)
Definition demo3 : state := mkS
 [ mkT SrcGraph.EMPTY_ID None [1] [] [] (Some 0) true None [] None;
   mkT 1 (Some 0) [] [] [] (Some 0) false None [] None;
   mkT 2 None [3; 4] [] [] None false None [] None;
   mkT 3 (Some 2) [5] [] [] None false None [] None;
   mkT 4 (Some 2) [] [] [] None false None [] None;
   mkT 5 (Some 3) [] [] [] None false None [] None ] [0].

Example demo3_attach_tree :
  WF demo3 /\ hid_tid (hp demo3) /\
  src_set_parent (S (S (length (hp demo3)))) (wroots demo3) (hp demo3) 2 (Some 1)
    = lift_set demo3 (set_parent demo3 2 (Some 1)) /\
  snd (set_parent demo3 2 (Some 1)) = OK /\
  map (fun x => own (get (hp (fst (set_parent demo3 2 (Some 1)))) x)) [2; 3; 4; 5] = [Some 0; Some 0; Some 0; Some 0] /\
  src_attach (S (length (hp demo3))) (hp demo3) 2 (Some 0)
    = Ok (set_own_all (hp demo3) (subtree (hp demo3) 2) (Some 0), tt) /\
  subtree (hp demo3) 2 = [2; 3; 4; 5] /\
  src_detach (S (length (hp demo3))) (hp demo3) 0
    = Ok (set_own_all (hp demo3) (subtree (hp demo3) 0) None, tt) /\
  subtree (hp demo3) 0 = [0; 1].
Proof.
  split; [apply wf_b_WF; vm_compute; reflexivity|].
  split; [intro q; do 6 (destruct q as [|q]; [reflexivity|]); destruct q; reflexivity|].
  vm_compute. repeat split; reflexivity.
Qed.

Print Assumptions src_attach_walk.
Print Assumptions src_attach_on.
Print Assumptions src_attach_fuel.
Print Assumptions src_attach_eq.
Print Assumptions src_detach_walk.
Print Assumptions src_detach_fuel.
Print Assumptions src_detach_eq.
Print Assumptions src_set_parent_parts.
Print Assumptions src_set_parent_fuel.
Print Assumptions src_set_parent_eq.
Print Assumptions src_set_parent_no_crash.
Print Assumptions src_set_parent_Err_iff.
Print Assumptions src_set_parent_WF.
