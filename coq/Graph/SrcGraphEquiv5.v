(* Source-text tie, fifth tranche: the setter of Task.children that gen/SrcGraph.v translates from the current text of
   src/pjplan/task.py (src_set_children with its four lifted loops) against the hand-written model of Graph/Model.v
   (set_children = set_children_guard + set_children_write).

   Guards: the code checks, child by child, "self is not below the child" and "nobody below the child is linked with
   self or its ancestors"; the model checks the first for all children, then the second for all children.  Both
   raise the same RuntimeError (Err), so the outcomes agree.
   Writes: the model computes every subtree on the heap BEFORE the writes and sweeps the owner over it; the code calls
   _detach / _attach, which walk DOWN the children lists of the heap being written.  During the adoption loop the
   children lists have already lost the tasks adopted earlier, so _attach visits a PRUNED subtree - what it misses
   has been handed the same owner by the earlier call.  The intermediate heaps, and the final heap, are EQUAL as
   lists (not only extensionally). *)
From PJ Require Import Base.Prelude Graph.Model Graph.Invariant gen.SrcGraph Graph.SrcGraphEquiv Graph.SrcGraphEquiv2
                       Graph.SrcGraphEquiv3 Graph.AncLemmas Graph.AncLemmas2 Graph.OracleProofs Graph.LinksProofs
                       Graph.ChildrenProofsWrite Graph.ChildrenProofsInv Graph.ChildrenProofs.
Local Open Scope nat_scope.

(* ================================================================== *)
(** * the guards of the generated text, read as the guards of the model *)

(* len([v for v in value if p(v)]) > 0 *)
Lemma count_pos {A B} (f : A -> B) (p : A -> bool) (l : list A) :
  (Z.of_nat (length (map f (filter p l))) >? 0)%Z = existsb p l.
Proof.
  induction l as [|a l IH]; [reflexivity|]. cbn [filter existsb].
  destruct (p a); cbn [orb]; [|exact IH]. cbn [map length].
  destruct (Z.gtb_spec (Z.of_nat (S (length (map f (filter p l))))) 0); [reflexivity | lia].
Qed.

(* the ownership clause of the model's guard *)
Definition own_bad (h : heap) (t : obj) (value : list obj) : bool :=
  match own (get h t) with
  | None => existsb (fun v => match own (get h v) with Some _ => true | None => false end) value
  | Some w => existsb (fun v => match own (get h v) with Some w' => negb (Nat.eqb w' w) | None => false end) value
  end.

(* first loop: "ch is self" *)
Lemma loop4_self F h t vs value : forall l,
  src_set_children_loop4 F h t vs value l
  = if memn t l then Err else src_set_children_loop4 F h t vs value [].
Proof.
  induction l as [|c l IH]; [reflexivity|].
  cbn [src_set_children_loop4 memn existsb]. rewrite (Nat.eqb_sym t c).
  destruct (Nat.eqb c t); [reflexivity|]. exact IH.
Qed.

(* after it: the WBS of the children, the ids, then the loop of the per-child checks *)
Lemma loop4_nil F h t vs value :
  src_set_children_loop4 F h t vs value []
  = if own_bad h t value then Err
    else do b <- src_has_id_intersection F h t value;
         if b then Err else src_set_children_loop3 F h t vs value value.
Proof.
  cbn [src_set_children_loop4]. unfold own_bad. destruct (own (get h t)) as [w|]; rewrite count_pos.
  - match goal with |- (if ?b1 then _ else _) = (if ?b2 then _ else _) => assert (E : b1 = b2); [|rewrite E; reflexivity] end.
    apply existsb_ext_in. intros v _. destruct (own (get h v)) as [w'|]; reflexivity.
  - reflexivity.
Qed.

(* the per-child checks: self not below the child, nobody below the child linked with self or above *)
Lemma loop3_eq s (t : obj) vs value a F : WF s -> hid_tid (hp s) -> anc (hp s) t = Ok a -> length (hp s) < F ->
  forall l,
  src_set_children_loop3 F (hp s) t vs value l
  = if existsb (fun ch => memn ch a || links_bad (hp s) ch (t :: a)) l then Err
    else src_set_children_loop2 F (hp s) t vs value (kids (get (hp s) t)) (hp s).
Proof.
  intros W Hh Ha HF. pose proof W as (_ & Pc & Acy & _).
  pose proof (I_pc_pc_down s Pc) as Hd. pose proof (I_pc_pc_up s Pc) as Hu.
  assert (Hacy : acyclic (hp s)) by exact Acy.
  destruct F as [|f]; [lia|].
  induction l as [|ch l IH]; [reflexivity|].
  cbn [src_set_children_loop3 existsb].
  unfold src_all_children. rewrite bind_ret, src_get_children_eq.
  rewrite (pref_mono _ f _ _ _ (pref_length_desc (hp s) ch Hd Hacy)) by lia. cbn [lift_walk bind].
  rewrite (src_check_no_links_with_fuel s ch t a (S f) W Hh Ha HF).
  assert (E : existsb (Nat.eqb t) (desc (hp s) ch) = memn ch a).
  { apply eq_true_iff_eq. change (existsb (Nat.eqb t) (desc (hp s) ch)) with (memn t (desc (hp s) ch)).
    rewrite !memn_In, (In_desc (hp s) ch t Hd Hu Hacy), (anc_Ok_In _ _ _ Ha). reflexivity. }
  rewrite E. destruct (memn ch a); cbn [orb]; [reflexivity|].
  destruct (links_bad (hp s) ch (t :: a)); cbn [bind]; [reflexivity|]. exact IH.
Qed.

(* the model's guard with the two per-child clauses merged *)
Lemma existsb_or_split {A} (p q : A -> bool) (l : list A) :
  existsb (fun x => p x || q x) l = existsb p l || existsb q l.
Proof.
  induction l as [|a l IH]; [reflexivity|]. cbn [existsb]. rewrite IH.
  destruct (p a), (q a), (existsb p l), (existsb q l); reflexivity.
Qed.

(* the whole guard: the code reaches its writing loops exactly when the model's guard accepts, raises RuntimeError
   exactly when the model's guard answers Err *)
Theorem src_set_children_guard_eq s (t : obj) vs value F : WF s -> hid_tid (hp s) -> t < length (hp s) ->
  (forall v, In v value -> v < length (hp s)) -> length (hp s) < F ->
  src_set_children_loop4 F (hp s) t vs value value
  = match set_children_guard s t value with
    | Ok _ => src_set_children_loop2 F (hp s) t vs value (kids (get (hp s) t)) (hp s)
    | Err => Err
    | Crash k => Crash k
    end.
Proof.
  intros W Hh Lt Lv HF. pose proof W as (_ & _ & Acy & _).
  assert (Hacy : acyclic (hp s)) by exact Acy.
  assert (Tail : (do b <- src_has_id_intersection F (hp s) t value;
                  if b then Err else src_set_children_loop3 F (hp s) t vs value value)
                 = match (do b <- id_clash (hp s) t value;
                          do _ <- failif b Err;
                          do a <- anc (hp s) t;
                          do _ <- failif (existsb (fun ch => memn ch a) value) Err;
                          failif (existsb (fun ch => links_bad (hp s) ch (t :: a)) value) Err) with
                   | Ok _ => src_set_children_loop2 F (hp s) t vs value (kids (get (hp s) t)) (hp s)
                   | Err => Err
                   | Crash k => Crash k
                   end).
  { rewrite (src_has_id_intersection_fuel s t value F W Lt Lv HF).
    destruct (id_clash_spec (hp s) t value Hacy) as [r [b [_ [_ [Eb _]]]]]. rewrite Eb. cbn [bind].
    destruct b; cbn [failif bind]; [reflexivity|].
    destruct (anc_ok (hp s) t Hacy) as [a [Ha _]]. rewrite Ha. cbn [bind].
    rewrite (loop3_eq s t vs value a F W Hh Ha HF), existsb_or_split. unfold obj.
    destruct (existsb (fun ch => memn ch a) value); cbn [orb failif bind]; [reflexivity|].
    destruct (existsb _ value); reflexivity. }
  rewrite loop4_self, loop4_nil. unfold set_children_guard, own_bad. cbv zeta.
  destruct (memn t value); cbn [failif bind]; [reflexivity|].
  destruct (own (get (hp s) t)) as [w|].
  - match goal with |- (if ?b then _ else _) = _ => destruct b end; cbn [failif bind]; [reflexivity | exact Tail].
  - match goal with |- (if ?b then _ else _) = _ => destruct b end; cbn [failif bind]; [reflexivity | exact Tail].
Qed.

(* ================================================================== *)
(** * Task._attach on a heap whose children lists have been pruned *)

Lemma with_own_id T w : own T = w -> with_own w T = T.
Proof. destruct T as [a b c d e f g i j k]. cbn [own]. intros <-. reflexivity. Qed.

(* writing an owner that is already there changes nothing *)
Lemma set_own_all_same_id h xs w :
  (forall x, In x xs -> x < length h -> own (get h x) = w) -> set_own_all h xs w = h.
Proof.
  intro H. apply heap_ext; [apply length_set_own_all|]. intro x. rewrite get_set_own_all.
  destruct (memn x xs) eqn:M; [|reflexivity]. destruct (Nat.ltb x (length h)) eqn:L; [|reflexivity].
  cbn [andb]. apply with_own_id. apply H; [apply memn_In; exact M | apply Nat.ltb_lt; exact L].
Qed.

Lemma own_set_own_all_keep h xs w x : own (get h x) = w -> own (get (set_own_all h xs w) x) = w.
Proof. intro H. rewrite own_get_set_own_all. destruct (memn x xs && Nat.ltb x (length h)); [reflexivity | exact H]. Qed.

Lemma own_upd_own_keep h v w x : own (get h x) = w -> own (get (upd h v (with_own w)) x) = w.
Proof. intro H. rewrite get_upd. destruct (Nat.eqb v x && Nat.ltb v (length h)); [reflexivity | exact H]. Qed.

(* the loop over the children: the heap being written ([h]) lists the children of [h0] that [keep] keeps; a child
   that is not kept, and everything below it, has the owner already *)
Lemma attach_fold_pruned (F : heap -> obj -> res heap) (g : obj -> option (list obj)) (w : wid) (h0 : heap)
      (keep : obj -> bool) :
  (forall c lc y, g c = Some lc -> In y lc -> Anc h0 y c) ->
  (forall c lc h, g c = Some lc ->
     (forall y, In y (c :: lc) -> kids (get h y) = filter keep (kids (get h0 y))) ->
     (forall d, In d lc -> keep d = false -> forall x, Sub h0 d x -> x < length h -> own (get h x) = Some w) ->
     F h c = Ok (set_own_all h (c :: lc) (Some w))) ->
  forall cs l, pref_list g cs = Some l -> forall h,
    (forall y, In y l -> kids (get h y) = filter keep (kids (get h0 y))) ->
    (forall d, In d l -> keep d = false -> forall x, Sub h0 d x -> x < length h -> own (get h x) = Some w) ->
  src_fold_res F (filter keep cs) h = Ok (set_own_all h l (Some w)).
Proof.
  intros Hg HF cs. induction cs as [|c cs IH]; intros l Hl h Hk Ho.
  - inversion Hl; subst l. reflexivity.
  - rewrite pref_list_cons in Hl. destruct (g c) as [lc|] eqn:Ec; [|discriminate].
    destruct (pref_list g cs) as [a|] eqn:Ea; [|discriminate]. inversion Hl; subst l. clear Hl.
    change (c :: lc ++ a) with ((c :: lc) ++ a) in *. rewrite set_own_all_app.
    cbn [filter]. destruct (keep c) eqn:Kc.
    + cbn [src_fold_res]. rewrite (HF c lc h Ec).
      2:{ intros y Hy. apply Hk. apply in_or_app. left. exact Hy. }
      2:{ intros d Hd. apply Ho. apply in_or_app. left. right. exact Hd. }
      cbn [bind]. apply (IH a eq_refl).
      * intros y Hy. rewrite kids_set_own_all. apply Hk. apply in_or_app. right. exact Hy.
      * intros d Hd Kd x Sx Lx. rewrite length_set_own_all in Lx. apply own_set_own_all_keep.
        apply (Ho d); [apply in_or_app; right; exact Hd | exact Kd | exact Sx | exact Lx].
    + rewrite (set_own_all_same_id h (c :: lc)).
      * apply (IH a eq_refl).
        -- intros y Hy. apply Hk. apply in_or_app. right. exact Hy.
        -- intros d Hd. apply Ho. apply in_or_app. right. exact Hd.
      * intros x Hx Lx. apply (Ho c); [left; reflexivity | exact Kc | | exact Lx].
        destruct Hx as [<-|Hx]; [apply Sub_refl | right; exact (Hg c lc x Ec Hx)].
Qed.

Theorem src_attach_pruned (w : wid) (h0 : heap) (keep : obj -> bool) : pc_down h0 ->
  forall n t l, pref n h0 t = Some l ->
  forall h, (forall y, In y (t :: l) -> kids (get h y) = filter keep (kids (get h0 y))) ->
            (forall d, In d l -> keep d = false -> forall x, Sub h0 d x -> x < length h -> own (get h x) = Some w) ->
  src_attach (S n) h t (Some w) = Ok (set_own_all h (t :: l) (Some w), tt).
Proof.
  intro Hd. induction n as [|n IH]; intros t l Hl h Hk Ho.
  - rewrite pref_O in Hl. destruct (kids (get h0 t)) eqn:Ek; [|discriminate]. inversion Hl; subst l.
    cbn [src_attach]. rewrite kids_upd_own, (Hk t (or_introl eq_refl)), Ek. reflexivity.
  - rewrite pref_S in Hl. remember (S n) as m eqn:Em. cbn [src_attach]. subst m.
    rewrite kids_upd_own, (Hk t (or_introl eq_refl)).
    rewrite (attach_fold_pruned _ (pref n h0) w h0 keep) with (l := l).
    + reflexivity.
    + intros c lc y Ec Hy. exact (pref_In_Anc h0 Hd n c lc y Ec Hy).
    + intros c lc h' Ec Hk' Ho'. rewrite (IH c lc Ec h' Hk' Ho'). reflexivity.
    + exact Hl.
    + intros y Hy. rewrite kids_upd_own. apply Hk. right. exact Hy.
    + intros d Hd' Kd x Sx Lx. rewrite length_upd in Lx. apply own_upd_own_keep. exact (Ho d Hd' Kd x Sx Lx).
Qed.

(* ================================================================== *)
(** * the writing loops of an accepted call *)

(* two different children of the same task have disjoint subtrees *)
Lemma sib_disjoint h o c c' x : acyclic h -> par (get h c) = Some o -> par (get h c') = Some o -> c <> c' ->
  Sub h c x -> Sub h c' x -> False.
Proof.
  intros Hacy Pc Pc' Hne Sc Sc'.
  assert (N : forall u v, par (get h u) = Some o -> par (get h v) = Some o -> ~ Anc h u v).
  { intros u v Pu Pv An. apply Anc_inv in An. destruct An as [q [Hq An]].
    assert (q = o) by congruence. subst q. apply (Hacy v). destruct An as [E|An].
    - subst o. apply Anc_par. exact Pv.
    - eapply Anc_up; eauto. }
  destruct Sc as [E1|A1], Sc' as [E2|A2].
  - apply Hne. congruence.
  - subst x. exact (N c c' Pc Pc' A2).
  - subst x. exact (N c' c Pc' Pc A1).
  - destruct (Anc_linear _ _ _ _ A1 A2) as [C|[C|C]]; [exact (Hne C) | exact (N c c' Pc Pc' C) | exact (N c' c Pc' Pc C)].
Qed.

Section Writes.
Variables (s : state) (t : obj) (vs : list (option obj)) (value : list obj) (f : nat).
Local Notation h := (hp s).
Local Notation n := (length (hp s)).
Hypothesis W : WF s.
Hypothesis Lt : t < n.
Hypothesis Hnd : NoDup value.
Hypothesis Hv : forall v, In v value -> v < n.
Hypothesis G : set_children_guard s t value = OK.
Hypothesis Hf : n <= f.

Local Notation R := (released h t value).
Local Notation h1 := (fold_left (release_child h) R h).

Let Hd : pc_down h := I_pc_pc_down s (Hpc s W).
Let Hu : pc_up h := I_pc_pc_up s (Hpc s W).
Let Hkn : kids_nodup h := I_pc_kids_nodup s (Hpc s W).
Let Hacy : acyclic h := Acy s W.

Lemma kid_lt_fin c : In c (kids (get h t)) -> c < n.
Proof.
  intro H. destruct (Hfin s W) as [Fi _]. specialize (Fi t). cbv zeta in Fi. apply (proj1 (proj2 Fi)).
  apply in_or_app. left. exact H.
Qed.

Lemma pref_f c : pref f h c = Some (desc h c).
Proof. apply (pref_mono (length h)); [apply pref_length_desc; assumption | exact Hf]. Qed.

Lemma walk_subtree (hc : heap) c x : length hc = n -> x < length hc ->
  (In x (c :: desc h c) <-> In x (subtree h c)).
Proof.
  intros Lh Lx. rewrite (desc_subtree_same h c Hd Hu Hacy), (In_subtree h c x Hacy). rewrite Lh in Lx. tauto.
Qed.

(* ---- releasing one child: v.__parent = None ; v._detach() ---- *)
Lemma detach_step hc c : c < n -> length hc = n -> (forall y, kids (get hc y) = kids (get h y)) ->
  (forall x, Sub h c x -> own (get hc x) = own (get h x)) ->
  src_detach (S f) (upd hc c (with_par None)) c = Ok (release_child h hc c, tt).
Proof.
  intros Lc Lh Hk Ho. unfold release_child. set (h18 := upd hc c (with_par None)).
  assert (L18 : length h18 = n) by (unfold h18; rewrite length_upd; exact Lh).
  assert (Ho18 : forall x, Sub h c x -> own (get h18 x) = own (get h c)).
  { intros x Sx. unfold h18. rewrite (proj_get_upd own) by reflexivity. rewrite (Ho x Sx).
    apply (own_Sub s W c x Lc Sx). }
  assert (Hk18 : forall y, kids (get h18 y) = kids (get h y)).
  { intro y. unfold h18. rewrite (proj_get_upd kids) by reflexivity. apply Hk. }
  destruct (own (get h c)) as [w|] eqn:Ec.
  - rewrite (src_detach_walk h f c (desc h c)).
    + f_equal. f_equal. apply set_own_all_ext. intros x Lx. apply (walk_subtree h18); assumption.
    + apply pref_f.
    + constructor; [|apply NoDup_desc; assumption].
      intro Hin. apply (Hacy c). apply (desc_In_Anc h c c Hd Hacy Hin).
    + intros y _. apply Hk18.
    + intros y Hy. apply (desc_subtree_same h c Hd Hu Hacy) in Hy. rewrite (Ho18 y Hy). discriminate.
  - cbn [src_detach]. rewrite (Ho18 c (Sub_refl _ _)). rewrite set_own_all_same_id; [reflexivity|].
    intros x Hx _. apply (In_subtree h c x Hacy) in Hx as [_ Sx]. exact (Ho18 x Sx).
Qed.

(* ---- the release loop ---- *)
Lemma loop2_eq : forall l hc, NoDup l -> (forall c, In c l -> In c (kids (get h t))) -> length hc = n ->
  (forall y, kids (get hc y) = kids (get h y)) ->
  (forall c x, In c l -> Sub h c x -> own (get hc x) = own (get h x)) ->
  src_set_children_loop2 (S f) h t vs value l hc
  = src_set_children_loop1 (S f) h t vs value value
      (fold_left (release_child h) (filter (fun v => negb (memn v value)) l) hc).
Proof.
  induction l as [|c l IH]; intros hc Hndl Hin Lh Hk Ho; [reflexivity|].
  cbn [src_set_children_loop2 filter]. fold (memn c value).
  inversion Hndl as [|c' l' Hcl Hndl']; subst c' l'.
  destruct (memn c value); cbn [negb].
  - apply IH; [exact Hndl' | | exact Lh | exact Hk |].
    + intros c' Hc'. apply Hin. right. exact Hc'.
    + intros c' x Hc'. apply Ho. right. exact Hc'.
  - assert (Lc : c < n) by (apply (kid_lt_fin c); apply Hin; left; reflexivity).
    rewrite (detach_step hc c Lc Lh Hk) by (intros x Sx; apply (Ho c x (or_introl eq_refl) Sx)).
    cbn [bind fold_left]. apply IH; [exact Hndl' | | | |].
    + intros c' Hc'. apply Hin. right. exact Hc'.
    + rewrite release_len. exact Lh.
    + intro y. rewrite (release_keep kids) by reflexivity. apply Hk.
    + intros c' x Hc' Sx. rewrite release_own by (rewrite Lh; reflexivity).
      assert (M : memn x (subtree h c) = false).
      { apply memn_false. intro Hx. apply (In_subtree h c x Hacy) in Hx as [_ Sc].
        apply (sib_disjoint h t c c' x Hacy); [| | | exact Sc | exact Sx].
        - apply Hd. apply Hin. left. reflexivity.
        - apply Hd. apply Hin. right. exact Hc'.
        - intros ->. exact (Hcl Hc'). }
      rewrite M. apply (Ho c' x); [right; exact Hc' | exact Sx].
Qed.

(* ---- what the guard guarantees ---- *)
Lemma value_above v : In v value -> ~ Sub h v t.
Proof. apply (Gup s t value G). Qed.

Lemma R_lt5 c : In c R -> c < n.
Proof. apply (R_lt s t value (Hfin s W)). Qed.

(* the owner of the receiving task is never written *)
Lemma own_t_pre done : (forall v, In v done -> In v value) ->
  own (get (fold_left (adopt_child h t) done h1) t) = own (get h t).
Proof.
  intro Hdone. destruct (own (get h t)) as [w|] eqn:Ew.
  - rewrite (own_pre_some s t value done t w Ew), own_h1.
    assert (B0 : inB h t value t = false).
    { destruct (inB h t value t) eqn:E; [|reflexivity]. exfalso.
      apply (inB_spec s t value W) in E. exact (t_notB s t value W E). }
    rewrite B0, Ew. destruct (existsb _ done); reflexivity.
  - rewrite (own_pre_none s t value done t Ew), own_h1, Ew. destruct (inB h t value t); reflexivity.
Qed.

(* ---- adopting one child: leave the old parent's list ; v.__parent = self ; v._attach(self.__wbs) ---- *)
Lemma attach_step done v rest : value = done ++ v :: rest ->
  let hc := fold_left (adopt_child h t) done h1 in
  let h11 := upd (adopt_h1 t hc v) v (with_par (Some t)) in
  src_attach (S f) h11 v (own (get h11 t)) = Ok (adopt_child h t hc v, tt).
Proof.
  intros Ev hc h11.
  assert (Idone : forall v0, In v0 (done ++ [v]) -> In v0 value).
  { intros v0 H0. rewrite Ev. apply in_app_or in H0. apply in_or_app.
    destruct H0 as [H0|[<-|[]]]; [left; exact H0 | right; left; reflexivity]. }
  assert (Nd : NoDup (done ++ [v])).
  { rewrite Ev in Hnd. change (v :: rest) with ([v] ++ rest) in Hnd. rewrite app_assoc in Hnd.
    eapply NoDup_app_l; exact Hnd. }
  assert (Eo : own (get h11 t) = own (get h t)).
  { unfold h11. rewrite (proj_get_upd own) by reflexivity. rewrite (adopt_h1_keep own) by reflexivity.
    apply own_t_pre. intros v0 H0. apply Idone. apply in_or_app. left. exact H0. }
  rewrite Eo, adopt_unfold. fold hc. fold h11.
  destruct (own (get h t)) as [w|] eqn:Ew; [|reflexivity].
  assert (L11 : length h11 = n).
  { unfold h11. rewrite length_upd, adopt_h1_len. apply len_pre. }
  assert (Iv : In v value) by (apply Idone; apply in_or_app; right; left; reflexivity).
  rewrite (src_attach_pruned w h (fun c => negb (memn c (done ++ [v]))) Hd f v (desc h v) (pref_f v)).
  - f_equal. f_equal. apply set_own_all_ext. intros x Lx. apply (walk_subtree h11); assumption.
  - intros y Hy. apply (desc_subtree_same h v Hd Hu Hacy) in Hy.
    assert (Ny : Nat.eqb y t = false).
    { apply Nat.eqb_neq. intros ->. exact (value_above v Iv Hy). }
    unfold h11. rewrite (proj_get_upd kids) by reflexivity. rewrite <- (adopt_kids h t hc v y).
    unfold hc. rewrite <- fold_left_snoc.
    rewrite (kids_pre s t value (Hfin s W) (Hpc s W) (done ++ [v]) Nd), Ny; [reflexivity|].
    intros v0 H0. split; [apply Hv, Idone, H0 | apply value_not_R, Idone, H0].
  - intros d Hd' Kd x Sx Lx. apply negb_false_iff, memn_In in Kd.
    apply in_app_or in Kd. destruct Kd as [Kd|[<-|[]]].
    + unfold h11. rewrite (proj_get_upd own) by reflexivity. rewrite (adopt_h1_keep own) by reflexivity.
      unfold hc. rewrite (own_pre_some s t value done x w Ew).
      assert (E : existsb (fun v0 => memn x (subtree h v0)) done = true).
      { apply existsb_exists. exists d. split; [exact Kd|]. apply memn_In, (In_subtree h d x Hacy).
        split; [rewrite <- L11; exact Lx | exact Sx]. }
      rewrite E. reflexivity.
    + exfalso. apply (Hacy v). apply (desc_In_Anc h v v Hd Hacy Hd').
Qed.

(* ---- the adoption loop, and the final write of the list ---- *)
Lemma loop1_eq : forall rest done, value = done ++ rest ->
  src_set_children_loop1 (S f) h t vs value rest (fold_left (adopt_child h t) done h1)
  = Ok (upd (fold_left (adopt_child h t) value h1) t (with_kids value), tt).
Proof.
  induction rest as [|v rest IH]; intros done Ev.
  - rewrite app_nil_r in Ev. subst done. reflexivity.
  - cbn [src_set_children_loop1]. cbv zeta beta.
    set (hc := fold_left (adopt_child h t) done h1).
    assert (E : forall K : heap -> res (heap * unit),
              match par (get hc v) with
              | Some q => if negb (Nat.eqb q t)
                          then (if existsb (Nat.eqb v) (kids (get hc q))
                                then (if existsb (Nat.eqb v) (kids (get hc q))
                                      then K (upd hc q (fun T_ => with_kids (remove1 v (kids T_)) T_))
                                      else Crash ValueError)
                                else K hc)
                          else K hc
              | None => K hc
              end = K (adopt_h1 t hc v)).
    { intro K. unfold adopt_h1, memn. destruct (par (get hc v)) as [q|]; [|reflexivity].
      destruct (negb (Nat.eqb q t)); cbn [andb]; [|reflexivity].
      destruct (existsb (Nat.eqb v) (kids (get hc q))); reflexivity. }
    rewrite (E (fun h10 => do '(h12, _) <- src_attach (S f) (upd h10 v (with_par (Some t))) v
                                              (own (get (upd h10 v (with_par (Some t))) t));
                            src_set_children_loop1 (S f) h t vs value rest h12)).
    pose proof (attach_step done v rest Ev) as A. cbv zeta in A. fold hc in A. rewrite A. cbn [bind].
    unfold hc. rewrite <- fold_left_snoc. apply IH. rewrite <- app_assoc. exact Ev.
Qed.

(* ---- the three loops together ---- *)
Theorem src_write_children_eq :
  src_set_children_loop2 (S f) h t vs value (kids (get h t)) h = Ok (hp (set_children_write s t value), tt).
Proof.
  rewrite (loop2_eq (kids (get h t)) h).
  - exact (loop1_eq value [] eq_refl).
  - apply Hkn.
  - intros c Hc. exact Hc.
  - reflexivity.
  - reflexivity.
  - reflexivity.
Qed.
End Writes.

(* ================================================================== *)
(** * the setter: same outcome class, and on acceptance the same heap *)

(* Hypotheses: the state is well formed, the hidden roots are the tasks with the reserved id, the receiving task and
   the tasks handed over are objects of the heap (each is needed: see the Examples at the end).  Nothing is asked of
   the tasks handed over beyond that: a hidden WBS root among them is rejected by both sides (it is the receiving task
   itself, an ancestor of it, or owned by another WBS), and the receiving task may be a hidden root (wbs.roots = ...).
   The result heaps are equal as lists. *)
Theorem src_set_children_fuel : forall s (t : obj) (vs : list (option obj)) F, WF s -> hid_tid (hp s) ->
  t < length (hp s) -> (forall v, In (Some v) vs -> v < length (hp s)) -> length (hp s) < F ->
  src_set_children F (hp s) t vs = lift_set s (set_children s t vs).
Proof.
  intros s t vs F W Hh Lt Lvs HF.
  unfold src_set_children. rewrite src_unique_tasks_eq. cbn [bind].
  unfold set_children, lift_set. cbv zeta. set (value := dedup (somes vs)).
  assert (Lv : forall v, In v value -> v < length (hp s)).
  { intros v Hv. apply Lvs. apply In_somes. apply In_dedup. exact Hv. }
  rewrite (src_set_children_guard_eq s t vs value F W Hh Lt Lv HF).
  destruct (set_children_guard s t value) as [[]| |k] eqn:G; cbn [mk snd fst]; [|reflexivity..].
  destruct F as [|f]; [lia|].
  apply (src_write_children_eq s t vs value f W (NoDup_dedup _) Lv G). lia.
Qed.

Theorem src_set_children_eq : forall s (t : obj) (vs : list (option obj)), WF s -> hid_tid (hp s) ->
  t < length (hp s) -> (forall v, In (Some v) vs -> v < length (hp s)) ->
  src_set_children (S (S (length (hp s)))) (hp s) t vs = lift_set s (set_children s t vs).
Proof. intros. apply src_set_children_fuel; auto. Qed.

(* ================================================================== *)
(** * consequences: the code never ends in an exception other than its own RuntimeError; it raises exactly when the
      model's guard does; an accepted call of the code leaves a well-formed graph *)

Lemma set_children_guard_no_crash s t value k : WF s -> set_children_guard s t value <> Crash k.
Proof.
  intros (_ & _ & Acy & _). assert (Hacy : acyclic (hp s)) by exact Acy.
  unfold set_children_guard. cbv zeta.
  destruct (memn t value); cbn [failif bind]; [discriminate|].
  assert (Tail : (do b <- id_clash (hp s) t value;
                  do _ <- failif b Err;
                  do a <- anc (hp s) t;
                  do _ <- failif (existsb (fun ch => memn ch a) value) Err;
                  failif (existsb (fun ch => links_bad (hp s) ch (t :: a)) value) Err) <> Crash k).
  { destruct (id_clash_spec (hp s) t value Hacy) as [r [b [_ [_ [Eb _]]]]]. rewrite Eb. cbn [bind].
    destruct b; cbn [failif bind]; [discriminate|].
    destruct (anc_ok (hp s) t Hacy) as [a [Ha _]]. rewrite Ha. cbn [bind].
    destruct (existsb (fun ch => memn ch a) value); cbn [failif bind]; [discriminate|].
    match goal with |- failif ?b _ <> _ => destruct b end; discriminate. }
  destruct (own (get (hp s) t)) as [w|].
  - match goal with |- bind (failif ?b _) _ <> _ => destruct b end; cbn [failif bind]; [discriminate | exact Tail].
  - match goal with |- bind (failif ?b _) _ <> _ => destruct b end; cbn [failif bind]; [discriminate | exact Tail].
Qed.

Corollary src_set_children_no_crash : forall s (t : obj) (vs : list (option obj)) k, WF s -> hid_tid (hp s) ->
  t < length (hp s) -> (forall v, In (Some v) vs -> v < length (hp s)) ->
  src_set_children (S (S (length (hp s)))) (hp s) t vs <> Crash k.
Proof.
  intros s t vs k W Hh Lt Lv. rewrite (src_set_children_eq s t vs W Hh Lt Lv). unfold lift_set, set_children.
  pose proof (set_children_guard_no_crash s t (dedup (somes vs))) as N. cbv zeta.
  destruct (set_children_guard s t (dedup (somes vs))) as [[]| |k']; cbn [mk snd]; try discriminate.
  intro E. inversion E; subst k'. exact (N k W eq_refl).
Qed.

(* the code raises its RuntimeError exactly when the model's guard does, and then nothing is written (the code
   returns no heap at all: the translation threads the heap through the accepted path only) *)
Corollary src_set_children_Err_iff : forall s (t : obj) (vs : list (option obj)), WF s -> hid_tid (hp s) ->
  t < length (hp s) -> (forall v, In (Some v) vs -> v < length (hp s)) ->
  (src_set_children (S (S (length (hp s)))) (hp s) t vs = Err
   <-> set_children_guard s t (dedup (somes vs)) = Err).
Proof.
  intros s t vs W Hh Lt Lv. rewrite (src_set_children_eq s t vs W Hh Lt Lv). unfold lift_set, set_children. cbv zeta.
  destruct (set_children_guard s t (dedup (somes vs))) as [[]| |k']; cbn [mk snd]; split; intro E;
    try discriminate; reflexivity.
Qed.

(* on acceptance: the heap the model writes *)
Corollary src_set_children_Ok : forall s (t : obj) (vs : list (option obj)) h' u, WF s -> hid_tid (hp s) ->
  t < length (hp s) -> (forall v, In (Some v) vs -> v < length (hp s)) ->
  src_set_children (S (S (length (hp s)))) (hp s) t vs = Ok (h', u) ->
  set_children_guard s t (dedup (somes vs)) = OK /\ h' = hp (set_children_write s t (dedup (somes vs))).
Proof.
  intros s t vs h' u W Hh Lt Lv. rewrite (src_set_children_eq s t vs W Hh Lt Lv). unfold lift_set, set_children. cbv zeta.
  destruct (set_children_guard s t (dedup (somes vs))) as [[]| |k']; cbn [mk snd fst]; try discriminate.
  intro E. inversion E. split; reflexivity.
Qed.

(* the tasks handed over are public objects (never the hidden root of a WBS); the receiving task may be one
   (wbs.roots = ...) *)
Corollary src_set_children_WF : forall s (t : obj) (vs : list (option obj)) h' u, WF s -> hid_tid (hp s) ->
  t < length (hp s) -> pubs s vs ->
  src_set_children (S (S (length (hp s)))) (hp s) t vs = Ok (h', u) ->
  WF (mkS h' (wroots s)).
Proof.
  intros s t vs h' u W Hh Lt Pv E.
  assert (Lv : forall v, In (Some v) vs -> v < length (hp s)) by (intros v Hv; apply (Pv v Hv)).
  destruct (src_set_children_Ok s t vs h' u W Hh Lt Lv E) as [G ->].
  pose proof (set_children_WF s t vs W Lt Pv) as W'.
  unfold set_children in W'. cbv zeta in W'. rewrite G in W'. cbn [mk fst] in W'.
  rewrite write_unfold in W'. rewrite write_unfold. exact W'.
Qed.

(* ================================================================== *)
(** * every hypothesis is needed *)

(* [t] outside the heap: the code reads a pristine task of id 0 (clash with the task of id 0), the model's
   enumeration of the objects does not see it *)
Example src_set_children_needs_t_in_heap :
  let s := mkS [mkT 0 None [] [] [] None false None [] None] [] in
  WF s /\ hid_tid (hp s) /\
  src_set_children (S (S (length (hp s)))) (hp s) 1 [Some 0] = Err /\
  snd (set_children s 1 [Some 0]) = OK.
Proof.
  cbv zeta. split; [apply wf_b_WF; reflexivity|]. split; [intros [|[|q]]; reflexivity|]. split; reflexivity.
Qed.

(* a new child outside the heap: the same, the other way round *)
Example src_set_children_needs_children_in_heap :
  let s := mkS [mkT 0 None [] [] [] None false None [] None] [] in
  WF s /\ hid_tid (hp s) /\
  src_set_children (S (S (length (hp s)))) (hp s) 0 [Some 1] = Err /\
  snd (set_children s 0 [Some 1]) = OK.
Proof.
  cbv zeta. split; [apply wf_b_WF; reflexivity|]. split; [intros [|[|q]]; reflexivity|]. split; reflexivity.
Qed.

(* hid_tid: a visible task that carries the id of the hidden root (task 1 here) ends the code's walk over the
   parents of the receiving task 2, so the link between the new child 3 and the ancestor 0 of 2 goes unnoticed; the
   model walks the raw parents and rejects *)
Example src_set_children_needs_hid_tid :
  let s := mkS [mkT 1 None [1] [] [3] None false None [] None;
                mkT SrcGraph.EMPTY_ID (Some 0) [2] [] [] None false None [] None;
                mkT 2 (Some 1) [] [] [] None false None [] None;
                mkT 3 None [] [0] [] None false None [] None] [] in
  WF s /\ ~ hid_tid (hp s) /\
  (exists h', src_set_children (S (S (length (hp s)))) (hp s) 2 [Some 3] = Ok (h', tt)) /\
  snd (set_children s 2 [Some 3]) = Err.
Proof.
  cbv zeta. split; [apply wf_b_WF; vm_compute; reflexivity|].
  split; [intro H; specialize (H 1); discriminate H|].
  split; [eexists; vm_compute; reflexivity | vm_compute; reflexivity].
Qed.

(* WF (here I_pc): task 2 is listed as a child of 1 but does not name 1 as its parent - the code, walking down,
   hands 2 to the WBS; the model, walking up, does not *)
Example src_set_children_needs_WF :
  let s := mkS [mkT SrcGraph.EMPTY_ID None [] [] [] (Some 0) true None [] None;
                mkT 1 None [2] [] [] None false None [] None;
                mkT 2 None [] [] [] None false None [] None] [0] in
  hid_tid (hp s) /\ wf_b s = false /\
  (exists h1 h2, src_set_children (S (S (length (hp s)))) (hp s) 0 [Some 1] = Ok (h1, tt) /\
                 lift_set s (set_children s 0 [Some 1]) = Ok (h2, tt) /\
                 own (get h1 2) = Some 0 /\ own (get h2 2) = None).
Proof.
  cbv zeta. split; [intros [|[|[|q]]]; try reflexivity; destruct q; reflexivity|]. split; [reflexivity|].
  eexists; eexists. split; [vm_compute; reflexivity|]. split; [vm_compute; reflexivity|]. split; reflexivity.
Qed.

(* ================================================================== *)
(** * the hypotheses are satisfiable by a non-trivial state: two WBS (hidden roots 0 and 6; 1 2 below 0, 3 4 below 1,
      5 below 3; 7 below 6), the detached tree 8 - 9, the free tasks 10 (id of 5), 11 (id of 9), 12 (linked with 2);
      accepted and rejected calls both occur *)
Definition demo5 : state := mkS
 [ mkT SrcGraph.EMPTY_ID None [1;2] [] [] (Some 0) true None [] None;
   mkT 1 (Some 0) [3;4] [] [] (Some 0) false None [] None;
   mkT 2 (Some 0) [] [] [12] (Some 0) false None [] None;
   mkT 3 (Some 1) [5] [] [] (Some 0) false None [] None;
   mkT 4 (Some 1) [] [] [] (Some 0) false None [] None;
   mkT 5 (Some 3) [] [] [] (Some 0) false None [] None;
   mkT SrcGraph.EMPTY_ID None [7] [] [] (Some 1) true None [] None;
   mkT 1 (Some 6) [] [] [] (Some 1) false None [] None;
   mkT 8 None [9] [] [] None false None [] None;
   mkT 9 (Some 8) [] [] [] None false None [] None;
   mkT 5 None [] [] [] None false None [] None;
   mkT 9 None [] [] [] None false None [] None;
   mkT 12 None [] [2] [] None false None [] None ] [0; 6].

Example demo5_hyps : WF demo5 /\ hid_tid (hp demo5).
Proof.
  split; [apply wf_b_WF; vm_compute; reflexivity|].
  intro q. do 13 (destruct q as [|q]; [reflexivity|]). destruct q; reflexivity.
Qed.

Example demo5_set_children :
  let s := demo5 in
  let call := src_set_children (S (S (length (hp s)))) (hp s) in
  let after t vs := hp (fst (set_children s t vs)) in
  call 1 [Some 1] = Err /\                                  (* self as a child *)
  call 1 [Some 7] = Err /\                                  (* a task of another WBS *)
  call 8 [Some 1] = Err /\                                  (* a WBS task under a task outside every WBS *)
  call 1 [Some 10] = Err /\                                 (* id clash with the receiving tree: 10 carries the id of 5 *)
  call 4 [Some 8; Some 11] = Err /\                         (* id clash between incoming subtrees: 11 carries the id of 9 *)
  call 3 [Some 1] = Err /\                                  (* a new child that is an ancestor of the task *)
  call 2 [Some 12] = Err /\                                 (* 12 is linked with 2 *)
  call 0 [Some 6] = Err /\                                  (* the hidden root of another WBS handed over *)
  call 3 [Some 0] = Err /\                                  (* the hidden root of its own WBS handed over *)
  call 1 [] = lift_set s (set_children s 1 []) /\           (* dropping every child *)
  snd (set_children s 1 []) = OK /\
  map (fun x => (par (get (after 1 []) x), own (get (after 1 []) x))) [3; 4; 5] = [(None, None); (None, None); (Some 3, None)] /\
  call 1 [Some 3; Some 8] = lift_set s (set_children s 1 [Some 3; Some 8]) /\     (* keeping 3, dropping 4, adding 8 *)
  snd (set_children s 1 [Some 3; Some 8]) = OK /\
  map (fun x => own (get (after 1 [Some 3; Some 8]) x)) [3; 4; 5; 8; 9] = [Some 0; None; Some 0; Some 0; Some 0] /\
  call 1 [Some 5; Some 4] = lift_set s (set_children s 1 [Some 5; Some 4]) /\     (* promoting 5, dropping its parent 3 *)
  snd (set_children s 1 [Some 5; Some 4]) = OK /\
  map (fun x => (par (get (after 1 [Some 5; Some 4]) x), own (get (after 1 [Some 5; Some 4]) x))) [3; 5]
    = [(None, None); (Some 1, Some 0)] /\
  kids (get (after 1 [Some 5; Some 4]) 3) = [] /\
  call 1 [Some 4; None; Some 4; Some 3] = lift_set s (set_children s 1 [Some 4; None; Some 4; Some 3]) /\  (* repeats, None *)
  kids (get (after 1 [Some 4; None; Some 4; Some 3]) 1) = [4; 3] /\
  call 1 [Some 3; Some 5] = lift_set s (set_children s 1 [Some 3; Some 5]) /\     (* a child and, after it, its own child *)
  call 1 [Some 5; Some 3] = lift_set s (set_children s 1 [Some 5; Some 3]) /\     (* the same, the grandchild first *)
  snd (set_children s 1 [Some 5; Some 3]) = OK /\
  call 0 [Some 2; Some 8] = lift_set s (set_children s 0 [Some 2; Some 8]) /\     (* wbs.roots = [2, 8] *)
  snd (set_children s 0 [Some 2; Some 8]) = OK /\
  map (fun x => own (get (after 0 [Some 2; Some 8]) x)) [1; 3; 4; 5; 8; 9] = [None; None; None; None; Some 0; Some 0] /\
  call 6 [] = lift_set s (set_children s 6 []) /\                                 (* wbs.roots = [] *)
  own (get (after 6 []) 7) = None.
Proof. vm_compute. repeat split; reflexivity. Qed.

Print Assumptions src_set_children_guard_eq.
Print Assumptions src_attach_pruned.
Print Assumptions src_write_children_eq.
Print Assumptions src_set_children_fuel.
Print Assumptions src_set_children_eq.
Print Assumptions src_set_children_no_crash.
Print Assumptions src_set_children_Err_iff.
Print Assumptions src_set_children_Ok.
Print Assumptions src_set_children_WF.
