(* Graph/OracleProofs.v - reflection of the boolean oracles of Graph/Invariant.v.

   INDEX
     wf_fin_b_spec   wf_fin_b s = true <-> I_fin s
     wf_pc_b_spec    wf_pc_b s  = true <-> I_pc s
     wf_acy_b_spec   wf_acy_b s = true <-> I_acy s            (no I_fin needed: see AncLemmas.ancf_total_acy)
     wf_sym_b_spec   wf_sym_b s = true <-> I_sym s
     wf_dag_b_spec   I_fin s -> (wf_dag_b s = true <-> I_dag s)       (re-exported from Graph/DepLemmas.v)
     wf_sep_b_sound  wf_sep_b s = true -> I_sep s ;  wf_sep_b_complete : I_acy s -> I_sep s -> wf_sep_b s = true
     wf_sep_b_spec   I_acy s -> (wf_sep_b s = true <-> I_sep s)
     wf_ids_b_sound  wf_ids_b s = true -> I_ids s ;  wf_ids_b_complete : I_acy s -> I_ids s -> wf_ids_b s = true
     wf_ids_b_spec   I_acy s -> (wf_ids_b s = true <-> I_ids s)
     wf_hid_b_spec   wf_hid_b s = true <-> I_hid s
     wf_own_b_sound  NoDup (wroots s) -> wf_own_b s = true -> I_own s      (NoDup comes from I_hid)
     wf_own_b_complete  I_acy s -> I_own s -> wf_own_b s = true
     wf_own_b_spec   NoDup (wroots s) -> I_acy s -> (wf_own_b s = true <-> I_own s)
     wf_b_spec       wf_b s = true <-> WF s          (wf_b_WF, WF_wf_b: the two directions)
     index_of_Some, index_of_None, index_of_nth : facts about Invariant.index_of
     WF projections: WF_fin, WF_pc, WF_acy, WF_sym, WF_dag, WF_sep, WF_ids, WF_hid, WF_own
*)
From PJ Require Import Base.Prelude Graph.Model Graph.Invariant Graph.AncLemmas Graph.DepLemmas.
Local Open Scope nat_scope.

Lemma ltn_spec s x : ltn s x = true <-> x < length (hp s).
Proof. unfold ltn. apply Nat.ltb_lt. Qed.

Lemma preds_In_lt h x c : In c (preds (get h x)) -> x < length h.
Proof.
  intro H. destruct (Nat.lt_ge_cases x (length h)) as [L|L]; [exact L|].
  rewrite get_out_preds in H by exact L. destruct H.
Qed.

Lemma succs_In_lt h x c : In c (succs (get h x)) -> x < length h.
Proof.
  intro H. destruct (Nat.lt_ge_cases x (length h)) as [L|L]; [exact L|].
  rewrite get_out_succs in H by exact L. destruct H.
Qed.

(* ---------------- I_fin ---------------- *)
Theorem wf_fin_b_spec s : wf_fin_b s = true <-> I_fin s.
Proof.
  unfold wf_fin_b, I_fin. rewrite andb_true_iff, !forallb_forall. split.
  - intros [H1 H2]. split.
    + intro x. cbv zeta. destruct (Nat.lt_ge_cases x (length (hp s))) as [L|L].
      * specialize (H1 x (proj2 (In_objs _ _) L)). cbv zeta in H1.
        apply andb_true_iff in H1 as [H1 Hown]. apply andb_true_iff in H1 as [Hpar Hl].
        rewrite forallb_forall in Hl.
        split; [|split].
        -- intros p Hp. rewrite Hp in Hpar. apply ltn_spec; exact Hpar.
        -- intros y Hy. apply ltn_spec. apply Hl; exact Hy.
        -- intros w Hw. rewrite Hw in Hown. apply Nat.ltb_lt; exact Hown.
      * rewrite (get_out _ _ L). simpl. split; [|split]; intros; try discriminate; try contradiction.
    + intros r Hr. apply ltn_spec. apply H2; exact Hr.
  - intros [H1 H2]. split.
    + intros x _. destruct (H1 x) as [Hp [Hl Ho]]. cbv zeta.
      apply andb_true_iff; split; [apply andb_true_iff; split|].
      * destruct (par (get (hp s) x)) as [p|]; [apply ltn_spec, Hp; reflexivity | reflexivity].
      * apply forallb_forall. intros y Hy. apply ltn_spec, Hl, Hy.
      * destruct (own (get (hp s) x)) as [w|]; [apply Nat.ltb_lt, Ho; reflexivity | reflexivity].
    + intros r Hr. apply ltn_spec, H2, Hr.
Qed.

(* ---------------- I_pc ---------------- *)
Theorem wf_pc_b_spec s : wf_pc_b s = true <-> I_pc s.
Proof.
  unfold wf_pc_b, I_pc. rewrite andb_true_iff, !forallb_forall. split.
  - intros [H1 H2]. split.
    + intros c p. split.
      * intro Hp. pose proof (par_Some_lt _ _ _ Hp) as L.
        specialize (H1 c (proj2 (In_objs _ _) L)). rewrite Hp in H1. apply memn_In; exact H1.
      * intro Hin. pose proof (kids_In_lt _ _ _ Hin) as L.
        specialize (H2 p (proj2 (In_objs _ _) L)). apply andb_true_iff in H2 as [_ H2].
        rewrite forallb_forall in H2. apply onat_eqb_eq. apply H2; exact Hin.
    + intro p. destruct (Nat.lt_ge_cases p (length (hp s))) as [L|L].
      * specialize (H2 p (proj2 (In_objs _ _) L)). apply andb_true_iff in H2 as [H2 _].
        apply nodupb_nat; exact H2.
      * rewrite get_out_kids by exact L. constructor.
  - intros [H1 H2]. split.
    + intros c _. destruct (par (get (hp s) c)) as [p|] eqn:Hp; [|reflexivity].
      apply memn_In. apply H1. exact Hp.
    + intros p _. apply andb_true_iff; split; [apply nodupb_nat, H2|].
      apply forallb_forall. intros c Hc. apply onat_eqb_eq. apply H1. exact Hc.
Qed.

(* ---------------- I_acy ---------------- *)
Theorem wf_acy_b_spec s : wf_acy_b s = true <-> I_acy s.
Proof.
  unfold wf_acy_b, I_acy. rewrite forallb_forall. split.
  - intros H t A. pose proof (Anc_lt_l _ _ _ A) as L.
    specialize (H t (proj2 (In_objs _ _) L)).
    destruct (ancf (length (hp s)) (hp s) t) as [l|] eqn:E; [|discriminate].
    apply negb_true_iff, memn_false in H. apply H.
    apply (Chain_In_Anc _ _ _ (ancf_Chain _ _ _ _ E)). exact A.
  - intros Hacy x _. destruct (chain_exists (hp s) x Hacy) as [l [_ [E [_ [Hn _]]]]].
    rewrite E. apply negb_true_iff, memn_false. exact Hn.
Qed.

(* ---------------- I_sym ---------------- *)
Theorem wf_sym_b_spec s : wf_sym_b s = true <-> I_sym s.
Proof.
  unfold wf_sym_b, I_sym. rewrite forallb_forall. split.
  - intro H.
    assert (H' : forall a, a < length (hp s) ->
               NoDup (preds (get (hp s) a)) /\ NoDup (succs (get (hp s) a)) /\
               (forall b, In b (preds (get (hp s) a)) -> In a (succs (get (hp s) b))) /\
               (forall b, In b (succs (get (hp s) a)) -> In a (preds (get (hp s) b)))).
    { intros a L. specialize (H a (proj2 (In_objs _ _) L)). cbv zeta in H.
      apply andb_true_iff in H as [H H4]. apply andb_true_iff in H as [H H3].
      apply andb_true_iff in H as [H1 H2]. rewrite forallb_forall in H3, H4.
      repeat split; try (apply nodupb_nat; assumption).
      - intros b Hb. apply memn_In, H3, Hb.
      - intros b Hb. apply memn_In, H4, Hb. }
    split.
    + intros a b. split; intro Hin.
      * apply (H' a (preds_In_lt _ _ _ Hin)). exact Hin.
      * apply (H' b (succs_In_lt _ _ _ Hin)). exact Hin.
    + intro a. destruct (Nat.lt_ge_cases a (length (hp s))) as [L|L].
      * destruct (H' a L) as [N1 [N2 _]]. split; assumption.
      * rewrite get_out_preds, get_out_succs by exact L. split; constructor.
  - intros [H1 H2] a _. cbv zeta. destruct (H2 a) as [N1 N2].
    repeat (apply andb_true_iff; split); try (apply nodupb_nat; assumption).
    + apply forallb_forall. intros b Hb. apply memn_In, H1, Hb.
    + apply forallb_forall. intros b Hb. apply memn_In, H1, Hb.
Qed.

(* ---------------- I_dag: Graph/DepLemmas.wf_dag_b_spec ---------------- *)
Definition wf_dag_b_spec := DepLemmas.wf_dag_b_spec.

(* ---------------- I_sep ---------------- *)
Theorem wf_sep_b_sound s : wf_sep_b s = true -> I_sep s.
Proof.
  unfold wf_sep_b, I_sep. rewrite forallb_forall. intros H a b Hin.
  specialize (H a (proj2 (In_objs _ _) (preds_In_lt _ _ _ Hin))).
  rewrite forallb_forall in H. specialize (H b Hin).
  destruct (ancf (length (hp s)) (hp s) a) as [la|] eqn:Ea; [|discriminate].
  destruct (ancf (length (hp s)) (hp s) b) as [lb|] eqn:Eb; [|discriminate].
  apply andb_true_iff in H as [Ha Hb].
  apply negb_true_iff, memn_false in Ha. apply negb_true_iff, memn_false in Hb.
  split; intro A.
  - apply Ha. apply (Chain_In_Anc _ _ _ (ancf_Chain _ _ _ _ Ea)). exact A.
  - apply Hb. apply (Chain_In_Anc _ _ _ (ancf_Chain _ _ _ _ Eb)). exact A.
Qed.

Theorem wf_sep_b_complete s : I_acy s -> I_sep s -> wf_sep_b s = true.
Proof.
  unfold wf_sep_b, I_sep. intros Hacy H. apply forallb_forall. intros a _.
  apply forallb_forall. intros b Hin. destruct (H a b Hin) as [N1 N2].
  destruct (chain_exists (hp s) a Hacy) as [la [Ca [Ea _]]].
  destruct (chain_exists (hp s) b Hacy) as [lb [Cb [Eb _]]].
  rewrite Ea, Eb. apply andb_true_iff; split; apply negb_true_iff, memn_false; intro Hin'.
  - apply N1. apply (Chain_In_Anc _ _ _ Ca). exact Hin'.
  - apply N2. apply (Chain_In_Anc _ _ _ Cb). exact Hin'.
Qed.

Theorem wf_sep_b_spec s : I_acy s -> (wf_sep_b s = true <-> I_sep s).
Proof. intro Hacy. split; [apply wf_sep_b_sound | apply wf_sep_b_complete; exact Hacy]. Qed.

(* ---------------- I_ids ---------------- *)
Theorem wf_ids_b_sound s : wf_ids_b s = true -> I_ids s.
Proof.
  unfold wf_ids_b, I_ids. rewrite forallb_forall. intros H a b r La Lb Ra Rb Et.
  specialize (H a (proj2 (In_objs _ _) La)). rewrite forallb_forall in H.
  specialize (H b (proj2 (In_objs _ _) Lb)).
  destruct (rootof (hp s) a) as [ra|] eqn:Ea; [|discriminate].
  destruct (rootof (hp s) b) as [rb|] eqn:Eb; [|discriminate].
  assert (ra = r) by (eapply Root_unique; [apply rootof_Root; exact Ea | exact Ra]).
  assert (rb = r) by (eapply Root_unique; [apply rootof_Root; exact Eb | exact Rb]).
  subst ra rb. rewrite Nat.eqb_refl, Et, Z.eqb_refl in H. simpl in H.
  apply Nat.eqb_eq. exact H.
Qed.

Theorem wf_ids_b_complete s : I_acy s -> I_ids s -> wf_ids_b s = true.
Proof.
  unfold wf_ids_b, I_ids. intros Hacy H. apply forallb_forall. intros a Ha.
  apply forallb_forall. intros b Hb. apply In_objs in Ha, Hb.
  destruct (rootof_total (hp s) a Hacy) as [ra Ea]. destruct (rootof_total (hp s) b Hacy) as [rb Eb].
  rewrite Ea, Eb.
  destruct (Nat.eqb ra rb && Z.eqb (tid (get (hp s) a)) (tid (get (hp s) b))) eqn:E; [|reflexivity].
  apply andb_true_iff in E as [E1 E2]. apply Nat.eqb_eq in E1. apply Z.eqb_eq in E2. subst rb.
  simpl. apply Nat.eqb_eq.
  apply (H a b ra Ha Hb); [apply rootof_Root; exact Ea | apply rootof_Root; exact Eb | exact E2].
Qed.

Theorem wf_ids_b_spec s : I_acy s -> (wf_ids_b s = true <-> I_ids s).
Proof. intro Hacy. split; [apply wf_ids_b_sound | apply wf_ids_b_complete; exact Hacy]. Qed.

(* ---------------- I_hid ---------------- *)
Theorem wf_hid_b_spec s : wf_hid_b s = true <-> I_hid s.
Proof.
  unfold wf_hid_b, I_hid. rewrite !andb_true_iff, !forallb_forall, nodupb_nat. split.
  - intros [[H1 H2] H3]. split; [exact H1|]. split.
    + intros x L. specialize (H2 x (proj2 (In_objs _ _) L)). apply eqb_prop in H2.
      rewrite H2. apply memn_In.
    + intros w L. cbv zeta. specialize (H3 w (proj2 (in_seq _ _ _) (conj (Nat.le_0_l w) L))).
      cbv zeta in H3. apply andb_true_iff in H3 as [H3 Hl]. apply andb_true_iff in H3 as [Ho Hp].
      apply onat_eqb_eq in Ho. apply onat_eqb_eq in Hp.
      destruct (preds (get (hp s) (nth w (wroots s) 0))); [|discriminate].
      destruct (succs (get (hp s) (nth w (wroots s) 0))); [|discriminate]. auto.
  - intros [H1 [H2 H3]]. split; [split; [exact H1|]|].
    + intros x Hx. apply In_objs in Hx. specialize (H2 x Hx).
      destruct (hidden (get (hp s) x)) eqn:Eh, (memn x (wroots s)) eqn:Em; try reflexivity; exfalso.
      * apply memn_false in Em. apply Em, H2. reflexivity.
      * apply memn_In in Em. apply H2 in Em. discriminate.
    + intros w Hw. apply in_seq in Hw. destruct (H3 w) as [Ho [Hp [Hpr Hsu]]]; [lia|]. cbv zeta.
      rewrite Ho, Hp, Hpr, Hsu, !onat_eqb_refl. reflexivity.
Qed.

(* ---------------- I_own ---------------- *)
Lemma index_of_Some x l i : index_of x l = Some i -> i < length l /\ nth i l 0 = x.
Proof.
  revert i. induction l as [|y r IH]; intros i H; simpl in H; [discriminate|].
  destruct (Nat.eqb x y) eqn:E.
  - inversion H; subst. apply Nat.eqb_eq in E. simpl. split; [lia | congruence].
  - destruct (index_of x r) as [j|]; [|discriminate]. inversion H; subst.
    destruct (IH j eq_refl) as [L N]. simpl. split; [lia | exact N].
Qed.

Lemma index_of_None x l : index_of x l = None -> ~ In x l.
Proof.
  induction l as [|y r IH]; simpl; intros H; [tauto|].
  destruct (Nat.eqb x y) eqn:E; [discriminate|]. apply Nat.eqb_neq in E.
  destruct (index_of x r); [discriminate|]. intros [E'|Hin]; [congruence | exact (IH eq_refl Hin)].
Qed.

Lemma index_of_nth l i : NoDup l -> i < length l -> index_of (nth i l 0) l = Some i.
Proof.
  intros Hnd L. destruct (index_of (nth i l 0) l) as [j|] eqn:E.
  - destruct (index_of_Some _ _ _ E) as [Lj Nj]. f_equal.
    apply (proj1 (NoDup_nth l 0) Hnd); assumption.
  - exfalso. apply (index_of_None _ _ E). apply nth_In. exact L.
Qed.

Theorem wf_own_b_sound s : NoDup (wroots s) -> wf_own_b s = true -> I_own s.
Proof.
  unfold wf_own_b, I_own. rewrite forallb_forall. intros Hnd H t w L.
  specialize (H t (proj2 (In_objs _ _) L)).
  destruct (rootof (hp s) t) as [r|] eqn:Er; [|discriminate].
  apply onat_eqb_eq in H. pose proof (rootof_Root _ _ _ Er) as HR. split.
  - intro Ho. rewrite Ho in H. symmetry in H. apply index_of_Some in H as [Lw Nw].
    split; [exact Lw | subst r; exact HR].
  - intros [Lw HRw]. assert (E : nth w (wroots s) 0 = r) by (eapply Root_unique; eauto).
    rewrite H, <- E. apply index_of_nth; assumption.
Qed.

Theorem wf_own_b_complete s : I_acy s -> I_own s -> wf_own_b s = true.
Proof.
  unfold wf_own_b, I_own. intros Hacy H. apply forallb_forall. intros t Ht. apply In_objs in Ht.
  destruct (rootof_total (hp s) t Hacy) as [r Er]. rewrite Er.
  pose proof (rootof_Root _ _ _ Er) as HR. apply onat_eqb_eq.
  destruct (index_of r (wroots s)) as [w'|] eqn:Ei.
  - apply index_of_Some in Ei as [Lw Nw]. apply (H t w' Ht). split; [exact Lw | subst r; exact HR].
  - destruct (own (get (hp s) t)) as [w|] eqn:Eo; [|reflexivity]. exfalso.
    apply (H t w Ht) in Eo as [Lw HRw].
    apply (index_of_None _ _ Ei).
    assert (E : nth w (wroots s) 0 = r) by (eapply Root_unique; eauto).
    rewrite <- E. apply nth_In. exact Lw.
Qed.

Theorem wf_own_b_spec s : NoDup (wroots s) -> I_acy s -> (wf_own_b s = true <-> I_own s).
Proof. intros Hnd Hacy. split; [apply wf_own_b_sound; exact Hnd | apply wf_own_b_complete; exact Hacy]. Qed.

(* ---------------- WF ---------------- *)
Lemma WF_fin s : WF s -> I_fin s.  Proof. unfold WF; tauto. Qed.
Lemma WF_pc s : WF s -> I_pc s.    Proof. unfold WF; tauto. Qed.
Lemma WF_acy s : WF s -> I_acy s.  Proof. unfold WF; tauto. Qed.
Lemma WF_sym s : WF s -> I_sym s.  Proof. unfold WF; tauto. Qed.
Lemma WF_dag s : WF s -> I_dag s.  Proof. unfold WF; tauto. Qed.
Lemma WF_sep s : WF s -> I_sep s.  Proof. unfold WF; tauto. Qed.
Lemma WF_ids s : WF s -> I_ids s.  Proof. unfold WF; tauto. Qed.
Lemma WF_hid s : WF s -> I_hid s.  Proof. unfold WF; tauto. Qed.
Lemma WF_own s : WF s -> I_own s.  Proof. unfold WF; tauto. Qed.

Theorem wf_b_WF s : wf_b s = true -> WF s.
Proof.
  unfold wf_b. rewrite !andb_true_iff.
  intros [[[[[[[[Hfin Hpc] Hacy] Hsym] Hdag] Hsep] Hids] Hhid] Hown].
  apply wf_fin_b_spec in Hfin. apply wf_pc_b_spec in Hpc. apply wf_acy_b_spec in Hacy.
  apply wf_sym_b_spec in Hsym. apply (DepLemmas.wf_dag_b_spec s Hfin) in Hdag.
  apply wf_sep_b_sound in Hsep. apply wf_ids_b_sound in Hids. apply wf_hid_b_spec in Hhid.
  apply (wf_own_b_sound s (proj1 Hhid)) in Hown.
  unfold WF. tauto.
Qed.

Theorem WF_wf_b s : WF s -> wf_b s = true.
Proof.
  intros [Hfin [Hpc [Hacy [Hsym [Hdag [Hsep [Hids [Hhid Hown]]]]]]]].
  unfold wf_b. rewrite !andb_true_iff. repeat split.
  - apply wf_fin_b_spec; exact Hfin.
  - apply wf_pc_b_spec; exact Hpc.
  - apply wf_acy_b_spec; exact Hacy.
  - apply wf_sym_b_spec; exact Hsym.
  - apply (DepLemmas.wf_dag_b_spec s Hfin); exact Hdag.
  - apply wf_sep_b_complete; assumption.
  - apply wf_ids_b_complete; assumption.
  - apply wf_hid_b_spec; exact Hhid.
  - apply wf_own_b_complete; assumption.
Qed.

Theorem wf_b_spec s : wf_b s = true <-> WF s.
Proof. split; [apply wf_b_WF | apply WF_wf_b]. Qed.

(* non-vacuity: the initial state and a small hand-made state are well-formed *)
Example WF_init : WF init.
Proof. apply wf_b_WF. vm_compute. reflexivity. Qed.

Definition demo_state : state :=
  mkS [ mkT EMPTY_ID None [1] [] [] (Some 0) true None [] None;
        mkT 1 (Some 0) [2] [] [] (Some 0) false None [] None;
        mkT 2 (Some 1) [] [] [3] (Some 0) false None [] None;
        mkT 3 None [] [2] [] None false None [] None ] [0].

Example WF_demo : WF demo_state.
Proof. apply wf_b_WF. vm_compute. reflexivity. Qed.

(* and the oracle does reject: a parent cycle / a one-sided link *)
Example not_WF_cycle :
  ~ WF (mkS [ mkT 1 (Some 1) [0] [] [] None false None [] None;
              mkT 2 (Some 0) [1] [] [] None false None [] None ] []).
Proof. intro H. apply WF_wf_b in H. vm_compute in H. discriminate. Qed.
