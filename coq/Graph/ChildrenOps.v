(* The operations derived from the children setter preserve WF, and what a removal does (C11).

   INDEX
     kid_pub                   a child is a public object (in range, not a hidden WBS root)
     ch_remove_WF              WF s -> WF (fst (ch_remove s o c))                    (no condition on o, c)
     ch_remove_all_WF          WF s -> WF (fst (ch_remove_all s o ids))
     op_floordiv_WF            WF s -> o < length (hp s) -> pubs s vs -> WF (fst (op_floordiv s o vs))
     lst_set_children_WF       WF s -> ts allocated -> pubs s vs -> WF (fst (lst_set_children s ts vs))
     wbs_remove_task_WF, wbs_remove_WF, wbs_remove_all_WF        (no condition on the arguments)
     *_pub                     none of these operations changes which objects are public
     children_args_pub s o, children_step_WF, children_step_pub  the seven operations as steps of [step]
     own_guard, set_parent_guard_own_clause                      the ownership clause of set_parent_guard
     ch_remove_releases        C11: after an accepted children.remove(t) the task t has no parent, nothing
                               below t has an owner, t is in no WBS, and the ownership clause of a later
                               append (to any parent) does not reject t                              *)
From Coq Require Import Arith PeanoNat.
From PJ Require Import Base.Prelude Graph.Model Graph.Invariant Graph.AncLemmas Graph.AncLemmas2
                       Graph.LinksProofs Graph.LinksOps
                       Graph.ChildrenProofsWrite Graph.ChildrenProofsInv Graph.ChildrenProofs.
Local Open Scope nat_scope.

Lemma kid_lt s o c : I_fin s -> In c (kids (get (hp s) o)) -> c < length (hp s).
Proof.
  intros [F _] H. specialize (F o). cbv zeta in F. apply (proj1 (proj2 F)). apply in_or_app. left. exact H.
Qed.

Lemma kid_pub s o c : WF s -> In c (kids (get (hp s) o)) -> pub s c.
Proof.
  intros (F & P & _ & _ & _ & _ & _ & Hid & _) H.
  assert (L : c < length (hp s)) by (eapply kid_lt; eauto).
  split; [exact L|]. destruct (hidden (get (hp s) c)) eqn:E; [|reflexivity]. exfalso.
  destruct Hid as (_ & Bh & Ch). apply (Bh c L) in E.
  destruct (In_nth _ _ 0 E) as [w [Lw Ew]]. destruct (Ch w Lw) as (_ & Pw & _).
  cbv zeta in Pw. unfold obj in *. rewrite Ew in Pw.
  apply (proj1 P) in H. congruence.
Qed.

Lemma kids_pubs s o : WF s -> pubs s (map Some (kids (get (hp s) o))).
Proof. intro W. apply pubs_map_Some. intros v Hv. eapply kid_pub; eauto. Qed.

(* ---- children.remove(c) ---- *)
Theorem ch_remove_WF s o c : WF s -> WF (fst (ch_remove s o c)).
Proof.
  intro W. unfold ch_remove. destruct c as [c|]; [|exact W]. cbv zeta.
  destruct (memn c (kids (get (hp s) o))) eqn:M; [|exact W].
  apply memn_In in M. apply set_children_WF; [exact W | eapply kids_In_lt; eauto |].
  apply pubs_map_Some. intros v Hv. apply In_without in Hv. eapply kid_pub; [exact W | apply Hv].
Qed.

Theorem ch_remove_pub s o c x : pub (fst (ch_remove s o c)) x <-> pub s x.
Proof.
  unfold ch_remove. destruct c as [c|]; [|reflexivity]. cbv zeta.
  destruct (memn c (kids (get (hp s) o))); [apply set_children_pub | reflexivity].
Qed.

(* ---- children.remove_all(id_in_=ids) ---- *)
Theorem ch_remove_all_WF s o ids : WF s -> WF (fst (ch_remove_all s o ids)).
Proof.
  unfold ch_remove_all. apply (seq_calls_inv WF (fun s' c => ch_remove s' o (Some c))).
  intros s' c _ W. apply ch_remove_WF. exact W.
Qed.

Theorem ch_remove_all_pub s o ids x : pub (fst (ch_remove_all s o ids)) x <-> pub s x.
Proof.
  unfold ch_remove_all.
  apply (seq_calls_inv (fun s' => pub s' x <-> pub s x) (fun s' c => ch_remove s' o (Some c))); [|reflexivity].
  intros s' c _ H. rewrite ch_remove_pub. exact H.
Qed.

(* ---- t // vs, wbs // vs ---- *)
Theorem op_floordiv_WF s o vs :
  WF s -> o < length (hp s) -> pubs s vs -> WF (fst (op_floordiv s o vs)).
Proof.
  intros W Lo Pv. unfold op_floordiv. apply set_children_WF; [exact W | exact Lo |].
  apply pubs_app; [apply kids_pubs; exact W | exact Pv].
Qed.

Theorem op_floordiv_pub s o vs x : pub (fst (op_floordiv s o vs)) x <-> pub s x.
Proof. unfold op_floordiv. apply set_children_pub. Qed.

(* ---- ts.children = vs on a task list: one setter call per element, undone as a whole ---- *)
Theorem lst_set_children_pub s ts vs y : pub (fst (lst_set_children s ts vs)) y <-> pub s y.
Proof.
  unfold lst_set_children, all_or_nothing.
  destruct (snd (lst_set_children_seq s ts vs)) as [[]| |c]; cbn [fst]; [|reflexivity..]. unfold lst_set_children_seq.
  apply (seq_calls_inv (fun s' => pub s' y <-> pub s y) (fun s' t => set_children s' t vs)); [|reflexivity].
  intros s' c _ H. rewrite set_children_pub. exact H.
Qed.

Theorem lst_set_children_seq_WF s ts vs :
  WF s -> (forall t, In t ts -> t < length (hp s)) -> pubs s vs -> WF (fst (lst_set_children_seq s ts vs)).
Proof.
  intros W Lt Pv. unfold lst_set_children_seq.
  apply (seq_calls_inv (fun s' => WF s' /\ length (hp s') = length (hp s) /\ forall y, pub s' y <-> pub s y)
           (fun s' t => set_children s' t vs));
    [|split; [exact W|split; reflexivity]].
  intros s' t Ht (W' & L & E). split; [|split].
  - apply set_children_WF; [exact W'|rewrite L; apply Lt, Ht|]. eapply pubs_frame; [exact E|exact Pv].
  - rewrite <- L. apply cf_len. apply set_children_shape.
  - intro y. rewrite set_children_pub. apply E.
Qed.

Theorem lst_set_children_WF s ts vs :
  WF s -> (forall t, In t ts -> t < length (hp s)) -> pubs s vs -> WF (fst (lst_set_children s ts vs)).
Proof.
  intros W Lt Pv. unfold lst_set_children, all_or_nothing.
  destruct (snd (lst_set_children_seq s ts vs)) as [[]| |c]; cbn [fst]; [|exact W..].
  apply lst_set_children_seq_WF; assumption.
Qed.

(* ---- WBS.remove / WBS.remove_all ---- *)
Theorem wbs_remove_task_WF s w t : WF s -> WF (fst (wbs_remove_task s w t)).
Proof.
  intro W. unfold wbs_remove_task. destruct (wbs_tasks s w) as [l| |k]; try exact W.
  destruct (find _ _) as [q|]; [apply ch_remove_WF; exact W | exact W].
Qed.

Theorem wbs_remove_task_pub s w t x : pub (fst (wbs_remove_task s w t)) x <-> pub s x.
Proof.
  unfold wbs_remove_task. destruct (wbs_tasks s w) as [l| |k]; try reflexivity.
  destruct (find _ _) as [q|]; [apply ch_remove_pub | reflexivity].
Qed.

Theorem wbs_remove_WF s w t : WF s -> WF (fst (wbs_remove s w t)).
Proof. intro W. unfold wbs_remove. destruct t as [t|]; [apply wbs_remove_task_WF; exact W | exact W]. Qed.

Theorem wbs_remove_pub s w t x : pub (fst (wbs_remove s w t)) x <-> pub s x.
Proof. unfold wbs_remove. destruct t as [t|]; [apply wbs_remove_task_pub | reflexivity]. Qed.

Theorem wbs_remove_all_WF s w ids : WF s -> WF (fst (wbs_remove_all s w ids)).
Proof.
  intro W. unfold wbs_remove_all. destruct (wbs_tasks s w) as [l| |k]; try exact W.
  apply (seq_calls_inv WF (fun s' t => wbs_remove_task s' w t)); [|exact W].
  intros s' c _ W'. apply wbs_remove_task_WF. exact W'.
Qed.

Theorem wbs_remove_all_pub s w ids x : pub (fst (wbs_remove_all s w ids)) x <-> pub s x.
Proof.
  unfold wbs_remove_all. destruct (wbs_tasks s w) as [l| |k]; try reflexivity.
  apply (seq_calls_inv (fun s' => pub s' x <-> pub s x) (fun s' t => wbs_remove_task s' w t)); [|reflexivity].
  intros s' c _ H. rewrite wbs_remove_task_pub. exact H.
Qed.

(* ================= the seven operations as steps ================= *)
(* the receiving task may be a hidden WBS root (wbs.roots = ..., wbs // ...); the tasks handed over are
   public objects *)
Definition children_args_pub (s : state) (o : op) : Prop :=
  match o with
  | SetChildren _ vs | OpFloordiv _ vs | LstSetChildren _ vs => pubs s vs
  | ChRemove _ _ | ChRemoveAll _ _ | WbsRemove _ _ | WbsRemoveAll _ _ => True
  | _ => False
  end.

Lemma okobj_lt s x : okobj s x = true -> x < length (hp s).
Proof. unfold okobj. apply Nat.ltb_lt. Qed.

Theorem children_step_WF s o : WF s -> children_args_pub s o -> WF (fst (step s o)).
Proof.
  intros W A. unfold step. destruct (args_ok s o) eqn:Ok; [|exact W].
  destruct o; simpl in A; try contradiction; simpl in Ok |- *.
  - apply andb_true_iff in Ok. destruct Ok as [Ok _]. apply set_children_WF; [exact W | apply okobj_lt; exact Ok | exact A].
  - apply ch_remove_WF; exact W.
  - apply ch_remove_all_WF; exact W.
  - apply andb_true_iff in Ok. destruct Ok as [Ok _]. apply op_floordiv_WF; [exact W | apply okobj_lt; exact Ok | exact A].
  - apply andb_true_iff in Ok. destruct Ok as [Ok _]. apply lst_set_children_WF; [exact W | | exact A].
    intros t Ht. apply okobj_lt. apply (proj1 (forallb_forall _ _) Ok t Ht).
  - apply wbs_remove_WF; exact W.
  - apply wbs_remove_all_WF; exact W.
Qed.

Theorem children_step_pub s o y : children_args_pub s o -> (pub (fst (step s o)) y <-> pub s y).
Proof.
  intro A. unfold step. destruct (args_ok s o); [|reflexivity].
  destruct o; simpl in A; try contradiction; simpl.
  - apply set_children_pub.
  - apply ch_remove_pub.
  - apply ch_remove_all_pub.
  - apply op_floordiv_pub.
  - apply lst_set_children_pub.
  - apply wbs_remove_pub.
  - apply wbs_remove_all_pub.
Qed.

(* ================= C11: what a removal does ================= *)
(* the ownership clause of set_parent_guard ("Parent must be from same WBS") *)
Definition own_guard (s : state) (t : obj) (p : option obj) : outcome :=
  match own (get (hp s) t), p with
  | Some w, Some p' => failif (negb (onat_eqb (own (get (hp s) p')) (Some w))) Err
  | _, _ => OK
  end.

Lemma set_parent_guard_own_clause s t p : own_guard s t p <> OK -> set_parent_guard s t p = Err.
Proof.
  unfold own_guard, set_parent_guard. cbv zeta. intro H.
  destruct (onat_eqb p (Some t)); [reflexivity|]. cbn [failif bind].
  destruct (own (get (hp s) t)) as [w|]; [|exfalso; apply H; reflexivity].
  destruct p as [p'|]; [|exfalso; apply H; reflexivity].
  destruct (negb (onat_eqb (own (get (hp s) p')) (Some w))); [reflexivity | exfalso; apply H; reflexivity].
Qed.

Lemma sib_not_Anc h o v t : acyclic h -> par (get h v) = Some o -> par (get h t) = Some o -> ~ Anc h v t.
Proof.
  intros Acy Pv Pt An. apply Anc_inv in An. destruct An as [q [Hq An]].
  assert (q = o) by congruence. subst q. apply (Acy t). destruct An as [E|An].
  - subst o. apply Anc_par. exact Pt.
  - eapply Anc_up; eauto.
Qed.

Theorem ch_remove_releases s o t :
  WF s -> In t (kids (get (hp s) o)) -> snd (ch_remove s o (Some t)) = OK ->
  let s' := fst (ch_remove s o (Some t)) in
  WF s' /\
  par (get (hp s') t) = None /\
  ~ In t (kids (get (hp s') o)) /\
  (forall x, In x (subtree (hp s') t) -> own (get (hp s') x) = None) /\
  (forall x, In x (subtree (hp s) t) -> own (get (hp s') x) = None) /\
  (forall w l, wbs_tasks s' w = Ok l -> ~ In t l) /\
  (forall p, own_guard s' t p = OK).
Proof.
  intros W Hin Hok. cbv zeta.
  pose proof (ch_remove_WF s o (Some t) W) as W'.
  split; [exact W'|].
  revert Hok W'. unfold ch_remove. cbv zeta.
  pose proof (proj2 (memn_In t _) Hin) as M. rewrite M.
  pose proof W as (F & P & Acy & _).
  set (value := without t (kids (get (hp s) o))).
  assert (Nk : NoDup (kids (get (hp s) o))) by apply (proj2 P).
  assert (Nv : NoDup value) by (apply NoDup_without; exact Nk).
  assert (Ev : dedup (somes (map Some value)) = value) by (rewrite somes_map_Some; apply dedup_NoDup_id; exact Nv).
  intros Hok W'.
  destruct (set_children_cases s o (map Some value)) as [[G E]|[_ [_ E]]]; [|contradiction].
  rewrite Ev in G, E. rewrite E in W' |- *. cbn [fst] in W' |- *. clear Hok.
  assert (Lo : o < length (hp s)) by (eapply kids_In_lt; eauto).
  assert (Hpub : forall v, In v value -> pub s v).
  { intros v Hv. apply In_without in Hv. eapply kid_pub; [exact W | apply Hv]. }
  assert (Pt : par (get (hp s) t) = Some o) by (apply (proj1 P); exact Hin).
  assert (Rt : In t (released (hp s) o value)).
  { apply In_released. split; [exact Hin|]. intro X. apply In_without in X. destruct X as [_ X]. apply X. reflexivity. }
  (* nothing below t is below one of the kept children *)
  assert (NA : forall x, Sub (hp s) t x -> ~ A s value x).
  { intros x St [v [Hv Sv]]. apply In_without in Hv. destruct Hv as [Hv Nvt].
    assert (Pv : par (get (hp s) v) = Some o) by (apply (proj1 P); exact Hv).
    assert (C : v = t \/ Anc (hp s) v t \/ Anc (hp s) t v).
    { destruct St as [E1|A1], Sv as [E2|A2].
      - left. congruence.
      - subst x. right; right. exact A2.
      - subst x. right; left. exact A1.
      - destruct (Anc_linear _ _ _ _ A2 A1) as [C|[C|C]]; auto. }
    destruct C as [C|[C|C]]; [exact (Nvt C) | exact (sib_not_Anc _ o v t Acy Pv Pt C) | exact (sib_not_Anc _ o t v Acy Pt Pv C)]. }
  assert (Own0 : forall x, Sub (hp s) t x -> own (get (hp (set_children_write s o value)) x) = None).
  { intros x St. apply (own'_B s o value W Hpub x (NA x St)). exists t. split; [exact Rt | exact St]. }
  assert (Par' : par (get (hp (set_children_write s o value)) t) = None).
  { apply (par'_R s o value W Hpub). exact Rt. }
  split; [exact Par'|]. split; [|split; [|split; [|split]]].
  - rewrite (kids' s o value W Lo Nv Hpub), Nat.eqb_refl. unfold value. rewrite In_without. intros [_ X]. apply X. reflexivity.
  - intros x Hx. pose proof W' as (_ & _ & Acy' & _).
    apply (In_subtree _ t x Acy') in Hx. destruct Hx as [_ Sx]. apply Own0.
    destruct Sx as [E1|An]; [left; exact E1|]. right.
    apply (Anc_new_old s o value W Hpub G) in An. destruct An as [An|[_ So]]; [exact An|]. exfalso.
    apply (Acy t). destruct So as [E1|Ao]; [subst o; apply Anc_par; exact Pt | eapply Anc_up; eauto].
  - intros x Hx. apply (In_subtree _ t x Acy) in Hx. apply Own0. apply Hx.
  - intros w l Hl Ht.
    pose proof W' as (_ & P' & Acy' & _).
    destruct (all_children_spec_WF _ (wroot (set_children_write s o value) w) P' Acy') as (l0 & E0 & _ & I0 & _).
    unfold wbs_tasks in Hl. rewrite E0 in Hl. inversion Hl; subst l0.
    apply I0 in Ht. apply Anc_has_par in Ht. destruct Ht as [q Hq]. congruence.
  - intro p. unfold own_guard. rewrite (Own0 t (Sub_refl _ t)). reflexivity.
Qed.
