(* Source-text tie, eighth tranche: what a REJECTED call leaves behind, read off the translated source (property C15).

   gen/SrcGraph.v holds a second translation of the four relation setters of Task and of the nine list-facade methods
   (suffix _x) in which `raise` is a VALUE: the result carries the heap at the moment of the raise.  Here:
   1. the second translation is the first one with the heap kept (xproj forgets it again) - for all inputs
      ([*_x_proj]);
   2. a setter (and children.move) that raises returns the heap it was given - for all inputs, no WF: every raise
      precedes the first write ([*_x_raise]);
   3. the same for the list facades ([*_x_raise]); children.insert on well-formed states by way of the model
      ([src_ch_insert_xat], [src_ch_insert_x_raise]) and, beyond that, on EVERY heap by reading the guards of the inner
      move ([src_ch_insert_xat_any], [src_ch_insert_x_raise_any]);
   4. under the hypotheses of the equations of SrcGraphEquiv3-7 the _x functions never crash ([*_x_no_crash]); on all
      inputs they never answer a RuntimeError WITHOUT a heap (third part of [xsim], [src_ch_insert_x_no_Err]);
      children.reorder has no raise, it crashes in its loop or writes once at the end ([src_ch_reorder_x_outcomes]);
   5. per function: [*_atomic] (a call that does not return leaves the heap) and [*_outcome] (a call returns, or raises
      with the heap it was given - nothing else).
   All three facts of 1, 2 and "no bare Err" are proved together, by ONE case analysis per function ([xsim]). *)
From PJ Require Import Base.Prelude Graph.Model Graph.Invariant gen.SrcGraph Graph.SrcGraphEquiv Graph.SrcGraphEquiv2
  Graph.SrcGraphEquiv3 Graph.SrcGraphEquiv4 Graph.SrcGraphEquiv5 Graph.SrcGraphEquiv6 Graph.SrcGraphEquiv7.
Local Open Scope nat_scope.

Definition xproj {A} (r : res (heap * xout A)) : res (heap * A) :=
  match r with
  | Ok (h, XRet a) => Ok (h, a) | Ok (_, XErr) => Err | Ok (_, XRaise k) => Crash k
  | Err => Err | Crash k => Crash k
  end.

(* a raise (RuntimeError or an explicit raise of another exception) hands back the heap [h] *)
Definition xat {A} (h : heap) (r : res (heap * xout A)) : Prop :=
  match r with
  | Ok (h', XErr) => h' = h | Ok (h', XRaise _) => h' = h
  | _ => True
  end.

(* no raise at all (the writing loops) *)
Definition xnr {A} (r : res (heap * xout A)) : Prop :=
  match r with
  | Ok (_, XErr) => False | Ok (_, XRaise _) => False
  | _ => True
  end.

(* [rx] is [r] with the heap kept, a raise of [rx] hands back [h], and no RuntimeError of [rx] comes without a heap *)
Definition xsim {A} (h : heap) (rx : res (heap * xout A)) (r : res (heap * A)) : Prop :=
  xproj rx = r /\ xat h rx /\ rx <> Err.
(* [rx] is [r] with the heap kept, and never raises *)
Definition xsimw {A} (rx : res (heap * xout A)) (r : res (heap * A)) : Prop := xproj rx = r /\ xnr rx /\ rx <> Err.

Lemma xnr_xat {A} h (r : res (heap * xout A)) : xnr r -> xat h r.
Proof. destruct r as [[h' [a| |k]]| |k]; cbn [xnr xat]; tauto. Qed.

Lemma xsimw_xsim {A} h (rx : res (heap * xout A)) r : xsimw rx r -> xsim h rx r.
Proof. intros (E & N & NE). split; [exact E | split; [apply xnr_xat; exact N | exact NE]]. Qed.

(* ---- the callees that thread a heap or answer a value never answer the bare RuntimeError ---- *)

Lemma src_fold_res_no_Err {S A} (f : S -> A -> res S) : (forall s a, f s a <> Err) ->
  forall l s, src_fold_res f l s <> Err.
Proof.
  intros Hf. induction l as [|a l IH]; intros s; cbn [src_fold_res]; [discriminate|].
  destruct (f s a) as [s'| |k] eqn:E; cbn [bind]; [apply IH | exact (fun _ => Hf s a E) | discriminate].
Qed.

Lemma src_attach_no_Err : forall n h t w, src_attach n h t w <> Err.
Proof.
  induction n as [|n IH]; intros h t w; cbn [src_attach]; [discriminate|].
  destruct w as [w|]; [|discriminate]. cbv zeta.
  match goal with |- bind (src_fold_res ?f ?l ?s) _ <> _ => pose proof (src_fold_res_no_Err f) as N; destruct (src_fold_res f l s) eqn:E end;
    cbn [bind]; try discriminate.
  exfalso. eapply N; [|exact E]. intros s a.
  destruct (src_attach n s a (Some w)) as [[h7 u]| |k] eqn:E2; cbn [bind]; try discriminate.
  exfalso. exact (IH _ _ _ E2).
Qed.

Lemma src_detach_no_Err : forall n h t, src_detach n h t <> Err.
Proof.
  induction n as [|n IH]; intros h t; cbn [src_detach]; [discriminate|].
  destruct (own (get h t)) as [w|]; [|discriminate]. cbv zeta.
  match goal with |- bind (src_fold_res ?f ?l ?s) _ <> _ => pose proof (src_fold_res_no_Err f) as N; destruct (src_fold_res f l s) eqn:E end;
    cbn [bind]; try discriminate.
  exfalso. eapply N; [|exact E]. intros s a.
  destruct (src_detach n s a) as [[h7 u]| |k] eqn:E2; cbn [bind]; try discriminate.
  exfalso. exact (IH _ _ E2).
Qed.

Lemma src_list_index_no_Err l x : src_list_index l x <> Err.
Proof.
  unfold src_list_index. generalize 0%Z. induction l as [|y l IH]; intros k; cbn [src_index_from]; [discriminate|].
  destruct (Nat.eqb y x); [discriminate | apply IH].
Qed.

Lemma src_list_get_no_Err {A} (l : list A) i : src_list_get l i <> Err.
Proof.
  unfold src_list_get. cbv zeta.
  match goal with |- (if ?c then _ else _) <> _ => destruct c end; [|discriminate].
  match goal with |- match ?c with _ => _ end <> _ => destruct c end; discriminate.
Qed.

(* closing a leaf of the case analysis *)
Ltac xleaf :=
  solve [ unfold xsim, xsimw; cbn [xproj xat xnr]; split; [reflexivity | split; [first [reflexivity | exact I] | discriminate]]
        | exfalso; first [ eapply src_attach_no_Err; eassumption | eapply src_detach_no_Err; eassumption
                         | eapply src_list_index_no_Err; eassumption | eapply src_list_get_no_Err; eassumption ] ].

(* one step of the case analysis: both translations branch on the same scrutinee *)
Ltac xstep :=
  let Hx := fresh "Hx" in
  match goal with
  | |- xsim _ (match ?x with _ => _ end) _ => destruct x eqn:Hx
  | |- xsim _ (bind ?x _) _ => destruct x eqn:Hx
  | |- xsimw (match ?x with _ => _ end) _ => destruct x eqn:Hx
  | |- xsimw (bind ?x _) _ => destruct x eqn:Hx
  end; cbn [bind].

Ltac xgo tac := repeat first [ xleaf | solve [tac] | xstep ].

(* ================================================================== *)
(** * 1 + 2 for the setter of Task.parent *)

Theorem src_set_parent_sim : forall F wr h t p, xsim h (src_set_parent_x F wr h t p) (src_set_parent F wr h t p).
Proof.
  intros F wr h t p. unfold src_set_parent_x, src_set_parent. cbv beta zeta.
  xgo fail.
Qed.

(* ================================================================== *)
(** * 1 + 2 for the setters of Task.predecessors / Task.successors: the two writing loops never raise, the two guard
      loops raise with the heap they were given *)

Lemma src_set_predecessors_loop1_sim F h t vs r1 r2 r3 : forall l h6,
  xsimw (src_set_predecessors_x_loop1 F h t vs r1 r2 r3 l h6) (src_set_predecessors_loop1 F h t vs r1 r2 r3 l h6).
Proof.
  induction l as [|v l IH]; intros h6; cbn [src_set_predecessors_x_loop1 src_set_predecessors_loop1]; cbv beta zeta.
  - xleaf.
  - xgo ltac:(apply IH).
Qed.

Lemma src_set_predecessors_loop2_sim F h t vs r1 r2 r3 : forall l h4,
  xsimw (src_set_predecessors_x_loop2 F h t vs r1 r2 r3 l h4) (src_set_predecessors_loop2 F h t vs r1 r2 r3 l h4).
Proof.
  induction l as [|v l IH]; intros h4; cbn [src_set_predecessors_x_loop2 src_set_predecessors_loop2]; cbv beta zeta.
  - apply src_set_predecessors_loop1_sim.
  - xgo ltac:(apply IH).
Qed.

Lemma src_set_predecessors_loop3_sim F h t vs r1 r2 r3 : forall l,
  xsim h (src_set_predecessors_x_loop3 F h t vs r1 r2 r3 l) (src_set_predecessors_loop3 F h t vs r1 r2 r3 l).
Proof.
  induction l as [|v l IH]; cbn [src_set_predecessors_x_loop3 src_set_predecessors_loop3]; cbv beta zeta.
  - apply xsimw_xsim. apply src_set_predecessors_loop2_sim.
  - xgo ltac:(apply IH).
Qed.

Lemma src_set_predecessors_loop4_sim F h t vs r1 r2 r3 : forall l,
  xsim h (src_set_predecessors_x_loop4 F h t vs r1 r2 r3 l) (src_set_predecessors_loop4 F h t vs r1 r2 r3 l).
Proof.
  induction l as [|v l IH]; cbn [src_set_predecessors_x_loop4 src_set_predecessors_loop4]; cbv beta zeta.
  - apply src_set_predecessors_loop3_sim.
  - xgo ltac:(apply IH).
Qed.

Theorem src_set_predecessors_sim : forall F h t vs,
  xsim h (src_set_predecessors_x F h t vs) (src_set_predecessors F h t vs).
Proof.
  intros F h t vs. unfold src_set_predecessors_x, src_set_predecessors.
  xgo ltac:(apply src_set_predecessors_loop4_sim).
Qed.

Lemma src_set_successors_loop1_sim F h t vs r1 r2 r3 : forall l h6,
  xsimw (src_set_successors_x_loop1 F h t vs r1 r2 r3 l h6) (src_set_successors_loop1 F h t vs r1 r2 r3 l h6).
Proof.
  induction l as [|v l IH]; intros h6; cbn [src_set_successors_x_loop1 src_set_successors_loop1]; cbv beta zeta.
  - xleaf.
  - xgo ltac:(apply IH).
Qed.

Lemma src_set_successors_loop2_sim F h t vs r1 r2 r3 : forall l h4,
  xsimw (src_set_successors_x_loop2 F h t vs r1 r2 r3 l h4) (src_set_successors_loop2 F h t vs r1 r2 r3 l h4).
Proof.
  induction l as [|v l IH]; intros h4; cbn [src_set_successors_x_loop2 src_set_successors_loop2]; cbv beta zeta.
  - apply src_set_successors_loop1_sim.
  - xgo ltac:(apply IH).
Qed.

Lemma src_set_successors_loop3_sim F h t vs r1 r2 r3 : forall l,
  xsim h (src_set_successors_x_loop3 F h t vs r1 r2 r3 l) (src_set_successors_loop3 F h t vs r1 r2 r3 l).
Proof.
  induction l as [|v l IH]; cbn [src_set_successors_x_loop3 src_set_successors_loop3]; cbv beta zeta.
  - apply xsimw_xsim. apply src_set_successors_loop2_sim.
  - xgo ltac:(apply IH).
Qed.

Lemma src_set_successors_loop4_sim F h t vs r1 r2 r3 : forall l,
  xsim h (src_set_successors_x_loop4 F h t vs r1 r2 r3 l) (src_set_successors_loop4 F h t vs r1 r2 r3 l).
Proof.
  induction l as [|v l IH]; cbn [src_set_successors_x_loop4 src_set_successors_loop4]; cbv beta zeta.
  - apply src_set_successors_loop3_sim.
  - xgo ltac:(apply IH).
Qed.

Theorem src_set_successors_sim : forall F h t vs,
  xsim h (src_set_successors_x F h t vs) (src_set_successors F h t vs).
Proof.
  intros F h t vs. unfold src_set_successors_x, src_set_successors.
  xgo ltac:(apply src_set_successors_loop4_sim).
Qed.

(* ================================================================== *)
(** * 1 + 2 for the setter of Task.children *)

Lemma src_set_children_loop1_sim F h t vs r1 : forall l h4,
  xsimw (src_set_children_x_loop1 F h t vs r1 l h4) (src_set_children_loop1 F h t vs r1 l h4).
Proof.
  induction l as [|v l IH]; intros h4; cbn [src_set_children_x_loop1 src_set_children_loop1]; cbv beta zeta.
  - xleaf.
  - xgo ltac:(apply IH).
Qed.

Lemma src_set_children_loop2_sim F h t vs r1 : forall l h3,
  xsimw (src_set_children_x_loop2 F h t vs r1 l h3) (src_set_children_loop2 F h t vs r1 l h3).
Proof.
  induction l as [|v l IH]; intros h3; cbn [src_set_children_x_loop2 src_set_children_loop2]; cbv beta zeta.
  - apply src_set_children_loop1_sim.
  - xgo ltac:(apply IH).
Qed.

Lemma src_set_children_loop3_sim F h t vs r1 : forall l,
  xsim h (src_set_children_x_loop3 F h t vs r1 l) (src_set_children_loop3 F h t vs r1 l).
Proof.
  induction l as [|v l IH]; cbn [src_set_children_x_loop3 src_set_children_loop3]; cbv beta zeta.
  - apply xsimw_xsim. apply src_set_children_loop2_sim.
  - xgo ltac:(apply IH).
Qed.

Lemma src_set_children_loop4_sim F h t vs r1 : forall l,
  xsim h (src_set_children_x_loop4 F h t vs r1 l) (src_set_children_loop4 F h t vs r1 l).
Proof.
  induction l as [|v l IH]; cbn [src_set_children_x_loop4 src_set_children_loop4]; cbv beta zeta.
  - xgo ltac:(apply src_set_children_loop3_sim).
  - xgo ltac:(apply IH).
Qed.

Theorem src_set_children_sim : forall F h t vs,
  xsim h (src_set_children_x F h t vs) (src_set_children F h t vs).
Proof.
  intros F h t vs. unfold src_set_children_x, src_set_children.
  xgo ltac:(apply src_set_children_loop4_sim).
Qed.

(* ================================================================== *)
(** * 1 + 2 for children.move *)

Lemma src_ch_move_loop1_sim h o ts b a t1 : forall l h7,
  xsimw (src_ch_move_x_loop1 h o ts b a t1 l h7) (src_ch_move_loop1 h o ts b a t1 l h7).
Proof.
  induction l as [|v l IH]; intros h7; cbn [src_ch_move_x_loop1 src_ch_move_loop1]; cbv beta zeta.
  - xleaf.
  - xgo ltac:(apply IH).
Qed.

Lemma src_ch_move_loop2_sim h o ts b a t1 : forall l,
  xsim h (src_ch_move_x_loop2 h o ts b a t1 l) (src_ch_move_loop2 h o ts b a t1 l).
Proof.
  induction l as [|v l IH]; cbn [src_ch_move_x_loop2 src_ch_move_loop2]; cbv beta zeta.
  - xgo ltac:(apply xsimw_xsim; apply src_ch_move_loop1_sim).
  - xgo ltac:(apply IH).
Qed.

Theorem src_ch_move_sim : forall h o ts b a, xsim h (src_ch_move_x h o ts b a) (src_ch_move h o ts b a).
Proof. intros h o ts b a. unfold src_ch_move_x, src_ch_move. cbv zeta. apply src_ch_move_loop2_sim. Qed.

(* ================================================================== *)
(** * 1 + 2 for children.reorder: its only `raise` is the first statement, under `if self.__setter is None`; the
      setter of a children facade is never None (harness/srcgen/graph.py gives the field the type unit), so the
      translated method has no raise at all: it ends in an exception of next() / list.remove(), or writes once at
      the end *)

Lemma src_ch_reorder_loop1_sim h o ids : forall l nl all,
  xsimw (src_ch_reorder_x_loop1 h o ids l nl all) (src_ch_reorder_loop1 h o ids l nl all).
Proof.
  induction l as [|v l IH]; intros nl all; cbn [src_ch_reorder_x_loop1 src_ch_reorder_loop1]; cbv beta zeta.
  - xleaf.
  - xgo ltac:(apply IH).
Qed.

Theorem src_ch_reorder_simw : forall h o ids, xsimw (src_ch_reorder_x h o ids) (src_ch_reorder h o ids).
Proof. intros h o ids. unfold src_ch_reorder_x, src_ch_reorder. cbv zeta. apply src_ch_reorder_loop1_sim. Qed.

Theorem src_ch_reorder_sim : forall h o ids, xsim h (src_ch_reorder_x h o ids) (src_ch_reorder h o ids).
Proof. intros h o ids. apply xsimw_xsim. apply src_ch_reorder_simw. Qed.

(* ================================================================== *)
(** * 1 + 2 for the facades that do nothing but call one setter: its rejection is passed on with its heap *)

Lemma xsim_pass {A B} (h : heap) (sx : res (heap * xout A)) (s : res (heap * A)) (b : B) :
  xsim h sx s ->
  xsim h (do '(h4, acc) <- sx;
          match acc with XErr => Ok (h4, XErr) | XRaise k => Ok (h4, XRaise k) | XRet _ => Ok (h4, XRet b) end)
         (do '(h3, _) <- s; Ok (h3, b)).
Proof.
  intros (E & N & NE). subst s.
  destruct sx as [[h4 [a| |k]]| |k]; cbn [xproj xat bind] in *; try xleaf;
    try (split; [reflexivity | split; [exact N | discriminate]]).
  exfalso. apply NE. reflexivity.
Qed.

Theorem src_ch_append_sim : forall F wr h o t, xsim h (src_ch_append_x F wr h o t) (src_ch_append F wr h o t).
Proof.
  intros F wr h o t. unfold src_ch_append_x, src_ch_append.
  xgo ltac:(apply xsim_pass; apply src_set_parent_sim).
Qed.

Theorem src_ch_remove_sim : forall F wr h o t, xsim h (src_ch_remove_x F wr h o t) (src_ch_remove F wr h o t).
Proof.
  intros F wr h o t. unfold src_ch_remove_x, src_ch_remove.
  xgo ltac:(apply xsim_pass; apply src_set_children_sim).
Qed.

Theorem src_pred_append_sim : forall F h t x, xsim h (src_pred_append_x F h t x) (src_pred_append F h t x).
Proof.
  intros F h t x. unfold src_pred_append_x, src_pred_append.
  xgo ltac:(apply xsim_pass; apply src_set_predecessors_sim).
Qed.

Theorem src_pred_remove_sim : forall F h t x, xsim h (src_pred_remove_x F h t x) (src_pred_remove F h t x).
Proof.
  intros F h t x. unfold src_pred_remove_x, src_pred_remove.
  xgo ltac:(apply xsim_pass; apply src_set_predecessors_sim).
Qed.

Theorem src_succ_append_sim : forall F h t x, xsim h (src_succ_append_x F h t x) (src_succ_append F h t x).
Proof.
  intros F h t x. unfold src_succ_append_x, src_succ_append.
  xgo ltac:(apply xsim_pass; apply src_set_successors_sim).
Qed.

Theorem src_succ_remove_sim : forall F h t x, xsim h (src_succ_remove_x F h t x) (src_succ_remove F h t x).
Proof.
  intros F h t x. unfold src_succ_remove_x, src_succ_remove.
  xgo ltac:(apply xsim_pass; apply src_set_successors_sim).
Qed.

(* ================================================================== *)
(** * 1 for children.insert (all inputs) *)

Theorem src_ch_insert_proj : forall F wr h o i t,
  xproj (src_ch_insert_x F wr h o i t) = src_ch_insert F wr h o i t.
Proof.
  intros F wr h o i t. unfold src_ch_insert_x, src_ch_insert. cbv zeta.
  destruct (src_check_not_none t) as [[]| |k]; cbn [bind xproj]; try reflexivity.
  match goal with |- xproj (if ?c then _ else _) = _ => destruct c end; [|reflexivity].
  match goal with |- xproj (if ?c then _ else _) = _ => destruct c end; [|reflexivity].
  destruct t as [t'|]; [|reflexivity].
  destruct (src_set_parent_sim F wr h t' (Some o)) as (E & _). rewrite <- E.
  destruct (src_set_parent_x F wr h t' (Some o)) as [[h6 [[]| |k]]| |k]; cbn [bind xproj]; try reflexivity.
  destruct (src_list_get (kids (get h6 o)) i) as [elt| |k]; cbn [bind xproj]; try reflexivity.
  match goal with |- xproj (if ?c then _ else _) = _ => destruct c end; [|reflexivity].
  destruct (src_ch_move_sim h6 o [Some t'] (Some elt) None) as (E2 & _). rewrite <- E2.
  destruct (src_ch_move_x h6 o [Some t'] (Some elt) None) as [[h10 [[]| |k]]| |k]; reflexivity.
Qed.

(* ================================================================== *)
(** * 3 for children.insert, on well-formed states (hypotheses of SrcGraphEquiv7.src_ch_insert_eq): after the accepted
      parent setter the element at the index is a child other than the task, and move accepts it - read off the
      model: ch_insert answers Err only when set_parent does, and Crash IndexError only from the range check *)

Theorem src_ch_insert_xat : forall s (o : obj) (i : Z) (t : option obj), WF s -> hid_tid (hp s) -> o < length (hp s) ->
  (forall t', t = Some t' -> t' < length (hp s)) ->
  xat (hp s) (src_ch_insert_x (S (S (length (hp s)))) (wroots s) (hp s) o i t).
Proof.
  intros s o i t W Hh Lo Lt.
  pose proof (src_ch_insert_proj (S (S (length (hp s)))) (wroots s) (hp s) o i t) as P.
  rewrite (src_ch_insert_eq s o i t W Hh Lo Lt) in P.
  destruct t as [t'|]; [|exact eq_refl].
  assert (Lo' : forall p', @Some obj o = Some p' -> p' < length (hp s)) by (intros p' E; inversion E; subst; exact Lo).
  pose proof (src_set_parent_eq s t' (Some o) W Hh (Lt t' eq_refl) Lo') as SPE.
  unfold lift_set in P. rewrite f7_insert_outcome in P. cbv zeta in P.
  revert P. unfold src_ch_insert_x. cbn [src_check_not_none]. cbv zeta.
  rewrite map_length, f7_filter_without.
  set (Wl := without t' (kids (get (hp s) o))).
  replace (Z.of_nat (length Wl) + 1)%Z with (Z.of_nat (S (length Wl))) by lia.
  destruct (- Z.of_nat (S (length Wl)) <=? i)%Z eqn:R1; cbn [andb]; [|intros _; exact eq_refl].
  destruct (i <? Z.of_nat (S (length Wl)))%Z eqn:R2; cbn [andb]; [|intros _; exact eq_refl].
  destruct (src_set_parent_sim (S (S (length (hp s)))) (wroots s) (hp s) t' (Some o)) as (E & A & _).
  rewrite SPE in E. clear SPE.
  destruct (src_set_parent_x (S (S (length (hp s)))) (wroots s) (hp s) t' (Some o)) as [[h6 [[]| |k]]| |k];
    cbn [bind xat xproj] in *; try (intros _; first [exact A | exact I]).
  (* the parent setter has accepted: so has the model's guard *)
  symmetry in E. apply lift_set_Ok in E. destruct E as [G _]. unfold set_parent, mk in G.
  destruct (set_parent_guard s t' (Some o)) as [[]| |k]; cbn [snd] in G; try discriminate G.
  destruct (src_list_get (kids (get h6 o)) i) as [elt| |k]; cbn [bind xat xproj]; try (intros _; exact I).
  match goal with |- context [if ?c then _ else _] => destruct c end; [|intros _; exact I].
  destruct (src_ch_move_x h6 o [Some t'] (Some elt) None) as [[h10 [[]| |k]]| |k]; cbn [bind xat xproj];
    intro P; first [exact I | discriminate P].
Qed.

(* ================================================================== *)
(** * 4: under the hypotheses of the equations the _x functions do not crash: "raises => heap unchanged" covers every
      outcome other than a return *)

Lemma xproj_no_crash {A} (rx : res (heap * xout A)) r k : xproj rx = r -> r <> Crash k -> rx <> Crash k.
Proof. intros E N C. apply N. rewrite <- E, C. reflexivity. Qed.

Theorem src_set_parent_x_no_crash : forall s (t : obj) (p : option obj) k, WF s -> hid_tid (hp s) ->
  t < length (hp s) -> (forall p', p = Some p' -> p' < length (hp s)) ->
  src_set_parent_x (S (S (length (hp s)))) (wroots s) (hp s) t p <> Crash k.
Proof.
  intros s t p k W Hh Lt Lp. apply (xproj_no_crash _ _ k (proj1 (src_set_parent_sim _ _ _ _ _))).
  apply src_set_parent_no_crash; assumption.
Qed.

Theorem src_set_predecessors_x_no_crash : forall s (t : obj) (vs : list (option obj)) k, WF s -> hid_tid (hp s) ->
  no_hidden_anc s t vs -> src_set_predecessors_x (S (S (length (hp s)))) (hp s) t vs <> Crash k.
Proof.
  intros s t vs k W Hh Hv. apply (xproj_no_crash _ _ k (proj1 (src_set_predecessors_sim _ _ _ _))).
  apply src_set_predecessors_no_crash; assumption.
Qed.

Theorem src_set_successors_x_no_crash : forall s (t : obj) (vs : list (option obj)) k, WF s -> hid_tid (hp s) ->
  no_hidden_anc s t vs -> src_set_successors_x (S (S (length (hp s)))) (hp s) t vs <> Crash k.
Proof.
  intros s t vs k W Hh Hv. apply (xproj_no_crash _ _ k (proj1 (src_set_successors_sim _ _ _ _))).
  apply src_set_successors_no_crash; assumption.
Qed.

Theorem src_set_children_x_no_crash : forall s (t : obj) (vs : list (option obj)) k, WF s -> hid_tid (hp s) ->
  t < length (hp s) -> (forall v, In (Some v) vs -> v < length (hp s)) ->
  src_set_children_x (S (S (length (hp s)))) (hp s) t vs <> Crash k.
Proof.
  intros s t vs k W Hh Lt Lv. apply (xproj_no_crash _ _ k (proj1 (src_set_children_sim _ _ _ _))).
  apply src_set_children_no_crash; assumption.
Qed.

(* move: on every heap *)
Theorem src_ch_move_x_no_crash : forall h o ts b a k, src_ch_move_x h o ts b a <> Crash k.
Proof.
  intros h o ts b a k. apply (xproj_no_crash _ _ k (proj1 (src_ch_move_sim _ _ _ _ _))).
  exact (src_ch_move_no_crash (mkS h []) o ts b a k).
Qed.

(* the facades, each under the hypotheses of its equation in SrcGraphEquiv6 *)
Theorem src_ch_append_x_no_crash : forall s o t k, WF s -> hid_tid (hp s) -> o < length (hp s) ->
  (forall t', t = Some t' -> t' < length (hp s)) ->
  src_ch_append_x (S (S (length (hp s)))) (wroots s) (hp s) o t <> Crash k.
Proof.
  intros s o t k W Hh Lo Lt. apply (xproj_no_crash _ _ k (proj1 (src_ch_append_sim _ _ _ _ _))).
  rewrite (src_ch_append_eq s o t W Hh Lo Lt). intro E. apply lift_set_Crash in E.
  exact (ch_append_snd_no_crash s o t k W E).
Qed.

Theorem src_ch_remove_x_no_crash : forall s o t k, WF s -> hid_tid (hp s) ->
  src_ch_remove_x (S (S (length (hp s)))) (wroots s) (hp s) o t <> Crash k.
Proof.
  intros s o t k W Hh. apply (xproj_no_crash _ _ k (proj1 (src_ch_remove_sim _ _ _ _ _))).
  rewrite (src_ch_remove_eq s o t W Hh). intro E. apply lift_b_Crash in E.
  exact (ch_remove_snd_no_crash s o t k W E).
Qed.

Theorem src_pred_append_x_no_crash : forall s t x k, WF s -> hid_tid (hp s) ->
  (forall x', x = Some x' -> hidden (get (hp s) x') = false) ->
  src_pred_append_x (S (S (length (hp s)))) (hp s) t x <> Crash k.
Proof.
  intros s t x k W Hh Hx. apply (xproj_no_crash _ _ k (proj1 (src_pred_append_sim _ _ _ _))).
  rewrite (src_pred_append_eq s t x W Hh Hx). intro E. apply lift_set_Crash in E.
  exact (ln_append_snd_no_crash true s t x k W E).
Qed.

Theorem src_succ_append_x_no_crash : forall s t x k, WF s -> hid_tid (hp s) ->
  (forall x', x = Some x' -> hidden (get (hp s) x') = false) ->
  src_succ_append_x (S (S (length (hp s)))) (hp s) t x <> Crash k.
Proof.
  intros s t x k W Hh Hx. apply (xproj_no_crash _ _ k (proj1 (src_succ_append_sim _ _ _ _))).
  rewrite (src_succ_append_eq s t x W Hh Hx). intro E. apply lift_set_Crash in E.
  exact (ln_append_snd_no_crash false s t x k W E).
Qed.

Theorem src_pred_remove_x_no_crash : forall s t x k, WF s -> hid_tid (hp s) ->
  src_pred_remove_x (S (S (length (hp s)))) (hp s) t x <> Crash k.
Proof.
  intros s t x k W Hh. apply (xproj_no_crash _ _ k (proj1 (src_pred_remove_sim _ _ _ _))).
  rewrite (src_pred_remove_eq s t x W Hh). intro E. apply lift_b_Crash in E.
  exact (ln_remove_snd_no_crash true s t x k W E).
Qed.

Theorem src_succ_remove_x_no_crash : forall s t x k, WF s -> hid_tid (hp s) ->
  src_succ_remove_x (S (S (length (hp s)))) (hp s) t x <> Crash k.
Proof.
  intros s t x k W Hh. apply (xproj_no_crash _ _ k (proj1 (src_succ_remove_sim _ _ _ _))).
  rewrite (src_succ_remove_eq s t x W Hh). intro E. apply lift_b_Crash in E.
  exact (ln_remove_snd_no_crash false s t x k W E).
Qed.

(* insert: the IndexError of the range check is an explicit raise (XRaise, covered by src_ch_insert_xat); nothing
   else of the method ends in an exception *)
Theorem src_ch_insert_x_no_crash : forall s (o : obj) (i : Z) (t : option obj) k, WF s -> hid_tid (hp s) ->
  o < length (hp s) -> (forall t', t = Some t' -> t' < length (hp s)) ->
  src_ch_insert_x (S (S (length (hp s)))) (wroots s) (hp s) o i t <> Crash k.
Proof.
  intros s o i t k W Hh Lo Lt.
  pose proof (src_ch_insert_proj (S (S (length (hp s)))) (wroots s) (hp s) o i t) as P.
  rewrite (src_ch_insert_eq s o i t W Hh Lo Lt) in P.
  destruct t as [t'|]; [|discriminate].
  assert (Lo' : forall p', @Some obj o = Some p' -> p' < length (hp s)) by (intros p' E; inversion E; subst; exact Lo).
  pose proof (src_set_parent_eq s t' (Some o) W Hh (Lt t' eq_refl) Lo') as SPE.
  pose proof (fun k' => src_set_parent_x_no_crash s t' (Some o) k' W Hh (Lt t' eq_refl) Lo') as SPN.
  unfold lift_set in P. rewrite f7_insert_outcome in P. cbv zeta in P.
  revert P. unfold src_ch_insert_x. cbn [src_check_not_none]. cbv zeta.
  rewrite map_length, f7_filter_without.
  set (Wl := without t' (kids (get (hp s) o))).
  replace (Z.of_nat (length Wl) + 1)%Z with (Z.of_nat (S (length Wl))) by lia.
  destruct (- Z.of_nat (S (length Wl)) <=? i)%Z eqn:R1; cbn [andb]; [|intros _; discriminate].
  destruct (i <? Z.of_nat (S (length Wl)))%Z eqn:R2; cbn [andb]; [|intros _; discriminate].
  destruct (src_set_parent_sim (S (S (length (hp s)))) (wroots s) (hp s) t' (Some o)) as (E & _).
  rewrite SPE in E. clear SPE.
  destruct (src_set_parent_x (S (S (length (hp s)))) (wroots s) (hp s) t' (Some o)) as [[h6 [[]| |k']]| |k'];
    cbn [bind xproj] in *; try (intros _; discriminate).
  2:{ exfalso. exact (SPN k' eq_refl). }
  symmetry in E. apply lift_set_Ok in E. destruct E as [G _]. unfold set_parent, mk in G.
  destruct (set_parent_guard s t' (Some o)) as [[]| |k']; cbn [snd] in G; try discriminate G.
  destruct (src_list_get (kids (get h6 o)) i) as [elt| |k']; cbn [bind xproj]; try (intros P; discriminate P).
  match goal with |- context [if ?c then _ else _] => destruct c end; [|intros _; discriminate].
  destruct (src_ch_move_x h6 o [Some t'] (Some elt) None) as [[h10 [[]| |k']]| |k'] eqn:MV; cbn [bind xproj];
    intro P; try discriminate.
Qed.

(* reorder may end in StopIteration (an id that no child carries) or ValueError (a child named twice) - both come from
   the loop, which writes nothing; otherwise the method writes once, at the end *)
Theorem src_ch_reorder_x_outcomes : forall h o ids,
  (exists k, src_ch_reorder_x h o ids = Crash k /\ (k = StopIteration \/ k = ValueError)) \/
  (exists l, src_ch_reorder_x h o ids = Ok (upd h o (with_kids l), XRet tt)).
Proof.
  intros h o ids. destruct (src_ch_reorder_simw h o ids) as (E & N & _).
  rewrite src_ch_reorder_outcome in E. destruct (src_ch_reorder_answers h o ids) as [NE NC].
  rewrite src_ch_reorder_outcome in NE, NC.
  unfold lift_list in *.
  destruct (reorder_go h (kids (get h o)) ids [] (kids (get h o))) as [l| |k].
  - right. exists l. destruct (src_ch_reorder_x h o ids) as [[h' [[]| |k]]| |k]; cbn [xproj xnr] in *;
      try discriminate E; try contradiction. inversion E. reflexivity.
  - exfalso. apply NE. reflexivity.
  - left. exists k. split; [|apply NC; reflexivity].
    destruct (src_ch_reorder_x h o ids) as [[h' [[]| |k']]| |k']; cbn [xproj xnr] in *; try discriminate E; try contradiction.
    inversion E. reflexivity.
Qed.

(* insert never answers the bare RuntimeError either (all inputs) *)
Theorem src_ch_insert_x_no_Err : forall F wr h o i t, src_ch_insert_x F wr h o i t <> Err.
Proof.
  intros F wr h o i t. unfold src_ch_insert_x. cbv zeta.
  destruct (src_check_not_none t) as [[]| |k]; try discriminate.
  match goal with |- (if ?c then _ else _) <> _ => destruct c end; [|discriminate].
  match goal with |- (if ?c then _ else _) <> _ => destruct c end; [|discriminate].
  destruct t as [t'|]; [|discriminate].
  destruct (src_set_parent_sim F wr h t' (Some o)) as (_ & _ & NE).
  destruct (src_set_parent_x F wr h t' (Some o)) as [[h6 [[]| |k]]| |k]; cbn [bind]; try discriminate;
    [|exfalso; apply NE; reflexivity].
  pose proof (src_list_get_no_Err (kids (get h6 o)) i) as NG.
  destruct (src_list_get (kids (get h6 o)) i) as [elt| |k]; cbn [bind]; try discriminate; [|exfalso; apply NG; reflexivity].
  match goal with |- (if ?c then _ else _) <> _ => destruct c end; [|discriminate].
  destruct (src_ch_move_sim h6 o [Some t'] (Some elt) None) as (_ & _ & NM).
  destruct (src_ch_move_x h6 o [Some t'] (Some elt) None) as [[h10 [[]| |k]]| |k]; cbn [bind]; try discriminate.
  exfalso; apply NM; reflexivity.
Qed.

(* ================================================================== *)
(** * the statements spelled out *)

Lemma xat_raise {A} h (r : res (heap * xout A)) h' o :
  xat h r -> r = Ok (h', o) -> (forall a, o <> XRet a) -> h' = h.
Proof.
  intros X E N. subst r. destruct o as [a| |k]; cbn [xat] in X; [exfalso; exact (N a eq_refl) | exact X | exact X].
Qed.

Lemma xat_spell {A} h (r : res (heap * xout A)) : xat h r ->
  forall h', (r = Ok (h', XErr) -> h' = h) /\ (forall k, r = Ok (h', XRaise k) -> h' = h).
Proof. intros X h'. split; [intro E | intros k E]; subst r; exact X. Qed.

(* what a call can answer when it neither crashes nor loses the heap: it returns, or it raises and hands back [h] *)
Definition xoutcome {A} (h : heap) (rx : res (heap * xout A)) : Prop :=
  (exists h' a, rx = Ok (h', XRet a)) \/ rx = Ok (h, XErr) \/ (exists k, rx = Ok (h, XRaise k)).

Lemma xoutcome_intro {A} h (rx : res (heap * xout A)) :
  xat h rx -> rx <> Err -> (forall k, rx <> Crash k) -> xoutcome h rx.
Proof.
  intros X NE NC. destruct rx as [[h' [a| |k]]| |k]; cbn [xat] in X.
  - left. exists h', a. reflexivity.
  - right. left. subst h'. reflexivity.
  - right. right. exists k. subst h'. reflexivity.
  - exfalso. apply NE. reflexivity.
  - exfalso. exact (NC k eq_refl).
Qed.

(** ** 1: the second translation is the first one with the heap kept - all inputs *)

Theorem src_set_parent_x_proj : forall F wr h t p, xproj (src_set_parent_x F wr h t p) = src_set_parent F wr h t p.
Proof. intros. apply src_set_parent_sim. Qed.
Theorem src_set_predecessors_x_proj : forall F h t vs,
  xproj (src_set_predecessors_x F h t vs) = src_set_predecessors F h t vs.
Proof. intros. apply src_set_predecessors_sim. Qed.
Theorem src_set_successors_x_proj : forall F h t vs, xproj (src_set_successors_x F h t vs) = src_set_successors F h t vs.
Proof. intros. apply src_set_successors_sim. Qed.
Theorem src_set_children_x_proj : forall F h t vs, xproj (src_set_children_x F h t vs) = src_set_children F h t vs.
Proof. intros. apply src_set_children_sim. Qed.
Theorem src_ch_move_x_proj : forall h o ts b a, xproj (src_ch_move_x h o ts b a) = src_ch_move h o ts b a.
Proof. intros. apply src_ch_move_sim. Qed.
Theorem src_ch_append_x_proj : forall F wr h o t, xproj (src_ch_append_x F wr h o t) = src_ch_append F wr h o t.
Proof. intros. apply src_ch_append_sim. Qed.
Theorem src_ch_remove_x_proj : forall F wr h o t, xproj (src_ch_remove_x F wr h o t) = src_ch_remove F wr h o t.
Proof. intros. apply src_ch_remove_sim. Qed.
Theorem src_ch_insert_x_proj : forall F wr h o i t, xproj (src_ch_insert_x F wr h o i t) = src_ch_insert F wr h o i t.
Proof. exact src_ch_insert_proj. Qed.
Theorem src_ch_reorder_x_proj : forall h o ids, xproj (src_ch_reorder_x h o ids) = src_ch_reorder h o ids.
Proof. intros. apply src_ch_reorder_sim. Qed.
Theorem src_pred_append_x_proj : forall F h t x, xproj (src_pred_append_x F h t x) = src_pred_append F h t x.
Proof. intros. apply src_pred_append_sim. Qed.
Theorem src_pred_remove_x_proj : forall F h t x, xproj (src_pred_remove_x F h t x) = src_pred_remove F h t x.
Proof. intros. apply src_pred_remove_sim. Qed.
Theorem src_succ_append_x_proj : forall F h t x, xproj (src_succ_append_x F h t x) = src_succ_append F h t x.
Proof. intros. apply src_succ_append_sim. Qed.
Theorem src_succ_remove_x_proj : forall F h t x, xproj (src_succ_remove_x F h t x) = src_succ_remove F h t x.
Proof. intros. apply src_succ_remove_sim. Qed.

(** ** 2: a setter (or move) that raises hands back the heap it was given - all inputs, no WF *)

Theorem src_set_parent_x_raise : forall F wr h t p h',
  (src_set_parent_x F wr h t p = Ok (h', XErr) -> h' = h) /\
  (forall k, src_set_parent_x F wr h t p = Ok (h', XRaise k) -> h' = h).
Proof. intros. apply xat_spell. apply src_set_parent_sim. Qed.

Theorem src_set_predecessors_x_raise : forall F h t vs h',
  (src_set_predecessors_x F h t vs = Ok (h', XErr) -> h' = h) /\
  (forall k, src_set_predecessors_x F h t vs = Ok (h', XRaise k) -> h' = h).
Proof. intros. apply xat_spell. apply src_set_predecessors_sim. Qed.

Theorem src_set_successors_x_raise : forall F h t vs h',
  (src_set_successors_x F h t vs = Ok (h', XErr) -> h' = h) /\
  (forall k, src_set_successors_x F h t vs = Ok (h', XRaise k) -> h' = h).
Proof. intros. apply xat_spell. apply src_set_successors_sim. Qed.

Theorem src_set_children_x_raise : forall F h t vs h',
  (src_set_children_x F h t vs = Ok (h', XErr) -> h' = h) /\
  (forall k, src_set_children_x F h t vs = Ok (h', XRaise k) -> h' = h).
Proof. intros. apply xat_spell. apply src_set_children_sim. Qed.

Theorem src_ch_move_x_raise : forall h o ts b a h',
  (src_ch_move_x h o ts b a = Ok (h', XErr) -> h' = h) /\
  (forall k, src_ch_move_x h o ts b a = Ok (h', XRaise k) -> h' = h).
Proof. intros. apply xat_spell. apply src_ch_move_sim. Qed.

(** ** 3: the facades - all inputs, no WF; insert on well-formed states *)

Theorem src_ch_append_x_raise : forall F wr h o t h',
  (src_ch_append_x F wr h o t = Ok (h', XErr) -> h' = h) /\
  (forall k, src_ch_append_x F wr h o t = Ok (h', XRaise k) -> h' = h).
Proof. intros. apply xat_spell. apply src_ch_append_sim. Qed.

Theorem src_ch_remove_x_raise : forall F wr h o t h',
  (src_ch_remove_x F wr h o t = Ok (h', XErr) -> h' = h) /\
  (forall k, src_ch_remove_x F wr h o t = Ok (h', XRaise k) -> h' = h).
Proof. intros. apply xat_spell. apply src_ch_remove_sim. Qed.

Theorem src_pred_append_x_raise : forall F h t x h',
  (src_pred_append_x F h t x = Ok (h', XErr) -> h' = h) /\
  (forall k, src_pred_append_x F h t x = Ok (h', XRaise k) -> h' = h).
Proof. intros. apply xat_spell. apply src_pred_append_sim. Qed.

Theorem src_pred_remove_x_raise : forall F h t x h',
  (src_pred_remove_x F h t x = Ok (h', XErr) -> h' = h) /\
  (forall k, src_pred_remove_x F h t x = Ok (h', XRaise k) -> h' = h).
Proof. intros. apply xat_spell. apply src_pred_remove_sim. Qed.

Theorem src_succ_append_x_raise : forall F h t x h',
  (src_succ_append_x F h t x = Ok (h', XErr) -> h' = h) /\
  (forall k, src_succ_append_x F h t x = Ok (h', XRaise k) -> h' = h).
Proof. intros. apply xat_spell. apply src_succ_append_sim. Qed.

Theorem src_succ_remove_x_raise : forall F h t x h',
  (src_succ_remove_x F h t x = Ok (h', XErr) -> h' = h) /\
  (forall k, src_succ_remove_x F h t x = Ok (h', XRaise k) -> h' = h).
Proof. intros. apply xat_spell. apply src_succ_remove_sim. Qed.

(* reorder: the translated method does not raise at all *)
Theorem src_ch_reorder_x_never_raises : forall h o ids h',
  src_ch_reorder_x h o ids <> Ok (h', XErr) /\ (forall k, src_ch_reorder_x h o ids <> Ok (h', XRaise k)).
Proof.
  intros h o ids h'. destruct (src_ch_reorder_simw h o ids) as (_ & N & _).
  split; [intro E | intros k E]; rewrite E in N; exact N.
Qed.

Theorem src_ch_reorder_x_raise : forall h o ids h',
  (src_ch_reorder_x h o ids = Ok (h', XErr) -> h' = h) /\
  (forall k, src_ch_reorder_x h o ids = Ok (h', XRaise k) -> h' = h).
Proof. intros. apply xat_spell. apply src_ch_reorder_sim. Qed.

Theorem src_ch_insert_x_raise : forall s (o : obj) (i : Z) (t : option obj) h', WF s -> hid_tid (hp s) ->
  o < length (hp s) -> (forall t', t = Some t' -> t' < length (hp s)) ->
  (src_ch_insert_x (S (S (length (hp s)))) (wroots s) (hp s) o i t = Ok (h', XErr) -> h' = hp s) /\
  (forall k, src_ch_insert_x (S (S (length (hp s)))) (wroots s) (hp s) o i t = Ok (h', XRaise k) -> h' = hp s).
Proof. intros s o i t h' W Hh Lo Lt. apply xat_spell. apply src_ch_insert_xat; assumption. Qed.

(* ================================================================== *)
(** * 5: the summary per function, under the hypotheses of its equation (SrcGraphEquiv3-7): a call that does not
      return leaves the heap it was given ([_atomic]); and it does nothing else than return or raise with that heap -
      no crash, no RuntimeError without a heap ([_outcome]) *)

Theorem src_set_parent_atomic : forall s (t : obj) (p : option obj) h' o, WF s -> hid_tid (hp s) ->
  t < length (hp s) -> (forall p', p = Some p' -> p' < length (hp s)) ->
  src_set_parent_x (S (S (length (hp s)))) (wroots s) (hp s) t p = Ok (h', o) -> (forall a, o <> XRet a) -> h' = hp s.
Proof. intros s t p h' o _ _ _ _. apply xat_raise. apply src_set_parent_sim. Qed.

Theorem src_set_parent_outcome : forall s (t : obj) (p : option obj), WF s -> hid_tid (hp s) ->
  t < length (hp s) -> (forall p', p = Some p' -> p' < length (hp s)) ->
  xoutcome (hp s) (src_set_parent_x (S (S (length (hp s)))) (wroots s) (hp s) t p).
Proof.
  intros s t p W Hh Lt Lp. apply xoutcome_intro; [apply src_set_parent_sim | apply src_set_parent_sim |].
  intro k. apply src_set_parent_x_no_crash; assumption.
Qed.

(* the links setters: in the general form of SrcGraphEquiv4 (no task of the list is a hidden ancestor of the owner) and
   in the form of src_set_predecessors_eq / src_set_successors_eq (no task of the list is a hidden WBS root) *)
Theorem src_set_predecessors_outcome_gen : forall s (t : obj) (vs : list (option obj)), WF s -> hid_tid (hp s) ->
  no_hidden_anc s t vs -> xoutcome (hp s) (src_set_predecessors_x (S (S (length (hp s)))) (hp s) t vs).
Proof.
  intros s t vs W Hh Hv. apply xoutcome_intro; [apply src_set_predecessors_sim | apply src_set_predecessors_sim |].
  intro k. apply src_set_predecessors_x_no_crash; assumption.
Qed.

Theorem src_set_successors_outcome_gen : forall s (t : obj) (vs : list (option obj)), WF s -> hid_tid (hp s) ->
  no_hidden_anc s t vs -> xoutcome (hp s) (src_set_successors_x (S (S (length (hp s)))) (hp s) t vs).
Proof.
  intros s t vs W Hh Hv. apply xoutcome_intro; [apply src_set_successors_sim | apply src_set_successors_sim |].
  intro k. apply src_set_successors_x_no_crash; assumption.
Qed.

Theorem src_set_predecessors_atomic : forall s (t : obj) (vs : list (option obj)) h' o, WF s -> hid_tid (hp s) ->
  (forall v, In (Some v) vs -> hidden (get (hp s) v) = false) ->
  src_set_predecessors_x (S (S (length (hp s)))) (hp s) t vs = Ok (h', o) -> (forall a, o <> XRet a) -> h' = hp s.
Proof. intros s t vs h' o _ _ _. apply xat_raise. apply src_set_predecessors_sim. Qed.

Theorem src_set_predecessors_outcome : forall s (t : obj) (vs : list (option obj)), WF s -> hid_tid (hp s) ->
  (forall v, In (Some v) vs -> hidden (get (hp s) v) = false) ->
  xoutcome (hp s) (src_set_predecessors_x (S (S (length (hp s)))) (hp s) t vs).
Proof. intros s t vs W Hh Hv. apply src_set_predecessors_outcome_gen; [exact W | exact Hh | apply no_hidden_anc_pub; exact Hv]. Qed.

Theorem src_set_successors_atomic : forall s (t : obj) (vs : list (option obj)) h' o, WF s -> hid_tid (hp s) ->
  (forall v, In (Some v) vs -> hidden (get (hp s) v) = false) ->
  src_set_successors_x (S (S (length (hp s)))) (hp s) t vs = Ok (h', o) -> (forall a, o <> XRet a) -> h' = hp s.
Proof. intros s t vs h' o _ _ _. apply xat_raise. apply src_set_successors_sim. Qed.

Theorem src_set_successors_outcome : forall s (t : obj) (vs : list (option obj)), WF s -> hid_tid (hp s) ->
  (forall v, In (Some v) vs -> hidden (get (hp s) v) = false) ->
  xoutcome (hp s) (src_set_successors_x (S (S (length (hp s)))) (hp s) t vs).
Proof. intros s t vs W Hh Hv. apply src_set_successors_outcome_gen; [exact W | exact Hh | apply no_hidden_anc_pub; exact Hv]. Qed.

Theorem src_set_children_atomic : forall s (t : obj) (vs : list (option obj)) h' o, WF s -> hid_tid (hp s) ->
  t < length (hp s) -> (forall v, In (Some v) vs -> v < length (hp s)) ->
  src_set_children_x (S (S (length (hp s)))) (hp s) t vs = Ok (h', o) -> (forall a, o <> XRet a) -> h' = hp s.
Proof. intros s t vs h' o _ _ _ _. apply xat_raise. apply src_set_children_sim. Qed.

Theorem src_set_children_outcome : forall s (t : obj) (vs : list (option obj)), WF s -> hid_tid (hp s) ->
  t < length (hp s) -> (forall v, In (Some v) vs -> v < length (hp s)) ->
  xoutcome (hp s) (src_set_children_x (S (S (length (hp s)))) (hp s) t vs).
Proof.
  intros s t vs W Hh Lt Lv. apply xoutcome_intro; [apply src_set_children_sim | apply src_set_children_sim |].
  intro k. apply src_set_children_x_no_crash; assumption.
Qed.

(* move: on every heap (the equation of SrcGraphEquiv7 has no hypothesis) *)
Theorem src_ch_move_atomic : forall h o ts b a h' x,
  src_ch_move_x h o ts b a = Ok (h', x) -> (forall u, x <> XRet u) -> h' = h.
Proof. intros h o ts b a h' x. apply xat_raise. apply src_ch_move_sim. Qed.

Theorem src_ch_move_outcome : forall h o ts b a, xoutcome h (src_ch_move_x h o ts b a).
Proof.
  intros h o ts b a. apply xoutcome_intro; [apply src_ch_move_sim | apply src_ch_move_sim |].
  intro k. apply src_ch_move_x_no_crash.
Qed.

Theorem src_ch_append_atomic : forall s o t h' x, WF s -> hid_tid (hp s) -> o < length (hp s) ->
  (forall t', t = Some t' -> t' < length (hp s)) ->
  src_ch_append_x (S (S (length (hp s)))) (wroots s) (hp s) o t = Ok (h', x) -> (forall u, x <> XRet u) -> h' = hp s.
Proof. intros s o t h' x _ _ _ _. apply xat_raise. apply src_ch_append_sim. Qed.

Theorem src_ch_append_outcome : forall s o t, WF s -> hid_tid (hp s) -> o < length (hp s) ->
  (forall t', t = Some t' -> t' < length (hp s)) ->
  xoutcome (hp s) (src_ch_append_x (S (S (length (hp s)))) (wroots s) (hp s) o t).
Proof.
  intros s o t W Hh Lo Lt. apply xoutcome_intro; [apply src_ch_append_sim | apply src_ch_append_sim |].
  intro k. apply src_ch_append_x_no_crash; assumption.
Qed.

Theorem src_ch_remove_atomic : forall s o t h' x, WF s -> hid_tid (hp s) ->
  src_ch_remove_x (S (S (length (hp s)))) (wroots s) (hp s) o t = Ok (h', x) -> (forall b, x <> XRet b) -> h' = hp s.
Proof. intros s o t h' x _ _. apply xat_raise. apply src_ch_remove_sim. Qed.

Theorem src_ch_remove_outcome : forall s o t, WF s -> hid_tid (hp s) ->
  xoutcome (hp s) (src_ch_remove_x (S (S (length (hp s)))) (wroots s) (hp s) o t).
Proof.
  intros s o t W Hh. apply xoutcome_intro; [apply src_ch_remove_sim | apply src_ch_remove_sim |].
  intro k. apply src_ch_remove_x_no_crash; assumption.
Qed.

Theorem src_ch_insert_atomic : forall s (o : obj) (i : Z) (t : option obj) h' x, WF s -> hid_tid (hp s) ->
  o < length (hp s) -> (forall t', t = Some t' -> t' < length (hp s)) ->
  src_ch_insert_x (S (S (length (hp s)))) (wroots s) (hp s) o i t = Ok (h', x) -> (forall u, x <> XRet u) -> h' = hp s.
Proof. intros s o i t h' x W Hh Lo Lt. apply xat_raise. apply src_ch_insert_xat; assumption. Qed.

Theorem src_ch_insert_outcome : forall s (o : obj) (i : Z) (t : option obj), WF s -> hid_tid (hp s) ->
  o < length (hp s) -> (forall t', t = Some t' -> t' < length (hp s)) ->
  xoutcome (hp s) (src_ch_insert_x (S (S (length (hp s)))) (wroots s) (hp s) o i t).
Proof.
  intros s o i t W Hh Lo Lt. apply xoutcome_intro; [apply src_ch_insert_xat; assumption | apply src_ch_insert_x_no_Err |].
  intro k. apply src_ch_insert_x_no_crash; assumption.
Qed.

(* reorder: on every heap; its non-returning outcomes are the two exceptions of src_ch_reorder_x_outcomes, which
   carry no heap - they come from the loop, before the single write *)
Theorem src_ch_reorder_atomic : forall h o ids h' x,
  src_ch_reorder_x h o ids = Ok (h', x) -> (forall u, x <> XRet u) -> h' = h.
Proof. intros h o ids h' x. apply xat_raise. apply src_ch_reorder_sim. Qed.

Theorem src_pred_append_atomic : forall s t x h' r, WF s -> hid_tid (hp s) ->
  (forall x', x = Some x' -> hidden (get (hp s) x') = false) ->
  src_pred_append_x (S (S (length (hp s)))) (hp s) t x = Ok (h', r) -> (forall u, r <> XRet u) -> h' = hp s.
Proof. intros s t x h' r _ _ _. apply xat_raise. apply src_pred_append_sim. Qed.

Theorem src_pred_append_outcome : forall s t x, WF s -> hid_tid (hp s) ->
  (forall x', x = Some x' -> hidden (get (hp s) x') = false) ->
  xoutcome (hp s) (src_pred_append_x (S (S (length (hp s)))) (hp s) t x).
Proof.
  intros s t x W Hh Hx. apply xoutcome_intro; [apply src_pred_append_sim | apply src_pred_append_sim |].
  intro k. apply src_pred_append_x_no_crash; assumption.
Qed.

Theorem src_succ_append_atomic : forall s t x h' r, WF s -> hid_tid (hp s) ->
  (forall x', x = Some x' -> hidden (get (hp s) x') = false) ->
  src_succ_append_x (S (S (length (hp s)))) (hp s) t x = Ok (h', r) -> (forall u, r <> XRet u) -> h' = hp s.
Proof. intros s t x h' r _ _ _. apply xat_raise. apply src_succ_append_sim. Qed.

Theorem src_succ_append_outcome : forall s t x, WF s -> hid_tid (hp s) ->
  (forall x', x = Some x' -> hidden (get (hp s) x') = false) ->
  xoutcome (hp s) (src_succ_append_x (S (S (length (hp s)))) (hp s) t x).
Proof.
  intros s t x W Hh Hx. apply xoutcome_intro; [apply src_succ_append_sim | apply src_succ_append_sim |].
  intro k. apply src_succ_append_x_no_crash; assumption.
Qed.

Theorem src_pred_remove_atomic : forall s t x h' r, WF s -> hid_tid (hp s) ->
  src_pred_remove_x (S (S (length (hp s)))) (hp s) t x = Ok (h', r) -> (forall b, r <> XRet b) -> h' = hp s.
Proof. intros s t x h' r _ _. apply xat_raise. apply src_pred_remove_sim. Qed.

Theorem src_pred_remove_outcome : forall s t x, WF s -> hid_tid (hp s) ->
  xoutcome (hp s) (src_pred_remove_x (S (S (length (hp s)))) (hp s) t x).
Proof.
  intros s t x W Hh. apply xoutcome_intro; [apply src_pred_remove_sim | apply src_pred_remove_sim |].
  intro k. apply src_pred_remove_x_no_crash; assumption.
Qed.

Theorem src_succ_remove_atomic : forall s t x h' r, WF s -> hid_tid (hp s) ->
  src_succ_remove_x (S (S (length (hp s)))) (hp s) t x = Ok (h', r) -> (forall b, r <> XRet b) -> h' = hp s.
Proof. intros s t x h' r _ _. apply xat_raise. apply src_succ_remove_sim. Qed.

Theorem src_succ_remove_outcome : forall s t x, WF s -> hid_tid (hp s) ->
  xoutcome (hp s) (src_succ_remove_x (S (S (length (hp s)))) (hp s) t x).
Proof.
  intros s t x W Hh. apply xoutcome_intro; [apply src_succ_remove_sim | apply src_succ_remove_sim |].
  intro k. apply src_succ_remove_x_no_crash; assumption.
Qed.

(* ================================================================== *)
(** * beyond 3: children.insert hands back its heap on EVERY heap.  After an accepted parent setter the task is in the
      owner's list (or the owner is no object of the heap and the index lookup crashes); the element found at the
      index is in that list too and is not the task: all guards of move hold, and its writing loop does not raise *)

Lemma kids_after_append h o t :
  let h' := upd h o (fun T_ => with_kids (kids T_ ++ [t]) T_) in
  kids (get h' o) = [] \/ In t (kids (get h' o)).
Proof.
  cbv zeta. destruct (Nat.lt_ge_cases o (length h)) as [L|L].
  - right. rewrite (AncLemmas.get_upd_same h o _ L). cbn [kids with_kids]. apply in_or_app. right. left. reflexivity.
  - left. rewrite (AncLemmas.upd_out h o _ L). apply AncLemmas.get_out_kids. exact L.
Qed.

Ltac astep :=
  let Hx := fresh "Hx" in
  match goal with
  | |- (match ?x with _ => _ end) = _ -> _ => destruct x eqn:Hx
  | |- bind ?x _ = _ -> _ => destruct x eqn:Hx; cbn [bind]
  end.

Ltac aleaf :=
  let E := fresh "E" in
  solve [ intro E; discriminate E
        | intro E; inversion E; subst;
          first [ apply kids_after_append
                | right; apply AncLemmas.memn_In; unfold memn; assumption ] ].

Lemma src_set_parent_x_kids : forall F wr h t o h6 u,
  src_set_parent_x F wr h t (Some o) = Ok (h6, XRet u) -> kids (get h6 o) = [] \/ In t (kids (get h6 o)).
Proof.
  intros F wr h t o h6 u. unfold src_set_parent_x. cbv beta zeta iota.
  repeat first [ aleaf | astep ].
Qed.

Lemma src_list_get_In {A} (l : list A) i x : src_list_get l i = Ok x -> In x l.
Proof.
  unfold src_list_get. cbv zeta.
  match goal with |- (if ?c then _ else _) = _ -> _ => destruct c end; [|discriminate].
  match goal with |- match ?c with _ => _ end = _ -> _ => destruct c eqn:E end; [|discriminate].
  intro E2. inversion E2; subst. exact (nth_error_In _ _ E).
Qed.

Lemma src_ch_move_x_one_accepts h o t a :
  In t (kids (get h o)) -> In a (kids (get h o)) -> Nat.eqb a t = false ->
  xnr (src_ch_move_x h o [Some t] (Some a) None).
Proof.
  intros Ht Ha Na. apply AncLemmas.memn_In in Ht. apply AncLemmas.memn_In in Ha. unfold memn in Ht, Ha.
  unfold src_ch_move_x. cbv zeta. cbn [somes src_ch_move_x_loop2]. cbv beta zeta.
  rewrite Ht, Ha. cbn [existsb]. rewrite Na. cbn [orb].
  apply (src_ch_move_loop1_sim h o [Some t] (Some a) None [t] [t] h).
Qed.

Theorem src_ch_insert_xat_any : forall F wr h o i t, xat h (src_ch_insert_x F wr h o i t).
Proof.
  intros F wr h o i t. unfold src_ch_insert_x. cbv zeta.
  destruct (src_check_not_none t) as [[]| |k]; try exact I; [|exact eq_refl].
  match goal with |- xat _ (if ?c then _ else _) => destruct c end; [|exact eq_refl].
  match goal with |- xat _ (if ?c then _ else _) => destruct c end; [|exact eq_refl].
  destruct t as [t'|]; [|exact I].
  destruct (src_set_parent_sim F wr h t' (Some o)) as (_ & A & _).
  pose proof (src_set_parent_x_kids F wr h t' o) as K.
  destruct (src_set_parent_x F wr h t' (Some o)) as [[h6 [[]| |k]]| |k]; cbn [bind xat] in *; try first [exact A | exact I].
  specialize (K h6 tt eq_refl).
  destruct (src_list_get (kids (get h6 o)) i) as [elt| |k] eqn:G; cbn [bind xat]; try exact I.
  apply src_list_get_In in G.
  match goal with |- xat _ (if ?c then _ else _) => destruct c eqn:C end; [|exact I].
  assert (Ht : In t' (kids (get h6 o))).
  { destruct K as [K|K]; [rewrite K in G; destruct G | exact K]. }
  unfold onat_eqb in C. cbn [opt_eqb] in C. apply negb_true_iff in C.
  pose proof (src_ch_move_x_one_accepts h6 o t' elt Ht G C) as N.
  destruct (src_ch_move_x h6 o [Some t'] (Some elt) None) as [[h10 [[]| |k]]| |k]; cbn [bind xat xnr] in *;
    first [exact I | contradiction].
Qed.

Theorem src_ch_insert_x_raise_any : forall F wr h o i t h',
  (src_ch_insert_x F wr h o i t = Ok (h', XErr) -> h' = h) /\
  (forall k, src_ch_insert_x F wr h o i t = Ok (h', XRaise k) -> h' = h).
Proof. intros. apply xat_spell. apply src_ch_insert_xat_any. Qed.

Theorem src_ch_insert_atomic_any : forall F wr h o i t h' x,
  src_ch_insert_x F wr h o i t = Ok (h', x) -> (forall u, x <> XRet u) -> h' = h.
Proof. intros F wr h o i t h' x. apply xat_raise. apply src_ch_insert_xat_any. Qed.

(* ================================================================== *)
(** * non-vacuity: on the well-formed states demo5 (SrcGraphEquiv5) and demo7 (SrcGraphEquiv7) rejected calls of every
      setter and of insert return the very heap they were given; accepted calls return another one; and the two
      translations agree on all of them *)

Definition kids_after_x {A} (r : res (heap * xout A)) (o : obj) : res (list obj) :=
  match r with Ok (h, _) => Ok (kids (get h o)) | Err => Err | Crash k => Crash k end.

Example demo5_rejected_calls_keep_the_heap :
  let s := demo5 in
  let F := S (S (length (hp s))) in
  let h := hp s in
  let wr := wroots s in
  WF s /\ hid_tid h /\
  src_set_parent_x F wr h 1 (Some 1) = Ok (h, XErr) /\                 (* its own parent *)
  src_set_parent_x F wr h 1 (Some 3) = Ok (h, XErr) /\                 (* below itself *)
  src_set_parent_x F wr h 10 (Some 1) = Ok (h, XErr) /\                (* id clash: 10 carries the id of 5 *)
  src_set_parent_x F wr h 7 (Some 1) = Ok (h, XErr) /\                 (* a task of another WBS *)
  src_set_parent_x F wr h 12 (Some 2) = Ok (h, XErr) /\                (* 12 is linked with 2 *)
  kids_after_x (src_set_parent_x F wr h 8 (Some 1)) 1 = Ok [3; 4; 8] /\           (* accepted *)
  src_set_children_x F h 1 [Some 1] = Ok (h, XErr) /\
  src_set_children_x F h 1 [Some 7] = Ok (h, XErr) /\
  src_set_children_x F h 4 [Some 8; Some 11] = Ok (h, XErr) /\
  src_set_children_x F h 2 [Some 12] = Ok (h, XErr) /\
  kids_after_x (src_set_children_x F h 1 [Some 3; Some 8]) 1 = Ok [3; 8] /\       (* accepted *)
  src_set_predecessors_x F h 2 [Some 12] = Ok (h, XErr) /\             (* a cycle: 12 follows 2 *)
  src_set_predecessors_x F h 3 [Some 1] = Ok (h, XErr) /\              (* its parent *)
  src_set_successors_x F h 12 [Some 2] = Ok (h, XErr) /\
  src_set_successors_x F h 1 [Some 5] = Ok (h, XErr) /\                (* below itself *)
  xproj (src_set_predecessors_x F h 4 [Some 2]) = src_set_predecessors F h 4 [Some 2] /\   (* accepted *)
  (exists h', src_set_predecessors_x F h 4 [Some 2] = Ok (h', XRet tt) /\ h' <> h) /\
  src_ch_insert_x F wr h 1 0%Z None = Ok (h, XErr) /\                  (* no task *)
  src_ch_insert_x F wr h 1 0%Z (Some 1) = Ok (h, XErr) /\              (* the owner itself *)
  src_ch_insert_x F wr h 1 0%Z (Some 10) = Ok (h, XErr) /\             (* id clash *)
  src_ch_insert_x F wr h 1 0%Z (Some 7) = Ok (h, XErr) /\              (* a task of another WBS *)
  src_ch_insert_x F wr h 1 3%Z (Some 8) = Ok (h, XRaise IndexError) /\ (* new_len = 3 *)
  src_ch_insert_x F wr h 1 (-4)%Z (Some 8) = Ok (h, XRaise IndexError) /\
  src_ch_insert_x F wr h 1 2%Z (Some 4) = Ok (h, XRaise IndexError) /\ (* a child already: new_len = 2 *)
  kids_after_x (src_ch_insert_x F wr h 1 1%Z (Some 8)) 1 = Ok [3; 8; 4] /\        (* accepted, with the inner move *)
  kids_after_x (src_ch_insert_x F wr h 1 0%Z (Some 4)) 1 = Ok [4; 3] /\
  xproj (src_ch_insert_x F wr h 1 1%Z (Some 8)) = src_ch_insert F wr h 1 1%Z (Some 8) /\
  xproj (src_ch_insert_x F wr h 1 3%Z (Some 8)) = Crash IndexError /\
  src_ch_append_x F wr h 1 None = Ok (h, XErr) /\
  src_ch_append_x F wr h 1 (Some 10) = Ok (h, XErr) /\
  src_ch_remove_x F wr h 1 None = Ok (h, XErr) /\
  src_ch_remove_x F wr h 1 (Some 8) = Ok (h, XRet false) /\
  kids_after_x (src_ch_remove_x F wr h 1 (Some 3)) 1 = Ok [4] /\
  src_pred_append_x F h 2 (Some 12) = Ok (h, XErr) /\
  src_pred_append_x F h 2 None = Ok (h, XErr) /\
  src_succ_append_x F h 12 (Some 2) = Ok (h, XErr) /\
  src_pred_remove_x F h 12 None = Ok (h, XErr) /\
  (exists h', src_pred_remove_x F h 12 (Some 2) = Ok (h', XRet true) /\ h' <> h) /\
  src_succ_remove_x F h 2 None = Ok (h, XErr).
Proof.
  cbv zeta. split; [apply demo5_hyps|]. split; [apply demo5_hyps|].
  do 16 (split; [vm_compute; reflexivity|]).
  split; [eexists; split; [vm_compute; reflexivity | vm_compute; discriminate]|].
  do 20 (split; [vm_compute; reflexivity|]).
  split; [eexists; split; [vm_compute; reflexivity | vm_compute; discriminate]|].
  vm_compute; reflexivity.
Qed.

Example demo7_move_reorder :
  let s := demo7 in
  let h := hp s in
  WF s /\
  src_ch_move_x h 1 [Some 5] (Some 12) None = Ok (h, XErr) /\          (* a task that is not a child *)
  src_ch_move_x h 1 [Some 3] (Some 5) None = Ok (h, XErr) /\           (* an anchor that is not a child *)
  src_ch_move_x h 1 [Some 3] (Some 4) (Some 8) = Ok (h, XErr) /\       (* before and after *)
  src_ch_move_x h 1 [Some 3] None None = Ok (h, XErr) /\               (* neither *)
  src_ch_move_x h 1 [Some 3; Some 4] (Some 4) None = Ok (h, XErr) /\   (* the anchor among the tasks *)
  kids_after_x (src_ch_move_x h 1 [Some 12; Some 3] (Some 8) None) 1 = Ok [4; 12; 3; 8] /\
  xproj (src_ch_move_x h 1 [Some 12; Some 3] (Some 8) None) = src_ch_move h 1 [Some 12; Some 3] (Some 8) None /\
  src_ch_reorder_x h 1 [99%Z] = Crash StopIteration /\                 (* no child carries the id *)
  src_ch_reorder_x h 1 [3%Z; 3%Z] = Crash ValueError /\                (* a child named twice *)
  kids_after_x (src_ch_reorder_x h 1 [12%Z; 4%Z]) 1 = Ok [12; 4; 3; 8].
Proof.
  cbv zeta. split; [apply demo7_hyps|].
  do 9 (split; [vm_compute; reflexivity|]). vm_compute; reflexivity.
Qed.

(* the hypotheses of the summary theorems are satisfiable: instances on demo5 *)
Example demo5_summaries :
  xoutcome (hp demo5) (src_ch_insert_x (S (S (length (hp demo5)))) (wroots demo5) (hp demo5) 1 0%Z (Some 10)) /\
  xoutcome (hp demo5) (src_set_parent_x (S (S (length (hp demo5)))) (wroots demo5) (hp demo5) 12 (Some 2)) /\
  xoutcome (hp demo5) (src_set_children_x (S (S (length (hp demo5)))) (hp demo5) 1 [Some 7]) /\
  xoutcome (hp demo5) (src_set_predecessors_x (S (S (length (hp demo5)))) (hp demo5) 2 [Some 12]).
Proof.
  destruct demo5_hyps as [W Hh].
  split; [apply src_ch_insert_outcome; [exact W | exact Hh | vm_compute; lia | intros t' E; inversion E; subst; vm_compute; lia]|].
  split; [apply src_set_parent_outcome; [exact W | exact Hh | vm_compute; lia | intros t' E; inversion E; subst; vm_compute; lia]|].
  split; [apply src_set_children_outcome; [exact W | exact Hh | vm_compute; lia |
          intros v [E|[]]; inversion E; subst; vm_compute; lia]|].
  apply src_set_predecessors_outcome; [exact W | exact Hh | intros v [E|[]]; inversion E; subst; reflexivity].
Qed.

Print Assumptions xnr_xat.
Print Assumptions xsimw_xsim.
Print Assumptions src_fold_res_no_Err.
Print Assumptions src_attach_no_Err.
Print Assumptions src_detach_no_Err.
Print Assumptions src_list_index_no_Err.
Print Assumptions src_list_get_no_Err.
Print Assumptions src_set_parent_sim.
Print Assumptions src_set_predecessors_loop1_sim.
Print Assumptions src_set_predecessors_loop2_sim.
Print Assumptions src_set_predecessors_loop3_sim.
Print Assumptions src_set_predecessors_loop4_sim.
Print Assumptions src_set_predecessors_sim.
Print Assumptions src_set_successors_loop1_sim.
Print Assumptions src_set_successors_loop2_sim.
Print Assumptions src_set_successors_loop3_sim.
Print Assumptions src_set_successors_loop4_sim.
Print Assumptions src_set_successors_sim.
Print Assumptions src_set_children_loop1_sim.
Print Assumptions src_set_children_loop2_sim.
Print Assumptions src_set_children_loop3_sim.
Print Assumptions src_set_children_loop4_sim.
Print Assumptions src_set_children_sim.
Print Assumptions src_ch_move_loop1_sim.
Print Assumptions src_ch_move_loop2_sim.
Print Assumptions src_ch_move_sim.
Print Assumptions src_ch_reorder_loop1_sim.
Print Assumptions src_ch_reorder_simw.
Print Assumptions src_ch_reorder_sim.
Print Assumptions xsim_pass.
Print Assumptions src_ch_append_sim.
Print Assumptions src_ch_remove_sim.
Print Assumptions src_pred_append_sim.
Print Assumptions src_pred_remove_sim.
Print Assumptions src_succ_append_sim.
Print Assumptions src_succ_remove_sim.
Print Assumptions src_ch_insert_proj.
Print Assumptions src_ch_insert_xat.
Print Assumptions xproj_no_crash.
Print Assumptions src_set_parent_x_no_crash.
Print Assumptions src_set_predecessors_x_no_crash.
Print Assumptions src_set_successors_x_no_crash.
Print Assumptions src_set_children_x_no_crash.
Print Assumptions src_ch_move_x_no_crash.
Print Assumptions src_ch_append_x_no_crash.
Print Assumptions src_ch_remove_x_no_crash.
Print Assumptions src_pred_append_x_no_crash.
Print Assumptions src_succ_append_x_no_crash.
Print Assumptions src_pred_remove_x_no_crash.
Print Assumptions src_succ_remove_x_no_crash.
Print Assumptions src_ch_insert_x_no_crash.
Print Assumptions src_ch_reorder_x_outcomes.
Print Assumptions src_ch_insert_x_no_Err.
Print Assumptions xat_raise.
Print Assumptions xat_spell.
Print Assumptions xoutcome_intro.
Print Assumptions src_set_parent_x_proj.
Print Assumptions src_set_predecessors_x_proj.
Print Assumptions src_set_successors_x_proj.
Print Assumptions src_set_children_x_proj.
Print Assumptions src_ch_move_x_proj.
Print Assumptions src_ch_append_x_proj.
Print Assumptions src_ch_remove_x_proj.
Print Assumptions src_ch_insert_x_proj.
Print Assumptions src_ch_reorder_x_proj.
Print Assumptions src_pred_append_x_proj.
Print Assumptions src_pred_remove_x_proj.
Print Assumptions src_succ_append_x_proj.
Print Assumptions src_succ_remove_x_proj.
Print Assumptions src_set_parent_x_raise.
Print Assumptions src_set_predecessors_x_raise.
Print Assumptions src_set_successors_x_raise.
Print Assumptions src_set_children_x_raise.
Print Assumptions src_ch_move_x_raise.
Print Assumptions src_ch_append_x_raise.
Print Assumptions src_ch_remove_x_raise.
Print Assumptions src_pred_append_x_raise.
Print Assumptions src_pred_remove_x_raise.
Print Assumptions src_succ_append_x_raise.
Print Assumptions src_succ_remove_x_raise.
Print Assumptions src_ch_reorder_x_never_raises.
Print Assumptions src_ch_reorder_x_raise.
Print Assumptions src_ch_insert_x_raise.
Print Assumptions src_set_parent_atomic.
Print Assumptions src_set_parent_outcome.
Print Assumptions src_set_predecessors_outcome_gen.
Print Assumptions src_set_successors_outcome_gen.
Print Assumptions src_set_predecessors_atomic.
Print Assumptions src_set_predecessors_outcome.
Print Assumptions src_set_successors_atomic.
Print Assumptions src_set_successors_outcome.
Print Assumptions src_set_children_atomic.
Print Assumptions src_set_children_outcome.
Print Assumptions src_ch_move_atomic.
Print Assumptions src_ch_move_outcome.
Print Assumptions src_ch_append_atomic.
Print Assumptions src_ch_append_outcome.
Print Assumptions src_ch_remove_atomic.
Print Assumptions src_ch_remove_outcome.
Print Assumptions src_ch_insert_atomic.
Print Assumptions src_ch_insert_outcome.
Print Assumptions src_ch_reorder_atomic.
Print Assumptions src_pred_append_atomic.
Print Assumptions src_pred_append_outcome.
Print Assumptions src_succ_append_atomic.
Print Assumptions src_succ_append_outcome.
Print Assumptions src_pred_remove_atomic.
Print Assumptions src_pred_remove_outcome.
Print Assumptions src_succ_remove_atomic.
Print Assumptions src_succ_remove_outcome.
Print Assumptions kids_after_append.
Print Assumptions src_set_parent_x_kids.
Print Assumptions src_list_get_In.
Print Assumptions src_ch_move_x_one_accepts.
Print Assumptions src_ch_insert_xat_any.
Print Assumptions src_ch_insert_x_raise_any.
Print Assumptions src_ch_insert_atomic_any.
Print Assumptions demo5_rejected_calls_keep_the_heap.
Print Assumptions demo7_move_reorder.
Print Assumptions demo5_summaries.
