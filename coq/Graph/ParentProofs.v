(* The parent setter  t.parent = p  (Model.set_parent): the write, field by field.

   INDEX
     eff_par s t p               the parent actually written: p, or the hidden WBS root when p = None and t is owned
     pw h t p2                   the heap after the four writes;  write_unfold : set_parent_write s t p = mkS (pw ...) (wroots s)
     Section Write (pc_up h, pc_down h, kids_nodup h, t and the new parent allocated):
       get_detach                get (detach_from_parent h t) x = with_kids (without t (kids (get h x))) (get h x)
       get_pw                    get (pw h t p2) x = newT x      (the whole record, for EVERY x)
       pw_par / pw_kids / pw_own / pw_tid / pw_preds / pw_succs / pw_hidden / pw_prio / pw_name / pw_est, length_pw
     set_parent_effect           the exact effect of an accepted call (C16) - holds for every call whose
                                 write is executed, whatever the guard said
     set_parent_effect_kids_cases  the children lists, case by case
   The preservation of WF is in ParentProofs2.v. *)
From Coq Require Import Arith PeanoNat.
From PJ Require Import Base.Prelude Graph.Model Graph.Invariant Graph.AncLemmas Graph.AncLemmas2 Graph.DepLemmas.
Local Open Scope nat_scope.

Definition eff_par (s : state) (t : obj) (p : option obj) : option obj :=
  match p, own (get (hp s) t) with
  | None, Some w => Some (nth w (wroots s) O)
  | _, _ => p
  end.

Definition pw (h : heap) (t : obj) (p2 : option obj) : heap :=
  let sub := subtree h t in
  let h1 := detach_from_parent h t in
  match p2 with
  | None => upd h1 t (with_par None)
  | Some p' =>
      let h2 := upd h1 t (with_par (Some p')) in
      let h3 := match own (get h2 p') with Some w => set_own_all h2 sub (Some w) | None => h2 end in
      if memn t (kids (get h3 p')) then h3 else upd h3 p' (fun P => with_kids (kids P ++ [t]) P)
  end.

Lemma write_unfold s t p : set_parent_write s t p = mkS (pw (hp s) t (eff_par s t p)) (wroots s).
Proof.
  unfold set_parent_write, pw, eff_par.
  destruct p as [p'|]; [reflexivity|]. destruct (own (get (hp s) t)); reflexivity.
Qed.

Lemma with_kids_id T : with_kids (kids T) T = T.
Proof. destruct T; reflexivity. Qed.

Lemma memn_subtree h t x : memn x (subtree h t) = insub h t x && Nat.ltb x (length h).
Proof.
  destruct (memn x (subtree h t)) eqn:M.
  - apply memn_In in M. unfold subtree in M. apply filter_In in M. destruct M as [Hx Hi].
    apply In_objs in Hx. apply Nat.ltb_lt in Hx. rewrite Hi, Hx. reflexivity.
  - apply memn_false in M. destruct (insub h t x) eqn:Hi; [|reflexivity].
    destruct (Nat.ltb x (length h)) eqn:Hl; [|reflexivity]. exfalso. apply M.
    unfold subtree. apply filter_In. split; [apply In_objs, Nat.ltb_lt, Hl|exact Hi].
Qed.

Section Write.
Variable h : heap.
Variable t : obj.
Variable p2 : option obj.
Hypothesis Hup : pc_up h.
Hypothesis Hdown : pc_down h.
Hypothesis Hnd : kids_nodup h.
Hypothesis Ht : t < length h.
Hypothesis Hp2 : forall p', p2 = Some p' -> p' < length h.

Lemma get_detach x :
  get (detach_from_parent h t) x = with_kids (without t (kids (get h x))) (get h x).
Proof.
  unfold detach_from_parent. destruct (par (get h t)) as [q|] eqn:Eq.
  - pose proof (Hup _ _ Eq) as Hin. pose proof Hin as M. apply memn_In in M. rewrite M.
    destruct (Nat.eq_dec q x) as [->|N].
    + rewrite get_upd_same by (eapply kids_In_lt; exact Hin).
      rewrite remove1_without by apply Hnd. reflexivity.
    + rewrite get_upd_other by exact N.
      rewrite without_notin; [symmetry; apply with_kids_id|].
      intro H. apply Hdown in H. congruence.
  - rewrite without_notin; [symmetry; apply with_kids_id|].
    intro H. apply Hdown in H. congruence.
Qed.

Lemma length_detach : length (detach_from_parent h t) = length h.
Proof.
  unfold detach_from_parent. destruct (par (get h t)); [|reflexivity].
  destruct (memn _ _); [apply length_upd|reflexivity].
Qed.

Definition new_own (x : obj) : option wid :=
  match p2 with
  | Some p' => match own (get h p') with
               | Some w => if memn x (subtree h t) then Some w else own (get h x)
               | None => own (get h x)
               end
  | None => own (get h x)
  end.

Definition newT (x : obj) : task :=
  let T := get h x in
  mkT (tid T) (if Nat.eqb x t then p2 else par T)
      (without t (kids T) ++ (if onat_eqb p2 (Some x) then [t] else []))
      (preds T) (succs T) (new_own x) (hidden T) (prio T) (name T) (est T).

Lemma onat_eqb_Some_neq (a b : obj) : a <> b -> onat_eqb (Some a) (Some b) = false.
Proof.
  intro N. destruct (onat_eqb (Some a) (Some b)) eqn:E; [|reflexivity].
  apply onat_eqb_eq in E. congruence.
Qed.

Theorem get_pw x : get (pw h t p2) x = newT x.
Proof.
  unfold pw, newT, new_own. cbv zeta. pose proof Hp2 as Hp2'. destruct p2 as [p'|].
  - assert (Lp : p' < length h) by (apply Hp2'; reflexivity).
    set (h1 := detach_from_parent h t).
    set (h2 := upd h1 t (with_par (Some p'))).
    assert (L1 : length h1 = length h) by apply length_detach.
    assert (L2 : length h2 = length h) by (unfold h2; rewrite length_upd; exact L1).
    assert (G2 : forall y, get h2 y = if Nat.eqb y t
                                      then with_par (Some p') (with_kids (without t (kids (get h y))) (get h y))
                                      else with_kids (without t (kids (get h y))) (get h y)).
    { intro y. unfold h2. rewrite get_upd, L1. unfold h1. rewrite get_detach.
      apply Nat.ltb_lt in Ht. rewrite Ht, andb_true_r, (Nat.eqb_sym t y). reflexivity. }
    assert (O2 : own (get h2 p') = own (get h p')).
    { rewrite G2. destruct (Nat.eqb p' t); destruct (get h p'); reflexivity. }
    rewrite O2.
    set (h3 := match own (get h p') with Some w => set_own_all h2 (subtree h t) (Some w) | None => h2 end).
    assert (L3 : length h3 = length h).
    { unfold h3. destruct (own (get h p')); [rewrite length_set_own_all|]; exact L2. }
    assert (G3 : forall y, get h3 y = match own (get h p') with
                                      | Some w => if memn y (subtree h t) then with_own (Some w) (get h2 y) else get h2 y
                                      | None => get h2 y
                                      end).
    { intro y. unfold h3. destruct (own (get h p')) as [w|]; [|reflexivity].
      rewrite get_set_own_all, L2. destruct (memn y (subtree h t)) eqn:M; [|reflexivity].
      rewrite memn_subtree in M. apply andb_true_iff in M. destruct M as [_ M]. rewrite M. reflexivity. }
    assert (K3 : forall y, kids (get h3 y) = without t (kids (get h y))).
    { intro y. rewrite G3, G2.
      destruct (own (get h p')); [destruct (memn y (subtree h t))|]; destruct (Nat.eqb y t);
        destruct (get h y); reflexivity. }
    assert (M3 : memn t (kids (get h3 p')) = false).
    { apply memn_false. rewrite K3. rewrite In_without. intros [_ H]. apply H; reflexivity. }
    rewrite M3. rewrite get_upd, L3.
    apply Nat.ltb_lt in Lp. rewrite Lp, andb_true_r.
    destruct (Nat.eqb p' x) eqn:Epx.
    + apply Nat.eqb_eq in Epx. subst x. rewrite onat_eqb_refl. rewrite K3, G3, G2.
      destruct (memn p' (subtree h t)); destruct (Nat.eqb p' t);
        destruct (get h p') as [a1 a2 a3 a4 a5 [w|] a7 a8 a9 a10]; reflexivity.
    + apply Nat.eqb_neq in Epx. rewrite (onat_eqb_Some_neq _ _ Epx), app_nil_r. rewrite G3, G2.
      destruct (own (get h p')); [destruct (memn x (subtree h t))|]; destruct (Nat.eqb x t);
        destruct (get h x); reflexivity.
  - rewrite get_upd, length_detach, get_detach.
    apply Nat.ltb_lt in Ht. rewrite Ht, andb_true_r, (Nat.eqb_sym t x).
    assert (E : onat_eqb (@None obj) (Some x) = false) by reflexivity. rewrite E, app_nil_r.
    destruct (Nat.eqb x t); destruct (get h x); reflexivity.
Qed.

Lemma length_pw : length (pw h t p2) = length h.
Proof.
  unfold pw. cbv zeta. destruct p2 as [p'|].
  - match goal with |- context [if ?c then _ else _] => destruct c end;
      rewrite ?length_upd;
      (match goal with |- context [match ?c with Some _ => _ | None => _ end] => destruct c end);
      rewrite ?length_set_own_all, ?length_upd; apply length_detach.
  - rewrite length_upd. apply length_detach.
Qed.

Lemma pw_par x : par (get (pw h t p2) x) = if Nat.eqb x t then p2 else par (get h x).
Proof. rewrite get_pw. reflexivity. Qed.
Lemma pw_kids x :
  kids (get (pw h t p2) x) = without t (kids (get h x)) ++ (if onat_eqb p2 (Some x) then [t] else []).
Proof. rewrite get_pw. reflexivity. Qed.
Lemma pw_own x : own (get (pw h t p2) x) = new_own x.
Proof. rewrite get_pw. reflexivity. Qed.
Lemma pw_tid x : tid (get (pw h t p2) x) = tid (get h x).
Proof. rewrite get_pw. reflexivity. Qed.
Lemma pw_preds x : preds (get (pw h t p2) x) = preds (get h x).
Proof. rewrite get_pw. reflexivity. Qed.
Lemma pw_succs x : succs (get (pw h t p2) x) = succs (get h x).
Proof. rewrite get_pw. reflexivity. Qed.
Lemma pw_hidden x : hidden (get (pw h t p2) x) = hidden (get h x).
Proof. rewrite get_pw. reflexivity. Qed.
Lemma pw_prio x : prio (get (pw h t p2) x) = prio (get h x).
Proof. rewrite get_pw. reflexivity. Qed.
Lemma pw_name x : name (get (pw h t p2) x) = name (get h x).
Proof. rewrite get_pw. reflexivity. Qed.
Lemma pw_est x : est (get (pw h t p2) x) = est (get h x).
Proof. rewrite get_pw. reflexivity. Qed.

Lemma pw_Hsame x : x <> t -> par (get (pw h t p2) x) = par (get h x).
Proof. intro N. rewrite pw_par. apply Nat.eqb_neq in N. rewrite N. reflexivity. Qed.

Lemma pw_par_t : par (get (pw h t p2) t) = p2.
Proof. rewrite pw_par, Nat.eqb_refl. reflexivity. Qed.
End Write.

(* ================= the exact effect (C16) ================= *)
Definition rest (T : task) := (tid T, preds T, succs T, hidden T, prio T, name T, est T).

Lemma eff_par_lt s t p :
  I_fin s -> (forall p', p = Some p' -> p' < length (hp s)) ->
  forall p', eff_par s t p = Some p' -> p' < length (hp s).
Proof.
  intros F Hp p' E. unfold eff_par in E. destruct p as [q|]; [apply Hp; exact E|].
  destruct (own (get (hp s) t)) as [w|] eqn:Eo; [|discriminate].
  inversion E; subst p'. eapply dl_fin_wroots; [exact F|]. apply nth_In. eapply dl_fin_own; eassumption.
Qed.

(* Whatever the guard said: if the four writes are executed on a state with consistent children lists,
   this is what they do.  p2 = eff_par s t p is the parent actually written.
   - t is removed from the list that contained it and appended to the list of the new parent (if any);
     the relative order of all other children is untouched (without = filter);
   - the owner of exactly the allocated objects of subtree(t) becomes the owner of the new parent,
     when the new parent has one;
   - nothing else changes. *)
Theorem set_parent_effect s t p :
  I_fin s -> I_pc s -> t < length (hp s) -> (forall p', p = Some p' -> p' < length (hp s)) ->
  let h := hp s in
  let s' := set_parent_write s t p in
  let h' := hp s' in
  let p2 := eff_par s t p in
  wroots s' = wroots s /\ length h' = length h /\
  par (get h' t) = p2 /\
  (forall x, x <> t -> par (get h' x) = par (get h x)) /\
  (forall x, kids (get h' x) = without t (kids (get h x)) ++ (if onat_eqb p2 (Some x) then [t] else [])) /\
  (forall x, own (get h' x) =
             match p2 with
             | Some p' => match own (get h p') with
                          | Some w => if insub h t x && Nat.ltb x (length h) then Some w else own (get h x)
                          | None => own (get h x)
                          end
             | None => own (get h x)
             end) /\
  (forall x, rest (get h' x) = rest (get h x)).
Proof.
  intros F Pc Ht Hp. cbv zeta. rewrite write_unfold. cbn [hp wroots].
  pose proof (I_pc_pc_up _ Pc) as Hup. pose proof (I_pc_pc_down _ Pc) as Hdown.
  pose proof (I_pc_kids_nodup _ Pc) as Hnd.
  pose proof (eff_par_lt s t p F Hp) as Hp2.
  split; [reflexivity|]. split; [apply length_pw; assumption|].
  split; [apply pw_par_t; assumption|].
  split; [intros x N; apply pw_Hsame; assumption|].
  split; [intro x; apply pw_kids; assumption|].
  split.
  - intro x. rewrite pw_own by assumption. unfold new_own. rewrite memn_subtree. reflexivity.
  - intro x. unfold rest. rewrite get_pw by assumption. reflexivity.
Qed.

(* the children lists, case by case (q = the list owner) *)
Corollary set_parent_effect_kids_cases s t p q :
  I_fin s -> I_pc s -> t < length (hp s) -> (forall p', p = Some p' -> p' < length (hp s)) ->
  let h := hp s in
  let l' := kids (get (hp (set_parent_write s t p)) q) in
  let p2 := eff_par s t p in
  (p2 = Some q -> par (get h t) = Some q -> l' = without t (kids (get h q)) ++ [t]) /\
  (p2 = Some q -> par (get h t) <> Some q -> l' = kids (get h q) ++ [t]) /\
  (p2 <> Some q -> par (get h t) = Some q -> l' = without t (kids (get h q))) /\
  (p2 <> Some q -> par (get h t) <> Some q -> l' = kids (get h q)).
Proof.
  intros F Pc Ht Hp. cbv zeta.
  destruct (set_parent_effect s t p F Pc Ht Hp) as (_ & _ & _ & _ & K & _). cbv zeta in K. rewrite (K q).
  assert (W : par (get (hp s) t) <> Some q -> without t (kids (get (hp s) q)) = kids (get (hp s) q)).
  { intro N. apply without_notin. intro H. apply N. apply (I_pc_pc_down _ Pc). exact H. }
  assert (E1 : eff_par s t p = Some q -> onat_eqb (eff_par s t p) (Some q) = true)
    by (intro E; apply onat_eqb_eq; exact E).
  assert (E2 : eff_par s t p <> Some q -> onat_eqb (eff_par s t p) (Some q) = false).
  { intro N. destruct (onat_eqb (eff_par s t p) (Some q)) eqn:E; [|reflexivity]. apply onat_eqb_eq in E. contradiction. }
  repeat split; intros A B.
  - rewrite (E1 A). reflexivity.
  - rewrite (E1 A), (W B). reflexivity.
  - rewrite (E2 A). apply app_nil_r.
  - rewrite (E2 A), (W B). apply app_nil_r.
Qed.
