(* The parent setter  t.parent = p  (Model.set_parent): exact effect (C16) and preservation of WF (C01).

   INDEX
   == 1. the write, field by field ==
     eff_par s t p               the parent actually written: p, or the hidden WBS root when p = None and t is owned
     pw h t p2                   the heap after the four writes;  write_unfold : set_parent_write s t p = mkS (pw ...) (wroots s)
     Section Write (pc_up h, pc_down h, kids_nodup h, t and the new parent allocated):
       get_detach                get (detach_from_parent h t) x = with_kids (without t (kids (get h x))) (get h x)
       get_pw                    get (pw h t p2) x = newT x      (the whole record, for EVERY x)
       pw_par / pw_kids / pw_own / pw_tid / pw_preds / pw_succs / pw_hidden / pw_prio / pw_name / pw_est, length_pw
     set_parent_effect           the exact effect of the write (C16) - holds whatever the guard said
     set_parent_effect_kids_cases  the children lists, case by case
     set_parent_effect_own       the owner, in Prop form (Sub)
   == 2. preservation ==
     Section Common (WF s, t allocated and not hidden, the written parent p2 allocated):
       n_par .. n_hidden         the fields of the new heap, specialised
       new_fin, new_pc, new_sym, new_dag, new_hid     the conjuncts that do not look at paths
       new_own_outside / new_own_inside, wroot_outside, inside_unowned
     attach_ok s t p'            what the guard establishes about the written parent p':
                                 allocated, <> t, not below t, no link between subtree(t) and p' or its ancestors,
                                 same WBS when t is owned, no id clash when t is not
     Section Attach: a_Anc, a_Root, new_acy_a, new_sep_a, ids_mixed, new_ids_a, new_own_a ; attach_WF
     Section Detach (p = None, t not owned): new_acy_d, new_sep_d, new_ids_d, new_own_d ; detach_WF
     guard_some, guard_none_owned                   the guard / the invariant give attach_ok
     set_parent_write_WF         accepted call
     set_parent_WF               WF s -> pub s t -> (p = None \/ exists p', p = Some p' /\ p' < length (hp s)) ->
                                 WF (fst (set_parent s t p))
     set_parent_cases, set_parent_rejected          a rejected call returns the very same state
     set_parent_shape, set_parent_pub               length / hidden flags / WBS table are stable *)
From Coq Require Import Arith PeanoNat.
From PJ Require Import Base.Prelude Graph.Model Graph.Invariant Graph.AncLemmas Graph.AncLemmas2
  Graph.DepLemmas Graph.LinksProofs.
Local Open Scope nat_scope.

Definition eff_par (s : state) (t : obj) (p : option obj) : option obj :=
  match p, own (get (hp s) t) with
  | None, Some w => Some (nth w (wroots s) O)
  | _, _ => p
  end.

Definition pw (h : heap) (t : obj) (p2 : option obj) : heap :=
  let sub := subtree h t in
  let h1 := detach_from_parent h t in
  match p2 with
  | None => upd h1 t (with_par None)
  | Some p' =>
      let h2 := upd h1 t (with_par (Some p')) in
      let h3 := match own (get h2 p') with Some w => set_own_all h2 sub (Some w) | None => h2 end in
      if memn t (kids (get h3 p')) then h3 else upd h3 p' (fun P => with_kids (kids P ++ [t]) P)
  end.

Lemma write_unfold s t p : set_parent_write s t p = mkS (pw (hp s) t (eff_par s t p)) (wroots s).
Proof.
  unfold set_parent_write, pw, eff_par.
  destruct p as [p'|]; [reflexivity|]. destruct (own (get (hp s) t)); reflexivity.
Qed.

Lemma with_kids_id T : with_kids (kids T) T = T.
Proof. destruct T; reflexivity. Qed.

Lemma memn_subtree h t x : memn x (subtree h t) = insub h t x && Nat.ltb x (length h).
Proof.
  destruct (memn x (subtree h t)) eqn:M.
  - apply memn_In in M. unfold subtree in M. apply filter_In in M. destruct M as [Hx Hi].
    apply In_objs in Hx. apply Nat.ltb_lt in Hx. rewrite Hi, Hx. reflexivity.
  - apply memn_false in M. destruct (insub h t x) eqn:Hi; [|reflexivity].
    destruct (Nat.ltb x (length h)) eqn:Hl; [|reflexivity]. exfalso. apply M.
    unfold subtree. apply filter_In. split; [apply In_objs, Nat.ltb_lt, Hl|exact Hi].
Qed.

Section Write.
Variable h : heap.
Variable t : obj.
Variable p2 : option obj.
Hypothesis Hup : pc_up h.
Hypothesis Hdown : pc_down h.
Hypothesis Hnd : kids_nodup h.
Hypothesis Ht : t < length h.
Hypothesis Hp2 : forall p', p2 = Some p' -> p' < length h.

Lemma get_detach x :
  get (detach_from_parent h t) x = with_kids (without t (kids (get h x))) (get h x).
Proof.
  unfold detach_from_parent. destruct (par (get h t)) as [q|] eqn:Eq.
  - pose proof (Hup _ _ Eq) as Hin. pose proof Hin as M. apply memn_In in M. rewrite M.
    destruct (Nat.eq_dec q x) as [->|N].
    + rewrite get_upd_same by (eapply kids_In_lt; exact Hin).
      rewrite remove1_without by apply Hnd. reflexivity.
    + rewrite get_upd_other by exact N.
      rewrite without_notin; [symmetry; apply with_kids_id|].
      intro H. apply Hdown in H. congruence.
  - rewrite without_notin; [symmetry; apply with_kids_id|].
    intro H. apply Hdown in H. congruence.
Qed.

Lemma length_detach : length (detach_from_parent h t) = length h.
Proof.
  unfold detach_from_parent. destruct (par (get h t)); [|reflexivity].
  destruct (memn _ _); [apply length_upd|reflexivity].
Qed.

Definition new_own (x : obj) : option wid :=
  match p2 with
  | Some p' => match own (get h p') with
               | Some w => if memn x (subtree h t) then Some w else own (get h x)
               | None => own (get h x)
               end
  | None => own (get h x)
  end.

Definition newT (x : obj) : task :=
  let T := get h x in
  mkT (tid T) (if Nat.eqb x t then p2 else par T)
      (without t (kids T) ++ (if onat_eqb p2 (Some x) then [t] else []))
      (preds T) (succs T) (new_own x) (hidden T) (prio T) (name T) (est T).

Lemma onat_eqb_Some_neq (a b : obj) : a <> b -> onat_eqb (Some a) (Some b) = false.
Proof.
  intro N. destruct (onat_eqb (Some a) (Some b)) eqn:E; [|reflexivity].
  apply onat_eqb_eq in E. congruence.
Qed.

Theorem get_pw x : get (pw h t p2) x = newT x.
Proof.
  unfold pw, newT, new_own. cbv zeta. pose proof Hp2 as Hp2'. destruct p2 as [p'|].
  - assert (Lp : p' < length h) by (apply Hp2'; reflexivity).
    set (h1 := detach_from_parent h t).
    set (h2 := upd h1 t (with_par (Some p'))).
    assert (L1 : length h1 = length h) by apply length_detach.
    assert (L2 : length h2 = length h) by (unfold h2; rewrite length_upd; exact L1).
    assert (G2 : forall y, get h2 y = if Nat.eqb y t
                                      then with_par (Some p') (with_kids (without t (kids (get h y))) (get h y))
                                      else with_kids (without t (kids (get h y))) (get h y)).
    { intro y. unfold h2. rewrite get_upd, L1. unfold h1. rewrite get_detach.
      apply Nat.ltb_lt in Ht. rewrite Ht, andb_true_r, (Nat.eqb_sym t y). reflexivity. }
    assert (O2 : own (get h2 p') = own (get h p')).
    { rewrite G2. destruct (Nat.eqb p' t); destruct (get h p'); reflexivity. }
    rewrite O2.
    set (h3 := match own (get h p') with Some w => set_own_all h2 (subtree h t) (Some w) | None => h2 end).
    assert (L3 : length h3 = length h).
    { unfold h3. destruct (own (get h p')); [rewrite length_set_own_all|]; exact L2. }
    assert (G3 : forall y, get h3 y = match own (get h p') with
                                      | Some w => if memn y (subtree h t) then with_own (Some w) (get h2 y) else get h2 y
                                      | None => get h2 y
                                      end).
    { intro y. unfold h3. destruct (own (get h p')) as [w|]; [|reflexivity].
      rewrite get_set_own_all, L2. destruct (memn y (subtree h t)) eqn:M; [|reflexivity].
      rewrite memn_subtree in M. apply andb_true_iff in M. destruct M as [_ M]. rewrite M. reflexivity. }
    assert (K3 : forall y, kids (get h3 y) = without t (kids (get h y))).
    { intro y. rewrite G3, G2.
      destruct (own (get h p')); [destruct (memn y (subtree h t))|]; destruct (Nat.eqb y t);
        destruct (get h y); reflexivity. }
    assert (M3 : memn t (kids (get h3 p')) = false).
    { apply memn_false. rewrite K3. rewrite In_without. intros [_ H]. apply H; reflexivity. }
    rewrite M3. rewrite get_upd, L3.
    apply Nat.ltb_lt in Lp. rewrite Lp, andb_true_r.
    destruct (Nat.eqb p' x) eqn:Epx.
    + apply Nat.eqb_eq in Epx. subst x. rewrite onat_eqb_refl. rewrite K3, G3, G2.
      destruct (memn p' (subtree h t)); destruct (Nat.eqb p' t);
        destruct (get h p') as [a1 a2 a3 a4 a5 [w|] a7 a8 a9 a10]; reflexivity.
    + apply Nat.eqb_neq in Epx. rewrite (onat_eqb_Some_neq _ _ Epx), app_nil_r. rewrite G3, G2.
      destruct (own (get h p')); [destruct (memn x (subtree h t))|]; destruct (Nat.eqb x t);
        destruct (get h x); reflexivity.
  - rewrite get_upd, length_detach, get_detach.
    apply Nat.ltb_lt in Ht. rewrite Ht, andb_true_r, (Nat.eqb_sym t x).
    assert (E : onat_eqb (@None obj) (Some x) = false) by reflexivity. rewrite E, app_nil_r.
    destruct (Nat.eqb x t); destruct (get h x); reflexivity.
Qed.

Lemma length_pw : length (pw h t p2) = length h.
Proof.
  unfold pw. cbv zeta. destruct p2 as [p'|].
  - match goal with |- context [if ?c then _ else _] => destruct c end;
      rewrite ?length_upd;
      (match goal with |- context [match ?c with Some _ => _ | None => _ end] => destruct c end);
      rewrite ?length_set_own_all, ?length_upd; apply length_detach.
  - rewrite length_upd. apply length_detach.
Qed.

Lemma pw_par x : par (get (pw h t p2) x) = if Nat.eqb x t then p2 else par (get h x).
Proof. rewrite get_pw. reflexivity. Qed.
Lemma pw_kids x :
  kids (get (pw h t p2) x) = without t (kids (get h x)) ++ (if onat_eqb p2 (Some x) then [t] else []).
Proof. rewrite get_pw. reflexivity. Qed.
Lemma pw_own x : own (get (pw h t p2) x) = new_own x.
Proof. rewrite get_pw. reflexivity. Qed.
Lemma pw_tid x : tid (get (pw h t p2) x) = tid (get h x).
Proof. rewrite get_pw. reflexivity. Qed.
Lemma pw_preds x : preds (get (pw h t p2) x) = preds (get h x).
Proof. rewrite get_pw. reflexivity. Qed.
Lemma pw_succs x : succs (get (pw h t p2) x) = succs (get h x).
Proof. rewrite get_pw. reflexivity. Qed.
Lemma pw_hidden x : hidden (get (pw h t p2) x) = hidden (get h x).
Proof. rewrite get_pw. reflexivity. Qed.
Lemma pw_prio x : prio (get (pw h t p2) x) = prio (get h x).
Proof. rewrite get_pw. reflexivity. Qed.
Lemma pw_name x : name (get (pw h t p2) x) = name (get h x).
Proof. rewrite get_pw. reflexivity. Qed.
Lemma pw_est x : est (get (pw h t p2) x) = est (get h x).
Proof. rewrite get_pw. reflexivity. Qed.

Lemma pw_Hsame x : x <> t -> par (get (pw h t p2) x) = par (get h x).
Proof. intro N. rewrite pw_par. apply Nat.eqb_neq in N. rewrite N. reflexivity. Qed.

Lemma pw_par_t : par (get (pw h t p2) t) = p2.
Proof. rewrite pw_par, Nat.eqb_refl. reflexivity. Qed.
End Write.

(* ================= the exact effect (C16) ================= *)
Definition rest (T : task) := (tid T, preds T, succs T, hidden T, prio T, name T, est T).

Lemma eff_par_lt s t p :
  I_fin s -> (forall p', p = Some p' -> p' < length (hp s)) ->
  forall p', eff_par s t p = Some p' -> p' < length (hp s).
Proof.
  intros F Hp p' E. unfold eff_par in E. destruct p as [q|]; [apply Hp; exact E|].
  destruct (own (get (hp s) t)) as [w|] eqn:Eo; [|discriminate].
  inversion E; subst p'. eapply dl_fin_wroots; [exact F|]. apply nth_In. eapply dl_fin_own; eassumption.
Qed.

(* Whatever the guard said: if the four writes are executed on a state with consistent children lists,
   this is what they do.  p2 = eff_par s t p is the parent actually written.
   - t is removed from the list that contained it and appended to the list of the new parent (if any);
     the relative order of all other children is untouched (without = filter);
   - the owner of exactly the allocated objects of subtree(t) becomes the owner of the new parent,
     when the new parent has one;
   - nothing else changes. *)
Theorem set_parent_effect s t p :
  I_fin s -> I_pc s -> t < length (hp s) -> (forall p', p = Some p' -> p' < length (hp s)) ->
  let h := hp s in
  let s' := set_parent_write s t p in
  let h' := hp s' in
  let p2 := eff_par s t p in
  wroots s' = wroots s /\ length h' = length h /\
  par (get h' t) = p2 /\
  (forall x, x <> t -> par (get h' x) = par (get h x)) /\
  (forall x, kids (get h' x) = without t (kids (get h x)) ++ (if onat_eqb p2 (Some x) then [t] else [])) /\
  (forall x, own (get h' x) =
             match p2 with
             | Some p' => match own (get h p') with
                          | Some w => if insub h t x && Nat.ltb x (length h) then Some w else own (get h x)
                          | None => own (get h x)
                          end
             | None => own (get h x)
             end) /\
  (forall x, rest (get h' x) = rest (get h x)).
Proof.
  intros F Pc Ht Hp. cbv zeta. rewrite write_unfold. cbn [hp wroots].
  pose proof (I_pc_pc_up _ Pc) as Hup. pose proof (I_pc_pc_down _ Pc) as Hdown.
  pose proof (I_pc_kids_nodup _ Pc) as Hnd.
  pose proof (eff_par_lt s t p F Hp) as Hp2.
  split; [reflexivity|]. split; [apply length_pw; assumption|].
  split; [apply pw_par_t; assumption|].
  split; [intros x N; apply pw_Hsame; assumption|].
  split; [intro x; apply pw_kids; assumption|].
  split.
  - intro x. rewrite pw_own by assumption. unfold new_own. rewrite memn_subtree. reflexivity.
  - intro x. unfold rest. rewrite get_pw by assumption. reflexivity.
Qed.

(* the children lists, case by case (q = the list owner) *)
Corollary set_parent_effect_kids_cases s t p q :
  I_fin s -> I_pc s -> t < length (hp s) -> (forall p', p = Some p' -> p' < length (hp s)) ->
  let h := hp s in
  let l' := kids (get (hp (set_parent_write s t p)) q) in
  let p2 := eff_par s t p in
  (p2 = Some q -> par (get h t) = Some q -> l' = without t (kids (get h q)) ++ [t]) /\
  (p2 = Some q -> par (get h t) <> Some q -> l' = kids (get h q) ++ [t]) /\
  (p2 <> Some q -> par (get h t) = Some q -> l' = without t (kids (get h q))) /\
  (p2 <> Some q -> par (get h t) <> Some q -> l' = kids (get h q)).
Proof.
  intros F Pc Ht Hp. cbv zeta.
  destruct (set_parent_effect s t p F Pc Ht Hp) as (_ & _ & _ & _ & K & _). cbv zeta in K. rewrite (K q).
  assert (W : par (get (hp s) t) <> Some q -> without t (kids (get (hp s) q)) = kids (get (hp s) q)).
  { intro N. apply without_notin. intro H. apply N. apply (I_pc_pc_down _ Pc). exact H. }
  assert (E1 : eff_par s t p = Some q -> onat_eqb (eff_par s t p) (Some q) = true)
    by (intro E; apply onat_eqb_eq; exact E).
  assert (E2 : eff_par s t p <> Some q -> onat_eqb (eff_par s t p) (Some q) = false).
  { intro N. destruct (onat_eqb (eff_par s t p) (Some q)) eqn:E; [|reflexivity]. apply onat_eqb_eq in E. contradiction. }
  repeat split; intros A B.
  - rewrite (E1 A). reflexivity.
  - rewrite (E1 A), (W B). reflexivity.
  - rewrite (E2 A). apply app_nil_r.
  - rewrite (E2 A), (W B). apply app_nil_r.
Qed.

(* the owner, in Prop form: exactly the allocated members of subtree(t) take the owner of the new parent *)
Corollary set_parent_effect_own s t p x :
  I_fin s -> I_pc s -> I_acy s -> t < length (hp s) -> (forall p', p = Some p' -> p' < length (hp s)) ->
  let h := hp s in
  let h' := hp (set_parent_write s t p) in
  let p2 := eff_par s t p in
  (forall p' w, p2 = Some p' -> own (get h p') = Some w -> x < length h -> Sub h t x -> own (get h' x) = Some w) /\
  (p2 = None \/ (exists p', p2 = Some p' /\ own (get h p') = None) \/ ~ Sub h t x \/ length h <= x ->
   own (get h' x) = own (get h x)).
Proof.
  intros F Pc Acy Ht Hp. cbv zeta. apply I_acy_acyclic in Acy.
  destruct (set_parent_effect s t p F Pc Ht Hp) as (_ & _ & _ & _ & _ & O & _). cbv zeta in O. rewrite (O x).
  split.
  - intros p' w E Eo Lx Sx. rewrite E, Eo.
    apply (insub_Sub _ _ _ Acy) in Sx. apply Nat.ltb_lt in Lx. rewrite Sx, Lx. reflexivity.
  - intros [E|[[p' [E Eo]]|[N|G]]].
    + rewrite E. reflexivity.
    + rewrite E, Eo. reflexivity.
    + destruct (eff_par s t p) as [p'|]; [|reflexivity]. destruct (own (get (hp s) p')); [|reflexivity].
      apply (insub_false_iff _ _ _ Acy) in N. rewrite N. reflexivity.
    + destruct (eff_par s t p) as [p'|]; [|reflexivity]. destruct (own (get (hp s) p')); [|reflexivity].
      apply Nat.ltb_ge in G. rewrite G, andb_false_r. reflexivity.
Qed.

(* ================================================================== *)
(* 2. preservation of WF *)


Lemma Dep_same h h' : (forall x, preds (get h' x) = preds (get h x)) -> forall x y, Dep h x y -> Dep h' x y.
Proof.
  intros E x y H. induction H as [x p H|x p y H _ IH].
  - apply Dep_one. rewrite E. exact H.
  - eapply Dep_more; [rewrite E; exact H|exact IH].
Qed.

Lemma preds_In_lt h x y : In y (preds (get h x)) -> x < length h.
Proof.
  intro H. destruct (Nat.lt_ge_cases x (length h)) as [L|G]; [exact L|].
  rewrite get_out_preds in H by exact G. destruct H.
Qed.

Lemma succs_In_lt h x y : In y (succs (get h x)) -> x < length h.
Proof.
  intro H. destruct (Nat.lt_ge_cases x (length h)) as [L|G]; [exact L|].
  rewrite get_out_succs in H by exact G. destruct H.
Qed.

Lemma pubpar_Some h t p' : pubpar h t = Some p' -> par (get h t) = Some p'.
Proof.
  unfold pubpar. destruct (par (get h t)) as [q|]; [|discriminate].
  destruct (hidden (get h q)); [discriminate|]. intro E; exact E.
Qed.

(* what the guard (or, for p = None on an owned task, the invariant) says about the written parent *)
Definition attach_ok (s : state) (t p' : obj) : Prop :=
  let h := hp s in
  p' < length h /\ p' <> t /\ ~ Anc h p' t /\
  (forall x l, x < length h -> Sub h t x -> In l (preds (get h x) ++ succs (get h x)) ->
               l <> p' /\ ~ Anc h p' l) /\
  (forall w, own (get h t) = Some w -> own (get h p') = Some w) /\
  (own (get h t) = None ->
     par (get h t) = Some p' \/
     (forall r x y, Root h p' r -> Incoming h r [t] x -> InTree h r y -> tid (get h x) <> tid (get h y))).

Section Common.
Variable s : state.
Variable t : obj.
Variable p2 : option obj.
Local Notation h := (hp s).
Local Notation h' := (pw (hp s) t p2).
Local Notation s' := (mkS (pw (hp s) t p2) (wroots s)).
Hypothesis F : I_fin s.
Hypothesis Pc : I_pc s.
Hypothesis Acy : I_acy s.
Hypothesis Sym : I_sym s.
Hypothesis Dag : I_dag s.
Hypothesis Sep : I_sep s.
Hypothesis Ids : I_ids s.
Hypothesis Hid : I_hid s.
Hypothesis Own : I_own s.
Hypothesis Ht : t < length h.
Hypothesis Hth : hidden (get h t) = false.
Hypothesis Hp2 : forall p', p2 = Some p' -> p' < length h.

Lemma Hup : pc_up h.
Proof. exact (I_pc_pc_up _ Pc). Qed.
Lemma Hdown : pc_down h.
Proof. exact (I_pc_pc_down _ Pc). Qed.
Lemma Hnd : kids_nodup h.
Proof. exact (I_pc_kids_nodup _ Pc). Qed.

Lemma n_len : length h' = length h.
Proof. apply length_pw; assumption. Qed.
Lemma n_par x : par (get h' x) = if Nat.eqb x t then p2 else par (get h x).
Proof. apply pw_par; [exact Hup|exact Hdown|exact Hnd|exact Ht|exact Hp2]. Qed.
Lemma n_kids x : kids (get h' x) = without t (kids (get h x)) ++ (if onat_eqb p2 (Some x) then [t] else []).
Proof. apply pw_kids; [exact Hup|exact Hdown|exact Hnd|exact Ht|exact Hp2]. Qed.
Lemma n_own x : own (get h' x) = new_own h t p2 x.
Proof. apply pw_own; [exact Hup|exact Hdown|exact Hnd|exact Ht|exact Hp2]. Qed.
Lemma n_tid x : tid (get h' x) = tid (get h x).
Proof. apply pw_tid; [exact Hup|exact Hdown|exact Hnd|exact Ht|exact Hp2]. Qed.
Lemma n_preds x : preds (get h' x) = preds (get h x).
Proof. apply pw_preds; [exact Hup|exact Hdown|exact Hnd|exact Ht|exact Hp2]. Qed.
Lemma n_succs x : succs (get h' x) = succs (get h x).
Proof. apply pw_succs; [exact Hup|exact Hdown|exact Hnd|exact Ht|exact Hp2]. Qed.
Lemma n_hidden x : hidden (get h' x) = hidden (get h x).
Proof. apply pw_hidden; [exact Hup|exact Hdown|exact Hnd|exact Ht|exact Hp2]. Qed.
Lemma n_Hsame x : x <> t -> par (get h' x) = par (get h x).
Proof. apply pw_Hsame; [exact Hup|exact Hdown|exact Hnd|exact Ht|exact Hp2]. Qed.
Lemma n_par_t : par (get h' t) = p2.
Proof. apply pw_par_t; [exact Hup|exact Hdown|exact Hnd|exact Ht|exact Hp2]. Qed.

Lemma new_own_outside x : ~ Sub h t x -> new_own h t p2 x = own (get h x).
Proof.
  intro N. unfold new_own. destruct p2 as [p'|]; [|reflexivity].
  destruct (own (get h p')); [|reflexivity].
  destruct (memn x (subtree h t)) eqn:M; [|reflexivity].
  exfalso. apply N. apply memn_In in M. unfold subtree in M. apply filter_In in M.
  apply insub_true_Sub. apply M.
Qed.

Lemma new_own_inside x : x < length h -> Sub h t x ->
  new_own h t p2 x = match p2 with
                     | Some p' => match own (get h p') with Some w => Some w | None => own (get h x) end
                     | None => own (get h x)
                     end.
Proof.
  intros L S. unfold new_own. destruct p2 as [p'|]; [|reflexivity].
  destruct (own (get h p')); [|reflexivity].
  assert (M : memn x (subtree h t) = true).
  { apply memn_In. apply In_subtree; [apply I_acy_acyclic; exact Acy|]. split; assumption. }
  rewrite M. reflexivity.
Qed.

(* the hidden root of a WBS lies in no subtree but its own *)
Lemma wroot_outside w : w < length (wroots s) -> ~ Sub h t (nth w (wroots s) 0).
Proof.
  intros Lw S. destruct Hid as (_ & B & C). destruct (C w Lw) as (_ & C2 & _).
  assert (Hin : In (nth w (wroots s) 0) (wroots s)) by (apply nth_In; exact Lw).
  assert (Lr : nth w (wroots s) 0 < length h) by (eapply dl_fin_wroots; eassumption).
  destruct S as [E|A].
  - apply (B _ Lr) in Hin. unfold obj in *. rewrite E in Hin. congruence.
  - apply Anc_has_par in A. destruct A as [q Eq]. unfold obj in *. congruence.
Qed.

Lemma inside_unowned x : own (get h t) = None -> x < length h -> Sub h t x -> own (get h x) = None.
Proof.
  intros Eo L S. destruct (own (get h x)) as [w|] eqn:E; [|reflexivity]. exfalso.
  destruct (proj1 (Own x w L) E) as [Lw R].
  apply (Root_Sub _ _ _ _ S) in R.
  pose proof (proj2 (Own t w Ht) (conj Lw R)) as E2. congruence.
Qed.

Theorem new_fin : I_fin s'.
Proof.
  split.
  - intro x. cbv zeta. cbn [hp wroots]. rewrite n_len, n_par, n_kids, n_preds, n_succs, n_own.
    split; [|split].
    + intros q E. destruct (Nat.eqb x t); [apply Hp2; exact E|eapply dl_fin_par; eassumption].
    + intros y Hy. rewrite !in_app_iff in Hy. destruct Hy as [[Hy|Hy]|[Hy|Hy]].
      * apply In_without in Hy. destruct Hy as [Hy _]. eapply dl_fin_kids; eassumption.
      * destruct (onat_eqb p2 (Some x)); [destruct Hy as [<-|[]]; exact Ht|destruct Hy].
      * eapply dl_fin_preds; eassumption.
      * eapply dl_fin_succs; eassumption.
    + intros w E. unfold new_own in E. destruct p2 as [p'|].
      * destruct (own (get h p')) as [w'|] eqn:Eo.
        -- destruct (memn x (subtree h t)).
           ++ inversion E; subst w'. eapply dl_fin_own; eassumption.
           ++ eapply dl_fin_own; eassumption.
        -- eapply dl_fin_own; eassumption.
      * eapply dl_fin_own; eassumption.
  - cbn [hp wroots]. rewrite n_len. apply F.
Qed.

Theorem new_pc : I_pc s'.
Proof.
  destruct Pc as [P1 P2]. split.
  - intros c q. cbn [hp]. rewrite n_par, n_kids, in_app_iff, In_without.
    destruct (Nat.eqb c t) eqn:E.
    + apply Nat.eqb_eq in E; subst c. split.
      * intro E2. right. rewrite E2, onat_eqb_refl. left; reflexivity.
      * intros [[_ N]|H]; [exfalso; apply N; reflexivity|].
        destruct (onat_eqb p2 (Some q)) eqn:Eo; [apply onat_eqb_eq in Eo; exact Eo|destruct H].
    + apply Nat.eqb_neq in E. rewrite (P1 c q). split.
      * intro H; left; split; assumption.
      * intros [[H _]|H]; [exact H|].
        destruct (onat_eqb p2 (Some q)); [destruct H as [H|[]]; congruence|destruct H].
  - intro q. cbn [hp]. rewrite n_kids.
    destruct (onat_eqb p2 (Some q)).
    + apply NoDup_snoc; [apply NoDup_without, P2|]. rewrite In_without. intros [_ N]; apply N; reflexivity.
    + rewrite app_nil_r. apply NoDup_without, P2.
Qed.

Theorem new_sym : I_sym s'.
Proof.
  destruct Sym as [S1 S2]. split.
  - intros a b. cbn [hp]. rewrite n_preds, n_succs. apply S1.
  - intro a. cbn [hp]. rewrite n_preds, n_succs. apply S2.
Qed.

Theorem new_dag : I_dag s'.
Proof.
  intros x H. apply (Dag x). cbn [hp] in H. eapply Dep_same; [|exact H].
  intro y. symmetry. apply n_preds.
Qed.

Theorem new_hid : I_hid s'.
Proof.
  pose proof Hid as (A & B & C). split; [exact A|]. split.
  - intros x Hx. cbn [hp wroots] in *. rewrite n_len in Hx. rewrite n_hidden. apply B; exact Hx.
  - intros w Hw. cbn [hp wroots] in *. cbv zeta.
    rewrite n_own, n_par, n_preds, n_succs.
    pose proof (wroot_outside w Hw) as N.
    rewrite (new_own_outside _ N).
    assert (E : Nat.eqb (nth w (wroots s) 0) t = false).
    { apply Nat.eqb_neq. intro E. apply N. left. exact E. }
    rewrite E. apply (C w Hw).
Qed.
End Common.

(* ================= attach: the written parent is Some p' ================= *)
Section Attach.
Variable s : state.
Variable t p' : obj.
Local Notation h := (hp s).
Local Notation h' := (pw (hp s) t (Some p')).
Local Notation s' := (mkS (pw (hp s) t (Some p')) (wroots s)).
Hypothesis W : WF s.
Hypothesis Ht : t < length h.
Hypothesis Hth : hidden (get h t) = false.
Hypothesis G : attach_ok s t p'.

Ltac useW := pose proof W as (F & Pc & Acy & Sym & Dag & Sep & Ids & Hid & Own);
             pose proof G as (Lp & Hpt & Hnb & Hlk & Hown & Hids).

Lemma Hp2a : forall q, Some p' = Some q -> q < length h.
Proof. useW. intros q E. inversion E; subst q. exact Lp. Qed.

Lemma Hacy : acyclic h.
Proof. useW. apply I_acy_acyclic. exact Acy. Qed.

Lemma a_Hsame x : x <> t -> par (get h' x) = par (get h x).
Proof. useW. apply n_Hsame; try assumption. apply Hp2a. Qed.

Lemma a_par_t : par (get h' t) = Some p'.
Proof. useW. apply n_par_t; try assumption. apply Hp2a. Qed.

Lemma a_Anc x a :
  Anc h' x a <->
  (~ Sub h t x /\ Anc h x a) \/ (Sub h t x /\ ((Anc h x a /\ Sub h t a) \/ a = p' \/ Anc h p' a)).
Proof. useW. apply (attach_Anc h h' t a_Hsame Hacy p' a_par_t Hpt Hnb). Qed.

Lemma a_Root x r : Root h' x r <-> (~ Sub h t x /\ Root h x r) \/ (Sub h t x /\ Root h p' r).
Proof. useW. apply (attach_Root h h' t a_Hsame Hacy p' a_par_t Hpt Hnb). Qed.

Theorem new_acy_a : I_acy s'.
Proof.
  useW. apply I_acy_acyclic. cbn [hp].
  apply (attach_acyclic h h' t a_Hsame Hacy p' a_par_t Hpt Hnb).
Qed.

Theorem new_sep_a : I_sep s'.
Proof.
  useW. destruct Sym as [S1 _].
  intros a b Hb. cbn [hp] in *. rewrite n_preds in Hb by (try assumption; apply Hp2a).
  destruct (Sep a b Hb) as [N1 N2]. split; intro HA; apply a_Anc in HA.
  - destruct HA as [[_ HA]|[HS [[HA _]|HA]]]; [exact (N1 HA)|exact (N1 HA)|].
    assert (La : a < length h) by (eapply preds_In_lt; exact Hb).
    destruct (Hlk a b La HS) as [M1 M2]; [apply in_or_app; left; exact Hb|].
    destruct HA as [HA|HA]; [exact (M1 HA)|exact (M2 HA)].
  - destruct HA as [[_ HA]|[HS [[HA _]|HA]]]; [exact (N2 HA)|exact (N2 HA)|].
    apply S1 in Hb.
    assert (Lb : b < length h) by (eapply succs_In_lt; exact Hb).
    destruct (Hlk b a Lb HS) as [M1 M2]; [apply in_or_app; right; exact Hb|].
    destruct HA as [HA|HA]; [exact (M1 HA)|exact (M2 HA)].
Qed.

(* an incoming task and a task of the receiving tree with the same id are the same task *)
Lemma ids_mixed a b r :
  a < length h -> b < length h -> Sub h t a -> Root h p' r -> Root h b r ->
  tid (get h a) = tid (get h b) -> a = b.
Proof.
  useW. intros La Lb Sa Rp Rb E.
  destruct (own (get h t)) as [w|] eqn:Eo.
  - pose proof (Hown w eq_refl) as Eop.
    destruct (proj1 (Own t w Ht) Eo) as [Lw Rt].
    destruct (proj1 (Own p' w Lp) Eop) as [_ Rp'].
    assert (Er : r = nth w (wroots s) 0) by exact (Root_unique _ _ _ _ Rp Rp'). subst r.
    apply (Ids a b (nth w (wroots s) 0)); try assumption.
    apply (Root_Sub _ _ _ _ Sa). exact Rt.
  - destruct (Hids eq_refl) as [Epar|Hcl].
    + apply (Ids a b r); try assumption.
      apply (Root_Sub _ _ _ _ Sa). apply (Root_par _ _ _ r Epar). exact Rp.
    + destruct (Root_exists h a Hacy) as [ra Ra].
      destruct (Nat.eq_dec ra r) as [->|Nr].
      * apply (Ids a b r); assumption.
      * exfalso. apply (Hcl r a b Rp); [| |exact E].
        -- split; [exact La|]. split.
           ++ exists t. split; [left; reflexivity|exact Sa].
           ++ intro R. apply Nr. exact (Root_unique _ _ _ _ Ra R).
        -- split; assumption.
Qed.

Theorem new_ids_a : I_ids s'.
Proof.
  useW. intros a b r La Lb Ra Rb E. cbn [hp] in *.
  rewrite n_len in La, Lb by apply Hp2a.
  rewrite !n_tid in E by (try assumption; apply Hp2a).
  apply a_Root in Ra. apply a_Root in Rb.
  destruct Ra as [[Na Ra]|[Sa Ra]], Rb as [[Nb Rb]|[Sb Rb]].
  - apply (Ids a b r); assumption.
  - symmetry. apply (ids_mixed b a r); try assumption. symmetry; exact E.
  - apply (ids_mixed a b r); assumption.
  - destruct (Root_exists h t Hacy) as [r0 R0].
    apply (Ids a b r0); try assumption; apply (Root_Sub h t _ r0); assumption.
Qed.

Theorem new_own_a : I_own s'.
Proof.
  useW. intros x w Lx. cbn [hp wroots] in *. rewrite n_len in Lx by apply Hp2a.
  rewrite n_own by (try assumption; apply Hp2a). rewrite a_Root.
  destruct (Sub_dec h t x Hacy) as [Sx|Nx].
  - rewrite (new_own_inside s t (Some p') Acy Hp2a x Lx Sx).
    destruct (own (get h p')) as [w'|] eqn:Eo.
    + split.
      * intro E; inversion E; subst w'. destruct (proj1 (Own p' w Lp) Eo) as [Lw Rw].
        split; [exact Lw|]. right; split; assumption.
      * intros [Lw [[Nx _]|[_ Rp]]]; [contradiction|].
        pose proof (proj2 (Own p' w Lp) (conj Lw Rp)) as E. congruence.
    + assert (Eo' : own (get h t) = None).
      { destruct (own (get h t)) as [w0|] eqn:E0; [|reflexivity]. pose proof (Hown w0 eq_refl) as X. congruence. }
      rewrite (inside_unowned s t Own Ht x Eo' Lx Sx). split; [discriminate|].
      intros [Lw [[Nx _]|[_ Rp]]]; [contradiction|].
      pose proof (proj2 (Own p' w Lp) (conj Lw Rp)) as E. congruence.
  - rewrite (new_own_outside s t (Some p') Hp2a x Nx). split.
    + intro E. destruct (proj1 (Own x w Lx) E) as [Lw R]. split; [exact Lw|]. left; split; assumption.
    + intros [Lw [[_ R]|[Sx _]]]; [|contradiction]. apply (Own x w Lx). split; assumption.
Qed.

Theorem attach_WF : WF s'.
Proof.
  useW.
  split; [apply new_fin; try assumption; apply Hp2a|].
  split; [apply new_pc; try assumption; apply Hp2a|].
  split; [exact new_acy_a|].
  split; [apply new_sym; try assumption; apply Hp2a|].
  split; [apply new_dag; try assumption; apply Hp2a|].
  split; [exact new_sep_a|].
  split; [exact new_ids_a|].
  split; [apply new_hid; try assumption; apply Hp2a|].
  exact new_own_a.
Qed.
End Attach.

(* ================= detach: nothing is written as parent (p = None, t not owned) ================= *)
Section Detach.
Variable s : state.
Variable t : obj.
Local Notation h := (hp s).
Local Notation h' := (pw (hp s) t None).
Local Notation s' := (mkS (pw (hp s) t None) (wroots s)).
Hypothesis W : WF s.
Hypothesis Ht : t < length h.
Hypothesis Hth : hidden (get h t) = false.
Hypothesis HoN : own (get h t) = None.

Ltac useWd := pose proof W as (F & Pc & Acy & Sym & Dag & Sep & Ids & Hid & Own).

Lemma Hp2d : forall q, @None obj = Some q -> q < length h.
Proof. intros q E. discriminate E. Qed.

Lemma Hacy_d : acyclic h.
Proof. useWd. apply I_acy_acyclic. exact Acy. Qed.

Lemma d_Hsame x : x <> t -> par (get h' x) = par (get h x).
Proof. useWd. apply n_Hsame; try assumption. apply Hp2d. Qed.

Lemma d_par_t : par (get h' t) = None.
Proof. useWd. apply n_par_t; try assumption. apply Hp2d. Qed.

Lemma d_Root x r : Root h' x r <-> (~ Sub h t x /\ Root h x r) \/ (Sub h t x /\ r = t).
Proof. apply (detach_Root h h' t d_Hsame Hacy_d d_par_t). Qed.

Theorem new_acy_d : I_acy s'.
Proof. apply I_acy_acyclic. cbn [hp]. apply (detach_acyclic h h' t d_Hsame Hacy_d d_par_t). Qed.

Theorem new_sep_d : I_sep s'.
Proof.
  useWd. intros a b Hb. cbn [hp] in *. rewrite n_preds in Hb by (try assumption; apply Hp2d).
  destruct (Sep a b Hb) as [N1 N2].
  split; intro HA; apply (detach_Anc_sub h h' t d_Hsame Hacy_d d_par_t) in HA; contradiction.
Qed.

Theorem new_ids_d : I_ids s'.
Proof.
  useWd. intros a b r La Lb Ra Rb E. cbn [hp] in *.
  rewrite n_len in La, Lb by apply Hp2d.
  rewrite !n_tid in E by (try assumption; apply Hp2d).
  apply d_Root in Ra. apply d_Root in Rb.
  destruct Ra as [[Na Ra]|[Sa Ra]], Rb as [[Nb Rb]|[Sb Rb]].
  - apply (Ids a b r); assumption.
  - exfalso. subst r. apply Na. destruct Ra as [Ra _]. exact Ra.
  - exfalso. subst r. apply Nb. destruct Rb as [Rb _]. exact Rb.
  - destruct (Root_exists h t Hacy_d) as [r0 R0].
    apply (Ids a b r0); try assumption; apply (Root_Sub h t _ r0); assumption.
Qed.

Theorem new_own_d : I_own s'.
Proof.
  useWd. intros x w Lx. cbn [hp wroots] in *. rewrite n_len in Lx by apply Hp2d.
  rewrite n_own by (try assumption; apply Hp2d). rewrite d_Root.
  assert (E : new_own h t None x = own (get h x)) by reflexivity. rewrite E.
  destruct (Sub_dec h t x Hacy_d) as [Sx|Nx].
  - rewrite (inside_unowned s t Own Ht x HoN Lx Sx). split; [discriminate|].
    intros [Lw [[Nx _]|[_ Er]]]; [contradiction|]. exfalso.
    destruct Hid as (_ & B & _).
    assert (Hin : In (nth w (wroots s) 0) (wroots s)) by (apply nth_In; exact Lw).
    unfold obj in *. rewrite Er in Hin. apply (B t Ht) in Hin. congruence.
  - split.
    + intro E1. destruct (proj1 (Own x w Lx) E1) as [Lw R]. split; [exact Lw|]. left; split; assumption.
    + intros [Lw [[_ R]|[Sx _]]]; [|contradiction]. apply (Own x w Lx). split; assumption.
Qed.

Theorem detach_WF : WF s'.
Proof.
  useWd.
  split; [apply new_fin; try assumption; apply Hp2d|].
  split; [apply new_pc; try assumption; apply Hp2d|].
  split; [exact new_acy_d|].
  split; [apply new_sym; try assumption; apply Hp2d|].
  split; [apply new_dag; try assumption; apply Hp2d|].
  split; [exact new_sep_d|].
  split; [exact new_ids_d|].
  split; [apply new_hid; try assumption; apply Hp2d|].
  exact new_own_d.
Qed.
End Detach.

(* ================= the guard ================= *)
Lemma Incoming_singleton_clash h p' t :
  acyclic h ->
  id_clash h p' [t] = Ok false ->
  forall r x y, Root h p' r -> Incoming h r [t] x -> InTree h r y -> tid (get h x) <> tid (get h y).
Proof.
  intros A E r x y R.
  destruct (id_clash_spec h p' [t] A) as (r0 & b & _ & R0 & Eb & Hb).
  rewrite E in Eb. inversion Eb; subst b.
  assert (Er : r = r0) by exact (Root_unique _ _ _ _ R R0). subst r0.
  destruct (proj1 Hb eq_refl) as [_ H2]. apply H2.
Qed.

(* an accepted call with p = Some p' *)
Lemma guard_some s t p' :
  I_acy s -> set_parent_guard s t (Some p') = OK -> p' < length (hp s) -> attach_ok s t p'.
Proof.
  intros Acy G Lp. apply I_acy_acyclic in Acy.
  unfold set_parent_guard in G. cbv zeta in G.
  destruct (onat_eqb (Some p') (Some t)) eqn:E1; cbn [failif bind] in G; [discriminate|].
  assert (Hpt : p' <> t).
  { intro E. subst p'. rewrite onat_eqb_refl in E1. discriminate. }
  destruct (anc (hp s) p') as [a| |k] eqn:Ea;
    [|destruct (own (get (hp s) t)) as [w|];
      [destruct (negb (onat_eqb (own (get (hp s) p')) (Some w)))
      |destruct (onat_eqb (pubpar (hp s) t) (Some p')); [|destruct (id_clash (hp s) p' [t]) as [[|]| |]]];
      cbn [failif bind] in G; discriminate ..].
  assert (G2 : (do _ <- failif (memn t a) Err; failif (links_bad (hp s) t (p' :: a)) Err) = OK).
  { destruct (own (get (hp s) t)) as [w|];
      [destruct (negb (onat_eqb (own (get (hp s) p')) (Some w)))
      |destruct (onat_eqb (pubpar (hp s) t) (Some p')); [|destruct (id_clash (hp s) p' [t]) as [[|]| |]]];
      cbn [failif bind] in G; try discriminate; exact G. }
  destruct (memn t a) eqn:E4; cbn [failif bind] in G2; [discriminate|].
  destruct (links_bad (hp s) t (p' :: a)) eqn:E5; cbn [failif] in G2; [discriminate|].
  apply memn_false in E4.
  pose proof (anc_Ok_In _ _ _ Ea) as HA.
  split; [exact Lp|]. split; [exact Hpt|]. split; [intro H; apply E4; apply HA; exact H|].
  split; [|split].
  - intros x l Lx Sx Hl.
    pose proof (proj1 (links_bad_false (hp s) t (p' :: a) Acy) E5 x l Lx Sx Hl) as N.
    split; [intro E; apply N; left; symmetry; exact E|intro H; apply N; right; apply HA; exact H].
  - intros w Eo. rewrite Eo in G. cbn [bind] in G.
    destruct (onat_eqb (own (get (hp s) p')) (Some w)) eqn:E2; [apply onat_eqb_eq in E2; exact E2|].
    cbn [negb failif bind] in G. discriminate.
  - intro Eo. rewrite Eo in G. cbn [bind] in G.
    destruct (onat_eqb (pubpar (hp s) t) (Some p')) eqn:E2.
    + left. apply onat_eqb_eq in E2. apply pubpar_Some. exact E2.
    + right. destruct (id_clash (hp s) p' [t]) as [[|]| |] eqn:E3; cbn [failif bind] in G; try discriminate.
      apply Incoming_singleton_clash; assumption.
Qed.

(* p = None on an owned task: the written parent is the hidden root of its WBS *)
Lemma guard_none_owned s t w :
  WF s -> t < length (hp s) -> hidden (get (hp s) t) = false -> own (get (hp s) t) = Some w ->
  attach_ok s t (nth w (wroots s) 0).
Proof.
  intros (F & Pc & Acy & Sym & Dag & Sep & Ids & Hid & Own) Ht Hth Eo.
  assert (Lw : w < length (wroots s)) by (eapply dl_fin_own; eassumption).
  set (r := nth w (wroots s) 0).
  assert (Hin : In r (wroots s)) by (apply nth_In; exact Lw).
  assert (Lr : r < length (hp s)) by (eapply dl_fin_wroots; eassumption).
  destruct Hid as (_ & B & C). destruct (C w Lw) as (C1 & C2 & C3 & C4). fold r in C1, C2, C3, C4.
  assert (NA : forall a, ~ Anc (hp s) r a).
  { intros a A. apply Anc_has_par in A. destruct A as [q Eq]. congruence. }
  split; [exact Lr|]. split; [|split; [apply NA|split; [|split]]].
  - intro E. apply (B r Lr) in Hin. rewrite E in Hin. congruence.
  - intros x l Lx Sx Hl. split; [|apply NA]. intro E. subst l. destruct Sym as [S1 _].
    apply in_app_or in Hl. destruct Hl as [Hl|Hl].
    + apply S1 in Hl. rewrite C4 in Hl. destruct Hl.
    + apply S1 in Hl. rewrite C3 in Hl. destruct Hl.
  - intros w' E. rewrite Eo in E. inversion E; subst w'. exact C1.
  - intro E. congruence.
Qed.

(* ================= preservation ================= *)
Theorem set_parent_write_WF s t p :
  WF s -> pub s t -> (forall p', p = Some p' -> p' < length (hp s)) ->
  set_parent_guard s t p = OK -> WF (set_parent_write s t p).
Proof.
  intros W [Ht Hth] Hp G. rewrite write_unfold.
  pose proof W as (F & Pc & Acy & _).
  destruct p as [p'|].
  - assert (E : eff_par s t (Some p') = Some p') by reflexivity. rewrite E.
    apply attach_WF; try assumption. apply guard_some; try assumption. apply Hp; reflexivity.
  - unfold eff_par. destruct (own (get (hp s) t)) as [w|] eqn:Eo.
    + apply attach_WF; try assumption. apply guard_none_owned; assumption.
    + apply detach_WF; assumption.
Qed.

Lemma set_parent_cases s t p :
  (set_parent_guard s t p = OK /\ set_parent s t p = (set_parent_write s t p, OK)) \/
  (set_parent_guard s t p <> OK /\ fst (set_parent s t p) = s /\ snd (set_parent s t p) <> OK).
Proof.
  unfold set_parent.
  destruct (mk_cases (set_parent_guard s t p) s (set_parent_write s t p)) as [[E M]|[E M]]; rewrite M.
  - left; split; [exact E|reflexivity].
  - right; split; [exact E|]. split; [reflexivity|exact E].
Qed.

(* MAIN: the parent setter preserves WF, accepted or not.  The new parent may be the hidden root of a WBS
   (roots.append(t), wbs // t); the task being moved may not (no Python expression names that object). *)
Theorem set_parent_WF s t p :
  WF s -> pub s t -> (p = None \/ exists p', p = Some p' /\ p' < length (hp s)) ->
  WF (fst (set_parent s t p)).
Proof.
  intros W Pt Hp. destruct (set_parent_cases s t p) as [[G E]|[_ [E _]]]; rewrite E; [|exact W].
  cbn [fst]. apply set_parent_write_WF; try assumption.
  intros p' Ep. destruct Hp as [Hp|[q [Hq Lq]]]; [congruence|]. rewrite Hq in Ep. inversion Ep; subst q. exact Lq.
Qed.

(* a rejected call returns the very same state (C15) *)
Theorem set_parent_rejected s t p : snd (set_parent s t p) <> OK -> fst (set_parent s t p) = s.
Proof.
  intro H. destruct (set_parent_cases s t p) as [[_ E]|[_ [E _]]]; [|exact E].
  rewrite E in H. exfalso; apply H; reflexivity.
Qed.

(* length, hidden flags, WBS table: stable *)
Theorem set_parent_shape s t p :
  I_fin s -> I_pc s -> t < length (hp s) -> (forall p', p = Some p' -> p' < length (hp s)) ->
  let s' := fst (set_parent s t p) in
  length (hp s') = length (hp s) /\ wroots s' = wroots s /\
  (forall x, hidden (get (hp s') x) = hidden (get (hp s) x)).
Proof.
  intros F Pc Ht Hp. cbv zeta.
  destruct (set_parent_cases s t p) as [[_ E]|[_ [E _]]]; rewrite E; [|repeat split; reflexivity].
  cbn [fst]. destruct (set_parent_effect s t p F Pc Ht Hp) as (A & B & _ & _ & _ & _ & R). cbv zeta in *.
  split; [exact B|]. split; [exact A|]. intro x. specialize (R x). unfold rest in R. congruence.
Qed.

Theorem set_parent_pub s t p x :
  I_fin s -> I_pc s -> t < length (hp s) -> (forall p', p = Some p' -> p' < length (hp s)) ->
  (pub (fst (set_parent s t p)) x <-> pub s x).
Proof.
  intros F Pc Ht Hp. destruct (set_parent_shape s t p F Pc Ht Hp) as (A & _ & C). cbv zeta in *.
  unfold pub. rewrite A, C. tauto.
Qed.
