(* Graph/AncLemmas.v - common lemma library about the heap and about walking the parent chain.
   (Dependency closure closf/Dep: Graph/DepLemmas.v.  Preorder pref/all_children and Root under
   re-parenting: Graph/AncLemmas2.v.  Reflection of the oracles: Graph/OracleProofs.v.)

   Everything is stated about a HEAP h (not a state), through small named predicates:
     par_fin h     := forall x p, par (get h x) = Some p -> p < length h     (I_fin_par_fin : I_fin s -> par_fin (hp s))
     acyclic h     := forall x, ~ Anc h x x                                   (I_acy s is convertible with acyclic (hp s))
     Sub h t x     := x = t \/ Anc h x t      "x lies in the subtree of t"    (the Prop of insub h t x)
     same_par h h' := forall x, par (get h' x) = par (get h x)
   NOTE: chains exist and fuel |h| suffices under acyclic h ALONE (an object outside the heap has no
   parent, so a dangling parent pointer just ends the chain); par_fin is only needed for "< length h".

   INDEX OF THE MAIN LEMMAS
   == 1. lists ==
     memn_In, memn_false, memz_In              memn x l = true <-> In x l ; = false <-> ~ In
     nodupb_spec, nodupb_nat                   nodupb eqb l = true <-> NoDup l
     onat_eqb_eq, onat_eqb_refl
     In_remove1 (In y (remove1 x l) -> In y l), remove1_In_neq, In_remove1_iff (NoDup l), NoDup_remove1,
     remove1_not_In (NoDup l -> ~ In x (remove1 x l)), length_remove1, remove1_notin, remove1_without
     In_without, NoDup_without, length_without_le, without_notin
     In_dedup, NoDup_dedup, dedup_NoDup_id, In_somes, somes_map_Some
     NoDup_bounded_length                      pigeonhole: NoDup l -> (forall a, In a l -> a < n) -> length l <= n
     NoDup_app_l, NoDup_app_r, NoDup_app_disj, NoDup_app_intro, NoDup_removelast, NoDup_flat_map
   == 2. heap ==
     length_upd, get_upd_same, get_upd_other, get_upd (one equation with if), upd_out, get_out,
     get_out_par/kids/preds/succs/own, par_Some_lt (par (get h x) = Some p -> x < length h), kids_In_lt
     proj_get_upd                              (forall T, g (f T) = g T) -> g (get (upd h x f) y) = g (get h y)
     In_objs, NoDup_objs, length_objs, objs_upd, objs_set_own_all
     length_set_own_all, get_set_own_all (= if memn x xs && x <? length h then with_own w (get h x) else get h x),
     get_set_own_all_in, get_set_own_all_notin, proj_get_set_own_all (only own changes), own_get_set_own_all
   == 3. Anc algebra ==
     Anc_trans, Anc_inv, Anc_has_par, Anc_snoc, Anc_top (decomposition from the top),
     Anc_ind_top (induction from the top), Anc_linear (two ancestors of x are comparable),
     Anc_lt_l (x < length h), Anc_lt_r (par_fin h -> a < length h),
     Sub_refl, Sub_trans, Sub_Anc_trans, Anc_Sub_trans, Sub_par (parent of a proper member is a member),
     Sub_child, acyclic_Sub_antisym, acyclic_Anc_neq, acyclic_Anc_not_Sub
   == 4. paths and chains ==
     Path h x l  (the first |l| proper ancestors)   Chain h x l (ALL proper ancestors, nearest first)
     ancf_eq (unfolding equation), ancf_Chain, Chain_det, Chain_In_Anc (In a l <-> Anc h x a), Chain_ancf
     (length l <= fuel -> ancf fuel h x = Some l), ancf_length, ancf_mono, Chain_Path, Path_In_Anc,
     Path_NoDup (NoDup (x :: l)), Chain_NoDup, Chain_notin_self, Path_bounded, Chain_bounded,
     Path_length_le / Chain_length_le (acyclic h -> length l <= length h), Chain_split, Chain_last_root,
     Chain_last_Sub, ancf_None_Path,
     ancf_total_acy    acyclic h -> exists l, ancf (length h) h x = Some l
     chain_exists      acyclic h -> exists l, Chain h x l /\ ancf (length h) h x = Some l /\ NoDup l /\ ~ In x l /\ length l <= length h
     chain_exists_fin  par_fin h -> acyclic h -> ... /\ all elements < length h
     anc_ok (acyclic h -> exists l, anc h x = Ok l /\ Chain h x l), anc_Ok_Chain, anc_Ok_In, anc_not_Err, Chain_anc
     Path_dup_cycle, ancf_None_cycle (ancf (length h) h x = None -> exists y, Anc h y y), ancf_None_cycle_or_dangling
     Anc_dec, Sub_dec (under acyclic h)
   == 5. rootof / Root ==
     Root_unique, Chain_Root, rootof_Root, rootof_total, rootof_spec (acyclic h -> (rootof h x = Some r <-> Root h x r)),
     Root_exists, rootof_None, Root_par, Root_Anc, Root_Sub (members of a subtree share the root), Root_self, Root_root_lt
   == 6. insub / subtree ==
     insub_spec' (from ancf = Some), insub_Sub (acyclic h -> (insub h t x = true <-> Sub h t x)), insub_true_Sub (no hyp.),
     insub_false_iff, insub_self, In_subtree (In x (subtree h t) <-> x < length h /\ Sub h t x), NoDup_subtree,
     subtree_self, subtree_lt
   == 7. frame: par unchanged (writes to kids/own/preds/succs/...) ==
     same_par_refl/sym/trans, same_par_Anc, same_par_Sub, same_par_acyclic, same_par_Chain, same_par_ancf,
     same_par_Root, same_par_par_fin, and with length h' = length h: same_par_anc, same_par_rootof,
     same_par_insub, same_par_subtree.  Sources: same_par_upd ((forall T, par (f T) = par T) -> same_par h (upd h x f)),
     same_par_set_own_all, same_par_upd_kids/preds/succs/own
   == 8. frame: re-parenting ONE object t ==
     Section Reparent, hypothesis Hsame : forall x, x <> t -> par (get h' x) = par (get h x)
     reparent_outside      ~ Sub h t x -> (Anc h' x a <-> Anc h x a)                  [no acyclicity needed]
     + acyclic h:
     reparent_keep         Anc h x a -> Sub h t a -> Anc h' x a
     reparent_Sub_keep     Sub h t x -> Sub h' t x
     reparent_Sub_t        Sub h' t x <-> Sub h t x          (the subtree of t is the same set)
     -- attach: par (get h' t) = Some p, p <> t, ~ Anc h p t
     attach_inside         Sub h t x -> (Anc h' x a <-> (Anc h x a /\ Sub h t a) \/ a = p \/ Anc h p a)
     attach_t              Anc h' t a <-> a = p \/ Anc h p a
     attach_acyclic        acyclic h'
     attach_Anc            Anc h' x a <-> (~ Sub h t x /\ Anc h x a) \/ (Sub h t x /\ (...as attach_inside...))
     attach_Anc_old        Anc h' x a -> Anc h x a \/ (Sub h t x /\ Sub h a p)
     attach_Sub            Sub h' c x <-> (~ Sub h t x /\ Sub h c x) \/ (Sub h t x /\ ((Sub h c x /\ Sub h t c) \/ Sub h c p))
     -- detach: par (get h' t) = None
     detach_inside         Sub h t x -> (Anc h' x a <-> Anc h x a /\ Sub h t a)
     detach_t              ~ Anc h' t a
     detach_Anc_sub        Anc h' x a -> Anc h x a     (detaching only removes ancestors)
     detach_acyclic        acyclic h'
     detach_Anc            Anc h' x a <-> Anc h x a /\ (Sub h t x -> Sub h t a)
     detach_Sub            Sub h' c x <-> Sub h c x /\ (Sub h t x -> Sub h t c)
     upd_with_par_same / upd_with_par_at : Hsame and par at t for h' = upd h t (with_par v);
     Hsame_same_par : Hsame is stable under same_par on both sides (compose with kids/own writes)
*)
From PJ Require Import Base.Prelude Graph.Model Graph.Invariant.
Local Open Scope nat_scope.

(* ================================================================== *)
(** * 1. lists *)

Lemma memn_In x l : memn x l = true <-> In x l.
Proof.
  unfold memn. rewrite existsb_exists. split.
  - intros [y [Hy E]]. apply Nat.eqb_eq in E. subst. exact Hy.
  - intro H. exists x. split; [exact H | apply Nat.eqb_refl].
Qed.

Lemma memn_false x l : memn x l = false <-> ~ In x l.
Proof.
  split.
  - intros Hf Hin. apply memn_In in Hin. congruence.
  - intro Hn. destruct (memn x l) eqn:E; [|reflexivity]. exfalso. apply Hn, memn_In, E.
Qed.

Lemma memz_In x l : memz x l = true <-> In x l.
Proof.
  unfold memz. rewrite existsb_exists. split.
  - intros [y [Hy E]]. apply Z.eqb_eq in E. subst. exact Hy.
  - intro H. exists x. split; [exact H | apply Z.eqb_refl].
Qed.

Lemma nodupb_spec {A} (eqb : A -> A -> bool) :
  (forall x y, eqb x y = true <-> x = y) ->
  forall l, nodupb eqb l = true <-> NoDup l.
Proof.
  intros Heq l. induction l as [|x r IH]; simpl.
  - split; intro; [constructor | reflexivity].
  - rewrite andb_true_iff, negb_true_iff, NoDup_cons_iff, IH.
    assert (E : existsb (eqb x) r = false <-> ~ In x r).
    { split.
      - intros Hf Hin. assert (T : existsb (eqb x) r = true).
        { apply existsb_exists. exists x. split; [exact Hin | apply Heq; reflexivity]. }
        congruence.
      - intro Hn. destruct (existsb (eqb x) r) eqn:Ex; [|reflexivity].
        exfalso. apply existsb_exists in Ex as [y [Hy Ey]]. apply Heq in Ey. subst. auto. }
    rewrite E. tauto.
Qed.

Lemma nodupb_nat l : nodupb Nat.eqb l = true <-> NoDup l.
Proof. apply nodupb_spec. intros; apply Nat.eqb_eq. Qed.

Lemma onat_eqb_eq a b : onat_eqb a b = true <-> a = b.
Proof. apply opt_eqb_spec. intros; apply Nat.eqb_eq. Qed.

Lemma onat_eqb_refl a : onat_eqb a a = true.
Proof. apply onat_eqb_eq; reflexivity. Qed.

(* ---- remove1 ---- *)
Lemma In_remove1 x y l : In y (remove1 x l) -> In y l.
Proof.
  induction l as [|z r IH]; simpl; [easy|].
  destruct (Nat.eqb x z); simpl; intros H; [auto|]. destruct H; auto.
Qed.

Lemma remove1_In_neq x y l : x <> y -> In y l -> In y (remove1 x l).
Proof.
  intros Hn. induction l as [|z r IH]; simpl; [easy|].
  destruct (Nat.eqb x z) eqn:E; simpl; intros [H|H]; auto.
  apply Nat.eqb_eq in E. congruence.
Qed.

Lemma remove1_notin x l : ~ In x l -> remove1 x l = l.
Proof.
  induction l as [|z r IH]; simpl; [easy|]. intro H.
  destruct (Nat.eqb x z) eqn:E.
  - apply Nat.eqb_eq in E. exfalso; auto.
  - f_equal. apply IH. auto.
Qed.

Lemma NoDup_remove1 x l : NoDup l -> NoDup (remove1 x l).
Proof.
  induction 1 as [|z r Hz Hr IH]; simpl; [constructor|].
  destruct (Nat.eqb x z); [exact Hr|]. constructor; [|exact IH].
  intro H. apply Hz. eapply In_remove1; eauto.
Qed.

Lemma remove1_not_In x l : NoDup l -> ~ In x (remove1 x l).
Proof.
  induction 1 as [|z r Hz Hr IH]; simpl; [easy|].
  destruct (Nat.eqb x z) eqn:E.
  - apply Nat.eqb_eq in E. subst. exact Hz.
  - apply Nat.eqb_neq in E. simpl. intros [H|H]; [congruence | auto].
Qed.

Lemma In_remove1_iff x y l : NoDup l -> (In y (remove1 x l) <-> In y l /\ y <> x).
Proof.
  intro Hnd. split.
  - intro H. split; [eapply In_remove1; eauto|]. intro; subst. eapply remove1_not_In; eauto.
  - intros [H Hn]. apply remove1_In_neq; auto.
Qed.

Lemma length_remove1 x l : In x l -> length (remove1 x l) = pred (length l).
Proof.
  induction l as [|z r IH]; simpl; [easy|].
  destruct (Nat.eqb x z) eqn:E; [reflexivity|].
  apply Nat.eqb_neq in E. intros [H|H]; [congruence|]. simpl. rewrite IH by exact H.
  destruct r; [destruct H | reflexivity].
Qed.

(* ---- without ---- *)
Lemma In_without x y l : In y (without x l) <-> In y l /\ y <> x.
Proof.
  unfold without. rewrite filter_In, negb_true_iff, Nat.eqb_neq. intuition congruence.
Qed.

Lemma NoDup_without x l : NoDup l -> NoDup (without x l).
Proof. apply NoDup_filter. Qed.

Lemma length_without_le x l : length (without x l) <= length l.
Proof.
  unfold without. induction l as [|z r IH]; simpl; [lia|].
  destruct (negb (Nat.eqb x z)); simpl; lia.
Qed.

Lemma without_notin x l : ~ In x l -> without x l = l.
Proof.
  unfold without. induction l as [|z r IH]; simpl; [easy|]. intro H.
  destruct (Nat.eqb x z) eqn:E; simpl.
  - apply Nat.eqb_eq in E. exfalso; auto.
  - f_equal. apply IH. auto.
Qed.

Lemma remove1_without x l : NoDup l -> remove1 x l = without x l.
Proof.
  induction 1 as [|z r Hz Hr IH]; simpl; [reflexivity|]. unfold without in *. simpl.
  destruct (Nat.eqb x z) eqn:E; simpl.
  - apply Nat.eqb_eq in E. subst. symmetry. apply (without_notin z r Hz).
  - f_equal. exact IH.
Qed.

(* ---- dedup ---- *)
Lemma In_dedup x l : In x (dedup l) <-> In x l.
Proof.
  induction l as [|z r IH]; simpl; [tauto|].
  rewrite In_without, IH. destruct (Nat.eq_dec z x); intuition congruence.
Qed.

Lemma NoDup_dedup l : NoDup (dedup l).
Proof.
  induction l as [|z r IH]; simpl; constructor.
  - rewrite In_without. intuition congruence.
  - apply NoDup_without. exact IH.
Qed.

Lemma dedup_NoDup_id l : NoDup l -> dedup l = l.
Proof.
  induction 1 as [|z r Hz Hr IH]; simpl; [reflexivity|].
  rewrite IH. f_equal. apply without_notin. exact Hz.
Qed.

Lemma In_somes {A} (x : A) l : In x (somes l) <-> In (Some x) l.
Proof.
  induction l as [|[y|] r IH]; simpl; [tauto| |].
  - rewrite IH. split; intros [H|H]; auto; left; congruence.
  - rewrite IH. split; [auto|]. intros [H|H]; [discriminate | exact H].
Qed.

Lemma somes_map_Some {A} (l : list A) : somes (map Some l) = l.
Proof. induction l; simpl; congruence. Qed.

(* ---- NoDup helpers ---- *)
Lemma NoDup_bounded_length (l : list nat) n :
  NoDup l -> (forall a, In a l -> a < n) -> length l <= n.
Proof.
  intros Hnd Hb. rewrite <- (seq_length n 0). apply NoDup_incl_length; [exact Hnd|].
  intros a Ha. apply in_seq. specialize (Hb a Ha). lia.
Qed.

Lemma NoDup_app_l {A} (l1 l2 : list A) : NoDup (l1 ++ l2) -> NoDup l1.
Proof.
  induction l1 as [|a l1 IH]; simpl; intro H; [constructor|].
  inversion H as [|? ? Ha Hr]; subst. constructor; [|auto].
  intro Hin. apply Ha. apply in_or_app; auto.
Qed.

Lemma NoDup_app_r {A} (l1 l2 : list A) : NoDup (l1 ++ l2) -> NoDup l2.
Proof.
  induction l1 as [|a l1 IH]; simpl; intro H; [exact H|].
  inversion H; subst. auto.
Qed.

Lemma NoDup_app_disj {A} (l1 l2 : list A) x : NoDup (l1 ++ l2) -> In x l1 -> In x l2 -> False.
Proof.
  induction l1 as [|a l1 IH]; simpl; intros H H1 H2; [easy|].
  inversion H as [|? ? Ha Hr]; subst. destruct H1 as [->|H1]; [|eauto].
  apply Ha. apply in_or_app; auto.
Qed.

Lemma NoDup_app_intro {A} (l1 l2 : list A) :
  NoDup l1 -> NoDup l2 -> (forall x, In x l1 -> In x l2 -> False) -> NoDup (l1 ++ l2).
Proof.
  induction 1 as [|a l1 Ha H1 IH]; simpl; intros H2 Hd; [exact H2|].
  constructor.
  - intro Hin. apply in_app_or in Hin as [Hin|Hin]; [auto|]. eapply Hd; eauto.
  - apply IH; [exact H2|]. intros x Hx1 Hx2. eapply Hd; eauto.
Qed.

Lemma NoDup_removelast {A} (l : list A) : NoDup l -> NoDup (removelast l).
Proof.
  intro H. destruct l as [|a r]; [exact H|].
  assert (Hne : a :: r <> []) by discriminate.
  rewrite (app_removelast_last a Hne) in H. eapply NoDup_app_l; eauto.
Qed.

Lemma length_removelast_cons {A} (a : A) l : length (removelast (a :: l)) = length l.
Proof.
  revert a. induction l as [|b r IH]; intro a; [reflexivity|].
  change (removelast (a :: b :: r)) with (a :: removelast (b :: r)).
  change (S (length (removelast (b :: r))) = S (length r)). f_equal. apply IH.
Qed.

Lemma NoDup_flat_map {A B} (F : A -> list B) (cs : list A) :
  NoDup cs ->
  (forall c, In c cs -> NoDup (F c)) ->
  (forall c c' y, In c cs -> In c' cs -> In y (F c) -> In y (F c') -> c = c') ->
  NoDup (flat_map F cs).
Proof.
  induction 1 as [|c cs Hc Hcs IH]; simpl; intros Hn Hd; [constructor|].
  apply NoDup_app_intro.
  - apply Hn; auto.
  - apply IH; [intros; apply Hn; auto | intros c1 c2 y H1 H2; apply Hd; auto].
  - intros y Hy1 Hy2. apply in_flat_map in Hy2 as [c' [Hc' Hy2]].
    assert (c = c') by (eapply Hd; eauto). subst. auto.
Qed.

(* ================================================================== *)
(** * 2. heap *)

Lemma length_upd h x f : length (upd h x f) = length h.
Proof.
  revert x. induction h as [|t r IH]; intro x; [reflexivity|].
  destruct x; simpl; [reflexivity | rewrite IH; reflexivity].
Qed.

Lemma get_upd_same h x f : x < length h -> get (upd h x f) x = f (get h x).
Proof.
  unfold get. revert x. induction h as [|t r IH]; intros x Hx; simpl in Hx; [lia|].
  destruct x; simpl; [reflexivity|]. apply IH. lia.
Qed.

Lemma get_upd_other h x y f : x <> y -> get (upd h x f) y = get h y.
Proof.
  unfold get. revert x y. induction h as [|t r IH]; intros x y Hn; [reflexivity|].
  destruct x, y; simpl; try reflexivity; [congruence|]. apply IH. congruence.
Qed.

Lemma upd_out h x f : length h <= x -> upd h x f = h.
Proof.
  revert x. induction h as [|t r IH]; intros x Hx; [reflexivity|].
  simpl in Hx. destruct x; [lia|]. simpl. f_equal. apply IH. lia.
Qed.

Lemma get_out h x : length h <= x -> get h x = dflt.
Proof. intro H. unfold get. apply nth_overflow. exact H. Qed.

Lemma get_out_par h x : length h <= x -> par (get h x) = None.
Proof. intro H. rewrite get_out by exact H. reflexivity. Qed.
Lemma get_out_kids h x : length h <= x -> kids (get h x) = [].
Proof. intro H. rewrite get_out by exact H. reflexivity. Qed.
Lemma get_out_preds h x : length h <= x -> preds (get h x) = [].
Proof. intro H. rewrite get_out by exact H. reflexivity. Qed.
Lemma get_out_succs h x : length h <= x -> succs (get h x) = [].
Proof. intro H. rewrite get_out by exact H. reflexivity. Qed.
Lemma get_out_own h x : length h <= x -> own (get h x) = None.
Proof. intro H. rewrite get_out by exact H. reflexivity. Qed.

Lemma par_Some_lt h x p : par (get h x) = Some p -> x < length h.
Proof.
  intro H. destruct (Nat.lt_ge_cases x (length h)) as [L|L]; [exact L|].
  rewrite get_out_par in H by exact L. discriminate.
Qed.

Lemma kids_In_lt h x c : In c (kids (get h x)) -> x < length h.
Proof.
  intro H. destruct (Nat.lt_ge_cases x (length h)) as [L|L]; [exact L|].
  rewrite get_out_kids in H by exact L. destruct H.
Qed.

Lemma get_upd h x y f :
  get (upd h x f) y = if Nat.eqb x y && Nat.ltb x (length h) then f (get h y) else get h y.
Proof.
  destruct (Nat.eqb x y) eqn:E; simpl.
  - apply Nat.eqb_eq in E. subst y. destruct (Nat.ltb x (length h)) eqn:L.
    + apply Nat.ltb_lt in L. apply get_upd_same. exact L.
    + apply Nat.ltb_ge in L. rewrite upd_out by exact L. reflexivity.
  - apply Nat.eqb_neq in E. apply get_upd_other. exact E.
Qed.

(* a write that does not touch the field g leaves g unchanged everywhere *)
Lemma proj_get_upd {A} (g : task -> A) h x f y :
  (forall T, g (f T) = g T) -> g (get (upd h x f) y) = g (get h y).
Proof.
  intro H. rewrite get_upd. destruct (Nat.eqb x y && Nat.ltb x (length h)); [apply H | reflexivity].
Qed.

Lemma In_objs h x : In x (objs h) <-> x < length h.
Proof. unfold objs. rewrite in_seq. lia. Qed.

Lemma NoDup_objs h : NoDup (objs h).
Proof. apply seq_NoDup. Qed.

Lemma length_objs h : length (objs h) = length h.
Proof. apply seq_length. Qed.

Lemma objs_upd h x f : objs (upd h x f) = objs h.
Proof. unfold objs. rewrite length_upd. reflexivity. Qed.

(* ---- set_own_all ---- *)
Lemma set_own_all_cons h x xs w : set_own_all h (x :: xs) w = set_own_all (upd h x (with_own w)) xs w.
Proof. reflexivity. Qed.

Lemma length_set_own_all h xs w : length (set_own_all h xs w) = length h.
Proof.
  revert h. induction xs as [|x xs IH]; intro h; [reflexivity|].
  rewrite set_own_all_cons, IH, length_upd. reflexivity.
Qed.

Lemma objs_set_own_all h xs w : objs (set_own_all h xs w) = objs h.
Proof. unfold objs. rewrite length_set_own_all. reflexivity. Qed.

Lemma with_own_idem w T : with_own w (with_own w T) = with_own w T.
Proof. reflexivity. Qed.

Lemma get_set_own_all h xs w x :
  get (set_own_all h xs w) x =
  if memn x xs && Nat.ltb x (length h) then with_own w (get h x) else get h x.
Proof.
  revert h. induction xs as [|y xs IH]; intro h; [reflexivity|].
  rewrite set_own_all_cons, IH, length_upd, get_upd. unfold memn. simpl existsb.
  rewrite (Nat.eqb_sym x y).
  destruct (Nat.eqb y x) eqn:E; simpl.
  - apply Nat.eqb_eq in E. subst y.
    destruct (Nat.ltb x (length h)); rewrite ?andb_false_r, ?andb_true_r; simpl.
    + destruct (existsb (Nat.eqb x) xs); reflexivity.
    + reflexivity.
  - reflexivity.
Qed.

Lemma get_set_own_all_in h xs w x :
  In x xs -> x < length h -> get (set_own_all h xs w) x = with_own w (get h x).
Proof.
  intros Hin Hx. rewrite get_set_own_all.
  apply memn_In in Hin. apply Nat.ltb_lt in Hx. rewrite Hin, Hx. reflexivity.
Qed.

Lemma get_set_own_all_notin h xs w x :
  ~ In x xs -> get (set_own_all h xs w) x = get h x.
Proof. intro Hn. rewrite get_set_own_all. apply memn_false in Hn. rewrite Hn. reflexivity. Qed.

(* set_own_all changes only the field own *)
Lemma proj_get_set_own_all {A} (g : task -> A) h xs w x :
  (forall v T, g (with_own v T) = g T) -> g (get (set_own_all h xs w) x) = g (get h x).
Proof.
  intro H. rewrite get_set_own_all. destruct (memn x xs && Nat.ltb x (length h)); [apply H | reflexivity].
Qed.

Lemma own_get_set_own_all h xs w x :
  own (get (set_own_all h xs w) x) = if memn x xs && Nat.ltb x (length h) then w else own (get h x).
Proof. rewrite get_set_own_all. destruct (memn x xs && Nat.ltb x (length h)); reflexivity. Qed.

(* ================================================================== *)
(** * 3. Anc algebra *)

Definition par_fin (h : heap) : Prop := forall x p, par (get h x) = Some p -> p < length h.
Definition acyclic (h : heap) : Prop := forall x, ~ Anc h x x.
Definition Sub (h : heap) (t x : obj) : Prop := x = t \/ Anc h x t.
Definition same_par (h h' : heap) : Prop := forall x, par (get h' x) = par (get h x).

Lemma I_fin_par_fin s : I_fin s -> par_fin (hp s).
Proof. intros [H _] x p Hp. destruct (H x) as [H1 _]. apply H1. exact Hp. Qed.

Lemma I_acy_acyclic s : I_acy s <-> acyclic (hp s).
Proof. reflexivity. Qed.

Lemma Anc_trans h x y z : Anc h x y -> Anc h y z -> Anc h x z.
Proof.
  induction 1 as [x p Hp | x p a Hp Ha IH]; intro Hz.
  - eapply Anc_up; eauto.
  - eapply Anc_up; eauto.
Qed.

Lemma Anc_inv h x a : Anc h x a -> exists p, par (get h x) = Some p /\ (p = a \/ Anc h p a).
Proof. intros [x' p Hp | x' p a' Hp Ha]; exists p; auto. Qed.

Lemma Anc_has_par h x a : Anc h x a -> exists p, par (get h x) = Some p.
Proof. intro H. apply Anc_inv in H as [p [Hp _]]. eauto. Qed.

Lemma Anc_snoc h x b a : Anc h x b -> par (get h b) = Some a -> Anc h x a.
Proof. intros H Hp. eapply Anc_trans; [exact H | apply Anc_par; exact Hp]. Qed.

Lemma Anc_top h x a :
  Anc h x a -> par (get h x) = Some a \/ exists b, Anc h x b /\ par (get h b) = Some a.
Proof.
  induction 1 as [x p Hp | x p a Hp Ha IH]; [left; exact Hp|].
  right. destruct IH as [IH | [b [Hb Hba]]].
  - exists p. split; [apply Anc_par; exact Hp | exact IH].
  - exists b. split; [eapply Anc_up; eauto | exact Hba].
Qed.

(* induction from the top: x fixed, P about the ancestor *)
Lemma Anc_ind_top h x (P : obj -> Prop) :
  (forall p, par (get h x) = Some p -> P p) ->
  (forall a b, Anc h x a -> P a -> par (get h a) = Some b -> P b) ->
  forall a, Anc h x a -> P a.
Proof.
  intros Hbase Hstep a Ha. revert P Hbase Hstep.
  induction Ha as [x p Hp | x p a Hp Ha IH]; intros P Hbase Hstep.
  - apply Hbase. exact Hp.
  - apply IH.
    + intros q Hq. apply (Hstep p q); [apply Anc_par; exact Hp | apply Hbase; exact Hp | exact Hq].
    + intros a' b Ha' Pa' Hb. apply (Hstep a' b); [eapply Anc_up; eauto | exact Pa' | exact Hb].
Qed.

(* the ancestors of x are linearly ordered *)
Lemma Anc_linear h x a b : Anc h x a -> Anc h x b -> a = b \/ Anc h a b \/ Anc h b a.
Proof.
  intro Ha. revert b. induction Ha as [x p Hp | x p a Hp Ha IH]; intros b Hb.
  - apply Anc_inv in Hb as [q [Hq Hb]]. assert (q = p) by congruence. subst q.
    destruct Hb as [->|Hb]; auto.
  - apply Anc_inv in Hb as [q [Hq Hb]]. assert (q = p) by congruence. subst q.
    destruct Hb as [<-|Hb]; [right; right; exact Ha | apply IH; exact Hb].
Qed.

Lemma Anc_lt_l h x a : Anc h x a -> x < length h.
Proof. intro H. apply Anc_has_par in H as [p Hp]. eapply par_Some_lt; eauto. Qed.

Lemma Anc_lt_r h x a : par_fin h -> Anc h x a -> a < length h.
Proof. intros Hf. induction 1 as [x p Hp | x p a Hp Ha IH]; [eapply Hf; eauto | exact IH]. Qed.

Lemma Sub_refl h t : Sub h t t.
Proof. left; reflexivity. Qed.

Lemma Sub_Anc_trans h t x a : Sub h t x -> Anc h t a -> Anc h x a.
Proof. intros [->|H] Ha; [exact Ha | eapply Anc_trans; eauto]. Qed.

Lemma Anc_Sub_trans h t x a : Anc h x a -> Sub h t a -> Anc h x t.
Proof. intros Ha [->|H]; [exact Ha | eapply Anc_trans; eauto]. Qed.

Lemma Sub_trans h t u x : Sub h u x -> Sub h t u -> Sub h t x.
Proof. intros [->|H] Hu; [exact Hu|]. right. eapply Anc_Sub_trans; eauto. Qed.

(* the parent of a proper member of the subtree of t is in the subtree *)
Lemma Sub_par h t x q : Sub h t x -> x <> t -> par (get h x) = Some q -> Sub h t q.
Proof.
  intros [->|H] Hn Hq; [congruence|].
  apply Anc_inv in H as [q' [Hq' H]]. assert (q' = q) by congruence. subst q'. exact H.
Qed.

(* going down: if the parent of x is in the subtree then x is *)
Lemma Sub_child h t x q : par (get h x) = Some q -> Sub h t q -> Sub h t x.
Proof. intros Hq [->|H]; right; [apply Anc_par; exact Hq | eapply Anc_up; eauto]. Qed.

Lemma acyclic_Sub_antisym h a b : acyclic h -> Sub h a b -> Sub h b a -> a = b.
Proof.
  intros Hacy [->|H1] [E|H2]; auto. exfalso. apply (Hacy a). eapply Anc_trans; eauto.
Qed.

Lemma acyclic_Anc_neq h x a : acyclic h -> Anc h x a -> x <> a.
Proof. intros Hacy H E. subst. exact (Hacy _ H). Qed.

Lemma acyclic_Anc_not_Sub h t a : acyclic h -> Anc h t a -> ~ Sub h t a.
Proof. intros Hacy H [->|H2]; [exact (Hacy _ H) | apply (Hacy t); eapply Anc_trans; eauto]. Qed.

(* ================================================================== *)
(** * 4. paths and chains *)

(* Path h x l : l = the first |l| proper ancestors of x, nearest first *)
Inductive Path (h : heap) : obj -> list obj -> Prop :=
| Path_nil x : Path h x []
| Path_cons x p l : par (get h x) = Some p -> Path h p l -> Path h x (p :: l).

(* Chain h x l : l = ALL proper ancestors of x, nearest first (ends at an object without parent) *)
Inductive Chain (h : heap) : obj -> list obj -> Prop :=
| Chain_nil x : par (get h x) = None -> Chain h x []
| Chain_cons x p l : par (get h x) = Some p -> Chain h p l -> Chain h x (p :: l).

Lemma ancf_eq fuel h x :
  ancf fuel h x =
  match par (get h x) with
  | None => Some []
  | Some p => match fuel with
              | O => None
              | S f => match ancf f h p with Some l => Some (p :: l) | None => None end
              end
  end.
Proof. destruct fuel; reflexivity. Qed.

Lemma ancf_Chain fuel h : forall x l, ancf fuel h x = Some l -> Chain h x l.
Proof.
  induction fuel as [|f IH]; intros x l H; rewrite ancf_eq in H;
    destruct (par (get h x)) as [p|] eqn:Hp.
  - discriminate.
  - inversion H; subst. constructor; exact Hp.
  - destruct (ancf f h p) as [l'|] eqn:E; [|discriminate]. inversion H; subst.
    apply Chain_cons; [exact Hp | apply IH; exact E].
  - inversion H; subst. constructor; exact Hp.
Qed.

Lemma Chain_det h x l l' : Chain h x l -> Chain h x l' -> l = l'.
Proof.
  intro H. revert l'. induction H as [x Hp | x p l Hp Hc IH]; intros l' H'; inversion H'; subst;
    try congruence.
  assert (p0 = p) by congruence. subst p0. f_equal. apply IH. assumption.
Qed.

Lemma Chain_Path h x l : Chain h x l -> Path h x l.
Proof. induction 1; econstructor; eauto. Qed.

Lemma Path_In_Anc h x l a : Path h x l -> In a l -> Anc h x a.
Proof.
  induction 1 as [x | x p l Hp Hc IH]; simpl; [easy|].
  intros [<-|H]; [apply Anc_par; exact Hp | eapply Anc_up; eauto].
Qed.

Lemma Chain_In_Anc h x l : Chain h x l -> forall a, In a l <-> Anc h x a.
Proof.
  intros Hc a. split; [apply Path_In_Anc, Chain_Path; exact Hc|].
  intro Ha. revert l Hc. induction Ha as [x p Hp | x p a Hp Ha IH]; intros l Hc;
    inversion Hc; subst; try congruence.
  - left. congruence.
  - right. apply IH. assert (p0 = p) by congruence. subst. assumption.
Qed.

Lemma Chain_ancf h x l : Chain h x l -> forall fuel, length l <= fuel -> ancf fuel h x = Some l.
Proof.
  induction 1 as [x Hp | x p l Hp Hc IH]; intros fuel Hf; rewrite ancf_eq, Hp; [reflexivity|].
  simpl in Hf. destruct fuel as [|f]; [lia|]. rewrite IH by lia. reflexivity.
Qed.

Lemma ancf_length f h x l : ancf f h x = Some l -> length l <= f.
Proof.
  revert x l. induction f as [|g IHg]; intros y m Hm; rewrite ancf_eq in Hm;
    destruct (par (get h y)) as [q|]; try discriminate; inversion Hm; subst; simpl; try lia.
  destruct (ancf g h q) as [m'|] eqn:E; [|discriminate]. inversion Hm; subst. simpl.
  specialize (IHg _ _ E). lia.
Qed.

Lemma ancf_mono f f' h x l : ancf f h x = Some l -> f <= f' -> ancf f' h x = Some l.
Proof.
  intros H Hle. apply Chain_ancf; [eapply ancf_Chain; eauto|].
  apply ancf_length in H. lia.
Qed.

Lemma Path_NoDup h x l : acyclic h -> Path h x l -> NoDup (x :: l).
Proof.
  intros Hacy. induction 1 as [x | x p l Hp Hc IH].
  - constructor; [easy | constructor].
  - constructor; [|exact IH].
    intros [E|Hin].
    + subst. apply (Hacy x). apply Anc_par; exact Hp.
    + apply (Hacy x). eapply Anc_up; [exact Hp|]. eapply Path_In_Anc; eauto.
Qed.

Lemma Chain_NoDup h x l : acyclic h -> Chain h x l -> NoDup l.
Proof.
  intros Hacy Hc. apply Chain_Path in Hc. apply (Path_NoDup _ _ _ Hacy) in Hc.
  inversion Hc; assumption.
Qed.

Lemma Chain_notin_self h x l : acyclic h -> Chain h x l -> ~ In x l.
Proof.
  intros Hacy Hc. apply Chain_Path in Hc. apply (Path_NoDup _ _ _ Hacy) in Hc.
  inversion Hc; assumption.
Qed.

Lemma Path_bounded h x l : par_fin h -> Path h x l -> forall a, In a l -> a < length h.
Proof. intros Hf Hp a Ha. eapply Anc_lt_r; [exact Hf | eapply Path_In_Anc; eauto]. Qed.

Lemma Chain_bounded h x l : par_fin h -> Chain h x l -> forall a, In a l -> a < length h.
Proof. intros Hf Hc. apply (Path_bounded h x l); [exact Hf | apply Chain_Path; exact Hc]. Qed.

(* every element of x :: l except the last one has a parent, hence lies inside the heap *)
Lemma Path_removelast_lt h x l : Path h x l -> forall a, In a (removelast (x :: l)) -> a < length h.
Proof.
  induction 1 as [x | x p l Hp Hc IH]; intros a Ha; [destruct Ha|].
  change (removelast (x :: p :: l)) with (x :: removelast (p :: l)) in Ha.
  destruct Ha as [<-|Ha]; [eapply par_Some_lt; eauto | apply IH; exact Ha].
Qed.

(* pigeonhole: on an acyclic heap no path is longer than the heap (par_fin NOT needed) *)
Lemma Path_length_le h x l : acyclic h -> Path h x l -> length l <= length h.
Proof.
  intros Hacy Hp.
  rewrite <- (length_removelast_cons x l).
  apply NoDup_bounded_length.
  - apply NoDup_removelast. eapply Path_NoDup; eauto.
  - eapply Path_removelast_lt; eauto.
Qed.

Lemma Chain_length_le h x l : acyclic h -> Chain h x l -> length l <= length h.
Proof. intros Hacy Hc. eapply Path_length_le; [exact Hacy | apply Chain_Path; exact Hc]. Qed.

Lemma Chain_split h x l a :
  Chain h x l -> In a l -> exists l1 l2, l = l1 ++ a :: l2 /\ Chain h a l2.
Proof.
  induction 1 as [x Hp | x p l Hp Hc IH]; simpl; [easy|].
  intros [<-|Hin].
  - exists [], l. split; [reflexivity | exact Hc].
  - destruct (IH Hin) as [l1 [l2 [E Hc2]]]. exists (p :: l1), l2. split; [simpl; congruence | exact Hc2].
Qed.

Lemma Chain_last_root h x l : Chain h x l -> par (get h (last l x)) = None.
Proof.
  induction 1 as [x Hp | x p l Hp Hc IH]; [exact Hp|].
  destruct l as [|q l']; [exact IH|].
  change (last (p :: q :: l') x) with (last (q :: l') x).
  assert (E : forall d d', last (q :: l') d = last (q :: l') d').
  { clear. revert q. induction l' as [|r l' IH]; intros q d d'; [reflexivity|].
    change (last (q :: r :: l') d) with (last (r :: l') d).
    change (last (q :: r :: l') d') with (last (r :: l') d'). apply IH. }
  rewrite (E x p). exact IH.
Qed.

Lemma Chain_last_Sub h x l : Chain h x l -> Sub h (last l x) x.
Proof.
  intro Hc. destruct l as [|p l'] using rev_ind; [left; reflexivity|].
  rewrite last_last. right. apply (Chain_In_Anc _ _ _ Hc). apply in_or_app; right; left; reflexivity.
Qed.

(* fuel exhausted = a path longer than the fuel *)
Lemma ancf_None_Path fuel h : forall x, ancf fuel h x = None -> exists l, Path h x l /\ length l = S fuel.
Proof.
  induction fuel as [|f IH]; intros x H; rewrite ancf_eq in H;
    destruct (par (get h x)) as [p|] eqn:Hp; try discriminate.
  - exists [p]. split; [apply Path_cons; [exact Hp | constructor] | reflexivity].
  - destruct (ancf f h p) as [l'|] eqn:E; [discriminate|].
    destruct (IH _ E) as [l [Hl Hlen]]. exists (p :: l). split; [apply Path_cons; assumption | simpl; lia].
Qed.

(* on an acyclic heap the fuel |h| always suffices: anc never answers Crash RecursionError *)
Theorem ancf_total_acy h x : acyclic h -> exists l, ancf (length h) h x = Some l.
Proof.
  intro Hacy. destruct (ancf (length h) h x) as [l|] eqn:E; [eauto|].
  exfalso. apply ancf_None_Path in E as [l [Hp Hlen]].
  pose proof (Path_length_le _ _ _ Hacy Hp). lia.
Qed.

Theorem chain_exists h x :
  acyclic h ->
  exists l, Chain h x l /\ ancf (length h) h x = Some l /\ NoDup l /\ ~ In x l /\ length l <= length h.
Proof.
  intro Hacy. destruct (ancf_total_acy h x Hacy) as [l E]. exists l.
  pose proof (ancf_Chain _ _ _ _ E) as Hc.
  repeat split; eauto using Chain_NoDup, Chain_notin_self, Chain_length_le.
Qed.

Theorem chain_exists_fin h x :
  par_fin h -> acyclic h ->
  exists l, Chain h x l /\ NoDup l /\ (forall a, In a l -> a < length h) /\ ancf (length h) h x = Some l.
Proof.
  intros Hf Hacy. destruct (chain_exists h x Hacy) as [l [Hc [E [Hnd _]]]]. exists l.
  repeat split; auto. eapply Chain_bounded; eauto.
Qed.

Lemma anc_Ok_Chain h x l : anc h x = Ok l -> Chain h x l.
Proof.
  unfold anc. destruct (ancf (length h) h x) as [l'|] eqn:E; [|discriminate].
  intro H; inversion H; subst. eapply ancf_Chain; eauto.
Qed.

Lemma anc_Ok_In h x l : anc h x = Ok l -> forall a, In a l <-> Anc h x a.
Proof. intro H. apply Chain_In_Anc, anc_Ok_Chain, H. Qed.

Theorem anc_ok h x : acyclic h -> exists l, anc h x = Ok l /\ Chain h x l.
Proof.
  intro Hacy. destruct (chain_exists h x Hacy) as [l [Hc [E _]]]. exists l.
  unfold anc. rewrite E. auto.
Qed.

Lemma anc_not_Err h x : anc h x <> Err.
Proof. unfold anc. destruct (ancf (length h) h x); discriminate. Qed.

Lemma Chain_anc h x l : acyclic h -> Chain h x l -> anc h x = Ok l.
Proof.
  intros Hacy Hc. unfold anc. rewrite (Chain_ancf _ _ _ Hc); [reflexivity|].
  eapply Chain_length_le; eauto.
Qed.

(* a path with a repetition exhibits a cycle *)
Lemma Path_dup_cycle h x l : Path h x l -> ~ NoDup (x :: l) -> exists y, Anc h y y.
Proof.
  induction 1 as [x | x p l Hp Hc IH]; intro Hnd.
  - exfalso. apply Hnd. constructor; [easy | constructor].
  - destruct (in_dec Nat.eq_dec x (p :: l)) as [Hin|Hnin].
    + exists x. destruct Hin as [E|Hin].
      * subst. apply Anc_par; exact Hp.
      * eapply Anc_up; [exact Hp|]. eapply Path_In_Anc; eauto.
    + apply IH. intro H. apply Hnd. constructor; assumption.
Qed.

(* the converse: if the walk runs out of fuel |h| there is a parent cycle *)
Theorem ancf_None_cycle h x : ancf (length h) h x = None -> exists y, Anc h y y.
Proof.
  intro E. apply ancf_None_Path in E as [l [Hp Hlen]].
  apply (Path_dup_cycle _ _ _ Hp). intro Hnd.
  assert (length (removelast (x :: l)) <= length h).
  { apply NoDup_bounded_length; [apply NoDup_removelast; exact Hnd | eapply Path_removelast_lt; eauto]. }
  rewrite length_removelast_cons in H. lia.
Qed.

Corollary ancf_None_cycle_or_dangling h x :
  ancf (length h) h x = None ->
  (exists y, Anc h y y) \/ (exists y p, par (get h y) = Some p /\ length h <= p).
Proof. intro E. left. eapply ancf_None_cycle; eauto. Qed.

Lemma Anc_dec h x a : acyclic h -> {Anc h x a} + {~ Anc h x a}.
Proof.
  intro Hacy. destruct (ancf (length h) h x) as [l|] eqn:E.
  - pose proof (ancf_Chain _ _ _ _ E) as Hc.
    destruct (in_dec Nat.eq_dec a l) as [Hin|Hnin].
    + left. apply (Chain_In_Anc _ _ _ Hc). exact Hin.
    + right. intro H. apply Hnin. apply (Chain_In_Anc _ _ _ Hc). exact H.
  - exfalso. destruct (ancf_total_acy h x Hacy) as [l E']. congruence.
Qed.

Lemma Sub_dec h t x : acyclic h -> {Sub h t x} + {~ Sub h t x}.
Proof.
  intro Hacy. unfold Sub. destruct (Nat.eq_dec x t) as [E|N]; [left; auto|].
  destruct (Anc_dec h x t Hacy) as [A|NA]; [left; auto | right; tauto].
Qed.

(* ================================================================== *)
(** * 5. rootof / Root *)

Lemma Root_unique h x r1 r2 : Root h x r1 -> Root h x r2 -> r1 = r2.
Proof.
  intros [[E1|A1] P1] [[E2|A2] P2]; subst; try reflexivity.
  - apply Anc_has_par in A2 as [p Hp]. congruence.
  - apply Anc_has_par in A1 as [p Hp]. congruence.
  - destruct (Anc_linear _ _ _ _ A1 A2) as [E|[A|A]]; [exact E | |];
      apply Anc_has_par in A as [p Hp]; congruence.
Qed.

Lemma Chain_Root h x l : Chain h x l -> Root h x (last l x).
Proof.
  intro Hc. split; [|eapply Chain_last_root; eauto].
  destruct (Chain_last_Sub _ _ _ Hc) as [E|A]; [left; congruence | right; exact A].
Qed.

Lemma rootof_Root h x r : rootof h x = Some r -> Root h x r.
Proof.
  unfold rootof. destruct (ancf (length h) h x) as [l|] eqn:E; [|discriminate].
  intro H; inversion H; subst. apply Chain_Root. eapply ancf_Chain; eauto.
Qed.

Lemma rootof_total h x : acyclic h -> exists r, rootof h x = Some r.
Proof.
  intro Hacy. unfold rootof. destruct (ancf_total_acy h x Hacy) as [l E]. rewrite E. eauto.
Qed.

Theorem rootof_spec h x r : acyclic h -> (rootof h x = Some r <-> Root h x r).
Proof.
  intro Hacy. split; [apply rootof_Root|].
  intro Hr. destruct (rootof_total h x Hacy) as [r' E]. rewrite E. f_equal.
  eapply Root_unique; [apply rootof_Root; exact E | exact Hr].
Qed.

Lemma Root_exists h x : acyclic h -> exists r, Root h x r.
Proof. intro Hacy. destruct (rootof_total h x Hacy) as [r E]. exists r. apply rootof_Root; exact E. Qed.

Lemma rootof_None h x : rootof h x = None -> exists y, Anc h y y.
Proof.
  unfold rootof. destruct (ancf (length h) h x) as [l|] eqn:E; [discriminate|].
  intros _. eapply ancf_None_cycle; eauto.
Qed.

(* an object and its parent / its ancestors have the same root *)
Lemma Root_par h x p r : par (get h x) = Some p -> (Root h x r <-> Root h p r).
Proof.
  intro Hp. unfold Root. split; intros [HS Hr]; (split; [|exact Hr]).
  - destruct HS as [->|A]; [congruence|].
    apply Anc_inv in A as [q [Hq A]]. assert (q = p) by congruence. subst q.
    destruct A; auto.
  - right. destruct HS as [->|A]; [apply Anc_par; exact Hp | eapply Anc_up; eauto].
Qed.

Lemma Root_Anc h x a r : Anc h x a -> (Root h x r <-> Root h a r).
Proof.
  induction 1 as [x p Hp | x p a Hp Ha IH]; [apply Root_par; exact Hp|].
  rewrite (Root_par _ _ _ _ Hp). exact IH.
Qed.

Lemma Root_Sub h t x r : Sub h t x -> (Root h x r <-> Root h t r).
Proof. intros [->|A]; [tauto | apply Root_Anc; exact A]. Qed.

Lemma Root_self h r : par (get h r) = None -> Root h r r.
Proof. intro H. split; [left; reflexivity | exact H]. Qed.

Lemma Root_root_lt h x r : x < length h -> par_fin h -> Root h x r -> r < length h.
Proof. intros Hx Hf [[->|A] _]; [exact Hx | eapply Anc_lt_r; eauto]. Qed.

(* ================================================================== *)
(** * 6. insub / subtree *)

Lemma insub_spec' h t x l : ancf (length h) h x = Some l -> (insub h t x = true <-> Sub h t x).
Proof.
  intro E. unfold insub, Sub. rewrite E, orb_true_iff, Nat.eqb_eq, memn_In.
  rewrite (Chain_In_Anc _ _ _ (ancf_Chain _ _ _ _ E)). tauto.
Qed.

Theorem insub_Sub h t x : acyclic h -> (insub h t x = true <-> Sub h t x).
Proof. intro Hacy. destruct (ancf_total_acy h x Hacy) as [l E]. eapply insub_spec'; eauto. Qed.

(* the direction that needs no hypothesis *)
Lemma insub_true_Sub h t x : insub h t x = true -> Sub h t x.
Proof.
  unfold insub, Sub. rewrite orb_true_iff, Nat.eqb_eq.
  destruct (ancf (length h) h x) as [l|] eqn:E; [|intros [H|H]; [auto | discriminate]].
  rewrite memn_In, (Chain_In_Anc _ _ _ (ancf_Chain _ _ _ _ E)). tauto.
Qed.

Lemma insub_false_iff h t x : acyclic h -> (insub h t x = false <-> ~ Sub h t x).
Proof.
  intro Hacy. rewrite <- (insub_Sub h t x Hacy). destruct (insub h t x); split; intro H.
  - discriminate.
  - exfalso; apply H; reflexivity.
  - discriminate.
  - reflexivity.
Qed.

Lemma insub_self h t : insub h t t = true.
Proof. unfold insub. rewrite Nat.eqb_refl. reflexivity. Qed.

Theorem In_subtree h t x : acyclic h -> (In x (subtree h t) <-> x < length h /\ Sub h t x).
Proof. intro Hacy. unfold subtree. rewrite filter_In, In_objs, (insub_Sub h t x Hacy). tauto. Qed.

Lemma NoDup_subtree h t : NoDup (subtree h t).
Proof. apply NoDup_filter, NoDup_objs. Qed.

Lemma subtree_self h t : t < length h -> In t (subtree h t).
Proof. intro H. unfold subtree. apply filter_In. split; [apply In_objs; exact H | apply insub_self]. Qed.

Lemma subtree_lt h t x : In x (subtree h t) -> x < length h.
Proof. unfold subtree. rewrite filter_In, In_objs. tauto. Qed.

(* ================================================================== *)
(** * 7. frame: the parent pointers are unchanged *)

Lemma same_par_refl h : same_par h h.
Proof. intro x; reflexivity. Qed.

Lemma same_par_sym h h' : same_par h h' -> same_par h' h.
Proof. intros H x. symmetry. apply H. Qed.

Lemma same_par_trans h1 h2 h3 : same_par h1 h2 -> same_par h2 h3 -> same_par h1 h3.
Proof. intros H1 H2 x. rewrite H2. apply H1. Qed.

Lemma same_par_Anc_1 h h' x a : same_par h h' -> Anc h x a -> Anc h' x a.
Proof.
  intro Hs. induction 1 as [x p Hp | x p a Hp Ha IH].
  - apply Anc_par. rewrite Hs. exact Hp.
  - eapply Anc_up; [rewrite Hs; exact Hp | exact IH].
Qed.

Lemma same_par_Anc h h' x a : same_par h h' -> (Anc h' x a <-> Anc h x a).
Proof. intro Hs. split; apply same_par_Anc_1; [apply same_par_sym|]; exact Hs. Qed.

Lemma same_par_Sub h h' t x : same_par h h' -> (Sub h' t x <-> Sub h t x).
Proof. intro Hs. unfold Sub. rewrite (same_par_Anc h h' x t Hs). tauto. Qed.

Lemma same_par_acyclic h h' : same_par h h' -> acyclic h -> acyclic h'.
Proof. intros Hs Hacy x Hx. apply (Hacy x). apply (same_par_Anc h h' x x Hs). exact Hx. Qed.

Lemma same_par_Chain_1 h h' x l : same_par h h' -> Chain h x l -> Chain h' x l.
Proof.
  intro Hs. induction 1 as [x Hp | x p l Hp Hc IH].
  - apply Chain_nil. rewrite Hs. exact Hp.
  - apply Chain_cons; [rewrite Hs; exact Hp | exact IH].
Qed.

Lemma same_par_Chain h h' x l : same_par h h' -> (Chain h' x l <-> Chain h x l).
Proof. intro Hs. split; apply same_par_Chain_1; [apply same_par_sym|]; exact Hs. Qed.

Lemma same_par_ancf h h' fuel : same_par h h' -> forall x, ancf fuel h' x = ancf fuel h x.
Proof.
  intro Hs. induction fuel as [|f IH]; intro x; rewrite (ancf_eq _ h'), (ancf_eq _ h), Hs;
    destruct (par (get h x)); try reflexivity. rewrite IH. reflexivity.
Qed.

Lemma same_par_Root h h' x r : same_par h h' -> (Root h' x r <-> Root h x r).
Proof. intro Hs. unfold Root. rewrite (same_par_Anc h h' x r Hs), Hs. tauto. Qed.

Lemma same_par_par_fin h h' : same_par h h' -> length h' = length h -> par_fin h -> par_fin h'.
Proof. intros Hs Hl Hf x p Hp. rewrite Hl. apply (Hf x). rewrite <- Hs. exact Hp. Qed.

Section SameParLen.
Variables h h' : heap.
Hypothesis Hs : same_par h h'.
Hypothesis Hl : length h' = length h.

Lemma same_par_anc x : anc h' x = anc h x.
Proof. unfold anc. rewrite Hl, (same_par_ancf h h' _ Hs). reflexivity. Qed.

Lemma same_par_rootof x : rootof h' x = rootof h x.
Proof. unfold rootof. rewrite Hl, (same_par_ancf h h' _ Hs). reflexivity. Qed.

Lemma same_par_insub t x : insub h' t x = insub h t x.
Proof. unfold insub. rewrite Hl, (same_par_ancf h h' _ Hs). reflexivity. Qed.

Lemma same_par_subtree t : subtree h' t = subtree h t.
Proof.
  unfold subtree, objs. rewrite Hl. apply filter_ext. intro x. apply same_par_insub.
Qed.
End SameParLen.

(* the usual ways of obtaining same_par *)
Lemma same_par_upd h x f : (forall T, par (f T) = par T) -> same_par h (upd h x f).
Proof. intros H y. apply (proj_get_upd par). exact H. Qed.

Lemma same_par_set_own_all h xs w : same_par h (set_own_all h xs w).
Proof. intro y. apply (proj_get_set_own_all par). reflexivity. Qed.

Lemma same_par_upd_kids h x f : same_par h (upd h x (fun T => with_kids (f T) T)).
Proof. apply same_par_upd. reflexivity. Qed.
Lemma same_par_upd_preds h x f : same_par h (upd h x (fun T => with_preds (f T) T)).
Proof. apply same_par_upd. reflexivity. Qed.
Lemma same_par_upd_succs h x f : same_par h (upd h x (fun T => with_succs (f T) T)).
Proof. apply same_par_upd. reflexivity. Qed.
Lemma same_par_upd_own h x w : same_par h (upd h x (with_own w)).
Proof. apply same_par_upd. reflexivity. Qed.

(* ================================================================== *)
(** * 8. frame: re-parenting ONE object t *)

Section Reparent.
Variables h h' : heap.
Variable t : obj.
Hypothesis Hsame : forall x, x <> t -> par (get h' x) = par (get h x).

(* outside the subtree of t nothing changes (no acyclicity needed) *)
Lemma reparent_outside_1 x a : ~ Sub h t x -> Anc h x a -> Anc h' x a.
Proof.
  intros Hn Ha. induction Ha as [x p Hp | x p a Hp Ha IH].
  - apply Anc_par. rewrite Hsame; [exact Hp|]. intro E. apply Hn. left. exact E.
  - eapply Anc_up.
    + rewrite Hsame; [exact Hp|]. intro E. apply Hn. left. exact E.
    + apply IH. intro HS. apply Hn. eapply Sub_child; eauto.
Qed.

Lemma reparent_outside_2 x a : ~ Sub h t x -> Anc h' x a -> Anc h x a.
Proof.
  intros Hn Ha. induction Ha as [x p Hp | x p a Hp Ha IH].
  - apply Anc_par. rewrite <- Hsame; [exact Hp|]. intro E. apply Hn. left. exact E.
  - assert (Hp0 : par (get h x) = Some p).
    { rewrite <- Hsame; [exact Hp|]. intro E. apply Hn. left. exact E. }
    eapply Anc_up; [exact Hp0|].
    apply IH. intro HS. apply Hn. eapply Sub_child; eauto.
Qed.

Theorem reparent_outside x a : ~ Sub h t x -> (Anc h' x a <-> Anc h x a).
Proof. intro Hn. split; [apply reparent_outside_2 | apply reparent_outside_1]; exact Hn. Qed.

Hypothesis Hacy : acyclic h.

(* inside the subtree of t the part of the chain up to t is kept *)
Lemma reparent_keep x a : Anc h x a -> Sub h t a -> Anc h' x a.
Proof.
  intros Ha HS. induction Ha as [x p Hp | x p a Hp Ha IH].
  - apply Anc_par. rewrite Hsame; [exact Hp|]. intro E. subst x.
    apply (acyclic_Anc_not_Sub h t p Hacy); [apply Anc_par; exact Hp | exact HS].
  - eapply Anc_up; [|apply IH; exact HS]. rewrite Hsame; [exact Hp|]. intro E. subst x.
    apply (acyclic_Anc_not_Sub h t a Hacy); [eapply Anc_up; eauto | exact HS].
Qed.

Lemma reparent_Sub_keep x : Sub h t x -> Sub h' t x.
Proof. intros [->|A]; [left; reflexivity | right; apply reparent_keep; [exact A | apply Sub_refl]]. Qed.

(* what an object of the subtree keeps in any case: its old ancestors inside the subtree *)
Lemma reparent_inside_old x a : Sub h t x -> x <> t -> Anc h' x a -> Sub h t a \/ Anc h' t a.
Proof.
  intros HS Hn Ha. induction Ha as [x p Hp | x p a Hp Ha IH].
  - left. rewrite Hsame in Hp by exact Hn. eapply Sub_par; eauto.
  - rewrite Hsame in Hp by exact Hn. pose proof (Sub_par _ _ _ _ HS Hn Hp) as HSp.
    destruct (Nat.eq_dec p t) as [->|Hnp]; [right; exact Ha | apply IH; assumption].
Qed.

Lemma reparent_Sub_t x : Sub h' t x <-> Sub h t x.
Proof.
  split; [|apply reparent_Sub_keep].
  intro HS'. destruct (Sub_dec h t x Hacy) as [HS|HN]; [exact HS|].
  destruct HS' as [->|A]; [left; reflexivity|]. right. apply reparent_outside_2; assumption.
Qed.

(* ---------------- attach: t gets the parent p ---------------- *)
Section Attach.
Variable p : obj.
Hypothesis Hpar' : par (get h' t) = Some p.
Hypothesis Hpt : p <> t.
Hypothesis Hnotbelow : ~ Anc h p t.          (* p is not in the subtree of t *)

Lemma attach_p_outside : ~ Sub h t p.
Proof. intros [E|A]; auto. Qed.

Lemma attach_inside_1 x a :
  Sub h t x -> Anc h' x a -> (Anc h x a /\ Sub h t a) \/ a = p \/ Anc h p a.
Proof.
  intros HS Ha. induction Ha as [x q Hq | x q a Hq Ha IH].
  - destruct (Nat.eq_dec x t) as [->|Hn].
    + right; left. congruence.
    + left. rewrite Hsame in Hq by exact Hn. split; [apply Anc_par; exact Hq | eapply Sub_par; eauto].
  - destruct (Nat.eq_dec x t) as [->|Hn].
    + assert (q = p) by congruence. subst q. right; right.
      apply (reparent_outside_2 p a attach_p_outside Ha).
    + rewrite Hsame in Hq by exact Hn.
      destruct (IH (Sub_par _ _ _ _ HS Hn Hq)) as [[A S]|[E|A]]; auto.
      left. split; [eapply Anc_up; eauto | exact S].
Qed.

Lemma attach_inside_2 x a :
  Sub h t x -> (Anc h x a /\ Sub h t a) \/ a = p \/ Anc h p a -> Anc h' x a.
Proof.
  intros HS [[A S]|[E|A]].
  - apply reparent_keep; assumption.
  - subst a. eapply Sub_Anc_trans; [apply reparent_Sub_keep; exact HS | apply Anc_par; exact Hpar'].
  - eapply Sub_Anc_trans; [apply reparent_Sub_keep; exact HS|].
    eapply Anc_up; [exact Hpar'|]. apply (reparent_outside_1 p a attach_p_outside A).
Qed.

(* the new ancestors of an object x of the subtree of t: the old ones up to t, then p and the
   ancestors of p  (for x = t the first disjunct is empty) *)
Theorem attach_inside x a :
  Sub h t x -> (Anc h' x a <-> (Anc h x a /\ Sub h t a) \/ a = p \/ Anc h p a).
Proof. intro HS. split; [apply attach_inside_1 | apply attach_inside_2]; exact HS. Qed.

Corollary attach_t a : Anc h' t a <-> a = p \/ Anc h p a.
Proof.
  rewrite (attach_inside t a (Sub_refl h t)). split; [|tauto].
  intros [[A S]|H]; [|exact H]. exfalso. exact (acyclic_Anc_not_Sub h t a Hacy A S).
Qed.

(* no cycle is created *)
Theorem attach_acyclic : acyclic h'.
Proof.
  intros x Hx. destruct (Sub_dec h t x Hacy) as [HS|HN].
  - apply (attach_inside x x HS) in Hx. destruct Hx as [[A _]|[E|A]].
    + exact (Hacy x A).
    + subst x. exact (attach_p_outside HS).
    + apply Hnotbelow. eapply Anc_Sub_trans; eauto.
  - apply (reparent_outside x x HN) in Hx. exact (Hacy x Hx).
Qed.

Theorem attach_Anc x a :
  Anc h' x a <->
  (~ Sub h t x /\ Anc h x a) \/ (Sub h t x /\ ((Anc h x a /\ Sub h t a) \/ a = p \/ Anc h p a)).
Proof.
  destruct (Sub_dec h t x Hacy) as [HS|HN].
  - rewrite (attach_inside x a HS). tauto.
  - rewrite (reparent_outside x a HN). tauto.
Qed.

(* new ancestors appear only for the subtree of t, and they are p and the ancestors of p *)
Lemma attach_Anc_old x a : Anc h' x a -> Anc h x a \/ (Sub h t x /\ Sub h a p).
Proof.
  intro H. apply attach_Anc in H. destruct H as [[_ A]|[S [[A _]|[E|A]]]].
  - left; exact A.
  - left; exact A.
  - right. split; [exact S | left; symmetry; exact E].
  - right. split; [exact S | right; exact A].
Qed.

(* membership in the subtree of an arbitrary node c after the move *)
Theorem attach_Sub x c :
  Sub h' c x <->
  (~ Sub h t x /\ Sub h c x) \/ (Sub h t x /\ ((Sub h c x /\ Sub h t c) \/ Sub h c p)).
Proof.
  destruct (Sub_dec h t x Hacy) as [HS|HN]; split.
  - intros [E|A].
    + right. split; [exact HS|]. left. subst c. split; [left; reflexivity | exact HS].
    + apply (attach_inside x c HS) in A. destruct A as [[A S]|[E|A]]; right; (split; [exact HS|]).
      * left. split; [right; exact A | exact S].
      * right. left. symmetry; exact E.
      * right. right. exact A.
  - intros [[HN _]|[_ [[[E|A] S]|[E|A]]]].
    + exfalso; exact (HN HS).
    + left; exact E.
    + right. apply (attach_inside x c HS). left; split; assumption.
    + right. apply (attach_inside x c HS). right; left. symmetry; exact E.
    + right. apply (attach_inside x c HS). right; right; exact A.
  - intros [E|A]; left; (split; [exact HN|]); [left; exact E | right; apply (reparent_outside x c HN); exact A].
  - intros [[_ [E|A]]|[HS _]];
      [left; exact E | right; apply (reparent_outside x c HN); exact A | exfalso; exact (HN HS)].
Qed.

End Attach.

(* ---------------- detach: t loses its parent ---------------- *)
Section Detach.
Hypothesis Hpar' : par (get h' t) = None.

Lemma detach_inside_1 x a : Sub h t x -> Anc h' x a -> Anc h x a /\ Sub h t a.
Proof.
  intros HS Ha. induction Ha as [x q Hq | x q a Hq Ha IH].
  - destruct (Nat.eq_dec x t) as [->|Hn]; [congruence|].
    rewrite Hsame in Hq by exact Hn. split; [apply Anc_par; exact Hq | eapply Sub_par; eauto].
  - destruct (Nat.eq_dec x t) as [->|Hn]; [congruence|].
    rewrite Hsame in Hq by exact Hn.
    destruct (IH (Sub_par _ _ _ _ HS Hn Hq)) as [A S].
    split; [eapply Anc_up; eauto | exact S].
Qed.

(* the objects of the subtree of t lose exactly the ancestors above t *)
Theorem detach_inside x a : Sub h t x -> (Anc h' x a <-> Anc h x a /\ Sub h t a).
Proof.
  intro HS. split; [apply detach_inside_1; exact HS|]. intros [A S]. apply reparent_keep; assumption.
Qed.

Corollary detach_t a : ~ Anc h' t a.
Proof. intro A. apply Anc_has_par in A as [q Hq]. congruence. Qed.

(* detaching only removes ancestors *)
Theorem detach_Anc_sub x a : Anc h' x a -> Anc h x a.
Proof.
  intro A. destruct (Sub_dec h t x Hacy) as [HS|HN].
  - apply (detach_inside x a HS) in A. tauto.
  - apply (reparent_outside x a HN). exact A.
Qed.

Theorem detach_acyclic : acyclic h'.
Proof. intros x Hx. apply (Hacy x). apply detach_Anc_sub. exact Hx. Qed.

Theorem detach_Anc x a :
  Anc h' x a <-> Anc h x a /\ (Sub h t x -> Sub h t a).
Proof.
  destruct (Sub_dec h t x Hacy) as [HS|HN].
  - rewrite (detach_inside x a HS). tauto.
  - rewrite (reparent_outside x a HN). tauto.
Qed.

Theorem detach_Sub x c : Sub h' c x <-> Sub h c x /\ (Sub h t x -> Sub h t c).
Proof.
  split.
  - intros [E|A].
    + subst c. split; [left; reflexivity | tauto].
    + apply detach_Anc in A. destruct A as [A I]. split; [right; exact A | exact I].
  - intros [[E|A] I]; [left; exact E|]. right. apply detach_Anc. split; assumption.
Qed.

End Detach.
End Reparent.

(* the hypothesis Hsame for the write  upd h t (with_par v) *)
Lemma upd_with_par_same h t v : forall x, x <> t -> par (get (upd h t (with_par v)) x) = par (get h x).
Proof. intros x Hn. rewrite get_upd_other by congruence. reflexivity. Qed.

Lemma upd_with_par_at h t v : t < length h -> par (get (upd h t (with_par v)) t) = v.
Proof. intro Ht. rewrite get_upd_same by exact Ht. reflexivity. Qed.

(* composition helper: Hsame is stable under same_par on both sides *)
Lemma Hsame_same_par h0 h h' h1 t :
  same_par h0 h -> same_par h' h1 ->
  (forall x, x <> t -> par (get h' x) = par (get h x)) ->
  forall x, x <> t -> par (get h1 x) = par (get h0 x).
Proof. intros H0 H1 H x Hn. rewrite H1, (H x Hn). apply H0. Qed.
