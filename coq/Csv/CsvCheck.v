(* C13 - the executable checker run on generated cases (no theorem depends on this file).
   Float cells: a value is the pair (text Python prints for it, canonical repr of its float
   value); float(text) is a table computed by the harness with Python's float() and repr() -
   the two section hypotheses of the theorems (float(repr x) = x, repr x is a plain non-empty
   cell) are evaluated on every value of every case. *)
From PJ Require Import Base.Prelude Csv.CsvModel Csv.Fields Csv.Wbs Csv.WbsSpec gen.Consts.
Open Scope Z_scope.

Definition FV : Type := (text * text)%type.
Definition ftab : Type := list (text * text).

Definition fv_repr (x : FV) : text := fst x.
Definition fv_parse (tab : ftab) (t : text) : option FV :=
  match assoc_text t tab with Some c => Some (c, c) | None => None end.
(* value < 0: the canonical repr starts with a minus sign and is not -0.0 *)
Definition fv_neg (x : FV) : bool :=
  match snd x with
  | c :: r => (c =? 45)%N && negb (text_eqb (snd x) [45; 48; 46; 48]%N)
  | [] => false
  end.
Definition fv_eqb (x y : FV) : bool := text_eqb (fst x) (fst y) && text_eqb (snd x) (snd y).
Definition fv_same_value (x y : FV) : bool := text_eqb (snd x) (snd y).

Definition cwbs := wbs FV.
Definition ctree := tree FV.

Definition m_write (w : cwbs) : text := write_model FV fv_repr delim w.
Definition m_read (tab : ftab) (s : text) : option (res cwbs) :=
  read_model FV (fv_parse tab) fv_neg (hd 0%N csv_delimiter_read) s.

(* ---- exact comparison (the tie) ---- *)
Definition otext_eqb := opt_eqb text_eqb.
Definition customs_eqb (a b : list (text * option text)) : bool :=
  list_eqb (fun x y => text_eqb (fst x) (fst y) && otext_eqb (snd x) (snd y)) a b.

Definition fields_eqb (a b : fields FV) : bool :=
  (f_id _ a =? f_id _ b) && otext_eqb (f_name _ a) (f_name _ b) && otext_eqb (f_resource _ a) (f_resource _ b)
  && zopt_eqb (f_start _ a) (f_start _ b) && zopt_eqb (f_end _ a) (f_end _ b)
  && opt_eqb fv_eqb (f_estimate _ a) (f_estimate _ b) && opt_eqb fv_eqb (f_spent _ a) (f_spent _ b)
  && Bool.eqb (f_milestone _ a) (f_milestone _ b) && zopt_eqb (f_min_start _ a) (f_min_start _ b)
  && customs_eqb (f_custom _ a) (f_custom _ b).

Fixpoint tree_eqb (a b : ctree) : bool :=
  match a, b with
  | Node fa pa ka, Node fb pb kb =>
      fields_eqb fa fb && zlist_eqb pa pb
      && (fix go (x y : list ctree) : bool :=
            match x, y with
            | [], [] => true
            | t :: x', u :: y' => tree_eqb t u && go x' y'
            | _, _ => false
            end) ka kb
  end.

Definition wbs_eqb (a b : cwbs) : bool := list_eqb tree_eqb a b.

(* ---- the property's equivalence, evaluated on what the implementation returned ---- *)
Definition text_equiv_b (a b : option text) : bool := text_eqb (print_opt_text a) (print_opt_text b).

Definition customs_equiv_b (a b : list (text * option text)) : bool :=
  forallb (fun k => text_eqb (custom_value k a) (custom_value k b)) (map fst a ++ map fst b).

Definition fields_equiv_b (a b : fields FV) : bool :=
  (f_id _ a =? f_id _ b) && text_equiv_b (f_name _ a) (f_name _ b) && text_equiv_b (f_resource _ a) (f_resource _ b)
  && zopt_eqb (f_start _ a) (f_start _ b) && zopt_eqb (f_end _ a) (f_end _ b)
  && opt_eqb fv_same_value (f_estimate _ a) (f_estimate _ b) && opt_eqb fv_same_value (f_spent _ a) (f_spent _ b)
  && Bool.eqb (f_milestone _ a) (f_milestone _ b) && zopt_eqb (f_min_start _ a) (f_min_start _ b)
  && customs_equiv_b (f_custom _ a) (f_custom _ b).

Fixpoint tree_equiv_b (a b : ctree) : bool :=
  match a, b with
  | Node fa pa ka, Node fb pb kb =>
      fields_equiv_b fa fb && zlist_eqb pa pb
      && (fix go (x y : list ctree) : bool :=
            match x, y with
            | [], [] => true
            | t :: x', u :: y' => tree_equiv_b t u && go x' y'
            | _, _ => false
            end) ka kb
  end.

Definition wbs_equiv_b (a b : cwbs) : bool := list_eqb tree_equiv_b a b.

(* ---- the float hypotheses on the values of a case ---- *)
Definition plain_text_b (t : text) : bool :=
  negb (match t with [] => true | _ => false end) && negb (existsb (special delim) t).

Definition fv_ok (tab : ftab) (x : FV) : bool :=
  plain_text_b (fst x) && plain_text_b (snd x)
  && match assoc_text (fst x) tab with Some c => text_eqb c (snd x) | None => false end
  && match assoc_text (snd x) tab with Some c => text_eqb c (snd x) | None => false end.

Fixpoint tree_floats (t : ctree) : list FV :=
  match t with
  | Node f _ ks =>
      (match f_estimate _ f with Some x => [x] | None => [] end)
      ++ (match f_spent _ f with Some x => [x] | None => [] end)
      ++ flat_map tree_floats ks
  end.

Definition floats_ok (tab : ftab) (w : cwbs) : bool := forallb (fv_ok tab) (flat_map tree_floats w).

(* ---- observed outcomes ---- *)
(* outcome code of the implementation (harness.impl.util.exc_code; 19 = csv.Error / other) and the
   WBS it returned *)
Definition outcome_matches (m : option (res cwbs)) (code : nat) (obs : cwbs) : bool :=
  match m with
  | None => Nat.eqb code 19
  | Some (Ok w) => Nat.eqb code 0 && wbs_eqb w obs
  | Some r => Nat.eqb code (outcome_code r)
  end.

Inductive case :=
(* write_csv(w) -> file1, read_csv(file1) -> (rcode, w1), write_csv(w1) -> file2,
   write_csv(read_csv(file2)) -> file3 *)
| CRound (tab : ftab) (w : cwbs) (wcode : nat) (file1 : text) (rcode : nat) (w1 : cwbs) (file2 file3 : text)
(* read_csv(file) -> (rcode, w1); meaning = the WBS the file was derived from, if any *)
| CRead (tab : ftab) (file : text) (rcode : nat) (w1 : cwbs) (meaning : option cwbs).

(* a sum of flags:
     1  the written file differs from the model's text
     2  the re-read WBS / outcome differs from the model's reading of that file
     4  the re-read WBS is not equivalent to the original (the property's clause, on the
        implementation's own objects)
     8  the file written from the re-read WBS differs from the model's text for it
    16  a further read/write cycle does not reproduce that file (fixpoint clause)
    32  a float hypothesis fails on a value of the case
   128  (information, not a disagreement) the WBS of the case is outside the domain of the theorems
        (WbsSpec.wbs_ok_b is false on it) *)
Definition flag (b : bool) (n : nat) : nat := if b then n else 0%nat.

Definition check_case (c : case) : nat :=
  match c with
  | CRound tab w wcode file1 rcode w1 file2 file3 =>
      (flag (negb (Nat.eqb wcode 0 && text_eqb (m_write w) file1)) 1
       + flag (negb (outcome_matches (m_read tab file1) rcode w1)) 2
       + flag (negb (Nat.eqb rcode 0 && wbs_equiv_b w w1)) 4
       + flag (negb (text_eqb (m_write w1) file2)) 8
       + flag (negb (text_eqb file3 file2)) 16
       + flag (negb (floats_ok tab w && floats_ok tab w1)) 32
       + flag (negb (wbs_ok_b fv_neg w)) 128)%nat
  | CRead tab file rcode w1 meaning =>
      (flag (negb (outcome_matches (m_read tab file) rcode w1)) 2
       + flag (match meaning with Some w => negb (Nat.eqb rcode 0 && wbs_equiv_b w w1) | None => false end) 4
       + flag (negb (floats_ok tab w1)) 32
       + flag (match meaning with Some w => negb (wbs_ok_b fv_neg w) | None => false end) 128)%nat
  end.
