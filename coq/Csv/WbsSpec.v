(* C13 - vocabulary of the statements about Csv/Wbs.v: the domain of the property (which WBSs
   are expressible in the CSV layout) and auxiliary functions used to state the lemmas.
   Definitions only. *)
From PJ Require Import Base.Prelude Csv.CsvModel Csv.Fields Csv.Wbs gen.Consts.
Open Scope Z_scope.

Section Spec.
Context {F : Type}.
Variable f_neg : F -> bool.

(* flattening that keeps the fields as they are (Wbs.flat also drops the attributes tasks_to_raws does not copy) *)
Fixpoint flat_plain (p : option Z) (t : tree F) : list (raw F) :=
  match t with
  | Node f ps ks => mkraw f p ps :: flat_map (flat_plain (Some (f_id F f))) ks
  end.

Definition flatten_plain (w : wbs F) : list (raw F) := flat_map (flat_plain None) w.

Fixpoint map_tree (g : fields F -> fields F) (t : tree F) : tree F :=
  match t with Node f ps ks => Node (g f) ps (map (map_tree g) ks) end.

(* the TaskRaw read_csv builds from the row write_csv wrote for r, given the custom columns of the file *)
Definition norm_raw (cols : list text) (r : raw F) : raw F :=
  mkraw (norm_fields F cols (r_f F r)) (r_parent F r) (r_preds F r).

(* a custom attribute name that the layout can express: public, not one of the default columns, not a
   name an instance of Task has anyway, not changed by the header clean-up (no U+FEFF) *)
Definition custom_name_ok (k : text) : Prop :=
  copied_attr k = true /\ mem_text k csv_default_fields = false /\ mem_text k csv_task_reserved = false
  /\ strip_cell k = k.

Definition date_ok (o : option Z) : Prop := forall d, o = Some d -> date_lo <= d < date_hi.

(* one task (as a TaskRaw) whose content the layout can express *)
Definition raw_ok (r : raw F) : Prop :=
  let f := r_f F r in
  date_ok (f_start F f) /\ date_ok (f_end F f) /\ date_ok (f_min_start F f)
  /\ NoDup (map fst (f_custom F f)) /\ Forall custom_name_ok (map fst (f_custom F f)).

(* the graph side: ids unique, dependencies inside the WBS and without repetitions, amounts not negative *)
Definition graph_ok (raws : list (raw F)) : Prop :=
  NoDup (map (raw_id F) raws)
  /\ Forall (fun r => NoDup (r_preds F r)
                      /\ Forall (fun p => In p (map (raw_id F) raws)) (r_preds F r)
                      /\ negative_amount F f_neg r = false) raws.

(* what the theorems assume about Python's str(float) / float(text): float(str(x)) is x again and str(x)
   is not the empty text (an empty cell is read as None).  Evaluated by the harness on every amount of
   every case (CsvCheck.fv_ok). *)
Definition float_codec_ok (repr_float : F -> text) (parse_float : text -> option F) : Prop :=
  (forall x, parse_float (repr_float x) = Some x) /\ (forall x, repr_float x <> []).

(* ---------- the same domain as a boolean (evaluated on generated cases, used for the examples);
   sound for the predicates above: RoundTrip.wbs_ok_b_sound ---------- *)
Definition custom_name_ok_b (k : text) : bool :=
  copied_attr k && negb (mem_text k csv_default_fields) && negb (mem_text k csv_task_reserved)
  && text_eqb (strip_cell k) k.

Definition date_ok_b (o : option Z) : bool :=
  match o with Some d => (date_lo <=? d) && (d <? date_hi) | None => true end.

Definition raw_ok_b (r : raw F) : bool :=
  let f := r_f F r in
  date_ok_b (f_start F f) && date_ok_b (f_end F f) && date_ok_b (f_min_start F f)
  && nodup_textb (map fst (f_custom F f)) && forallb custom_name_ok_b (map fst (f_custom F f)).

Definition graph_ok_b (raws : list (raw F)) : bool :=
  let ids := map (raw_id F) raws in
  nodup_zb ids
  && forallb (fun r => nodup_zb (r_preds F r) && forallb (fun p => mem_z p ids) (r_preds F r)
                       && negb (negative_amount F f_neg r)) raws.

Definition wbs_ok_b (w : wbs F) : bool :=
  forallb raw_ok_b (flatten_plain w) && graph_ok_b (flatten_plain w).

End Spec.
