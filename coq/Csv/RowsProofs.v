(* C13 - the row level of the round trip (Csv/Wbs.v): the TaskRaws written as rows of text cells
   (header = default columns ++ custom columns, one row per TaskRaw) and read back are the
   normalised TaskRaws (WbsSpec.norm_raw).  Proofs only; the cell codecs are in FieldsProofs.v. *)
From PJ Require Import Base.Prelude Csv.CsvModel Csv.Fields Csv.FieldsProofs Csv.Wbs Csv.WbsSpec gen.Consts.
Open Scope Z_scope.

(* ---------- closed facts about the generated constants ---------- *)
Lemma default_fields_names :
  csv_default_fields
  = [K_ID; K_NAME; K_RESOURCE; K_START; K_END; K_ESTIMATE; K_SPENT; K_MILESTONE; K_PARENT_ID; K_PREDECESSOR_IDS].
Proof. reflexivity. Qed.

Lemma strip_default_fields : map strip_cell csv_default_fields = csv_default_fields.
Proof. vm_compute. reflexivity. Qed.

Lemma nodup_default_fields : nodup_textb csv_default_fields = true.
Proof. vm_compute. reflexivity. Qed.

Lemma filter_default_fields :
  filter (fun k => negb (mem_text k csv_default_fields)) csv_default_fields = [].
Proof. vm_compute. reflexivity. Qed.

Lemma min_start_not_default : mem_text K_MIN_START csv_default_fields = false.
Proof. vm_compute. reflexivity. Qed.

Lemma min_start_reserved : mem_text K_MIN_START csv_task_reserved = true.
Proof. vm_compute. reflexivity. Qed.

Lemma strip_min_start : strip_cell K_MIN_START = K_MIN_START.
Proof. vm_compute. reflexivity. Qed.

Lemma pred_sep_read_char : hd 0%N csv_pred_sep_read = pred_sep_char.
Proof. reflexivity. Qed.

Lemma pred_sep_char_not_int : is_int_char pred_sep_char = false.
Proof. reflexivity. Qed.

Lemma date_items_eq : date_items = csv_date_items.
Proof. reflexivity. Qed.

Lemma iso_date_items_eq : iso_date_items = iso_items.
Proof. reflexivity. Qed.

(* ---------- bridges between the boolean list functions and In / NoDup ---------- *)
Lemma mem_text_In : forall k l, mem_text k l = true <-> In k l.
Proof.
  intros k l. unfold mem_text. rewrite existsb_exists. split.
  - intros [x [Hin He]]. apply text_eqb_eq in He. subst x. exact Hin.
  - intro Hin. exists k. split; [exact Hin|apply text_eqb_refl].
Qed.

Lemma mem_text_false : forall k l, mem_text k l = false <-> ~ In k l.
Proof.
  intros k l. rewrite <- mem_text_In. destruct (mem_text k l); split; intro H.
  - discriminate H.
  - exfalso. apply H. reflexivity.
  - discriminate.
  - reflexivity.
Qed.

Lemma mem_text_cons : forall k x l, mem_text k (x :: l) = text_eqb k x || mem_text k l.
Proof. reflexivity. Qed.

Lemma mem_text_app : forall k l1 l2, mem_text k (l1 ++ l2) = mem_text k l1 || mem_text k l2.
Proof. intros k l1 l2. unfold mem_text. apply existsb_app. Qed.

Lemma nodup_textb_NoDup : forall l, nodup_textb l = true <-> NoDup l.
Proof.
  induction l as [|k l IH]; cbn [nodup_textb].
  - split; [constructor|reflexivity].
  - rewrite andb_true_iff, negb_true_iff, mem_text_false, IH. split.
    + intros [H1 H2]. constructor; assumption.
    + intro H. inversion H; subst. split; assumption.
Qed.

Lemma NoDup_text_app : forall l1 l2 : list text,
  NoDup l1 -> NoDup l2 -> (forall k, In k l2 -> ~ In k l1) -> NoDup (l1 ++ l2).
Proof.
  induction l1 as [|x l1 IH]; intros l2 H1 H2 Hd; [exact H2|].
  inversion H1 as [|? ? Hx H1']; subst. cbn [app]. constructor.
  - rewrite in_app_iff. intros [H|H]; [contradiction|]. apply (Hd x H). left; reflexivity.
  - apply IH; try assumption. intros k Hk Hk1. apply (Hd k Hk). right; exact Hk1.
Qed.

Lemma text_eq_dec : forall a b : text, {a = b} + {a <> b}.
Proof. apply list_eq_dec. apply N.eq_dec. Qed.

Lemma dedup_text_In : forall l seen k, In k (dedup_text seen l) <-> In k l /\ ~ In k seen.
Proof.
  induction l as [|x l IH]; intros seen k; cbn [dedup_text].
  - cbn [In]. tauto.
  - destruct (mem_text x seen) eqn:E.
    + apply mem_text_In in E. rewrite IH. cbn [In]. split.
      * intros [H1 H2]. split; [right; exact H1|exact H2].
      * intros [[H1|H1] H2]; [subst; contradiction|split; assumption].
    + apply mem_text_false in E. cbn [In]. rewrite IH. cbn [In]. split.
      * intros [H|[H1 H2]].
        -- subst. split; [left; reflexivity|exact E].
        -- split; [right; exact H1|]. intro H. apply H2. right; exact H.
      * intros [[H1|H1] H2]; [left; exact H1|].
        destruct (text_eq_dec x k) as [Exk|Exk]; [left; exact Exk|].
        right. split; [exact H1|]. intros [H|H]; contradiction.
Qed.

Lemma dedup_text_NoDup : forall l seen, NoDup (dedup_text seen l).
Proof.
  induction l as [|x l IH]; intro seen; cbn [dedup_text]; [constructor|].
  destruct (mem_text x seen) eqn:E; [apply IH|].
  constructor; [|apply IH]. rewrite dedup_text_In. intros [_ H]. apply H. left; reflexivity.
Qed.

(* ---------- index_of, cell ---------- *)
Lemma index_of_In : forall l k, In k l -> exists i, index_of k l = Some i /\ nth_error l i = Some k.
Proof.
  induction l as [|x l IH]; intros k Hin; [destruct Hin|].
  cbn [index_of]. destruct (text_eqb k x) eqn:E.
  - apply text_eqb_eq in E. subst x. exists O. split; reflexivity.
  - destruct Hin as [Hx|Hin]; [subst x; rewrite text_eqb_refl in E; discriminate E|].
    destruct (IH k Hin) as [i [H1 H2]]. exists (S i). rewrite H1. split; [reflexivity|exact H2].
Qed.

Lemma index_of_app_l : forall l1 l2 k, In k l1 -> index_of k (l1 ++ l2) = index_of k l1.
Proof.
  induction l1 as [|x l1 IH]; intros l2 k Hin; [destruct Hin|].
  cbn [app index_of]. destruct (text_eqb k x) eqn:E; [reflexivity|].
  destruct Hin as [Hx|Hin]; [subst x; rewrite text_eqb_refl in E; discriminate E|].
  rewrite (IH l2 k Hin). reflexivity.
Qed.

Lemma index_of_app_r : forall l1 l2 k, mem_text k l1 = false ->
  index_of k (l1 ++ l2) = option_map (Nat.add (length l1)) (index_of k l2).
Proof.
  induction l1 as [|x l1 IH]; intros l2 k Hk.
  - cbn [app length]. destruct (index_of k l2); reflexivity.
  - rewrite mem_text_cons in Hk. apply orb_false_iff in Hk as [H1 H2].
    cbn [app index_of length]. rewrite H1, (IH l2 k H2). destruct (index_of k l2); reflexivity.
Qed.

Lemma index_of_nth : forall l i d, NoDup l -> (i < length l)%nat -> index_of (nth i l d) l = Some i.
Proof.
  induction l as [|x l IH]; intros i d Hnd Hi; [cbn [length] in Hi; lia|].
  inversion Hnd as [|? ? Hx Hnd']; subst. destruct i as [|i]; cbn [nth index_of].
  - rewrite text_eqb_refl. reflexivity.
  - cbn [length] in Hi. destruct (text_eqb (nth i l d) x) eqn:E.
    + apply text_eqb_eq in E. exfalso. apply Hx. rewrite <- E. apply nth_In. lia.
    + rewrite IH by (try assumption; lia). reflexivity.
Qed.

(* the cell of a custom column: the row is the default cells followed by one cell per custom column *)
Lemma cell_custom : forall (f : text -> text) (defs : list text) cols ten k,
  length ten = length defs ->
  mem_text k defs = false -> In k cols ->
  cell (defs ++ cols) k (ten ++ map f cols) = Ok (f k).
Proof.
  intros f defs cols ten k Hlen Hk Hin. unfold cell. rewrite index_of_app_r by exact Hk.
  destruct (index_of_In cols k Hin) as [i [H1 H2]]. rewrite H1. cbn [option_map].
  rewrite <- Hlen. rewrite nth_error_app2 by lia.
  replace (length ten + i - length ten)%nat with i by lia.
  rewrite (map_nth_error f _ _ H2). reflexivity.
Qed.

(* the cells of the default columns *)
Lemma cells_default : forall cols (c0 c1 c2 c3 c4 c5 c6 c7 c8 c9 : text) (rest : row),
  let names := csv_default_fields ++ cols in
  let r := c0 :: c1 :: c2 :: c3 :: c4 :: c5 :: c6 :: c7 :: c8 :: c9 :: rest in
  cell names K_ID r = Ok c0 /\ cell names K_NAME r = Ok c1 /\ cell names K_RESOURCE r = Ok c2
  /\ cell names K_START r = Ok c3 /\ cell names K_END r = Ok c4 /\ cell names K_ESTIMATE r = Ok c5
  /\ cell names K_SPENT r = Ok c6 /\ cell names K_MILESTONE r = Ok c7 /\ cell names K_PARENT_ID r = Ok c8
  /\ cell names K_PREDECESSOR_IDS r = Ok c9.
Proof. intros. repeat split. Qed.

(* ---------- generic facts about the read side ---------- *)
Lemma all_ok_map : forall {A B} (f : A -> res B) (g : A -> B) l,
  (forall a, In a l -> f a = Ok (g a)) -> all_ok (map f l) = Ok (map g l).
Proof.
  intros A B f g l. induction l as [|a l IH]; intro H; [reflexivity|].
  cbn [map all_ok]. rewrite (H a (or_introl eq_refl)). cbn [bind].
  rewrite IH by (intros b Hb; apply H; right; exact Hb). reflexivity.
Qed.

Lemma assoc_text_map : forall {A} (f : text -> A) l k,
  In k l -> assoc_text k (map (fun k => (k, f k)) l) = Some (f k).
Proof.
  intros A f l k. induction l as [|x l IH]; intro Hin; [destruct Hin|].
  cbn [map assoc_text]. destruct (text_eqb k x) eqn:E.
  - apply text_eqb_eq in E. subst x. reflexivity.
  - destruct Hin as [Hx|Hin]; [subst x; rewrite text_eqb_refl in E; discriminate E|apply IH; exact Hin].
Qed.

Lemma opt_parse_opt_cell : forall {A} (p : text -> option A) (pr : A -> text) (o : option A),
  (forall x, o = Some x -> pr x <> [] /\ p (pr x) = Some x) -> opt_parse p (opt_cell pr o) = Ok o.
Proof.
  intros A p pr o H. destruct o as [x|]; [|reflexivity].
  destruct (H x eq_refl) as [Hne Hp]. cbn [opt_cell]. unfold opt_parse.
  revert Hne Hp. destruct (pr x) as [|c t]; intros Hne Hp; [congruence|].
  rewrite Hp. reflexivity.
Qed.

Lemma plain_cell_nonempty : forall t, plain_cell_b t = true -> t <> [].
Proof. intros t H E. subst t. discriminate H. Qed.

Lemma date_cell_roundtrip : forall o, date_ok o ->
  opt_parse (parse_date date_items) (opt_cell (format_date date_items) o) = Ok o.
Proof.
  intros o Hd. apply opt_parse_opt_cell. intros d Hd'. specialize (Hd d Hd').
  change date_items with csv_date_items. split.
  - apply plain_cell_nonempty. apply (date_cells_plain d Hd).
  - apply parse_format_date. exact Hd.
Qed.

Lemma iso_cell_roundtrip : forall o, date_ok o ->
  opt_parse (parse_date iso_date_items) (opt_cell (format_date iso_date_items) o) = Ok o.
Proof.
  intros o Hd. apply opt_parse_opt_cell. intros d Hd'. specialize (Hd d Hd').
  change iso_date_items with iso_items. split.
  - apply plain_cell_nonempty. apply (date_cells_plain d Hd).
  - apply parse_format_iso. exact Hd.
Qed.

Lemma int_cell_roundtrip : forall o, opt_parse parse_int (opt_cell print_int o) = Ok o.
Proof.
  intro o. apply opt_parse_opt_cell. intros z _. split; [apply print_int_nonempty|apply parse_print_int].
Qed.

Lemma preds_cell_roundtrip : forall l,
  parse_preds (hd 0%N csv_pred_sep_read) (print_preds pred_sep_char l) = Some l.
Proof. intro l. rewrite pred_sep_read_char. apply parse_print_preds. exact pred_sep_char_not_int. Qed.

Lemma filter_copied_id : forall cs : list (text * option text),
  Forall custom_name_ok (map fst cs) -> filter (fun kv => copied_attr (fst kv)) cs = cs.
Proof.
  induction cs as [|kv cs IH]; intro H; [reflexivity|].
  cbn [map] in H. inversion H as [|? ? Hk Hr]; subst. cbn [filter].
  destruct Hk as [Hc _]. rewrite Hc. rewrite IH by exact Hr. reflexivity.
Qed.

(* the header: names unchanged by the clean-up, distinct, and the custom keys are the custom columns *)
Lemma header_strip : forall cols, (forall k, In k cols -> strip_cell k = k) ->
  map strip_cell (csv_default_fields ++ cols) = csv_default_fields ++ cols.
Proof.
  intros cols H. rewrite map_app.
  apply (f_equal2 (@app text)); [exact strip_default_fields|].
  transitivity (map (fun k : text => k) cols); [apply map_ext_in; exact H|apply map_id].
Qed.

Lemma header_nodup : forall cols, NoDup cols -> (forall k, In k cols -> mem_text k csv_default_fields = false) ->
  nodup_textb (csv_default_fields ++ cols) = true.
Proof.
  intros cols Hnd H. apply nodup_textb_NoDup. apply NoDup_text_app.
  - apply nodup_textb_NoDup. exact nodup_default_fields.
  - exact Hnd.
  - intros k Hk. apply mem_text_false. apply H. exact Hk.
Qed.

Lemma header_custom_keys : forall cols, (forall k, In k cols -> mem_text k csv_default_fields = false) ->
  filter (fun k => negb (mem_text k csv_default_fields)) (csv_default_fields ++ cols) = cols.
Proof.
  intros cols H. rewrite filter_app.
  etransitivity; [apply (f_equal2 (@app text)); [exact filter_default_fields|reflexivity]|]. cbn [app].
  induction cols as [|k cols IH]; [reflexivity|].
  cbn [filter]. rewrite (H k (or_introl eq_refl)). cbn [negb]. f_equal.
  apply IH. intros k' Hk'. apply H. right; exact Hk'.
Qed.

Section Rows.
Context {F : Type}.
Variable repr_float : F -> text.
Variable parse_float : text -> option F.
Hypothesis float_roundtrip : forall x, parse_float (repr_float x) = Some x.
Hypothesis float_nonempty : forall x, repr_float x <> [].

Lemma float_cell_roundtrip : forall o, opt_parse parse_float (opt_cell repr_float o) = Ok o.
Proof.
  intro o. apply opt_parse_opt_cell. intros x _. split; [apply float_nonempty|apply float_roundtrip].
Qed.

(* ---------- the custom columns ---------- *)
Lemma raw_attr_names_In : forall (r : raw F) k,
  In k (raw_attr_names F r)
  <-> mem_text k csv_default_fields = false /\ (k = K_MIN_START \/ In k (map fst (f_custom F (r_f F r)))).
Proof.
  intros r k. unfold raw_attr_names. rewrite filter_In, negb_true_iff. cbn [In]. split.
  - intros [[H|H] H2]; split; auto.
  - intros [H1 [H|H]]; split; auto.
Qed.

Lemma custom_columns_In : forall (raws : list (raw F)) k,
  In k (custom_columns F raws) <-> exists r, In r raws /\ In k (raw_attr_names F r).
Proof.
  intros raws k. unfold custom_columns. rewrite dedup_text_In, in_flat_map. cbn [In]. tauto.
Qed.

Lemma custom_columns_NoDup : forall raws : list (raw F), NoDup (custom_columns F raws).
Proof. intro raws. apply dedup_text_NoDup. Qed.

Lemma custom_columns_ok : forall (raws : list (raw F)) k,
  Forall raw_ok raws -> In k (custom_columns F raws) ->
  mem_text k csv_default_fields = false /\ strip_cell k = k.
Proof.
  intros raws k Hok Hin. apply custom_columns_In in Hin as [r [Hr Hk]].
  apply raw_attr_names_In in Hk as [Hd Hk]. split; [exact Hd|].
  destruct Hk as [->|Hk]; [exact strip_min_start|].
  rewrite Forall_forall in Hok. specialize (Hok r Hr). destruct Hok as (_ & _ & _ & _ & Hn).
  rewrite Forall_forall in Hn. destruct (Hn k Hk) as (_ & _ & _ & Hs). exact Hs.
Qed.

Lemma custom_columns_min_start : forall (raws : list (raw F)) r,
  In r raws -> In K_MIN_START (custom_columns F raws).
Proof.
  intros raws r Hr. apply custom_columns_In. exists r. split; [exact Hr|].
  apply raw_attr_names_In. split; [exact min_start_not_default|left; reflexivity].
Qed.

(* ---------- the custom cells ---------- *)
Lemma custom_cell_min_start : forall r : raw F,
  custom_cell F r K_MIN_START = opt_cell (format_date iso_date_items) (f_min_start F (r_f F r)).
Proof. intro r. unfold custom_cell. rewrite text_eqb_refl. reflexivity. Qed.

Lemma custom_cell_not_reserved : forall (r : raw F) k,
  mem_text k csv_task_reserved = false -> custom_cell F r k = custom_value k (f_custom F (r_f F r)).
Proof.
  intros r k H. unfold custom_cell. destruct (text_eqb k K_MIN_START) eqn:E; [|reflexivity].
  apply text_eqb_eq in E. subst k. rewrite min_start_reserved in H. discriminate H.
Qed.

Lemma customs_roundtrip : forall (r : raw F) cs cols,
  (forall k, mem_text k csv_task_reserved = false -> custom_cell F r k = custom_value k cs) ->
  map (fun kv : text * text => (fst kv, Some (snd kv)))
      (filter (fun kv : text * text => negb (mem_text (fst kv) csv_task_reserved))
              (map (fun k => (k, custom_cell F r k)) cols))
  = map (fun k => (k, Some (custom_value k cs))) (filter (fun k => negb (mem_text k csv_task_reserved)) cols).
Proof.
  intros r cs cols H. induction cols as [|k cols IH]; [reflexivity|].
  cbn [map filter fst snd]. destruct (mem_text k csv_task_reserved) eqn:E; cbn [negb].
  - exact IH.
  - cbn [map fst snd]. rewrite IH, (H k E). reflexivity.
Qed.

Lemma raw_to_row_eq : forall cols (r : raw F),
  raw_to_row F repr_float cols r
  = print_int (f_id F (r_f F r)) :: print_opt_text (f_name F (r_f F r)) :: print_opt_text (f_resource F (r_f F r))
    :: opt_cell (format_date date_items) (f_start F (r_f F r)) :: opt_cell (format_date date_items) (f_end F (r_f F r))
    :: opt_cell repr_float (f_estimate F (r_f F r)) :: opt_cell repr_float (f_spent F (r_f F r))
    :: print_bool (f_milestone F (r_f F r)) :: opt_cell print_int (r_parent F r)
    :: print_preds pred_sep_char (r_preds F r) :: map (custom_cell F r) cols.
Proof. reflexivity. Qed.

Lemma kwargs_ok : forall cols (r : raw F),
  (forall k, In k cols -> mem_text k csv_default_fields = false) ->
  all_ok (map (fun k => do c <- cell (csv_default_fields ++ cols) k (raw_to_row F repr_float cols r); Ok (k, c)) cols)
  = Ok (map (fun k => (k, custom_cell F r k)) cols).
Proof.
  intros cols r Hcols.
  assert (H : forall k, In k cols ->
            cell (csv_default_fields ++ cols) k (raw_to_row F repr_float cols r) = Ok (custom_cell F r k)).
  { intros k Hk. unfold raw_to_row. cbv zeta. apply cell_custom; [reflexivity|apply Hcols; exact Hk|exact Hk]. }
  generalize dependent (raw_to_row F repr_float cols r). intros row H.
  generalize dependent (csv_default_fields ++ cols). intros names H.
  apply all_ok_map. intros k Hk. rewrite (H k Hk). reflexivity.
Qed.

(* ---------- one row ---------- *)
Lemma row_to_raw_of_raw_to_row : forall cols (r : raw F),
  (forall k, In k cols -> mem_text k csv_default_fields = false) ->
  In K_MIN_START cols -> raw_ok r ->
  row_to_raw F parse_float (csv_default_fields ++ cols) (raw_to_row F repr_float cols r) = Ok (norm_raw cols r).
Proof.
  intros cols r Hcols Hms Hok.
  destruct Hok as (Hstart & Hend & Hmin & _ & Hnames).
  pose proof (header_custom_keys cols Hcols) as Hkeys.
  pose proof (kwargs_ok cols r Hcols) as Hkw.
  pose proof (cells_default cols (print_int (f_id F (r_f F r))) (print_opt_text (f_name F (r_f F r)))
    (print_opt_text (f_resource F (r_f F r))) (opt_cell (format_date date_items) (f_start F (r_f F r)))
    (opt_cell (format_date date_items) (f_end F (r_f F r))) (opt_cell repr_float (f_estimate F (r_f F r)))
    (opt_cell repr_float (f_spent F (r_f F r))) (print_bool (f_milestone F (r_f F r)))
    (opt_cell print_int (r_parent F r)) (print_preds pred_sep_char (r_preds F r))
    (map (custom_cell F r) cols)) as Hc.
  cbv zeta in Hc. rewrite <- raw_to_row_eq in Hc.
  destruct Hc as (C0 & C1 & C2 & C3 & C4 & C5 & C6 & C7 & C8 & C9).
  unfold row_to_raw. cbv zeta.
  rewrite Hkeys, Hkw. cbn [bind].
  rewrite (assoc_text_map (custom_cell F r) cols K_MIN_START Hms), custom_cell_min_start.
  rewrite (iso_cell_roundtrip _ Hmin). cbn [bind].
  rewrite C0. cbn [bind]. rewrite parse_print_int. cbn [value_error bind].
  rewrite C1. cbn [bind]. rewrite C2. cbn [bind].
  rewrite C3. cbn [bind]. rewrite (date_cell_roundtrip _ Hstart). cbn [bind].
  rewrite C4. cbn [bind]. rewrite (date_cell_roundtrip _ Hend). cbn [bind].
  rewrite C5. cbn [bind]. rewrite float_cell_roundtrip. cbn [bind].
  rewrite C6. cbn [bind]. rewrite float_cell_roundtrip. cbn [bind].
  rewrite C7. cbn [bind].
  rewrite C8. cbn [bind]. rewrite int_cell_roundtrip. cbn [bind].
  rewrite C9. cbn [bind]. rewrite preds_cell_roundtrip. cbn [value_error bind].
  rewrite parse_print_bool.
  unfold norm_raw, norm_fields. cbv zeta.
  rewrite (filter_copied_id _ Hnames).
  rewrite (customs_roundtrip r (f_custom F (r_f F r)) cols (custom_cell_not_reserved r)).
  reflexivity.
Qed.

(* ---------- all rows ---------- *)
Theorem rows_to_raws_to_rows : forall raws : list (raw F),
  Forall raw_ok raws ->
  let cols := custom_columns F raws in
  rows_to_raws F parse_float (csv_default_fields ++ cols) (map (raw_to_row F repr_float cols) raws)
  = Ok (map (norm_raw cols) raws).
Proof.
  intros raws Hok cols.
  assert (Hcols : forall k, In k cols -> mem_text k csv_default_fields = false /\ strip_cell k = k).
  { intros k Hk. apply (custom_columns_ok raws k Hok Hk). }
  assert (Hnd : NoDup cols) by apply custom_columns_NoDup.
  assert (Hms : forall r, In r raws -> In K_MIN_START cols).
  { intros r Hr. apply (custom_columns_min_start raws r Hr). }
  clearbody cols.
  unfold rows_to_raws. cbv zeta.
  rewrite header_strip by (intros k Hk; apply (Hcols k Hk)).
  rewrite header_nodup by (try exact Hnd; intros k Hk; apply (Hcols k Hk)).
  cbn [negb]. rewrite map_map. apply all_ok_map.
  intros r Hr. apply row_to_raw_of_raw_to_row.
  - intros k Hk. apply (Hcols k Hk).
  - apply (Hms r Hr).
  - rewrite Forall_forall in Hok. apply Hok. exact Hr.
Qed.

End Rows.
