(* C13 - the sweep for the date format of csv_io.py (gen/Consts.v): 36 525 days, by vm_compute. *)
From PJ Require Import Base.Prelude Csv.CsvModel Csv.Fields Csv.DateSweep gen.Consts.

Lemma csv_date_sweep : forallb (date_roundtrip_b csv_date_items) sweep_days = true.
Proof. vm_cast_no_check (eq_refl true). Qed.
