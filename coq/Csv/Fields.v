(* C13 - the cell codecs of pjplan/io/csv_io.py: what write_csv puts into a cell (str(int),
   strftime, str(bool), the joined predecessor ids, text with None written as the empty cell)
   and what read_csv makes of a cell (int(), strptime, comparison with True, split, the empty
   cell read as None).  The parsers accept the canonical forms only: the leniencies of int()
   (blanks, underscores, a plus sign) and of strptime (one-digit day or month) are not modelled;
   a cell outside the canonical forms is answered with None = ValueError.
   Definitions only; proofs are in FieldsProofs.v. *)
From Coq Require Import Decimal DecimalZ.
From PJ Require Import Base.Prelude Csv.CsvModel.
Open Scope N_scope.

Definition text_eqb : text -> text -> bool := list_eqb N.eqb.

(* ---------- text: None is written as the empty cell, the empty cell is read as None ---------- *)
Definition print_opt_text (o : option text) : text := match o with Some t => t | None => [] end.
Definition parse_opt_text (t : text) : option text := match t with [] => None | _ => Some t end.

(* ---------- integers: str(int) and int() ---------- *)
Definition MINUS : N := 45.

Fixpoint print_uint (u : uint) : text :=
  match u with
  | Nil => []
  | D0 r => 48 :: print_uint r | D1 r => 49 :: print_uint r | D2 r => 50 :: print_uint r
  | D3 r => 51 :: print_uint r | D4 r => 52 :: print_uint r | D5 r => 53 :: print_uint r
  | D6 r => 54 :: print_uint r | D7 r => 55 :: print_uint r | D8 r => 56 :: print_uint r
  | D9 r => 57 :: print_uint r
  end.

Definition digit_of (c : N) : option (uint -> uint) :=
  if c =? 48 then Some D0 else if c =? 49 then Some D1 else if c =? 50 then Some D2
  else if c =? 51 then Some D3 else if c =? 52 then Some D4 else if c =? 53 then Some D5
  else if c =? 54 then Some D6 else if c =? 55 then Some D7 else if c =? 56 then Some D8
  else if c =? 57 then Some D9 else None.

Fixpoint parse_uint (t : text) : option uint :=
  match t with
  | [] => Some Nil
  | c :: r => match digit_of c, parse_uint r with
              | Some dg, Some u => Some (dg u)
              | _, _ => None
              end
  end.

Definition print_int (z : Z) : text :=
  match Z.to_int z with
  | Decimal.Pos u => print_uint u
  | Decimal.Neg u => MINUS :: print_uint u
  end.

(* an optional minus sign and at least one ASCII digit *)
Definition parse_int (t : text) : option Z :=
  match t with
  | [] => None
  | c :: r =>
      if c =? MINUS
      then match r with
           | [] => None
           | _ :: _ => option_map (fun u => Z.of_int (Decimal.Neg u)) (parse_uint r)
           end
      else option_map (fun u => Z.of_int (Decimal.Pos u)) (parse_uint t)
  end.

Definition is_int_char (c : N) : bool := (c =? MINUS) || ((48 <=? c) && (c <=? 57)).

(* ---------- booleans: str(bool) and the comparison with the literal of __parse_bool ---------- *)
Definition TRUE_TEXT : text := [84; 114; 117; 101].
Definition FALSE_TEXT : text := [70; 97; 108; 115; 101].
Definition print_bool (b : bool) : text := if b then TRUE_TEXT else FALSE_TEXT.
Definition parse_bool (true_text : text) (t : text) : bool := text_eqb t true_text.

(* ---------- predecessor ids: sep.join(str(id)) and [int(v) for v in cell.split(sep)] ---------- *)
Fixpoint join_with (sep : N) (l : list text) : text :=
  match l with
  | [] => []
  | x :: r => match r with [] => x | _ :: _ => x ++ sep :: join_with sep r end
  end.

Fixpoint split_at (sep : N) (cur : text) (t : text) : list text :=
  match t with
  | [] => [rev cur]
  | c :: r => if c =? sep then rev cur :: split_at sep [] r else split_at sep (c :: cur) r
  end.

Definition print_preds (sep : N) (l : list Z) : text := join_with sep (map print_int l).

Fixpoint all_some {A} (l : list (option A)) : option (list A) :=
  match l with
  | [] => Some []
  | Some x :: r => option_map (cons x) (all_some r)
  | None :: _ => None
  end.

Definition parse_preds (sep : N) (t : text) : option (list Z) :=
  match t with
  | [] => Some []
  | _ :: _ => all_some (map parse_int (split_at sep [] t))
  end.

(* ---------- dates: days since 1970-01-01 <-> (year, month, day), proleptic Gregorian ---------- *)
Open Scope Z_scope.

Definition civil_of_days (z0 : Z) : Z * Z * Z :=
  let z := z0 + 719468 in
  let era := z / 146097 in
  let doe := z - era * 146097 in
  let yoe := (doe - doe / 1460 + doe / 36524 - doe / 146096) / 365 in
  let doy := doe - (365 * yoe + yoe / 4 - yoe / 100) in
  let mp := (5 * doy + 2) / 153 in
  let d := doy - (153 * mp + 2) / 5 + 1 in
  let m := if mp <? 10 then mp + 3 else mp - 9 in
  let y := yoe + era * 400 + (if m <=? 2 then 1 else 0) in
  (y, m, d).

Definition days_of_civil (y0 m d : Z) : Z :=
  let y := if m <=? 2 then y0 - 1 else y0 in
  let era := y / 400 in
  let yoe := y - era * 400 in
  let mp := if 2 <? m then m - 3 else m + 9 in
  let doy := (153 * mp + 2) / 5 + d - 1 in
  let doe := yoe * 365 + yoe / 4 - yoe / 100 + doy in
  era * 146097 + doe - 719468.

Definition is_leap (y : Z) : bool := ((y mod 4 =? 0) && negb (y mod 100 =? 0)) || (y mod 400 =? 0).

Definition days_in_month (y m : Z) : Z :=
  if m =? 2 then (if is_leap y then 29 else 28)
  else if (m =? 4) || (m =? 6) || (m =? 9) || (m =? 11) then 30 else 31.

(* format strings of strftime/strptime: literal characters and the directives %d %m %y %Y %% *)
Inductive fitem := FLit (c : N) | FDay | FMonth | FYear2 | FYear4 | FBad.

Fixpoint parse_format (t : text) : list fitem :=
  match t with
  | [] => []
  | c :: r =>
      if (c =? 37)%N
      then match r with
           | [] => [FBad]
           | k :: r' =>
               (if (k =? 100)%N then FDay else if (k =? 109)%N then FMonth else if (k =? 121)%N then FYear2
                else if (k =? 89)%N then FYear4 else if (k =? 37)%N then FLit 37%N else FBad) :: parse_format r'
           end
      else FLit c :: parse_format r
  end.

Definition format_ok (items : list fitem) : bool :=
  forallb (fun i => match i with FBad => false | _ => true end) items.

Definition digit_char (n : Z) : N := (48 + Z.to_N n)%N.
Definition two_digits (n : Z) : text := [digit_char (n / 10 mod 10); digit_char (n mod 10)].
Definition four_digits (n : Z) : text :=
  [digit_char (n / 1000 mod 10); digit_char (n / 100 mod 10); digit_char (n / 10 mod 10); digit_char (n mod 10)].

(* strftime for a date (time of day 00:00:00) *)
Definition format_item (ymd : Z * Z * Z) (i : fitem) : text :=
  let '(y, m, d) := ymd in
  match i with
  | FLit c => [c]
  | FDay => two_digits d
  | FMonth => two_digits m
  | FYear2 => two_digits (y mod 100)
  | FYear4 => four_digits y
  | FBad => []
  end.

Definition format_date (items : list fitem) (day : Z) : text :=
  flat_map (format_item (civil_of_days day)) items.

(* strptime, canonical forms only: exactly two digits for %d %m %y, four for %Y *)
Definition digit_val (c : N) : option Z :=
  if ((48 <=? c) && (c <=? 57))%N then Some (Z.of_N c - 48) else None.

Fixpoint take_digits (n : nat) (t : text) (acc : Z) : option (Z * text) :=
  match n with
  | O => Some (acc, t)
  | S n' => match t with
            | [] => None
            | c :: r => match digit_val c with
                        | Some v => take_digits n' r (acc * 10 + v)
                        | None => None
                        end
            end
  end.

(* year, month, day found so far (strptime defaults: 1900-01-01) *)
Fixpoint scan_date (items : list fitem) (t : text) (y m d : Z) : option (Z * Z * Z) :=
  match items with
  | [] => match t with [] => Some (y, m, d) | _ :: _ => None end   (* unconverted data remains *)
  | i :: items' =>
      match i with
      | FLit c => match t with
                  | c' :: r => if (c' =? c)%N then scan_date items' r y m d else None
                  | [] => None
                  end
      | FDay => match take_digits 2 t 0 with Some (v, r) => scan_date items' r y m v | None => None end
      | FMonth => match take_digits 2 t 0 with Some (v, r) => scan_date items' r y v d | None => None end
      | FYear2 => match take_digits 2 t 0 with
                  | Some (v, r) => scan_date items' r (if v <=? 68 then 2000 + v else 1900 + v) m d
                  | None => None
                  end
      | FYear4 => match take_digits 4 t 0 with Some (v, r) => scan_date items' r v m d | None => None end
      | FBad => None
      end
  end.

Definition parse_date (items : list fitem) (t : text) : option Z :=
  match scan_date items t 1900 1 1 with
  | Some (y, m, d) =>
      if (1 <=? y) && (y <=? 9999) && (1 <=? m) && (m <=? 12) && (1 <=? d) && (d <=? days_in_month y m)
      then Some (days_of_civil y m d) else None
  | None => None
  end.

(* the dates the property speaks about: 1969-01-01 .. 2068-12-31, the window of %y *)
Definition date_lo : Z := -365.
Definition date_hi : Z := 36160.      (* 2069-01-01, exclusive *)

(* str(datetime) of a midnight datetime and datetime.fromisoformat of that form: the cell of
   the min_start column *)
Definition iso_format : text :=
  [37; 89; 45; 37; 109; 45; 37; 100; 32; 48; 48; 58; 48; 48; 58; 48; 48]%N.   (* %Y-%m-%d 00:00:00 *)
