(* C13 - hand-written files whose columns or rows are arranged differently from what write_csv produces
   (vocabulary: Csv/Handwritten.v).  read_csv finds the cells by the names of the header, so any header
   with the default columns loads; raws_to_wbs collects children by filtering the whole list, so a child
   row may precede its parent row.  Proofs only. *)
From Coq Require Import Permutation.
From PJ Require Import Base.Prelude Csv.CsvModel Csv.CsvCodecProofs Csv.Fields Csv.FieldsProofs
  Csv.Wbs Csv.WbsSpec Csv.RowsProofs Csv.AssembleProofs Csv.WbsProofs Csv.RoundTrip Csv.Handwritten gen.Consts.
Open Scope Z_scope.

(* ---------- index_of, cell by name ---------- *)
Lemma index_of_None : forall l k, ~ In k l -> index_of k l = None.
Proof.
  induction l as [|x l IH]; intros k Hk; [reflexivity|].
  cbn [index_of]. destruct (text_eqb k x) eqn:E.
  - apply text_eqb_eq in E. subst x. exfalso. apply Hk. left. reflexivity.
  - rewrite IH; [reflexivity|]. intro H. apply Hk. right. exact H.
Qed.

Lemma cell_lookup : forall (f : text -> text) h k, In k h -> cell h k (map f h) = Ok (f k).
Proof.
  intros f h k Hk. unfold cell. destruct (index_of_In h k Hk) as [i [H1 H2]].
  rewrite H1, (map_nth_error f _ _ H2). reflexivity.
Qed.

Lemma cell_missing : forall h k r, ~ In k h -> cell h k r = Crash KeyError.
Proof. intros h k r Hk. unfold cell. rewrite (index_of_None h k Hk). reflexivity. Qed.

Lemma cell_by_name : forall (f : text -> text) h k,
  cell h k (map f h) = if mem_text k h then Ok (f k) else Crash KeyError.
Proof.
  intros f h k. destruct (mem_text k h) eqn:E.
  - apply cell_lookup. apply mem_text_In. exact E.
  - apply cell_missing. apply mem_text_false. exact E.
Qed.

Lemma strip_bom_cell : forall c, strip_cell (BOM :: c) = strip_cell c.
Proof. reflexivity. Qed.

(* ---------- select ---------- *)
Lemma select_map : forall {A B} (f : A -> B) (da : A) (db : B) pi l,
  Forall (fun i => (i < length l)%nat) pi -> select db pi (map f l) = map f (select da pi l).
Proof.
  intros A B f da db pi l H. unfold select. rewrite map_map. apply map_ext_Forall.
  eapply Forall_impl; [|exact H]. intros i Hi. cbv beta.
  rewrite (nth_indep (map f l) db (f da)) by (rewrite map_length; exact Hi). apply map_nth.
Qed.

Lemma select_In : forall {A} (d : A) pi l x,
  Forall (fun i => (i < length l)%nat) pi -> In x (select d pi l) -> In x l.
Proof.
  intros A d pi l x H Hin. unfold select in Hin. apply in_map_iff in Hin as [i [E Hi]]. subst x.
  rewrite Forall_forall in H. apply nth_In. exact (H i Hi).
Qed.

Lemma select_NoDup : forall {A} (d : A) pi l,
  NoDup l -> NoDup pi -> Forall (fun i => (i < length l)%nat) pi -> NoDup (select d pi l).
Proof.
  intros A d pi l Hl Hpi. induction Hpi as [|i pi Hi Hpi IH]; intro H; cbn [select map]; [constructor|].
  inversion H as [|? ? Hil Hr]; subst. constructor; [|exact (IH Hr)].
  intro Hin. apply in_map_iff in Hin as [j [E Hj]]. rewrite Forall_forall in Hr.
  rewrite NoDup_nth in Hl. specialize (Hl j i (Hr j Hj) Hil E). subst j. contradiction.
Qed.

Lemma select_seq_all : forall {A} (d : A) l, select d (seq 0 (length l)) l = l.
Proof.
  intros A d l. unfold select. induction l as [|x l IH]; [reflexivity|].
  cbn [length seq map nth]. f_equal. rewrite <- seq_shift, map_map. exact IH.
Qed.

Lemma nodup_natb_NoDup : forall l, nodup_natb l = true -> NoDup l.
Proof.
  induction l as [|x l IH]; cbn [nodup_natb]; intro H; [constructor|].
  apply andb_true_iff in H as [H1 H2]. constructor; [|exact (IH H2)].
  intro Hin. apply negb_true_iff in H1. assert (E : existsb (Nat.eqb x) l = true).
  { apply existsb_exists. exists x. split; [exact Hin|apply Nat.eqb_refl]. }
  congruence.
Qed.

Lemma ltb_Forall : forall n l, forallb (fun i => Nat.ltb i n) l = true -> Forall (fun i => (i < n)%nat) l.
Proof.
  intros n l H. apply Forall_forall. intros i Hi. rewrite forallb_forall in H. apply Nat.ltb_lt. exact (H i Hi).
Qed.

Lemma col_choice_ok_b_sound : forall n pi, col_choice_ok_b n pi = true -> col_choice_ok n pi.
Proof.
  intros n pi H. unfold col_choice_ok_b in H. apply andb_true_iff in H as [H H3]. apply andb_true_iff in H as [H1 H2].
  split; [exact (nodup_natb_NoDup pi H1)|]. split; [exact (ltb_Forall n pi H2)|].
  intros i Hi. rewrite forallb_forall in H3. specialize (H3 i). rewrite in_seq in H3.
  assert (Hx : existsb (Nat.eqb i) pi = true) by (apply H3; lia).
  apply existsb_exists in Hx as [j [Hj E]]. apply Nat.eqb_eq in E. subst j. exact Hj.
Qed.

Lemma perm_b_sound : forall n pi, perm_b n pi = true -> Permutation pi (seq 0 n).
Proof.
  intros n pi H. unfold perm_b in H. apply andb_true_iff in H as [H H3]. apply andb_true_iff in H as [H1 H2].
  apply Nat.eqb_eq in H3. apply NoDup_Permutation_bis.
  - exact (nodup_natb_NoDup pi H1).
  - rewrite seq_length. lia.
  - intros i Hi. apply in_seq. pose proof (ltb_Forall n pi H2) as Hf. rewrite Forall_forall in Hf.
    specialize (Hf i Hi). lia.
Qed.

Lemma perm_col_choice : forall n pi, (length csv_default_fields <= n)%nat ->
  Permutation pi (seq 0 n) -> col_choice_ok n pi.
Proof.
  intros n pi Hn Hp. split; [|split].
  - apply (Permutation_NoDup (Permutation_sym Hp)). apply seq_NoDup.
  - apply Forall_forall. intros i Hi. apply (Permutation_in _ Hp) in Hi. apply in_seq in Hi. lia.
  - intros i Hi. apply (Permutation_in _ (Permutation_sym Hp)). apply in_seq. lia.
Qed.

Lemma NoDup_app_intro : forall {A} (a b : list A),
  NoDup a -> NoDup b -> (forall x, In x a -> ~ In x b) -> NoDup (a ++ b).
Proof.
  induction a as [|x a IH]; intros b Ha Hb Hd; [exact Hb|].
  inversion Ha as [|? ? Hx Ha']; subst. cbn [app]. constructor.
  - rewrite in_app_iff. intros [H|H]; [contradiction|]. apply (Hd x (or_introl eq_refl) H).
  - apply IH; try assumption. intros y Hy. apply Hd. right. exact Hy.
Qed.

Lemma without_col_NoDup : forall n j, NoDup (without_col n j).
Proof.
  intros n j. unfold without_col. apply NoDup_app_intro; try apply seq_NoDup.
  intros i H1 H2. apply in_seq in H1. apply in_seq in H2. lia.
Qed.

Lemma without_col_In : forall n j i, (j < n)%nat -> (In i (without_col n j) <-> (i < n /\ i <> j)%nat).
Proof.
  intros n j i Hj. unfold without_col. rewrite in_app_iff, !in_seq. lia.
Qed.

(* ---------- with a byte-order mark in front of the first header cell ---------- *)
Section Bom.
Context {F : Type}.
Variable parse_float : text -> option F.
Variable f_neg : F -> bool.

Lemma rows_to_raws_bom_any (c : text) (h : row) (data : list row) :
  rows_to_raws F parse_float ((BOM :: c) :: h) data = rows_to_raws F parse_float (c :: h) data.
Proof. unfold rows_to_raws. cbn [map]. rewrite strip_bom_cell. reflexivity. Qed.

Lemma read_rows_with_bom (rows : list row) :
  read_rows F parse_float f_neg (with_bom rows) = read_rows F parse_float f_neg rows.
Proof.
  destruct rows as [|[|c h] data]; reflexivity.
Qed.

(* a text that the csv reader splits into these rows, with or without the mark *)
Lemma read_model_rows (rows : list row) (s : text) :
  parse_csv delim s = Parsed rows \/ parse_csv delim s = Parsed (with_bom rows) ->
  read_model F parse_float f_neg delim s = Some (read_rows F parse_float f_neg rows).
Proof.
  intros [H|H]; unfold read_model; rewrite H; [reflexivity|]. rewrite read_rows_with_bom. reflexivity.
Qed.
End Bom.

(* ---------- the rows under any header ---------- *)
Section Rows.
Context {F : Type}.
Variable repr_float : F -> text.
Variable parse_float : text -> option F.
Hypothesis float_roundtrip : forall x, parse_float (repr_float x) = Some x.
Hypothesis float_nonempty : forall x, repr_float x <> [].

Notation cell_of := (@Handwritten.cell_of F repr_float).
Notation row_for := (@Handwritten.row_for F repr_float).

Lemma cell_of_id (r : raw F) : cell_of r K_ID = print_int (f_id F (r_f F r)).
Proof. reflexivity. Qed.
Lemma cell_of_name (r : raw F) : cell_of r K_NAME = print_opt_text (f_name F (r_f F r)).
Proof. reflexivity. Qed.
Lemma cell_of_resource (r : raw F) : cell_of r K_RESOURCE = print_opt_text (f_resource F (r_f F r)).
Proof. reflexivity. Qed.
Lemma cell_of_start (r : raw F) : cell_of r K_START = opt_cell (format_date date_items) (f_start F (r_f F r)).
Proof. reflexivity. Qed.
Lemma cell_of_end (r : raw F) : cell_of r K_END = opt_cell (format_date date_items) (f_end F (r_f F r)).
Proof. reflexivity. Qed.
Lemma cell_of_estimate (r : raw F) : cell_of r K_ESTIMATE = opt_cell repr_float (f_estimate F (r_f F r)).
Proof. reflexivity. Qed.
Lemma cell_of_spent (r : raw F) : cell_of r K_SPENT = opt_cell repr_float (f_spent F (r_f F r)).
Proof. reflexivity. Qed.
Lemma cell_of_milestone (r : raw F) : cell_of r K_MILESTONE = print_bool (f_milestone F (r_f F r)).
Proof. reflexivity. Qed.
Lemma cell_of_parent (r : raw F) : cell_of r K_PARENT_ID = opt_cell print_int (r_parent F r).
Proof. reflexivity. Qed.
Lemma cell_of_preds (r : raw F) : cell_of r K_PREDECESSOR_IDS = print_preds pred_sep_char (r_preds F r).
Proof. reflexivity. Qed.

Lemma cell_of_custom (r : raw F) k : mem_text k csv_default_fields = false -> cell_of r k = custom_cell F r k.
Proof.
  intro H. rewrite default_fields_names in H. unfold mem_text in H. cbn [existsb] in H.
  apply orb_false_iff in H as [H0 H]. apply orb_false_iff in H as [H1 H]. apply orb_false_iff in H as [H2 H].
  apply orb_false_iff in H as [H3 H]. apply orb_false_iff in H as [H4 H]. apply orb_false_iff in H as [H5 H].
  apply orb_false_iff in H as [H6 H]. apply orb_false_iff in H as [H7 H]. apply orb_false_iff in H as [H8 H].
  apply orb_false_iff in H as [H9 _].
  unfold Handwritten.cell_of. cbv zeta. rewrite H0, H1, H2, H3, H4, H5, H6, H7, H8, H9. reflexivity.
Qed.

(* the row write_csv writes is the row of the written header, cell by cell *)
Lemma raw_to_row_cells cols (r : raw F) :
  (forall k, In k cols -> mem_text k csv_default_fields = false) ->
  raw_to_row F repr_float cols r = row_for (csv_default_fields ++ cols) r.
Proof.
  intro H. unfold Handwritten.row_for. rewrite map_app. unfold raw_to_row. cbv zeta.
  apply (f_equal2 (@app text)); [reflexivity|].
  apply map_ext_in. intros k Hk. symmetry. apply cell_of_custom. exact (H k Hk).
Qed.

Lemma kwargs_layout h (r : raw F) :
  all_ok (map (fun k => do c <- cell h k (row_for h r); Ok (k, c)) (filter is_custom_col h))
  = Ok (map (fun k => (k, custom_cell F r k)) (filter is_custom_col h)).
Proof.
  apply all_ok_map. intros k Hk. apply filter_In in Hk as [Hk Hc].
  unfold Handwritten.row_for. rewrite (cell_lookup (cell_of r) h k Hk). cbn [bind].
  rewrite cell_of_custom; [reflexivity|]. unfold is_custom_col in Hc. apply negb_true_iff in Hc. exact Hc.
Qed.

Lemma min_start_layout h (r : raw F) : date_ok (f_min_start F (r_f F r)) ->
  match assoc_text K_MIN_START (map (fun k => (k, custom_cell F r k)) (filter is_custom_col h)) with
  | Some c => opt_parse (parse_date iso_date_items) c
  | None => Ok None
  end = Ok (if mem_text K_MIN_START h then f_min_start F (r_f F r) else None).
Proof.
  intro Hd. destruct (mem_text K_MIN_START h) eqn:E.
  - assert (Hin : In K_MIN_START (filter is_custom_col h)).
    { apply filter_In. split; [apply mem_text_In; exact E|]. unfold is_custom_col. rewrite min_start_not_default. reflexivity. }
    rewrite (assoc_text_map (custom_cell F r) _ _ Hin), custom_cell_min_start. apply iso_cell_roundtrip. exact Hd.
  - rewrite assoc_text_None; [reflexivity|]. rewrite map_map. cbn [fst]. rewrite map_id.
    intro Hin. apply filter_In in Hin as [Hin _]. apply mem_text_In in Hin. congruence.
Qed.

(* one row under a header that has all default columns *)
Lemma row_to_raw_layout h (r : raw F) : incl csv_default_fields h -> raw_ok r ->
  row_to_raw F parse_float h (row_for h r) = Ok (map_raw (layout_fields h) r).
Proof.
  intros Hincl (Hstart & Hend & Hmin & _ & Hnames).
  assert (Hin : forall k, In k csv_default_fields -> mem_text k h = true).
  { intros k Hk. apply mem_text_In. apply Hincl. exact Hk. }
  rewrite default_fields_names in Hin. cbn [In] in Hin.
  unfold row_to_raw. cbv zeta.
  change (fun k : text => negb (mem_text k csv_default_fields)) with is_custom_col.
  rewrite kwargs_layout. cbn [bind]. rewrite (min_start_layout h r Hmin). cbn [bind].
  unfold Handwritten.row_for. rewrite !cell_by_name.
  rewrite (Hin K_ID), (Hin K_NAME), (Hin K_RESOURCE), (Hin K_START), (Hin K_END), (Hin K_ESTIMATE),
    (Hin K_SPENT), (Hin K_MILESTONE), (Hin K_PARENT_ID), (Hin K_PREDECESSOR_IDS) by tauto.
  cbn [bind]. rewrite cell_of_id, parse_print_int. cbn [value_error bind].
  rewrite cell_of_start, (date_cell_roundtrip _ Hstart). cbn [bind].
  rewrite cell_of_end, (date_cell_roundtrip _ Hend). cbn [bind].
  rewrite cell_of_estimate, (float_cell_roundtrip repr_float parse_float float_roundtrip float_nonempty). cbn [bind].
  rewrite cell_of_spent, (float_cell_roundtrip repr_float parse_float float_roundtrip float_nonempty). cbn [bind].
  rewrite cell_of_parent, int_cell_roundtrip. cbn [bind].
  rewrite cell_of_preds, preds_cell_roundtrip. cbn [value_error bind].
  rewrite cell_of_milestone, parse_print_bool, cell_of_name, cell_of_resource.
  unfold map_raw, layout_fields, norm_fields. cbv zeta.
  cbn [f_id f_name f_resource f_start f_end f_estimate f_spent f_milestone f_min_start f_custom].
  rewrite (filter_copied_id _ Hnames).
  rewrite (customs_roundtrip r (f_custom F (r_f F r)) (filter is_custom_col h) (custom_cell_not_reserved r)).
  reflexivity.
Qed.

(* one row under a header that lacks a default column: header['...'] raises KeyError (the cells before it
   are read without an exception) *)
Lemma row_to_raw_missing h (r : raw F) : raw_ok r ->
  (exists k, In k csv_default_fields /\ ~ In k h) ->
  row_to_raw F parse_float h (row_for h r) = Crash KeyError.
Proof.
  intros (Hstart & Hend & Hmin & _ & Hnames) [k0 [Hk0 Hnk0]].
  unfold row_to_raw. cbv zeta.
  change (fun k : text => negb (mem_text k csv_default_fields)) with is_custom_col.
  rewrite kwargs_layout. cbn [bind]. rewrite (min_start_layout h r Hmin). cbn [bind].
  unfold Handwritten.row_for. rewrite !cell_by_name.
  destruct (mem_text K_ID h) eqn:E0; [|reflexivity].
  cbn [bind]. rewrite cell_of_id, parse_print_int. cbn [value_error bind].
  destruct (mem_text K_NAME h) eqn:E1; [|reflexivity]. cbn [bind].
  destruct (mem_text K_RESOURCE h) eqn:E2; [|reflexivity]. cbn [bind].
  destruct (mem_text K_START h) eqn:E3; [|reflexivity]. cbn [bind].
  rewrite cell_of_start, (date_cell_roundtrip _ Hstart). cbn [bind].
  destruct (mem_text K_END h) eqn:E4; [|reflexivity]. cbn [bind].
  rewrite cell_of_end, (date_cell_roundtrip _ Hend). cbn [bind].
  destruct (mem_text K_ESTIMATE h) eqn:E5; [|reflexivity]. cbn [bind].
  rewrite cell_of_estimate, (float_cell_roundtrip repr_float parse_float float_roundtrip float_nonempty). cbn [bind].
  destruct (mem_text K_SPENT h) eqn:E6; [|reflexivity]. cbn [bind].
  rewrite cell_of_spent, (float_cell_roundtrip repr_float parse_float float_roundtrip float_nonempty). cbn [bind].
  destruct (mem_text K_MILESTONE h) eqn:E7; [|reflexivity]. cbn [bind].
  destruct (mem_text K_PARENT_ID h) eqn:E8; [|reflexivity]. cbn [bind].
  rewrite cell_of_parent, int_cell_roundtrip. cbn [bind].
  destruct (mem_text K_PREDECESSOR_IDS h) eqn:E9; [|reflexivity].
  exfalso. rewrite default_fields_names in Hk0. cbn [In] in Hk0.
  apply mem_text_In in E0, E1, E2, E3, E4, E5, E6, E7, E8, E9.
  destruct Hk0 as [<-|[<-|[<-|[<-|[<-|[<-|[<-|[<-|[<-|[<-|[]]]]]]]]]]]; contradiction.
Qed.

(* all rows *)
Theorem rows_to_raws_layout h (raws : list (raw F)) : header_ok h -> Forall raw_ok raws ->
  rows_to_raws F parse_float h (map (row_for h) raws) = Ok (map (map_raw (layout_fields h)) raws).
Proof.
  intros (Hnd & Hincl & Hstrip) Hok. unfold rows_to_raws. cbv zeta.
  assert (E : map strip_cell h = h).
  { rewrite <- (map_id h) at 2. apply map_ext_Forall. exact Hstrip. }
  rewrite E, (proj2 (nodup_textb_NoDup h) Hnd). cbn [negb]. rewrite map_map. apply all_ok_map.
  intros r Hr. apply row_to_raw_layout; [exact Hincl|]. rewrite Forall_forall in Hok. exact (Hok r Hr).
Qed.

Theorem rows_to_raws_missing h (r : raw F) (raws : list (raw F)) :
  NoDup h -> Forall (fun k => strip_cell k = k) h -> raw_ok r ->
  (exists k, In k csv_default_fields /\ ~ In k h) ->
  rows_to_raws F parse_float h (map (row_for h) (r :: raws)) = Crash KeyError.
Proof.
  intros Hnd Hstrip Hok Hk. unfold rows_to_raws. cbv zeta.
  assert (E : map strip_cell h = h).
  { rewrite <- (map_id h) at 2. apply map_ext_Forall. exact Hstrip. }
  rewrite E, (proj2 (nodup_textb_NoDup h) Hnd). cbn [negb map all_ok].
  rewrite (row_to_raw_missing h r Hok Hk). reflexivity.
Qed.

(* ---------- a choice of columns of the written layout ---------- *)
Lemma select_rows_layout cols pi (raws : list (raw F)) :
  (forall k, In k cols -> mem_text k csv_default_fields = false) ->
  Forall (fun i => (i < length (csv_default_fields ++ cols))%nat) pi ->
  select_cols pi ((csv_default_fields ++ cols) :: map (raw_to_row F repr_float cols) raws)
  = select [] pi (csv_default_fields ++ cols) :: map (row_for (select [] pi (csv_default_fields ++ cols))) raws.
Proof.
  intros Hc Hpi. unfold select_cols. cbn [map]. f_equal. rewrite map_map. apply map_ext. intro r.
  rewrite (raw_to_row_cells cols r Hc). unfold Handwritten.row_for.
  apply (select_map (cell_of r) ([] : text) ([] : text)). exact Hpi.
Qed.

End Rows.

(* the header chosen from a good written header *)
Lemma select_header_facts : forall names pi,
  NoDup names -> Forall (fun k => strip_cell k = k) names ->
  NoDup pi -> Forall (fun i => (i < length names)%nat) pi ->
  NoDup (select [] pi names) /\ Forall (fun k => strip_cell k = k) (select [] pi names).
Proof.
  intros names pi Hnd Hs Hpi Hlt. split; [apply select_NoDup; assumption|].
  apply Forall_forall. intros k Hk. apply (select_In _ _ _ _ Hlt) in Hk.
  rewrite Forall_forall in Hs. exact (Hs k Hk).
Qed.

Lemma select_header_ok : forall cols pi,
  NoDup (csv_default_fields ++ cols) -> Forall (fun k => strip_cell k = k) (csv_default_fields ++ cols) ->
  col_choice_ok (length (csv_default_fields ++ cols)) pi ->
  header_ok (select [] pi (csv_default_fields ++ cols)).
Proof.
  intros cols pi Hnd Hs (Hpi & Hlt & Hdef).
  destruct (select_header_facts _ pi Hnd Hs Hpi Hlt) as [H1 H2]. split; [exact H1|]. split; [|exact H2].
  intros k Hk. destruct (In_nth _ _ ([] : text) Hk) as [i [Hi E]].
  unfold select. apply in_map_iff. exists i. split; [|exact (Hdef i Hi)].
  rewrite app_nth1 by exact Hi. exact E.
Qed.

(* a position of a default column that is not chosen: its name is not in the header *)
Lemma select_header_lacks : forall cols pi i,
  NoDup (csv_default_fields ++ cols) ->
  Forall (fun i => (i < length (csv_default_fields ++ cols))%nat) pi ->
  (i < length csv_default_fields)%nat -> ~ In i pi ->
  exists k, In k csv_default_fields /\ ~ In k (select [] pi (csv_default_fields ++ cols)).
Proof.
  intros cols pi i Hnd Hlt Hi Hn. exists (nth i csv_default_fields []). split; [apply nth_In; exact Hi|].
  intro Hin. unfold select in Hin. apply in_map_iff in Hin as [j [E Hj]].
  rewrite Forall_forall in Hlt. pose proof (Hlt j Hj) as Hjl.
  rewrite <- (app_nth1 csv_default_fields cols [] Hi) in E.
  rewrite NoDup_nth in Hnd. specialize (Hnd j i Hjl). rewrite app_length in Hnd.
  assert (Eji : j = i) by (apply Hnd; [lia|exact E]). subst j. contradiction.
Qed.

(* ---------- the forest from the TaskRaws in another order ---------- *)
Lemma filter_map_comm : forall {A B} (p : B -> bool) (f : A -> B) l,
  filter p (map f l) = map f (filter (fun x => p (f x)) l).
Proof.
  intros A B p f l. induction l as [|x l IH]; [reflexivity|].
  cbn [map filter]. destruct (p (f x)); cbn [map]; rewrite IH; reflexivity.
Qed.

Section Forest.
Context {F : Type}.
Variable f_neg : F -> bool.

Lemma root_is_same_parent (w : wbs F) (r : raw F) :
  In r (flatten_plain w) -> is_root F (ids (flatten_plain w)) r = same_parent None r.
Proof.
  intro Hr. unfold is_root, same_parent.
  destruct (parents_closed_fl w None r Hr) as [E|[j [E Hj]]]; rewrite E; [reflexivity|].
  apply negb_false_iff. apply mem_z_In. exact Hj.
Qed.

(* raws_to_wbs on the TaskRaws of w in any order that keeps the order of siblings and of roots: w itself,
   so wbs.tasks is the depth-first order of w whatever the order of the rows was *)
Theorem assemble_any_order : forall (w : wbs F) (raws' : list (raw F)),
  graph_ok f_neg (flatten_plain w) -> sibling_order_kept raws' (flatten_plain w) ->
  assemble F f_neg raws' = Ok w.
Proof.
  intros w raws' [Hnd Hall] [Hperm Hfil]. unfold assemble.
  set (all := flatten_plain w) in *.
  change (map (raw_id F) all) with (ids all) in *.
  change (map (raw_id F) raws') with (ids raws').
  assert (Hids : Permutation (ids raws') (ids all)) by (apply Permutation_map; exact Hperm).
  assert (Hnd' : NoDup (ids raws')) by (apply (Permutation_NoDup (Permutation_sym Hids)); exact Hnd).
  rewrite (proj2 (nodup_zb_NoDup (ids raws')) Hnd'). cbn [negb].
  assert (Hin : forall r, In r raws' -> In r all) by (intros r Hr; exact (Permutation_in _ Hperm Hr)).
  rewrite Forall_forall in Hall.
  rewrite existsb_none
    by (apply Forall_forall; intros r Hr; destruct (Hall r (Hin r Hr)) as [_ [_ Hx]]; exact Hx).
  assert (Hmem : forall j, mem_z j (ids raws') = mem_z j (ids all)).
  { intro j. destruct (mem_z j (ids all)) eqn:E.
    - apply mem_z_In. apply mem_z_In in E. exact (Permutation_in _ (Permutation_sym Hids) E).
    - apply mem_z_false. intro H. apply (Permutation_in _ Hids) in H. apply mem_z_In in H. congruence. }
  assert (Hlen : length raws' = length all) by (apply Permutation_length; exact Hperm).
  assert (Hroots : map (build F (length raws') raws') (filter (is_root F (ids raws')) raws') = w).
  { assert (E1 : filter (is_root F (ids raws')) raws' = filter (same_parent None) raws').
    { apply filter_ext_in. intros r Hr. rewrite <- (root_is_same_parent w r (Hin r Hr)).
      unfold is_root. destruct (r_parent F r); [rewrite Hmem|]; reflexivity. }
    assert (E2 : filter (same_parent None) all = filter (is_root F (ids all)) all).
    { apply filter_ext_in. intros r Hr. symmetry. exact (root_is_same_parent w r Hr). }
    rewrite E1, (Hfil None), E2. unfold all at 2. change (flatten_plain w) with (fl None w).
    rewrite filter_root_forest by (intros j Hj; exact Hj).
    rewrite map_map. rewrite <- (map_id w) at 2. apply map_ext_in.
    intros k Hk. apply build_node.
    - intros t Ht. split.
      + change (child_of F (tid t)) with (@same_parent F (Some (tid t))). rewrite (Hfil (Some (tid t))).
        exact (filter_child_forest w k t Hnd Hk Ht).
      + destruct (sub_in_flat t k Ht None) as [p' Hp'].
        destruct (Hall (root_raw p' t) (in_fl None w k _ Hk Hp')) as [Hps _]. exact Hps.
    - rewrite Hlen. change (length all) with (length (fl None w)). rewrite <- (forest_size_flat w None).
      exact (tree_size_le_forest w k Hk). }
  rewrite Hroots, Hlen.
  change (length all) with (length (fl None w)). rewrite <- (forest_size_flat w None).
  rewrite Nat.eqb_refl. cbn [negb].
  replace (forallb (fun r => forallb (fun p => mem_z p (ids raws')) (r_preds F r)) raws') with true.
  - reflexivity.
  - symmetry. apply forallb_forall. intros r Hr. apply forallb_forall. intros p Hp.
    rewrite Hmem. apply mem_z_In. destruct (Hall r (Hin r Hr)) as [_ [Hi _]].
    rewrite Forall_forall in Hi. exact (Hi p Hp).
Qed.

(* ---- functions on the fields that leave id and amounts alone ---- *)
Definition keeps_graph_fields (g : fields F -> fields F) : Prop :=
  forall f, f_id F (g f) = f_id F f /\ f_estimate F (g f) = f_estimate F f /\ f_spent F (g f) = f_spent F f.

Lemma map_raw_flat g : (forall f, f_id F (g f) = f_id F f) -> forall (t : tree F) p,
  map (map_raw g) (flat_plain p t) = flat_plain p (map_tree g t).
Proof.
  intros Hg t. induction t as [f ps ks IH] using tree_ind'. intro p.
  cbn [flat_plain map_tree map]. unfold map_raw at 1. cbn [r_f r_parent r_preds]. f_equal.
  rewrite Hg. rewrite map_flat_map, flat_map_map. apply flat_map_ext_Forall.
  eapply Forall_impl; [|exact IH]. intros k Hk. apply Hk.
Qed.

Lemma map_raw_flatten g (w : wbs F) : (forall f, f_id F (g f) = f_id F f) ->
  map (map_raw g) (flatten_plain w) = flatten_plain (map (map_tree g) w).
Proof.
  intro Hg. unfold flatten_plain. rewrite map_flat_map, flat_map_map. apply flat_map_ext_Forall.
  apply Forall_forall. intros t _. apply map_raw_flat. exact Hg.
Qed.

Lemma graph_ok_map_raw g (raws : list (raw F)) :
  keeps_graph_fields g -> graph_ok f_neg raws -> graph_ok f_neg (map (map_raw g) raws).
Proof.
  intros Hg [Hn Hf]. unfold graph_ok.
  assert (E : map (raw_id F) (map (map_raw g) raws) = map (raw_id F) raws).
  { rewrite map_map. apply map_ext. intro r. unfold raw_id, map_raw. cbn [r_f]. apply Hg. }
  rewrite E. split; [assumption|]. rewrite Forall_map. eapply Forall_impl; [|exact Hf].
  intros r (H1 & H2 & H3). split; [exact H1|]. split; [exact H2|].
  unfold negative_amount, map_raw in *. cbn [r_f]. destruct (Hg (r_f F r)) as (_ & He & Hs).
  rewrite He, Hs. exact H3.
Qed.

Lemma sibling_order_map_raw g (raws' raws : list (raw F)) :
  sibling_order_kept raws' raws -> sibling_order_kept (map (map_raw g) raws') (map (map_raw g) raws).
Proof.
  intros [Hp Hf]. split; [apply Permutation_map; exact Hp|]. intro p.
  rewrite !filter_map_comm.
  assert (E : forall l : list (raw F), filter (fun x => same_parent p (map_raw g x)) l = filter (same_parent p) l).
  { intro l. apply filter_ext. intro r. destruct p; reflexivity. }
  rewrite !E, (Hf p). reflexivity.
Qed.

Theorem assemble_any_order_map g (w : wbs F) (raws' : list (raw F)) :
  keeps_graph_fields g -> graph_ok f_neg (flatten_plain w) -> sibling_order_kept raws' (flatten_plain w) ->
  assemble F f_neg (map (map_raw g) raws') = Ok (map (map_tree g) w).
Proof.
  intros Hg Hgr Hs. assert (Hid : forall f, f_id F (g f) = f_id F f) by (intro f; apply Hg).
  apply assemble_any_order.
  - rewrite <- (map_raw_flatten g w Hid). apply graph_ok_map_raw; assumption.
  - rewrite <- (map_raw_flatten g w Hid). apply sibling_order_map_raw. exact Hs.
Qed.

Lemma sibling_order_refl (raws : list (raw F)) : sibling_order_kept raws raws.
Proof. split; [apply Permutation_refl|reflexivity]. Qed.

(* ---- functions on the fields, tree by tree ---- *)
Lemma map_tree_ext g1 g2 : forall (t : tree F) p,
  Forall (fun r => g1 (r_f F r) = g2 (r_f F r)) (flat_plain p t) -> map_tree g1 t = map_tree g2 t.
Proof.
  intro t. induction t as [f ps ks IH] using tree_ind'. intros p H.
  cbn [flat_plain map_tree] in *. inversion H as [|? ? Hr Hk]; subst. cbn [r_f] in Hr. rewrite Hr. f_equal.
  apply map_ext_Forall. apply Forall_flat_map in Hk.
  rewrite Forall_forall in IH, Hk |- *. intros k Hin. eapply IH; [assumption|apply Hk; assumption].
Qed.

Lemma map_forest_ext g1 g2 (w : wbs F) :
  Forall (fun r => g1 (r_f F r) = g2 (r_f F r)) (flatten_plain w) -> map (map_tree g1) w = map (map_tree g2) w.
Proof.
  intro H. unfold flatten_plain in H. apply Forall_flat_map in H. apply map_ext_Forall.
  eapply Forall_impl; [|exact H]. intros t Ht. exact (map_tree_ext g1 g2 t None Ht).
Qed.

Lemma map_tree_id : forall t : tree F, map_tree (fun f => f) t = t.
Proof.
  intro t. induction t as [f ps ks IH] using tree_ind'. cbn [map_tree]. f_equal.
  rewrite <- (map_id ks) at 2. apply map_ext_Forall. exact IH.
Qed.

Lemma map_forest_id (w : wbs F) : map (map_tree (fun f : fields F => f)) w = w.
Proof. rewrite <- (map_id w) at 2. apply map_ext. exact map_tree_id. Qed.

Lemma map_tree_equiv2 g1 g2 : forall (t : tree F) p,
  Forall (fun r => fields_equiv (g1 (r_f F r)) (g2 (r_f F r))) (flat_plain p t) ->
  tree_equiv (map_tree g1 t) (map_tree g2 t).
Proof.
  intro t. induction t as [f ps ks IH] using tree_ind'. intros p H.
  cbn [flat_plain map_tree] in *. inversion H as [|? ? Hr Hk]; subst. cbn [r_f] in Hr.
  constructor; [exact Hr|].
  apply Forall_flat_map in Hk. clear H Hr. induction ks as [|k ks IHks]; cbn [map]; constructor.
  - inversion IH; subst. inversion Hk; subst. eauto.
  - inversion IH; subst. inversion Hk; subst. apply IHks; assumption.
Qed.

Lemma map_forest_equiv2 g1 g2 (w : wbs F) :
  Forall (fun r => fields_equiv (g1 (r_f F r)) (g2 (r_f F r))) (flatten_plain w) ->
  wbs_equiv (map (map_tree g1) w) (map (map_tree g2) w).
Proof.
  intro H. unfold flatten_plain in H. apply Forall_flat_map in H. unfold wbs_equiv.
  induction w as [|t w IH]; cbn [map]; constructor.
  - inversion H; subst. eapply map_tree_equiv2; eassumption.
  - inversion H; subst. apply IH; assumption.
Qed.

End Forest.

(* ---------- association lists under a filter on the names ---------- *)
Lemma assoc_text_filter : forall {A} (p : text -> bool) (l : list (text * A)) k,
  assoc_text k (filter (fun kv => p (fst kv)) l) = if p k then assoc_text k l else None.
Proof.
  intros A p l k. induction l as [|[k' v] l IH]; [destruct (p k); reflexivity|].
  cbn [filter fst]. destruct (p k') eqn:Ep.
  - cbn [assoc_text]. destruct (text_eqb k k') eqn:E.
    + apply text_eqb_eq in E. subst k'. rewrite Ep. reflexivity.
    + exact IH.
  - rewrite IH. cbn [assoc_text]. destruct (text_eqb k k') eqn:E; [|reflexivity].
    apply text_eqb_eq in E. subst k'. rewrite Ep. reflexivity.
Qed.

Lemma custom_value_filter : forall (p : text -> bool) cs k,
  custom_value k (filter (fun kv => p (fst kv)) cs) = if p k then custom_value k cs else [].
Proof. intros p cs k. unfold custom_value. rewrite assoc_text_filter. destruct (p k); reflexivity. Qed.

Lemma map_fix_Forall : forall {A} (f : A -> A) l, map f l = l -> Forall (fun x => f x = x) l.
Proof.
  intros A f l. induction l as [|x l IH]; intro H; constructor.
  - cbn [map] in H. injection H as H _. exact H.
  - apply IH. cbn [map] in H. injection H as _ H. exact H.
Qed.

Lemma select_covers : forall {A} (d : A) pi l i, In i pi -> In (nth i l d) (select d pi l).
Proof. intros A d pi l i H. unfold select. apply (in_map (fun i => nth i l d)). exact H. Qed.

(* ---------- the meaning of a file with fewer columns ---------- *)
Section Meaning.
Context {F : Type}.

Lemma layout_fields_equiv_keep h (f : fields F) :
  Forall custom_name_ok (map fst (f_custom F f)) -> fields_equiv (layout_fields h f) (keep_fields h f).
Proof.
  intro Hn. unfold fields_equiv, layout_fields, keep_fields, norm_fields. cbv zeta.
  cbn [f_id f_name f_resource f_start f_end f_estimate f_spent f_milestone f_min_start f_custom].
  repeat split; try apply opt_text_roundtrip.
  intro k. rewrite (filter_copied_id _ Hn).
  change (fun k0 : text => negb (mem_text k0 csv_task_reserved)) with not_reserved.
  rewrite (custom_value_filter (fun k' => mem_text k' h)).
  set (L := filter not_reserved (filter is_custom_col h)).
  destruct (in_dec text_eq_dec k L) as [Hk|Hk].
  - rewrite (custom_value_map_in (fun k' => custom_value k' (f_custom F f)) L k Hk).
    apply filter_In in Hk as [Hk _]. apply filter_In in Hk as [Hk _].
    rewrite (proj2 (mem_text_In k h) Hk). reflexivity.
  - rewrite (custom_value_map_out (fun k' => custom_value k' (f_custom F f)) L k Hk).
    destruct (mem_text k h) eqn:E; [|reflexivity].
    symmetry. apply custom_value_absent. intro Hkf. apply Hk.
    rewrite Forall_forall in Hn. destruct (Hn k Hkf) as (_ & Hd & Hres & _).
    apply filter_In. split.
    + apply filter_In. split; [apply mem_text_In; exact E|]. unfold is_custom_col. rewrite Hd. reflexivity.
    + unfold not_reserved. rewrite Hres. reflexivity.
Qed.

Lemma keep_fields_all h (f : fields F) :
  mem_text K_MIN_START h = true -> (forall k, In k (map fst (f_custom F f)) -> In k h) -> keep_fields h f = f.
Proof.
  intros Hm Hk. destruct f as [i n r s e es sp m ms cs]. unfold keep_fields.
  cbn [f_id f_name f_resource f_start f_end f_estimate f_spent f_milestone f_min_start f_custom] in *.
  rewrite Hm. f_equal. apply filter_all. apply Forall_forall. intros kv Hkv.
  apply mem_text_In. apply Hk. apply in_map. exact Hkv.
Qed.

Lemma keep_fields_drop h k names (f : fields F) :
  ~ In k h -> (forall k', In k' names -> k' <> k -> In k' h) -> In K_MIN_START names ->
  (forall k', In k' (map fst (f_custom F f)) -> In k' names) ->
  keep_fields h f = drop_field k f.
Proof.
  intros Hk Hall Hms Hkeys. unfold keep_fields, drop_field. f_equal.
  - destruct (text_eqb k K_MIN_START) eqn:E.
    + apply text_eqb_eq in E. subst k. rewrite (proj2 (mem_text_false K_MIN_START h) Hk). reflexivity.
    + assert (Hin : In K_MIN_START h).
      { apply Hall; [exact Hms|]. intro E'. rewrite <- E', text_eqb_refl in E. discriminate E. }
      rewrite (proj2 (mem_text_In K_MIN_START h) Hin). reflexivity.
  - apply filter_ext_in. intros kv Hkv. destruct (text_eqb (fst kv) k) eqn:E; cbn [negb].
    + apply text_eqb_eq in E. rewrite E. apply mem_text_false. exact Hk.
    + apply mem_text_In. apply Hall; [apply Hkeys; apply in_map; exact Hkv|].
      intro E'. rewrite E', text_eqb_refl in E. discriminate E.
Qed.

Lemma layout_equiv_keep h (w : wbs F) : Forall raw_ok (flatten_plain w) ->
  wbs_equiv (map (map_tree (layout_fields h)) w) (keep_cols h w).
Proof.
  intro Hr. apply map_forest_equiv2. eapply Forall_impl; [|exact Hr].
  intros r (_ & _ & _ & _ & Hn). apply layout_fields_equiv_keep. exact Hn.
Qed.

Lemma keep_cols_all h (w : wbs F) : Forall raw_ok (flatten_plain w) ->
  incl (custom_columns F (flatten_plain w)) h -> keep_cols h w = w.
Proof.
  intros Hr Hincl. unfold keep_cols. rewrite <- (map_forest_id w) at 2. apply map_forest_ext.
  apply Forall_forall. intros r Hin. apply keep_fields_all.
  - apply mem_text_In. apply Hincl. exact (custom_columns_min_start _ r Hin).
  - intros k Hk. apply Hincl. exact (custom_columns_keys _ r k Hr Hin Hk).
Qed.

Lemma keep_cols_drop h k (w : wbs F) : Forall raw_ok (flatten_plain w) ->
  ~ In k h -> (forall k', In k' (custom_columns F (flatten_plain w)) -> k' <> k -> In k' h) ->
  keep_cols h w = drop_column k w.
Proof.
  intros Hr Hk Hall. unfold keep_cols, drop_column. apply map_forest_ext.
  apply Forall_forall. intros r Hin.
  apply (keep_fields_drop h k (custom_columns F (flatten_plain w))); try assumption.
  - exact (custom_columns_min_start _ r Hin).
  - intros k' Hk'. exact (custom_columns_keys _ r k' Hr Hin Hk').
Qed.

(* the header write_csv writes *)
Lemma written_header_facts (raws : list (raw F)) : Forall raw_ok raws ->
  (forall k, In k (custom_columns F raws) -> mem_text k csv_default_fields = false)
  /\ NoDup (csv_default_fields ++ custom_columns F raws)
  /\ Forall (fun k => strip_cell k = k) (csv_default_fields ++ custom_columns F raws).
Proof.
  intro Hok.
  assert (Hc : forall k, In k (custom_columns F raws) -> mem_text k csv_default_fields = false /\ strip_cell k = k).
  { intros k Hk. exact (custom_columns_ok raws k Hok Hk). }
  split; [intros k Hk; apply (Hc k Hk)|]. split.
  - apply nodup_textb_NoDup. apply header_nodup; [apply custom_columns_NoDup|]. intros k Hk. apply (Hc k Hk).
  - apply map_fix_Forall. apply header_strip. intros k Hk. apply (Hc k Hk).
Qed.

Lemma written_header_ok (raws : list (raw F)) : Forall raw_ok raws ->
  header_ok (csv_default_fields ++ custom_columns F raws).
Proof.
  intro Hok. destruct (written_header_facts raws Hok) as (_ & Hnd & Hs).
  split; [exact Hnd|]. split; [|exact Hs]. intros k Hk. apply in_or_app. left. exact Hk.
Qed.

(* with the min_start column, read_csv builds the normalised fields for the custom columns of the header *)
Lemma layout_fields_norm h (f : fields F) : mem_text K_MIN_START h = true ->
  layout_fields h f = norm_fields F (filter is_custom_col h) f.
Proof. intro H. unfold layout_fields. cbv zeta. rewrite H. reflexivity. Qed.

Lemma layout_forest_norm h (w : wbs F) :
  Forall (fun r : raw F => NoDup (r_preds F r)) (flatten_plain w) ->
  incl (custom_columns F (flatten_plain w)) h ->
  map (map_tree (layout_fields h)) w = map (norm_tree F (filter is_custom_col h)) w.
Proof.
  intros Hnd Hincl.
  transitivity (map (map_tree (norm_fields F (filter is_custom_col h))) w).
  - apply map_forest_ext. apply Forall_forall. intros r Hin. apply layout_fields_norm.
    apply mem_text_In. apply Hincl. exact (custom_columns_min_start _ r Hin).
  - symmetry. apply map_ext_Forall. unfold flatten_plain in Hnd. apply Forall_flat_map in Hnd.
    eapply Forall_impl; [|exact Hnd]. intros t Ht. exact (norm_tree_map _ t None Ht).
Qed.

End Meaning.

(* ---------- files ---------- *)
Section Files.
Context {F : Type}.
Variable repr_float : F -> text.
Variable parse_float : text -> option F.
Variable f_neg : F -> bool.
Hypothesis float_roundtrip : forall x, parse_float (repr_float x) = Some x.
Hypothesis float_nonempty : forall x, repr_float x <> [].

Notation wbs_ok := (@wbs_ok F f_neg).
Notation read := (read_model F parse_float f_neg delim).
Notation row_for := (@Handwritten.row_for F repr_float).

(* any accepted header, the rows in any order that keeps the siblings in order *)
Theorem read_rows_layout (w : wbs F) h (raws' : list (raw F)) :
  wbs_ok w -> header_ok h -> sibling_order_kept raws' (flatten_plain w) ->
  read_rows F parse_float f_neg (h :: map (row_for h) raws') = Ok (map (map_tree (layout_fields h)) w).
Proof.
  intros [Hr Hg] Hh Hs. unfold read_rows.
  rewrite (rows_to_raws_layout repr_float parse_float float_roundtrip float_nonempty h raws' Hh).
  - cbn [bind]. apply assemble_any_order_map; try assumption. intro f. repeat split.
  - apply Forall_forall. intros r Hin. rewrite Forall_forall in Hr. apply Hr.
    destruct Hs as [Hp _]. exact (Permutation_in _ Hp Hin).
Qed.

(* the rows of the file: a choice pi of the columns of the written layout, the tasks in the order raws' *)
Definition file_rows (w : wbs F) (pi : list nat) (raws' : list (raw F)) : list row :=
  let cols := custom_columns F (flatten F w) in
  select_cols pi ((csv_default_fields ++ cols) :: map (raw_to_row F repr_float cols) raws').

Definition file_header (w : wbs F) (pi : list nat) : list text :=
  select [] pi (csv_default_fields ++ custom_columns F (flatten F w)).

Definition splits_into (s : text) (rows : list row) : Prop :=
  parse_csv delim s = Parsed rows \/ parse_csv delim s = Parsed (with_bom rows).

Lemma file_rows_layout (w : wbs F) pi (raws' : list (raw F)) :
  Forall raw_ok (flatten_plain w) ->
  Forall (fun i => (i < length (csv_default_fields ++ custom_columns F (flatten F w)))%nat) pi ->
  file_rows w pi raws' = file_header w pi :: map (row_for (file_header w pi)) raws'.
Proof.
  intros Hr Hpi. unfold file_rows, file_header. cbv zeta. rewrite (flatten_is_plain w Hr) in *.
  destruct (written_header_facts _ Hr) as (Hc & _ & _).
  apply select_rows_layout; assumption.
Qed.

Theorem any_layout_exact (w : wbs F) pi (raws' : list (raw F)) :
  wbs_ok w -> sibling_order_kept raws' (flatten F w) ->
  col_choice_ok (length (csv_default_fields ++ custom_columns F (flatten F w))) pi ->
  forall s, splits_into s (file_rows w pi raws') ->
  read s = Some (Ok (map (map_tree (layout_fields (file_header w pi))) w)).
Proof.
  intros Hok Hs Hpi s Hsplit. pose proof Hok as [Hr Hg].
  rewrite (read_model_rows parse_float f_neg _ s Hsplit). f_equal.
  rewrite (file_rows_layout w pi raws' Hr) by apply Hpi.
  apply read_rows_layout; [exact Hok| |rewrite <- (flatten_is_plain w Hr); exact Hs].
  unfold file_header. rewrite (flatten_is_plain w Hr) in *.
  destruct (written_header_facts _ Hr) as (_ & Hnd & Hstrip).
  apply select_header_ok; assumption.
Qed.

(* columns in any order, optional columns left out, rows in any order that keeps the siblings in order *)
Theorem any_layout (w : wbs F) pi (raws' : list (raw F)) :
  wbs_ok w -> sibling_order_kept raws' (flatten F w) ->
  col_choice_ok (length (csv_default_fields ++ custom_columns F (flatten F w))) pi ->
  forall s, splits_into s (file_rows w pi raws') ->
  exists w1, read s = Some (Ok w1) /\ wbs_equiv w1 (keep_cols (file_header w pi) w).
Proof.
  intros Hok Hs Hpi s Hsplit. exists (map (map_tree (layout_fields (file_header w pi))) w). split.
  - exact (any_layout_exact w pi raws' Hok Hs Hpi s Hsplit).
  - apply layout_equiv_keep. apply Hok.
Qed.

(* ---- all columns, in any order ---- *)
Lemma perm_header_covers (w : wbs F) pi :
  Forall raw_ok (flatten_plain w) ->
  Permutation pi (seq 0 (length (csv_default_fields ++ custom_columns F (flatten F w)))) ->
  incl (custom_columns F (flatten_plain w)) (file_header w pi).
Proof.
  intros Hr Hp k Hk. unfold file_header. rewrite (flatten_is_plain w Hr) in *.
  set (names := csv_default_fields ++ custom_columns F (flatten_plain w)) in *.
  assert (Hin : In k names) by (apply in_or_app; right; exact Hk).
  destruct (In_nth _ _ ([] : text) Hin) as [i [Hi E]]. rewrite <- E. apply select_covers.
  apply (Permutation_in _ (Permutation_sym Hp)). apply in_seq. split; [lia|exact Hi].
Qed.

Lemma perm_choice_ok (w : wbs F) pi :
  Permutation pi (seq 0 (length (csv_default_fields ++ custom_columns F (flatten F w)))) ->
  col_choice_ok (length (csv_default_fields ++ custom_columns F (flatten F w))) pi.
Proof. intro Hp. apply perm_col_choice; [rewrite app_length; lia|exact Hp]. Qed.

Theorem columns_any_order (w : wbs F) pi (raws' : list (raw F)) :
  wbs_ok w -> sibling_order_kept raws' (flatten F w) ->
  Permutation pi (seq 0 (length (csv_default_fields ++ custom_columns F (flatten F w)))) ->
  forall s, splits_into s (file_rows w pi raws') ->
  exists w1, read s = Some (Ok w1) /\ wbs_equiv w1 w.
Proof.
  intros Hok Hs Hp s Hsplit. pose proof Hok as [Hr Hg].
  destruct (any_layout w pi raws' Hok Hs (perm_choice_ok w pi Hp) s Hsplit) as [w1 [H1 H2]].
  exists w1. split; [exact H1|].
  rewrite (keep_cols_all _ w Hr (perm_header_covers w pi Hr Hp)) in H2. exact H2.
Qed.

(* exactly: the custom attributes of the re-read tasks come in the order of the custom columns of the header;
   when that order is the written one the WBS is the one read from the file write_csv writes *)
Theorem columns_any_order_exact (w : wbs F) pi (raws' : list (raw F)) :
  wbs_ok w -> sibling_order_kept raws' (flatten F w) ->
  Permutation pi (seq 0 (length (csv_default_fields ++ custom_columns F (flatten F w)))) ->
  forall s, splits_into s (file_rows w pi raws') ->
  read s = Some (Ok (map (norm_tree F (filter is_custom_col (file_header w pi))) w))
  /\ (filter is_custom_col (file_header w pi) = custom_columns F (flatten F w) ->
      read s = Some (Ok (normalize F w))).
Proof.
  intros Hok Hs Hp s Hsplit. pose proof Hok as [Hr Hg].
  pose proof (any_layout_exact w pi raws' Hok Hs (perm_choice_ok w pi Hp) s Hsplit) as H.
  rewrite layout_forest_norm in H.
  - split; [exact H|]. intro E. rewrite E in H. exact H.
  - destruct Hg as [_ Hg]. eapply Forall_impl; [|exact Hg]. intros r Hx. apply Hx.
  - exact (perm_header_covers w pi Hr Hp).
Qed.

(* ---- an optional column left out ---- *)
Theorem missing_optional_column (w : wbs F) j (raws' : list (raw F)) :
  wbs_ok w -> sibling_order_kept raws' (flatten F w) ->
  let names := csv_default_fields ++ custom_columns F (flatten F w) in
  (length csv_default_fields <= j < length names)%nat ->
  forall s, splits_into s (file_rows w (without_col (length names) j) raws') ->
  exists w1, read s = Some (Ok w1) /\ wbs_equiv w1 (drop_column (nth j names []) w).
Proof.
  intros Hok Hs names Hj s Hsplit. pose proof Hok as [Hr Hg].
  assert (Hpi : col_choice_ok (length names) (without_col (length names) j)).
  { split; [apply without_col_NoDup|]. split.
    - apply Forall_forall. intros i Hi. apply without_col_In in Hi; lia.
    - intros i Hi. apply without_col_In; lia. }
  destruct (any_layout w _ raws' Hok Hs Hpi s Hsplit) as [w1 [H1 H2]].
  exists w1. split; [exact H1|].
  rewrite (keep_cols_drop _ (nth j names []) w Hr) in H2; [exact H2| |].
  - unfold file_header. fold names. intro Hin. unfold select in Hin. apply in_map_iff in Hin as [i [E Hi]].
    apply without_col_In in Hi; [|lia].
    assert (Hnd : NoDup names).
    { unfold names. rewrite (flatten_is_plain w Hr). apply (written_header_facts _ Hr). }
    rewrite NoDup_nth in Hnd. assert (Eij : i = j) by (apply Hnd; [lia|lia|exact E]). lia.
  - intros k' Hk' Hne. unfold file_header. fold names.
    assert (Hin : In k' names).
    { unfold names. rewrite (flatten_is_plain w Hr). apply in_or_app. right. exact Hk'. }
    destruct (In_nth _ _ ([] : text) Hin) as [i [Hi E]]. rewrite <- E. apply select_covers.
    apply without_col_In; [lia|]. split; [exact Hi|]. intro Eij. subst i. apply Hne. symmetry. exact E.
Qed.

(* ---- a default column left out: KeyError on the first data row ---- *)
Theorem missing_required_column (w : wbs F) pi (raws' : list (raw F)) :
  wbs_ok w -> w <> [] -> Permutation raws' (flatten F w) ->
  let names := csv_default_fields ++ custom_columns F (flatten F w) in
  NoDup pi -> Forall (fun i => (i < length names)%nat) pi ->
  (exists i, (i < length csv_default_fields)%nat /\ ~ In i pi) ->
  forall s, splits_into s (file_rows w pi raws') ->
  read s = Some (Crash KeyError).
Proof.
  intros Hok Hne Hperm names Hnd Hlt [i [Hi Hni]] s Hsplit. pose proof Hok as [Hr Hg].
  rewrite (read_model_rows parse_float f_neg _ s Hsplit). f_equal.
  rewrite (file_rows_layout w pi raws' Hr) by exact Hlt.
  unfold file_header. fold names. unfold names in *. rewrite (flatten_is_plain w Hr) in *.
  destruct (written_header_facts _ Hr) as (_ & Hnames & Hstrip).
  destruct (select_header_facts _ pi Hnames Hstrip Hnd Hlt) as [H1 H2].
  destruct raws' as [|r raws'].
  - exfalso. apply Hne. apply flatten_plain_nil_iff. apply Permutation_nil. exact Hperm.
  - unfold read_rows.
    rewrite (rows_to_raws_missing repr_float parse_float float_roundtrip float_nonempty _ r raws' H1 H2).
    + reflexivity.
    + rewrite Forall_forall in Hr. apply Hr. apply (Permutation_in _ Hperm). left. reflexivity.
    + exact (select_header_lacks _ pi i Hnames Hlt Hi Hni).
Qed.

(* ---- the rows in another order, the written columns ---- *)
Theorem rows_any_order (w : wbs F) (raws' : list (raw F)) :
  wbs_ok w -> sibling_order_kept raws' (flatten F w) ->
  let cols := custom_columns F (flatten F w) in
  forall s, splits_into s ((csv_default_fields ++ cols) :: map (raw_to_row F repr_float cols) raws') ->
  read s = Some (Ok (normalize F w)).
Proof.
  intros Hok Hs cols s Hsplit. pose proof Hok as [Hr Hg].
  rewrite (read_model_rows parse_float f_neg _ s Hsplit). f_equal.
  unfold cols in *. rewrite (flatten_is_plain w Hr) in *.
  destruct (written_header_facts _ Hr) as (Hc & _ & _).
  assert (E : map (raw_to_row F repr_float (custom_columns F (flatten_plain w))) raws'
              = map (row_for (csv_default_fields ++ custom_columns F (flatten_plain w))) raws').
  { apply map_ext. intro r. apply raw_to_row_cells. exact Hc. }
  rewrite E.
  etransitivity; [exact (read_rows_layout w _ raws' Hok (written_header_ok _ Hr) Hs)|]. f_equal.
  rewrite (normalize_map f_neg w Hg Hr).
  apply map_forest_ext. apply Forall_forall. intros r Hin.
  rewrite layout_fields_norm.
  - change (filter is_custom_col) with (filter (fun k : text => negb (mem_text k csv_default_fields))).
    rewrite (header_custom_keys _ Hc). reflexivity.
  - apply mem_text_In. apply in_or_app. right. exact (custom_columns_min_start _ r Hin).
Qed.

End Files.

(* ---------- the statements of Props_C13.v, under the named float hypothesis ---------- *)
Section Statements.
Context {F : Type}.
Variable repr_float : F -> text.
Variable parse_float : text -> option F.
Variable f_neg : F -> bool.
Hypothesis float_ok : float_codec_ok repr_float parse_float.

Theorem any_layout_statement_proved : forall w : wbs F, wbs_ok f_neg w ->
  forall raws', sibling_order_kept raws' (flatten F w) ->
  let cols := custom_columns F (flatten F w) in
  forall pi, col_choice_ok (length (csv_default_fields ++ cols)) pi ->
  let rows := select_cols pi ((csv_default_fields ++ cols) :: map (raw_to_row F repr_float cols) raws') in
  forall s, parse_csv delim s = Parsed rows \/ parse_csv delim s = Parsed (with_bom rows) ->
  exists w1, read_model F parse_float f_neg delim s = Some (Ok w1)
             /\ wbs_equiv w1 (keep_cols (select [] pi (csv_default_fields ++ cols)) w).
Proof.
  destruct float_ok as [H1 H2]. intros w Hok raws' Hs cols pi Hpi rows s Hsplit.
  exact (any_layout repr_float parse_float f_neg H1 H2 w pi raws' Hok Hs Hpi s Hsplit).
Qed.

Theorem columns_any_order_statement_proved : forall w : wbs F, wbs_ok f_neg w ->
  forall pi, Permutation pi (seq 0 (length (csv_default_fields ++ custom_columns F (flatten F w)))) ->
  let rows := select_cols pi (to_rows F repr_float (flatten F w)) in
  forall s, parse_csv delim s = Parsed rows \/ parse_csv delim s = Parsed (with_bom rows) ->
  exists w1, read_model F parse_float f_neg delim s = Some (Ok w1) /\ wbs_equiv w1 w.
Proof.
  destruct float_ok as [H1 H2]. intros w Hok pi Hp rows s Hsplit.
  exact (columns_any_order repr_float parse_float f_neg H1 H2 w pi (flatten F w) Hok
           (sibling_order_refl _) Hp s Hsplit).
Qed.

Theorem columns_custom_order_statement_proved : forall w : wbs F, wbs_ok f_neg w ->
  forall pi, Permutation pi (seq 0 (length (csv_default_fields ++ custom_columns F (flatten F w)))) ->
  let rows := select_cols pi (to_rows F repr_float (flatten F w)) in
  let cols' := filter is_custom_col (select [] pi (csv_default_fields ++ custom_columns F (flatten F w))) in
  forall s, parse_csv delim s = Parsed rows \/ parse_csv delim s = Parsed (with_bom rows) ->
  read_model F parse_float f_neg delim s = Some (Ok (map (norm_tree F cols') w))
  /\ (cols' = custom_columns F (flatten F w) ->
      read_model F parse_float f_neg delim s = Some (Ok (normalize F w))).
Proof.
  destruct float_ok as [H1 H2]. intros w Hok pi Hp rows cols' s Hsplit.
  exact (columns_any_order_exact repr_float parse_float f_neg H1 H2 w pi (flatten F w) Hok
           (sibling_order_refl _) Hp s Hsplit).
Qed.

Theorem missing_optional_column_statement_proved : forall w : wbs F, wbs_ok f_neg w ->
  let names := csv_default_fields ++ custom_columns F (flatten F w) in
  forall j, (length csv_default_fields <= j < length names)%nat ->
  let rows := select_cols (without_col (length names) j) (to_rows F repr_float (flatten F w)) in
  forall s, parse_csv delim s = Parsed rows \/ parse_csv delim s = Parsed (with_bom rows) ->
  exists w1, read_model F parse_float f_neg delim s = Some (Ok w1)
             /\ wbs_equiv w1 (drop_column (nth j names []) w).
Proof.
  destruct float_ok as [H1 H2]. intros w Hok names j Hj rows s Hsplit.
  exact (missing_optional_column repr_float parse_float f_neg H1 H2 w j (flatten F w) Hok
           (sibling_order_refl _) Hj s Hsplit).
Qed.

Theorem missing_required_column_statement_proved : forall w : wbs F, wbs_ok f_neg w -> w <> [] ->
  let names := csv_default_fields ++ custom_columns F (flatten F w) in
  forall pi, NoDup pi -> Forall (fun i => (i < length names)%nat) pi ->
  (exists i, (i < length csv_default_fields)%nat /\ ~ In i pi) ->
  let rows := select_cols pi (to_rows F repr_float (flatten F w)) in
  forall s, parse_csv delim s = Parsed rows \/ parse_csv delim s = Parsed (with_bom rows) ->
  read_model F parse_float f_neg delim s = Some (Crash KeyError).
Proof.
  destruct float_ok as [H1 H2]. intros w Hok Hne names pi Hnd Hlt Hi rows s Hsplit.
  exact (missing_required_column repr_float parse_float f_neg H1 H2 w pi (flatten F w) Hok Hne
           (Permutation_refl _) Hnd Hlt Hi s Hsplit).
Qed.

Theorem rows_any_order_statement_proved : forall w : wbs F, wbs_ok f_neg w ->
  forall raws', sibling_order_kept raws' (flatten F w) ->
  let cols := custom_columns F (flatten F w) in
  let rows := (csv_default_fields ++ cols) :: map (raw_to_row F repr_float cols) raws' in
  forall s, parse_csv delim s = Parsed rows \/ parse_csv delim s = Parsed (with_bom rows) ->
  exists w1, read_model F parse_float f_neg delim s = Some (Ok w1) /\ w1 = normalize F w
             /\ wbs_equiv w1 w /\ Forall2 raw_equiv (flatten_plain w1) (flatten_plain w).
Proof.
  destruct float_ok as [H1 H2]. intros w Hok raws' Hs cols rows s Hsplit.
  exists (normalize F w). split.
  - exact (rows_any_order repr_float parse_float f_neg H1 H2 w raws' Hok Hs s Hsplit).
  - split; [reflexivity|]. pose proof (normalize_equiv f_neg w Hok) as He.
    split; [exact He|]. apply wbs_equiv_flat. exact He.
Qed.

Theorem rebuild_any_order_statement_proved : forall w : wbs F, wbs_ok f_neg w ->
  forall raws', sibling_order_kept raws' (flatten F w) -> assemble F f_neg raws' = Ok w.
Proof.
  intros w [Hr Hg] raws' Hs. rewrite (flatten_is_plain w Hr) in Hs.
  exact (assemble_any_order f_neg w raws' Hg Hs).
Qed.
End Statements.

(* ---------- the instance of RoundTrip.v arranged differently ---------- *)

(* the columns: owner, start, id, note, name, resource, min_start, end, ... (13 columns) *)
Definition ex_col_order : list nat := [12; 3; 0; 11; 1; 2; 10; 4; 5; 6; 7; 8; 9]%nat.

Definition ex_cols_file : text := print_csv delim (select_cols ex_col_order (to_rows Z print_int (flatten Z ex_wbs))).

Lemma ex_cols_file_facts :
  Permutation ex_col_order (seq 0 (length (csv_default_fields ++ custom_columns Z (flatten Z ex_wbs))))
  /\ parse_csv delim ex_cols_file = Parsed (select_cols ex_col_order (to_rows Z print_int (flatten Z ex_wbs)))
  /\ filter is_custom_col (select [] ex_col_order (csv_default_fields ++ custom_columns Z (flatten Z ex_wbs)))
     <> custom_columns Z (flatten Z ex_wbs)
  /\ (exists w1, read_model Z parse_int ex_neg delim ex_cols_file = Some (Ok w1) /\ w1 <> normalize Z ex_wbs).
Proof.
  split; [apply perm_b_sound; vm_compute; reflexivity|].
  split; [vm_compute; reflexivity|]. split; [vm_compute; discriminate|].
  eexists. split; [vm_compute; reflexivity|vm_compute; discriminate].
Qed.

(* no min_start column (position 10 of the written layout) *)
Definition ex_no_min_start_file : text :=
  print_csv delim (select_cols (without_col 13 10) (to_rows Z print_int (flatten Z ex_wbs))).

Lemma ex_no_min_start_file_facts :
  length (csv_default_fields ++ custom_columns Z (flatten Z ex_wbs)) = 13%nat
  /\ nth 10 (csv_default_fields ++ custom_columns Z (flatten Z ex_wbs)) [] = K_MIN_START
  /\ parse_csv delim ex_no_min_start_file
     = Parsed (select_cols (without_col 13 10) (to_rows Z print_int (flatten Z ex_wbs)))
  /\ read_model Z parse_int ex_neg delim ex_no_min_start_file
     = Some (Ok (normalize Z (drop_column K_MIN_START ex_wbs)))
  /\ drop_column K_MIN_START ex_wbs <> ex_wbs.
Proof.
  split; [vm_compute; reflexivity|]. split; [vm_compute; reflexivity|]. split; [vm_compute; reflexivity|].
  split; [vm_compute; reflexivity|vm_compute; discriminate].
Qed.

(* no start column (position 3) *)
Definition ex_no_start_file : text :=
  print_csv delim (select_cols (without_col 13 3) (to_rows Z print_int (flatten Z ex_wbs))).

Lemma ex_no_start_file_facts :
  NoDup (without_col 13 3) /\ Forall (fun i => (i < 13)%nat) (without_col 13 3)
  /\ (3 < length csv_default_fields)%nat /\ ~ In 3%nat (without_col 13 3)
  /\ parse_csv delim ex_no_start_file
     = Parsed (select_cols (without_col 13 3) (to_rows Z print_int (flatten Z ex_wbs)))
  /\ read_model Z parse_int ex_neg delim ex_no_start_file = Some (Crash KeyError).
Proof.
  split; [apply without_col_NoDup|].
  split; [apply Forall_forall; intros i Hi; apply without_col_In in Hi; lia|].
  split; [vm_compute; lia|]. split; [intro Hi; apply without_col_In in Hi; lia|].
  split; vm_compute; reflexivity.
Qed.

(* the rows: task 1 (child of 0), task 0, task 5, task -2 (child of 0) *)
Definition ex_row_order : list (raw Z) :=
  match flatten Z ex_wbs with
  | [a; b; c; d] => [b; a; d; c]
  | l => l
  end.

Definition ex_rows_file : text :=
  let cols := custom_columns Z (flatten Z ex_wbs) in
  print_csv delim ((csv_default_fields ++ cols) :: map (raw_to_row Z print_int cols) ex_row_order).

Lemma ex_row_order_kept :
  map (raw_id Z) ex_row_order = [1; 0; 5; -2] /\ sibling_order_kept ex_row_order (flatten Z ex_wbs).
Proof.
  split; [vm_compute; reflexivity|]. unfold ex_row_order.
  set (l := flatten Z ex_wbs). vm_compute in l. subst l. cbv beta iota. split.
  - eapply perm_trans; [apply perm_swap|]. do 2 apply perm_skip. apply perm_swap.
  - intros [q|]; [|reflexivity]. unfold same_parent, child_of. cbn [filter r_parent].
    destruct (0 =? q); reflexivity.
Qed.

Lemma ex_rows_file_facts :
  parse_csv delim ex_rows_file
  = Parsed ((csv_default_fields ++ custom_columns Z (flatten Z ex_wbs))
            :: map (raw_to_row Z print_int (custom_columns Z (flatten Z ex_wbs))) ex_row_order)
  /\ read_model Z parse_int ex_neg delim ex_rows_file = Some (Ok (normalize Z ex_wbs))
  /\ assemble Z ex_neg ex_row_order = Ok ex_wbs.
Proof. split; [vm_compute; reflexivity|]. split; vm_compute; reflexivity. Qed.
