(* C13 - the csv writer and the csv reader of CsvModel.v are inverse of each other:
   parse_csv d (print_csv d rows) = Parsed rows for every list of rows and every delimiter
   that is neither the quote character nor CR nor LF.

   Architecture: [run] is a character-stream presentation of the reader (no splitting into
   lines first); [parse_csv_run] shows it equal to [parse_csv] on every text; the round trip
   is then proved on [run] field by field, row by row. *)
From PJ Require Import Base.Prelude Csv.CsvModel.
Open Scope N_scope.

(* ---------- the reader as a function of the character stream ---------- *)

(* the end-of-line pseudo character, then: a record is emitted iff the state is StartRecord *)
Definition eol (s : rd) (acc : list row) : rd * list row :=
  let s' := step_eol s in
  if is_start_record (st s') then (rd_init, rev (flds s') :: acc) else (s', acc).

(* end of input: the [] branch of read_lines *)
Definition finish (s : rd) (acc : list row) : parsed :=
  if negb (match fld s with [] => true | _ => false end) || is_in_quoted (st s)
  then Parsed (rev (rev (rev (fld s) :: flds s) :: acc))
  else Parsed (rev acc).

(* pending = a character was consumed since the last LF: the last line has no LF and still
   needs its end-of-line step *)
Fixpoint run (d : N) (s : rd) (acc : list row) (pending : bool) (t : text) : parsed :=
  match t with
  | [] => if pending then let '(s', acc') := eol s acc in finish s' acc' else finish s acc
  | c :: r =>
      match step d s c with
      | None => ParsedErr (rev acc)
      | Some s1 =>
          if c =? LF then let '(s2, acc2) := eol s1 acc in run d s2 acc2 false r
          else run d s1 acc true r
      end
  end.

(* the characters of a line prefix, without the end-of-line step *)
Fixpoint steps (d : N) (s : rd) (l : text) : option rd :=
  match l with
  | [] => Some s
  | c :: r => match step d s c with Some s' => steps d s' r | None => None end
  end.

Definition nonnil {A} (l : list A) : bool := match l with [] => false | _ :: _ => true end.

Lemma feed_app d : forall a s b,
  feed d s (a ++ b) = match steps d s a with Some s' => feed d s' b | None => None end.
Proof.
  induction a as [|c a IH]; intros s b; cbn [app steps feed].
  - reflexivity.
  - destruct (step d s c); [apply IH | reflexivity].
Qed.

Lemma steps_snoc d : forall a s c,
  steps d s (a ++ [c]) = match steps d s a with Some s' => step d s' c | None => None end.
Proof.
  induction a as [|x a IH]; intros s c; cbn [app steps].
  - destruct (step d s c); reflexivity.
  - destruct (step d s x); [apply IH | reflexivity].
Qed.

Lemma split_lines_head : forall t cur, cur <> [] ->
  exists l ls, split_lines cur t = (rev cur ++ l) :: ls.
Proof.
  induction t as [|c r IH]; intros cur Hc.
  - destruct cur as [|x cur]; [congruence|].
    exists [], []. cbn [split_lines]. rewrite app_nil_r. reflexivity.
  - cbn [split_lines]. destruct (c =? LF).
    + exists [c], (split_lines [] r). reflexivity.
    + destruct (IH (c :: cur)) as (l & ls & E); [discriminate|].
      exists (c :: l), ls. rewrite E. cbn [rev]. rewrite <- app_assoc. reflexivity.
Qed.

Lemma read_lines_run d : forall t cur s0 s acc,
  steps d s0 (rev cur) = Some s ->
  read_lines d s0 (split_lines cur t) acc = run d s acc (nonnil cur) t.
Proof.
  induction t as [|c r IH]; intros cur s0 s acc Hs.
  - cbn [split_lines run]. destruct cur as [|x cur].
    + cbn [rev steps] in Hs. injection Hs as <-. reflexivity.
    + cbn [nonnil read_lines].
      pose proof (feed_app d (rev (x :: cur)) s0 []) as F. rewrite app_nil_r in F.
      rewrite F, Hs. cbn [feed]. unfold eol.
      destruct (is_start_record (st (step_eol s))); reflexivity.
  - cbn [split_lines run]. destruct (c =? LF) eqn:E.
    + cbn [read_lines rev]. rewrite feed_app, Hs. cbn [feed].
      destruct (step d s c) as [s1|]; [|reflexivity].
      unfold eol. destruct (is_start_record (st (step_eol s1))).
      * apply (IH [] rd_init rd_init). reflexivity.
      * apply (IH [] (step_eol s1) (step_eol s1)). reflexivity.
    + destruct (step d s c) as [s1|] eqn:Es.
      * apply (IH (c :: cur) s0 s1). cbn [rev]. rewrite steps_snoc, Hs. exact Es.
      * destruct (split_lines_head r (c :: cur)) as (l & ls & E'); [discriminate|].
        rewrite E'. cbn [read_lines]. rewrite feed_app. cbn [rev].
        rewrite steps_snoc, Hs, Es. reflexivity.
Qed.

Theorem parse_csv_run d t : parse_csv d t = run d rd_init [] false t.
Proof. unfold parse_csv. apply (read_lines_run d t [] rd_init rd_init []). reflexivity. Qed.

(* ---------- one character of [run] ---------- *)

Lemma run_nil d s acc : run d s acc false [] = finish s acc.
Proof. reflexivity. Qed.

Lemma run_nonLF d s s1 c : step d s c = Some s1 -> (c =? LF) = false ->
  forall acc p r, run d s acc p (c :: r) = run d s1 acc true r.
Proof. intros H1 H2 acc p r. cbn [run]. rewrite H1, H2. reflexivity. Qed.

Lemma run_LF d s s1 : step d s LF = Some s1 ->
  forall acc p r, run d s acc p (LF :: r) = run d (fst (eol s1 acc)) (snd (eol s1 acc)) false r.
Proof.
  intros H1 acc p r. cbn [run]. rewrite H1, N.eqb_refl.
  destruct (eol s1 acc); reflexivity.
Qed.

Lemma run_error d s c : step d s c = None ->
  forall acc p r, run d s acc p (c :: r) = ParsedErr (rev acc).
Proof. intros H1 acc p r. cbn [run]. rewrite H1. reflexivity. Qed.

(* ---------- character classes ---------- *)

Definition good_delim (d : N) : Prop := d <> QUOTE /\ d <> CR /\ d <> LF.

Lemma good_delim_eqb d : good_delim d ->
  (d =? QUOTE) = false /\ (d =? CR) = false /\ (d =? LF) = false /\ (CR =? d) = false.
Proof.
  intros (Hq & Hc & Hl). repeat split; apply N.eqb_neq; congruence.
Qed.

Lemma special_false d c : special d c = false ->
  (c =? d) = false /\ (c =? QUOTE) = false /\ (c =? CR) = false /\ (c =? LF) = false.
Proof. unfold special. rewrite !orb_false_iff. tauto. Qed.

Lemma needs_quote_cons d c f :
  needs_quote d (c :: f) = false <-> special d c = false /\ needs_quote d f = false.
Proof. unfold needs_quote. cbn [existsb]. apply orb_false_iff. Qed.

Definition start_q (q : pstate) : Prop := q = StartRecord \/ q = StartField.

(* states in which the delimiter saves the collected field *)
Definition sep_ok (q : pstate) : bool :=
  match q with InQuoted | EatCRNL => false | _ => true end.

(* states in which CR saves the collected field *)
Definition cr_saves (q : pstate) : bool :=
  match q with StartField | InField | QuoteInQuoted => true | _ => false end.

Lemma start_sep_ok q : start_q q -> sep_ok q = true.
Proof. intros [-> | ->]; reflexivity. Qed.

(* ---------- [step] state by state ---------- *)

Lemma step_start_plain d q fs c : start_q q -> special d c = false ->
  step d (mkrd q [] fs) c = Some (mkrd InField [c] fs).
Proof.
  intros Hq Hc. apply special_false in Hc as (E1 & E2 & E3 & E4).
  unfold step, step_start_field, is_nl, rd_add. cbn [st fld flds].
  rewrite E1, E2, E3, E4. destruct Hq as [-> | ->]; reflexivity.
Qed.

Lemma step_start_quote d q pre fs : start_q q ->
  step d (mkrd q pre fs) QUOTE = Some (mkrd InQuoted pre fs).
Proof. intros [-> | ->]; reflexivity. Qed.

Lemma step_delim d q pre fs : good_delim d -> sep_ok q = true ->
  step d (mkrd q pre fs) d = Some (mkrd StartField [] (rev pre :: fs)).
Proof.
  intros Hd Hq. apply good_delim_eqb in Hd as (E1 & E2 & E3 & _).
  unfold step, step_start_field, is_nl, rd_save. cbn [st fld flds].
  rewrite E1, E2, E3, N.eqb_refl. destruct q; try discriminate Hq; reflexivity.
Qed.

Lemma step_CR d q pre fs : good_delim d -> cr_saves q = true ->
  step d (mkrd q pre fs) CR = Some (mkrd EatCRNL [] (rev pre :: fs)).
Proof.
  intros Hd Hq. apply good_delim_eqb in Hd as (_ & _ & _ & E).
  destruct q; try discriminate Hq; unfold step; cbn [st]; rewrite ?E; reflexivity.
Qed.

Lemma step_start_record_CR d pre fs :
  step d (mkrd StartRecord pre fs) CR = Some (mkrd EatCRNL pre fs).
Proof. reflexivity. Qed.

Lemma step_eat_LF d pre fs : step d (mkrd EatCRNL pre fs) LF = Some (mkrd EatCRNL pre fs).
Proof. reflexivity. Qed.

Lemma step_infield_plain d pre fs c : special d c = false ->
  step d (mkrd InField pre fs) c = Some (mkrd InField (c :: pre) fs).
Proof.
  intros Hc. apply special_false in Hc as (E1 & E2 & E3 & E4).
  unfold step, is_nl, rd_add. cbn [st fld flds]. rewrite E1, E3, E4. reflexivity.
Qed.

Lemma step_inquoted_quote d pre fs :
  step d (mkrd InQuoted pre fs) QUOTE = Some (mkrd QuoteInQuoted pre fs).
Proof. reflexivity. Qed.

Lemma step_inquoted_other d pre fs c : (c =? QUOTE) = false ->
  step d (mkrd InQuoted pre fs) c = Some (mkrd InQuoted (c :: pre) fs).
Proof. intros E. unfold step. cbn [st]. rewrite E. reflexivity. Qed.

Lemma step_qiq_quote d pre fs :
  step d (mkrd QuoteInQuoted pre fs) QUOTE = Some (mkrd InQuoted (QUOTE :: pre) fs).
Proof. reflexivity. Qed.

Lemma eol_inquoted pre fs acc : eol (mkrd InQuoted pre fs) acc = (mkrd InQuoted pre fs, acc).
Proof. reflexivity. Qed.

Lemma eol_eat pre fs acc : eol (mkrd EatCRNL pre fs) acc = (rd_init, rev fs :: acc).
Proof. reflexivity. Qed.

(* ---------- separators ---------- *)

Lemma run_delim d q pre fs acc p rest : good_delim d -> sep_ok q = true ->
  run d (mkrd q pre fs) acc p (d :: rest) = run d (mkrd StartField [] (rev pre :: fs)) acc true rest.
Proof.
  intros Hd Hq. apply run_nonLF.
  - apply step_delim; assumption.
  - apply good_delim_eqb in Hd. tauto.
Qed.

Lemma run_eat_LF d pre fs acc p rest :
  run d (mkrd EatCRNL pre fs) acc p (LF :: rest) = run d rd_init (rev fs :: acc) false rest.
Proof. rewrite (run_LF d _ _ (step_eat_LF d pre fs)). reflexivity. Qed.

Lemma run_CRLF d q pre fs acc p rest : good_delim d -> cr_saves q = true ->
  run d (mkrd q pre fs) acc p (CR :: LF :: rest) =
  run d rd_init (rev (rev pre :: fs) :: acc) false rest.
Proof.
  intros Hd Hq. rewrite (run_nonLF d _ _ _ (step_CR d q pre fs Hd Hq) eq_refl).
  apply run_eat_LF.
Qed.

(* ---------- field bodies ---------- *)

Lemma run_plain d : forall f pre fs acc rest, needs_quote d f = false ->
  run d (mkrd InField pre fs) acc true (f ++ rest) =
  run d (mkrd InField (rev f ++ pre) fs) acc true rest.
Proof.
  induction f as [|c f IH]; intros pre fs acc rest Hf.
  - reflexivity.
  - apply needs_quote_cons in Hf as [Hc Hf]. cbn [app].
    rewrite (run_nonLF d _ _ _ (step_infield_plain d pre fs c Hc)
               (proj2 (proj2 (proj2 (special_false d c Hc))))).
    rewrite IH by exact Hf. cbn [rev]. rewrite <- app_assoc. reflexivity.
Qed.

(* any text at all, LF included: an LF inside a quoted field ends a line of the file but the
   end-of-line step changes nothing in state InQuoted *)
Lemma run_quoted d : forall f pre fs acc p rest,
  run d (mkrd InQuoted pre fs) acc p (escape f ++ QUOTE :: rest) =
  run d (mkrd QuoteInQuoted (rev f ++ pre) fs) acc true rest.
Proof.
  induction f as [|c f IH]; intros pre fs acc p rest.
  - cbn [escape app rev]. apply run_nonLF; reflexivity.
  - cbn [escape]. destruct (c =? QUOTE) eqn:Eq.
    + apply N.eqb_eq in Eq; subst c. cbn [app].
      rewrite (run_nonLF d _ _ _ (step_inquoted_quote d pre fs) eq_refl).
      rewrite (run_nonLF d _ _ _ (step_qiq_quote d pre fs) eq_refl).
      rewrite IH. cbn [rev]. rewrite <- app_assoc. reflexivity.
    + cbn [app]. destruct (c =? LF) eqn:El.
      * apply N.eqb_eq in El; subst c.
        rewrite (run_LF d _ _ (step_inquoted_other d pre fs LF Eq)).
        rewrite eol_inquoted. cbn [fst snd].
        rewrite IH. cbn [rev]. rewrite <- app_assoc. reflexivity.
      * rewrite (run_nonLF d _ _ _ (step_inquoted_other d pre fs c Eq) El).
        rewrite IH. cbn [rev]. rewrite <- app_assoc. reflexivity.
Qed.

(* ---------- a field ---------- *)

(* after a printed field the reader holds the field and is ready for a separator; only for the
   empty field (printed as nothing) is the state still the start state *)
Lemma run_field d q f fs p : start_q q ->
  exists q' p',
    ((q' = InField \/ q' = QuoteInQuoted) \/ (f = [] /\ q' = q)) /\
    forall acc rest,
      run d (mkrd q [] fs) acc p (print_field d f ++ rest) =
      run d (mkrd q' (rev f) fs) acc p' rest.
Proof.
  intros Hq. unfold print_field. destruct (needs_quote d f) eqn:Enq.
  - exists QuoteInQuoted, true. split; [left; right; reflexivity|]. intros acc rest.
    cbn [app]. rewrite (run_nonLF d _ _ _ (step_start_quote d q [] fs Hq) eq_refl).
    rewrite <- app_assoc. cbn [app]. rewrite run_quoted, app_nil_r. reflexivity.
  - destruct f as [|c f].
    + exists q, p. split; [right; split; reflexivity|]. intros acc rest. reflexivity.
    + exists InField, true. split; [left; left; reflexivity|]. intros acc rest.
      apply needs_quote_cons in Enq as [Hc Hf]. cbn [app].
      rewrite (run_nonLF d _ _ _ (step_start_plain d q fs c Hq Hc)
                 (proj2 (proj2 (proj2 (special_false d c Hc))))).
      rewrite run_plain by exact Hf. reflexivity.
Qed.

Lemma run_field_delim d q f fs acc p rest : good_delim d -> start_q q ->
  run d (mkrd q [] fs) acc p (print_field d f ++ d :: rest) =
  run d (mkrd StartField [] (f :: fs)) acc true rest.
Proof.
  intros Hd Hq. destruct (run_field d q f fs p Hq) as (q' & p' & Hq' & E).
  rewrite E, run_delim, rev_involutive; trivial.
  destruct Hq' as [[-> | ->] | [_ ->]]; try reflexivity. apply start_sep_ok, Hq.
Qed.

(* CR does not save anything in state StartRecord: the first field of a record must have left
   a trace (f <> []) for the end of the record to save it *)
Lemma run_field_crlf d q f fs acc p rest : good_delim d ->
  (q = StartField \/ (q = StartRecord /\ f <> [])) ->
  run d (mkrd q [] fs) acc p (print_field d f ++ CR :: LF :: rest) =
  run d rd_init (rev (f :: fs) :: acc) false rest.
Proof.
  intros Hd Hq.
  assert (Hs : start_q q) by (destruct Hq as [-> | [-> _]]; [right | left]; reflexivity).
  destruct (run_field d q f fs p Hs) as (q' & p' & Hq' & E).
  rewrite E, run_CRLF, rev_involutive; trivial.
  destruct Hq' as [[-> | ->] | [Hf ->]]; try reflexivity.
  destruct Hq as [-> | [_ Hne]]; [reflexivity | congruence].
Qed.

(* ---------- a record ---------- *)

Lemma join_fields_cons2 d f g r :
  join_fields d (f :: g :: r) = print_field d f ++ d :: join_fields d (g :: r).
Proof. reflexivity. Qed.

Lemma print_row_cons2 d f g r :
  print_row d (f :: g :: r) = join_fields d (f :: g :: r) ++ [CR; LF].
Proof. destruct f; reflexivity. Qed.

Lemma print_row_single d c f : print_row d [c :: f] = print_field d (c :: f) ++ [CR; LF].
Proof. reflexivity. Qed.

Lemma run_join d : good_delim d -> forall r fs acc p rest, r <> [] ->
  run d (mkrd StartField [] fs) acc p (join_fields d r ++ CR :: LF :: rest) =
  run d rd_init (rev (rev r ++ fs) :: acc) false rest.
Proof.
  intros Hd. induction r as [|f r IH]; intros fs acc p rest Hr; [congruence|].
  destruct r as [|g r'].
  - cbn [join_fields]. rewrite run_field_crlf by auto. reflexivity.
  - rewrite join_fields_cons2, <- app_assoc. cbn [app].
    rewrite run_field_delim by (trivial; right; reflexivity).
    rewrite IH by discriminate. cbn [rev]. rewrite <- !app_assoc. reflexivity.
Qed.

Lemma run_row d r acc rest : good_delim d ->
  run d rd_init acc false (print_row d r ++ rest) = run d rd_init (r :: acc) false rest.
Proof.
  intros Hd. destruct r as [|f r].
  - change (print_row d [] ++ rest) with (CR :: LF :: rest). unfold rd_init at 1.
    rewrite (run_nonLF d _ _ _ (step_start_record_CR d [] []) eq_refl).
    apply run_eat_LF.
  - destruct r as [|g r'].
    + destruct f as [|c f].
      * change (print_row d [[]] ++ rest) with (QUOTE :: QUOTE :: CR :: LF :: rest).
        unfold rd_init at 1.
        rewrite (run_nonLF d _ _ _ (step_start_quote d StartRecord [] [] (or_introl eq_refl)) eq_refl).
        rewrite (run_nonLF d _ _ _ (step_inquoted_quote d [] []) eq_refl).
        rewrite run_CRLF by trivial. reflexivity.
      * rewrite print_row_single, <- app_assoc. cbn [app]. unfold rd_init at 1.
        rewrite run_field_crlf; trivial. right. split; [reflexivity | discriminate].
    + rewrite print_row_cons2, join_fields_cons2, <- !app_assoc. cbn [app].
      unfold rd_init at 1.
      rewrite run_field_delim by (trivial; left; reflexivity).
      rewrite run_join by (trivial; discriminate).
      rewrite rev_app_distr, rev_involutive. reflexivity.
Qed.

(* ---------- the file ---------- *)

Lemma print_csv_cons d r rows : print_csv d (r :: rows) = print_row d r ++ print_csv d rows.
Proof. reflexivity. Qed.

Lemma run_print_csv d : good_delim d -> forall rows acc rest,
  run d rd_init acc false (print_csv d rows ++ rest) = run d rd_init (rev rows ++ acc) false rest.
Proof.
  intros Hd. induction rows as [|r rows IH]; intros acc rest.
  - reflexivity.
  - rewrite print_csv_cons, <- app_assoc, run_row, IH by trivial.
    cbn [rev]. rewrite <- app_assoc. reflexivity.
Qed.

Theorem parse_print_csv : forall (d : N) (rows : list row),
  d <> QUOTE -> d <> CR -> d <> LF ->
  parse_csv d (print_csv d rows) = Parsed rows.
Proof.
  intros d rows Hq Hc Hl. rewrite parse_csv_run.
  rewrite <- (app_nil_r (print_csv d rows)).
  rewrite run_print_csv by (repeat split; assumption).
  rewrite run_nil, app_nil_r. unfold finish. cbn [rd_init fld st is_in_quoted negb orb].
  rewrite rev_involutive. reflexivity.
Qed.

(* ---------- a plain character in front of the file ---------- *)

Lemma print_field_prefix d c f : special d c = false -> needs_quote d f = false ->
  print_field d (c :: f) = c :: print_field d f.
Proof.
  intros Hc Hf. unfold print_field.
  rewrite (proj2 (needs_quote_cons d c f) (conj Hc Hf)), Hf. reflexivity.
Qed.

Lemma print_row_prefix d c f0 h :
  special d c = false -> needs_quote d f0 = false -> (f0 <> [] \/ h <> []) ->
  c :: print_row d (f0 :: h) = print_row d ((c :: f0) :: h).
Proof.
  intros Hc Hf Hne. destruct h as [|g h'].
  - destruct f0 as [|x f0]; [destruct Hne; congruence|].
    rewrite !print_row_single, (print_field_prefix d c (x :: f0)) by assumption. reflexivity.
  - rewrite !print_row_cons2, !join_fields_cons2, print_field_prefix by assumption.
    reflexivity.
Qed.

(* Without the last hypothesis the statement is false: the record [[]] is written as two
   quote characters, and after a plain character these are data:
     parse_csv 44 (65 :: print_csv 44 [[[]]]) = Parsed [[[65; 34; 34]]]  <>  Parsed [[[65]]] *)
Lemma parse_print_csv_prefix : forall d c f0 h rest,
  d <> QUOTE -> d <> CR -> d <> LF -> special d c = false -> needs_quote d f0 = false ->
  (f0 <> [] \/ h <> []) ->
  parse_csv d (c :: print_csv d ((f0 :: h) :: rest)) = Parsed (((c :: f0) :: h) :: rest).
Proof.
  intros d c f0 h rest Hq Hcr Hl Hc Hf Hne.
  rewrite print_csv_cons.
  change (c :: print_row d (f0 :: h) ++ print_csv d rest)
    with ((c :: print_row d (f0 :: h)) ++ print_csv d rest).
  rewrite print_row_prefix by assumption.
  rewrite <- print_csv_cons. apply parse_print_csv; assumption.
Qed.

Example parse_print_csv_prefix_needs_nonempty :
  parse_csv 44 (65 :: print_csv 44 [[[]]]) = Parsed [[[65; 34; 34]]].
Proof. vm_compute. reflexivity. Qed.

