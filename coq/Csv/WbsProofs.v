(* C13 - the round trip of a whole WBS through the model of write_csv / read_csv, assembled from the csv codec
   (CsvCodecProofs.v), the rows (RowsProofs.v) and the forest (AssembleProofs.v): read (write w) = normalize w;
   a leading U+FEFF changes nothing.  The equivalence of the property is defined here; that normalize w is
   equivalent to w, in the domain again and a fixed point is proved in RoundTrip.v. *)
From PJ Require Import Base.Prelude Csv.CsvModel Csv.CsvCodecProofs Csv.Fields Csv.FieldsProofs
  Csv.Wbs Csv.WbsSpec Csv.RowsProofs Csv.AssembleProofs gen.Consts.
Open Scope Z_scope.

(* ---------- list helpers ---------- *)
Lemma flat_map_ext_Forall {A B} (f g : A -> list B) (l : list A) :
  Forall (fun a => f a = g a) l -> flat_map f l = flat_map g l.
Proof. induction 1 as [|a l Ha _ IH]; cbn [flat_map]; [reflexivity|rewrite Ha, IH; reflexivity]. Qed.

Lemma map_ext_Forall {A B} (f g : A -> B) (l : list A) :
  Forall (fun a => f a = g a) l -> map f l = map g l.
Proof. induction 1 as [|a l Ha _ IH]; cbn [map]; [reflexivity|rewrite Ha, IH; reflexivity]. Qed.

Lemma map_flat_map {A B C} (f : B -> C) (g : A -> list B) (l : list A) :
  map f (flat_map g l) = flat_map (fun a => map f (g a)) l.
Proof. induction l as [|a l IH]; cbn [flat_map map]; [reflexivity|rewrite map_app, IH; reflexivity]. Qed.

Lemma flat_map_map {A B C} (f : B -> list C) (g : A -> B) (l : list A) :
  flat_map f (map g l) = flat_map (fun a => f (g a)) l.
Proof. induction l as [|a l IH]; cbn [flat_map map]; [reflexivity|rewrite IH; reflexivity]. Qed.

Lemma Forall_flat_map {A B} (P : B -> Prop) (g : A -> list B) (l : list A) :
  Forall P (flat_map g l) <-> Forall (fun a => Forall P (g a)) l.
Proof.
  induction l as [|a l IH]; cbn [flat_map]; split; intro H; try constructor.
  - apply Forall_app in H. tauto.
  - apply Forall_app in H. apply IH. tauto.
  - inversion H; subst. apply Forall_app. split; [assumption|apply IH; assumption].
Qed.

Lemma filter_all {A} (p : A -> bool) (l : list A) : Forall (fun a => p a = true) l -> filter p l = l.
Proof. induction 1 as [|a l Ha _ IH]; cbn [filter]; [reflexivity|rewrite Ha, IH; reflexivity]. Qed.

(* ---------- the property's equivalence ---------- *)
Section Equiv.
Context {F : Type}.

(* equal fields, where an absent or None text and the empty text are the same, and custom attributes
   are compared by the text of their values (absent, None and empty alike) *)
Definition fields_equiv (a b : fields F) : Prop :=
  f_id F a = f_id F b
  /\ text_equiv (f_name F a) (f_name F b) /\ text_equiv (f_resource F a) (f_resource F b)
  /\ f_start F a = f_start F b /\ f_end F a = f_end F b
  /\ f_estimate F a = f_estimate F b /\ f_spent F a = f_spent F b
  /\ f_milestone F a = f_milestone F b /\ f_min_start F a = f_min_start F b
  /\ forall k, custom_value k (f_custom F a) = custom_value k (f_custom F b).

(* same shape (hence the same ids in the same order, the same hierarchy and sibling order), the same
   predecessor lists, equivalent fields *)
Inductive tree_equiv : tree F -> tree F -> Prop :=
| tree_equiv_node : forall f g ps ks ks',
    fields_equiv f g -> Forall2 tree_equiv ks ks' -> tree_equiv (Node f ps ks) (Node g ps ks').

Definition wbs_equiv (a b : wbs F) : Prop := Forall2 tree_equiv a b.
End Equiv.

Definition BOM : N := 65279%N.

Section Main.
Context {F : Type}.
Variable repr_float : F -> text.
Variable parse_float : text -> option F.
Variable f_neg : F -> bool.
Hypothesis float_roundtrip : forall x, parse_float (repr_float x) = Some x.
Hypothesis float_nonempty : forall x, repr_float x <> [].

(* the two component theorems: Csv/RowsProofs.v (cells and rows) and Csv/AssembleProofs.v (the forest) *)
Definition rows_level := rows_to_raws_to_rows repr_float parse_float float_roundtrip float_nonempty.
Definition forest_level := assemble_flatten_plain f_neg.

(* the domain of the property: every task is expressible in the layout, ids are unique, dependencies
   stay inside the WBS *)
Definition wbs_ok (w : wbs F) : Prop :=
  Forall raw_ok (flatten_plain w) /\ graph_ok f_neg (flatten_plain w).

(* ---- flatten = flatten_plain on the domain ---- *)
Lemma raw_fields_id (f : fields F) :
  Forall custom_name_ok (map fst (f_custom F f)) -> raw_fields F f = f.
Proof.
  intro H. destruct f as [i n r s e es sp m ms cs]. unfold raw_fields. cbn [f_id f_name f_resource f_start f_end
    f_estimate f_spent f_milestone f_min_start f_custom] in *. f_equal.
  apply filter_all. rewrite Forall_map in H. eapply Forall_impl; [|exact H].
  intros kv Hkv. apply Hkv.
Qed.

Lemma flat_is_plain : forall (t : tree F) p,
  Forall raw_ok (flat_plain p t) -> flat F p t = flat_plain p t.
Proof.
  intro t. induction t as [f ps ks IH] using tree_ind'. intros p H.
  cbn [flat flat_plain] in *. inversion H as [|? ? Hr Hk]; subst.
  rewrite raw_fields_id by apply Hr. f_equal.
  apply flat_map_ext_Forall. apply Forall_flat_map in Hk.
  rewrite Forall_forall in IH, Hk |- *. intros k Hin. apply IH; [assumption|apply Hk; assumption].
Qed.

Lemma flatten_is_plain (w : wbs F) : Forall raw_ok (flatten_plain w) -> flatten F w = flatten_plain w.
Proof.
  intro H. unfold flatten, flatten_plain in *. apply flat_map_ext_Forall.
  apply Forall_flat_map in H. eapply Forall_impl; [|exact H]. intros t Ht. apply flat_is_plain. exact Ht.
Qed.

(* ---- norm_raw commutes with flattening ---- *)
Lemma norm_fields_id cols (f : fields F) : f_id F (norm_fields F cols f) = f_id F f.
Proof. reflexivity. Qed.

Lemma map_norm_flat cols : forall (t : tree F) p,
  map (norm_raw cols) (flat_plain p t) = flat_plain p (map_tree (norm_fields F cols) t).
Proof.
  intro t. induction t as [f ps ks IH] using tree_ind'. intro p.
  cbn [flat_plain map_tree map]. unfold norm_raw at 1. cbn [r_f r_parent r_preds]. f_equal.
  rewrite map_flat_map, flat_map_map. apply flat_map_ext_Forall.
  eapply Forall_impl; [|exact IH]. intros k Hk. apply Hk.
Qed.

Lemma map_norm_flatten cols (w : wbs F) :
  map (norm_raw cols) (flatten_plain w) = flatten_plain (map (map_tree (norm_fields F cols)) w).
Proof.
  unfold flatten_plain. rewrite map_flat_map, flat_map_map. apply flat_map_ext_Forall.
  apply Forall_forall. intros t _. apply map_norm_flat.
Qed.

(* ---- graph_ok only looks at ids, dependencies and amounts ---- *)
Lemma graph_ok_norm cols (raws : list (raw F)) :
  graph_ok f_neg raws -> graph_ok f_neg (map (norm_raw cols) raws).
Proof.
  intros [Hn Hf]. unfold graph_ok.
  assert (E : map (raw_id F) (map (norm_raw cols) raws) = map (raw_id F) raws).
  { rewrite map_map. apply map_ext. intro r. reflexivity. }
  rewrite E. split; [assumption|]. rewrite Forall_map. eapply Forall_impl; [|exact Hf].
  intros r Hr. exact Hr.
Qed.

(* ---- without repeated dependencies norm_tree only touches the fields ---- *)
Lemma norm_tree_map cols : forall (t : tree F) p,
  Forall (fun r => NoDup (r_preds F r)) (flat_plain p t) ->
  norm_tree F cols t = map_tree (norm_fields F cols) t.
Proof.
  intro t. induction t as [f ps ks IH] using tree_ind'. intros p H.
  cbn [flat_plain norm_tree map_tree] in *. inversion H as [|? ? Hr Hk]; subst. cbn [r_preds] in Hr.
  rewrite dedup_z_nil_NoDup by assumption. f_equal.
  apply map_ext_Forall. apply Forall_flat_map in Hk.
  rewrite Forall_forall in IH, Hk |- *. intros k Hin. eapply IH; [assumption|apply Hk; assumption].
Qed.

Lemma normalize_map (w : wbs F) :
  graph_ok f_neg (flatten_plain w) -> Forall raw_ok (flatten_plain w) ->
  normalize F w = map (map_tree (norm_fields F (custom_columns F (flatten_plain w)))) w.
Proof.
  intros [_ Hg] Hr. unfold normalize. rewrite flatten_is_plain by assumption.
  apply map_ext_Forall. unfold flatten_plain in Hg. apply Forall_flat_map in Hg.
  eapply Forall_impl; [|exact Hg]. intros t Ht. apply (norm_tree_map _ t None).
  eapply Forall_impl; [|exact Ht]. intros r Hx. apply Hx.
Qed.

(* ---- the delimiter of the code is a good one ---- *)
Lemma delim_ok : csv_delimiter_write = [delim] /\ csv_delimiter_read = [delim]
  /\ delim <> QUOTE /\ delim <> CR /\ delim <> LF.
Proof. repeat split; discriminate. Qed.

Lemma read_delim : hd 0%N csv_delimiter_read = delim.
Proof. reflexivity. Qed.

(* ---- rows level ---- *)
Theorem read_rows_to_rows (w : wbs F) : wbs_ok w ->
  read_rows F parse_float f_neg (to_rows F repr_float (flatten F w)) = Ok (normalize F w).
Proof.
  intros [Hr Hg]. rewrite flatten_is_plain by assumption.
  unfold to_rows, read_rows. rewrite rows_level by assumption. cbn [bind].
  rewrite map_norm_flatten. rewrite forest_level.
  - rewrite normalize_map by assumption. reflexivity.
  - rewrite <- map_norm_flatten. apply graph_ok_norm. assumption.
Qed.

(* ---- the file level: read_csv (write_csv w) ---- *)
Theorem read_write_model (w : wbs F) : wbs_ok w ->
  read_model F parse_float f_neg delim (write_model F repr_float delim w) = Some (Ok (normalize F w)).
Proof.
  intro H. unfold read_model, write_model.
  destruct delim_ok as (_ & _ & Hq & Hc & Hl).
  rewrite parse_print_csv by assumption. rewrite read_rows_to_rows by assumption. reflexivity.
Qed.

(* ---- a byte-order mark in front of the file ---- *)
Lemma bom_facts : In BOM csv_header_strip /\ special delim BOM = false
  /\ needs_quote delim K_ID = false /\ hd_error csv_default_fields = Some K_ID
  /\ strip_cell (BOM :: K_ID) = strip_cell K_ID.
Proof. repeat split. left. reflexivity. Qed.

Lemma rows_to_raws_bom (h : row) (data : list row) :
  rows_to_raws F parse_float ((BOM :: K_ID) :: h) data = rows_to_raws F parse_float (K_ID :: h) data.
Proof.
  unfold rows_to_raws. cbn [map]. destruct bom_facts as (_ & _ & _ & _ & E). rewrite E. reflexivity.
Qed.

Theorem read_bom_write_model (w : wbs F) :
  read_model F parse_float f_neg delim (BOM :: write_model F repr_float delim w)
  = read_model F parse_float f_neg delim (write_model F repr_float delim w).
Proof.
  unfold read_model, write_model, to_rows.
  destruct delim_ok as (_ & _ & Hq & Hc & Hl). destruct bom_facts as (_ & Hs & Hn & _ & _).
  set (cols := custom_columns F (flatten F w)).
  set (data := map (raw_to_row F repr_float cols) (flatten F w)).
  change (csv_default_fields ++ cols) with (K_ID :: (tl csv_default_fields ++ cols)).
  rewrite parse_print_csv_prefix by (try assumption; left; discriminate).
  rewrite parse_print_csv by assumption.
  unfold read_rows. rewrite rows_to_raws_bom. reflexivity.
Qed.

End Main.
