(* C13 - round trips of the cell codecs (Csv/Fields.v). *)
From Coq Require Import Decimal DecimalZ DecimalPos.
From PJ Require Export Csv.DateSweep.
From PJ Require Import Base.Prelude Csv.CsvModel Csv.Fields Csv.DateSweepCsv Csv.DateSweepIso gen.Consts.
Open Scope N_scope.

(* ---------- text ---------- *)
Lemma text_eqb_eq : forall a b, text_eqb a b = true <-> a = b.
Proof. apply list_eqb_spec. intros x y. apply N.eqb_eq. Qed.

Lemma text_eqb_refl : forall a, text_eqb a a = true.
Proof. intro a. apply text_eqb_eq. reflexivity. Qed.

(* an absent text and the empty text are the same thing for the property *)
Definition text_equiv (a b : option text) : Prop := print_opt_text a = print_opt_text b.

Lemma opt_text_roundtrip : forall o, text_equiv (parse_opt_text (print_opt_text o)) o.
Proof. intros [[|c t]|]; reflexivity. Qed.

Lemma opt_text_roundtrip_exact : forall t, t <> [] -> parse_opt_text (print_opt_text (Some t)) = Some t.
Proof. intros [|c t] H; [congruence|reflexivity]. Qed.

Lemma print_parse_opt_text : forall t, print_opt_text (parse_opt_text t) = t.
Proof. intros [|c t]; reflexivity. Qed.

(* ---------- integers ---------- *)
Lemma parse_print_uint : forall u, parse_uint (print_uint u) = Some u.
Proof.
  induction u as [|u IH|u IH|u IH|u IH|u IH|u IH|u IH|u IH|u IH|u IH];
    cbn [print_uint parse_uint]; try reflexivity; rewrite IH; reflexivity.
Qed.

Lemma print_uint_chars : forall u, Forall (fun c => (48 <=? c) && (c <=? 57) = true) (print_uint u).
Proof.
  induction u as [|u IH|u IH|u IH|u IH|u IH|u IH|u IH|u IH|u IH|u IH];
    cbn [print_uint]; constructor; try assumption; reflexivity.
Qed.

Lemma print_uint_nonnil : forall u, u <> Nil -> print_uint u <> [].
Proof. intros [|u|u|u|u|u|u|u|u|u|u] H; cbn [print_uint]; congruence. Qed.

Lemma to_int_nonnil : forall z, match Z.to_int z with Decimal.Pos u | Decimal.Neg u => u <> Nil end.
Proof.
  intros [|p|p]; cbn [Z.to_int].
  - discriminate.
  - apply Unsigned.to_uint_nonnil.
  - apply Unsigned.to_uint_nonnil.
Qed.

Theorem parse_print_int : forall z, parse_int (print_int z) = Some z.
Proof.
  intro z. pose proof (DecimalZ.of_to z) as Hz. pose proof (to_int_nonnil z) as Hn.
  unfold print_int. destruct (Z.to_int z) as [u|u].
  - pose proof (print_uint_nonnil u Hn) as Hne. pose proof (print_uint_chars u) as Hc.
    pose proof (parse_print_uint u) as Hp.
    destruct (print_uint u) as [|c r]; [congruence|].
    unfold parse_int. apply Forall_inv in Hc. rename Hc into Hc1.
    destruct (N.eqb_spec c MINUS) as [E|E].
    + subst c. discriminate Hc1.
    + rewrite Hp. cbn [option_map]. rewrite Hz. reflexivity.
  - pose proof (print_uint_nonnil u Hn) as Hne. pose proof (parse_print_uint u) as Hp.
    unfold parse_int. rewrite N.eqb_refl.
    destruct (print_uint u) as [|c r]; [congruence|].
    rewrite Hp. cbn [option_map]. rewrite Hz. reflexivity.
Qed.

Lemma print_int_chars : forall z, Forall (fun c => is_int_char c = true) (print_int z).
Proof.
  intro z. unfold print_int.
  assert (H : forall u, Forall (fun c => is_int_char c = true) (print_uint u)).
  { intro u. eapply Forall_impl; [|apply print_uint_chars]. intros c Hc. unfold is_int_char. rewrite Hc. apply orb_true_r. }
  destruct (Z.to_int z) as [u|u]; [apply H|]. constructor; [reflexivity|apply H].
Qed.

Lemma print_int_nonempty : forall z, print_int z <> [].
Proof.
  intro z. pose proof (to_int_nonnil z) as Hn. unfold print_int.
  destruct (Z.to_int z) as [u|u]; [apply print_uint_nonnil; assumption|discriminate].
Qed.

(* ---------- booleans ---------- *)
Theorem parse_print_bool : forall b, parse_bool csv_bool_true (print_bool b) = b.
Proof. intros [|]; reflexivity. Qed.

(* ---------- predecessor lists ---------- *)
Lemma split_at_app : forall sep x cur t,
  Forall (fun c => c <> sep) x -> split_at sep cur (x ++ t) = split_at sep (rev x ++ cur) t.
Proof.
  intros sep x. induction x as [|c x IH]; intros cur t Hx; [reflexivity|].
  inversion Hx as [|? ? Hc Hx']; subst. cbn [app split_at].
  destruct (N.eqb_spec c sep) as [E|E]; [contradiction|].
  rewrite IH by assumption. cbn [rev]. rewrite <- app_assoc. reflexivity.
Qed.

Lemma split_join : forall sep l cur,
  l <> [] -> Forall (Forall (fun c => c <> sep)) l ->
  split_at sep cur (join_with sep l) = (rev cur ++ hd [] l) :: tl l.
Proof.
  intros sep l. induction l as [|x r IH]; intros cur Hne Hl; [congruence|].
  inversion Hl as [|? ? Hx Hr]; subst. cbn [join_with hd tl].
  destruct r as [|y r'].
  - rewrite <- (app_nil_r x) at 1. rewrite split_at_app by assumption.
    cbn [split_at]. rewrite rev_app_distr, rev_involutive. reflexivity.
  - rewrite split_at_app by assumption. cbn [split_at]. rewrite N.eqb_refl.
    rewrite rev_app_distr, rev_involutive. f_equal.
    rewrite IH by (try assumption; discriminate). reflexivity.
Qed.

Lemma all_some_parse_print : forall l, all_some (map parse_int (map print_int l)) = Some l.
Proof.
  induction l as [|z l IH]; [reflexivity|].
  cbn [map all_some]. rewrite parse_print_int, IH. reflexivity.
Qed.

Theorem parse_print_preds : forall sep l,
  is_int_char sep = false -> parse_preds sep (print_preds sep l) = Some l.
Proof.
  intros sep l Hsep. destruct l as [|z l]; [reflexivity|].
  unfold parse_preds, print_preds.
  assert (Hne : join_with sep (map print_int (z :: l)) <> []).
  { cbn [map join_with]. pose proof (print_int_nonempty z) as Hz.
    destruct (print_int z) as [|c r]; [congruence|]. destruct (map print_int l); discriminate. }
  assert (Hl : Forall (Forall (fun c => c <> sep)) (map print_int (z :: l))).
  { apply Forall_forall. intros x Hx. apply in_map_iff in Hx as [y [<- _]].
    eapply Forall_impl; [|apply print_int_chars]. intros c Hc E. subst c. congruence. }
  destruct (join_with sep (map print_int (z :: l))) as [|c r] eqn:E; [congruence|].
  rewrite <- E. rewrite split_join by (try assumption; discriminate).
  cbn [rev app hd tl map]. change (all_some (map parse_int (map print_int (z :: l))) = Some (z :: l)).
  apply all_some_parse_print.
Qed.

(* the separator is the same single character on both sides, and it cannot occur in an id *)
Definition pred_sep : N := hd 0 csv_pred_sep_write.

Lemma pred_sep_ok :
  csv_pred_sep_write = [pred_sep] /\ csv_pred_sep_read = [pred_sep] /\ is_int_char pred_sep = false.
Proof. repeat split. Qed.

(* ---------- dates (sweeps: DateSweep*.v) ---------- *)
Open Scope Z_scope.

(* every day of 1969-01-01 .. 2068-12-31, written with the format of csv_io.py (gen/Consts.v) *)
Theorem parse_format_date : forall d, date_lo <= d < date_hi ->
  parse_date csv_date_items (format_date csv_date_items d) = Some d.
Proof. exact (date_sweep csv_date_items csv_date_sweep). Qed.

Theorem parse_format_iso : forall d, date_lo <= d < date_hi ->
  parse_date iso_items (format_date iso_items d) = Some d.
Proof. exact (date_sweep iso_items iso_date_sweep). Qed.

Lemma date_bounds_are_the_years :
  civil_of_days date_lo = (1969, 1, 1) /\ civil_of_days (date_hi - 1) = (2068, 12, 31) /\ date_hi - date_lo = 36525.
Proof. vm_compute. repeat split. Qed.

Lemma date_cells_plain : forall d, date_lo <= d < date_hi ->
  plain_cell_b (format_date csv_date_items d) = true /\ plain_cell_b (format_date iso_items d) = true.
Proof.
  intros d Hd. split.
  - exact (proj2 (date_sweep_both csv_date_items csv_date_sweep d Hd)).
  - exact (proj2 (date_sweep_both iso_items iso_date_sweep d Hd)).
Qed.
