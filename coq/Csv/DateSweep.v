(* C13 - the finite sweep over the days 1969-01-01 .. 2068-12-31: definitions and the lemma that lifts a
   computed forallb to the statement for every day of the window.  The two sweeps themselves (one per date
   format) are in DateSweepCsv.v and DateSweepIso.v so that they are checked in parallel. *)
From PJ Require Import Base.Prelude Csv.CsvModel Csv.Fields gen.Consts.
Open Scope N_scope.

Open Scope Z_scope.

Definition csv_date_items : list fitem := parse_format csv_date_format.
Definition iso_items : list fitem := parse_format iso_format.

Definition sweep_len : nat := Z.to_nat (date_hi - date_lo).

(* the days start, start+1, ..., start+n-1 (built by counting up in Z: linear time) *)
Fixpoint zrange (n : nat) (start : Z) : list Z :=
  match n with
  | O => []
  | S k => start :: zrange k (start + 1)
  end.

Lemma in_zrange : forall n start d, start <= d < start + Z.of_nat n -> In d (zrange n start).
Proof.
  induction n as [|k IH]; intros start d Hd; [lia|].
  cbn [zrange]. destruct (Z.eq_dec start d) as [E|E]; [left; exact E|].
  right. apply IH. lia.
Qed.

Definition sweep_days : list Z := zrange sweep_len date_lo.

(* the written date cells contain no character that would need quoting and are not empty *)
Definition plain_cell_b (t : text) : bool :=
  negb (match t with [] => true | _ => false end) && negb (existsb (fun c => special 59 c || special 44 c) t).

(* one day: the cell is plain and parses back to the day (the cell is formatted once) *)
Definition date_roundtrip_b (items : list fitem) (d : Z) : bool :=
  let t := format_date items d in
  plain_cell_b t && match parse_date items t with
                    | Some d' => d' =? d
                    | None => false
                    end.

Lemma date_sweep_both (items : list fitem) :
  forallb (date_roundtrip_b items) sweep_days = true ->
  forall d, date_lo <= d < date_hi ->
  parse_date items (format_date items d) = Some d /\ plain_cell_b (format_date items d) = true.
Proof.
  intros H d Hd. rewrite forallb_forall in H.
  assert (Hin : In d sweep_days).
  { apply in_zrange. unfold sweep_len, date_lo, date_hi in *. lia. }
  specialize (H d Hin). unfold date_roundtrip_b in H. cbv zeta in H.
  apply andb_true_iff in H as [Hp H].
  destruct (parse_date items (format_date items d)) as [d'|]; [|discriminate].
  apply Z.eqb_eq in H. split; [congruence|exact Hp].
Qed.

Lemma date_sweep (items : list fitem) :
  forallb (date_roundtrip_b items) sweep_days = true ->
  forall d, date_lo <= d < date_hi -> parse_date items (format_date items d) = Some d.
Proof. intros H d Hd. exact (proj1 (date_sweep_both items H d Hd)). Qed.

