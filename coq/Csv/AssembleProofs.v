(* C13 - raws_to_wbs rebuilds a forest from its depth-first list of records:
   assemble (flatten_plain w) = Ok w whenever the ids are pairwise distinct, the predecessor
   lists are without repetitions and inside the WBS, and no amount is negative.
   Proofs only (the model is Csv/Wbs.v, the vocabulary Csv/WbsSpec.v). *)
From PJ Require Import Base.Prelude Csv.CsvModel Csv.Fields Csv.Wbs Csv.WbsSpec.
Open Scope Z_scope.

(* ---------- lists: boolean / Prop bridges ---------- *)

Lemma mem_z_In x l : mem_z x l = true <-> In x l.
Proof.
  unfold mem_z. rewrite existsb_exists. split.
  - intros [y [Hy E]]. apply Z.eqb_eq in E. subst y. exact Hy.
  - intro H. exists x. split; [exact H | apply Z.eqb_refl].
Qed.

Lemma mem_z_false x l : ~ In x l -> mem_z x l = false.
Proof.
  intro H. destruct (mem_z x l) eqn:E; [|reflexivity].
  apply mem_z_In in E. contradiction.
Qed.

Lemma nodup_zb_NoDup l : nodup_zb l = true <-> NoDup l.
Proof.
  induction l as [|x l IH]; cbn [nodup_zb].
  - split; [constructor | reflexivity].
  - rewrite andb_true_iff, negb_true_iff, IH. split.
    + intros [H1 H2]. constructor; [|exact H2].
      intro HI. apply mem_z_In in HI. congruence.
    + intro H. inversion H as [|? ? H1 H2]; subst.
      split; [apply mem_z_false; exact H1 | exact H2].
Qed.

Lemma dedup_z_NoDup : forall l seen,
  NoDup l -> (forall x, In x l -> ~ In x seen) -> dedup_z seen l = l.
Proof.
  induction l as [|x l IH]; intros seen Hnd Hdis; cbn [dedup_z]; [reflexivity|].
  inversion Hnd as [|? ? Hx Hl]; subst.
  rewrite mem_z_false by (apply Hdis; left; reflexivity).
  f_equal. apply IH; [exact Hl|].
  intros y Hy [E|Hs].
  - subst y. contradiction.
  - exact (Hdis y (or_intror Hy) Hs).
Qed.

Lemma dedup_z_nil_NoDup l : NoDup l -> dedup_z [] l = l.
Proof. intro H. apply dedup_z_NoDup; [exact H|]. intros x _ []. Qed.

Lemma NoDup_app_inv {A} (a b : list A) :
  NoDup (a ++ b) -> NoDup a /\ NoDup b /\ (forall x, In x a -> ~ In x b).
Proof.
  induction a as [|x a IH]; cbn [app]; intro H.
  - split; [constructor|]. split; [exact H|]. intros x [].
  - inversion H as [|? ? Hx Hr]; subst. destruct (IH Hr) as [Ha [Hb Hd]].
    split. { constructor; [|exact Ha]. intro HI. apply Hx. apply in_or_app. left; exact HI. }
    split; [exact Hb|].
    intros y [E|Hy] Hyb.
    + subst y. apply Hx. apply in_or_app. right; exact Hyb.
    + exact (Hd y Hy Hyb).
Qed.

Lemma filter_none {A} (f : A -> bool) l : (forall x, In x l -> f x = false) -> filter f l = [].
Proof.
  induction l as [|x l IH]; cbn [filter]; intro H; [reflexivity|].
  rewrite (H x (or_introl eq_refl)). apply IH. intros y Hy. apply H. right; exact Hy.
Qed.

Lemma existsb_none {A} (f : A -> bool) l : Forall (fun x => f x = false) l -> existsb f l = false.
Proof.
  induction 1 as [|x l Hx _ IH]; cbn [existsb]; [reflexivity|]. rewrite Hx, IH. reflexivity.
Qed.

Section Assemble.
Context {F : Type}.
Variable f_neg : F -> bool.

(* ---------- vocabulary ---------- *)

Definition tid (t : tree F) : Z := f_id F (t_fields F t).
(* the record of the node t under the parent p *)
Definition root_raw (p : option Z) (t : tree F) : raw F := mkraw (t_fields F t) p (t_preds F t).
(* a forest flattened under the parent p *)
Definition fl (p : option Z) (ks : list (tree F)) : list (raw F) := flat_map (flat_plain p) ks.
Definition ids (l : list (raw F)) : list Z := map (raw_id F) l.

(* t is a node of k, at any depth *)
Inductive sub (t : tree F) : tree F -> Prop :=
| sub_refl : sub t t
| sub_kid f ps ks k : In k ks -> sub t k -> sub t (Node f ps ks).

Lemma flat_plain_eq p t : flat_plain p t = root_raw p t :: fl (Some (tid t)) (t_kids F t).
Proof. destruct t; reflexivity. Qed.

Lemma fl_cons p k ks : fl p (k :: ks) = flat_plain p k ++ fl p ks.
Proof. reflexivity. Qed.

Lemma fl_app p l1 l2 : fl p (l1 ++ l2) = fl p l1 ++ fl p l2.
Proof. apply flat_map_app. Qed.

Lemma ids_app a b : ids (a ++ b) = ids a ++ ids b.
Proof. apply map_app. Qed.

Lemma ids_cons r l : ids (r :: l) = raw_id F r :: ids l.
Proof. reflexivity. Qed.

Lemma raw_id_root_raw p t : raw_id F (root_raw p t) = tid t.
Proof. reflexivity. Qed.

Lemma in_fl p ks k r : In k ks -> In r (flat_plain p k) -> In r (fl p ks).
Proof. intros Hk Hr. apply in_flat_map. exists k. split; assumption. Qed.

Lemma in_ids_fl p ks k j : In k ks -> In j (ids (flat_plain p k)) -> In j (ids (fl p ks)).
Proof.
  intros Hk Hj. apply in_map_iff in Hj as [r [E Hr]]. apply in_map_iff.
  exists r. split; [exact E | exact (in_fl p ks k r Hk Hr)].
Qed.

(* ---------- induction over trees with the kids as a Forall ---------- *)

Section TreeInd.
  Variable P : tree F -> Prop.
  Hypothesis HNode : forall f ps ks, Forall P ks -> P (Node f ps ks).
  Fixpoint tree_ind' (t : tree F) : P t :=
    match t with
    | Node f ps ks =>
        HNode f ps ks
          ((fix go (l : list (tree F)) : Forall P l :=
              match l with
              | [] => Forall_nil P
              | k :: r => Forall_cons k (tree_ind' k) (go r)
              end) ks)
    end.
End TreeInd.

(* ---------- sizes (independent of uniqueness) ---------- *)

Lemma tree_size_flat : forall t p, tree_size F t = length (flat_plain p t).
Proof.
  induction t as [f ps ks IH] using tree_ind'. intro p.
  cbn [tree_size flat_plain length]. f_equal.
  induction IH as [|k r Hk _ IHr]; cbn [fold_right flat_map]; [reflexivity|].
  rewrite app_length, <- (Hk (Some (f_id F f))), IHr. reflexivity.
Qed.

Lemma forest_size_flat : forall w p, forest_size F w = length (fl p w).
Proof.
  induction w as [|k w IH]; intro p; [reflexivity|].
  rewrite fl_cons, app_length, <- tree_size_flat, <- IH. reflexivity.
Qed.

Lemma tree_size_le_forest : forall w t, In t w -> (tree_size F t <= forest_size F w)%nat.
Proof.
  induction w as [|k w IH]; intros t Ht; [destruct Ht|].
  change (forest_size F (k :: w)) with (tree_size F k + forest_size F w)%nat.
  destruct Ht as [E|Ht]; [subst k; lia|]. specialize (IH t Ht). lia.
Qed.

Lemma tree_size_kid f ps ks k : In k ks -> (tree_size F k < tree_size F (Node f ps ks))%nat.
Proof.
  intro Hk. change (tree_size F (Node f ps ks)) with (S (forest_size F ks)).
  pose proof (tree_size_le_forest ks k Hk). lia.
Qed.

(* ---------- where the nodes of a tree are in its flattening ---------- *)

Lemma sub_in_flat t k : sub t k -> forall p, exists p', In (root_raw p' t) (flat_plain p k).
Proof.
  induction 1 as [|f ps ks k Hk Hsub IH]; intro p.
  - exists p. rewrite flat_plain_eq. left. reflexivity.
  - destruct (IH (Some (f_id F f))) as [p' Hp']. exists p'.
    cbn [flat_plain]. right. exact (in_fl _ ks k _ Hk Hp').
Qed.

Lemma sub_id_in t k p : sub t k -> In (tid t) (ids (flat_plain p k)).
Proof.
  intro Hs. destruct (sub_in_flat t k Hs p) as [p' Hp'].
  rewrite <- (raw_id_root_raw p' t). apply in_map. exact Hp'.
Qed.

(* ---------- the parent of every record of a flattening ---------- *)

Definition parents_closed (p : option Z) (l : list (raw F)) : Prop :=
  forall r, In r l -> r_parent F r = p \/ exists j, r_parent F r = Some j /\ In j (ids l).

Lemma parents_closed_flat : forall t p, parents_closed p (flat_plain p t).
Proof.
  induction t as [f ps ks IH] using tree_ind'. intros p r Hr.
  rewrite Forall_forall in IH.
  cbn [flat_plain] in Hr |- *. destruct Hr as [E|Hr].
  - left. subst r. reflexivity.
  - right. apply in_flat_map in Hr as [k [Hk Hr]].
    destruct (IH k Hk _ r Hr) as [E|[j [E Hj]]].
    + exists (f_id F f). split; [exact E|]. left. reflexivity.
    + exists j. split; [exact E|]. rewrite ids_cons. right.
      exact (in_ids_fl _ ks k j Hk Hj).
Qed.

Lemma parents_closed_fl ks p : parents_closed p (fl p ks).
Proof.
  intros r Hr. apply in_flat_map in Hr as [k [Hk Hr]].
  destruct (parents_closed_flat k p r Hr) as [E|[j [E Hj]]]; [left; exact E|].
  right. exists j. split; [exact E | exact (in_ids_fl p ks k j Hk Hj)].
Qed.

(* no record of l is a child of q when q is neither the outer parent nor an id of l *)
Lemma filter_child_none p l q :
  parents_closed p l -> ~ In q (ids l) -> p <> Some q -> filter (child_of F q) l = [].
Proof.
  intros Hpc Hq Hp. apply filter_none. intros r Hr. unfold child_of.
  destruct (Hpc r Hr) as [E|[j [E Hj]]]; rewrite E.
  - destruct p as [p'|]; [|reflexivity]. apply Z.eqb_neq. congruence.
  - apply Z.eqb_neq. intro Ej. subst j. contradiction.
Qed.

(* the children of q in its own kids, flattened: the records of the kids, in order *)
Lemma filter_child_kids q : forall ks,
  ~ In q (ids (fl (Some q) ks)) ->
  filter (child_of F q) (fl (Some q) ks) = map (root_raw (Some q)) ks.
Proof.
  induction ks as [|k ks IH]; intro Hq; [reflexivity|].
  rewrite fl_cons, ids_app in Hq. rewrite fl_cons, filter_app.
  rewrite IH by (intro HI; apply Hq; apply in_or_app; right; exact HI).
  cbn [map]. change (root_raw (Some q) k :: map (root_raw (Some q)) ks)
    with ([root_raw (Some q) k] ++ map (root_raw (Some q)) ks). f_equal.
  assert (Hqk : ~ In q (ids (flat_plain (Some q) k))).
  { intro HI. apply Hq. apply in_or_app. left; exact HI. }
  rewrite flat_plain_eq in Hqk |- *. rewrite ids_cons, raw_id_root_raw in Hqk.
  cbn [filter]. unfold child_of at 1. cbn [r_parent root_raw]. rewrite Z.eqb_refl. f_equal.
  apply (filter_child_none (Some (tid k))).
  - apply parents_closed_fl.
  - intro HI. apply Hqk. right; exact HI.
  - intro E. apply Hqk. left. congruence.
Qed.

(* ---------- with unique ids: the children of a node, as the whole list sees them ---------- *)

Lemma NoDup_fl_in p ks k : NoDup (ids (fl p ks)) -> In k ks -> NoDup (ids (flat_plain p k)).
Proof.
  intros Hnd Hk. apply in_split in Hk as [l1 [l2 E]]. subst ks.
  rewrite fl_app, fl_cons, !ids_app in Hnd.
  apply NoDup_app_inv in Hnd as [_ [Hnd _]].
  apply NoDup_app_inv in Hnd as [Hnd _]. exact Hnd.
Qed.

Lemma filter_child_split p ks k q :
  In k ks -> NoDup (ids (fl p ks)) -> In q (ids (flat_plain p k)) -> p <> Some q ->
  filter (child_of F q) (fl p ks) = filter (child_of F q) (flat_plain p k).
Proof.
  intros Hk Hnd Hq Hp. apply in_split in Hk as [l1 [l2 E]]. subst ks.
  rewrite fl_app, fl_cons, !ids_app in Hnd. rewrite fl_app, fl_cons, !filter_app.
  apply NoDup_app_inv in Hnd as [_ [Hnd Hd1]].
  apply NoDup_app_inv in Hnd as [_ [_ Hd2]].
  rewrite (filter_child_none p (fl p l1) q), (filter_child_none p (fl p l2) q).
  - rewrite app_nil_r. reflexivity.
  - apply parents_closed_fl.
  - exact (Hd2 q Hq).
  - exact Hp.
  - apply parents_closed_fl.
  - intro HI. apply (Hd1 q HI). apply in_or_app. left; exact Hq.
  - exact Hp.
Qed.

Lemma filter_child_tree t k : sub t k -> forall p,
  NoDup (ids (flat_plain p k)) ->
  (forall j, In j (ids (flat_plain p k)) -> p <> Some j) ->
  filter (child_of F (tid t)) (flat_plain p k) = map (root_raw (Some (tid t))) (t_kids F t).
Proof.
  induction 1 as [|f ps ks k Hk Hsub IH]; intros p Hnd Hp.
  - rewrite flat_plain_eq in Hnd, Hp |- *. rewrite ids_cons, raw_id_root_raw in Hnd, Hp.
    inversion Hnd as [|? ? Hhd Htl]; subst.
    cbn [filter]. replace (child_of F (tid t) (root_raw p t)) with false.
    + apply filter_child_kids. exact Hhd.
    + symmetry. unfold child_of. cbn [r_parent root_raw].
      destruct p as [p'|]; [|reflexivity]. apply Z.eqb_neq.
      intro E. apply (Hp (tid t)); [left; reflexivity | congruence].
  - pose proof (sub_id_in t k (Some (f_id F f)) Hsub) as Hin.
    cbn [flat_plain] in Hnd, Hp |- *. rewrite ids_cons in Hnd, Hp.
    change (raw_id F (mkraw f p ps)) with (f_id F f) in Hnd, Hp.
    inversion Hnd as [|? ? Hhd Htl]; subst.
    assert (Hin' : In (tid t) (ids (flat_map (flat_plain (Some (f_id F f))) ks)))
      by exact (in_ids_fl _ ks k _ Hk Hin).
    cbn [filter]. replace (child_of F (tid t) (mkraw f p ps)) with false.
    + change (flat_map (flat_plain (Some (f_id F f))) ks) with (fl (Some (f_id F f)) ks) in *.
      rewrite (filter_child_split (Some (f_id F f)) ks k (tid t) Hk Htl Hin).
      * apply IH.
        -- exact (NoDup_fl_in _ ks k Htl Hk).
        -- intros j Hj E. apply Hhd. injection E as E. subst j.
           exact (in_ids_fl _ ks k _ Hk Hj).
      * intro E. apply Hhd. injection E as E. rewrite E at 1. exact Hin'.
    + symmetry. unfold child_of. cbn [r_parent].
      destruct p as [p'|]; [|reflexivity]. apply Z.eqb_neq.
      intro E. apply (Hp (tid t)); [right; exact Hin' | congruence].
Qed.

Lemma filter_child_forest w k t :
  NoDup (ids (flatten_plain w)) -> In k w -> sub t k ->
  filter (child_of F (tid t)) (flatten_plain w) = map (root_raw (Some (tid t))) (t_kids F t).
Proof.
  intros Hnd Hk Hsub. change (flatten_plain w) with (fl None w) in *.
  rewrite (filter_child_split None w k (tid t) Hk Hnd (sub_id_in t k None Hsub)) by discriminate.
  apply filter_child_tree; [exact Hsub | exact (NoDup_fl_in None w k Hnd Hk) | discriminate].
Qed.

(* ---------- build gives the node back ---------- *)

Lemma build_node all : forall fuel t p,
  (forall t', sub t' t ->
     filter (child_of F (tid t')) all = map (root_raw (Some (tid t'))) (t_kids F t')
     /\ NoDup (t_preds F t')) ->
  (tree_size F t <= fuel)%nat ->
  build F fuel all (root_raw p t) = t.
Proof.
  induction fuel as [|n IH]; intros t p Hsub Hsz.
  - destruct t; cbn [tree_size] in Hsz; lia.
  - destruct (Hsub t (sub_refl t)) as [Hf Hps].
    destruct t as [f ps ks]. cbn [build]. cbn [r_f r_preds root_raw t_fields t_preds].
    rewrite raw_id_root_raw, Hf. cbn [t_preds t_kids] in Hps |- *.
    rewrite (dedup_z_nil_NoDup ps Hps). f_equal.
    rewrite map_map. rewrite <- (map_id ks) at 2. apply map_ext_in.
    intros k Hk. apply IH.
    + intros t' Ht'. apply Hsub. exact (sub_kid t' f ps ks k Hk Ht').
    + pose proof (tree_size_kid f ps ks k Hk). lia.
Qed.

(* ---------- the roots ---------- *)

Lemma filter_root_none idl l i :
  parents_closed (Some i) l -> In i idl -> incl (ids l) idl -> filter (is_root F idl) l = [].
Proof.
  intros Hpc Hi Hincl. apply filter_none. intros r Hr. unfold is_root.
  destruct (Hpc r Hr) as [E|[j [E Hj]]]; rewrite E; apply negb_false_iff, mem_z_In.
  - exact Hi.
  - exact (Hincl j Hj).
Qed.

Lemma filter_root_forest idl : forall w,
  incl (ids (fl None w)) idl -> filter (is_root F idl) (fl None w) = map (root_raw None) w.
Proof.
  induction w as [|k w IH]; intro Hincl; [reflexivity|].
  rewrite fl_cons, ids_app in Hincl. rewrite fl_cons, filter_app.
  rewrite IH by (intros j Hj; apply Hincl; apply in_or_app; right; exact Hj).
  cbn [map]. change (root_raw None k :: map (root_raw None) w)
    with ([root_raw None k] ++ map (root_raw None) w). f_equal.
  assert (Hk : incl (ids (flat_plain None k)) idl).
  { intros j Hj. apply Hincl. apply in_or_app. left; exact Hj. }
  rewrite flat_plain_eq in Hk |- *. rewrite ids_cons, raw_id_root_raw in Hk.
  cbn [filter]. unfold is_root at 1. cbn [r_parent root_raw]. f_equal.
  apply (filter_root_none idl _ (tid k)).
  - apply parents_closed_fl.
  - apply Hk. left; reflexivity.
  - intros j Hj. apply Hk. right; exact Hj.
Qed.

(* ---------- the theorem ---------- *)

Theorem assemble_flatten_plain : forall w : wbs F,
  graph_ok f_neg (flatten_plain w) ->
  assemble F f_neg (flatten_plain w) = Ok w.
Proof.
  intros w [Hnd Hall]. unfold assemble.
  set (all := flatten_plain w) in *.
  change (map (raw_id F) all) with (ids all) in *.
  rewrite (proj2 (nodup_zb_NoDup (ids all)) Hnd). cbn [negb].
  rewrite existsb_none
    by (eapply Forall_impl; [|exact Hall]; intros r [_ [_ Hr]]; exact Hr).
  assert (Hroots : map (build F (length all) all) (filter (is_root F (ids all)) all) = w).
  { unfold all at 4. change (flatten_plain w) with (fl None w).
    rewrite filter_root_forest by (intros j Hj; exact Hj).
    rewrite map_map. rewrite <- (map_id w) at 2. apply map_ext_in.
    intros k Hk. apply build_node.
    - intros t Ht. split.
      + exact (filter_child_forest w k t Hnd Hk Ht).
      + destruct (sub_in_flat t k Ht None) as [p' Hp'].
        rewrite Forall_forall in Hall.
        destruct (Hall (root_raw p' t) (in_fl None w k _ Hk Hp')) as [Hps _]. exact Hps.
    - change (length all) with (length (fl None w)). rewrite <- (forest_size_flat w None).
      exact (tree_size_le_forest w k Hk). }
  rewrite Hroots.
  change (length all) with (length (fl None w)). rewrite <- (forest_size_flat w None).
  rewrite Nat.eqb_refl. cbn [negb].
  replace (forallb (fun r => forallb (fun p => mem_z p (ids all)) (r_preds F r)) all) with true.
  - reflexivity.
  - symmetry. apply forallb_forall. intros r Hr. apply forallb_forall. intros p Hp.
    apply mem_z_In. rewrite Forall_forall in Hall.
    destruct (Hall r Hr) as [_ [Hin _]]. rewrite Forall_forall in Hin. exact (Hin p Hp).
Qed.

End Assemble.
