(* C13 - write_csv / read_csv of pjplan/io/csv_io.py with tasks_to_raws / raws_to_wbs of
   pjplan/io/raw.py, as they behave after the repairs C13-1..3 (a parent with id 0 is written,
   min_start is read back, re-read tasks carry no parent_id / predecessor_ids attributes).
   A WBS is a forest of tasks in sibling order; dates are day numbers (days since 1970-01-01,
   the property speaks of dates at day precision); custom attribute values are what the csv
   writer makes of them: str(value), None for None.
   Float cells are a parameter: repr_float / parse_float stand for Python's str(float) and
   float(text), f_neg for value < 0 (the Task constructor rejects negative estimates).
   Not modelled (the domain of the theorems excludes it, see WbsSpec.v): the graph checks of
   the dependency setters (cycles, links between ancestor and descendant), duplicate ids and
   duplicate column names (answered with Crash OutOfFuel = outside the model).
   Definitions only. *)
From PJ Require Import Base.Prelude Csv.CsvModel Csv.Fields gen.Consts.
Open Scope Z_scope.

(* ---------- names used literally by the code ---------- *)
Definition K_ID : text := [105; 100]%N.
Definition K_NAME : text := [110; 97; 109; 101]%N.
Definition K_RESOURCE : text := [114; 101; 115; 111; 117; 114; 99; 101]%N.
Definition K_START : text := [115; 116; 97; 114; 116]%N.
Definition K_END : text := [101; 110; 100]%N.
Definition K_ESTIMATE : text := [101; 115; 116; 105; 109; 97; 116; 101]%N.
Definition K_SPENT : text := [115; 112; 101; 110; 116]%N.
Definition K_MILESTONE : text := [109; 105; 108; 101; 115; 116; 111; 110; 101]%N.
Definition K_PARENT_ID : text := [112; 97; 114; 101; 110; 116; 95; 105; 100]%N.
Definition K_PREDECESSOR_IDS : text := [112; 114; 101; 100; 101; 99; 101; 115; 115; 111; 114; 95; 105; 100; 115]%N.
Definition K_MIN_START : text := [109; 105; 110; 95; 115; 116; 97; 114; 116]%N.

(* attributes of a TaskRaw set by its constructor (raw.py): a task attribute of that name is
   not copied by tasks_to_raws *)
Definition RAW_FIELDS : list text :=
  [K_ID; K_NAME; K_RESOURCE; K_START; K_END; K_MILESTONE; K_ESTIMATE; K_SPENT; K_PARENT_ID; K_PREDECESSOR_IDS].

Definition mem_text (k : text) (l : list text) : bool := existsb (text_eqb k) l.
Definition mem_z (x : Z) (l : list Z) : bool := existsb (Z.eqb x) l.

(* first occurrences, in order (insertion order of a Python dict) *)
Fixpoint dedup_text (seen : list text) (l : list text) : list text :=
  match l with
  | [] => []
  | k :: r => if mem_text k seen then dedup_text seen r else k :: dedup_text (k :: seen) r
  end.

Fixpoint dedup_z (seen : list Z) (l : list Z) : list Z :=
  match l with
  | [] => []
  | k :: r => if mem_z k seen then dedup_z seen r else k :: dedup_z (k :: seen) r
  end.

Fixpoint assoc_text {A} (k : text) (l : list (text * A)) : option A :=
  match l with
  | [] => None
  | (k', v) :: r => if text_eqb k k' then Some v else assoc_text k r
  end.

Fixpoint index_of (k : text) (l : list text) : option nat :=
  match l with
  | [] => None
  | k' :: r => if text_eqb k k' then Some O else option_map S (index_of k r)
  end.

Fixpoint nodup_textb (l : list text) : bool :=
  match l with [] => true | k :: r => negb (mem_text k r) && nodup_textb r end.

Fixpoint nodup_zb (l : list Z) : bool :=
  match l with [] => true | k :: r => negb (mem_z k r) && nodup_zb r end.

Definition starts_with_underscore (k : text) : bool :=
  match k with c :: _ => (c =? 95)%N | [] => false end.

Definition delim : N := hd 0%N csv_delimiter_write.
Definition date_items : list fitem := parse_format csv_date_format.
Definition iso_date_items : list fitem := parse_format iso_format.
Definition pred_sep_char : N := hd 0%N csv_pred_sep_write.

Section Wbs.
Variable F : Type.
Variable repr_float : F -> text.
Variable parse_float : text -> option F.
Variable f_neg : F -> bool.

Record fields := mkfields {
  f_id : Z;
  f_name : option text;
  f_resource : option text;
  f_start : option Z;
  f_end : option Z;
  f_estimate : option F;
  f_spent : option F;
  f_milestone : bool;
  f_min_start : option Z;
  f_custom : list (text * option text)     (* attribute name, str(value) or None; in __dict__ order *)
}.

Inductive tree := Node (f : fields) (preds : list Z) (kids : list tree).
Definition wbs := list tree.

Definition t_fields (t : tree) : fields := match t with Node f _ _ => f end.
Definition t_preds (t : tree) : list Z := match t with Node _ p _ => p end.
Definition t_kids (t : tree) : list tree := match t with Node _ _ k => k end.

(* TaskRaw *)
Record raw := mkraw { r_f : fields; r_parent : option Z; r_preds : list Z }.
Definition raw_id (r : raw) : Z := f_id (r_f r).

(* ---------- write side ---------- *)

(* attributes tasks_to_raws copies: public, not shadowed by a TaskRaw attribute *)
Definition copied_attr (k : text) : bool := negb (starts_with_underscore k) && negb (mem_text k RAW_FIELDS).

Definition raw_fields (f : fields) : fields :=
  mkfields (f_id f) (f_name f) (f_resource f) (f_start f) (f_end f) (f_estimate f) (f_spent f)
           (f_milestone f) (f_min_start f) (filter (fun kv => copied_attr (fst kv)) (f_custom f)).

(* wbs.tasks is the depth-first, parent-first order *)
Fixpoint flat (p : option Z) (t : tree) : list raw :=
  match t with
  | Node f ps ks => mkraw (raw_fields f) p ps :: flat_map (flat (Some (f_id f))) ks
  end.

Definition flatten (w : wbs) : list raw := flat_map (flat None) w.

(* attribute names of a TaskRaw beyond the default fields, in __dict__ order: min_start (always
   set by the Task constructor, before the custom attributes), then the custom attributes *)
Definition raw_attr_names (r : raw) : list text :=
  filter (fun k => negb (mem_text k csv_default_fields)) (K_MIN_START :: map fst (f_custom (r_f r))).

Definition custom_columns (raws : list raw) : list text := dedup_text [] (flat_map raw_attr_names raws).

Definition opt_cell {A} (p : A -> text) (o : option A) : text := match o with Some x => p x | None => [] end.

(* value of attribute k of a task as the csv writer prints it: absent and None give the empty cell *)
Definition custom_value (k : text) (cs : list (text * option text)) : text :=
  match assoc_text k cs with Some (Some v) => v | _ => [] end.

Definition custom_cell (r : raw) (k : text) : text :=
  if text_eqb k K_MIN_START then opt_cell (format_date iso_date_items) (f_min_start (r_f r))
  else custom_value k (f_custom (r_f r)).

Definition raw_to_row (cols : list text) (r : raw) : row :=
  let f := r_f r in
  [ print_int (f_id f);
    print_opt_text (f_name f);
    print_opt_text (f_resource f);
    opt_cell (format_date date_items) (f_start f);
    opt_cell (format_date date_items) (f_end f);
    opt_cell repr_float (f_estimate f);
    opt_cell repr_float (f_spent f);
    print_bool (f_milestone f);
    opt_cell print_int (r_parent r);
    print_preds pred_sep_char (r_preds r) ]
  ++ map (custom_cell r) cols.

Definition to_rows (raws : list raw) : list row :=
  let cols := custom_columns raws in
  (csv_default_fields ++ cols) :: map (raw_to_row cols) raws.

Definition write_model (d : N) (w : wbs) : text := print_csv d (to_rows (flatten w)).

(* ---------- read side ---------- *)

Definition strip_cell (t : text) : text := filter (fun c => negb (existsb (N.eqb c) csv_header_strip)) t.

Definition cell (names : list text) (k : text) (r : row) : res text :=
  match index_of k names with
  | None => Crash KeyError
  | Some i => match nth_error r i with Some c => Ok c | None => Crash IndexError end
  end.

Definition value_error {A} (o : option A) : res A := match o with Some x => Ok x | None => Crash ValueError end.

Definition opt_parse {A} (p : text -> option A) (t : text) : res (option A) :=
  match t with [] => Ok None | _ :: _ => do x <- value_error (p t); Ok (Some x) end.

Fixpoint all_ok {A} (l : list (res A)) : res (list A) :=
  match l with
  | [] => Ok []
  | x :: r => do a <- x; do r' <- all_ok r; Ok (a :: r')
  end.

(* one data row -> TaskRaw, exceptions in the order the code evaluates things *)
Definition row_to_raw (names : list text) (r : row) : res raw :=
  let custom_keys := filter (fun k => negb (mem_text k csv_default_fields)) names in
  do kwargs <- all_ok (map (fun k => do c <- cell names k r; Ok (k, c)) custom_keys);
  do min_start <- match assoc_text K_MIN_START kwargs with
                  | Some c => opt_parse (parse_date iso_date_items) c
                  | None => Ok None
                  end;
  do c_id <- cell names K_ID r;
  do id <- value_error (parse_int c_id);
  do c_name <- cell names K_NAME r;
  do c_res <- cell names K_RESOURCE r;
  do c_start <- cell names K_START r;
  do start <- opt_parse (parse_date date_items) c_start;
  do c_end <- cell names K_END r;
  do end_ <- opt_parse (parse_date date_items) c_end;
  do c_est <- cell names K_ESTIMATE r;
  do est <- opt_parse parse_float c_est;
  do c_spent <- cell names K_SPENT r;
  do spent <- opt_parse parse_float c_spent;
  do c_mil <- cell names K_MILESTONE r;
  do c_par <- cell names K_PARENT_ID r;
  do par <- opt_parse parse_int c_par;
  do c_pre <- cell names K_PREDECESSOR_IDS r;
  do pre <- value_error (parse_preds (hd 0%N csv_pred_sep_read) c_pre);
  (* raws_to_wbs copies a column to the task unless an instance of Task has that name already *)
  let customs := map (fun kv => (fst kv, Some (snd kv)))
                     (filter (fun kv => negb (mem_text (fst kv) csv_task_reserved)) kwargs) in
  Ok (mkraw (mkfields id (parse_opt_text c_name) (parse_opt_text c_res) start end_ est spent
                      (parse_bool csv_bool_true c_mil) min_start customs) par pre).

Definition rows_to_raws (header : row) (data : list row) : res (list raw) :=
  let names := map strip_cell header in
  if negb (nodup_textb names) then Crash OutOfFuel     (* duplicate column names: outside the model *)
  else all_ok (map (row_to_raw names) data).

(* raws_to_wbs *)
Definition is_root (ids : list Z) (r : raw) : bool :=
  match r_parent r with None => true | Some p => negb (mem_z p ids) end.

Definition child_of (p : Z) (r : raw) : bool :=
  match r_parent r with Some q => q =? p | None => false end.

Fixpoint build (fuel : nat) (all : list raw) (r : raw) : tree :=
  Node (r_f r) (dedup_z [] (r_preds r))
       (match fuel with
        | O => []
        | S n => map (build n all) (filter (child_of (raw_id r)) all)
        end).

Fixpoint tree_size (t : tree) : nat :=
  match t with Node _ _ ks => S (fold_right (fun k n => (tree_size k + n)%nat) O ks) end.
Definition forest_size (w : wbs) : nat := fold_right (fun k n => (tree_size k + n)%nat) O w.

Definition negative_amount (r : raw) : bool :=
  match f_estimate (r_f r) with Some x => f_neg x | None => false end
  || match f_spent (r_f r) with Some x => f_neg x | None => false end.

Definition assemble (raws : list raw) : res wbs :=
  let ids := map raw_id raws in
  if negb (nodup_zb ids) then Crash OutOfFuel           (* duplicate ids: outside the model *)
  else if existsb negative_amount raws then Err         (* Task(): Estimate < 0 / Spent < 0 *)
  else
    let roots := map (build (length raws) raws) (filter (is_root ids) raws) in
    if negb (Nat.eqb (forest_size roots) (length raws)) then Err     (* a cycle of parent links *)
    else if negb (forallb (fun r => forallb (fun p => mem_z p ids) (r_preds r)) raws) then Err   (* wbs[id] not found *)
    else Ok roots.

Definition read_rows (rows : list row) : res wbs :=
  match rows with
  | [] => Crash StopIteration                            (* next(csvfile) on an empty file *)
  | header :: data => do raws <- rows_to_raws header data; assemble raws
  end.

(* None = csv.Error (raised while iterating; an exception of an earlier row comes first) *)
Definition read_model (d : N) (s : text) : option (res wbs) :=
  match parse_csv d s with
  | Parsed rows => Some (read_rows rows)
  | ParsedErr before =>
      match before with
      | [] => None
      | header :: data =>
          match rows_to_raws header data with
          | Ok _ => None
          | Err => Some Err
          | Crash k => Some (Crash k)
          end
      end
  end.

(* ---------- what a round trip does to a WBS ---------- *)

(* the re-read WBS: empty texts are None, every task has every (copied, not reserved) column as a
   string attribute, predecessor lists without repetitions *)
Definition norm_fields (cols : list text) (f : fields) : fields :=
  let cs := filter (fun kv => copied_attr (fst kv)) (f_custom f) in
  mkfields (f_id f) (parse_opt_text (print_opt_text (f_name f))) (parse_opt_text (print_opt_text (f_resource f)))
           (f_start f) (f_end f) (f_estimate f) (f_spent f) (f_milestone f) (f_min_start f)
           (map (fun k => (k, Some (custom_value k cs)))
                (filter (fun k => negb (mem_text k csv_task_reserved)) cols)).

Fixpoint norm_tree (cols : list text) (t : tree) : tree :=
  match t with Node f ps ks => Node (norm_fields cols f) (dedup_z [] ps) (map (norm_tree cols) ks) end.

Definition normalize (w : wbs) : wbs := map (norm_tree (custom_columns (flatten w))) w.

End Wbs.

Arguments Node {F} f preds kids.
Arguments mkfields {F}.
Arguments mkraw {F}.
