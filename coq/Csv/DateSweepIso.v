(* C13 - the sweep for the format of the min_start column (str(datetime) at midnight): 36 525 days, by vm_compute. *)
From PJ Require Import Base.Prelude Csv.CsvModel Csv.Fields Csv.DateSweep gen.Consts.

Lemma iso_date_sweep : forallb (date_roundtrip_b iso_items) sweep_days = true.
Proof. vm_cast_no_check (eq_refl true). Qed.
