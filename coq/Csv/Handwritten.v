(* C13 - hand-written files in another arrangement than the one write_csv produces: the columns in
   another order, optional columns left out, the rows in another order (children before parents).
   Vocabulary of the statements proved in HandwrittenProofs.v.  Definitions only. *)
From Coq Require Import Permutation.
From PJ Require Import Base.Prelude Csv.CsvModel Csv.Fields Csv.Wbs Csv.WbsSpec gen.Consts.
Open Scope Z_scope.

(* ---------- a choice of columns: positions of the written layout, in the order of the file ---------- *)

(* the cells at the positions pi, in that order (what `[r[i] for i in pi]` is in Python) *)
Definition select {A} (d : A) (pi : list nat) (l : list A) : list A := map (fun i => nth i l d) pi.

(* the same choice applied to the header and to every data row *)
Definition select_cols (pi : list nat) (rows : list row) : list row := map (select [] pi) rows.

(* pi names columns of a layout with n columns, each at most once, and every default column (they come
   first in the written layout) is among them *)
Definition col_choice_ok (n : nat) (pi : list nat) : Prop :=
  NoDup pi /\ Forall (fun i => (i < n)%nat) pi /\ (forall i, (i < length csv_default_fields)%nat -> In i pi).

(* all columns but the j-th, in the written order *)
Definition without_col (n j : nat) : list nat := seq 0 j ++ seq (S j) (n - S j).

Definition is_custom_col (k : text) : bool := negb (mem_text k csv_default_fields).

(* boolean forms, for the examples *)
Fixpoint nodup_natb (l : list nat) : bool :=
  match l with [] => true | x :: r => negb (existsb (Nat.eqb x) r) && nodup_natb r end.

Definition col_choice_ok_b (n : nat) (pi : list nat) : bool :=
  nodup_natb pi && forallb (fun i => Nat.ltb i n) pi
  && forallb (fun i => existsb (Nat.eqb i) pi) (seq 0 (length csv_default_fields)).

Definition perm_b (n : nat) (pi : list nat) : bool :=
  nodup_natb pi && forallb (fun i => Nat.ltb i n) pi && Nat.eqb (length pi) n.

Section Layout.
Context {F : Type}.
Variable repr_float : F -> text.

(* the cell of the TaskRaw r in the column called k, as write_csv prints it (Wbs.raw_to_row, by name) *)
Definition cell_of (r : raw F) (k : text) : text :=
  let f := r_f F r in
  if text_eqb k K_ID then print_int (f_id F f)
  else if text_eqb k K_NAME then print_opt_text (f_name F f)
  else if text_eqb k K_RESOURCE then print_opt_text (f_resource F f)
  else if text_eqb k K_START then opt_cell (format_date date_items) (f_start F f)
  else if text_eqb k K_END then opt_cell (format_date date_items) (f_end F f)
  else if text_eqb k K_ESTIMATE then opt_cell repr_float (f_estimate F f)
  else if text_eqb k K_SPENT then opt_cell repr_float (f_spent F f)
  else if text_eqb k K_MILESTONE then print_bool (f_milestone F f)
  else if text_eqb k K_PARENT_ID then opt_cell print_int (r_parent F r)
  else if text_eqb k K_PREDECESSOR_IDS then print_preds pred_sep_char (r_preds F r)
  else custom_cell F r k.

(* the data row of r under the header h *)
Definition row_for (h : list text) (r : raw F) : row := map (cell_of r) h.

(* a header the reader accepts: names distinct, unchanged by the clean-up, all default columns present *)
Definition header_ok (h : list text) : Prop :=
  NoDup h /\ incl csv_default_fields h /\ Forall (fun k => strip_cell k = k) h.

(* ---------- what a file that lacks columns means ---------- *)

(* the task with only the fields that have a column in h: min_start is None without its column,
   custom attributes without a column are absent *)
Definition keep_fields (h : list text) (f : fields F) : fields F :=
  mkfields (f_id F f) (f_name F f) (f_resource F f) (f_start F f) (f_end F f) (f_estimate F f) (f_spent F f)
           (f_milestone F f)
           (if mem_text K_MIN_START h then f_min_start F f else None)
           (filter (fun kv => mem_text (fst kv) h) (f_custom F f)).

Definition keep_cols (h : list text) (w : wbs F) : wbs F := map (map_tree (keep_fields h)) w.

(* the task without the field of the column k: min_start None, or the custom attribute k absent *)
Definition drop_field (k : text) (f : fields F) : fields F :=
  mkfields (f_id F f) (f_name F f) (f_resource F f) (f_start F f) (f_end F f) (f_estimate F f) (f_spent F f)
           (f_milestone F f)
           (if text_eqb k K_MIN_START then None else f_min_start F f)
           (filter (fun kv => negb (text_eqb (fst kv) k)) (f_custom F f)).

Definition drop_column (k : text) (w : wbs F) : wbs F := map (map_tree (drop_field k)) w.

(* exactly what read_csv builds for a task from its row under the header h (custom attributes in the
   order of the header, every one a string; min_start only with its column) *)
Definition layout_fields (h : list text) (f : fields F) : fields F :=
  let g := norm_fields F (filter is_custom_col h) f in
  mkfields (f_id F g) (f_name F g) (f_resource F g) (f_start F g) (f_end F g) (f_estimate F g) (f_spent F g)
           (f_milestone F g)
           (if mem_text K_MIN_START h then f_min_start F g else None)
           (f_custom F g).

Definition map_raw (g : fields F -> fields F) (r : raw F) : raw F :=
  mkraw (g (r_f F r)) (r_parent F r) (r_preds F r).

(* ---------- the rows in another order ---------- *)

(* r is a task under the parent p (None: a root) *)
Definition same_parent (p : option Z) (r : raw F) : bool :=
  match p with
  | Some q => child_of F q r
  | None => match r_parent F r with None => true | Some _ => false end
  end.

(* raws' lists the same TaskRaws as raws, and the tasks under each parent - and the roots - come in the
   same relative order (sibling order is file order); a child may come before its parent *)
Definition sibling_order_kept (raws' raws : list (raw F)) : Prop :=
  Permutation raws' raws /\ forall p, filter (same_parent p) raws' = filter (same_parent p) raws.

End Layout.
