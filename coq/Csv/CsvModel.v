(* C13 - Python's csv module restricted to the dialect used by pjplan/io/csv_io.py:
   excel dialect, a one-character delimiter, the double quote as quotechar, doublequote, QUOTE_MINIMAL, no
   escapechar, skipinitialspace off, strict off, lineterminator CR LF; the file is opened with
   newline=LF on both sides, i.e. no newline translation and lines are split at LF only.
   Text is a list of code points.  Definitions only; proofs are in CsvCodecProofs.v. *)
From PJ Require Import Base.Prelude.
Open Scope N_scope.

Definition text := list N.
Definition row := list text.

Definition QUOTE : N := 34.
Definition CR : N := 13.
Definition LF : N := 10.

Definition is_nl (c : N) : bool := (c =? LF) || (c =? CR).

(* ---------- writer (Modules/_csv.c: join_append_data, join_append, csv_writerow) ---------- *)

(* a character that forces the field to be quoted: the delimiter, the quote character, or a
   character of the line terminator (CR, LF) *)
Definition special (d c : N) : bool := (c =? d) || (c =? QUOTE) || (c =? CR) || (c =? LF).

Definition needs_quote (d : N) (f : text) : bool := existsb (special d) f.

Fixpoint escape (f : text) : text :=
  match f with
  | [] => []
  | c :: r => if c =? QUOTE then QUOTE :: QUOTE :: escape r else c :: escape r
  end.

Definition print_field (d : N) (f : text) : text :=
  if needs_quote d f then QUOTE :: escape f ++ [QUOTE] else f.

Fixpoint join_fields (d : N) (fs : list text) : text :=
  match fs with
  | [] => []
  | f :: r => match r with
              | [] => print_field d f
              | _ :: _ => print_field d f ++ d :: join_fields d r
              end
  end.

(* a record consisting of one empty field is written as two quote characters (csv_writerow: num_fields > 0 and
   rec_len = 0); the empty record is written as a bare line terminator *)
Definition print_row (d : N) (r : row) : text :=
  match r with
  | [ [] ] => [QUOTE; QUOTE; CR; LF]
  | _ => join_fields d r ++ [CR; LF]
  end.

Definition print_csv (d : N) (rows : list row) : text := concat (map (print_row d) rows).

(* ---------- reader (Modules/_csv.c: parse_process_char, Reader_iternext) ---------- *)

Inductive pstate := StartRecord | StartField | InField | InQuoted | QuoteInQuoted | EatCRNL.

(* the field being collected and the fields already saved, both most recent first *)
Record rd := mkrd { st : pstate; fld : text; flds : list text }.

Definition rd_init : rd := mkrd StartRecord [] [].

Definition rd_set (s : rd) (q : pstate) : rd := mkrd q (fld s) (flds s).
Definition rd_add (s : rd) (c : N) (q : pstate) : rd := mkrd q (c :: fld s) (flds s).
Definition rd_save (s : rd) (q : pstate) : rd := mkrd q [] (rev (fld s) :: flds s).

Definition step_start_field (d : N) (s : rd) (c : N) : option rd :=
  if is_nl c then Some (rd_save s EatCRNL)
  else if c =? QUOTE then Some (rd_set s InQuoted)
  else if c =? d then Some (rd_save s StartField)
  else Some (rd_add s c InField).

(* one character; None = csv.Error *)
Definition step (d : N) (s : rd) (c : N) : option rd :=
  match st s with
  | StartRecord => if is_nl c then Some (rd_set s EatCRNL) else step_start_field d s c
  | StartField => step_start_field d s c
  | InField =>
      if is_nl c then Some (rd_save s EatCRNL)
      else if c =? d then Some (rd_save s StartField)
      else Some (rd_add s c InField)
  | InQuoted =>
      if c =? QUOTE then Some (rd_set s QuoteInQuoted) else Some (rd_add s c InQuoted)
  | QuoteInQuoted =>
      if c =? QUOTE then Some (rd_add s c InQuoted)
      else if c =? d then Some (rd_save s StartField)
      else if is_nl c then Some (rd_save s EatCRNL)
      else Some (rd_add s c InField)           (* strict = False *)
  | EatCRNL => if is_nl c then Some s else None
  end.

(* the end-of-line pseudo character the reader feeds itself after every line *)
Definition step_eol (s : rd) : rd :=
  match st s with
  | StartRecord => s
  | StartField | InField | QuoteInQuoted => rd_save s StartRecord
  | InQuoted => s
  | EatCRNL => rd_set s StartRecord
  end.

(* the characters of one line, then the end-of-line pseudo character *)
Fixpoint feed (d : N) (s : rd) (l : text) : option rd :=
  match l with
  | [] => Some (step_eol s)
  | c :: r => match step d s c with
              | Some s' => feed d s' r
              | None => None
              end
  end.

(* iteration over a text file opened with newline=LF: a line ends after every LF, the rest of
   the text (if not empty) is the last line *)
Fixpoint split_lines (cur : text) (s : text) : list text :=
  match s with
  | [] => match cur with [] => [] | _ :: _ => [rev cur] end
  | c :: r => if c =? LF then rev (c :: cur) :: split_lines [] r else split_lines (c :: cur) r
  end.

(* what iterating over csv.reader yields: the records, and whether the iteration ended with
   csv.Error (after the records listed) *)
Inductive parsed := Parsed (rows : list row) | ParsedErr (rows_before : list row).

Definition is_in_quoted (q : pstate) : bool := match q with InQuoted => true | _ => false end.
Definition is_start_record (q : pstate) : bool := match q with StartRecord => true | _ => false end.

(* Reader_iternext in a loop: a record is complete when the state is START_RECORD after an end
   of line; at the end of the input an unfinished record is returned if a field is being
   collected or a quoted field is open *)
Fixpoint read_lines (d : N) (s : rd) (ls : list text) (acc : list row) : parsed :=
  match ls with
  | [] =>
      if negb (match fld s with [] => true | _ => false end) || is_in_quoted (st s)
      then Parsed (rev (rev (rev (fld s) :: flds s) :: acc))
      else Parsed (rev acc)
  | l :: ls' =>
      match feed d s l with
      | None => ParsedErr (rev acc)
      | Some s' =>
          if is_start_record (st s') then read_lines d rd_init ls' (rev (flds s') :: acc)
          else read_lines d s' ls' acc
      end
  end.

Definition parse_csv (d : N) (s : text) : parsed := read_lines d rd_init (split_lines [] s) [].
