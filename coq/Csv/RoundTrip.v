(* C13 - what the round trip means: the re-read WBS (Wbs.normalize) is equivalent to the original in
   the sense of the property, it is again in the domain, and it is a fixed point of read after write.
   Also: the domain as a boolean (evaluated by the harness on the generated cases, used for the
   non-vacuity example) and the example itself. *)
From PJ Require Import Base.Prelude Csv.CsvModel Csv.CsvCodecProofs Csv.Fields Csv.FieldsProofs
  Csv.Wbs Csv.WbsSpec Csv.RowsProofs Csv.AssembleProofs Csv.WbsProofs gen.Consts.
Open Scope Z_scope.

(* ---------- association lists ---------- *)
Lemma assoc_text_None : forall {A} (l : list (text * A)) k, ~ In k (map fst l) -> assoc_text k l = None.
Proof.
  intros A l k. induction l as [|[k' v] l IH]; intro H; [reflexivity|].
  cbn [assoc_text]. destruct (text_eqb k k') eqn:E.
  - apply text_eqb_eq in E. subst k'. exfalso. apply H. left. reflexivity.
  - apply IH. intro Hin. apply H. right. exact Hin.
Qed.

Lemma custom_value_absent : forall k cs, ~ In k (map fst cs) -> custom_value k cs = [].
Proof. intros k cs H. unfold custom_value. rewrite (assoc_text_None cs k H). reflexivity. Qed.

Lemma custom_value_map_in : forall (g : text -> text) l k,
  In k l -> custom_value k (map (fun k' => (k', Some (g k'))) l) = g k.
Proof.
  intros g l k Hin. unfold custom_value.
  rewrite (assoc_text_map (fun k' => Some (g k')) l k Hin). reflexivity.
Qed.

Lemma custom_value_map_out : forall (g : text -> text) l k,
  ~ In k l -> custom_value k (map (fun k' => (k', Some (g k'))) l) = [].
Proof.
  intros g l k Hout. apply custom_value_absent. rewrite map_map. cbn [fst]. rewrite map_id. exact Hout.
Qed.

(* ---------- dedup_text on lists that are already without repetitions ---------- *)
Lemma dedup_text_seen : forall l seen, (forall k, In k l -> In k seen) -> dedup_text seen l = [].
Proof.
  induction l as [|x l IH]; intros seen H; [reflexivity|].
  cbn [dedup_text]. rewrite (proj2 (mem_text_In x seen) (H x (or_introl eq_refl))).
  apply IH. intros k Hk. apply H. right. exact Hk.
Qed.

Lemma dedup_text_app_nodup : forall a seen b,
  NoDup a -> (forall k, In k a -> ~ In k seen) ->
  dedup_text seen (a ++ b) = a ++ dedup_text (rev a ++ seen) b.
Proof.
  induction a as [|x a IH]; intros seen b Hnd Hd; [reflexivity|].
  inversion Hnd as [|? ? Hx Hnd']; subst. cbn [app dedup_text].
  rewrite (proj2 (mem_text_false x seen) (Hd x (or_introl eq_refl))). f_equal.
  rewrite IH.
  - cbn [rev]. rewrite <- app_assoc. reflexivity.
  - exact Hnd'.
  - intros k Hk [E|Hs]; [subst k; contradiction|]. apply (Hd k (or_intror Hk) Hs).
Qed.

Definition not_reserved (k : text) : bool := negb (mem_text k csv_task_reserved).
Definition not_default (k : text) : bool := negb (mem_text k csv_default_fields).

Section RoundTrip.
Context {F : Type}.
Variable repr_float : F -> text.
Variable parse_float : text -> option F.
Variable f_neg : F -> bool.
Hypothesis float_roundtrip : forall x, parse_float (repr_float x) = Some x.
Hypothesis float_nonempty : forall x, repr_float x <> [].

Notation wbs_ok := (@wbs_ok F f_neg).

Definition keys (r : raw F) : list text := map fst (f_custom F (r_f F r)).

(* ---------- the custom columns of a file ---------- *)
Lemma custom_columns_keys : forall (raws : list (raw F)) r k,
  Forall raw_ok raws -> In r raws -> In k (keys r) -> In k (custom_columns F raws).
Proof.
  intros raws r k Hok Hr Hk. apply custom_columns_In. exists r. split; [exact Hr|].
  apply raw_attr_names_In. split; [|right; exact Hk].
  rewrite Forall_forall in Hok. destruct (Hok r Hr) as (_ & _ & _ & _ & Hn).
  rewrite Forall_forall in Hn. destruct (Hn k Hk) as (_ & Hd & _). exact Hd.
Qed.

(* a column is min_start or an attribute name of some task *)
Lemma custom_columns_origin : forall (raws : list (raw F)) k,
  In k (custom_columns F raws) -> k = K_MIN_START \/ exists r, In r raws /\ In k (keys r).
Proof.
  intros raws k Hk. apply custom_columns_In in Hk as [r [Hr Hk]].
  apply raw_attr_names_In in Hk as [_ [Hk|Hk]]; [left; exact Hk|right; exists r; split; assumption].
Qed.

Lemma custom_columns_names_ok : forall (raws : list (raw F)),
  Forall raw_ok raws -> Forall custom_name_ok (filter not_reserved (custom_columns F raws)).
Proof.
  intros raws Hok. apply Forall_forall. intros k Hk. apply filter_In in Hk as [Hk Hnr].
  destruct (custom_columns_origin raws k Hk) as [->|[r [Hr Hkr]]].
  - unfold not_reserved in Hnr. rewrite min_start_reserved in Hnr. discriminate Hnr.
  - rewrite Forall_forall in Hok. destruct (Hok r Hr) as (_ & _ & _ & _ & Hn).
    rewrite Forall_forall in Hn. exact (Hn k Hkr).
Qed.

(* the columns of a file with at least one task: min_start first, then attribute names *)
Lemma custom_columns_cons : forall (r : raw F) rs,
  custom_columns F (r :: rs)
  = K_MIN_START :: dedup_text [K_MIN_START] (filter not_default (keys r) ++ flat_map (raw_attr_names F) rs).
Proof.
  intros r rs. unfold custom_columns. cbn [flat_map]. unfold raw_attr_names at 1. cbn [filter].
  rewrite min_start_not_default. cbn [negb app dedup_text mem_text existsb]. reflexivity.
Qed.

Lemma custom_columns_shape : forall (raws : list (raw F)),
  Forall raw_ok raws -> raws <> [] ->
  custom_columns F raws = K_MIN_START :: filter not_reserved (custom_columns F raws).
Proof.
  intros raws Hok Hne. destruct raws as [|r rs]; [congruence|].
  pose proof (custom_columns_origin (r :: rs)) as Horig.
  rewrite custom_columns_cons in Horig |- *. cbn [filter]. unfold not_reserved at 1.
  rewrite min_start_reserved. cbn [negb]. f_equal. symmetry. apply filter_all.
  apply Forall_forall. intros k Hk.
  assert (Hne' : k <> K_MIN_START).
  { apply dedup_text_In in Hk as [_ Hs]. intro E. apply Hs. left. symmetry. exact E. }
  destruct (Horig k (or_intror Hk)) as [E|[r' [Hr' Hkr]]]; [contradiction|].
  rewrite Forall_forall in Hok. destruct (Hok r' Hr') as (_ & _ & _ & _ & Hn).
  rewrite Forall_forall in Hn. destruct (Hn k Hkr) as (_ & _ & Hres & _).
  unfold not_reserved. rewrite Hres. reflexivity.
Qed.

(* ---------- one task: the re-read fields are equivalent to the written ones ---------- *)
Lemma norm_fields_equiv : forall cols (f : fields F),
  Forall custom_name_ok (map fst (f_custom F f)) ->
  (forall k, In k (map fst (f_custom F f)) -> In k cols) ->
  fields_equiv (norm_fields F cols f) f.
Proof.
  intros cols f Hn Hin. unfold fields_equiv, norm_fields. cbn [f_id f_name f_resource f_start f_end f_estimate
    f_spent f_milestone f_min_start f_custom].
  repeat split; try apply opt_text_roundtrip.
  intro k. rewrite (filter_copied_id _ Hn).
  change (fun k0 : text => negb (mem_text k0 csv_task_reserved)) with not_reserved.
  destruct (in_dec text_eq_dec k (filter not_reserved cols)) as [Hk|Hk].
  - apply (custom_value_map_in (fun k' => custom_value k' (f_custom F f))). exact Hk.
  - rewrite (custom_value_map_out (fun k' => custom_value k' (f_custom F f)) _ _ Hk).
    symmetry. apply custom_value_absent. intro Hkf. apply Hk. apply filter_In. split; [apply Hin; exact Hkf|].
    rewrite Forall_forall in Hn. destruct (Hn k Hkf) as (_ & _ & Hres & _).
    unfold not_reserved. rewrite Hres. reflexivity.
Qed.

Lemma map_tree_equiv cols : forall (t : tree F) p,
  Forall (fun r => Forall custom_name_ok (keys r) /\ (forall k, In k (keys r) -> In k cols)) (flat_plain p t) ->
  tree_equiv (map_tree (norm_fields F cols) t) t.
Proof.
  intro t. induction t as [f ps ks IH] using tree_ind'. intros p H.
  cbn [flat_plain map_tree] in *. inversion H as [|? ? [Hr1 Hr2] Hk]; subst.
  constructor; [apply norm_fields_equiv; assumption|].
  apply Forall_flat_map in Hk. clear H. induction ks as [|k ks IHks]; cbn [map]; constructor.
  - inversion IH; subst. inversion Hk; subst. eauto.
  - inversion IH; subst. inversion Hk; subst. apply IHks; assumption.
Qed.

Theorem normalize_equiv (w : wbs F) : wbs_ok w -> wbs_equiv (normalize F w) w.
Proof.
  intros [Hr Hg]. rewrite (normalize_map f_neg w Hg Hr).
  set (cols := custom_columns F (flatten_plain w)).
  assert (Hall : Forall (fun r => Forall custom_name_ok (keys r) /\ (forall k, In k (keys r) -> In k cols))
                        (flatten_plain w)).
  { apply Forall_forall. intros r Hin. split.
    - rewrite Forall_forall in Hr. destruct (Hr r Hin) as (_ & _ & _ & _ & Hn). exact Hn.
    - intros k Hk. exact (custom_columns_keys _ r k Hr Hin Hk). }
  clearbody cols. unfold flatten_plain in Hall. apply Forall_flat_map in Hall. clear Hr Hg.
  unfold wbs_equiv. induction w as [|t w IH]; cbn [map]; constructor.
  - inversion Hall; subst. eapply map_tree_equiv; eassumption.
  - inversion Hall; subst. apply IH; assumption.
Qed.

(* ---------- the re-read WBS is in the domain again ---------- *)
Lemma raw_ok_norm : forall cols (r : raw F),
  NoDup cols -> Forall custom_name_ok (filter not_reserved cols) -> raw_ok r -> raw_ok (norm_raw cols r).
Proof.
  intros cols r Hnd Hn (H1 & H2 & H3 & _ & _). unfold raw_ok, norm_raw, norm_fields.
  cbn [r_f f_start f_end f_min_start f_custom].
  change (fun k : text => negb (mem_text k csv_task_reserved)) with not_reserved.
  rewrite map_map. cbn [fst]. rewrite map_id.
  split; [exact H1|]. split; [exact H2|]. split; [exact H3|]. split; [|exact Hn].
  apply NoDup_filter. exact Hnd.
Qed.

Lemma wbs_ok_normalize (w : wbs F) : wbs_ok w -> wbs_ok (normalize F w).
Proof.
  intros [Hr Hg]. rewrite (normalize_map f_neg w Hg Hr).
  unfold WbsProofs.wbs_ok. rewrite <- map_norm_flatten. split.
  - rewrite Forall_map. eapply Forall_impl; [|exact Hr]. intros r Hrr. apply raw_ok_norm.
    + apply custom_columns_NoDup.
    + apply custom_columns_names_ok. exact Hr.
    + exact Hrr.
  - apply graph_ok_norm. exact Hg.
Qed.

(* ---------- and it is a fixed point of the normalisation ---------- *)
Lemma norm_fields_idem : forall cols (f : fields F),
  Forall custom_name_ok (filter not_reserved cols) ->
  norm_fields F cols (norm_fields F cols f) = norm_fields F cols f.
Proof.
  intros cols f Hn. unfold norm_fields at 1 3.
  change (fun k : text => negb (mem_text k csv_task_reserved)) with not_reserved.
  set (L := filter not_reserved cols) in *.
  set (cs := filter (fun kv : text * option text => copied_attr (fst kv)) (f_custom F f)).
  assert (E : f_custom F (norm_fields F cols f) = map (fun k => (k, Some (custom_value k cs))) L) by reflexivity.
  rewrite E. cbn [f_id f_name f_resource f_start f_end f_estimate f_spent f_milestone f_min_start norm_fields].
  rewrite !print_parse_opt_text.
  assert (Ec : filter (fun kv : text * option text => copied_attr (fst kv)) (map (fun k => (k, Some (custom_value k cs))) L)
               = map (fun k => (k, Some (custom_value k cs))) L).
  { apply filter_copied_id. rewrite map_map. cbn [fst]. rewrite map_id. exact Hn. }
  rewrite Ec. f_equal. apply map_ext_in. intros k Hk.
  rewrite (custom_value_map_in (fun k' => custom_value k' cs) L k Hk). reflexivity.
Qed.

Lemma map_tree_idem cols : Forall custom_name_ok (filter not_reserved cols) -> forall t : tree F,
  map_tree (norm_fields F cols) (map_tree (norm_fields F cols) t) = map_tree (norm_fields F cols) t.
Proof.
  intros Hn t. induction t as [f ps ks IH] using tree_ind'. cbn [map_tree].
  rewrite norm_fields_idem by exact Hn. f_equal. rewrite map_map. apply map_ext_Forall. exact IH.
Qed.

Lemma flatten_plain_nil_iff (w : wbs F) : flatten_plain w = [] <-> w = [].
Proof.
  split; [|intro E; subst; reflexivity]. destruct w as [|[f ps ks] w]; [reflexivity|].
  unfold flatten_plain. cbn [flat_map flat_plain app]. discriminate.
Qed.

Lemma custom_columns_normalize (w : wbs F) : wbs_ok w ->
  custom_columns F (flatten_plain (normalize F w)) = custom_columns F (flatten_plain w).
Proof.
  intros [Hr Hg]. rewrite (normalize_map f_neg w Hg Hr). rewrite <- map_norm_flatten.
  set (raws := flatten_plain w) in *. set (cols := custom_columns F raws).
  destruct raws as [|r rs] eqn:Eraws; [reflexivity|].
  assert (Hshape : cols = K_MIN_START :: filter not_reserved cols).
  { apply custom_columns_shape; [exact Hr|discriminate]. }
  assert (Hnd : NoDup cols) by apply custom_columns_NoDup.
  assert (Hdef : forall k, In k cols -> mem_text k csv_default_fields = false).
  { intros k Hk. apply (custom_columns_ok (r :: rs) k Hr Hk). }
  assert (Hnames : forall r' : raw F, raw_attr_names F (norm_raw cols r') = cols).
  { intro r'. unfold raw_attr_names, norm_raw, norm_fields. cbn [r_f f_custom].
    change (fun k : text => negb (mem_text k csv_task_reserved)) with not_reserved.
    rewrite map_map. cbn [fst]. rewrite map_id. rewrite <- Hshape.
    apply filter_all. apply Forall_forall. intros k Hk. rewrite (Hdef k Hk). reflexivity. }
  unfold custom_columns at 1. cbn [map flat_map]. rewrite Hnames.
  rewrite dedup_text_app_nodup by (try exact Hnd; intros k _ []).
  rewrite dedup_text_seen; [apply app_nil_r|].
  intros k Hk. apply in_flat_map in Hk as [r' [Hr' Hk]]. apply in_map_iff in Hr' as [r'' [<- _]].
  rewrite Hnames in Hk. apply in_or_app. left. apply in_rev in Hk. exact Hk.
Qed.

Theorem normalize_idem (w : wbs F) : wbs_ok w -> normalize F (normalize F w) = normalize F w.
Proof.
  intro Hok. pose proof (wbs_ok_normalize w Hok) as [Hr1 Hg1]. destruct Hok as [Hr Hg].
  rewrite (normalize_map f_neg (normalize F w) Hg1 Hr1).
  rewrite (custom_columns_normalize w (conj Hr Hg)).
  rewrite (normalize_map f_neg w Hg Hr). rewrite map_map. apply map_ext. intro t.
  apply map_tree_idem. apply custom_columns_names_ok. exact Hr.
Qed.

(* ---------- the theorems about files ---------- *)
Notation read := (read_model F parse_float f_neg delim).
Notation write := (write_model F repr_float delim).

(* read_csv (write_csv w) is a WBS equivalent to w *)
Theorem roundtrip (w : wbs F) : wbs_ok w ->
  exists w1, read (write w) = Some (Ok w1) /\ wbs_equiv w1 w.
Proof.
  intro Hok. exists (normalize F w). split.
  - exact (read_write_model repr_float parse_float f_neg float_roundtrip float_nonempty w Hok).
  - exact (normalize_equiv w Hok).
Qed.

(* the re-read WBS is reproduced exactly by a further cycle, hence so is its file *)
Theorem fixpoint (w : wbs F) : wbs_ok w ->
  forall w1, read (write w) = Some (Ok w1) ->
  read (write w1) = Some (Ok w1) /\ (forall w2, read (write w1) = Some (Ok w2) -> write w2 = write w1).
Proof.
  intros Hok w1 H1.
  rewrite (read_write_model repr_float parse_float f_neg float_roundtrip float_nonempty w Hok) in H1.
  injection H1 as <-.
  assert (H2 : read (write (normalize F w)) = Some (Ok (normalize F w))).
  { rewrite (read_write_model repr_float parse_float f_neg float_roundtrip float_nonempty _ (wbs_ok_normalize w Hok)).
    rewrite (normalize_idem w Hok). reflexivity. }
  split; [exact H2|]. intros w2 H3. rewrite H2 in H3. injection H3 as <-. reflexivity.
Qed.

(* tasks_to_raws followed by raws_to_wbs gives the WBS back *)
Theorem rebuild (w : wbs F) : wbs_ok w -> assemble F f_neg (flatten F w) = Ok w.
Proof.
  intros [Hr Hg]. rewrite (flatten_is_plain w Hr). apply assemble_flatten_plain. exact Hg.
Qed.

(* a file written by hand: whatever the line ends and the quoting, if the csv reader splits it into the rows
   of the layout - with or without a byte-order mark in front of the first header cell - it loads with the
   meaning of w *)
Definition with_bom (rows : list row) : list row :=
  match rows with
  | (c :: h) :: data => ((BOM :: c) :: h) :: data
  | _ => rows
  end.

Theorem handwritten (w : wbs F) : wbs_ok w ->
  forall s, parse_csv delim s = Parsed (to_rows F repr_float (flatten F w))
            \/ parse_csv delim s = Parsed (with_bom (to_rows F repr_float (flatten F w))) ->
  exists w1, read s = Some (Ok w1) /\ wbs_equiv w1 w.
Proof.
  intros Hok s Hs. exists (normalize F w). split; [|exact (normalize_equiv w Hok)].
  pose proof (read_rows_to_rows repr_float parse_float f_neg float_roundtrip float_nonempty w Hok) as Hrows.
  unfold read_model. destruct Hs as [Hs|Hs]; rewrite Hs.
  - rewrite Hrows. reflexivity.
  - rewrite <- Hrows. unfold to_rows.
    change (csv_default_fields ++ custom_columns F (flatten F w))
      with (K_ID :: (tl csv_default_fields ++ custom_columns F (flatten F w))).
    cbn [with_bom]. unfold read_rows. rewrite rows_to_raws_bom. reflexivity.
Qed.

End RoundTrip.

(* ---------- what the equivalence says about the task list ---------- *)
Section EquivMeaning.
Context {F : Type}.

(* two TaskRaws: same id, same parent id, same predecessor ids, equivalent fields *)
Definition raw_equiv (x y : raw F) : Prop :=
  raw_id F x = raw_id F y /\ r_parent F x = r_parent F y /\ r_preds F x = r_preds F y
  /\ fields_equiv (r_f F x) (r_f F y).

Lemma tree_equiv_flat : forall (a b : tree F) p,
  tree_equiv a b -> Forall2 raw_equiv (flat_plain p a) (flat_plain p b).
Proof.
  intro a. induction a as [f ps ks IH] using tree_ind'. intros b p H.
  inversion H as [f' g ps' ks1 ks2 Hf Hk]; subst. cbn [flat_plain]. constructor.
  - unfold raw_equiv, raw_id. cbn [r_f r_parent r_preds]. destruct Hf as [Hid Hrest].
    split; [exact Hid|]. split; [reflexivity|]. split; [reflexivity|]. split; [exact Hid|exact Hrest].
  - destruct Hf as [Hid _]. rewrite <- Hid. clear H. revert IH.
    induction Hk as [|k k' ks ks' Hkk Hks IHks]; intro IH; cbn [flat_map]; [constructor|].
    inversion IH as [|? ? Hk1 Hk2]; subst. apply Forall2_app; [apply Hk1; exact Hkk|apply IHks; exact Hk2].
Qed.

(* equivalent WBSs have the same tasks in the same order with the same parents and predecessors,
   and equivalent fields; the list of TaskRaws determines the forest (AssembleProofs.assemble_flatten_plain) *)
Theorem wbs_equiv_flat : forall a b : wbs F,
  wbs_equiv a b -> Forall2 raw_equiv (flatten_plain a) (flatten_plain b).
Proof.
  intros a b H. unfold flatten_plain. induction H as [|x y a b Hxy Hab IH]; cbn [flat_map]; [constructor|].
  apply Forall2_app; [apply tree_equiv_flat; exact Hxy|exact IH].
Qed.
End EquivMeaning.

(* ---------- the cell codecs together ---------- *)
Section FieldsTogether.
Context {F : Type}.
Variable repr_float : F -> text.
Variable parse_float : text -> option F.
Hypothesis float_ok : float_codec_ok repr_float parse_float.

Theorem fields_roundtrip :
  (forall z : Z, parse_int (print_int z) = Some z)
  /\ (forall o : option Z, opt_parse parse_int (opt_cell print_int o) = Ok o)
  /\ (forall d, date_lo <= d < date_hi -> parse_date date_items (format_date date_items d) = Some d)
  /\ (forall d, date_lo <= d < date_hi -> parse_date iso_date_items (format_date iso_date_items d) = Some d)
  /\ (civil_of_days date_lo = (1969, 1, 1) /\ civil_of_days (date_hi - 1) = (2068, 12, 31) /\ date_hi - date_lo = 36525)
  /\ (forall o, date_ok o -> opt_parse (parse_date date_items) (opt_cell (format_date date_items) o) = Ok o)
  /\ (forall o, date_ok o -> opt_parse (parse_date iso_date_items) (opt_cell (format_date iso_date_items) o) = Ok o)
  /\ (forall b : bool, parse_bool csv_bool_true (print_bool b) = b)
  /\ (forall l : list Z, parse_preds (hd 0%N csv_pred_sep_read) (print_preds (hd 0%N csv_pred_sep_write) l) = Some l)
  /\ (forall o : option F, opt_parse parse_float (opt_cell repr_float o) = Ok o)
  /\ (forall o : option text, text_equiv (parse_opt_text (print_opt_text o)) o)
  /\ (forall t : text, print_opt_text (parse_opt_text t) = t).
Proof.
  destruct float_ok as [Hf1 Hf2].
  split; [exact parse_print_int|]. split; [exact int_cell_roundtrip|].
  split; [exact parse_format_date|]. split; [exact parse_format_iso|].
  split; [exact date_bounds_are_the_years|]. split; [exact date_cell_roundtrip|].
  split; [exact iso_cell_roundtrip|]. split; [exact parse_print_bool|].
  split; [exact preds_cell_roundtrip|].
  split; [exact (float_cell_roundtrip repr_float parse_float Hf1 Hf2)|].
  split; [exact opt_text_roundtrip|exact print_parse_opt_text].
Qed.
End FieldsTogether.

(* ---------- the domain as a boolean is sound ---------- *)
Section DomainB.
Context {F : Type}.
Variable f_neg : F -> bool.

Lemma custom_name_ok_b_sound k : custom_name_ok_b k = true -> custom_name_ok k.
Proof.
  unfold custom_name_ok_b, custom_name_ok. rewrite !andb_true_iff, !negb_true_iff, text_eqb_eq. tauto.
Qed.

Lemma date_ok_b_sound o : date_ok_b o = true -> date_ok o.
Proof.
  unfold date_ok_b, date_ok. intros H d E. subst o. apply andb_true_iff in H as [H1 H2].
  apply Z.leb_le in H1. apply Z.ltb_lt in H2. split; assumption.
Qed.

Lemma raw_ok_b_sound (r : raw F) : raw_ok_b r = true -> raw_ok r.
Proof.
  unfold raw_ok_b, raw_ok. cbv zeta. rewrite !andb_true_iff. intros [[[[H1 H2] H3] H4] H5].
  split; [exact (date_ok_b_sound _ H1)|]. split; [exact (date_ok_b_sound _ H2)|].
  split; [exact (date_ok_b_sound _ H3)|]. split; [apply nodup_textb_NoDup; exact H4|].
  apply Forall_forall. intros k Hk. apply custom_name_ok_b_sound.
  rewrite forallb_forall in H5. exact (H5 k Hk).
Qed.

Lemma graph_ok_b_sound (raws : list (raw F)) : graph_ok_b f_neg raws = true -> graph_ok f_neg raws.
Proof.
  unfold graph_ok_b, graph_ok. cbv zeta. rewrite andb_true_iff. intros [H1 H2].
  split; [apply nodup_zb_NoDup; exact H1|].
  apply Forall_forall. intros r Hr. rewrite forallb_forall in H2. specialize (H2 r Hr).
  rewrite !andb_true_iff, negb_true_iff in H2. destruct H2 as [[H3 H4] H5].
  split; [apply nodup_zb_NoDup; exact H3|]. split; [|exact H5].
  apply Forall_forall. intros p Hp. rewrite forallb_forall in H4. apply mem_z_In. exact (H4 p Hp).
Qed.

Theorem wbs_ok_b_sound (w : wbs F) : wbs_ok_b f_neg w = true -> wbs_ok f_neg w.
Proof.
  unfold wbs_ok_b, wbs_ok. rewrite andb_true_iff. intros [H1 H2]. split.
  - apply Forall_forall. intros r Hr. apply raw_ok_b_sound. rewrite forallb_forall in H1. exact (H1 r Hr).
  - apply graph_ok_b_sound. exact H2.
Qed.
End DomainB.

(* ---------- an instance: amounts are integers printed in decimal ---------- *)
Definition ex_neg (x : Z) : bool := x <? 0.

Lemma ex_float_roundtrip : forall x : Z, parse_int (print_int x) = Some x.
Proof. exact parse_print_int. Qed.
Lemma ex_float_nonempty : forall x : Z, print_int x <> [].
Proof. exact print_int_nonempty. Qed.

(* task 0, name: a ; b QUOTE c LF d, min_start 2024-01-05, attribute note = x;y
     task 1, name: child, resource Ann, after task -2
     task -2, no name, milestone, attributes owner = QUOTE q QUOTE and note = None
   task 5, empty name, after task 0 and task 1 *)
Definition ex_wbs : wbs Z :=
  [ Node (mkfields 0 (Some [97; 59; 98; 34; 99; 10; 100]%N) None (Some 19723) (Some 19730) (Some 8) None false (Some 19727)
                   [([110; 111; 116; 101]%N, Some [120; 59; 121]%N)]) []
      [ Node (mkfields 1 (Some [99; 104; 105; 108; 100]%N) (Some [65; 110; 110]%N) None None (Some 3) (Some 1) false None []) [-2] [];
        Node (mkfields (-2) None None None None None None true None
                       [([111; 119; 110; 101; 114]%N, Some [34; 113; 34]%N); ([110; 111; 116; 101]%N, None)]) [] [] ];
    Node (mkfields 5 (Some []) None None (Some 36159) None None false None []) [0; 1] [] ].

Lemma ex_wbs_ok : wbs_ok ex_neg ex_wbs.
Proof. apply wbs_ok_b_sound. vm_compute. reflexivity. Qed.

(* the instance computed: the model reads the file it wrote as the normalised WBS, which differs from
   the original (None for the empty name, every column on every task) but is equivalent to it *)
Lemma ex_wbs_computed :
  read_model Z parse_int ex_neg delim (write_model Z print_int delim ex_wbs) = Some (Ok (normalize Z ex_wbs))
  /\ normalize Z ex_wbs <> ex_wbs.
Proof. split; [vm_compute; reflexivity|vm_compute; discriminate]. Qed.

(* ---------- the statements of Props_C13.v, under the named float hypothesis ---------- *)
Section Statements.
Context {F : Type}.
Variable repr_float : F -> text.
Variable parse_float : text -> option F.
Variable f_neg : F -> bool.
Hypothesis float_ok : float_codec_ok repr_float parse_float.

Theorem roundtrip_statement_proved : forall w : wbs F, wbs_ok f_neg w ->
  exists w1, read_model F parse_float f_neg delim (write_model F repr_float delim w) = Some (Ok w1)
             /\ wbs_equiv w1 w /\ Forall2 raw_equiv (flatten_plain w1) (flatten_plain w).
Proof.
  intros w Hok. destruct float_ok as [H1 H2].
  destruct (roundtrip repr_float parse_float f_neg H1 H2 w Hok) as [w1 [Hr He]].
  exists w1. split; [exact Hr|]. split; [exact He|]. apply wbs_equiv_flat. exact He.
Qed.

Theorem fixpoint_statement_proved : forall w : wbs F, wbs_ok f_neg w ->
  forall w1, read_model F parse_float f_neg delim (write_model F repr_float delim w) = Some (Ok w1) ->
  read_model F parse_float f_neg delim (write_model F repr_float delim w1) = Some (Ok w1)
  /\ (forall w2, read_model F parse_float f_neg delim (write_model F repr_float delim w1) = Some (Ok w2) ->
                 write_model F repr_float delim w2 = write_model F repr_float delim w1).
Proof.
  destruct float_ok as [H1 H2]. exact (fixpoint repr_float parse_float f_neg H1 H2).
Qed.

Theorem handwritten_statement_proved : forall w : wbs F, wbs_ok f_neg w ->
  forall s, parse_csv delim s = Parsed (to_rows F repr_float (flatten F w))
            \/ parse_csv delim s = Parsed (with_bom (to_rows F repr_float (flatten F w))) ->
  exists w1, read_model F parse_float f_neg delim s = Some (Ok w1) /\ wbs_equiv w1 w.
Proof.
  destruct float_ok as [H1 H2]. exact (handwritten repr_float parse_float f_neg H1 H2).
Qed.
End Statements.

(* the same file with LF line ends (no cell of ex_wbs contains CR), with and without a byte-order mark: the
   csv reader splits it into the same rows *)
Definition ex_lf_file : text :=
  filter (fun c => negb (c =? CR)%N) (write_model Z print_int delim ex_wbs).

Lemma ex_lf_file_rows :
  ex_lf_file <> write_model Z print_int delim ex_wbs
  /\ parse_csv delim ex_lf_file = Parsed (to_rows Z print_int (flatten Z ex_wbs))
  /\ parse_csv delim (BOM :: ex_lf_file) = Parsed (with_bom (to_rows Z print_int (flatten Z ex_wbs))).
Proof. split; [vm_compute; discriminate|]. split; vm_compute; reflexivity. Qed.
