(* Consequences of the source-text tie of Sched/SrcFillEquiv.v: statements about the *translated source* of the four
   day-by-day primitives of schedule.py (gen/SrcFill.v), obtained by transporting the theorems about the model. *)
From Coq Require Import QArith Qround.
From PJ Require Import Base.Prelude Sched.Model Sched.LedgerProofs Sched.Machine Sched.Instances Sched.C03Proofs Cal.Calendar gen.SrcFill Sched.SrcFillEquiv.
Open Scope Z_scope.

Lemma fill_no_crash cp balance r t dir n : forall l d left k, fill cp balance r t dir n l d left <> Crash k.
Proof.
  induction n as [|n IH]; intros l d left k; cbn [fill]; [discriminate|].
  destruct (0 <? cp (d + dir) - used balance l r (d + dir) t);
    match goal with |- (if ?c then _ else _) <> _ => destruct c end; try discriminate; apply IH.
Qed.

Lemma fwd_shift_no_crash cfg l r t s0 left k : fwd_shift cfg l r t s0 left <> Crash k.
Proof.
  unfold fwd_shift. destruct (left =? 0); [discriminate|].
  destruct (fill _ _ _ _ _ _ _ _ _) as [[l' d]| |k'] eqn:E; cbn; try discriminate.
  exfalso. exact (fill_no_crash _ _ _ _ _ _ _ _ _ _ E).
Qed.

Lemma bwd_shift_no_crash cfg l r t e0 left k : bwd_shift cfg l r t e0 left <> Crash k.
Proof.
  unfold bwd_shift. destruct (left =? 0); [discriminate|].
  destruct (fill _ _ _ _ _ _ _ _ _) as [[l' d]| |k'] eqn:E; cbn; try discriminate.
  exfalso. exact (fill_no_crash _ _ _ _ _ _ _ _ _ _ E).
Qed.

Lemma fwd_nearest_no_crash cfg l r t t0 k : fwd_nearest cfg l r t t0 <> Crash k.
Proof. unfold fwd_nearest. destruct (first_open _ _ _ _); [|discriminate]. destruct (next_free _ _ _ _ _); discriminate. Qed.

Lemma bwd_nearest_no_crash cfg l r t t0 k : bwd_nearest cfg l r t t0 <> Crash k.
Proof. unfold bwd_nearest. destruct (first_open _ _ _ _); [|discriminate]. destruct (next_free _ _ _ _ _); discriminate. Qed.

Section Src.
Variable cfg : config.
Variables (r t : nat).
Notation nearest := (nearest_of (cap cfg r) (h_search cfg)).
Notation gau := (gau_of (cap cfg r)).

(* ---- C14: the translated loops end within their fuel and raise nothing but RuntimeError ---- *)
Lemma src_fwd_shift_outcome l s0 left k : pos_rows l -> 0 <= left ->
  src_fwd_shift (balance cfg) nearest gau r (qrows_of l) s0 t (inject_Z left) (Z.of_nat (h_fill cfg)) <> Crash k.
Proof.
  intros Hp Hl. rewrite src_fwd_shift_eq by assumption.
  destruct (fwd_shift cfg l r t s0 left) as [[l' e]| |k'] eqn:E; cbn; try discriminate.
  exfalso. exact (fwd_shift_no_crash _ _ _ _ _ _ _ E).
Qed.

Lemma src_bwd_shift_outcome l e0 left k : pos_rows l -> 0 <= left ->
  src_bwd_shift (balance cfg) nearest gau r (qrows_of l) e0 t (inject_Z left) (Z.of_nat (h_fill cfg)) <> Crash k.
Proof.
  intros Hp Hl. rewrite src_bwd_shift_eq by assumption.
  destruct (bwd_shift cfg l r t e0 left) as [[l' e]| |k'] eqn:E; cbn; try discriminate.
  exfalso. exact (bwd_shift_no_crash _ _ _ _ _ _ _ E).
Qed.

Lemma src_fwd_nearest_outcome l t0 k : pos_rows l ->
  src_fwd_nearest (balance cfg) nearest gau r (qrows_of l) t0 t (Z.of_nat (h_near cfg)) <> Crash k.
Proof. intros Hp. rewrite src_fwd_nearest_eq by assumption. apply fwd_nearest_no_crash. Qed.

Lemma src_bwd_nearest_outcome l t0 k : pos_rows l ->
  src_bwd_nearest (balance cfg) nearest gau r (qrows_of l) t0 t (Z.of_nat (h_near cfg)) <> Crash k.
Proof.
  intros Hp E. pose proof (src_bwd_nearest_eq cfg l r t t0 Hp) as H. rewrite E in H. cbn in H.
  symmetry in H. exact (bwd_nearest_no_crash _ _ _ _ _ _ H).
Qed.

(* ---- C03: whatever the translated fill loop appends keeps every day within its capacity ---- *)
Lemma src_fwd_shift_keeps_invariant l s0 left rows' e :
  ledger_ok (cap cfg) (balance cfg) l -> 0 < left ->
  src_fwd_shift (balance cfg) nearest gau r (qrows_of l) s0 t (inject_Z left) (Z.of_nat (h_fill cfg)) = Ok (rows', e) ->
  exists new, rows' = qrows_of (new ++ l) /\ new <> []
              /\ (forall x, In x new -> r_res x = r /\ r_task x = t /\ 0 < r_units x)
              /\ ledger_ok (cap cfg) (balance cfg) (new ++ l).
Proof.
  intros Hok Hl. pose proof Hok as [Hp _].
  rewrite src_fwd_shift_eq by (try assumption; lia).
  unfold fwd_shift. destruct (Z.eqb_spec left 0) as [->|_]; [lia|].
  destruct (fill _ _ _ _ _ _ _ _ _) as [[l2 d2]| |k] eqn:Hf; cbn; try discriminate.
  intro H; inversion H; subst rows' e; clear H.
  destruct (fill_ledger_ok (cap cfg) (balance cfg) r t 1 _ _ _ _ _ _ ltac:(lia) Hf Hl Hok) as [new [-> [Hn [Hr Hok']]]].
  exists new. split; [reflexivity|]. split; [exact Hn|]. split; [exact Hr|exact Hok'].
Qed.

Lemma src_bwd_shift_keeps_invariant l e0 left rows' s :
  ledger_ok (cap cfg) (balance cfg) l -> 0 < left ->
  src_bwd_shift (balance cfg) nearest gau r (qrows_of l) e0 t (inject_Z left) (Z.of_nat (h_fill cfg)) = Ok (rows', s) ->
  exists new, rows' = qrows_of (new ++ l) /\ new <> []
              /\ (forall x, In x new -> r_res x = r /\ r_task x = t /\ 0 < r_units x)
              /\ ledger_ok (cap cfg) (balance cfg) (new ++ l).
Proof.
  intros Hok Hl. pose proof Hok as [Hp _].
  rewrite src_bwd_shift_eq by (try assumption; lia).
  unfold bwd_shift. destruct (Z.eqb_spec left 0) as [->|_]; [lia|].
  destruct (fill _ _ _ _ _ _ _ _ _) as [[l2 d2]| |k] eqn:Hf; cbn; try discriminate.
  intro H; inversion H; subst rows' s; clear H.
  destruct (fill_ledger_ok (cap cfg) (balance cfg) r t (-1) _ _ _ _ _ _ ltac:(lia) Hf Hl Hok) as [new [-> [Hn [Hr Hok']]]].
  exists new. split; [reflexivity|]. split; [exact Hn|]. split; [exact Hr|exact Hok'].
Qed.

End Src.
