(* gen/SrcSched.v is generated on every run from the *source text* of src/pjplan/schedule.py (harness/srcgen): the
   reading side of the usage ledger.  This file proves the translated `_ResourceUsage.reserved` equal, for all
   ledgers, resources, dates and tasks, to `booked` / `booked_t` of Sched/Model.v - the amount that the schedulers
   subtract from the calendar capacity and that the theorems of C03 bound.

   The code keeps its rows in the order of reservation with the midnight of the day as date; the model keeps the
   newest row first with the day number ([srow_of], [rows_of]). *)
From PJ Require Import Base.Prelude Sched.Model gen.SrcSched.

Definition srow_of (x : row) : srow :=
  {| s_res := r_res x; s_date := DAY * r_day x; s_task := r_task x; s_units := r_units x |}.
Definition rows_of (l : ledger) : list srow := map srow_of (rev l).

Lemma src_usage_key_total t : src_usage_key t = Ok (day_start t).
Proof. reflexivity. Qed.

Lemma src_usage_key_pure_eq t : src_usage_key_pure t = day_start t.
Proof. reflexivity. Qed.

Lemma filter_map_comm {A B} (f : A -> B) (p : B -> bool) (l : list A) :
  filter p (map f l) = map f (filter (fun x => p (f x)) l).
Proof. induction l as [|a l IH]; cbn; [reflexivity|]. destruct (p (f a)); cbn; rewrite IH; reflexivity. Qed.

Lemma filter_ext_all {A} (p q : A -> bool) (l : list A) : (forall x, p x = q x) -> filter p l = filter q l.
Proof. intro H. induction l as [|a l IH]; cbn; [reflexivity|]. rewrite H, IH. reflexivity. Qed.

Lemma midnight_eqb a b : (DAY * a =? DAY * b) = (a =? b).
Proof.
  unfold DAY. destruct (Z.eqb_spec a b) as [->|N]; [apply Z.eqb_refl|]. apply Z.eqb_neq. lia.
Qed.

Lemma fold_left_add_rev (g : row -> Z) (l : list row) (a : Z) :
  fold_left Z.add (map g (rev l)) a = a + fold_right (fun x s => g x + s) 0 l.
Proof.
  revert a; induction l as [|x l IH]; intro a; cbn [rev map fold_right fold_left]; [lia|].
  rewrite map_app, fold_left_app, IH. cbn. lia.
Qed.

Lemma filter_rev_comm {A} (p : A -> bool) (l : list A) : filter p (rev l) = rev (filter p l).
Proof.
  induction l as [|a l IH]; cbn; [reflexivity|].
  rewrite filter_app, IH. cbn. destruct (p a); cbn; [reflexivity|apply app_nil_r].
Qed.

(* reserved(resource, date): everybody's reservations of the day *)
Lemma src_reserved_all_eq l r t : src_reserved (rows_of l) r t None = Ok (booked l r (day_of t)).
Proof.
  unfold src_reserved, rows_of, booked, sum_units. f_equal.
  rewrite filter_map_comm, map_map.
  rewrite (filter_ext_all _ (row_on r (day_of t))).
  - rewrite filter_rev_comm, fold_left_add_rev. cbn. lia.
  - intro x. unfold row_on, srow_of, src_usage_key_pure, src_usage_key, day_start, day_of; cbn [s_res s_date].
    rewrite midnight_eqb. reflexivity.
Qed.

(* reserved(resource, date, task): the task's own reservations of the day *)
Lemma src_reserved_task_eq l r t k : src_reserved (rows_of l) r t (Some k) = Ok (booked_t l r (day_of t) k).
Proof.
  unfold src_reserved, rows_of, booked_t, sum_units. f_equal.
  rewrite filter_map_comm, map_map.
  rewrite (filter_ext_all _ (fun x => row_on r (day_of t) x && Nat.eqb (r_task x) k)).
  - rewrite filter_rev_comm, fold_left_add_rev. cbn. lia.
  - intro x. unfold row_on, srow_of, src_usage_key_pure, src_usage_key, day_start, day_of; cbn [s_res s_date s_task].
    rewrite midnight_eqb. reflexivity.
Qed.

(* what the passes compute before every reservation: `reserved(resource, d) if balance else reserved(resource, d, task)` *)
Lemma src_reserved_used_eq (balance : bool) l r t k :
  src_reserved (rows_of l) r t (if balance then None else Some k) = Ok (used balance l r (day_of t) k).
Proof. destruct balance; [apply src_reserved_all_eq | apply src_reserved_task_eq]. Qed.

(* appending a row, as `reserve` does, is consing it on the model's ledger *)
Lemma rows_of_reserve l x : rows_of (x :: l) = rows_of l ++ [srow_of x].
Proof. unfold rows_of. cbn [rev]. rewrite map_app. reflexivity. Qed.
