(* C03, last sentence: the usage report's totals and filtered views agree with its rows; every resource
   named by a task is present in the result, a default Monday-Friday 8-unit one when none was supplied.
   Proofs about Sched/C03Report.v (model) and Sched/C03ReportCheck.v (what code 0 of the checker means). *)
From PJ Require Import Base.Prelude Sched.Model Sched.LedgerProofs Sched.Machine Sched.Instances
     Sched.C03Proofs Sched.Check Sched.Oracles Sched.OracleProofs Sched.WfIn Sched.C06Proofs
     Sched.C03Report Sched.C03ReportCheck.
From PJ Require gen.Consts.

(* ---------- per-day totals ---------- *)
Lemma c03r_fold_left_units l a : fold_left (fun a x => a + row_units x) l a = a + osum l.
Proof.
  revert a. induction l as [|x l IH]; intros a; cbn [fold_left].
  - unfold osum. cbn [fold_right]. lia.
  - rewrite IH. unfold osum. cbn [fold_right]. lia.
Qed.

(* reserved(resource, date) is the sum of the units of the report's rows on that resource and day:
   the [obooked] the over-allocation oracle bounds by the capacity *)
Theorem report_totals rows r d : report_reserved rows r d = obooked rows r d.
Proof.
  unfold report_reserved, report_rows, obooked. rewrite c03r_fold_left_units. rewrite Z.add_0_l. reflexivity.
Qed.

Theorem report_totals_app a b r d : report_reserved (a ++ b) r d = report_reserved a r d + report_reserved b r d.
Proof.
  rewrite !report_totals. unfold obooked. rewrite filter_app, osum_app. reflexivity.
Qed.

(* the report of the model's schedule answers with the ledger's [booked] *)
Theorem report_totals_model l r d : report_reserved (map row_obs (rev l)) r d = booked l r d.
Proof. rewrite report_totals. apply obooked_model. Qed.

Theorem report_totals_all rows r d :
  report_reserved rows r d = obooked rows r d
  /\ (forall l, rows = map row_obs (rev l) -> report_reserved rows r d = booked l r d)
  /\ (forall a b, rows = a ++ b -> report_reserved rows r d = report_reserved a r d + report_reserved b r d).
Proof.
  split; [apply report_totals|].
  split; [intros l ->; apply report_totals_model | intros a b ->; apply report_totals_app].
Qed.

(* ---------- filtered views ---------- *)
Lemma c03r_filter_true {A} (l : list A) : filter (fun _ => true) l = l.
Proof. induction l as [|x l IH]; cbn [filter]; [reflexivity | rewrite IH; reflexivity]. Qed.

Lemma c03r_filter_false {A} (l : list A) : filter (fun _ => false) l = [].
Proof. induction l as [|x l IH]; cbn [filter]; [reflexivity | exact IH]. Qed.

(* rows(filter) keeps exactly the rows the filter accepts, in the order of the report (it distributes
   over concatenation and decides row by row); rows(None) is the report itself *)
Theorem report_filter rows f :
  (forall x, In x (report_rows rows f) <-> In x rows /\ f x = true)
  /\ (forall a b, report_rows (a ++ b) f = report_rows a f ++ report_rows b f)
  /\ (forall x, report_rows [x] f = if f x then [x] else [])
  /\ report_all rows = rows
  /\ report_rows rows (fun _ => false) = [].
Proof.
  unfold report_all, report_rows.
  split; [intros x; apply filter_In|].
  split; [intros a b; apply filter_app|].
  split; [intros x; reflexivity|].
  split; [apply c03r_filter_true | apply c03r_filter_false].
Qed.

Theorem task_rows_rows_of o t : task_rows (o_rows o) t = rows_of o t.
Proof. reflexivity. Qed.

(* ---------- the resource table ---------- *)
Lemma add_new_in seen l r : In r (add_new seen l) <-> In r seen \/ In r l.
Proof.
  revert seen. induction l as [|a l IH]; intros seen; cbn [add_new].
  - split; [intros H; left; exact H | intros [H|[]]; exact H].
  - rewrite IH. destruct (memb a seen) eqn:E.
    + apply memb_true in E. split.
      * intros [H|H]; [left; exact H | right; right; exact H].
      * intros [H|[H|H]]; [left; exact H | subst a; left; exact E | right; exact H].
    + split.
      * intros [H|H]; [|right; right; exact H].
        apply in_app_or in H. destruct H as [H|[H|[]]]; [left; exact H | right; left; exact H].
      * intros [H|[H|H]]; [left; apply in_or_app; left; exact H
                          | left; apply in_or_app; right; left; exact H | right; exact H].
Qed.

Lemma c03r_nodup_snoc (l : list nat) a : NoDup l -> ~ In a l -> NoDup (l ++ [a]).
Proof.
  induction l as [|x l IH]; intros Hn Ha; cbn [app].
  - constructor; [intros [] | constructor].
  - inversion Hn as [|y l' Hx Hl]; subst. constructor.
    + intro H. apply in_app_or in H. destruct H as [H|[H|[]]]; [exact (Hx H) | apply Ha; left; symmetry; exact H].
    + apply IH; [exact Hl | intro H; apply Ha; right; exact H].
Qed.

Lemma add_new_nodup seen l : NoDup seen -> NoDup (add_new seen l).
Proof.
  revert seen. induction l as [|a l IH]; intros seen Hn; cbn [add_new]; [exact Hn|].
  apply IH. destruct (memb a seen) eqn:E; [exact Hn|].
  apply memb_false in E. apply c03r_nodup_snoc; assumption.
Qed.

Lemma add_new_prefix seen l : exists rest, add_new seen l = seen ++ rest.
Proof.
  revert seen. induction l as [|a l IH]; intros seen; cbn [add_new].
  - exists []. rewrite app_nil_r. reflexivity.
  - destruct (memb a seen); [apply IH|].
    destruct (IH (seen ++ [a])) as [rest Hr]. exists ([a] ++ rest). rewrite Hr, app_assoc. reflexivity.
Qed.

(* first-visit order: a name met for the first time goes to the end of what is there *)
Lemma add_new_known seen l a : In a seen -> add_new seen (a :: l) = add_new seen l.
Proof. intros H. cbn [add_new]. apply memb_true in H. rewrite H. reflexivity. Qed.

Lemma add_new_fresh seen l a : ~ In a seen -> add_new seen (a :: l) = add_new (seen ++ [a]) l.
Proof. intros H. cbn [add_new]. apply memb_false in H. rewrite H. reflexivity. Qed.

Lemma supplied_keys_in supplied r : In r (supplied_keys supplied) <-> In r supplied.
Proof. unfold supplied_keys. rewrite add_new_in. split; [intros [[]|H]; exact H | intros H; right; exact H]. Qed.

Lemma visit_table_in supplied w v r :
  In r (visit_table supplied w v) <-> In r supplied \/ exists t, In t v /\ k_res (gett w t) = r.
Proof.
  unfold visit_table. rewrite add_new_in, supplied_keys_in, in_map_iff.
  split; (intros [H|[t [H1 H2]]]; [left; exact H | right; exists t; split; assumption]).
Qed.

Lemma visit_table_nodup supplied w v : NoDup (visit_table supplied w v).
Proof. unfold visit_table, supplied_keys. apply add_new_nodup. apply add_new_nodup. constructor. Qed.

Lemma c03r_in_members w t : In t (members w) <-> k_ext (gett w t) = false.
Proof.
  unfold members. rewrite filter_In, in_seq, negb_true_iff. split; [intros [_ H]; exact H|].
  intros H. split; [|exact H]. pose proof (not_ext_in_range w t H). lia.
Qed.

(* every resource named by a member task - summary, milestone or working leaf - is in the table, and so is
   every supplied one; nothing else is; no name twice; the supplied ones come first *)
Theorem resources_present supplied w :
  (forall r, In r (resource_table supplied w)
             <-> In r supplied \/ exists t, In t (members w) /\ k_res (gett w t) = r)
  /\ NoDup (resource_table supplied w)
  /\ exists rest, resource_table supplied w = supplied_keys supplied ++ rest.
Proof.
  split; [intro r; apply visit_table_in|]. split; [apply visit_table_nodup|].
  unfold resource_table, visit_table. apply add_new_prefix.
Qed.

(* the tasks a run calculates are members ... *)
Lemma c03r_calc_members_steps w deps kids bnd compute I a b :
  gsteps w deps kids bnd compute I a b ->
  (forall t, In t (c_calc a) -> k_ext (gett w t) = false) ->
  forall t, In t (c_calc b) -> k_ext (gett w t) = false.
Proof.
  intros Hs. apply (gsteps_inv w deps kids bnd compute (fun c => forall t, In t (c_calc c) -> k_ext (gett w t) = false) I a b);
    [|exact Hs].
  intros c t c' Hc Hst. destruct Hst as [c t r Hext _ _ _ _]. cbn [c_calc].
  intros u [<-|Hu]; [exact Hext | apply Hc; exact Hu].
Qed.

(* ... and all of them *)
Lemma forward_calc_members cfg w st : WFin w -> forward cfg w = Ok st ->
  forall t, In t (calc st) <-> In t (members w).
Proof.
  intros Hw H t. rewrite c03r_in_members. split.
  - destruct (forward_is_run _ _ _ H) as [Hs _].
    apply (c03r_calc_members_steps _ _ _ _ _ _ _ _ Hs). intros u [].
  - apply (c06_forward_reaches cfg w st t Hw H).
Qed.

Lemma backward_calc_members cfg w st : WFin w -> backward cfg w = Ok st ->
  forall t, In t (calc st) <-> In t (members w).
Proof.
  intros Hw H t. rewrite c03r_in_members. split.
  - destruct (backward_is_run _ _ _ H) as [Hs _].
    apply (c03r_calc_members_steps _ _ _ _ _ _ _ _ Hs). intros u [].
  - apply (c06_backward_reaches cfg w st t Hw H).
Qed.

(* whatever the order in which the pass reaches the tasks, the table of the run holds the names of
   [resource_table] *)
Lemma run_table_same supplied w st :
  (forall t, In t (calc st) <-> In t (members w)) ->
  forall r, In r (run_table supplied w st) <-> In r (resource_table supplied w).
Proof.
  intros Hc r. unfold run_table, resource_table. rewrite !visit_table_in.
  split; (intros [H|[t [H1 H2]]]; [left; exact H | right; exists t; split; [|exact H2]]).
  - apply Hc. apply in_rev. exact H1.
  - apply -> in_rev. apply Hc. exact H1.
Qed.

Theorem run_table_forward cfg supplied w st : WFin w -> forward cfg w = Ok st ->
  forall r, In r (run_table supplied w st) <-> In r (resource_table supplied w).
Proof. intros Hw H. exact (run_table_same supplied w st (forward_calc_members cfg w st Hw H)). Qed.

Theorem run_table_backward cfg supplied w st : WFin w -> backward cfg w = Ok st ->
  forall r, In r (run_table supplied w st) <-> In r (resource_table supplied w).
Proof. intros Hw H. exact (run_table_same supplied w st (backward_calc_members cfg w st Hw H)). Qed.

(* ---------- the default resource ---------- *)
Lemma c03r_weekday_range d : 0 <= weekday_of_day d < 7.
Proof. unfold weekday_of_day. apply Z.mod_pos_bound. lia. Qed.

Lemma c03r_week_cases i : 0 <= i < 7 -> i = 0 \/ i = 1 \/ i = 2 \/ i = 3 \/ i = 4 \/ i = 5 \/ i = 6.
Proof. lia. Qed.

(* Monday (0) .. Friday (4): 8 units; Saturday, Sunday: nothing *)
Theorem default_cal_spec k d : default_cal k d = if weekday_of_day d <? 5 then 8 * k else 0.
Proof.
  unfold default_cal, weekly_cap, model_weekdays, model_units.
  pose proof (c03r_week_cases _ (c03r_weekday_range d)) as H.
  remember (weekday_of_day d) as wd eqn:E. clear E.
  destruct H as [H|[H|[H|[H|[H|[H|H]]]]]]; subst wd; reflexivity.
Qed.

Lemma default_cal_default_cap k d : default_cal k d = default_cap (8 * k) d.
Proof. rewrite default_cal_spec. reflexivity. Qed.

Lemma default_cal_weekday k d d' : weekday_of_day d = weekday_of_day d' -> default_cal k d = default_cal k d'.
Proof. intros H. unfold default_cal, weekly_cap. rewrite H. reflexivity. Qed.

Lemma default_cal_nonneg k d : 0 <= k -> 0 <= default_cal k d.
Proof. intros Hk. rewrite default_cal_spec. destruct (weekday_of_day d <? 5); lia. Qed.

(* the model's default calendar is built from exactly the constants the harness reads from
   calendar.DEFAULT_CALENDAR on every run: a changed default no longer compiles *)
Theorem default_consts :
  model_weekdays = gen.Consts.default_weekdays /\ model_units = gen.Consts.default_units.
Proof. split; reflexivity. Qed.

Theorem default_resource sup_cap supplied k r d :
  (In r supplied -> table_cap sup_cap supplied k r d = sup_cap r d)
  /\ (~ In r supplied ->
      table_cap sup_cap supplied k r d = default_cal k d
      /\ default_cal k d = weekly_cap gen.Consts.default_weekdays (gen.Consts.default_units * k) d
      /\ (weekday_of_day d < 5 -> default_cal k d = 8 * k)
      /\ (5 <= weekday_of_day d -> default_cal k d = 0)).
Proof.
  unfold table_cap. split.
  - intros H. apply memb_true in H. rewrite H. reflexivity.
  - intros H. apply memb_false in H. rewrite H. split; [reflexivity|]. split; [reflexivity|].
    rewrite default_cal_spec. split; intros Hd.
    + apply Z.ltb_lt in Hd. rewrite Hd. reflexivity.
    + apply Z.ltb_ge in Hd. rewrite Hd. reflexivity.
Qed.

Lemma with_defaults_nonneg cfg supplied k : cap_nonneg cfg -> 0 <= k -> cap_nonneg (with_defaults cfg supplied k).
Proof.
  intros Hc Hk r d. cbn [with_defaults cap]. unfold table_cap.
  destruct (memb r supplied); [apply Hc | apply default_cal_nonneg; exact Hk].
Qed.

(* ---------- the report and the resources of the model's own schedules ---------- *)
Definition report_ok (cfg : config) (supplied : list nat) (k : Z) (w : list itask) (st : sst) : Prop :=
  let rows := o_rows (obs_of w st) in
  (* totals *)
  (forall r d, report_reserved rows r d = booked (lg st) r d)
  (* filtered views *)
  /\ (forall f x, In x (report_rows rows f) <-> In x rows /\ f x = true)
  /\ report_all rows = rows
  /\ (forall t, task_rows rows t = rows_of (obs_of w st) t)
  (* resources present: exactly the supplied ones and those named by a member task, each once *)
  /\ (forall r, In r (run_table supplied w st)
                <-> In r supplied \/ exists t, In t (members w) /\ k_res (gett w t) = r)
  /\ NoDup (run_table supplied w st)
  /\ (forall x, In x rows -> In (row_res x) (run_table supplied w st))
  (* a resource that was not supplied works as the default one: its rows lie on Monday..Friday and, when
     balancing, a day's total is at most 8 units *)
  /\ (forall x, In x rows -> ~ In (row_res x) supplied ->
        weekday_of_day (row_day x) < 5 /\ 0 < row_units x
        /\ (balance cfg = true -> report_reserved rows (row_res x) (row_day x) <= 8 * k)).

Lemma report_ok_gen cfg supplied k w st :
  no_overallocation (with_defaults cfg supplied k) w (lg st) ->
  (forall t, In t (calc st) <-> In t (members w)) ->
  report_ok cfg supplied k w st.
Proof.
  intros Hno Hc. unfold report_ok. cbn [obs_of o_rows]. unfold model_rows.
  assert (Htab : forall r, In r (run_table supplied w st)
                           <-> In r supplied \/ exists t, In t (members w) /\ k_res (gett w t) = r).
  { intros r. rewrite (run_table_same supplied w st Hc). apply visit_table_in. }
  split; [intros r d; apply report_totals_model|].
  split; [intros f x; apply (proj1 (report_filter _ f))|].
  split; [apply (proj1 (proj2 (proj2 (proj2 (report_filter _ (fun _ => true))))))|].
  split; [intros t; reflexivity|].
  split; [exact Htab|].
  split; [apply visit_table_nodup|].
  split.
  - intros x Hx. apply in_map_iff in Hx. destruct Hx as [y [<- Hy]]. apply in_rev in Hy.
    destruct (Hno y Hy) as [_ [He [Hr _]]]. apply Htab. right. exists (r_task y).
    split; [apply c03r_in_members; exact He | symmetry; exact Hr].
  - intros x Hx Hns. apply in_map_iff in Hx. destruct Hx as [y [<- Hy]]. apply in_rev in Hy.
    destruct (Hno y Hy) as [Hpos [_ [_ [Hcap [Hbal _]]]]].
    unfold row_obs, row_res, row_day, row_units in *.
    cbn [with_defaults cap balance] in Hcap, Hbal. unfold table_cap in Hcap, Hbal.
    apply memb_false in Hns. rewrite Hns in Hcap, Hbal. rewrite default_cal_spec in Hcap, Hbal.
    destruct (weekday_of_day (r_day y) <? 5) eqn:Ewd; [|lia].
    apply Z.ltb_lt in Ewd. split; [exact Ewd|]. split; [exact Hpos|].
    intros Hb. rewrite report_totals_model. apply Hbal. exact Hb.
Qed.

Theorem forward_report cfg supplied k w st :
  cap_nonneg cfg -> 0 <= k -> WFin w ->
  forward (with_defaults cfg supplied k) w = Ok st -> report_ok cfg supplied k w st.
Proof.
  intros Hc Hk Hw H. apply report_ok_gen.
  - apply C03_forward_holds; [apply with_defaults_nonneg; assumption | exact H].
  - apply (forward_calc_members _ w st Hw H).
Qed.

Theorem backward_report cfg supplied k w st :
  cap_nonneg cfg -> 0 <= k -> WFin w ->
  backward (with_defaults cfg supplied k) w = Ok st -> report_ok cfg supplied k w st.
Proof.
  intros Hc Hk Hw H. apply report_ok_gen.
  - apply C03_backward_holds; [apply with_defaults_nonneg; assumption | exact H].
  - apply (backward_calc_members _ w st Hw H).
Qed.

(* ---------- what code 0 of the checker means ---------- *)
Lemma c03r_in_week i : 0 <= i < 7 -> In i [0; 1; 2; 3; 4; 5; 6].
Proof. intros H. destruct (c03r_week_cases i H) as [E|[E|[E|[E|[E|[E|E]]]]]]; subst i; cbn [In]; tauto. Qed.

Lemma c03r_weekday_shift i : 0 <= i < 7 -> weekday_of_day (i - 3) = i.
Proof. intros H. unfold weekday_of_day. replace (i - 3 + 3) with i by lia. apply Z.mod_small. exact H. Qed.

(* the tabulation of a resource passes clause 4 only if the capacity function read from it IS the default
   calendar, on every day *)
Theorem tab_is_default_sound rs k r :
  tab_is_default rs k r = true -> forall d, cap_of rs r d = default_cal k d.
Proof.
  unfold tab_is_default, cap_of. set (c := nth r rs no_rescal). intros H d.
  apply andb_true_iff in H. destruct H as [H1 H2]. rewrite forallb_forall in H1, H2.
  pose proof (c03r_weekday_range d) as Hwd.
  specialize (H2 _ (c03r_in_week _ Hwd)). apply andb_true_iff in H2. destruct H2 as [Hpre Hpost].
  apply Z.eqb_eq in Hpre. apply Z.eqb_eq in Hpost.
  assert (Hsame : default_cal k (weekday_of_day d - 3) = default_cal k d).
  { apply default_cal_weekday. apply c03r_weekday_shift. exact Hwd. }
  destruct (d <? rc_lo c) eqn:E1; [rewrite Hpre; exact Hsame|].
  destruct (d <? rc_lo c + Z.of_nat (length (rc_tab c))) eqn:E2; [|rewrite Hpost; exact Hsame].
  apply Z.ltb_ge in E1. apply Z.ltb_lt in E2.
  assert (Hin : In (d - rc_lo c) (map Z.of_nat (seq 0 (length (rc_tab c))))).
  { apply in_map_iff. exists (Z.to_nat (d - rc_lo c)). split; [apply Z2Nat.id; lia|]. apply in_seq. lia. }
  specialize (H1 _ Hin). apply Z.eqb_eq in H1. rewrite H1. f_equal. lia.
Qed.

Lemma supplied_names_in sup r : In r (supplied_names sup) <-> nth r sup false = true.
Proof.
  unfold supplied_names. rewrite filter_In, in_seq. split; [intros [_ H]; exact H|].
  intros H. split; [|exact H]. destruct (Nat.lt_ge_cases r (length sup)) as [L|G]; [lia|].
  rewrite nth_overflow in H by exact G. discriminate.
Qed.

Definition report_case_ok (c : repcase) : Prop :=
  (forall r d v, In (r, d, v) (p_reserved c) -> Z.abs (obooked (p_rows c) r d - v) <= p_eps c)
  /\ (forall r, In r (p_resources c)
                <-> nth r (p_supplied c) false = true
                    \/ exists t, In t (members (p_w c)) /\ k_res (gett (p_w c) t) = r)
  /\ (forall r, In r (p_resources c) -> nth r (p_supplied c) false = false ->
                forall d, cap_of (p_rs c) r d = default_cal (p_scale c) d).

Theorem check_report_sound c : check_report c = 0%nat -> report_case_ok c.
Proof.
  unfold check_report.
  destruct (totals_b c) eqn:E1; cbn [negb]; [|discriminate].
  destruct (none_missing_b c) eqn:E2; cbn [negb]; [|discriminate].
  destruct (none_extra_b c) eqn:E3; cbn [negb]; [|discriminate].
  destruct (defaults_b c) eqn:E4; cbn [negb]; [|discriminate]. intros _.
  unfold totals_b in E1. unfold none_missing_b in E2. unfold none_extra_b in E3. unfold defaults_b in E4.
  rewrite forallb_forall in E1, E2, E3, E4.
  assert (Hexp : forall r, In r (expected_table c)
                           <-> nth r (p_supplied c) false = true
                               \/ exists t, In t (members (p_w c)) /\ k_res (gett (p_w c) t) = r).
  { intros r. unfold expected_table. rewrite (proj1 (resources_present _ _)), supplied_names_in. reflexivity. }
  split; [|split].
  - intros r d v Hin. specialize (E1 _ Hin). cbn beta iota in E1. apply Z.leb_le in E1.
    rewrite report_totals in E1. exact E1.
  - intros r. rewrite <- Hexp. split.
    + intros H. apply memb_true. apply E3. exact H.
    + intros H. apply memb_true. apply E2. exact H.
  - intros r Hin Hns. specialize (E4 _ Hin). rewrite Hns in E4. cbn [orb] in E4.
    apply tab_is_default_sound. exact E4.
Qed.

(* the first two clauses are decided exactly: a case that satisfies them does not get code 1, 2 or 3 *)
Theorem check_report_complete c :
  (forall r d v, In (r, d, v) (p_reserved c) -> Z.abs (obooked (p_rows c) r d - v) <= p_eps c) ->
  (forall r, In r (p_resources c)
             <-> nth r (p_supplied c) false = true
                 \/ exists t, In t (members (p_w c)) /\ k_res (gett (p_w c) t) = r) ->
  check_report c = 0%nat \/ check_report c = 4%nat.
Proof.
  intros H1 H2.
  assert (Hexp : forall r, In r (expected_table c) <-> In r (p_resources c)).
  { intros r. unfold expected_table. rewrite (proj1 (resources_present _ _)), supplied_names_in, H2. reflexivity. }
  unfold check_report.
  assert (E1 : totals_b c = true).
  { unfold totals_b. apply forallb_forall. intros [[r d] v] Hin. apply Z.leb_le. rewrite report_totals. apply H1. exact Hin. }
  assert (E2 : none_missing_b c = true).
  { unfold none_missing_b. apply forallb_forall. intros r Hr. apply memb_true. apply Hexp. exact Hr. }
  assert (E3 : none_extra_b c = true).
  { unfold none_extra_b. apply forallb_forall. intros r Hr. apply memb_true. apply Hexp. exact Hr. }
  rewrite E1, E2, E3. cbn [negb]. destruct (defaults_b c); cbn [negb]; [left | right]; reflexivity.
Qed.
