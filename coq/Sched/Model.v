(* Model of src/pjplan/schedule.py (ForwardScheduler, BackwardScheduler, the usage ledger) over exact
   integer arithmetic: time in microseconds, work amounts and capacities in a common scaled unit.
   The schedulers see the WBS after clone(): tasks are numbered 0..n-1 in WBS order, followed by
   the tasks outside the WBS that members depend on ([k_ext]).  Definitions only. *)
From PJ Require Export Base.Prelude.

(* ---------- usage ledger ---------- *)
Record row := { r_res : nat; r_day : Z; r_task : nat; r_units : Z }.
Definition ledger := list row.            (* newest reservation first; rows() order is [rev] *)

Definition row_on (r : nat) (d : Z) (x : row) : bool := Nat.eqb (r_res x) r && (r_day x =? d).
Definition sum_units (l : ledger) : Z := fold_right (fun x a => r_units x + a) 0 l.
Definition booked (l : ledger) (r : nat) (d : Z) : Z := sum_units (filter (row_on r d) l).
Definition booked_t (l : ledger) (r : nat) (d : Z) (t : nat) : Z :=
  sum_units (filter (fun x => row_on r d x && Nat.eqb (r_task x) t) l).
(* what the scheduler subtracts from the calendar capacity: everybody's reservations when
   balancing, the task's own otherwise *)
Definition used (balance : bool) (l : ledger) (r : nat) (d : Z) (t : nat) : Z :=
  if balance then booked l r d else booked_t l r d t.

(* share of the day, as a time offset: 24h * u / c *)
Definition frac (u c : Z) : Z := DAY * u / c.

(* ---------- searches ---------- *)
(* IResource.get_nearest_availability_date: first day at or after/before [d] with calendar capacity *)
Fixpoint first_open (cp : Z -> Z) (dir : Z) (fuel : nat) (d : Z) : option Z :=
  match fuel with
  | O => None
  | S n => if 0 <? cp d then Some d else first_open cp dir n (d + dir)
  end.

(* __get_resource_nearest_available_date, second loop: first day with free capacity *)
Fixpoint next_free (cp us : Z -> Z) (dir : Z) (fuel : nat) (d : Z) : option Z :=
  match fuel with
  | O => None
  | S n => if 0 <? cp d - us d then Some d else next_free cp us dir n (d + dir)
  end.

(* __shift_by_resource_usage_and_calendar: day-by-day greedy reservation.
   [d] is the last day already looked at, [left > 0].  Returns ledger and last day used. *)
Fixpoint fill (cp : Z -> Z) (balance : bool) (r t : nat) (dir : Z) (fuel : nat)
         (l : ledger) (d : Z) (left : Z) : res (ledger * Z) :=
  match fuel with
  | O => Err
  | S n =>
      let d' := d + dir in
      let avail := cp d' - used balance l r d' t in
      let amount := Z.min left avail in
      let l' := if 0 <? avail then {| r_res := r; r_day := d'; r_task := t; r_units := amount |} :: l else l in
      let left' := if 0 <? avail then left - amount else left in
      if 0 <? left' then fill cp balance r t dir n l' d' left' else Ok (l', d')
  end.

(* ---------- the WBS as the schedulers see it ---------- *)
Record itask := {
  k_parent : option nat; k_children : list nat; k_preds : list nat; k_succs : list nat;
  k_ext : bool;                      (* outside the scheduled WBS *)
  k_milestone : bool; k_res : nat;
  k_est : option Z; k_spent : option Z;
  k_start : option Z; k_end : option Z; k_minstart : option Z }.

Definition no_task : itask :=
  {| k_parent := None; k_children := []; k_preds := []; k_succs := []; k_ext := true; k_milestone := false;
     k_res := 0; k_est := None; k_spent := None; k_start := None; k_end := None; k_minstart := None |}.

Record dyn := { d_start : option Z; d_end : option Z; d_est : option Z; d_spent : option Z }.
Definition no_dyn : dyn := {| d_start := None; d_end := None; d_est := None; d_spent := None |}.

Record config := {
  cap : nat -> Z -> Z;               (* resource -> day -> calendar units *)
  balance : bool;
  dflt_est : Z;
  pbound : Z;                        (* project start (forward) / project end (backward) *)
  now : Z;
  h_search : nat;                    (* max_days of get_nearest_availability_date *)
  h_near : nat;                      (* max_steps of __get_resource_nearest_available_date *)
  h_fill : nat }.                    (* max_steps of __shift_by_resource_usage_and_calendar *)

Record sst := { dy : list dyn; lg : ledger; calc : list nat; inprog : list nat }.

Definition gett (w : list itask) (t : nat) : itask := nth t w no_task.
Definition getd (st : sst) (t : nat) : dyn := nth t (dy st) no_dyn.

Fixpoint set_nth {A} (l : list A) (n : nat) (x : A) : list A :=
  match l, n with
  | [], _ => []
  | _ :: r, O => x :: r
  | a :: r, S m => a :: set_nth r m x
  end.

Definition memb (t : nat) (l : list nat) : bool := existsb (Nat.eqb t) l.
Definition remove_nat (t : nat) (l : list nat) : list nat := filter (fun x => negb (Nat.eqb x t)) l.

Fixpoint ancestors (w : list itask) (fuel : nat) (t : nat) : list nat :=
  match fuel with
  | O => []
  | S f => match k_parent (gett w t) with
           | None => []
           | Some p => p :: ancestors w f p
           end
  end.

(* what a task waits for: its own predecessors, then those of every parent (nearest parent first) *)
Definition prereqs (w : list itask) (t : nat) : list nat :=
  k_preds (gett w t) ++ flat_map (fun a => k_preds (gett w a)) (ancestors w (length w) t).
Definition dependants (w : list itask) (t : nat) : list nat :=
  k_succs (gett w t) ++ flat_map (fun a => k_succs (gett w a)) (ancestors w (length w) t).

Fixpoint fold_res {S A} (f : S -> A -> res S) (l : list A) (s : S) : res S :=
  match l with
  | [] => Ok s
  | a :: r => do s' <- f s a; fold_res f r s'
  end.

Fixpoint somes {A} (l : list (option A)) : list A :=
  match l with
  | [] => []
  | Some x :: r => x :: somes r
  | None :: r => somes r
  end.

Definition is_leaf (k : itask) : bool := match k_children k with [] => true | _ => false end.
Definition odflt (o : option Z) (d : Z) : Z := match o with Some x => x | None => d end.

(* sum([ch.x for ch in children]): None raises TypeError *)
Fixpoint sum_opts (l : list (option Z)) : res Z :=
  match l with
  | [] => Ok 0
  | Some x :: r => do s <- sum_opts r; Ok (x + s)
  | None :: _ => Crash TypeError
  end.

(* ---------- forward ---------- *)
(* __get_resource_nearest_available_date: RuntimeError when a horizon is exhausted *)
Definition fwd_nearest (cfg : config) (l : ledger) (r t : nat) (t0 : Z) : res Z :=
  match first_open (cap cfg r) 1 (h_search cfg) (day_of t0) with
  | None => Err
  | Some d0 =>
      match next_free (cap cfg r) (fun d => used (balance cfg) l r d t) 1 (h_near cfg) d0 with
      | None => Err
      | Some d => Ok (DAY * d + frac (used (balance cfg) l r d t) (cap cfg r d))
      end
  end.

Definition fwd_shift (cfg : config) (l : ledger) (r t : nat) (s0 left : Z) : res (ledger * Z) :=
  if left =? 0 then Ok (l, s0)
  else
    do '(l', d) <- fill (cap cfg r) (balance cfg) r t 1 (h_fill cfg) l (day_of s0 - 1) left;
    Ok (l', DAY * d + frac (used (balance cfg) l' r d t) (cap cfg r d)).

Definition getdl (ds : list dyn) (t : nat) : dyn := nth t ds no_dyn.

(* the calculation of one task once everything it waits for (and its children) is calculated:
   new dates/amounts of the task and the ledger with the task's reservations *)
Definition fwd_compute (cfg : config) (w : list itask) (ds : list dyn) (l : ledger) (t : nat) (bound : Z)
  : res (list dyn * ledger) :=
  let k := gett w t in
  let dn := getdl ds t in
  if k_milestone k then
    Ok (set_nth ds t {| d_start := Some bound; d_end := Some bound; d_est := Some 0; d_spent := Some 0 |}, l)
  else
    let kids := map (getdl ds) (k_children k) in
    do start <- match d_start dn with
                | Some s => Ok s
                | None =>
                    if is_leaf k then
                      do s <- fwd_nearest cfg l (k_res k) t
                                (Z.max (Z.max bound (now cfg)) (odflt (k_minstart k) 0));
                      Ok (match d_end dn with Some e => Z.min s e | None => s end)
                    else
                      match somes (map d_start kids) with
                      | [] => Ok 0
                      | x :: xs => Ok (fold_left Z.min xs x)
                      end
                end;
    do est <- match d_est dn with
              | Some e => Ok e
              | None => if is_leaf k then Ok (dflt_est cfg) else sum_opts (map d_est kids)
              end;
    do spent <- match d_spent dn with
                | Some e => Ok e
                | None => if is_leaf k then Ok 0 else sum_opts (map d_spent kids)
                end;
    do '(l', en) <- match d_end dn with
                    | Some e => Ok (l, e)
                    | None =>
                        if is_leaf k then
                          do '(l', e) <- fwd_shift cfg l (k_res k) t
                                           (Z.max (Z.max start (now cfg)) (pbound cfg))
                                           (Z.max (est - spent) 0);
                          Ok (l', Z.max e start)
                        else
                          match somes (map d_end kids) with
                          | [] => Crash ValueError
                          | x :: xs => Ok (l, fold_left Z.max xs x)
                          end
                    end;
    Ok (set_nth ds t {| d_start := Some start; d_end := Some en; d_est := Some est; d_spent := Some spent |}, l').

Definition bound_max (ds : list dyn) (pre : list nat) (b : Z) : Z :=
  fold_left Z.max (somes (map (fun p => d_end (getdl ds p)) pre)) b.
Definition bound_min (ds : list dyn) (pre : list nat) (b : Z) : Z :=
  fold_left Z.min (somes (map (fun p => d_start (getdl ds p)) pre)) b.

Definition enter (st : sst) (t : nat) : sst :=
  {| dy := dy st; lg := lg st; calc := calc st; inprog := t :: inprog st |}.
Definition leave (st : sst) (t : nat) (r : list dyn * ledger) : sst :=
  {| dy := fst r; lg := snd r; calc := t :: calc st; inprog := remove_nat t (inprog st) |}.

(* The recursive pass, shared by both schedulers: [deps t] is what the task waits for, [kids t] its
   children in the order they are visited, [bnd] the bound derived from the calculated tasks,
   [compute] the calculation of one task.  A task that is reached again while it is being
   calculated is the RuntimeError of a dependency cycle closing through the hierarchy. *)
Section Pass.
Variable w : list itask.
Variable deps : nat -> list nat.
Variable kids : nat -> list nat.
Variable bnd : list dyn -> list nat -> Z.
Variable compute : list dyn -> ledger -> nat -> Z -> res (list dyn * ledger).

Fixpoint gpass (fuel : nat) (st : sst) (t : nat) : res sst :=
  match fuel with
  | O => Crash RecursionError
  | S f =>
      if k_ext (gett w t) then Ok st
      else if memb t (calc st) then Ok st
      else if memb t (inprog st) then Err
      else
        do st2 <- fold_res (gpass f) (deps t) (enter st t);
        let bound := bnd (dy st2) (deps t) in
        do st3 <- fold_res (gpass f) (kids t) st2;
        do r <- compute (dy st3) (lg st3) t bound;
        Ok (leave st3 t r)
  end.
End Pass.

Definition fwd_pass (fuel : nat) (cfg : config) (w : list itask) : sst -> nat -> res sst :=
  gpass w (prereqs w) (fun t => k_children (gett w t))
        (fun ds pre => bound_max ds pre (pbound cfg)) (fwd_compute cfg w) fuel.

(* clone + __prepare_tasks: summary tasks lose their dates and amounts *)
Definition init_dyn (k : itask) : dyn :=
  if negb (k_ext k) && negb (is_leaf k) then no_dyn
  else {| d_start := k_start k; d_end := k_end k; d_est := k_est k; d_spent := k_spent k |}.
Definition init_state (w : list itask) : sst :=
  {| dy := map init_dyn w; lg := []; calc := []; inprog := [] |}.

Definition members (w : list itask) : list nat :=
  filter (fun t => negb (k_ext (gett w t))) (seq 0 (length w)).
Definition roots (w : list itask) : list nat :=
  filter (fun t => match k_parent (gett w t) with None => true | Some _ => false end) (members w).

(* _validate_graph_isolation: a predecessor outside the WBS must have both dates *)
Definition isolated_ok (w : list itask) : bool :=
  forallb (fun t => forallb (fun p => let kp := gett w p in
                                       negb (k_ext kp) || (match k_start kp, k_end kp with
                                                           | Some _, Some _ => true | _, _ => false end))
                            (k_preds (gett w t))) (members w).

(* __check_no_end_dates_in_future *)
Definition no_future_ends (w : list itask) (nw : Z) : bool :=
  forallb (fun t => match k_end (gett w t) with Some e => e <=? nw | None => true end) (members w).

Definition forward (cfg : config) (w : list itask) : res sst :=
  if negb (isolated_ok w) then Err
  else if negb (no_future_ends w (now cfg)) then Err
  else fold_res (fwd_pass (S (S (length w))) cfg w) (roots w) (init_state w).

(* ---------- backward ---------- *)
Definition bwd_nearest (cfg : config) (l : ledger) (r t : nat) (t0 : Z) : res Z :=
  match first_open (cap cfg r) (-1) (h_search cfg) (day_of t0 - 1) with
  | None => Err
  | Some d0 =>
      match next_free (cap cfg r) (fun d => used (balance cfg) l r d t) (-1) (h_near cfg) d0 with
      | None => Err
      | Some d => Ok (DAY * (d + 1) - frac (used (balance cfg) l r d t) (cap cfg r d))
      end
  end.

Definition bwd_shift (cfg : config) (l : ledger) (r t : nat) (e0 left : Z) : res (ledger * Z) :=
  if left =? 0 then Ok (l, e0)
  else
    do '(l', d) <- fill (cap cfg r) (balance cfg) r t (-1) (h_fill cfg) l (day_of e0) left;
    Ok (l', DAY * (d + 1) - frac (used (balance cfg) l' r d t) (cap cfg r d)).

Definition bwd_compute (cfg : config) (w : list itask) (ds : list dyn) (l : ledger) (t : nat) (bound : Z)
  : res (list dyn * ledger) :=
  let k := gett w t in
  let dn := getdl ds t in
  if k_milestone k then
    Ok (set_nth ds t {| d_start := Some bound; d_end := Some bound; d_est := Some 0; d_spent := Some 0 |}, l)
  else
    let kids := map (getdl ds) (k_children k) in
    do en <- match d_end dn with
             | Some e => Ok e
             | None =>
                 if is_leaf k then bwd_nearest cfg l (k_res k) t bound
                 else match somes (map d_end kids) with
                      | [] => Ok bound
                      | x :: xs => Ok (fold_left Z.max xs x)
                      end
             end;
    do est <- match d_est dn with
              | Some e => Ok e
              | None => if is_leaf k then Ok (dflt_est cfg) else sum_opts (map d_est kids)
              end;
    do spent <- match d_spent dn with
                | Some e => Ok e
                | None => if is_leaf k then Ok 0 else sum_opts (map d_spent kids)
                end;
    do '(l', start) <-
         (if is_leaf k then
            do '(l', s) <- bwd_shift cfg l (k_res k) t (Z.min en bound) (Z.max (est - spent) 0);
            Ok (l', match d_start dn with Some s0 => Z.min s0 s | None => s end)
          else
            match somes (map d_start kids) with
            | [] => Crash ValueError
            | x :: xs => Ok (l, fold_left Z.min xs x)
            end);
    Ok (set_nth ds t {| d_start := Some start; d_end := Some en; d_est := Some est; d_spent := Some spent |}, l').

Definition bwd_pass (fuel : nat) (cfg : config) (w : list itask) : sst -> nat -> res sst :=
  gpass w (dependants w) (fun t => rev (k_children (gett w t)))
        (fun ds dep => bound_min ds dep (pbound cfg)) (bwd_compute cfg w) fuel.

Definition backward (cfg : config) (w : list itask) : res sst :=
  if negb (isolated_ok w) then Err
  else fold_res (bwd_pass (S (S (length w))) cfg w) (rev (roots w)) (init_state w).
