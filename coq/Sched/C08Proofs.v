(* C08, part 3: forward schedules are tight and their dates encode the booked shares -
   the theorems about the final state of [forward]. *)
From PJ Require Import Base.Prelude Sched.Model Sched.LedgerProofs Sched.Primitives Sched.Machine
     Sched.Instances Sched.C03Proofs Sched.C08Run Sched.C08Step
     Sched.Check Sched.Oracles Sched.OracleProofs.

(* ---------- the rows of one task ---------- *)
Definition c08_own_rows (l : ledger) (t : nat) : ledger := filter (fun x => Nat.eqb (r_task x) t) l.

Definition c08_is_max (ds : list Z) (m : Z) : Prop := In m ds /\ forall d, In d ds -> d <= m.
Definition c08_is_min (ds : list Z) (m : Z) : Prop := In m ds /\ forall d, In d ds -> m <= d.
(* the task's last work day; its start day when it has no work *)
Definition c08_lastday_is (days : list Z) (s ld : Z) : Prop :=
  (days = [] /\ ld = day_of s) \/ c08_is_max days ld.

Lemma c08_filter_none {A} (f : A -> bool) l : (forall x, In x l -> f x = false) -> filter f l = [].
Proof.
  induction l as [|x l IH]; intros H; simpl; [reflexivity|].
  rewrite (H x (or_introl eq_refl)). apply IH. intros y Hy. apply H. right. exact Hy.
Qed.

Lemma c08_filter_all {A} (f : A -> bool) l : (forall x, In x l -> f x = true) -> filter f l = l.
Proof.
  induction l as [|x l IH]; intros H; simpl; [reflexivity|].
  rewrite (H x (or_introl eq_refl)). f_equal. apply IH. intros y Hy. apply H. right. exact Hy.
Qed.

Lemma c08_own_rows_split ext new l t :
  (forall x, In x ext -> r_task x <> t) -> (forall x, In x new -> r_task x = t) ->
  (forall x, In x l -> r_task x <> t) -> c08_own_rows (ext ++ new ++ l) t = new.
Proof.
  intros He Hn Hl. unfold c08_own_rows. rewrite !filter_app.
  rewrite (c08_filter_none _ ext), (c08_filter_all _ new), (c08_filter_none _ l).
  - rewrite app_nil_r. reflexivity.
  - intros x Hx. apply Nat.eqb_neq. apply Hl. exact Hx.
  - intros x Hx. apply Nat.eqb_eq. apply Hn. exact Hx.
  - intros x Hx. apply Nat.eqb_neq. apply He. exact Hx.
Qed.

(* ---------- the free leaf tasks of the oracle ---------- *)
Lemma c08_free_leaf_inv w t : free_leaf w t = true ->
  is_leaf (gett w t) = true /\ k_milestone (gett w t) = false
  /\ k_start (gett w t) = None /\ k_end (gett w t) = None.
Proof.
  unfold free_leaf, leafb. intros H. rewrite !andb_true_iff in H. destruct H as [[A B] C].
  apply negb_true_iff in B. destruct (k_start (gett w t)); [discriminate|].
  destruct (k_end (gett w t)); [discriminate|]. auto.
Qed.

(* ---------- from the step that calculated t to the final state ---------- *)
Record c08_final (cfg : config) (w : list itask) (st : sst) (t : nat) (d1 s e : Z) (ext new l : ledger) : Prop := {
  cf_lg : lg st = ext ++ new ++ l;
  cf_ext : forall x, In x ext -> r_task x <> t;
  cf_l : forall x, In x l -> r_task x <> t;
  cf_ok : ledger_ok (cap cfg) (balance cfg) (lg st);
  cf_end_dyn : d_end (getd st t) = Some e;
  cf_rel : day_of (c08_release cfg w (dy st) t) <= d1;
  cf_free : 0 <= used (balance cfg) l (k_res (gett w t)) d1 t < cap cfg (k_res (gett w t)) d1;
  cf_start : s = DAY * d1 + frac (used (balance cfg) l (k_res (gett w t)) d1 t) (cap cfg (k_res (gett w t)) d1);
  cf_start_day : day_of s = d1;
  (* balanced: a day that was full when t was calculated is full at the end *)
  cf_wait : balance cfg = true -> forall d, day_of (c08_release cfg w (dy st) t) <= d < d1 ->
              booked (lg st) (k_res (gett w t)) d = cap cfg (k_res (gett w t)) d;
  cf_rows : forall y, In y new -> r_res y = k_res (gett w t) /\ r_task y = t /\ 0 < r_units y /\ d1 <= r_day y;
  cf_sum : sum_units new = c08_left cfg w t;
  cf_nodup : NoDup (map r_day new);
  cf_le : s <= e;
  cf_end : (new = [] /\ e = Z.max (Z.max s (now cfg)) (pbound cfg) /\ day_of e = d1)
           \/ (exists x rest dl,
                 new = x :: rest /\ r_day x = dl /\ (forall y, In y new -> r_day y <= dl)
                 /\ (exists y, In y new /\ r_day y = d1)
                 /\ e = DAY * dl + frac (used (balance cfg) (new ++ l) (k_res (gett w t)) dl t)
                                        (cap cfg (k_res (gett w t)) dl)
                 /\ 0 < used (balance cfg) (new ++ l) (k_res (gett w t)) dl t <= cap cfg (k_res (gett w t)) dl
                 /\ (balance cfg = true -> forall d, d1 <= d < dl ->
                       booked (lg st) (k_res (gett w t)) d = cap cfg (k_res (gett w t)) d)) }.

Lemma c08_at_final_calc cfg w st t :
  cap_nonneg cfg -> forward cfg w = Ok st -> free_leaf w t = true -> In t (calc st) ->
  exists d1 s e ext new l, d_start (getd st t) = Some s /\ c08_final cfg w st t d1 s e ext new l.
Proof.
  intros Hcn Hf Hfl Hcalc. destruct (c08_free_leaf_inv _ _ Hfl) as [Hleaf [Hms [Hks Hke]]].
  destruct (forward_is_run _ _ _ Hf) as [Hrun _].
  pose proof (c08_inv_init cfg w Hcn) as Hi0.
  pose proof (c08_inv_fsteps _ _ _ _ _ Hrun Hi0) as Hib.
  change (calc st) with (c_calc (core_of st)) in Hcalc.
  destruct (c08_run_split cfg w [] _ _ t Hrun Hcalc ltac:(intros [])) as [c [c' [Hac [Hstep Hcb]]]].
  pose proof (c08_inv_fsteps _ _ _ _ _ Hac Hi0) as Hic.
  pose proof (c08_inv_fstep _ _ _ _ _ Hic Hstep) as Hic'.
  destruct (c08_step_free_leaf cfg w c t c' Hcn Hic Hstep Hleaf Hms Hks Hke) as [d1 [s [e [new L]]]].
  destruct L as [Llg Lsd Led Lrel Lfree Lst Lsday Lwait Lrows Lsum Lnd Lle Lend].
  assert (Hcb' : fsteps cfg w [] c (core_of st)).
  { unfold fsteps. eapply gsteps_step; [intros [] | exact Hstep | exact Hcb]. }
  pose proof (c08_grows_fsteps _ _ _ _ _ Hcb Hic') as [ext [Hext Hextrows]].
  (* the task itself and what it waited for are frozen *)
  assert (Hnotc : ~ In t (c_calc c) /\ (forall p, In p (prereqs w t) -> ready w c p) /\ In t (c_calc c')).
  { unfold fstep in Hstep. destruct Hstep as [c0 t0 r0 _ Hn Hd _ _]. simpl. auto. }
  destruct Hnotc as [Hnotc [Hdeps Hinc']].
  assert (Hfz : nth t (dy st) no_dyn = nth t (c_dy c') no_dyn).
  { apply (c08_frozen_fsteps _ _ _ _ _ Hcb t). right. exact Hinc'. }
  assert (Hrel : c08_release cfg w (dy st) t = c08_release cfg w (c_dy c) t).
  { unfold c08_release. f_equal. f_equal. apply bound_max_ext. intros p Hp.
    apply (c08_frozen_fsteps _ _ _ _ _ Hcb' p). apply Hdeps. exact Hp. }
  assert (Hlrows : forall x, In x (c_lg c) -> r_task x <> t).
  { intros x Hx E. destruct Hic as [[_ Hwf] _]. destruct (Hwf x Hx) as [A _]. rewrite E in A. contradiction. }
  exists d1, s, e, ext, new, (c_lg c). split; [unfold getd; rewrite Hfz; exact Lsd|].
  constructor; try assumption.
  - change (lg st) with (c_lg (core_of st)). rewrite Hext, Llg. reflexivity.
  - intros x Hx E. destruct (Hextrows x Hx) as [_ A]. rewrite E in A. contradiction.
  - destruct Hib as [[Hok _] _]. exact Hok.
  - unfold getd. rewrite Hfz. exact Led.
  - rewrite Hrel. exact Lrel.
  - intros Hb d Hd. rewrite Hrel in Hd. specialize (Lwait d Hd). rewrite Hb in Lwait. simpl in Lwait.
    apply (c08_full_persists cfg w c (core_of st) _ _ Hb
             (c08_grows_fsteps _ _ _ _ _ Hcb' Hic) (proj1 Hib) Lwait).
  - destruct Lend as [Lend | [x [rest [dl [A [B [C [D [E [F G]]]]]]]]]]; [left; exact Lend|].
    right. exists x, rest, dl. repeat split; try assumption; try apply F.
    intros Hb d Hd. specialize (G d Hd). rewrite Hb in G. simpl in G. rewrite <- Llg in G.
    apply (c08_full_persists cfg w c' (core_of st) _ _ Hb
             (c08_grows_fsteps _ _ _ _ _ Hcb Hic') (proj1 Hib) G).
Qed.

Lemma c08_at_final cfg w st t s :
  cap_nonneg cfg -> forward cfg w = Ok st -> free_leaf w t = true ->
  d_start (getd st t) = Some s ->
  exists d1 e ext new l, c08_final cfg w st t d1 s e ext new l.
Proof.
  intros Hcn Hf Hfl Hstart. destruct (c08_free_leaf_inv _ _ Hfl) as [Hleaf [Hms [Hks Hke]]].
  destruct (forward_is_run _ _ _ Hf) as [Hrun _].
  pose proof (c08_inv_fsteps _ _ _ _ _ Hrun (c08_inv_init cfg w Hcn)) as Hib.
  (* t has been calculated: otherwise it would still have no start *)
  assert (Hcalc : In t (calc st)).
  { destruct (in_dec Nat.eq_dec t (calc st)) as [Y|N]; [exact Y|]. exfalso.
    destruct Hib as [_ [Hu _]]. specialize (Hu t N). simpl in Hu. unfold getd in Hstart.
    rewrite Hu, (c08_init_leaf _ Hleaf), Hks in Hstart. discriminate. }
  destruct (c08_at_final_calc cfg w st t Hcn Hf Hfl Hcalc) as [d1 [s' [e [ext [new [l [A B]]]]]]].
  assert (s' = s) by congruence. subst s'. exists d1, e, ext, new, l. exact B.
Qed.

(* ---------- (a) tight ---------- *)
Definition c08_tight_statement (cfg : config) (w : list itask) (st : sst) : Prop :=
  forall t s, free_leaf w t = true -> d_start (getd st t) = Some s ->
    exists ld, c08_lastday_is (map r_day (c08_own_rows (lg st) t)) s ld
               /\ forall d, day_of (c08_release cfg w (dy st) t) <= d < ld ->
                            booked (lg st) (k_res (gett w t)) d = cap cfg (k_res (gett w t)) d.

Lemma c08_own_rows_final cfg w st t d1 s e ext new l :
  c08_final cfg w st t d1 s e ext new l -> c08_own_rows (lg st) t = new.
Proof.
  intros F. rewrite (cf_lg _ _ _ _ _ _ _ _ _ _ F). apply c08_own_rows_split.
  - apply (cf_ext _ _ _ _ _ _ _ _ _ _ F).
  - intros x Hx. destruct (cf_rows _ _ _ _ _ _ _ _ _ _ F x Hx) as [_ [A _]]. exact A.
  - apply (cf_l _ _ _ _ _ _ _ _ _ _ F).
Qed.

Theorem C08_tight_holds cfg w st :
  cap_nonneg cfg -> balance cfg = true -> forward cfg w = Ok st -> c08_tight_statement cfg w st.
Proof.
  intros Hcn Hb Hf t s Hfl Hs.
  destruct (c08_at_final cfg w st t s Hcn Hf Hfl Hs) as [d1 [e [ext [new [l F]]]]].
  rewrite (c08_own_rows_final _ _ _ _ _ _ _ _ _ _ F).
  destruct F as [Flg Fext Fl Fok Fed Frel Ffree Fst Fsd Fwait Frows Fsum Fnd Fle Fend].
  destruct Fend as [[-> [He Hed]] | [x [rest [dl [A [B [C [D [E [G H]]]]]]]]]].
  - exists d1. split; [left; split; [reflexivity | symmetry; exact Fsd]|].
    intros d Hd. apply Fwait; assumption.
  - exists dl. split.
    + right. split.
      * apply in_map_iff. exists x. split; [exact B | rewrite A; left; reflexivity].
      * intros d Hd. apply in_map_iff in Hd. destruct Hd as [y [<- Hy]]. apply C. exact Hy.
    + intros d Hd. destruct (Z_lt_le_dec d d1) as [L|G'].
      * apply Fwait; [exact Hb | lia].
      * apply H; [exact Hb | lia].
Qed.

(* ---------- (b) the dates encode the booked shares ---------- *)
Lemma c08_before_app a b t :
  (forall x, In x a -> row_task x <> t) -> before_task (a ++ b) t = a ++ before_task b t.
Proof.
  induction a as [|x a IH]; intros H; simpl; [reflexivity|].
  destruct (Nat.eqb_spec (row_task x) t) as [E|E]; [exfalso; apply (H x); [left; reflexivity | exact E]|].
  f_equal. apply IH. intros y Hy. apply H. right. exact Hy.
Qed.

Lemma c08_before_hit x b t : row_task x = t -> before_task (x :: b) t = [].
Proof. intros E. simpl. rewrite E, Nat.eqb_refl. reflexivity. Qed.

Lemma c08_upto_app a b t d :
  (forall x, In x a -> ~ (row_task x = t /\ row_day x = d)) ->
  upto_task_day (a ++ b) t d = a ++ upto_task_day b t d.
Proof.
  induction a as [|x a IH]; intros H; simpl; [reflexivity|].
  destruct (Nat.eqb_spec (row_task x) t) as [E|E]; simpl.
  - destruct (Z.eqb_spec (row_day x) d) as [E2|E2]; [exfalso; apply (H x); [left; reflexivity | auto]|].
    f_equal. apply IH. intros y Hy. apply H. right. exact Hy.
  - f_equal. apply IH. intros y Hy. apply H. right. exact Hy.
Qed.

Lemma c08_upto_hit x b t d : row_task x = t -> row_day x = d -> upto_task_day (x :: b) t d = [x].
Proof. intros E1 E2. simpl. rewrite E1, E2, Nat.eqb_refl, Z.eqb_refl. reflexivity. Qed.

Lemma c08_model_rows_split st ext new l :
  lg st = ext ++ new ++ l ->
  model_rows st = map row_obs (rev l) ++ map row_obs (rev new) ++ map row_obs (rev ext).
Proof. intros H. unfold model_rows. rewrite H, !rev_app_distr, !map_app, app_assoc. reflexivity. Qed.

Lemma c08_in_map_rev_task (l : ledger) t :
  (forall x, In x l -> r_task x <> t) -> forall y, In y (map row_obs (rev l)) -> row_task y <> t.
Proof.
  intros H y Hy. apply in_map_iff in Hy. destruct Hy as [x [<- Hx]]. apply in_rev in Hx.
  unfold row_obs, row_task. apply H. exact Hx.
Qed.

(* rows() before the first row of t = the ledger when t was calculated *)
Lemma c08_before_model st t ext new l r d :
  lg st = ext ++ new ++ l -> new <> [] ->
  (forall x, In x l -> r_task x <> t) -> (forall x, In x new -> r_task x = t) ->
  obooked (before_task (model_rows st) t) r d = booked l r d.
Proof.
  intros Hlg Hne Hl Hn. rewrite (c08_model_rows_split _ _ _ _ Hlg).
  rewrite c08_before_app by (apply c08_in_map_rev_task; exact Hl).
  destruct (rev new) as [|y ys] eqn:Er.
  { exfalso. apply Hne. rewrite <- (rev_involutive new), Er. reflexivity. }
  cbn [map app]. rewrite c08_before_hit.
  - rewrite app_nil_r. apply obooked_model.
  - unfold row_obs, row_task. apply Hn. apply in_rev. rewrite Er. left. reflexivity.
Qed.

(* rows() up to and including t's row on its last day = the ledger after t was calculated *)
Lemma c08_upto_model st t ext x rest l r d :
  lg st = ext ++ (x :: rest) ++ l ->
  (forall y, In y l -> r_task y <> t) -> (forall y, In y (x :: rest) -> r_task y = t) ->
  NoDup (map r_day (x :: rest)) ->
  obooked (upto_task_day (model_rows st) t (r_day x)) r d = booked ((x :: rest) ++ l) r d.
Proof.
  intros Hlg Hl Hn Hnd. rewrite (c08_model_rows_split _ _ _ _ Hlg).
  rewrite c08_upto_app.
  2:{ intros y Hy [E _]. revert E. apply (c08_in_map_rev_task l t Hl y Hy). }
  cbn [rev]. rewrite map_app, <- app_assoc. rewrite c08_upto_app.
  2:{ intros y Hy [_ E]. apply in_map_iff in Hy. destruct Hy as [z [<- Hz]]. apply in_rev in Hz.
      unfold row_obs, row_day in E. inversion Hnd as [|? ? Hnot _]; subst. apply Hnot.
      apply in_map_iff. exists z. split; [exact E | exact Hz]. }
  cbn [map app]. rewrite c08_upto_hit.
  - rewrite <- (obooked_model ((x :: rest) ++ l)). cbn [app rev].
    rewrite rev_app_distr, !map_app, <- !app_assoc. reflexivity.
  - unfold row_obs, row_task. apply Hn. left. reflexivity.
  - reflexivity.
Qed.

Definition c08_encode_statement (cfg : config) (w : list itask) (st : sst) : Prop :=
  forall t s e, free_leaf w t = true -> d_start (getd st t) = Some s -> d_end (getd st t) = Some e ->
    c08_own_rows (lg st) t <> [] ->
    let r := k_res (gett w t) in
    let days := map r_day (c08_own_rows (lg st) t) in
    exists first last, c08_is_min days first /\ c08_is_max days last
      /\ 0 < cap cfg r first /\ 0 < cap cfg r last
      /\ if balance cfg then
           s = DAY * first + frac (obooked (before_task (model_rows st) t) r first) (cap cfg r first)
           /\ obooked (before_task (model_rows st) t) r first < cap cfg r first
           /\ e = DAY * last + frac (obooked (upto_task_day (model_rows st) t last) r last) (cap cfg r last)
           /\ 0 < obooked (upto_task_day (model_rows st) t last) r last <= cap cfg r last
         else
           s = DAY * first
           /\ e = DAY * last + frac (booked_t (lg st) r last t) (cap cfg r last)
           /\ 0 < booked_t (lg st) r last t <= cap cfg r last.

Theorem C08_encode_holds cfg w st :
  cap_nonneg cfg -> forward cfg w = Ok st -> c08_encode_statement cfg w st.
Proof.
  intros Hcn Hf t s e Hfl Hs He Hrows r days. subst r days.
  destruct (c08_at_final cfg w st t s Hcn Hf Hfl Hs) as [d1 [e' [ext [new [l F]]]]].
  rewrite (c08_own_rows_final _ _ _ _ _ _ _ _ _ _ F) in Hrows |- *.
  destruct F as [Flg Fext Fl Fok Fed Frel Ffree Fst Fsd Fwait Frows Fsum Fnd Fle Fend].
  assert (e' = e) by congruence. subst e'.
  destruct Fend as [[-> _] | [x [rest [dl [A [B [C [D [E [G H]]]]]]]]]]; [contradiction|].
  assert (Hnt : forall y, In y new -> r_task y = t).
  { intros y Hy. destruct (Frows y Hy) as [_ [P _]]. exact P. }
  exists d1, dl. split; [|split; [|split; [|split]]].
  - destruct D as [y [Hy Hd]]. split.
    + apply in_map_iff. exists y. auto.
    + intros d Hd'. apply in_map_iff in Hd'. destruct Hd' as [z [<- Hz]]. destruct (Frows z Hz) as [_ [_ [_ P]]]. exact P.
  - split.
    + apply in_map_iff. exists x. split; [exact B | rewrite A; left; reflexivity].
    + intros d Hd'. apply in_map_iff in Hd'. destruct Hd' as [z [<- Hz]]. apply C. exact Hz.
  - lia.
  - lia.
  - destruct (balance cfg) eqn:Hb.
    + cbn [used] in Ffree, Fst, E, G.
      rewrite (c08_before_model st t ext new l _ _ Flg Hrows Fl Hnt).
      rewrite A in Flg, Hnt, Fnd. subst dl.
      rewrite (c08_upto_model st t ext x rest l _ _ Flg Fl Hnt Fnd). rewrite <- A.
      repeat split; try assumption; lia.
    + cbn [used] in Ffree, Fst, E, G.
      rewrite (c08_booked_t_foreign l _ _ t Fl) in Fst. rewrite frac_zero in Fst.
      rewrite Flg, c08_booked_t_app, (c08_booked_t_foreign ext _ _ t Fext).
      repeat split; try assumption; lia.
Qed.

(* ---------- (e) the oracle means what it says ---------- *)
Lemma c08_zmax_list_spec l : forall x, c08_is_max (x :: l) (zmax_list x l).
Proof.
  induction l as [|y l IH]; intros x; simpl.
  - split; [left; reflexivity|]. intros d [<-|[]]. lia.
  - destruct (IH (Z.max x y)) as [A B]. split.
    + destruct A as [A|A]; [|right; right; exact A].
      assert (E : Z.max x y = x \/ Z.max x y = y) by lia. destruct E as [E|E]; [left | right; left]; congruence.
    + intros d Hd. assert (Z.max x y <= zmax_list (Z.max x y) l) by (apply B; left; reflexivity).
      destruct Hd as [<-|[<-|Hd]]; [lia | lia | apply B; right; exact Hd].
Qed.

Lemma c08_zmin_list_spec l : forall x, c08_is_min (x :: l) (zmin_list x l).
Proof.
  induction l as [|y l IH]; intros x; simpl.
  - split; [left; reflexivity|]. intros d [<-|[]]. lia.
  - destruct (IH (Z.min x y)) as [A B]. split.
    + destruct A as [A|A]; [|right; right; exact A].
      assert (E : Z.min x y = x \/ Z.min x y = y) by lia. destruct E as [E|E]; [left | right; left]; congruence.
    + intros d Hd. assert (zmin_list (Z.min x y) l <= Z.min x y) by (apply B; left; reflexivity).
      destruct Hd as [<-|[<-|Hd]]; [lia | lia | apply B; right; exact Hd].
Qed.

Lemma c08_is_max_unique l a b : c08_is_max l a -> c08_is_max l b -> a = b.
Proof. intros [A1 A2] [B1 B2]. specialize (A2 _ B1). specialize (B2 _ A1). lia. Qed.

Lemma c08_is_min_unique l a b : c08_is_min l a -> c08_is_min l b -> a = b.
Proof. intros [A1 A2] [B1 B2]. specialize (A2 _ B1). specialize (B2 _ A1). lia. Qed.

Lemma c08_zrange_in n : forall lo d, In d (zrange lo n) <-> lo <= d < lo + Z.of_nat n.
Proof.
  induction n as [|n IH]; intros lo d; simpl zrange.
  - simpl. lia.
  - simpl In. rewrite IH. lia.
Qed.

(* a free leaf that reserved nothing (no work left) *)
Definition c08_norows (cfg : config) (rows : list obs_row) (r : nat) (s e : Z) : Prop :=
  let d1 := day_of s in
  0 < cap cfg r d1 /\ e = Z.max s (pbound cfg)
  /\ if balance cfg then
       s <= DAY * d1 + frac (obooked rows r d1) (cap cfg r d1)
       /\ exists n, (n <= length rows)%nat
            /\ s = DAY * d1 + frac (obooked (firstn n rows) r d1) (cap cfg r d1)
     else s = DAY * d1.

Lemma c08_norows_b cfg rows r s e :
  (0 <? cap cfg r (day_of s)) && (e =? Z.max s (pbound cfg))
  && (if balance cfg then
        (s <=? DAY * day_of s + frac (obooked rows r (day_of s)) (cap cfg r (day_of s)))
        && existsb (fun n => s =? DAY * day_of s + frac (obooked (firstn n rows) r (day_of s)) (cap cfg r (day_of s)))
                   (seq 0 (S (length rows)))
      else s =? DAY * day_of s) = true
  <-> c08_norows cfg rows r s e.
Proof.
  unfold c08_norows. cbv zeta. rewrite !andb_true_iff, Z.ltb_lt, Z.eqb_eq.
  destruct (balance cfg).
  - rewrite andb_true_iff, Z.leb_le, existsb_exists. split.
    + intros [[A B] [C [n [Hn En]]]]. apply in_seq in Hn. apply Z.eqb_eq in En.
      split; [exact A|]. split; [exact B|]. split; [exact C|]. exists n. split; [lia | exact En].
    + intros [A [B [C [n [Hn En]]]]]. split; [split; assumption|]. split; [exact C|].
      exists n. split; [apply in_seq; lia | apply Z.eqb_eq; exact En].
  - rewrite Z.eqb_eq. tauto.
Qed.

Definition c08_task_statement (cfg : config) (w : list itask) (o : osch) (t : nat) : Prop :=
  free_leaf w t = true ->
  exists s e release ld,
    let r := k_res (gett w t) in
    let days := map row_day (rows_of o t) in
    o_start o t = Some s /\ o_end o t = Some e
    /\ c08_is_max (pbound cfg :: now cfg :: odflt (k_minstart (gett w t)) 0 :: ends_of o w (prereq_leaves w t)) release
    /\ c08_lastday_is days s ld
    (* tight *)
    /\ (balance cfg = true -> forall d, day_of release <= d < ld -> obooked (o_rows o) r d = cap cfg r d)
    (* the dates encode the booked shares *)
    /\ (now cfg <= pbound cfg -> days <> [] ->
        exists first, c08_is_min days first /\
          if balance cfg then
            s = DAY * first + frac (obooked (before_task (o_rows o) t) r first) (cap cfg r first)
            /\ e = DAY * ld + frac (obooked (upto_task_day (o_rows o) t ld) r ld) (cap cfg r ld)
          else
            s = DAY * first /\ e = DAY * ld + frac (obooked_t (o_rows o) r ld t) (cap cfg r ld))
    (* ... also when nothing was left to reserve *)
    /\ (now cfg <= pbound cfg -> days = [] -> c08_norows cfg (o_rows o) r s e).

Theorem c08_task_b_sound cfg w o t : c08_task_b cfg w o t = true -> c08_task_statement cfg w o t.
Proof.
  unfold c08_task_b, c08_task_statement. intros H Hfl. rewrite Hfl in H. cbn [negb] in H.
  destruct (o_start o t) as [s|]; [|discriminate]. destruct (o_end o t) as [e|]; [|discriminate].
  apply andb_true_iff in H. destruct H as [Ht He].
  set (rel := zmax_list (pbound cfg) (now cfg :: odflt (k_minstart (gett w t)) 0 :: ends_of o w (prereq_leaves w t))) in *.
  set (days := map row_day (rows_of o t)) in *.
  set (ld := match days with [] => day_of s | d0 :: ds => zmax_list d0 ds end) in *.
  exists s, e, rel, ld. cbv zeta. split; [reflexivity|]. split; [reflexivity|].
  split; [apply c08_zmax_list_spec|]. split; [|split; [|split]].
  - unfold c08_lastday_is, ld. destruct days as [|d0 ds]; [left; auto | right; apply c08_zmax_list_spec].
  - intros Hb d Hd. rewrite Hb in Ht. rewrite forallb_forall in Ht. apply Z.eqb_eq. apply Ht.
    apply c08_zrange_in. lia.
  - intros Hnow Hne. apply Z.leb_le in Hnow. rewrite Hnow in He.
    destruct days as [|d0 ds] eqn:Ed; [contradiction|]. exists (zmin_list d0 ds).
    split; [apply c08_zmin_list_spec|].
    destruct (balance cfg); apply andb_true_iff in He; destruct He as [A B];
      apply Z.eqb_eq in A; apply Z.eqb_eq in B; split; assumption.
  - intros Hnow Hnil. apply Z.leb_le in Hnow. rewrite Hnow in He.
    destruct days as [|d0 ds] eqn:Ed; [|discriminate]. apply c08_norows_b. exact He.
Qed.

Theorem c08_task_b_complete cfg w o t : c08_task_statement cfg w o t -> c08_task_b cfg w o t = true.
Proof.
  unfold c08_task_b, c08_task_statement. intros H.
  destruct (free_leaf w t) eqn:Hfl; [|reflexivity]. cbn [negb].
  destruct (H eq_refl) as [s [e [rel [ld [Hs [He [Hrel [Hld [Ht [Hen Hno]]]]]]]]]]. rewrite Hs, He.
  set (days := map row_day (rows_of o t)) in *.
  assert (Erel : zmax_list (pbound cfg) (now cfg :: odflt (k_minstart (gett w t)) 0 :: ends_of o w (prereq_leaves w t)) = rel).
  { eapply c08_is_max_unique; [apply c08_zmax_list_spec | exact Hrel]. }
  assert (Eld : match days with [] => day_of s | d0 :: ds => zmax_list d0 ds end = ld).
  { destruct Hld as [[E1 E2]|Hm].
    - rewrite E1. symmetry. exact E2.
    - destruct days as [|d0 ds]; [destruct Hm as [[] _]|].
      eapply c08_is_max_unique; [apply c08_zmax_list_spec | exact Hm]. }
  rewrite Erel, Eld. apply andb_true_iff. split.
  - destruct (balance cfg); [|reflexivity]. apply forallb_forall. intros d Hd. apply c08_zrange_in in Hd.
    apply Z.eqb_eq. apply Ht; [reflexivity | lia].
  - destruct (Z.leb_spec (now cfg) (pbound cfg)) as [Hn|Hn]; [|reflexivity].
    destruct days as [|d0 ds] eqn:Ed; [apply c08_norows_b; apply Hno; [exact Hn | reflexivity]|].
    destruct (Hen Hn ltac:(discriminate)) as [first [Hf Henc]].
    assert (Ef : zmin_list d0 ds = first).
    { eapply c08_is_min_unique; [apply c08_zmin_list_spec | exact Hf]. }
    rewrite Ef. destruct (balance cfg); destruct Henc as [A B]; apply andb_true_iff; split; apply Z.eqb_eq; assumption.
Qed.

(* the model: a free leaf without rows *)
Lemma c08_firstn_app_exact {A} (a b : list A) : firstn (length a) (a ++ b) = a.
Proof. rewrite firstn_app, Nat.sub_diag, firstn_all. simpl. apply app_nil_r. Qed.

Theorem c08_norows_holds cfg w st t d1 s e ext l :
  c08_final cfg w st t d1 s e ext [] l -> now cfg <= pbound cfg ->
  c08_norows cfg (model_rows st) (k_res (gett w t)) s e.
Proof.
  intros F Hnow.
  destruct F as [Flg Fext Fl Fok Fed Frel Ffree Fst Fsd Fwait Frows Fsum Fnd Fle Fend].
  set (r := k_res (gett w t)) in *.
  unfold c08_norows. cbv zeta. rewrite Fsd.
  split; [lia|]. split.
  { destruct Fend as [[_ [Ee _]] | [x [rest [dl [A _]]]]]; [lia | discriminate]. }
  destruct (balance cfg) eqn:Hb; cbn [used] in Ffree, Fst.
  - simpl in Flg. destruct Fok as [Hpos _]. split.
    + unfold model_rows. rewrite obooked_model.
      assert (Hg : booked l r d1 <= booked (lg st) r d1).
      { pose proof (used_app true ext l r d1 t) as Ha.
        pose proof (used_nonneg true ext r d1 t
                      (fun x Hx => Hpos x ltac:(rewrite Flg; apply in_or_app; left; exact Hx))) as Hn0.
        rewrite Flg. unfold used in *. lia. }
      assert (Hc0 : 0 < cap cfg r d1) by lia.
      pose proof (frac_mono _ _ _ Hc0 Hg). lia.
    + exists (length (map row_obs (rev l))).
      rewrite (c08_model_rows_split st ext [] l Flg). split.
      * rewrite app_length. lia.
      * rewrite c08_firstn_app_exact, obooked_model. exact Fst.
  - rewrite (c08_booked_t_foreign l _ _ t Fl), frac_zero in Fst. lia.
Qed.
