(* Well-formedness of the abstract WBS the schedulers receive (the abstraction of the graph
   invariant WF of DESIGN.md 3.2 after clone()), as a boolean that the correspondence run evaluates
   on every generated case - so the hypothesis [wfin_b w = true] of the scheduler theorems is
   checked on every input the implementation was actually given.  Definitions only. *)
From PJ Require Import Base.Prelude Sched.Model.

Definition is_ext (w : list itask) (t : nat) : bool := k_ext (gett w t).
Definition in_range (w : list itask) (t : nat) : bool := (t <? length w)%nat.

Fixpoint nodup_nat (l : list nat) : bool :=
  match l with [] => true | x :: r => negb (memb x r) && nodup_nat r end.

(* a member task *)
Definition wfin_member_b (w : list itask) (t : nat) : bool :=
  let k := gett w t in
  (* hierarchy: children are distinct members that name t as parent; the parent lists t *)
  forallb (fun c => in_range w c && negb (is_ext w c)
                    && match k_parent (gett w c) with Some p => Nat.eqb p t | None => false end) (k_children k)
  && nodup_nat (k_children k)
  && match k_parent k with
     | Some p => in_range w p && negb (is_ext w p) && memb t (k_children (gett w p))
     | None => true
     end
  (* no task is its own ancestor *)
  && negb (memb t (ancestors w (length w) t))
  (* dependency links: in range, distinct, never the task itself, mirrored among members *)
  && forallb (fun p => in_range w p && negb (Nat.eqb p t)
                       && (is_ext w p || memb t (k_succs (gett w p)))) (k_preds k)
  && forallb (fun s => in_range w s && negb (Nat.eqb s t)
                       && (is_ext w s || memb t (k_preds (gett w s)))) (k_succs k)
  && nodup_nat (k_preds k) && nodup_nat (k_succs k)
  (* no link between a task and one of its ancestors *)
  && forallb (fun a => negb (memb a (k_preds k)) && negb (memb a (k_succs k))) (ancestors w (length w) t)
  (* milestones are leaves; amounts are not negative (Task's setters) *)
  && (negb (k_milestone k) || is_leaf k)
  && match k_est k with Some e => 0 <=? e | None => true end
  && match k_spent k with Some e => 0 <=? e | None => true end.

(* a task outside the scheduled WBS is only a pair of dates *)
Definition wfin_ext_b (k : itask) : bool :=
  match k_parent k, k_children k, k_preds k, k_succs k with
  | None, [], [], [] => true
  | _, _, _, _ => false
  end.

(* the declared dependency relation among members has no cycle: every chain of predecessors
   is shorter than the number of tasks *)
Fixpoint pred_depth_ok (w : list itask) (fuel : nat) (t : nat) : bool :=
  match fuel with
  | O => false
  | S f => forallb (fun p => is_ext w p || pred_depth_ok w f p) (k_preds (gett w t))
  end.

Definition wfin_b (w : list itask) : bool :=
  forallb (fun t => if is_ext w t then wfin_ext_b (gett w t)
                    else wfin_member_b w t && pred_depth_ok w (length w) t)
          (seq 0 (length w)).

Definition WFin (w : list itask) : Prop := wfin_b w = true.

(* members are numbered before the tasks outside the WBS (the observation lists index tasks by number) *)
Definition members_first_b (w : list itask) : bool :=
  list_eqb Nat.eqb (members w) (seq 0 (length (members w))).
