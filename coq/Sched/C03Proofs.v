(* C03: no over-allocation.  The ledger invariant is preserved by every step of both machines. *)
From PJ Require Import Base.Prelude Sched.Model Sched.LedgerProofs Sched.Machine Sched.Instances.

Definition cap_nonneg (cfg : config) : Prop := forall r d, 0 <= cap cfg r d.

Lemma used_new_zero balance (new : list row) r t r' d' t' :
  (forall x, In x new -> r_res x = r /\ r_task x = t) ->
  (r' <> r \/ ~ In d' (map r_day new) \/ (balance = false /\ t' <> t)) ->
  used balance new r' d' t' = 0.
Proof.
  induction new as [|x new IH]; intros H C.
  - apply used_nil.
  - rewrite used_cons. rewrite IH.
    + destruct (H x (or_introl eq_refl)) as [Hr Ht]. unfold hits, row_on.
      destruct C as [C|[C|[Cb C]]].
      * destruct (Nat.eqb_spec (r_res x) r'); [congruence|]. reflexivity.
      * destruct (Z.eqb_spec (r_day x) d') as [E|E]; [exfalso; apply C; left; exact E|].
        rewrite andb_false_r. reflexivity.
      * subst balance. destruct (Nat.eqb_spec (r_task x) t'); [congruence|]. simpl. rewrite andb_false_r. reflexivity.
    + intros y Hy. apply H. right. exact Hy.
    + destruct C as [C|[C|C]]; [left; exact C | right; left; intro Hin; apply C; right; exact Hin | right; right; exact C].
Qed.

Lemma used_task_irrelevant l r d t t' : used true l r d t' = used true l r d t.
Proof. reflexivity. Qed.

(* the reservations of one fill keep the ledger invariant *)
Lemma fill_ledger_ok cp balance r t dir n l d left l' dl :
  dir <> 0 -> fill (cp r) balance r t dir n l d left = Ok (l', dl) -> 0 < left ->
  ledger_ok cp balance l ->
  exists new, l' = new ++ l /\ new <> [] /\ (forall x, In x new -> r_res x = r /\ r_task x = t /\ 0 < r_units x)
              /\ ledger_ok cp balance l'.
Proof.
  intros Hdir Hf Hleft [Hpos Hcap].
  destruct (fill_spec (cp r) balance r t dir Hdir _ _ _ _ _ _ Hf Hleft) as [new R].
  destruct R as [Ra Rr Rs Rl Rn Rc Rf Rt]. exists new. split; [exact Ra|]. split.
  { destruct Rl as [x [rest [-> _]]]. discriminate. }
  assert (Hrows : forall x, In x new -> r_res x = r /\ r_task x = t /\ 0 < r_units x).
  { intros x Hx. destruct (Rr x Hx) as [A [B [C _]]]. auto. }
  split; [exact Hrows|]. split.
  - intros x Hx. rewrite Ra in Hx. apply in_app_or in Hx. destruct Hx as [Hx|Hx]; [apply Hrows; exact Hx | apply Hpos; exact Hx].
  - intros r' d' t'.
    destruct (Nat.eq_dec r' r) as [->|Hr].
    + destruct (in_dec Z.eq_dec d' (map r_day new)) as [Hd|Hd].
      * apply in_map_iff in Hd. destruct Hd as [x [Hx1 Hx2]]. subst d'.
        destruct balance eqn:Hb.
        -- rewrite (used_task_irrelevant l' r (r_day x) t t'). apply Rc. exact Hx2.
        -- destruct (Nat.eq_dec t' t) as [->|Ht]; [apply Rc; exact Hx2|].
           rewrite Ra, used_app, (used_new_zero false new r t r (r_day x) t').
           ++ simpl. apply Hcap.
           ++ intros y Hy. destruct (Hrows y Hy) as [A [B _]]. auto.
           ++ right; right. auto.
      * rewrite Ra, used_app, (used_new_zero balance new r t r d' t').
        -- simpl. apply Hcap.
        -- intros y Hy. destruct (Hrows y Hy) as [A [B _]]. auto.
        -- right; left. exact Hd.
    + rewrite Ra, used_app, (used_new_zero balance new r t r' d' t').
      * simpl. apply Hcap.
      * intros y Hy. destruct (Hrows y Hy) as [A [B _]]. auto.
      * left. exact Hr.
Qed.

Definition adds_rows_of (t r : nat) (l l' : ledger) : Prop :=
  exists new, l' = new ++ l /\ forall x, In x new -> r_res x = r /\ r_task x = t /\ 0 < r_units x.

Lemma adds_rows_refl t r l : adds_rows_of t r l l.
Proof. exists []. split; [reflexivity | intros x []]. Qed.

Lemma fwd_shift_ledger cfg l r t s0 left l' e :
  fwd_shift cfg l r t s0 left = Ok (l', e) -> 0 <= left ->
  ledger_ok (cap cfg) (balance cfg) l ->
  adds_rows_of t r l l' /\ ledger_ok (cap cfg) (balance cfg) l'.
Proof.
  unfold fwd_shift. destruct (Z.eqb_spec left 0) as [E|E].
  - intros H; inversion H; subst. intros _ Hl. split; [apply adds_rows_refl | exact Hl].
  - destruct (fill (cap cfg r) (balance cfg) r t 1 (h_fill cfg) l (day_of s0 - 1) left) as [[l2 d2]| |] eqn:Hf;
      simpl; try discriminate.
    intros H; inversion H; subst l2 e. intros Hleft Hl.
    destruct (fill_ledger_ok (cap cfg) (balance cfg) r t 1 _ _ _ _ _ _ ltac:(lia) Hf ltac:(lia) Hl)
      as [new [Ha [_ [Hr Hok]]]].
    split; [exists new; split; assumption | exact Hok].
Qed.

Lemma bwd_shift_ledger cfg l r t e0 left l' s :
  bwd_shift cfg l r t e0 left = Ok (l', s) -> 0 <= left ->
  ledger_ok (cap cfg) (balance cfg) l ->
  adds_rows_of t r l l' /\ ledger_ok (cap cfg) (balance cfg) l'.
Proof.
  unfold bwd_shift. destruct (Z.eqb_spec left 0) as [E|E].
  - intros H; inversion H; subst. intros _ Hl. split; [apply adds_rows_refl | exact Hl].
  - destruct (fill (cap cfg r) (balance cfg) r t (-1) (h_fill cfg) l (day_of e0) left) as [[l2 d2]| |] eqn:Hf;
      simpl; try discriminate.
    intros H; inversion H; subst l2 s. intros Hleft Hl.
    destruct (fill_ledger_ok (cap cfg) (balance cfg) r t (-1) _ _ _ _ _ _ ltac:(lia) Hf ltac:(lia) Hl)
      as [new [Ha [_ [Hr Hok]]]].
    split; [exists new; split; assumption | exact Hok].
Qed.

(* what a compute step does to the ledger *)
Lemma fwd_compute_ledger cfg w ds l t b ds' l' :
  fwd_compute cfg w ds l t b = Ok (ds', l') -> ledger_ok (cap cfg) (balance cfg) l ->
  adds_rows_of t (k_res (gett w t)) l l' /\ ledger_ok (cap cfg) (balance cfg) l'.
Proof.
  intros H Hl. apply fwd_compute_inv in H.
  destruct H as [[_ [_ ->]] | [_ [start [en [est [spent [_ [_ [_ [_ He]]]]]]]]]].
  - split; [apply adds_rows_refl | exact Hl].
  - unfold fwd_end_eq in He. destruct (d_end (getdl ds t)).
    + inversion He; subst. split; [apply adds_rows_refl | exact Hl].
    + destruct (is_leaf (gett w t)).
      * destruct (fwd_shift cfg l (k_res (gett w t)) t _ _) as [[l2 e2]| |] eqn:Hs; simpl in He; try discriminate.
        inversion He; subst l2 en. eapply fwd_shift_ledger; [exact Hs | lia | exact Hl].
      * destruct (somes _); [discriminate|]. inversion He; subst. split; [apply adds_rows_refl | exact Hl].
Qed.

Lemma bwd_compute_ledger cfg w ds l t b ds' l' :
  bwd_compute cfg w ds l t b = Ok (ds', l') -> ledger_ok (cap cfg) (balance cfg) l ->
  adds_rows_of t (k_res (gett w t)) l l' /\ ledger_ok (cap cfg) (balance cfg) l'.
Proof.
  intros H Hl. apply bwd_compute_inv in H.
  destruct H as [[_ [_ ->]] | [_ [start [en [est [spent [_ [_ [_ [_ He]]]]]]]]]].
  - split; [apply adds_rows_refl | exact Hl].
  - unfold bwd_start_eq in He. destruct (is_leaf (gett w t)).
    + destruct (bwd_shift cfg l (k_res (gett w t)) t _ _) as [[l2 s2]| |] eqn:Hs; simpl in He; try discriminate.
      inversion He; subst l2 start. eapply bwd_shift_ledger; [exact Hs | lia | exact Hl].
    + destruct (somes _); [discriminate|]. inversion He; subst. split; [apply adds_rows_refl | exact Hl].
Qed.

(* ---------- the invariant ---------- *)
Definition rows_wf (w : list itask) (c : core) : Prop :=
  forall x, In x (c_lg c) ->
            In (r_task x) (c_calc c) /\ k_ext (gett w (r_task x)) = false /\ r_res x = k_res (gett w (r_task x)).

Definition inv03 (cfg : config) (w : list itask) (c : core) : Prop :=
  ledger_ok (cap cfg) (balance cfg) (c_lg c) /\ rows_wf w c.

Lemma inv03_init cfg w : cap_nonneg cfg -> inv03 cfg w (init_core w).
Proof. intros H. split; [apply ledger_ok_nil; exact H | intros x []]. Qed.

Lemma inv03_step_gen cfg w (c c' : core) t l' :
  k_ext (gett w t) = false ->
  adds_rows_of t (k_res (gett w t)) (c_lg c) l' -> ledger_ok (cap cfg) (balance cfg) l' ->
  c_lg c' = l' -> c_calc c' = t :: c_calc c ->
  inv03 cfg w c -> inv03 cfg w c'.
Proof.
  intros Hext [new [Ha Hr]] Hok Hl Hc [_ Hw]. split; [rewrite Hl; exact Hok|].
  intros x Hx. rewrite Hl, Ha in Hx. rewrite Hc. apply in_app_or in Hx. destruct Hx as [Hx|Hx].
  - destruct (Hr x Hx) as [A [B _]]. rewrite B. repeat split; [left; reflexivity | exact Hext | exact A].
  - destruct (Hw x Hx) as [A [B C]]. repeat split; [right; exact A | exact B | exact C].
Qed.

Lemma inv03_fstep cfg w c t c' : inv03 cfg w c -> fstep cfg w c t c' -> inv03 cfg w c'.
Proof.
  intros Hi Hs. unfold fstep in Hs. destruct Hs as [c t r Hext Hnot _ _ Hc]. destruct r as [ds' l'].
  destruct (fwd_compute_ledger _ _ _ _ _ _ _ _ Hc (proj1 Hi)) as [Ha Hok].
  eapply (inv03_step_gen cfg w c _ t l'); eauto.
Qed.

Lemma inv03_bstep cfg w c t c' : inv03 cfg w c -> bstep cfg w c t c' -> inv03 cfg w c'.
Proof.
  intros Hi Hs. unfold bstep in Hs. destruct Hs as [c t r Hext Hnot _ _ Hc]. destruct r as [ds' l'].
  destruct (bwd_compute_ledger _ _ _ _ _ _ _ _ Hc (proj1 Hi)) as [Ha Hok].
  eapply (inv03_step_gen cfg w c _ t l'); eauto.
Qed.

Theorem forward_inv03 cfg w st : cap_nonneg cfg -> forward cfg w = Ok st -> inv03 cfg w (core_of st).
Proof.
  intros Hc H. destruct (forward_is_run _ _ _ H) as [Hs _].
  eapply (gsteps_inv w _ _ _ _ (inv03 cfg w)); [|exact Hs | apply inv03_init; exact Hc].
  intros c t c' Hi Hst. eapply inv03_fstep; eauto.
Qed.

Theorem backward_inv03 cfg w st : cap_nonneg cfg -> backward cfg w = Ok st -> inv03 cfg w (core_of st).
Proof.
  intros Hc H. destruct (backward_is_run _ _ _ H) as [Hs _].
  eapply (gsteps_inv w _ _ _ _ (inv03 cfg w)); [|exact Hs | apply inv03_init; exact Hc].
  intros c t c' Hi Hst. eapply inv03_bstep; eauto.
Qed.

(* ---------- the property in its own words ---------- *)
Definition no_overallocation (cfg : config) (w : list itask) (l : ledger) : Prop :=
  forall x, In x l ->
    0 < r_units x
    /\ k_ext (gett w (r_task x)) = false /\ r_res x = k_res (gett w (r_task x))
    /\ 0 < cap cfg (r_res x) (r_day x)
    /\ (balance cfg = true -> booked l (r_res x) (r_day x) <= cap cfg (r_res x) (r_day x))
    /\ (balance cfg = false -> booked_t l (r_res x) (r_day x) (r_task x) <= cap cfg (r_res x) (r_day x)).

Lemma used_own_row balance l x : (forall y, In y l -> 0 < r_units y) -> In x l ->
  r_units x <= used balance l (r_res x) (r_day x) (r_task x).
Proof.
  induction l as [|y l IH]; intros Hpos Hin; [destruct Hin|]. destruct Hin as [E|Hin].
  - subst y. rewrite used_cons. unfold hits, row_on. rewrite !Nat.eqb_refl, Z.eqb_refl. simpl. rewrite orb_true_r.
    pose proof (used_nonneg balance l (r_res x) (r_day x) (r_task x) (fun z Hz => Hpos z (or_intror Hz))). lia.
  - rewrite used_cons. specialize (IH (fun z Hz => Hpos z (or_intror Hz)) Hin).
    specialize (Hpos y (or_introl eq_refl)). destruct (hits _ _ _ _ y); lia.
Qed.

Lemma inv03_meaning cfg w c : inv03 cfg w c -> no_overallocation cfg w (c_lg c).
Proof.
  intros [[Hpos Hcap] Hw] x Hx. destruct (Hw x Hx) as [_ [B C]].
  pose proof (Hcap (r_res x) (r_day x) (r_task x)) as Hu.
  pose proof (used_own_row (balance cfg) _ x Hpos Hx) as Ho.
  specialize (Hpos x Hx).
  repeat split; try assumption; try lia.
  - intros Hb. rewrite Hb in Hu. exact Hu.
  - intros Hb. rewrite Hb in Hu. exact Hu.
Qed.

Theorem C03_forward_holds cfg w st :
  cap_nonneg cfg -> forward cfg w = Ok st -> no_overallocation cfg w (lg st).
Proof. intros Hc H. exact (inv03_meaning cfg w _ (forward_inv03 cfg w st Hc H)). Qed.

Theorem C03_backward_holds cfg w st :
  cap_nonneg cfg -> backward cfg w = Ok st -> no_overallocation cfg w (lg st).
Proof. intros Hc H. exact (inv03_meaning cfg w _ (backward_inv03 cfg w st Hc H)). Qed.
