(* C08, part 9 (balancing off): removing a task that has nothing to do with anybody - a top-level
   leaf without links - leaves every other task's dates and amounts unchanged.  "Removing" is modelled
   without renumbering: the task's entry is blanked ([c08_mask]: it becomes an unreferenced entry
   outside the WBS, which no scheduler ever looks at).  The proof is a simulation between the two
   runs of the recursive pass. *)
From PJ Require Import Base.Prelude Sched.Model Sched.LedgerProofs Sched.Primitives Sched.Machine
     Sched.Instances Sched.C03Proofs Sched.WfIn Sched.C08Run Sched.C08Step Sched.C08Proofs Sched.C08Indep
     Sched.C08Leaves Sched.C08Check Sched.Check Sched.Oracles Sched.C08Order.

Definition c08_mask (u : nat) (w : list itask) : list itask := set_nth w u no_task.

Lemma c08_mask_gett u w v : v <> u -> gett (c08_mask u w) v = gett w v.
Proof. intros H. unfold gett, c08_mask. apply nth_set_nth_other. exact H. Qed.

Lemma c08_mask_length u w : length (c08_mask u w) = length w.
Proof. apply length_set_nth. Qed.

(* ---------- nobody refers to an isolated task ---------- *)
Lemma c08_iso_not_parent w u v : WFin w -> c08_isolated w u -> k_parent (gett w v) <> Some u.
Proof.
  intros H [_ [_ [Hch _]]] Hp. destruct (k_ext (gett w v)) eqn:Hext.
  - destruct (Nat.lt_ge_cases v (length w)) as [L|G].
    + unfold WFin, wfin_b in H. rewrite forallb_forall in H. specialize (H v ltac:(apply in_seq; lia)).
      unfold is_ext in H. rewrite Hext in H. unfold wfin_ext_b in H. rewrite Hp in H. discriminate.
    + unfold gett in Hp. rewrite nth_overflow in Hp by exact G. discriminate.
  - destruct (mf_parent _ _ (c08_member_facts_of w v H Hext) u Hp) as [_ Hin]. rewrite Hch in Hin. destruct Hin.
Qed.

Lemma c08_iso_not_child w u v : WFin w -> c08_isolated w u -> ~ In u (k_children (gett w v)).
Proof.
  intros H [_ [Hp _]] Hin. destruct (k_ext (gett w v)) eqn:Hext.
  - destruct (c08_ext_no_links w v H Hext) as [E _]. rewrite E in Hin. destruct Hin.
  - destruct (mf_children _ _ (c08_member_facts_of w v H Hext) u Hin) as [_ Hq]. congruence.
Qed.

Lemma c08_iso_not_prereq w u v : WFin w -> c08_isolated w u -> ~ In u (prereqs w v).
Proof.
  intros H [Hext [_ [_ [_ Hs]]]] Hin. exact (c08_prereq_has_succ w v u H Hin Hext Hs).
Qed.

Lemma c08_mask_ancestors w u : WFin w -> c08_isolated w u -> forall n v, v <> u ->
  ancestors (c08_mask u w) n v = ancestors w n v /\ ~ In u (ancestors w n v).
Proof.
  intros H Hi. induction n as [|n IH]; intros v Hv; simpl; [split; [reflexivity | intros []]|].
  rewrite (c08_mask_gett u w v Hv). destruct (k_parent (gett w v)) as [p|] eqn:Hp; [|split; [reflexivity | intros []]].
  assert (Hpu : p <> u) by (intros ->; exact (c08_iso_not_parent w u v H Hi Hp)).
  destruct (IH p Hpu) as [A B]. split; [rewrite A; reflexivity|]. intros [E|E]; [congruence | exact (B E)].
Qed.

Lemma c08_flat_map_ext_in {A B} (f g : A -> list B) l : (forall a, In a l -> f a = g a) -> flat_map f l = flat_map g l.
Proof.
  induction l as [|x l IH]; intros H; [reflexivity|]. simpl. rewrite (H x (or_introl eq_refl)), IH; [reflexivity|].
  intros a Ha. apply H. right. exact Ha.
Qed.

Lemma c08_mask_prereqs w u v : WFin w -> c08_isolated w u -> v <> u -> prereqs (c08_mask u w) v = prereqs w v.
Proof.
  intros H Hi Hv. unfold prereqs. rewrite (c08_mask_gett u w v Hv), c08_mask_length.
  destruct (c08_mask_ancestors w u H Hi (length w) v Hv) as [A B]. rewrite A. f_equal.
  apply c08_flat_map_ext_in. intros a Ha. rewrite c08_mask_gett; [reflexivity|]. intros ->. exact (B Ha).
Qed.

(* ---------- the simulation relation ---------- *)
Record c08_sim (u : nat) (s s2 : sst) : Prop := {
  sim_dy : forall p, p <> u -> nth p (dy s) no_dyn = nth p (dy s2) no_dyn;
  sim_len : length (dy s) = length (dy s2);
  sim_lg : forall t, t <> u -> c08_same_own t (lg s) (lg s2);
  sim_calc : forall p, p <> u -> memb p (calc s) = memb p (calc s2);
  sim_inprog : inprog s = inprog s2;
  sim_u : ~ In u (inprog s) }.

Lemma c08_nth_set_nth_sim (l l2 : list dyn) u v x :
  length l = length l2 -> (forall p, p <> u -> nth p l no_dyn = nth p l2 no_dyn) ->
  forall p, p <> u -> nth p (set_nth l v x) no_dyn = nth p (set_nth l2 v x) no_dyn.
Proof.
  intros Hl H p Hp. destruct (Nat.eq_dec p v) as [->|Hpv].
  - destruct (Nat.lt_ge_cases v (length l)) as [L|G].
    + rewrite !nth_set_nth_same by lia. reflexivity.
    + rewrite !nth_overflow by (rewrite length_set_nth; lia). reflexivity.
  - rewrite !nth_set_nth_other by exact Hpv. apply H. exact Hp.
Qed.

(* the calculation of v depends on the WBS and on the dates table only through v and its children *)
Lemma c08_fwd_compute_ext cfg w w2 ds ds2 l v b ds' l' :
  gett w2 v = gett w v -> getdl ds2 v = getdl ds v ->
  map (getdl ds2) (k_children (gett w v)) = map (getdl ds) (k_children (gett w v)) ->
  fwd_compute cfg w ds l v b = Ok (ds', l') ->
  exists x, ds' = set_nth ds v x /\ fwd_compute cfg w2 ds2 l v b = Ok (set_nth ds2 v x, l').
Proof.
  intros Hk Hdn Hkids Hc. apply fwd_compute_inv in Hc.
  destruct Hc as [[Hm [-> ->]] | [Hm [start [en [est [spent [-> [E1 [E2 [E3 E4]]]]]]]]]].
  - exists (mkd b b 0 0). split; [reflexivity|]. unfold fwd_compute. rewrite Hk, Hm. reflexivity.
  - exists (mkd start en est spent). split; [reflexivity|]. apply c08_fwd_compute_of_parts.
    + rewrite Hk. exact Hm.
    + rewrite <- E1. unfold fwd_start_eq. rewrite Hk, Hdn, Hkids. reflexivity.
    + rewrite <- E2. unfold est_eq. rewrite Hk, Hdn, Hkids. reflexivity.
    + rewrite <- E3. unfold spent_eq. rewrite Hk, Hdn, Hkids. reflexivity.
    + rewrite <- E4. unfold fwd_end_eq. rewrite Hk, Hdn, Hkids. reflexivity.
Qed.

Notation c08_fp cfg w := (gpass w (prereqs w) (fun t => k_children (gett w t))
                                (fun ds pre => bound_max ds pre (pbound cfg)) (fwd_compute cfg w)).

Lemma c08_sim_fold u (f f2 : sst -> nat -> res sst) :
  (forall s a s' s2, a <> u -> c08_sim u s s2 -> f s a = Ok s' -> exists s2', f2 s2 a = Ok s2' /\ c08_sim u s' s2') ->
  forall l s s' s2, ~ In u l -> c08_sim u s s2 -> fold_res f l s = Ok s' ->
    exists s2', fold_res f2 l s2 = Ok s2' /\ c08_sim u s' s2'.
Proof.
  intros Hf. induction l as [|a l IH]; intros s s' s2 Hu Hs E; simpl in *.
  - inversion E; subst. exists s2. split; [reflexivity | exact Hs].
  - destruct (f s a) as [s1| |] eqn:E1; simpl in E; try discriminate.
    destruct (Hf s a s1 s2 ltac:(intros ->; apply Hu; left; reflexivity) Hs E1) as [s21 [A B]].
    rewrite A. simpl. apply (IH s1 s' s21); [intro X; apply Hu; right; exact X | exact B | exact E].
Qed.

Lemma c08_sim_gpass cfg w u : balance cfg = false -> WFin w -> c08_isolated w u ->
  forall fuel s v s' s2, v <> u -> c08_sim u s s2 -> c08_fp cfg w fuel s v = Ok s' ->
    exists s2', c08_fp cfg (c08_mask u w) fuel s2 v = Ok s2' /\ c08_sim u s' s2'.
Proof.
  intros Hb H Hi. induction fuel as [|f IH]; intros s v s' s2 Hv Hs Hg; [discriminate|].
  cbn [gpass] in Hg |- *. rewrite (c08_mask_gett u w v Hv).
  destruct (k_ext (gett w v)). { inversion Hg; subst. exists s2. split; [reflexivity | exact Hs]. }
  rewrite <- (sim_calc _ _ _ Hs v Hv).
  destruct (memb v (calc s)). { inversion Hg; subst. exists s2. split; [reflexivity | exact Hs]. }
  rewrite <- (sim_inprog _ _ _ Hs). destruct (memb v (inprog s)); [discriminate|].
  rewrite (c08_mask_prereqs w u v H Hi Hv).
  destruct (fold_res (c08_fp cfg w f) (prereqs w v) (enter s v)) as [st2| |] eqn:E2; simpl in Hg; try discriminate.
  assert (Hse : c08_sim u (enter s v) (enter s2 v)).
  { destruct Hs as [A B C D E F]. constructor; simpl; try assumption.
    - rewrite E. reflexivity.
    - intros [X|X]; [exact (Hv X) | exact (F X)]. }
  destruct (c08_sim_fold u _ _ IH (prereqs w v) _ _ _ (c08_iso_not_prereq w u v H Hi) Hse E2) as [st22 [A2 S2]].
  rewrite A2. cbn [bind].
  destruct (fold_res (c08_fp cfg w f) (k_children (gett w v)) st2) as [st3| |] eqn:E3; simpl in Hg; try discriminate.
  destruct (c08_sim_fold u _ _ IH (k_children (gett w v)) _ _ _ (c08_iso_not_child w u v H Hi) S2 E3) as [st32 [A3 S3]].
  rewrite A3. cbn [bind].
  destruct (fwd_compute cfg w (dy st3) (lg st3) v (bound_max (dy st2) (prereqs w v) (pbound cfg))) as [[ds' l']| |] eqn:Ec;
    simpl in Hg; try discriminate.
  inversion Hg; subst s'. clear Hg.
  (* the same bound *)
  assert (Hbnd : bound_max (dy st22) (prereqs w v) (pbound cfg) = bound_max (dy st2) (prereqs w v) (pbound cfg)).
  { apply bound_max_ext. intros p Hp. symmetry. apply (sim_dy _ _ _ S2). intros ->.
    exact (c08_iso_not_prereq w u v H Hi Hp). }
  rewrite Hbnd.
  (* the same calculation *)
  destruct (c08_fwd_compute_own_rows cfg w (dy st3) (lg st3) (lg st32) v _ ds' l' Hb (sim_lg _ _ _ S3 v Hv) Ec)
    as [new [El' [Hnew Ec2]]].
  destruct (c08_fwd_compute_ext cfg w (c08_mask u w) (dy st3) (dy st32) (lg st32) v
              (bound_max (dy st2) (prereqs w v) (pbound cfg)) ds' (new ++ lg st32)) as [x [Eds Ec3]].
  - apply c08_mask_gett. exact Hv.
  - unfold getdl. symmetry. apply (sim_dy _ _ _ S3). exact Hv.
  - apply map_ext_in. intros c Hc. unfold getdl. symmetry. apply (sim_dy _ _ _ S3). intros ->.
    exact (c08_iso_not_child w u v H Hi Hc).
  - exact Ec2.
  - rewrite Ec3. cbn [bind]. eexists. split; [reflexivity|].
    destruct S3 as [A B C D E F]. constructor; cbn [leave dy lg calc inprog fst snd].
    + subst ds'. apply c08_nth_set_nth_sim; assumption.
    + subst ds'. rewrite !length_set_nth. exact B.
    + intros t Ht. subst l'. apply c08_same_own_app. apply C. exact Ht.
    + intros p Hp. simpl. rewrite (D p Hp). reflexivity.
    + rewrite E. reflexivity.
    + unfold remove_nat. intro X. apply filter_In in X. destruct X as [X _]. exact (F X).
Qed.

(* the pass on the isolated task itself changes nothing the others can see *)
Lemma c08_sim_self cfg w u : balance cfg = false -> WFin w -> c08_isolated w u ->
  forall fuel s s' s2, c08_sim u s s2 -> c08_fp cfg w fuel s u = Ok s' -> c08_sim u s' s2.
Proof.
  intros Hb H Hi fuel s s' s2 Hs Hg. destruct fuel as [|f]; [discriminate|].
  pose proof Hi as [Hext [Hp [Hch [Hpr _]]]].
  cbn [gpass] in Hg. rewrite Hext in Hg.
  destruct (memb u (calc s)). { inversion Hg; subst. exact Hs. }
  destruct (memb u (inprog s)); [discriminate|].
  assert (Hpre : prereqs w u = []).
  { unfold prereqs. rewrite Hpr. destruct (length w) as [|n]; simpl; [reflexivity|]. rewrite Hp. reflexivity. }
  rewrite Hpre, Hch in Hg. cbn [fold_res bind] in Hg.
  destruct (fwd_compute cfg w (dy (enter s u)) (lg (enter s u)) u (bound_max (dy (enter s u)) [] (pbound cfg)))
    as [[ds' l']| |] eqn:Ec; simpl in Hg; try discriminate.
  inversion Hg; subst s'. clear Hg. cbn [enter dy lg] in Ec.
  destruct (c08_fwd_compute_own_rows cfg w (dy s) (lg s) (lg s) u _ ds' l' Hb (fun r d => eq_refl) Ec) as [new [El' [Hnew _]]].
  destruct Hs as [A B C D E F]. constructor; cbn [leave enter dy lg calc inprog fst snd].
  - intros p Hpu. rewrite (fwd_compute_frame _ _ _ _ _ _ _ _ Ec p Hpu). apply A. exact Hpu.
  - rewrite (c08_compute_length _ _ _ _ _ _ _ _ Ec). exact B.
  - intros t Ht r d. subst l'. rewrite c08_booked_t_app, (c08_booked_t_foreign new r d t).
    + simpl. apply C. exact Ht.
    + intros x Hx. rewrite (Hnew x Hx). intro X. apply Ht. symmetry. exact X.
  - intros p Hpu. simpl. destruct (Nat.eqb_spec p u) as [X|X]; [contradiction|]. simpl. apply D. exact Hpu.
  - rewrite remove_nat_head by exact F. exact E.
  - rewrite remove_nat_head by exact F. exact F.
Qed.

(* ---------- the roots ---------- *)
Lemma c08_mask_roots w u : k_ext (gett w u) = false ->
  roots (c08_mask u w) = filter (fun t => negb (Nat.eqb t u)) (roots w).
Proof.
  intros Hext. unfold roots, members. rewrite c08_mask_length.
  induction (seq 0 (length w)) as [|x l IH]; [reflexivity|]. cbn [filter].
  destruct (Nat.eq_dec x u) as [->|Hx].
  - assert (E : k_ext (gett (c08_mask u w) u) = true).
    { unfold gett, c08_mask. destruct (Nat.lt_ge_cases u (length w)) as [L|G].
      - rewrite nth_set_nth_same by exact L. reflexivity.
      - rewrite nth_overflow by (rewrite length_set_nth; exact G). reflexivity. }
    rewrite E, Hext. cbn [negb filter]. rewrite IH.
    destruct (k_parent (gett w u)); cbn [filter]; [reflexivity|]. rewrite Nat.eqb_refl. reflexivity.
  - rewrite (c08_mask_gett u w x Hx). destruct (negb (k_ext (gett w x))); cbn [filter]; [|exact IH].
    rewrite (c08_mask_gett u w x Hx). destruct (k_parent (gett w x)); cbn [filter]; [exact IH|].
    destruct (Nat.eqb_spec x u) as [X|X]; [contradiction|]. cbn [negb]. rewrite IH. reflexivity.
Qed.

Lemma c08_sim_roots cfg w u fuel : balance cfg = false -> WFin w -> c08_isolated w u ->
  forall l s s' s2, c08_sim u s s2 -> fold_res (c08_fp cfg w fuel) l s = Ok s' ->
    exists s2', fold_res (c08_fp cfg (c08_mask u w) fuel) (filter (fun t => negb (Nat.eqb t u)) l) s2 = Ok s2'
                /\ c08_sim u s' s2'.
Proof.
  intros Hb H Hi. induction l as [|a l IH]; intros s s' s2 Hs E; simpl in E.
  - inversion E; subst. exists s2. split; [reflexivity | exact Hs].
  - destruct (c08_fp cfg w fuel s a) as [s1| |] eqn:E1; simpl in E; try discriminate. cbn [filter].
    destruct (Nat.eqb_spec a u) as [->|Ha]; cbn [negb].
    + apply (IH s1 s' s2); [|exact E]. exact (c08_sim_self cfg w u Hb H Hi fuel s s1 s2 Hs E1).
    + destruct (c08_sim_gpass cfg w u Hb H Hi fuel s a s1 s2 Ha Hs E1) as [s21 [A B]].
      cbn [fold_res]. rewrite A. cbn [bind]. exact (IH s1 s' s21 B E).
Qed.

Lemma c08_sim_init w u : c08_sim u (init_state w) (init_state (c08_mask u w)).
Proof.
  constructor; simpl; try reflexivity.
  - intros p Hp. rewrite !c08_init_dyn_nth, (c08_mask_gett u w p Hp). reflexivity.
  - rewrite !map_length, c08_mask_length. reflexivity.
  - intros t _ r d. reflexivity.
  - intros [].
Qed.

(* ---------- (d) independence, balancing off ---------- *)
Theorem C08_indep_mask_holds cfg w u st st2 :
  balance cfg = false -> WFin w -> c08_isolated w u ->
  forward cfg w = Ok st -> forward cfg (c08_mask u w) = Ok st2 ->
  forall t, t <> u -> getd st t = getd st2 t.
Proof.
  intros Hb H Hi Hf Hf2 t Ht. unfold forward in Hf, Hf2.
  destruct (isolated_ok w); cbn [negb] in Hf; [|discriminate Hf].
  destruct (no_future_ends w (now cfg)); cbn [negb] in Hf; [|discriminate Hf].
  destruct (isolated_ok (c08_mask u w)); cbn [negb] in Hf2; [|discriminate Hf2].
  destruct (no_future_ends (c08_mask u w) (now cfg)); cbn [negb] in Hf2; [|discriminate Hf2].
  unfold fwd_pass in Hf, Hf2. rewrite c08_mask_length in Hf2.
  destruct (c08_sim_roots cfg w u _ Hb H Hi _ _ _ _ (c08_sim_init w u) Hf) as [s2' [A B]].
  rewrite <- (c08_mask_roots w u (proj1 Hi)) in A. rewrite A in Hf2. inversion Hf2; subst s2'.
  unfold getd. apply (sim_dy _ _ _ B). exact Ht.
Qed.
