(* Vocabulary for the source-text tie of the two recursive passes (gen/SrcPass.v, translated on every run from
   ForwardScheduler.__forward_pass / BackwardScheduler.__backward_pass of schedule.py) with the model's [gpass].
   The code keeps `calculated` / `in_progress` as Python lists that grow at the end and lose the first occurrence; the
   model conses and filters: the two are related as sets (the passes only ever test membership). *)
From PJ Require Import Base.Prelude Sched.Model gen.SrcPass.
Open Scope Z_scope.

Definition pstate : Type := (list dyn * ledger * list nat * list nat)%type.

Definition same_elts (a b : list nat) : Prop := forall t, In t a <-> In t b.

Definition st_rel (st : sst) (x : pstate) : Prop :=
  let '(ds, l, cl, ip) := x in
  dy st = ds /\ lg st = l /\ same_elts (calc st) cl /\ same_elts (inprog st) ip.

(* same outcome class; on success related states and the caller's in_progress list given back as it was *)
Definition pass_rel (ip : list nat) (m : res sst) (c : res (pstate * unit)) : Prop :=
  match m, c with
  | Ok st', Ok (x', _) => st_rel st' x' /\ snd x' = ip
  | Err, Err => True
  | Crash a, Crash b => a = b
  | _, _ => False
  end.

(* calc: one call of the pass per root (in the order given), each with a fresh, empty in_progress list *)
Definition src_roots_fold (pass : nat -> config -> list itask -> list dyn -> ledger -> list nat -> list nat -> nat -> res (pstate * unit))
           (cfg : config) (w : list itask) (rts : list nat) : res (list dyn * ledger * list nat) :=
  fold_res (fun st t => let '(ds, l, cl) := st in
                        do '((ds2, l2, cl2, _), _) <- pass (S (S (length w))) cfg w ds l cl [] t; Ok (ds2, l2, cl2))
           rts (map init_dyn w, [], []).

Definition calc_rel (m : res sst) (c : res (list dyn * ledger * list nat)) : Prop :=
  match m, c with
  | Ok st, Ok (ds, l, cl) => dy st = ds /\ lg st = l /\ same_elts (calc st) cl
  | Err, Err => True
  | Crash a, Crash b => a = b
  | _, _ => False
  end.
