(* Lemmas about the usage ledger and the three day-stepping loops (first_open, next_free, fill). *)
From PJ Require Import Base.Prelude Sched.Model.

(* ---------- sums ---------- *)
Lemma sum_units_app a b : sum_units (a ++ b) = sum_units a + sum_units b.
Proof. induction a as [|x a IH]; simpl; [reflexivity|]. unfold sum_units in *. simpl. lia. Qed.

Definition hits (balance : bool) (r : nat) (d : Z) (t : nat) (x : row) : bool :=
  row_on r d x && (balance || Nat.eqb (r_task x) t).

Lemma used_cons balance x l r d t :
  used balance (x :: l) r d t = (if hits balance r d t x then r_units x else 0) + used balance l r d t.
Proof.
  unfold used, hits, booked, booked_t. destruct balance; simpl.
  - rewrite andb_true_r. destruct (row_on r d x); simpl; unfold sum_units; simpl; lia.
  - destruct (row_on r d x && Nat.eqb (r_task x) t); simpl; unfold sum_units; simpl; lia.
Qed.

Lemma used_nil balance r d t : used balance [] r d t = 0.
Proof. unfold used, booked, booked_t. destruct balance; reflexivity. Qed.

Lemma used_app balance a l r d t :
  used balance (a ++ l) r d t = used balance a r d t + used balance l r d t.
Proof.
  induction a as [|x a IH]; simpl.
  - rewrite used_nil. lia.
  - rewrite !used_cons, IH. lia.
Qed.

(* ---------- ledger invariant: positive amounts, never above the calendar capacity ---------- *)
Definition ledger_ok (cp : nat -> Z -> Z) (balance : bool) (l : ledger) : Prop :=
  (forall x, In x l -> 0 < r_units x) /\ (forall r d t, used balance l r d t <= cp r d).

Lemma used_nonneg balance l r d t : (forall x, In x l -> 0 < r_units x) -> 0 <= used balance l r d t.
Proof.
  induction l as [|x l IH]; intros H.
  - rewrite used_nil. lia.
  - rewrite used_cons. specialize (IH (fun y Hy => H y (or_intror Hy))).
    specialize (H x (or_introl eq_refl)). destruct (hits balance r d t x); lia.
Qed.

Lemma ledger_ok_nil cp balance : (forall r d, 0 <= cp r d) -> ledger_ok cp balance [].
Proof. intros H. split; [intros x []|]. intros r d t. rewrite used_nil. apply H. Qed.

(* ---------- searches ---------- *)
Lemma first_open_spec cp dir n d d' :
  first_open cp dir n d = Some d' ->
  exists k, (k < n)%nat /\ d' = d + dir * Z.of_nat k /\ 0 < cp d'
            /\ forall j, (j < k)%nat -> cp (d + dir * Z.of_nat j) <= 0.
Proof.
  revert d; induction n as [|n IH]; intros d; simpl; [discriminate|].
  destruct (Z.ltb_spec 0 (cp d)) as [Hp|Hp].
  - intros H; inversion H; subst d'. exists 0%nat.
    split; [lia|]. split; [lia|]. split; [exact Hp|]. intros j Hj; lia.
  - intros H. destruct (IH _ H) as [k [Hk [Hd [Hc Hm]]]]. exists (S k).
    split; [lia|]. split; [lia|]. split; [exact Hc|].
    intros j Hj. destruct j as [|j].
    + replace (d + dir * Z.of_nat 0) with d by lia. exact Hp.
    + specialize (Hm j ltac:(lia)).
      replace (d + dir * Z.of_nat (S j)) with (d + dir + dir * Z.of_nat j) by lia. exact Hm.
Qed.

Lemma next_free_spec cp us dir n d d' :
  next_free cp us dir n d = Some d' ->
  exists k, (k < n)%nat /\ d' = d + dir * Z.of_nat k /\ 0 < cp d' - us d'
            /\ forall j, (j < k)%nat -> cp (d + dir * Z.of_nat j) - us (d + dir * Z.of_nat j) <= 0.
Proof.
  revert d; induction n as [|n IH]; intros d; simpl; [discriminate|].
  destruct (Z.ltb_spec 0 (cp d - us d)) as [Hp|Hp].
  - intros H; inversion H; subst d'. exists 0%nat.
    split; [lia|]. split; [lia|]. split; [exact Hp|]. intros j Hj; lia.
  - intros H. destruct (IH _ H) as [k [Hk [Hd [Hc Hm]]]]. exists (S k).
    split; [lia|]. split; [lia|]. split; [exact Hc|].
    intros j Hj. destruct j as [|j].
    + replace (d + dir * Z.of_nat 0) with d by lia. exact Hp.
    + specialize (Hm j ltac:(lia)).
      replace (d + dir * Z.of_nat (S j)) with (d + dir + dir * Z.of_nat j) by lia. exact Hm.
Qed.

(* ---------- the greedy fill ---------- *)
(* what one run of [fill] adds on top of ledger l, starting after day d with [left] to place *)
Record fill_result (cp : Z -> Z) (balance : bool) (r t : nat) (dir : Z)
       (l : ledger) (d left : Z) (l' : ledger) (dl : Z) (new : list row) : Prop := {
  fr_app : l' = new ++ l;
  fr_rows : forall x, In x new -> r_res x = r /\ r_task x = t /\ 0 < r_units x
                                  /\ exists k, (0 < k)%nat /\ r_day x = d + dir * Z.of_nat k
                                               /\ exists kl, (k <= kl)%nat /\ dl = d + dir * Z.of_nat kl;
  fr_sum : sum_units new = left;
  fr_last : exists x rest, new = x :: rest /\ r_day x = dl;
  fr_nodup : NoDup (map r_day new);
  fr_cap : forall x, In x new -> used balance l' r (r_day x) t <= cp (r_day x);
  (* if the first day looked at has free capacity, it gets a reservation *)
  fr_first : 0 < cp (d + dir) - used balance l r (d + dir) t -> exists x, In x new /\ r_day x = d + dir;
  (* every day strictly between the start and the last day is full afterwards *)
  fr_tight : forall k kl, dl = d + dir * Z.of_nat kl -> (0 < k < kl)%nat ->
                          cp (d + dir * Z.of_nat k) - used balance l' r (d + dir * Z.of_nat k) t <= 0 }.

Lemma hits_row balance r t d' u d :
  hits balance r d t {| r_res := r; r_day := d'; r_task := t; r_units := u |} = (d' =? d).
Proof.
  unfold hits, row_on. simpl. rewrite !Nat.eqb_refl. simpl. rewrite orb_true_r, andb_true_r. reflexivity.
Qed.

Lemma used_new_other balance (new : list row) r t d :
  (forall x, In x new -> r_res x = r /\ r_task x = t /\ r_day x <> d) ->
  used balance new r d t = 0.
Proof.
  induction new as [|x new IH]; intros H.
  - apply used_nil.
  - rewrite used_cons. rewrite IH by (intros y Hy; apply H; right; exact Hy).
    destruct (H x (or_introl eq_refl)) as [Hr [Ht Hd]].
    unfold hits, row_on. destruct (Z.eqb_spec (r_day x) d) as [E|E]; [contradiction|].
    rewrite andb_false_r. reflexivity.
Qed.

Lemma NoDup_snoc {A} (l : list A) a : NoDup l -> ~ In a l -> NoDup (l ++ [a]).
Proof.
  induction l as [|b l IH]; simpl; intros Hn Hi.
  - constructor; [intros [] | constructor].
  - inversion Hn as [|? ? Hb Hl]; subst. constructor.
    + intro H. apply in_app_or in H. destruct H as [H|[H|[]]]; [contradiction|]. subst. apply Hi. left. reflexivity.
    + apply IH; [assumption|]. intro H. apply Hi. right. exact H.
Qed.

Lemma fill_spec cp balance r t dir :
  dir <> 0 ->
  forall n l d left l' dl,
    fill cp balance r t dir n l d left = Ok (l', dl) -> 0 < left ->
    exists new, fill_result cp balance r t dir l d left l' dl new.
Proof.
  intros Hdir. induction n as [|n IH]; intros l d left l' dl; simpl; [discriminate|].
  set (d' := d + dir). set (avail := cp d' - used balance l r d' t).
  intros H Hleft.
  destruct (Z.ltb_spec 0 avail) as [Hav|Hav].
  - (* something is reserved on d' *)
    set (amount := Z.min left avail) in *.
    set (x := {| r_res := r; r_day := d'; r_task := t; r_units := amount |}) in *.
    assert (Hamt : 0 < amount) by (unfold amount; lia).
    destruct (Z.ltb_spec 0 (left - amount)) as [Hmore|Hdone].
    + (* more to place: the day is now full *)
      assert (Hfull : amount = avail) by (unfold amount in *; lia).
      destruct (IH _ _ _ _ _ H Hmore) as [new1 R]. destruct R as [Ra Rr Rs Rl Rn Rc Rf Rt].
      exists (new1 ++ [x]).
      assert (Hdays : forall y, In y new1 -> r_res y = r /\ r_task y = t /\ r_day y <> d').
      { intros y Hy. destruct (Rr y Hy) as [A [B [_ [k [Hk [Hd _]]]]]]. repeat split; try assumption.
        rewrite Hd. intro E. assert (dir * Z.of_nat k = 0) by lia.
        apply Z.mul_eq_0 in H0. destruct H0; [contradiction | lia]. }
      constructor.
      * rewrite Ra. rewrite <- app_assoc. reflexivity.
      * intros y Hy. apply in_app_or in Hy. destruct Hy as [Hy|[<-|[]]].
        -- destruct (Rr y Hy) as [A [B [C [k [Hk [Hd [kl [Hkl Hdl]]]]]]]]. repeat split; try assumption.
           exists (S k). split; [lia|]. split; [unfold d' in Hd; lia|].
           exists (S kl). split; [lia | unfold d' in Hdl; lia].
        -- simpl. repeat split; try assumption. exists 1%nat. split; [lia|]. split; [unfold d'; lia|].
           destruct Rl as [y [rest [Hn Hy]]].
           destruct (Rr y) as [_ [_ [_ [k [Hk [Hd [kl [Hkl Hdl]]]]]]]]; [rewrite Hn; left; reflexivity|].
           exists (S kl). split; [lia | unfold d' in Hdl; lia].
      * rewrite sum_units_app, Rs. unfold sum_units. simpl. lia.
      * destruct Rl as [y [rest [Hn Hy]]]. exists y, (rest ++ [x]). rewrite Hn. split; [reflexivity | exact Hy].
      * rewrite map_app. simpl. apply NoDup_snoc; [exact Rn|].
        intro Hin. apply in_map_iff in Hin. destruct Hin as [y [Hy1 Hy2]].
        destruct (Hdays y Hy2) as [_ [_ Hne]]. apply Hne. exact Hy1.
      * intros y Hy. apply in_app_or in Hy. destruct Hy as [Hy|[<-|[]]].
        -- apply Rc. exact Hy.
        -- simpl. rewrite Ra, used_app, used_cons; unfold x; rewrite hits_row, Z.eqb_refl.
           rewrite (used_new_other balance new1 r t d' Hdays). simpl. unfold avail in Hfull. lia.
      * intros _. exists x. split; [apply in_or_app; right; left; reflexivity | reflexivity].
      * intros k kl Hdl Hk. destruct (Nat.eq_dec k 1) as [->|Hk1].
        -- replace (d + dir * Z.of_nat 1) with d' by (unfold d'; lia).
           rewrite Ra, used_app, used_cons; unfold x; rewrite hits_row, Z.eqb_refl.
           rewrite (used_new_other balance new1 r t d' Hdays). simpl. unfold avail in Hfull. lia.
        -- destruct kl as [|kl]; [lia|]. destruct k as [|k]; [lia|].
           specialize (Rt k kl). replace (d' + dir * Z.of_nat k) with (d + dir * Z.of_nat (S k)) in Rt by (unfold d'; lia).
           apply Rt; [unfold d'; lia | lia].
    + (* done on this day *)
      inversion H; subst l' dl. exists [x]. constructor.
      * reflexivity.
      * intros y [<-|[]]. simpl. repeat split; try assumption. exists 1%nat. split; [lia|]. split; [unfold d'; lia|].
        exists 1%nat. split; [lia | unfold d'; lia].
      * unfold sum_units. simpl. unfold amount in *. lia.
      * exists x, []. split; reflexivity.
      * simpl. constructor; [intros [] | constructor].
      * intros y [<-|[]]. simpl. rewrite used_cons; unfold x; rewrite hits_row, Z.eqb_refl. simpl. unfold amount, avail in *. lia.
      * intros _. exists x. split; [left; reflexivity | reflexivity].
      * intros k kl Hdl Hk. exfalso. assert (dir * Z.of_nat kl = dir * 1) by (unfold d' in Hdl; lia).
        apply Z.mul_reg_l in H0; [lia | exact Hdir].
  - (* nothing free on d' *)
    destruct (Z.ltb_spec 0 left) as [_|Hc]; [|lia].
    destruct (IH _ _ _ _ _ H Hleft) as [new1 R]. destruct R as [Ra Rr Rs Rl Rn Rc Rf Rt].
    exists new1. constructor; try assumption.
    + intros y Hy. destruct (Rr y Hy) as [A [B [C [k [Hk [Hd [kl [Hkl Hdl]]]]]]]]. repeat split; try assumption.
      exists (S k). split; [lia|]. split; [unfold d' in Hd; lia|].
      exists (S kl). split; [lia | unfold d' in Hdl; lia].
    + intros Hfree. exfalso. fold d' in Hfree. fold avail in Hfree. lia.
    + intros k kl Hdl Hk. destruct (Nat.eq_dec k 1) as [->|Hk1].
      * replace (d + dir * Z.of_nat 1) with d' by (unfold d'; lia).
        assert (Hdays : forall y, In y new1 -> r_res y = r /\ r_task y = t /\ r_day y <> d').
        { intros y Hy. destruct (Rr y Hy) as [A [B [_ [k [Hk' [Hd _]]]]]]. repeat split; try assumption.
          rewrite Hd. intro E. assert (dir * Z.of_nat k = 0) by lia.
          apply Z.mul_eq_0 in H0. destruct H0; [contradiction | lia]. }
        rewrite Ra, used_app, (used_new_other balance new1 r t d' Hdays). unfold avail in Hav. lia.
      * destruct kl as [|kl]; [lia|]. destruct k as [|k]; [lia|].
        specialize (Rt k kl). replace (d' + dir * Z.of_nat k) with (d + dir * Z.of_nat (S k)) in Rt by (unfold d'; lia).
        apply Rt; [unfold d'; lia | lia].
Qed.
