(* C09: the four statements about the model's backward schedule, read off the invariant inv09. *)
From PJ Require Import Base.Prelude Sched.Model Sched.LedgerProofs Sched.Primitives Sched.Machine Sched.Instances
     Sched.C03Proofs Sched.WfIn Sched.Check Sched.Oracles Sched.C09Base Sched.C09Proofs.

(* the domain predicate evaluated by the oracle means: no member has a user-fixed date *)
Lemma c09_no_user_dates_b w : no_user_dates w = true -> c09_no_user_dates w.
Proof.
  unfold no_user_dates. rewrite forallb_forall. intros H t Ht.
  specialize (H t (proj2 (c09_members_in w t) Ht)).
  destruct (k_start (gett w t)), (k_end (gett w t)); try discriminate. auto.
Qed.

Lemma c09_member_facts cfg w c t e :
  c09_no_user_dates w -> inv09 cfg w c -> k_ext (gett w t) = false -> d_end (getdl (c_dy c) t) = Some e ->
  (forall q, In q (dependants w t) -> ready w c q)
  /\ exists s, d_start (getdl (c_dy c) t) = Some s /\ e <= c09_due cfg w (c_dy c) t
       /\ (is_leaf (gett w t) = true -> k_milestone (gett w t) = false -> c09_leaf_facts cfg w (c_dy c) (c_lg c) t s e).
Proof.
  intros Hn Hi Hext He.
  assert (Hin : In t (c_calc c)).
  { eapply c09_dated_calc; eauto. right. congruence. }
  destruct Hi as [_ [_ [_ Hok]]]. destruct (Hok t Hin) as [_ [B [s [e' [Cs [Ce [Cd Cl]]]]]]].
  rewrite Ce in He. inversion He; subst e'. split; [exact B|]. exists s. auto.
Qed.

(* ---------- (a) nothing ends after the requested project end ---------- *)
Definition C09_deadline_statement (cfg : config) (w : list itask) (st : sst) : Prop :=
  forall t e, In t (members w) -> d_end (getd st t) = Some e -> e <= pbound cfg.

Theorem C09_deadline_holds cfg w st :
  WFin w -> cap_nonneg cfg -> no_user_dates w = true -> backward cfg w = Ok st -> C09_deadline_statement cfg w st.
Proof.
  intros Hw Hc Hn H t e Ht He. apply c09_no_user_dates_b in Hn.
  pose proof (backward_inv09 cfg w st Hw Hc Hn H) as Hi. apply c09_members_in in Ht.
  destruct (c09_member_facts cfg w (core_of st) t e Hn Hi Ht He) as [_ [s [_ [Hd _]]]].
  pose proof (c09_bound_min_le_b (c_dy (core_of st)) (dependants w t) (pbound cfg)). unfold c09_due in Hd. lia.
Qed.

(* ---------- (b) every declared or inherited dependency is respected ---------- *)
(* [dependants w t] = the successors of t and of every ancestor summary of t; a dependant that is
   outside the WBS keeps its own start (C09_outside_dates_hold) *)
Definition C09_deps_statement (cfg : config) (w : list itask) (st : sst) : Prop :=
  forall t q e s2, In t (members w) -> In q (dependants w t) ->
                   d_end (getd st t) = Some e -> d_start (getd st q) = Some s2 -> e <= s2.

Theorem C09_deps_holds cfg w st :
  WFin w -> cap_nonneg cfg -> no_user_dates w = true -> backward cfg w = Ok st -> C09_deps_statement cfg w st.
Proof.
  intros Hw Hc Hn H t q e s2 Ht Hq He Hs. apply c09_no_user_dates_b in Hn.
  pose proof (backward_inv09 cfg w st Hw Hc Hn H) as Hi. apply c09_members_in in Ht.
  destruct (c09_member_facts cfg w (core_of st) t e Hn Hi Ht He) as [_ [s [_ [Hd _]]]].
  pose proof (c09_bound_min_le_start (c_dy (core_of st)) (dependants w t) (pbound cfg) q s2 Hq Hs).
  unfold c09_due in Hd. lia.
Qed.

Definition C09_outside_dates_statement (w : list itask) (st : sst) : Prop :=
  forall q, k_ext (gett w q) = true ->
            d_start (getd st q) = k_start (gett w q) /\ d_end (getd st q) = k_end (gett w q).

Theorem C09_outside_dates_hold cfg w st :
  WFin w -> cap_nonneg cfg -> no_user_dates w = true -> backward cfg w = Ok st -> C09_outside_dates_statement w st.
Proof.
  intros Hw Hc Hn H q Hq. apply c09_no_user_dates_b in Hn.
  pose proof (backward_inv09 cfg w st Hw Hc Hn H) as Hi.
  pose proof (c09_outside_kept cfg w (core_of st) q Hi Hq) as E. unfold getd. unfold getdl in E. simpl in E.
  rewrite E. unfold init_dyn. rewrite Hq. simpl. auto.
Qed.

(* ---------- (c) the dates encode used capacity, counted from the end of the day ---------- *)
(* before / new / after: the ledger (newest row first) before the task was placed, the task's own
   rows, the rows placed later.  [used] is everybody's bookings when balancing, the task's own
   otherwise. *)
Definition C09_encode_statement (cfg : config) (w : list itask) (st : sst) : Prop :=
  forall t s e, In t (members w) -> is_leaf (gett w t) = true -> k_milestone (gett w t) = false ->
    d_start (getd st t) = Some s -> d_end (getd st t) = Some e ->
    let r := k_res (gett w t) in
    let eday := day_of (e - 1) in
    exists before new after,
      c09_placed (lg st) t before new after
      /\ e = DAY * (eday + 1) - frac (used (balance cfg) before r eday t) (cap cfg r eday)
      (* the day of the end had free capacity when the task was placed: the share is below 1 *)
      /\ 0 <= used (balance cfg) before r eday t < cap cfg r eday
      /\ (balance cfg = false -> e = DAY * (eday + 1))
      /\ (new = [] -> s = e)
      /\ forall x rest, new = x :: rest ->
           (forall y, In y new -> r_day x <= r_day y)
           /\ s = DAY * (r_day x + 1) - frac (used (balance cfg) (new ++ before) r (r_day x) t) (cap cfg r (r_day x))
           /\ (balance cfg = false ->
               used (balance cfg) (new ++ before) r (r_day x) t = booked_t (lg st) r (r_day x) t)
           (* the task books a day at most once *)
           /\ NoDup (map r_day new).

Lemma c09_eday e eday u c :
  0 <= u < c -> e = DAY * (eday + 1) - frac u c -> day_of (e - 1) = eday /\ eday <= day_of e.
Proof.
  intros Hu ->. pose proof (frac_nonneg u c ltac:(lia) ltac:(lia)) as H0. pose proof (frac_lt u c ltac:(lia) ltac:(lia)) as H1.
  split.
  - replace (DAY * (eday + 1) - frac u c - 1) with (DAY * eday + (DAY - frac u c - 1)) by lia.
    apply day_of_within; lia.
  - apply day_of_le_iff. lia.
Qed.

Theorem C09_encode_holds cfg w st :
  WFin w -> cap_nonneg cfg -> no_user_dates w = true -> backward cfg w = Ok st -> C09_encode_statement cfg w st.
Proof.
  intros Hw Hc Hn H t s e Ht Hleaf Hm Hs He r eday. apply c09_no_user_dates_b in Hn.
  pose proof (backward_inv09 cfg w st Hw Hc Hn H) as Hi. apply c09_members_in in Ht.
  destruct (c09_member_facts cfg w (core_of st) t e Hn Hi Ht He) as [_ [s' [Hs' [_ Hf]]]].
  unfold getd in Hs. unfold getdl in Hs'. simpl in Hs'. rewrite Hs in Hs'. inversion Hs'; subst s'. clear Hs'.
  destruct (Hf Hleaf Hm) as [before [new [after [ed [Hp [Hd [Hu [Ee [Hskip Hst]]]]]]]]].
  fold r in Hu, Ee, Hskip, Hst.
  destruct (c09_eday e ed _ _ Hu Ee) as [Ed _]. fold eday in Ed. subst ed.
  exists before, new, after. split; [exact Hp|]. split; [exact Ee|]. split; [exact Hu|].
  destruct Hp as [Hl [Hb [Ha Hnw]]]. simpl in Hl.
  split.
  { intros Hb0. rewrite Ee. rewrite Hb0. rewrite (c09_used_other before r eday t Hb), frac_zero. lia. }
  split.
  { intros En. destruct Hst as [[_ E]|[left [first [_ [R _]]]]]; [exact E|].
    destruct (fr_last _ _ _ _ _ _ _ _ _ _ _ R) as [x [rest [Hx _]]]. congruence. }
  intros x rest En. destruct Hst as [[E _]|[left [first [Hleft [R Es]]]]]; [congruence|].
  destruct (fr_last _ _ _ _ _ _ _ _ _ _ _ R) as [x0 [rest0 [Hx0 Hd0]]].
  assert (x0 = x) by congruence. subst x0. rewrite Hd0.
  split.
  { intros y Hy. destruct (fr_rows _ _ _ _ _ _ _ _ _ _ _ R y Hy) as [_ [_ [_ [k [_ [Hk [kl [Hkl Hfl]]]]]]]]. lia. }
  split; [exact Es|].
  split; [|exact (fr_nodup _ _ _ _ _ _ _ _ _ _ _ R)].
  intros Hb0. rewrite Hb0. rewrite Hl. rewrite (used_app false after (new ++ before)).
  rewrite (c09_used_other after r first t Ha). reflexivity.
Qed.

(* reservations are positive, so what is booked on a day only grows while later tasks are placed *)
Lemma c09_booked_grows cfg w st :
  WFin w -> cap_nonneg cfg -> no_user_dates w = true -> backward cfg w = Ok st ->
  forall later before r d, lg st = later ++ before -> booked before r d <= booked (lg st) r d.
Proof.
  intros Hw Hc Hn H later before r d Hl. apply c09_no_user_dates_b in Hn.
  pose proof (backward_inv09 cfg w st Hw Hc Hn H) as [[[Hpos _] _] _]. simpl in Hpos.
  pose proof (used_app true later before r d 0%nat) as Ha.
  pose proof (used_nonneg true later r d 0%nat (fun x Hx => Hpos x ltac:(rewrite Hl; apply in_or_app; left; exact Hx))) as Hn0.
  rewrite Hl. unfold used in *. lia.
Qed.

(* ---------- (d) late packing (balancing on) ---------- *)
Definition C09_late_statement (cfg : config) (w : list itask) (st : sst) : Prop :=
  balance cfg = true ->
  forall t e, In t (members w) -> is_leaf (gett w t) = true -> k_milestone (gett w t) = false ->
    d_end (getd st t) = Some e ->
    let r := k_res (gett w t) in
    (* every day after the day of the end and wholly before the due date is full *)
    (forall d, day_of e < d < day_of (c09_due cfg w (dy st) t) -> booked (lg st) r d = cap cfg r d)
    (* and so is every day strictly between two work days of the task *)
    /\ (forall x y d, In x (lg st) -> In y (lg st) -> r_task x = t -> r_task y = t ->
                      r_day x < d < r_day y -> booked (lg st) r d = cap cfg r d).

Lemma c09_placed_in l t before new after x :
  c09_placed l t before new after -> In x l -> r_task x = t -> In x new.
Proof.
  intros [-> [Hb [Ha _]]] Hx Ht. apply in_app_or in Hx. destruct Hx as [Hx|Hx]; [exfalso; apply (Ha x Hx Ht)|].
  apply in_app_or in Hx. destruct Hx as [Hx|Hx]; [exact Hx | exfalso; apply (Hb x Hx Ht)].
Qed.

Theorem C09_late_holds cfg w st :
  WFin w -> cap_nonneg cfg -> no_user_dates w = true -> backward cfg w = Ok st -> C09_late_statement cfg w st.
Proof.
  intros Hw Hc Hn H Hbal t e Ht Hleaf Hm He r. apply c09_no_user_dates_b in Hn.
  pose proof (backward_inv09 cfg w st Hw Hc Hn H) as Hi. apply c09_members_in in Ht.
  destruct (c09_member_facts cfg w (core_of st) t e Hn Hi Ht He) as [_ [s [_ [_ Hf]]]].
  destruct (Hf Hleaf Hm) as [before [new [after [ed [Hp [Hd [Hu [Ee [Hskip Hst]]]]]]]]].
  fold r in Hu, Ee, Hskip, Hst. simpl in Hd, Hskip.
  destruct Hi as [[Hok _] _]. simpl in Hok. rewrite Hbal in *.
  destruct (c09_eday e ed _ _ Hu Ee) as [_ Hed].
  pose proof Hp as [Hl [Hb [Ha Hnw]]]. simpl in Hl.
  split.
  - intros d Hdd. apply (c09_full_persist (cap cfg) (lg st) (after ++ new) before r d t Hok).
    + rewrite Hl, app_assoc. reflexivity.
    + apply Hskip. lia.
  - intros x y d Hx Hy Htx Hty Hdd.
    pose proof (c09_placed_in _ _ _ _ _ x Hp Hx Htx) as Hxn.
    pose proof (c09_placed_in _ _ _ _ _ y Hp Hy Hty) as Hyn.
    destruct Hst as [[E _]|[left [first [Hleft [R Es]]]]]; [rewrite E in Hxn; destruct Hxn|].
    destruct (fr_rows _ _ _ _ _ _ _ _ _ _ _ R x Hxn) as [_ [_ [_ [kx [_ [Hkx [klx [Hklx Hfx]]]]]]]].
    destruct (fr_rows _ _ _ _ _ _ _ _ _ _ _ R y Hyn) as [_ [_ [_ [ky [Hky0 [Hky _]]]]]].
    pose proof (fr_tight _ _ _ _ _ _ _ _ _ _ _ R (Z.to_nat (day_of e - d)) klx Hfx ltac:(lia)) as Ht'.
    replace (day_of e + -1 * Z.of_nat (Z.to_nat (day_of e - d))) with d in Ht' by lia.
    apply (c09_full_persist (cap cfg) (lg st) after (new ++ before) r d t Hok Hl Ht').
Qed.
