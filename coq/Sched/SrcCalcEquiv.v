(* The source-text tie for the helper functions of calc (gen/SrcPass.v, generated from src/pjplan/schedule.py):
   _validate_graph_isolation, ForwardScheduler.__check_no_end_dates_in_future and the two __prepare_tasks are the
   model's [isolated_ok], [no_future_ends] and [init_dyn] / [init_state] (Sched/Model.v). *)
From Coq Require Import Lia.
From PJ Require Import Base.Prelude Sched.Model gen.SrcPass.
Open Scope Z_scope.

(* the dates and amounts of the clone before __prepare_tasks: the user's values *)
Definition raw_dyn (k : itask) : dyn :=
  {| d_start := k_start k; d_end := k_end k; d_est := k_est k; d_spent := k_spent k |}.

(* ---------- a loop that only checks ---------- *)
Lemma fold_res_check {A} (f : unit -> A -> res unit) (p : A -> bool) :
  (forall u x, f u x = if p x then Ok tt else Err) ->
  forall l s, fold_res f l s = if forallb p l then Ok tt else Err.
Proof.
  intros Hf l. induction l as [|a r IH]; intros s.
  - destruct s. reflexivity.
  - cbn [fold_res forallb]. rewrite Hf. destruct (p a); cbn [bind andb].
    + apply IH.
    + reflexivity.
Qed.

Lemma bind_check_tt (b : bool) :
  (do _ <- (if b then Ok tt else @Err unit); Ok tt) = if b then Ok tt else Err.
Proof. destruct b; reflexivity. Qed.

Theorem src_validate_graph_isolation_eq : forall w,
  src_validate_graph_isolation w = if isolated_ok w then Ok tt else Err.
Proof.
  intros w. unfold src_validate_graph_isolation, isolated_ok.
  rewrite (fold_res_check _
            (fun t => forallb (fun p => let kp := gett w p in
                                        negb (k_ext kp) || (match k_start kp, k_end kp with
                                                            | Some _, Some _ => true | _, _ => false end))
                              (k_preds (gett w t)))).
  - apply bind_check_tt.
  - intros u t.
    rewrite (fold_res_check _
              (fun p => let kp := gett w p in
                        negb (k_ext kp) || (match k_start kp, k_end kp with
                                            | Some _, Some _ => true | _, _ => false end))).
    + apply bind_check_tt.
    + intros u' p. cbv zeta.
      destruct (k_ext (gett w p)); cbn [negb orb]; [|reflexivity].
      destruct (k_start (gett w p)); [|reflexivity].
      destruct (k_end (gett w p)); reflexivity.
Qed.

Theorem src_check_no_end_dates_in_future_eq : forall cfg w,
  src_check_no_end_dates_in_future cfg w = if no_future_ends w (now cfg) then Ok tt else Err.
Proof.
  intros cfg w. unfold src_check_no_end_dates_in_future, no_future_ends. cbv zeta.
  rewrite (fold_res_check _
            (fun t => match k_end (gett w t) with Some e => e <=? now cfg | None => true end)).
  - apply bind_check_tt.
  - intros u t. destruct (k_end (gett w t)) as [e|]; [|reflexivity].
    rewrite Z.gtb_ltb, Z.leb_antisym. destruct (now cfg <? e); reflexivity.
Qed.

(* ---------- __prepare_tasks ---------- *)
Lemma dupd_nil t f : dupd [] t f = [].
Proof. reflexivity. Qed.
Lemma dupd_cons_0 a r f : dupd (a :: r) 0 f = f a :: r.
Proof. reflexivity. Qed.
Lemma dupd_cons_S a r t f : dupd (a :: r) (S t) f = a :: dupd r t f.
Proof. reflexivity. Qed.

(* the four assignments of None, one after the other, leave the empty record *)
Lemma clear4 ds t :
  dupd (dupd (dupd (dupd ds t (with_start None)) t (with_end None)) t (with_est None)) t (with_spent None)
  = set_nth ds t no_dyn.
Proof.
  revert t. induction ds as [|a r IH]; intros t.
  - rewrite !dupd_nil. reflexivity.
  - destruct t as [|t].
    + rewrite !dupd_cons_0. reflexivity.
    + rewrite !dupd_cons_S. cbn [set_nth]. rewrite IH. reflexivity.
Qed.

Definition has_kids (w : list itask) (t : nat) : bool := negb (is_leaf (gett w t)).

Lemma has_kids_gtb w t : (Z.of_nat (length (k_children (gett w t))) >? 0) = has_kids w t.
Proof.
  unfold has_kids, is_leaf. destruct (k_children (gett w t)) as [|c cs]; [reflexivity|].
  cbn [negb]. rewrite Z.gtb_ltb. apply Z.ltb_lt. cbn [length]. lia.
Qed.

Definition clear_step (w : list itask) (ds : list dyn) (t : nat) : list dyn :=
  if has_kids w t then set_nth ds t no_dyn else ds.

Lemma prepare_fold w l : forall ds,
  fold_res (fun st_2 t_3 => let 'ds_1 := st_2 in
              (if ((Z.of_nat (length (k_children (gett w t_3)))) >? 0)
               then (let ds_4 := dupd ds_1 t_3 (with_start None) in
                     (let ds_5 := dupd ds_4 t_3 (with_end None) in
                      (let ds_6 := dupd ds_5 t_3 (with_est None) in
                       (let ds_7 := dupd ds_6 t_3 (with_spent None) in Ok ds_7))))
               else Ok ds_1)) l ds
  = Ok (fold_left (clear_step w) l ds).
Proof.
  induction l as [|a r IH]; intros ds.
  - reflexivity.
  - cbn [fold_res fold_left]. cbv zeta. rewrite has_kids_gtb, clear4. unfold clear_step at 2.
    destruct (has_kids w a); cbn [bind]; apply IH.
Qed.

Lemma set_nth_length {A} (l : list A) n x : length (set_nth l n x) = length l.
Proof.
  revert n. induction l as [|a r IH]; intros n; [reflexivity|].
  destruct n; cbn [set_nth length]; [reflexivity|]. rewrite IH. reflexivity.
Qed.

Lemma nth_set_nth_no_dyn (ds : list dyn) t i :
  nth i (set_nth ds t no_dyn) no_dyn = if Nat.eqb i t then no_dyn else nth i ds no_dyn.
Proof.
  revert t i. induction ds as [|a r IH]; intros t i.
  - cbn [set_nth]. destruct (Nat.eqb i t); destruct i; reflexivity.
  - destruct t as [|t]; destruct i as [|i]; cbn [set_nth nth Nat.eqb]; try reflexivity.
    apply IH.
Qed.

Lemma clear_fold_length w l : forall ds, length (fold_left (clear_step w) l ds) = length ds.
Proof.
  induction l as [|a r IH]; intros ds; [reflexivity|].
  cbn [fold_left]. rewrite IH. unfold clear_step. destruct (has_kids w a); [apply set_nth_length|reflexivity].
Qed.

Lemma clear_fold_nth w l i : forall ds,
  nth i (fold_left (clear_step w) l ds) no_dyn
  = if existsb (Nat.eqb i) l && has_kids w i then no_dyn else nth i ds no_dyn.
Proof.
  induction l as [|a r IH]; intros ds.
  - reflexivity.
  - cbn [fold_left existsb]. rewrite IH. unfold clear_step.
    destruct (Nat.eqb i a) eqn:Eia.
    + apply Nat.eqb_eq in Eia. subst a. cbn [orb].
      destruct (has_kids w i) eqn:Hk.
      * rewrite Bool.andb_true_r. rewrite nth_set_nth_no_dyn, Nat.eqb_refl.
        destruct (existsb (Nat.eqb i) r); reflexivity.
      * rewrite !Bool.andb_false_r. reflexivity.
    + cbn [orb]. destruct (existsb (Nat.eqb i) r && has_kids w i); [reflexivity|].
      destruct (has_kids w a); [|reflexivity].
      rewrite nth_set_nth_no_dyn, Eia. reflexivity.
Qed.

Lemma memb_members w i : existsb (Nat.eqb i) (members w) = negb (k_ext (gett w i)).
Proof.
  apply Bool.eq_true_iff_eq. rewrite existsb_exists. unfold members. split.
  - intros [x [Hin Hx]]. apply Nat.eqb_eq in Hx. subst x. apply filter_In in Hin. apply Hin.
  - intros Hn. exists i. split; [|apply Nat.eqb_refl].
    apply filter_In. split; [|exact Hn]. apply in_seq. split; [lia|]. cbn [plus].
    destruct (Nat.lt_ge_cases i (length w)) as [Hlt|Hge]; [exact Hlt|].
    unfold gett in Hn. rewrite (nth_overflow w no_task Hge) in Hn. discriminate Hn.
Qed.

Lemma prepare_result w : fold_left (clear_step w) (members w) (map raw_dyn w) = map init_dyn w.
Proof.
  apply (nth_ext _ _ no_dyn no_dyn).
  - rewrite clear_fold_length, !map_length. reflexivity.
  - intros i _. rewrite clear_fold_nth, memb_members.
    change no_dyn with (raw_dyn no_task) at 2. rewrite map_nth.
    change no_dyn with (init_dyn no_task) at 2. rewrite map_nth.
    fold (gett w i). unfold init_dyn, has_kids.
    destruct (negb (k_ext (gett w i)) && negb (is_leaf (gett w i))); reflexivity.
Qed.

Theorem src_prepare_tasks_eq : forall w, src_prepare_tasks w (map raw_dyn w) = Ok (map init_dyn w, tt).
Proof.
  intros w. unfold src_prepare_tasks. rewrite prepare_fold. cbn [bind]. rewrite prepare_result. reflexivity.
Qed.

Theorem src_prepare_tasks_bwd_eq : forall w, src_prepare_tasks_bwd w (map raw_dyn w) = Ok (map init_dyn w, tt).
Proof.
  intros w. unfold src_prepare_tasks_bwd. rewrite prepare_fold. cbn [bind]. rewrite prepare_result. reflexivity.
Qed.

(* hence: the state calc hands to the first pass *)
Corollary src_prepare_init_state : forall w, src_prepare_tasks w (map raw_dyn w) = Ok (dy (init_state w), tt).
Proof. intros w. apply src_prepare_tasks_eq. Qed.

(* ---------- non-vacuity ---------- *)
Definition cx_task (par : option nat) (ch pr : list nat) (ext : bool) (st en : option Z) : itask :=
  {| k_parent := par; k_children := ch; k_preds := pr; k_succs := []; k_ext := ext; k_milestone := false;
     k_res := 0; k_est := Some 8; k_spent := Some 2; k_start := st; k_end := en; k_minstart := None |}.

(* a summary (0) with two leaves; leaf 2 waits for a task outside the WBS (3) *)
Definition cx_w (st en : option Z) : list itask :=
  [ cx_task None [1; 2]%nat [] false (Some 10) (Some 20);
    cx_task (Some 0%nat) [] [] false (Some 10) None;
    cx_task (Some 0%nat) [] [3%nat] false None (Some 20);
    cx_task None [] [] true st en ].

Definition cx_cfg (nw : Z) : config :=
  {| cap := fun _ _ => 8; balance := true; dflt_est := 8; pbound := 0; now := nw;
     h_search := 10; h_near := 10; h_fill := 10 |}.

Example src_calc_helpers_example :
  (* the outside predecessor without dates, with one date: refused; with both: accepted *)
  src_validate_graph_isolation (cx_w None None) = Err /\
  src_validate_graph_isolation (cx_w (Some 5) None) = Err /\
  src_validate_graph_isolation (cx_w (Some 5) (Some 30)) = Ok tt /\
  (* an end after now is refused, the end of the outside task does not count *)
  src_check_no_end_dates_in_future (cx_cfg 19) (cx_w (Some 5) (Some 30)) = Err /\
  src_check_no_end_dates_in_future (cx_cfg 20) (cx_w (Some 5) (Some 30)) = Ok tt /\
  (* the summary loses its four values, the leaves and the outside task keep theirs *)
  src_prepare_tasks (cx_w (Some 5) (Some 30)) (map raw_dyn (cx_w (Some 5) (Some 30)))
  = Ok ([ no_dyn;
          {| d_start := Some 10; d_end := None; d_est := Some 8; d_spent := Some 2 |};
          {| d_start := None; d_end := Some 20; d_est := Some 8; d_spent := Some 2 |};
          {| d_start := Some 5; d_end := Some 30; d_est := Some 8; d_spent := Some 2 |} ], tt) /\
  src_prepare_tasks_bwd (cx_w (Some 5) (Some 30)) (map raw_dyn (cx_w (Some 5) (Some 30)))
  = src_prepare_tasks (cx_w (Some 5) (Some 30)) (map raw_dyn (cx_w (Some 5) (Some 30))) /\
  map raw_dyn (cx_w (Some 5) (Some 30)) <> map init_dyn (cx_w (Some 5) (Some 30)).
Proof.
  repeat split; try (vm_compute; reflexivity).
  vm_compute. intros H. discriminate H.
Qed.

Print Assumptions src_validate_graph_isolation_eq.
Print Assumptions src_check_no_end_dates_in_future_eq.
Print Assumptions src_prepare_tasks_eq.
Print Assumptions src_prepare_tasks_bwd_eq.
Print Assumptions src_prepare_init_state.
Print Assumptions src_calc_helpers_example.
