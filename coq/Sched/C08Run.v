(* C08, part 1: facts about whole runs of the forward machine that the C08 theorems need.
   - a run that calculates t can be split at the step that calculates t;
   - invariants: C03's ledger invariant, "a task that is not calculated yet still has its initial
     dates", the length of the dates table;
   - the ledger only grows, by positive rows of tasks that were not calculated before. *)
From PJ Require Import Base.Prelude Sched.Model Sched.LedgerProofs Sched.Primitives Sched.Machine
     Sched.Instances Sched.C03Proofs.

(* ---------- splitting a run at the step that calculates t ---------- *)
Lemma c08_run_split cfg w I a b t :
  fsteps cfg w I a b -> In t (c_calc b) -> ~ In t (c_calc a) ->
  exists c c', fsteps cfg w I a c /\ fstep cfg w c t c' /\ fsteps cfg w I c' b.
Proof.
  unfold fsteps, fstep.
  induction 1 as [c|c u c' c'' Hn Hs Hr IH]; intros Hin Hnot; [contradiction|].
  destruct (Nat.eq_dec u t) as [->|Hne].
  - exists c, c'. split; [constructor|]. split; assumption.
  - destruct IH as [c1 [c2 [A [B C]]]]; [exact Hin| |].
    + destruct Hs. simpl. intros [E|E]; [congruence | contradiction].
    + exists c1, c2. split; [econstructor; eauto|]. split; assumption.
Qed.

(* ---------- the invariant carried along a run ---------- *)
Lemma c08_init_dyn_nth w p : nth p (map init_dyn w) no_dyn = init_dyn (gett w p).
Proof. unfold gett. change no_dyn with (init_dyn no_task). apply map_nth. Qed.

Definition c08_uncalc_init (w : list itask) (c : core) : Prop :=
  forall p, ~ In p (c_calc c) -> nth p (c_dy c) no_dyn = init_dyn (gett w p).

Definition c08_inv (cfg : config) (w : list itask) (c : core) : Prop :=
  inv03 cfg w c /\ c08_uncalc_init w c /\ length (c_dy c) = length w.

Lemma c08_inv_init cfg w : cap_nonneg cfg -> c08_inv cfg w (init_core w).
Proof.
  intros H. split; [apply inv03_init; exact H|]. split.
  - intros p _. simpl. apply c08_init_dyn_nth.
  - simpl. apply map_length.
Qed.

Lemma c08_compute_length cfg w ds l t b ds' l' :
  fwd_compute cfg w ds l t b = Ok (ds', l') -> length ds' = length ds.
Proof.
  intros H. apply fwd_compute_inv in H.
  destruct H as [[_ [-> _]] | [_ [s [e [es [sp [-> _]]]]]]]; apply length_set_nth.
Qed.

Lemma c08_inv_fstep cfg w c t c' : c08_inv cfg w c -> fstep cfg w c t c' -> c08_inv cfg w c'.
Proof.
  intros [H3 [Hu Hl]] Hs. split; [eapply inv03_fstep; eauto|].
  unfold fstep in Hs. destruct Hs as [c t r Hext Hnot _ _ Hc]. destruct r as [ds' l']. simpl. split.
  - intros p Hp. simpl in Hp |- *.
    rewrite (fwd_compute_frame _ _ _ _ _ _ _ _ Hc p); [apply Hu|]; intuition.
  - rewrite (c08_compute_length _ _ _ _ _ _ _ _ Hc). exact Hl.
Qed.

Lemma c08_inv_fsteps cfg w I a b : fsteps cfg w I a b -> c08_inv cfg w a -> c08_inv cfg w b.
Proof.
  intros Hs. unfold fsteps in Hs.
  apply (gsteps_inv w (fdeps w) (fkids w) (fbnd cfg) (fwd_compute cfg w) (c08_inv cfg w) I a b); [|exact Hs].
  intros c t c' Hi Hst. eapply c08_inv_fstep; eauto.
Qed.

(* ---------- the ledger only grows ---------- *)
Definition c08_grows (a b : core) : Prop :=
  exists ext, c_lg b = ext ++ c_lg a
              /\ forall x, In x ext -> 0 < r_units x /\ ~ In (r_task x) (c_calc a).

Lemma c08_grows_fstep cfg w c t c' :
  c08_inv cfg w c -> fstep cfg w c t c' -> c08_grows c c'.
Proof.
  intros [H3 _] Hs. unfold fstep in Hs. destruct Hs as [c t r Hext Hnot _ _ Hc]. destruct r as [ds' l'].
  destruct (fwd_compute_ledger _ _ _ _ _ _ _ _ Hc (proj1 H3)) as [[new [Ha Hr]] _].
  exists new. simpl. split; [exact Ha|]. intros x Hx. destruct (Hr x Hx) as [_ [B C]]. rewrite B. auto.
Qed.

Lemma c08_grows_fsteps cfg w I a b :
  fsteps cfg w I a b -> c08_inv cfg w a -> c08_grows a b.
Proof.
  unfold fsteps. induction 1 as [c|c u c' c'' Hn Hs Hr IH]; intros Hi.
  - exists []. split; [reflexivity | intros x []].
  - destruct (c08_grows_fstep cfg w c u c' Hi Hs) as [e1 [A1 B1]].
    destruct (IH (c08_inv_fstep cfg w c u c' Hi Hs)) as [e2 [A2 B2]].
    exists (e2 ++ e1). split; [rewrite A2, A1, app_assoc; reflexivity|].
    intros x Hx. apply in_app_or in Hx. destruct Hx as [Hx|Hx]; [|apply B1; exact Hx].
    destruct (B2 x Hx) as [P Q]. split; [exact P|]. intro Hin. apply Q.
    eapply gstep_calc_mono; eauto.
Qed.

(* ---------- what stays the same after a task is calculated ---------- *)
Lemma c08_frozen_fsteps cfg w I a b :
  fsteps cfg w I a b -> forall p, ready w a p -> nth p (c_dy b) no_dyn = nth p (c_dy a) no_dyn.
Proof.
  intros Hs. unfold fsteps in Hs.
  apply (gsteps_frozen w (fdeps w) (fkids w) (fbnd cfg) (fwd_compute cfg w) (fwd_compute_frame cfg w) I a b Hs).
Qed.

(* booked amounts never decrease along a run, and stay under the capacity *)
Lemma c08_booked_app ext l r d : booked (ext ++ l) r d = booked ext r d + booked l r d.
Proof. exact (used_app true ext l r d 0%nat). Qed.

Lemma c08_booked_t_app ext l r d t : booked_t (ext ++ l) r d t = booked_t ext r d t + booked_t l r d t.
Proof. exact (used_app false ext l r d t). Qed.

Lemma c08_booked_nonneg l r d : (forall x, In x l -> 0 < r_units x) -> 0 <= booked l r d.
Proof. exact (used_nonneg true l r d 0%nat). Qed.

(* rows of other tasks do not count in a task's own bookings *)
Lemma c08_booked_t_foreign ext r d t : (forall x, In x ext -> r_task x <> t) -> booked_t ext r d t = 0.
Proof.
  induction ext as [|x ext IH]; intros H; [reflexivity|].
  change (booked_t (x :: ext) r d t) with (used false (x :: ext) r d t). rewrite used_cons.
  change (used false ext r d t) with (booked_t ext r d t).
  rewrite IH by (intros y Hy; apply H; right; exact Hy).
  unfold hits. simpl. destruct (Nat.eqb_spec (r_task x) t) as [E|E].
  - exfalso. apply (H x); [left; reflexivity | exact E].
  - rewrite andb_false_r. reflexivity.
Qed.

(* a day that is full at some point of a balanced run is full at the end *)
Lemma c08_full_persists cfg w a b r d :
  balance cfg = true -> c08_grows a b -> inv03 cfg w b ->
  booked (c_lg a) r d = cap cfg r d -> booked (c_lg b) r d = cap cfg r d.
Proof.
  intros Hb [ext [Ha Hx]] [[Hpos Hcap] _] Hfull.
  specialize (Hcap r d 0%nat). rewrite Hb in Hcap. simpl in Hcap.
  rewrite Ha in Hcap |- *. rewrite c08_booked_app in *.
  assert (0 <= booked ext r d) by (apply c08_booked_nonneg; intros x Hin; apply Hx; exact Hin). lia.
Qed.
