(* C14, generic part: the recursive pass [gpass] never answers [Crash] (fuel suffices, the
   calculation of a task is only reached when its children are calculated), an [Err] has one of two
   causes (a re-entry, which is a cycle of the waiting relation, or a calculation that answers
   [Err] in a reachable machine state), and a cycle of the waiting relation through a task that must
   be calculated excludes [Ok].  Proved once for both schedulers. *)
From PJ Require Import Base.Prelude Sched.Model Sched.Machine.
From Coq Require Import Relations.Relation_Operators Relations.Operators_Properties.

(* ---------- fold_res ---------- *)
Lemma fold_res_app {S A} (f : S -> A -> res S) l1 l2 s :
  fold_res f (l1 ++ l2) s = (do s1 <- fold_res f l1 s; fold_res f l2 s1).
Proof.
  revert s; induction l1 as [|a l1 IH]; intros s; simpl; [reflexivity|].
  destruct (f s a) as [s1| |k]; simpl; [apply IH | reflexivity | reflexivity].
Qed.

Lemma fold_res_err_split {S A} (f : S -> A -> res S) l s :
  fold_res f l s = Err ->
  exists l1 a l2 s1, l = l1 ++ a :: l2 /\ fold_res f l1 s = Ok s1 /\ f s1 a = Err.
Proof.
  revert s; induction l as [|a l IH]; intros s; simpl; [discriminate|].
  destruct (f s a) as [s1| |k] eqn:E; simpl.
  - intros H. destruct (IH _ H) as (l1 & b & l2 & s2 & Hl & H1 & H2). subst l.
    exists (a :: l1), b, l2, s2. simpl. rewrite E. simpl. auto.
  - intros _. exists [], a, l, s. simpl. auto.
  - discriminate.
Qed.

(* an Err inside a fold (or a bind) is the result: RuntimeError propagates *)
Lemma fold_res_err_propagates {S A} (f : S -> A -> res S) l1 a l2 s s1 :
  fold_res f l1 s = Ok s1 -> f s1 a = Err -> fold_res f (l1 ++ a :: l2) s = Err.
Proof. intros H1 H2. rewrite fold_res_app, H1. simpl. rewrite H2. reflexivity. Qed.

Lemma bind_err_propagates {A B} (k : A -> res B) : bind Err k = Err.
Proof. reflexivity. Qed.

Section Pass14.
Variable w : list itask.
Variable deps : nat -> list nat.
Variable kids : nat -> list nat.
Variable bnd : list dyn -> list nat -> Z.
Variable compute : list dyn -> ledger -> nat -> Z -> res (list dyn * ledger).

Hypothesis compute_frame : forall ds l t b ds' l', compute ds l t b = Ok (ds', l') ->
  forall p, p <> t -> nth p ds' no_dyn = nth p ds no_dyn.
Hypothesis bnd_ext : forall ds ds' pre, (forall p, In p pre -> nth p ds' no_dyn = nth p ds no_dyn) ->
  bnd ds' pre = bnd ds pre.

Notation gpass := (Model.gpass w deps kids bnd compute).
Notation gstep := (Machine.gstep w deps kids bnd compute).
Notation gsteps := (Machine.gsteps w deps kids bnd compute).
Notation ready := (Machine.ready w).

(* the machine may calculate t in state c *)
Definition enabled (c : core) (t : nat) : Prop :=
  k_ext (gett w t) = false /\ ~ In t (c_calc c)
  /\ (forall p, In p (deps t) -> ready c p) /\ (forall ch, In ch (kids t) -> ready c ch).

(* ... and the calculation answers RuntimeError *)
Definition stuck (c : core) (t : nat) : Prop :=
  enabled c t /\ compute (c_dy c) (c_lg c) t (bnd (c_dy c) (deps t)) = Err.

Lemma gpass_post fuel st t st' : gpass fuel st t = Ok st' -> pass_post w deps kids bnd compute st t st'.
Proof. apply gpass_refines; assumption. Qed.

Lemma fold_gpass_post fuel l s s' :
  fold_res (gpass fuel) l s = Ok s' ->
  gsteps (inprog s) (core_of s) (core_of s') /\ (forall a, In a l -> ready (core_of s') a) /\ inprog s' = inprog s.
Proof. apply fold_pass_post. intros s0 a s0'. apply gpass_post. Qed.

Lemma gsteps_nil I a b : gsteps I a b -> gsteps [] a b.
Proof. apply gsteps_weaken. intros t []. Qed.

Lemma gpass_step f st t :
  k_ext (gett w t) = false -> memb t (calc st) = false -> memb t (inprog st) = false ->
  gpass (S f) st t =
  (do st2 <- fold_res (gpass f) (deps t) (enter st t);
   do st3 <- fold_res (gpass f) (kids t) st2;
   do r <- compute (dy st3) (lg st3) t (bnd (dy st2) (deps t));
   Ok (leave st3 t r)).
Proof. intros H1 H2 H3. simpl. rewrite H1, H2, H3. reflexivity. Qed.

(* anatomy of one non-trivial call, after both folds *)
Lemma gpass_mid f st t st2 st3 :
  k_ext (gett w t) = false -> ~ In t (calc st) -> ~ In t (inprog st) ->
  fold_res (gpass f) (deps t) (enter st t) = Ok st2 ->
  fold_res (gpass f) (kids t) st2 = Ok st3 ->
  inprog st2 = t :: inprog st /\ inprog st3 = t :: inprog st
  /\ gsteps [] (core_of st) (core_of st2) /\ gsteps [] (core_of st2) (core_of st3)
  /\ enabled (core_of st3) t
  /\ bnd (dy st2) (deps t) = bnd (dy st3) (deps t).
Proof.
  intros Hext Hcalc Hin E2 E3.
  destruct (fold_gpass_post _ _ _ _ E2) as [A1 [A2 A3]].
  destruct (fold_gpass_post _ _ _ _ E3) as [B1 [B2 B3]].
  simpl in A1, A3. rewrite A3 in B1, B3.
  assert (S13 : gsteps (t :: inprog st) (core_of st) (core_of st3)) by (eapply gsteps_trans; eauto).
  split; [exact A3|]. split; [exact B3|].
  split; [eapply gsteps_nil; exact A1|]. split; [eapply gsteps_nil; exact B1|].
  split.
  - split; [exact Hext|]. split.
    + intro Hc. apply Hcalc. apply (gsteps_avoid _ _ _ _ _ _ _ _ S13 t); [left; reflexivity | exact Hc].
    + split; [|exact B2]. intros p Hp. eapply ready_mono; [exact B1 | apply A2; exact Hp].
  - symmetry. apply bnd_ext. intros p Hp.
    apply (gsteps_frozen w deps kids bnd compute compute_frame _ _ _ B1 p). apply A2. exact Hp.
Qed.

(* ================= no Crash ================= *)
Section NoCrash.
Variable Inv : core -> Prop.
Hypothesis Inv_step : forall c t c', Inv c -> gstep c t c' -> Inv c'.
Hypothesis compute_safe : forall c t, Inv c -> enabled c t ->
  forall k, compute (c_dy c) (c_lg c) t (bnd (c_dy c) (deps t)) <> Crash k.

(* the in-progress stack holds distinct members, and the fuel covers the members that are not on it *)
Definition okst (fuel : nat) (st : sst) : Prop :=
  Inv (core_of st) /\ NoDup (inprog st) /\ (forall x, In x (inprog st) -> (x < length w)%nat)
  /\ (length w + 1 <= fuel + length (inprog st))%nat.

Lemma Inv_gsteps I a b : gsteps I a b -> Inv a -> Inv b.
Proof. intros H. eapply gsteps_inv; [|exact H]. intros c t c'. apply Inv_step. Qed.

Lemma okst_fold_keeps fuel l s s' : fold_res (gpass fuel) l s = Ok s' -> okst fuel s -> okst fuel s'.
Proof.
  intros H (Hi & Hn & Hb & Hm). destruct (fold_gpass_post _ _ _ _ H) as [A [_ C]].
  unfold okst. rewrite C. repeat split; try assumption. eapply Inv_gsteps; eauto.
Qed.

Lemma fold_no_crash fuel :
  (forall st t, okst fuel st -> forall k, gpass fuel st t <> Crash k) ->
  forall l st, okst fuel st -> forall k, fold_res (gpass fuel) l st <> Crash k.
Proof.
  intros Hg. induction l as [|a l IH]; intros st Hst k; simpl; [discriminate|].
  destruct (gpass fuel st a) as [s1| |k1] eqn:E; simpl.
  - apply IH. apply (okst_fold_keeps fuel [a] st s1); [simpl; rewrite E; reflexivity | exact Hst].
  - discriminate.
  - exfalso. exact (Hg _ _ Hst _ E).
Qed.

Lemma ext_out_of_range t : k_ext (gett w t) = false -> (t < length w)%nat.
Proof.
  intros H. destruct (Nat.lt_ge_cases t (length w)) as [L|G]; [exact L|].
  unfold gett in H. rewrite nth_overflow in H by exact G. discriminate.
Qed.

Lemma stack_bounded l : NoDup l -> (forall x, In x l -> (x < length w)%nat) -> (length l <= length w)%nat.
Proof.
  intros Hn Hb. rewrite <- (seq_length (length w) 0). apply NoDup_incl_length; [exact Hn|].
  intros x Hx. apply in_seq. specialize (Hb x Hx). lia.
Qed.

Theorem gpass_no_crash : forall fuel st t, okst fuel st -> forall k, gpass fuel st t <> Crash k.
Proof.
  induction fuel as [|f IH]; intros st t Hst k.
  - exfalso. destruct Hst as (_ & Hn & Hb & Hm). pose proof (stack_bounded _ Hn Hb). lia.
  - simpl. destruct (k_ext (gett w t)) eqn:Hext; [discriminate|].
    destruct (memb t (calc st)) eqn:Hcalc; [discriminate|].
    destruct (memb t (inprog st)) eqn:Hin; [discriminate|].
    apply memb_false in Hcalc. apply memb_false in Hin.
    assert (Hst1 : okst f (enter st t)).
    { destruct Hst as (Hi & Hn & Hb & Hm). unfold okst. simpl. split; [exact Hi|]. split; [constructor; assumption|].
      split; [|lia]. intros x [<-|Hx]; [apply ext_out_of_range; exact Hext | apply Hb; exact Hx]. }
    destruct (fold_res (gpass f) (deps t) (enter st t)) as [st2| |k2] eqn:E2; simpl;
      [|discriminate | exfalso; exact (fold_no_crash f (IH) _ _ Hst1 _ E2)].
    assert (Hst2 : okst f st2) by (eapply okst_fold_keeps; eauto).
    destruct (fold_res (gpass f) (kids t) st2) as [st3| |k3] eqn:E3; simpl;
      [|discriminate | exfalso; exact (fold_no_crash f (IH) _ _ Hst2 _ E3)].
    assert (Hst3 : okst f st3) by (eapply okst_fold_keeps; eauto).
    destruct (gpass_mid _ _ _ _ _ Hext Hcalc Hin E2 E3) as (_ & _ & _ & _ & Hen & Hb).
    rewrite Hb.
    destruct (compute (dy st3) (lg st3) t (bnd (dy st3) (deps t))) as [r| |kr] eqn:Ec; simpl; try discriminate.
    exfalso. exact (compute_safe (core_of st3) t (proj1 Hst3) Hen kr Ec).
Qed.

Theorem fold_gpass_no_crash fuel l st : okst fuel st -> forall k, fold_res (gpass fuel) l st <> Crash k.
Proof. apply fold_no_crash. intros s t. apply gpass_no_crash. Qed.

(* a task whose calculation answers Err in whatever state it is reached makes the call Err *)
Theorem gpass_stuck_err f st t :
  okst (S f) st -> k_ext (gett w t) = false -> ~ In t (calc st) -> ~ In t (inprog st) ->
  (forall c, gsteps [] (core_of st) c -> Inv c -> enabled c t ->
             compute (c_dy c) (c_lg c) t (bnd (c_dy c) (deps t)) = Err) ->
  gpass (S f) st t = Err.
Proof.
  intros Hst Hext Hcalc Hin Hc.
  rewrite gpass_step; [|exact Hext | apply memb_false; exact Hcalc | apply memb_false; exact Hin].
  assert (Hst1 : okst f (enter st t)).
  { destruct Hst as (Hi & Hn & Hb & Hm). unfold okst. simpl. split; [exact Hi|]. split; [constructor; assumption|].
    split; [|lia]. intros x [<-|Hx]; [apply ext_out_of_range; exact Hext | apply Hb; exact Hx]. }
  destruct (fold_res (gpass f) (deps t) (enter st t)) as [st2| |k2] eqn:E2; simpl;
    [|reflexivity | exfalso; exact (fold_gpass_no_crash f _ _ Hst1 _ E2)].
  assert (Hst2 : okst f st2) by (eapply okst_fold_keeps; eauto).
  destruct (fold_res (gpass f) (kids t) st2) as [st3| |k3] eqn:E3; simpl;
    [|reflexivity | exfalso; exact (fold_gpass_no_crash f _ _ Hst2 _ E3)].
  assert (Hst3 : okst f st3) by (eapply okst_fold_keeps; eauto).
  destruct (gpass_mid _ _ _ _ _ Hext Hcalc Hin E2 E3) as (_ & _ & G2 & G3 & Hen & Hb).
  rewrite Hb.
  assert (Hx : compute (c_dy (core_of st3)) (c_lg (core_of st3)) t (bnd (c_dy (core_of st3)) (deps t)) = Err).
  { apply Hc; [eapply gsteps_trans; eauto | exact (proj1 Hst3) | exact Hen]. }
  simpl in Hx. rewrite Hx. reflexivity.
Qed.

End NoCrash.

(* ================= where an Err comes from ================= *)
Definition waits (t p : nat) : Prop := In p (deps t) \/ In p (kids t).

(* the in-progress stack, newest first: every entry is waited for by the one below it *)
Inductive chain : list nat -> Prop :=
| chain_nil : chain []
| chain_one a : chain [a]
| chain_cons a b l : waits b a -> chain (b :: l) -> chain (a :: b :: l).

Definition head_waits (I : list nat) (t : nat) : Prop := match I with [] => True | h :: _ => waits h t end.

Lemma chain_push I t : chain I -> head_waits I t -> chain (t :: I).
Proof. destruct I as [|h I]; intros Hc Hh; [constructor | constructor; assumption]. Qed.

Lemma chain_reach h I x : chain (h :: I) -> In x I -> clos_trans nat waits x h.
Proof.
  revert h; induction I as [|b I IH]; intros h Hc Hx; [destruct Hx|].
  inversion Hc as [| |? ? ? Hw Hc']; subst. destruct Hx as [<-|Hx].
  - apply t_step. exact Hw.
  - eapply t_trans; [apply IH; eassumption | apply t_step; exact Hw].
Qed.

Lemma reentry_is_cycle I t : chain I -> head_waits I t -> In t I -> clos_trans nat waits t t.
Proof.
  destruct I as [|h I]; intros Hc Hh Hin; [destruct Hin|]. simpl in Hh. destruct Hin as [<-|Hin].
  - apply t_step. exact Hh.
  - eapply t_trans; [eapply chain_reach; eassumption | apply t_step; exact Hh].
Qed.

Definition err_cause (c0 : core) : Prop :=
  (exists u, k_ext (gett w u) = false /\ clos_trans nat waits u u)
  \/ (exists c u, gsteps [] c0 c /\ stuck c u).

Lemma err_cause_from c0 c1 : gsteps [] c0 c1 -> err_cause c1 -> err_cause c0.
Proof.
  intros H [Hc | (c & u & Hs & Hu)]; [left; exact Hc|]. right. exists c, u. split; [|exact Hu].
  eapply gsteps_trans; eauto.
Qed.

Theorem gpass_err_cause : forall fuel st t,
  gpass fuel st t = Err -> chain (inprog st) -> head_waits (inprog st) t -> err_cause (core_of st).
Proof.
  induction fuel as [|f IH]; intros st t; simpl; [discriminate|].
  destruct (k_ext (gett w t)) eqn:Hext; [discriminate|].
  destruct (memb t (calc st)) eqn:Hcalc; [discriminate|].
  destruct (memb t (inprog st)) eqn:Hin.
  { intros _ Hc Hh. left. exists t. split; [exact Hext|]. apply memb_true in Hin. eapply reentry_is_cycle; eauto. }
  apply memb_false in Hcalc. apply memb_false in Hin. intros H Hc Hh.
  assert (Hfold : forall l s, gsteps [] (core_of st) (core_of s) -> inprog s = t :: inprog st ->
             fold_res (gpass f) l s = Err -> (forall x, In x l -> waits t x) -> err_cause (core_of st)).
  { intros l s Hs Hi Hf Hw. destruct (fold_res_err_split _ _ _ Hf) as (l1 & a & l2 & s2 & Hl & H1 & H2).
    destruct (fold_gpass_post _ _ _ _ H1) as [G1 [_ G3]].
    eapply err_cause_from; [eapply gsteps_trans; [exact Hs | eapply gsteps_nil; exact G1]|].
    apply (IH s2 a H2).
    - rewrite G3, Hi. apply chain_push; assumption.
    - rewrite G3, Hi. simpl. apply Hw. rewrite Hl. apply in_or_app. right. left. reflexivity. }
  destruct (fold_res (gpass f) (deps t) (enter st t)) as [st2| |k2] eqn:E2; simpl in H; [| |discriminate].
  2:{ apply (Hfold (deps t) (enter st t) ltac:(constructor) eq_refl E2). intros x Hx. left. exact Hx. }
  destruct (fold_gpass_post _ _ _ _ E2) as [A1 [_ A3]]. simpl in A1, A3.
  destruct (fold_res (gpass f) (kids t) st2) as [st3| |k3] eqn:E3; simpl in H; [| |discriminate].
  2:{ apply (Hfold _ _ (gsteps_nil _ _ _ A1) A3 E3). intros x Hx. right. exact Hx. }
  destruct (gpass_mid _ _ _ _ _ Hext Hcalc Hin E2 E3) as (_ & _ & G2 & G3 & Hen & Hb).
  rewrite Hb in H.
  destruct (compute (dy st3) (lg st3) t (bnd (dy st3) (deps t))) as [r| |kr] eqn:Ec; simpl in H; try discriminate.
  right. exists (core_of st3), t. split; [eapply gsteps_trans; eauto|]. split; [exact Hen | exact Ec].
Qed.

Theorem fold_gpass_err_cause fuel l st :
  fold_res (gpass fuel) l st = Err -> inprog st = [] -> err_cause (core_of st).
Proof.
  intros H Hi. destruct (fold_res_err_split _ _ _ H) as (l1 & a & l2 & s1 & Hl & H1 & H2).
  destruct (fold_gpass_post _ _ _ _ H1) as [G1 [_ G3]].
  eapply err_cause_from; [eapply gsteps_nil; exact G1|].
  apply (gpass_err_cause fuel s1 a H2); rewrite G3, Hi; [constructor | exact I].
Qed.

(* the re-entry itself: RuntimeError at once *)
Lemma gpass_reentry fuel st t :
  k_ext (gett w t) = false -> memb t (calc st) = false -> memb t (inprog st) = true ->
  gpass (S fuel) st t = Err.
Proof. intros H1 H2 H3. simpl. rewrite H1, H2, H3. reflexivity. Qed.

(* ================= a waiting cycle excludes Ok ================= *)
Hypothesis ext_no_waits : forall t p, k_ext (gett w t) = true -> ~ waits t p.

(* whatever a calculated task waits for, directly or not, is calculated (or outside) and is not the task itself *)
Definition acyc (c : core) : Prop :=
  forall t p, In t (c_calc c) -> clos_trans nat waits t p -> p <> t /\ ready c p.

Lemma acyc_step c t c' : acyc c -> gstep c t c' -> acyc c'.
Proof.
  intros HJ Hs. destruct Hs as [c t r Hext Hnot Hd Hk Hc]. intros u p Hu Hp. simpl in Hu.
  assert (Hmono : forall q, ready c q -> ready {| c_dy := fst r; c_lg := snd r; c_calc := t :: c_calc c |} q).
  { intros q [Hq|Hq]; [left; exact Hq | right; simpl; right; exact Hq]. }
  assert (Hne : forall q, ready c q -> q <> t).
  { intros q [Hq|Hq] E; subst q; [congruence | contradiction]. }
  destruct Hu as [<-|Hu].
  - apply clos_trans_t1n in Hp. inversion Hp as [q Hw | q z Hw Hrest]; subst.
    + assert (Hr : ready c p) by (destruct Hw as [Hw|Hw]; [apply Hd | apply Hk]; exact Hw).
      split; [apply Hne; exact Hr | apply Hmono; exact Hr].
    + assert (Hr : ready c q) by (destruct Hw as [Hw|Hw]; [apply Hd | apply Hk]; exact Hw).
      apply clos_t1n_trans in Hrest. destruct Hr as [Hq|Hq].
      * exfalso. apply clos_trans_t1n in Hrest. inversion Hrest; subst; eapply ext_no_waits; eauto.
      * destruct (HJ q p Hq Hrest) as [_ Hrp]. split; [apply Hne; exact Hrp | apply Hmono; exact Hrp].
  - destruct (HJ u p Hu Hp) as [A B]. split; [exact A | apply Hmono; exact B].
Qed.

Lemma acyc_gsteps I a b : gsteps I a b -> acyc a -> acyc b.
Proof. intros H. eapply gsteps_inv; [|exact H]. intros c t c'. apply acyc_step. Qed.

(* tasks that every complete run calculates: the roots and what hangs below them *)
Variable rootl : list nat.
Inductive under : nat -> Prop :=
| under_base r : In r rootl -> under r
| under_step p ch : under p -> In ch (kids p) -> under ch.

Lemma under_ready c : acyc c -> (forall r, In r rootl -> ready c r) -> forall t, under t -> ready c t.
Proof.
  intros HJ Hr t Ht. induction Ht as [r Hin | p ch Hp IH Hch]; [apply Hr; exact Hin|].
  destruct IH as [He|Hc].
  - exfalso. apply (ext_no_waits p ch He). right. exact Hch.
  - apply (HJ p ch Hc). apply t_step. right. exact Hch.
Qed.

Theorem cycle_excludes_ok c0 c u :
  c_calc c0 = [] -> gsteps [] c0 c -> (forall r, In r rootl -> ready c r) ->
  k_ext (gett w u) = false -> under u -> clos_trans nat waits u u -> False.
Proof.
  intros H0 Hs Hr Hext Hu Hcyc.
  assert (HJ : acyc c). { eapply acyc_gsteps; [exact Hs|]. intros t p Ht. rewrite H0 in Ht. destruct Ht. }
  destruct (under_ready c HJ Hr u Hu) as [He|Hc]; [congruence|].
  destruct (HJ u u Hc Hcyc) as [Hne _]. apply Hne. reflexivity.
Qed.

End Pass14.
