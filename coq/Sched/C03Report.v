(* C03, last sentence: the usage report (schedule.py ResourceUsageReport) as functions of its row list,
   the resource table of one calculation (ForwardScheduler/BackwardScheduler.__resources, returned as
   Schedule.resources) and the calendar of a resource that was not supplied (Resource(name) with
   DEFAULT_CALENDAR).  Resource names are the model's resource numbers [k_res].  Definitions only. *)
From PJ Require Import Base.Prelude Sched.Model Sched.Check Sched.Oracles.

(* ---------- ResourceUsageReport ---------- *)
(* rows(_filter): [r for r in rows if _filter is None or _filter(r)]; rows(None) is the filter that
   accepts everything *)
Definition report_rows (rows : list obs_row) (f : obs_row -> bool) : list obs_row := filter f rows.
Definition report_all (rows : list obs_row) : list obs_row := report_rows rows (fun _ => true).

(* reserved(resource, date): sum([item.units for item in rows if item.resource == resource and
   item.date == date], 0) - Python's sum adds from the left, starting from 0 *)
Definition on_res_day (r : nat) (d : Z) (x : obs_row) : bool := Nat.eqb (row_res x) r && (row_day x =? d).
Definition report_reserved (rows : list obs_row) (r : nat) (d : Z) : Z :=
  fold_left (fun a x => a + row_units x) (report_rows rows (on_res_day r d)) 0.

(* the filtered view used most: the rows of one task *)
Definition task_rows (rows : list obs_row) (t : nat) : list obs_row :=
  report_rows rows (fun x => Nat.eqb (row_task x) t).

(* ---------- the resource table of one calculation ---------- *)
(* dict.setdefault for every name of [l] in turn: a name that is not yet a key is appended (dicts keep
   insertion order), a known one changes nothing *)
Fixpoint add_new (seen : list nat) (l : list nat) : list nat :=
  match l with
  | [] => seen
  | r :: rest => add_new (if memb r seen then seen else seen ++ [r]) rest
  end.

(* {r.name: r for r in resources}: one key per name, at the position of its first occurrence *)
Definition supplied_keys (supplied : list nat) : list nat := add_new [] supplied.

(* Every member task that is calculated registers its resource (summaries and milestones too: the
   setdefault line precedes the case distinction), at the moment it is calculated - after everything it
   waits for and after its children.  [visited] is that order. *)
Definition visit_table (supplied : list nat) (w : list itask) (visited : list nat) : list nat :=
  add_new (supplied_keys supplied) (map (fun t => k_res (gett w t)) visited).

(* the table as a function of the input alone: members taken in WBS order.  A successful calculation
   visits exactly the members, each once (in another order): same set of names, C03_run_table. *)
Definition resource_table (supplied : list nat) (w : list itask) : list nat :=
  visit_table supplied w (members w).

(* the table of an actual run: [calc st] lists the calculated tasks, newest first *)
Definition run_table (supplied : list nat) (w : list itask) (st : sst) : list nat :=
  visit_table supplied w (rev (calc st)).

(* ---------- the default resource ---------- *)
(* WeeklyCalendar(days=ds, units_per_day=u) without validity bounds: u on the listed weekdays
   (0 = Monday), 0 on the others, on every date *)
Definition weekly_cap (days : list Z) (u : Z) (d : Z) : Z :=
  if existsb (Z.eqb (weekday_of_day d)) days then u else 0.

(* calendar.DEFAULT_CALENDAR; C03_default_consts proves them equal to what the harness extracts from
   the source on every run (gen.Consts.default_weekdays / default_units) *)
Definition model_weekdays : list Z := [0; 1; 2; 3; 4].
Definition model_units : Z := 8.

(* capacity of Resource(name) on day [d]; amounts are scaled: [k] model units = one unit of work
   (the harness uses k = K = 8 on the dyadic grid, so 8 units = 64) *)
Definition default_cal (k : Z) (d : Z) : Z := weekly_cap model_weekdays (model_units * k) d.

(* capacities of the resources of a run: the supplied ones answer for themselves, every other name
   is a fresh default resource *)
Definition table_cap (sup_cap : nat -> Z -> Z) (supplied : list nat) (k : Z) (r : nat) (d : Z) : Z :=
  if memb r supplied then sup_cap r d else default_cal k d.

Definition with_defaults (cfg : config) (supplied : list nat) (k : Z) : config :=
  {| cap := table_cap (cap cfg) supplied k; balance := balance cfg; dflt_est := dflt_est cfg;
     pbound := pbound cfg; now := now cfg; h_search := h_search cfg; h_near := h_near cfg; h_fill := h_fill cfg |}.
