(* C09 (b), the reading through the successor's side: a summary starts no later than any task below
   it, so a task that must end before a summary starts ends before everything inside the summary. *)
From PJ Require Import Base.Prelude Sched.Model Sched.LedgerProofs Sched.Primitives Sched.Machine Sched.Instances
     Sched.C03Proofs Sched.WfIn Sched.Check Sched.Oracles Sched.OracleProofs
     Sched.C09Base Sched.C09Proofs Sched.C09Final Sched.C09Oracle Sched.C09Model.

Definition c09_rollup (w : list itask) (c : core) : Prop :=
  forall t, In t (c_calc c) -> forall ch st' sc, In ch (k_children (gett w t)) ->
    d_start (getdl (c_dy c) t) = Some st' -> d_start (getdl (c_dy c) ch) = Some sc -> st' <= sc.

Definition inv09d (cfg : config) (w : list itask) (c : core) : Prop :=
  inv09 cfg w c /\ c09_kids_ready w c /\ c09_rollup w c.

Lemma inv09d_bstep cfg w c t c' :
  WFin w -> c09_no_user_dates w -> inv09d cfg w c -> bstep cfg w c t c' -> inv09d cfg w c'.
Proof.
  intros Hw Hn [Hi [Hk Hr]] Hs.
  split; [eapply inv09_bstep; eauto|]. split; [eapply c09_kids_ready_bstep; eauto|].
  unfold bstep in Hs. destruct Hs as [c t [ds' l'] Hext Hnot Hdeps Hkids Hc].
  cbn [fst snd] in *.
  pose proof (bwd_compute_frame _ _ _ _ _ _ _ _ Hc) as Hframe.
  assert (Hneq : forall q, ready w c q -> q <> t).
  { intros q [Hq|Hq] E; subst q; [congruence | contradiction]. }
  intros t0 Hin ch st' sc Hch Hst Hsc. cbn [c_dy c_calc] in *.
  destruct Hin as [<-|Hin].
  - assert (Hchr : ready w c ch) by (apply Hkids; unfold bkids; apply -> in_rev; exact Hch).
    unfold getdl in Hsc. rewrite (Hframe ch (Hneq ch Hchr)) in Hsc.
    destruct Hi as [_ [Hlen _]].
    assert (Htl : (t < length (c_dy c))%nat) by (rewrite Hlen; apply c09_member_range; exact Hext).
    apply bwd_compute_inv in Hc.
    destruct Hc as [[Hm _] | [Hm [start [en [est [spent [-> [_ [_ [_ Hse]]]]]]]]]].
    + pose proof (c09_wfin_milestone_leaf w t Hw Hext Hm) as Hl. unfold is_leaf in Hl.
      destruct (k_children (gett w t)); [destruct Hch | discriminate].
    + unfold getdl in Hst. rewrite nth_set_nth_same in Hst by exact Htl. simpl in Hst. inversion Hst; subst st'.
      unfold bwd_start_eq in Hse. destruct (is_leaf (gett w t)) eqn:Hl.
      * unfold is_leaf in Hl. destruct (k_children (gett w t)); [destruct Hch | discriminate].
      * remember (somes (map d_start (map (getdl (c_dy c)) (k_children (gett w t))))) as L eqn:EL.
        assert (HinL : In sc L).
        { subst L. rewrite map_map. apply (c09_in_somes (fun a => d_start (getdl (c_dy c) a))).
          exists ch. split; [exact Hch | exact Hsc]. }
        destruct L as [|x xs]; [discriminate|]. inversion Hse; subst.
        destruct HinL as [<-|HinL]; [apply c09_fold_min_le_init | apply c09_fold_min_le_in; exact HinL].
  - assert (Hne : t0 <> t) by (intro E; subst t0; contradiction).
    pose proof (Hneq ch (Hk t0 Hin ch Hch)) as Hnc.
    unfold getdl in *. rewrite (Hframe t0 Hne) in Hst. rewrite (Hframe ch Hnc) in Hsc.
    eapply Hr; eauto.
Qed.

Theorem backward_inv09d cfg w st :
  WFin w -> cap_nonneg cfg -> c09_no_user_dates w -> backward cfg w = Ok st -> inv09d cfg w (core_of st).
Proof.
  intros Hw Hc Hn H. destruct (backward_is_run _ _ _ H) as [Hs _].
  eapply (gsteps_inv w _ _ _ _ (inv09d cfg w)); [|exact Hs|].
  - intros c t c' Hi Hst. eapply inv09d_bstep; eauto.
  - split; [apply inv09_init; exact Hc|]. split; intros t [].
Qed.

(* a summary starts no later than anything below it *)
Lemma c09_start_le_below cfg w st :
  WFin w -> cap_nonneg cfg -> no_user_dates w = true -> backward cfg w = Ok st ->
  forall k s q sq ss, k_ext (gett w s) = false -> In q (ancestors w k s) ->
    d_start (getd st q) = Some sq -> d_start (getd st s) = Some ss -> sq <= ss.
Proof.
  intros Hw Hc Hn H. pose proof (c09_no_user_dates_b w Hn) as Hn'.
  destruct (backward_inv09d cfg w st Hw Hc Hn' H) as [_ [_ Hr]].
  induction k as [|k IH]; intros s q sq ss Hs Hq Hsq Hss; [destruct Hq|].
  rewrite c09_anc_S in Hq. destruct (k_parent (gett w s)) as [p|] eqn:Hp; [|destruct Hq].
  destruct (c09_wfin_parts w s Hw Hs) as [_ [Hpar _]]. specialize (Hpar p Hp).
  pose proof (c09_all_calc cfg w st Hw H p Hpar) as Hpc.
  pose proof (c09_wfin_parent_lists w s p Hw Hs Hp) as Hch.
  destruct Hq as [<-|Hq].
  - apply (Hr p Hpc s sq ss Hch Hsq Hss).
  - destruct (C09_all_dated_holds cfg w st Hw Hc Hn H p (proj2 (c09_members_in w p) Hpar)) as [sp [ep [Hsp _]]].
    pose proof (IH p q sq sp Hpar Hq Hsq Hsp). pose proof (Hr p Hpc s sp ss Hch Hsp Hss). lia.
Qed.

(* (b) through the successor's side: t ends before every member at or below any of its dependants *)
Definition C09_deps_below_statement (cfg : config) (w : list itask) (st : sst) : Prop :=
  forall t q s e s2, In t (members w) -> In q (dependants w t) ->
    In s (members w) -> (s = q \/ In q (ancestors w (length w) s)) ->
    d_end (getd st t) = Some e -> d_start (getd st s) = Some s2 -> e <= s2.

Theorem C09_deps_below_holds cfg w st :
  WFin w -> cap_nonneg cfg -> no_user_dates w = true -> backward cfg w = Ok st -> C09_deps_below_statement cfg w st.
Proof.
  intros Hw Hc Hn H t q s e s2 Ht Hq Hs Hu He Hs2.
  destruct Hu as [->|Hu]; [apply (C09_deps_holds cfg w st Hw Hc Hn H t q e s2 Ht Hq He Hs2)|].
  apply c09_members_in in Hs.
  pose proof (c09_anc_members w Hw _ _ _ Hs Hu) as Hqm.
  destruct (C09_all_dated_holds cfg w st Hw Hc Hn H q (proj2 (c09_members_in w q) Hqm)) as [sq [eq' [Hsq _]]].
  pose proof (C09_deps_holds cfg w st Hw Hc Hn H t q e sq Ht Hq He Hsq).
  pose proof (c09_start_le_below cfg w st Hw Hc Hn H _ s q sq s2 Hs Hu Hsq Hs2). lia.
Qed.

(* ---------- the leaves below a dependant (what the oracle enumerates) are below it ---------- *)
Lemma c09_anc_step w k : forall s c q,
  In c (ancestors w k s) -> k_parent (gett w c) = Some q -> In q (ancestors w (S k) s).
Proof.
  induction k as [|k IH]; intros s c q Hc Hq; [destruct Hc|].
  rewrite c09_anc_S in Hc. rewrite (c09_anc_S w (S k)).
  destruct (k_parent (gett w s)) as [p|]; [|destruct Hc]. destruct Hc as [<-|Hc].
  - right. rewrite c09_anc_S, Hq. left. reflexivity.
  - right. eapply IH; eauto.
Qed.

Lemma c09_anc_trans w s c q : WFin w -> k_ext (gett w s) = false ->
  In c (ancestors w (length w) s) -> k_parent (gett w c) = Some q -> In q (ancestors w (length w) s).
Proof.
  intros Hw Hs Hc Hq. rewrite <- (c09_anc_stable w (length w) s) by (apply c09_anc_length; assumption).
  eapply c09_anc_step; eauto.
Qed.

Lemma c09_leaves_S w f t :
  leaves_of w (S f) t = match k_children (gett w t) with
                        | [] => [t]
                        | cs => if k_ext (gett w t) then [t] else flat_map (leaves_of w f) cs
                        end.
Proof. reflexivity. Qed.

Lemma c09_leaves_ext w f q : k_ext (gett w q) = true -> leaves_of w f q = [q].
Proof.
  intros H. destruct f as [|f]; [reflexivity|]. rewrite c09_leaves_S, H.
  destruct (k_children (gett w q)); reflexivity.
Qed.

Lemma c09_leaves_below w : WFin w -> forall f q s, k_ext (gett w q) = false -> In s (leaves_of w f q) ->
  s = q \/ (k_ext (gett w s) = false /\ In q (ancestors w (length w) s)).
Proof.
  intros Hw. induction f as [|f IH]; intros q s Hq Hs.
  - destruct Hs as [<-|[]]. left. reflexivity.
  - rewrite c09_leaves_S in Hs. destruct (c09_wfin_parts w q Hw Hq) as [Hchild _].
    destruct (k_children (gett w q)) as [|c cs] eqn:Ec; [destruct Hs as [<-|[]]; left; reflexivity|].
    rewrite Hq in Hs. apply in_flat_map in Hs. destruct Hs as [ch [Hch Hs]].
    destruct (Hchild ch Hch) as [Hcm Hcp].
    right. destruct (IH ch s Hcm Hs) as [->|[Hsm Hin]].
    + split; [exact Hcm|]. rewrite (c09_anc_parent w ch q Hw Hcm Hcp). left. reflexivity.
    + split; [exact Hsm|]. eapply c09_anc_trans; eauto.
Qed.
